"""Shared machinery of the stream work package (C11, C12, C16).

A *history* is a list of JSON-able operation descriptions.  `Runner` executes it on the real library
(`$FUNC_ADL_REPO`), recording after EVERY step, for EVERY live stream: the generic-tree encoding of
`query_ast`, the item type, `lookup_query_metadata` for every key of the history, the dataset found by
`find_EventDataset`; plus the global executor call log and what each value()/value_async() delivered.
While running it emits the same history in the wire format of ocaml/driver_stream.ml (the model's
`Derive` takes the lambda *as processed by the library* and the callback metadata as inputs: lambda
processing is not part of these properties).  `compare` then diffs the two sides.
"""
from __future__ import annotations

import ast
import asyncio
import hashlib
import logging
from typing import Any, Dict, Iterable, List, Optional

# ---------------------------------------------------------------- S-expressions


def hx(s: str) -> str:
    return "s" + s.encode("utf-8", "surrogatepass").hex()


def unhx(t: str) -> str:
    return bytes.fromhex(t[1:]).decode("utf-8", "surrogatepass")


def sx_parse(s: str):
    pos = 0
    n = len(s)
    stack: List[list] = [[]]
    while pos < n:
        c = s[pos]
        if c == "(":
            stack.append([])
            pos += 1
        elif c == ")":
            top = stack.pop()
            stack[-1].append(top)
            pos += 1
        elif c in " \t\n":
            pos += 1
        else:
            st = pos
            while pos < n and s[pos] not in " \t\n()":
                pos += 1
            stack[-1].append(s[st:pos])
    assert len(stack) == 1 and len(stack[0]) == 1, "sx: " + s[:200]
    return stack[0][0]


def sx_str(x) -> str:
    if isinstance(x, str):
        return x
    return "(" + " ".join(sx_str(y) for y in x) + ")"


def md5(s: str) -> str:
    return hashlib.md5(s.encode()).hexdigest()


# ---------------------------------------------------------------- generic-tree codec of Python ast objects

def raw_tag(v: Any) -> str:
    if v is None:
        return "None"
    if v is Ellipsis:
        return "E"
    t = type(v)
    if t is bool:
        return "b:%s" % v
    if t is int:
        return "i:%d" % v
    if t is float:
        return "f:%r" % v
    if t is complex:
        return "x:%r" % v
    if t is bytes:
        return "y:" + v.hex()
    if isinstance(v, ast.AST):
        return "c:" + t.__name__
    return "o:" + t.__name__


def enc_atom(v: Any) -> str:
    if type(v) is str:
        return "(s %s)" % hx(v)
    return "(r %s)" % hx(raw_tag(v))


def enc_tree(n: Any, refs: Optional[Dict[int, int]] = None) -> str:
    """What ast.iter_fields exposes, as text.  Nodes of classes without fields are atoms.
    With `refs` (id(node) -> stream id) the roots of existing streams become `(ref sid)`."""
    if not isinstance(n, ast.AST) or not n._fields:
        return enc_atom(n)
    if refs is not None and id(n) in refs:
        return "(ref %d)" % refs[id(n)]
    parts = ["n", type(n).__name__]
    for f, v in ast.iter_fields(n):
        if isinstance(v, list):
            parts.append("(%s L%s)" % (f, "".join(" " + enc_tree(x, refs) for x in v)))
        else:
            parts.append("(%s 1 %s)" % (f, enc_tree(v, refs)))
    return "(" + " ".join(parts) + ")"


def enc_qattrs(n: Any) -> str:
    """The query metadata hung on the nodes of a query AST (what lookup_query_metadata reads): for every node that has a
    `_q_metadata` attribute, its pre-order position and the sorted key/value pairs.  Other non-field attributes are not
    looked at (nothing public reads them off a derived stream)."""
    out: List[str] = []
    cnt = [0]

    def rec(x):
        if isinstance(x, list):
            for y in x:
                rec(y)
            return
        if not isinstance(x, ast.AST):
            return
        i = cnt[0]
        cnt[0] += 1
        q = getattr(x, "_q_metadata", None)
        if q is not None:
            try:
                body = " ".join(sorted("(%s %s)" % (hx(str(k)), enc_val(v)) for k, v in q.items()))
            except Exception:  # noqa
                body = hx(repr(q))
            out.append("(%d %s)" % (i, body))
        for _f, v in ast.iter_fields(x):
            rec(v)
    rec(n)
    return " ".join(out)


def enc_val(v: Any) -> str:
    """a query-metadata value as a model atom (injective on the value domain the generators use)"""
    if type(v) is str:
        return "(s %s)" % hx(v)
    if v is None or type(v) in (int, bool, float):
        return "(r %s)" % hx(raw_tag(v))
    return "(r %s)" % hx("v:" + repr(v))


def lit_ast(v: Any) -> ast.AST:
    """the ast of a Python literal, built independently of func_adl.util_ast.as_ast"""
    return ast.parse(repr(v), mode="eval").body


# ---------------------------------------------------------------- the classes queries are typed with

from func_adl import func_adl_callback  # noqa: E402  (PYTHONPATH points at the repository under test)


class Jet:
    def pt(self) -> float: ...
    def eta(self) -> float: ...


def _cb_md(s, a):
    return s.MetaData({"cb": "jets"}), a


def _cb_empty(s, a):
    return s.MetaData({}), a


class Evt:
    def met(self, unit: int = 1) -> float: ...      # a default to fill in: the follower edits the lambda it is given
    def jets(self) -> Iterable[Jet]: ...

    @func_adl_callback(_cb_md)
    def jets_md(self) -> Iterable[Jet]: ...

    @func_adl_callback(_cb_empty)
    def jets_e(self) -> Iterable[Jet]: ...


@func_adl_callback(_cb_empty)
class EvtC:
    def met(self, unit: int = 2) -> float: ...

    @func_adl_callback(_cb_md)
    def jets(self) -> Iterable[Jet]: ...


TYPES: Dict[str, Any] = {"Any": Any, "Evt": Evt, "EvtC": EvtC, "Jet": Jet}


def tyname(t: Any) -> str:
    if t is bool:
        return "bool"
    if t is Any:
        return "typing.Any"
    for k, v in TYPES.items():
        if v is t:
            return k
    if t is float:
        return "float"
    if t is int:
        return "int"
    return repr(t).replace("stream_common.", "")


# declared result types of the pool lambdas (oracle for the item type the library computes):
# (source, {item type name: (Select type, SelectMany type)})
LAMBDAS = [
    ("lambda e: e.met()", {"Evt": ("float", None), "EvtC": ("float", None), "typing.Any": ("typing.Any", "typing.Any")}),
    ("lambda e: e.jets()", {"Evt": ("typing.Iterable[Jet]", "Jet"), "EvtC": ("typing.Iterable[Jet]", "Jet"),
                            "typing.Any": ("typing.Any", "typing.Any")}),
    ("lambda e: e.jets_md()", {"Evt": ("typing.Iterable[Jet]", "Jet"), "typing.Any": ("typing.Any", "typing.Any")}),
    ("lambda e: e.jets_e()", {"Evt": ("typing.Iterable[Jet]", "Jet"), "typing.Any": ("typing.Any", "typing.Any")}),
    ("lambda j: j.pt()", {"Jet": ("float", None), "typing.Any": ("typing.Any", "typing.Any")}),
    ("lambda e: e.x", {"typing.Any": ("typing.Any", "typing.Any")}),
    ("lambda e: (e.x, e.y)", {"typing.Any": ("typing.Any", "typing.Any")}),
    ("lambda e: MetaData(e.x, {})", {}),
    ("lambda e: MetaData(e.x, {'k': 2})", {}),
    ("lambda e: f(MetaData(MetaData(e, {}), {}), g(e))", {}),
]
WHERES = [
    "lambda e: e.met() > 10", "lambda j: j.pt() > 5", "lambda e: e.x > 1", "lambda e: e.x > 1 and e.y < 2",
    "lambda e: e.x",            # the last one does not return bool on typed or untyped streams
    "lambda e: e.met()",
]

class ColumnTypeError(TypeError):
    """an executor's own error that happens to be a TypeError (what a compatibility fallback would mistake for a signature mismatch)"""


EXC = {"RuntimeError": RuntimeError, "KeyError": KeyError, "ValueError": ValueError, "ZeroDivisionError": ZeroDivisionError,
       "TypeError": TypeError, "ColumnTypeError": ColumnTypeError, "AttributeError": AttributeError, "NotImplementedError": NotImplementedError}

_W: Optional["Runner"] = None       # the world the executors of the running history report to


def _dataset_class():
    from func_adl import EventDataset

    class RecDataset(EventDataset):
        """A dataset whose executor records every invocation and then behaves as scripted."""

        def __init__(self, idx: int, item_type):
            super().__init__(item_type)
            self.idx = idx

        async def execute_result_async(self, a: ast.AST, title: Optional[str] = None):
            # the executor of the dataset OBJECT at the root of the stream: a (shallow) copy of it is another object,
            # with its own state from then on
            own = any(self is d for d in _W.datasets)
            return await _W.executor_called(("d", self.idx) if own else ("copy-of-d", self.idx), a, title)

    class RecDatasetTask(RecDataset):
        """The same, written as a plain function that returns an awaitable which is not a coroutine (a Task), as an
        executor that hands the work to a pool does."""

        def execute_result_async(self, a: ast.AST, title: Optional[str] = None):  # type: ignore
            own = any(self is d for d in _W.datasets)
            return asyncio.ensure_future(_W.executor_called(("d", self.idx) if own else ("copy-of-d", self.idx), a, title))

    RecDataset.TaskVariant = RecDatasetTask
    return RecDataset


def _scribble(a: ast.AST):
    """In-place edits of the tree an executor was handed, of the kind an in-place NodeTransformer makes."""
    for n in list(ast.walk(a)):
        if isinstance(n, ast.Call):
            if isinstance(n.func, ast.Name) and n.func.id == "MetaData" and n.args:
                n.args[1:] = [ast.Constant(value="scribbled")]
            elif len(n.args) > 1:
                n.args[1:] = []
            n.keywords = []
        elif isinstance(n, ast.Lambda):
            n.body = ast.Constant(value=None)
        for extra in ("_q_metadata", "_func_adl_executor"):
            if hasattr(n, extra) and not isinstance(n, ast.Call):
                pass


def make_override(k: int):
    if k % 2 == 1:
        def override(a, title=None):        # a plain function returning a Task (an awaitable that is not a coroutine)
            return asyncio.ensure_future(_W.executor_called(("o", k), a, title))
    else:
        async def override(a, title=None):
            return await _W.executor_called(("o", k), a, title)
    override.idx = k
    return override


class Shape(Exception):
    pass


class Runner:
    """Runs one history on the implementation."""

    def __init__(self, history: List[dict], keys: Optional[List[str]] = None, observe_all: bool = True,
                 focus=("dump", "lookup", "root")):
        global _W
        self.history = history
        self.keys = keys if keys is not None else history_keys(history)
        self.observe_all = observe_all
        self.focus = focus
        self.datasets: List[Any] = []
        self.streams: List[Any] = []
        self.glog: List[tuple] = []          # (exid, node received, title)
        self.calls: List[dict] = []          # per value call: {task|None, fut|None, result}
        self.loop: Optional[asyncio.AbstractEventLoop] = None
        self.behaviour = None                # what the next executor invocation does
        self.model_ops: List[str] = []
        self.outs: List[tuple] = []          # impl outcome per emitted model op
        self.resolved: List[dict] = []       # the history with stream/call choices made concrete
        self.obs_steps: List[List[tuple]] = []   # per model op: observation of every live stream
        self.log_len_steps: List[int] = []
        self.qa_steps: List[Optional[List[str]]] = []   # per model op: enc_qattrs of every live stream ("qattrs" in focus)
        self.qmd_targets: List[str] = []     # per QMetaData call: what its target stream looked like (input distribution)
        self.shape_errors: List[str] = []
        self.RecDataset = _dataset_class()
        _W = self

    # ---------------------------------------------------------------- executors
    async def executor_called(self, exid, a, title):
        # what the executor received is recorded first; then the executor does to its argument what backends do
        # (extract_metadata and friends edit the tree they are given in place): the library must have handed over a
        # tree of its own, so none of this may show on any stream
        self.glog.append((exid, a, title, enc_tree(a), ast.dump(a)))
        _scribble(a)
        beh = self.behaviour
        self.behaviour = None
        if beh is None:
            raise AssertionError("executor invoked outside a value call")
        if beh[0] == "now":
            return self._deliver(beh[1])
        fut = self.loop.create_future()
        self.calls[beh[1]]["fut"] = fut
        return await fut

    @staticmethod
    def _deliver(res):
        if res[0] == "R":
            return res[1]
        raise EXC[res[1]]("scripted")

    def _tick(self, n=1):
        for _ in range(n):
            self.loop.run_until_complete(asyncio.sleep(0))

    # ---------------------------------------------------------------- observations
    def observe_stream(self, s) -> tuple:
        from func_adl import find_EventDataset
        from func_adl.ast.meta_data import lookup_query_metadata

        d = md5(enc_tree(s.query_ast)) if "dump" in self.focus else None
        looks = tuple(enc_val(lookup_query_metadata(s, k)) for k in self.keys) if "lookup" in self.focus else None
        if "root" not in self.focus:
            return (d, tyname(s.item_type), looks, None)
        try:
            n = find_EventDataset(s.query_ast)
            o = getattr(n, "_eds_object", None)
            root = ("ok", self.datasets.index(o)) if o in self.datasets else ("err", "AttributeError")
        except Exception as ex:  # noqa
            m = str(ex)
            root = ("err", "ManyRoots" if "more than one" in m else "NoRoot" if "no root" in m else type(ex).__name__)
        return (d, tyname(s.item_type), looks, root)

    def _after_step(self):
        if self.observe_all:
            self.obs_steps.append([self.observe_stream(s) for s in self.streams])
        else:
            self.obs_steps.append([])
        self.qa_steps.append([enc_qattrs(s.query_ast) for s in self.streams]
                             if (self.observe_all and "qattrs" in self.focus) else None)
        self.log_len_steps.append(len(self.glog))

    def _emit(self, op_sx: str, out: tuple):
        self.model_ops.append(op_sx)
        self.outs.append(out)
        self._after_step()

    def refs(self) -> Dict[int, int]:
        r: Dict[int, int] = {}
        for i, s in enumerate(self.streams):
            r.setdefault(id(s.query_ast), i)
        return r

    def _new_stream(self, s) -> tuple:
        self.streams.append(s)
        return ("S", len(self.streams) - 1, tyname(s.item_type), enc_tree(s.query_ast), s.query_ast)

    # ---------------------------------------------------------------- building trees with references
    def build_ast(self, src: str) -> ast.AST:
        """parse an expression; every Name `S<k>` stands for the query_ast OBJECT of stream k (mod #streams)"""
        t = ast.parse(src, mode="eval").body
        streams = self.streams

        class Sub(ast.NodeTransformer):
            def visit_Name(self, node):
                if len(node.id) > 1 and node.id[0] == "S" and node.id[1:].isdigit() and streams:
                    return streams[int(node.id[1:]) % len(streams)].query_ast
                return node
        return Sub().visit(t)

    # ---------------------------------------------------------------- steps
    def run(self):
        try:
            for o in self.history:
                self.step(dict(o))
        finally:
            if self.loop is not None:
                for c in self.calls:
                    t = c.get("task")
                    if t is not None and not t.done():
                        t.cancel()
                try:
                    self._tick(2)
                except Exception:  # noqa
                    pass
                self.loop.close()
        return self

    def _pick_stream(self, o) -> Optional[int]:
        if not self.streams:
            return None
        return o["s"] % len(self.streams)

    def step(self, o: dict):
        from func_adl import ObjectStream

        kind = o["op"]
        if kind == "ds":
            cls = self.RecDataset.TaskVariant if len(self.datasets) % 2 == 1 else self.RecDataset
            d = cls(len(self.datasets), TYPES[o["ty"]])
            self.datasets.append(d)
            self.resolved.append(o)
            self._emit("(ds %s)" % hx(tyname(TYPES[o["ty"]])), self._new_stream(d))
            return
        if kind == "new":
            tree = self.build_ast(o["src"])
            refs = self.refs()
            it = enc_tree(tree, refs)
            ty = TYPES[o.get("ty", "Any")]
            self.resolved.append(o)
            s = ObjectStream(tree, ty)
            self._emit("(new %s %s)" % (it, hx(tyname(ty))), self._new_stream(s))
            return
        if kind == "vf":
            pend = [i for i, c in enumerate(self.calls) if c["result"] is None]
            if not pend:
                return
            # a resolved history names the call itself; a generated one picks among the pending calls
            c = o["c"] if (o.get("abs") and o["c"] in pend) else pend[o["c"] % len(pend)]
            o["c"] = c
            o["abs"] = True
            self.resolved.append(o)
            res = o["res"]
            fut = self.calls[c]["fut"]
            if res[0] == "R":
                fut.set_result(res[1])
            else:
                fut.set_exception(EXC[res[1]]("scripted"))
            task = self.calls[c]["task"]
            for _ in range(6):
                if task.done():
                    break
                self._tick()
            got = self._task_result(task)
            self.calls[c]["result"] = got
            self._emit("(vf %d %s)" % (c, enc_res(res)), ("D", c, got))
            return
        si = self._pick_stream(o)
        if si is None:
            return
        o["s"] = si
        ps = self.streams[si]
        if kind == "der":
            self.resolved.append(o)
            self._derive(o, si, ps)
        elif kind == "md":
            self.resolved.append(o)
            try:
                s = ps.MetaData(o["val"])
                out = self._new_stream(s)
            except Exception as ex:  # noqa
                out = ("E", type(ex).__name__)
            self._emit("(md %d %s)" % (si, enc_tree(lit_ast(o["val"]))), out)
        elif kind == "qmd":
            self.resolved.append(o)
            top = ps.query_ast
            others = sum(1 for j, t in enumerate(self.streams) if j != si and any(x is top for x in ast.walk(t.query_ast)))
            self.qmd_targets.append(("top-with-qmd" if hasattr(top, "_q_metadata") else "bare-top")
                                    + ("/dataset" if any(ps is d for d in self.datasets) else "/derived")
                                    + ("/shared-with-%s-streams" % ("0" if others == 0 else "1" if others == 1 else ">=2")))
            try:
                s = ps.QMetaData(dict(o["kv"]))
                out = self._new_stream(s)
            except Exception as ex:  # noqa
                out = ("E", type(ex).__name__)
            self._emit("(qmd %d (%s))" % (si, " ".join("(%s %s)" % (hx(k), enc_val(v)) for k, v in o["kv"])), out)
        elif kind == "term":
            self.resolved.append(o)
            args = dict(o["args"])
            try:
                s = getattr(ps, o["m"])(**args)
                out = self._new_stream(s)
            except Exception as ex:  # noqa
                out = ("E", type(ex).__name__)
            lits = []
            for p, v in sorted(args.items()):
                if p == "columns" and isinstance(v, str):
                    v = [v]
                lits.append("(%s %s)" % (p, enc_tree(lit_ast(v))))
            if "columns" not in args:
                lits.append("(columns %s)" % enc_tree(lit_ast([])))
            self._emit("(term %d %s (%s))" % (si, o["m"], " ".join(lits)), out)
        elif kind == "val":
            self.resolved.append(o)
            self._value_sync(o, si, ps)
        elif kind == "vs":
            self.resolved.append(o)
            self._value_start(o, si, ps)
        else:
            raise ValueError(kind)

    def _derive(self, o, si, ps):
        src = o["lam"]
        arg: Any = src
        if o.get("prebuilt") == "shared":
            # the caller hands the SAME lambda tree to several operator calls (F52: it must stay the caller's)
            if not hasattr(self, "_shared_lambdas"):
                self._shared_lambdas = {}
            if src not in self._shared_lambdas:
                self._shared_lambdas[src] = self.build_ast(src)
            arg = self._shared_lambdas[src]
        elif o.get("prebuilt"):
            arg = self.build_ast(src)
        refs = self.refs()
        try:
            s = getattr(ps, o["kind"])(arg)
        except Exception as ex:  # noqa
            # only Where's "must return a boolean" is modelled as a failure of Derive
            it = enc_tree(arg if isinstance(arg, ast.AST) else ast.parse(src, mode="eval").body, refs)
            self._emit("(der %d %s %s () %s)" % (si, o["kind"], it, hx("not-bool")), ("E", type(ex).__name__))
            return
        root = s.query_ast
        cbs = []
        try:
            if not (isinstance(root, ast.Call) and isinstance(root.func, ast.Name) and len(root.args) == 2):
                raise Shape("derived root is not a 2-argument call")
            src_node = root.args[0]
            while src_node is not ps.query_ast:
                if not (isinstance(src_node, ast.Call) and isinstance(src_node.func, ast.Name)
                        and src_node.func.id == "MetaData" and len(src_node.args) == 2) or len(cbs) > 20:
                    raise Shape("the source of the derived call is not the parent's AST object under MetaData wrappers")
                cbs.append(enc_tree(src_node.args[1]))
                src_node = src_node.args[0]
        except Shape as ex:
            self.shape_errors.append("%s: %s" % (o, ex))
        cbs.reverse()
        rty = "bool" if o["kind"] == "Where" else tyname(s.item_type)
        self._emit("(der %d %s %s (%s) %s)" % (si, o["kind"], enc_tree(root.args[1] if len(getattr(root, "args", [])) == 2 else root, refs),
                                               " ".join(cbs), hx(rty)), self._new_stream(s))

    def _kwargs(self, o):
        kw = {}
        if o.get("ov") is not None:
            kw["executor"] = make_override(o["ov"])
        if o.get("title") is not None:
            kw["title"] = o["title"]
        return kw

    def _vs_sx(self, o, si):
        return "(vs %d %s %s)" % (si, "-" if o.get("ov") is None else str(o["ov"]),
                                  "-" if o.get("title") is None else hx(o["title"]))

    def _value_sync(self, o, si, ps):
        n0 = len(self.glog)
        self.behaviour = ("now", o["res"])
        try:
            got = ("R", ps.value(**self._kwargs(o)))
        except Exception as ex:  # noqa
            got = ("X", type(ex).__name__)
        self.behaviour = None
        if len(self.glog) == n0:
            self._emit(self._vs_sx(o, si), ("E", got[1]))
            return
        c = len(self.calls)
        self.calls.append({"task": None, "fut": None, "result": got})
        exid, node, title, enc, _d = self.glog[n0]
        self._emit(self._vs_sx(o, si), ("C", c, exid, enc, title, len(self.glog) - n0))
        self._emit("(vf %d %s)" % (c, enc_res(o["res"])), ("D", c, got))

    def _value_start(self, o, si, ps):
        if self.loop is None:
            self.loop = asyncio.new_event_loop()
        n0 = len(self.glog)
        c = len(self.calls)
        self.behaviour = ("fut", c)
        self.calls.append({"task": None, "fut": None, "result": None})
        task = self.loop.create_task(ps.value_async(**self._kwargs(o)))
        for _ in range(6):
            self._tick()
            if task.done() or len(self.glog) > n0:
                break
        self.behaviour = None
        if len(self.glog) == n0:
            self.calls.pop()
            got = self._task_result(task) if task.done() else ("X", "NeverCalled")
            self._emit(self._vs_sx(o, si), ("E", got[1]))
            return
        self.calls[c]["task"] = task
        exid, node, title, enc, _d = self.glog[n0]
        self._emit(self._vs_sx(o, si), ("C", c, exid, enc, title, len(self.glog) - n0))

    @staticmethod
    def _task_result(task):
        if not task.done():
            return ("X", "StillPending")
        if task.cancelled():
            return ("X", "Cancelled")
        ex = task.exception()
        if ex is not None:
            return ("X", type(ex).__name__)
        return ("R", task.result())


def enc_res(res) -> str:
    return "(%s %s)" % (res[0], hx(res[1]))


def history_keys(history: List[dict]) -> List[str]:
    ks = set()
    for o in history:
        if o["op"] == "qmd":
            ks.update(k for k, _ in o["kv"])
    return sorted(ks) + ["never"]


# ---------------------------------------------------------------- comparison with the model

ERRMAP = {"NoRoot": "Exception", "ManyRoots": "Exception"}


class Registry:
    """model address <-> Python node object, built while matching the model's addressed dumps"""

    def __init__(self):
        self.by_addr: Dict[int, Any] = {}
        self.by_id: Dict[int, int] = {}

    def match(self, g, obj, runner: Runner) -> Optional[str]:
        if g[0] in ("s", "r"):
            return None if sx_str(g) == enc_atom(obj) else "leaf %s vs %r" % (sx_str(g), obj)
        if g[0] == "@":
            a = int(g[1])
            if self.by_addr.get(a) is not obj:
                return "the code does not share the object the model shares (model address %d)" % a
            return None
        if g[0] != "N":
            return "bad dump " + str(g[0])
        a = int(g[1])
        if not isinstance(obj, ast.AST):
            return "node vs value"
        if id(obj) in self.by_id:
            return "the code reuses an existing %s object where the model allocates a new one" % type(obj).__name__
        self.by_addr[a] = obj
        self.by_id[id(obj)] = a
        if g[2] != type(obj).__name__:
            return "class %s vs %s" % (g[2], type(obj).__name__)
        want = {}
        for k, v in vars(obj).items():
            if k in obj._fields or k in obj._attributes:
                continue
            if k == "_func_adl_executor":
                want[k] = "(exec %s)" % exid_sx(exid_of(v, runner))
            elif k == "_eds_object":
                want[k] = "(eds %d)" % (runner.datasets.index(v) if v in runner.datasets else -1)
            elif k == "_q_metadata":
                want[k] = "(qmd %s)" % " ".join(sorted("(%s %s)" % (hx(kk), enc_val(vv)) for kk, vv in v.items()))
            else:
                want[k] = "?"
        got = {}
        for k, v in g[3]:
            if v[0] == "qmd":
                got[k] = "(qmd %s)" % " ".join(sorted(sx_str(x) for x in v[1:]))
            else:
                got[k] = sx_str(v)
        if got != want:
            return "non-field attributes of %s: model %s, code %s" % (g[2], got, want)
        fields = list(ast.iter_fields(obj))
        if len(fields) != len(g) - 4:
            return "field count of %s" % g[2]
        for (f, v), gf in zip(fields, g[4:]):
            if gf[0] != f:
                return "field %s vs %s" % (gf[0], f)
            if isinstance(v, list):
                if gf[1] != "L" or len(gf) - 2 != len(v):
                    return "list field %s" % f
                for x, gx in zip(v, gf[2:]):
                    r = self.match(gx, x, runner)
                    if r:
                        return r
            else:
                if gf[1] != "1":
                    return "field kind %s" % f
                r = self.match(gf[2], v, runner)
                if r:
                    return r
        return None


def exid_of(fn, runner: Runner):
    if hasattr(fn, "__self__") and fn.__self__ in runner.datasets:
        return ("d", runner.datasets.index(fn.__self__))
    if hasattr(fn, "idx"):
        return ("o", fn.idx)
    return ("?", -1)


def exid_sx(e) -> str:
    return "(%s %d)" % (e[0], e[1])


class Diff:
    """Differences between one run of the implementation and the model's answer, by observable."""

    def __init__(self):
        self.structure: List[str] = []    # C11: outcome kind, dump, item type, sharing, later change of a stream
        self.routing: List[str] = []      # C12: executor, AST handed over, title, delivered result, errors of value, roots
        self.qmd: List[str] = []          # C16: lookups
        self.graph: List[str] = []        # sharing/attributes of the node objects (informational)

    def any(self):
        return self.structure or self.routing or self.qmd


def compare(runner: Runner, answer: str) -> Diff:
    d = Diff()
    if answer.startswith("FAIL") or answer.startswith("BADCMD"):
        d.structure.append("driver: " + answer[:200])
        return d
    a = sx_parse(answer)
    steps = a[0][1:]
    final = {int(x[0]): x for x in a[1][1:]}
    calls = a[2][1:]
    reg = Registry()
    if len(steps) != len(runner.outs):
        d.structure.append("step count")
        return d
    for e in runner.shape_errors:
        d.structure.append("shape: " + e)
    for i, (m, o) in enumerate(zip(steps, runner.outs)):
        tag = "step %d %s: " % (i, runner.model_ops[i][:60])
        if m[0] == "E":
            want = ERRMAP.get(m[1], m[1])
            if o[0] != "E" or o[1] != want:
                (d.routing if runner.model_ops[i].startswith("(vs") else d.structure).append(
                    tag + "model raises %s, code gives %s" % (m[1], o[:2]))
                return d
            continue
        if m[0] != o[0]:
            (d.routing if runner.model_ops[i].startswith("(v") else d.structure).append(
                tag + "model outcome %s, code outcome %s" % (m[0], o[:2]))
            return d
        if m[0] == "S":
            if int(m[1]) != o[1]:
                d.structure.append(tag + "stream id")
                return d
            if unhx(m[2]) != o[2]:
                d.structure.append(tag + "item type: model %s, code %s" % (unhx(m[2]), o[2]))
            if sx_str(m[3]) != o[3]:
                d.structure.append(tag + "query AST differs: model %s code %s" % (sx_str(m[3])[:300], o[3][:300]))
            else:
                r = reg.match(m[4], o[4], runner)
                if r:
                    # which objects are shared/new and what they carry is not observable by itself: recorded, not alarmed
                    d.graph.append(tag + "object graph: " + r)
        elif m[0] == "C":
            if int(m[1]) != o[1]:
                d.routing.append(tag + "call id")
            if sx_str(m[2]) != exid_sx(o[2]):
                d.routing.append(tag + "executor: model %s, code %s" % (sx_str(m[2]), exid_sx(o[2])))
            if sx_str(m[3]) != o[3]:
                d.routing.append(tag + "AST handed to the executor: model %s code %s" % (sx_str(m[3])[:300], o[3][:300]))
            if (None if m[4] == "-" else unhx(m[4])) != o[4]:
                d.routing.append(tag + "title: model %s code %r" % (m[4], o[4]))
            if o[5] != 1:
                d.routing.append(tag + "the code invoked executors %d times" % o[5])
        elif m[0] == "D":
            want = (m[2][0], unhx(m[2][1]))
            if int(m[1]) != o[1] or want != tuple(o[2]):
                d.routing.append(tag + "delivered result: model %s code %s" % (want, o[2]))
    # every live stream after every step == the model's (by theorem constant) observation of that stream
    for i, obs in enumerate(runner.obs_steps):
        for sid, (dump, ty, looks, root) in enumerate(obs):
            f = final.get(sid)
            if f is None:
                d.structure.append("stream %d missing in the model" % sid)
                continue
            if (dump is not None and f[1] != dump) or unhx(f[2]) != ty:
                d.structure.append("after step %d %s: stream %d has dump/type %s/%s, the model %s/%s"
                                   % (i, runner.model_ops[i][:50], sid, str(dump)[:8], ty, f[1][:8], unhx(f[2])))
            ml = tuple("(r %s)" % hx("None") if x == "-" else sx_str(x) for x in f[3])
            if looks is not None and ml != looks:
                d.qmd.append("after step %d: lookups on stream %d for keys %s: model %s, code %s"
                             % (i, sid, runner.keys, ml, looks))
            mr = (f[4][0], int(f[4][1]) if f[4][0] == "ok" else f[4][1])
            if root is not None and mr != root:
                d.routing.append("after step %d: dataset root of stream %d: model %s, code %s" % (i, sid, mr, root))
    # delivered results at the end
    for c, (m, call) in enumerate(zip(calls, runner.calls)):
        got = call["result"]
        want = None if m == "-" else (m[0], unhx(m[1]))
        if (None if got is None else tuple(got)) != want:
            d.routing.append("call %d delivered %s, model %s" % (c, got, want))
    if len(calls) != len(runner.calls):
        d.routing.append("number of value calls: model %d code %d" % (len(calls), len(runner.calls)))
    return d


# ---------------------------------------------------------------- oracles (implementation only)

def _looks_txt(looks) -> str:
    return str([unhx(x.split()[1][:-1]) for x in looks])


def oracle_immutable(r: Runner) -> Optional[str]:
    """C11: what is observed on every live stream equals its first observation, after every step: the dump of the query AST,
    the item type, and the query metadata the AST carries - both as stored on its nodes (`_q_metadata`, the state QMetaData's
    node copy protects) and as read back by lookup_query_metadata for every key the history uses."""
    first: Dict[int, tuple] = {}
    for i, obs in enumerate(r.obs_steps):
        qa = r.qa_steps[i] if i < len(r.qa_steps) else None
        for sid, (dump, ty, looks, _r) in enumerate(obs):
            q = qa[sid] if qa is not None else None
            if sid not in first:
                first[sid] = (dump, ty, looks, q, i)
                continue
            d0, t0, l0, q0, i0 = first[sid]
            head = "stream %d (created at step %d) changed at step %d %s: " % (sid, i0, i, r.model_ops[i][:60])
            if (d0, t0) != (dump, ty):
                return head + "dump %s -> %s, item type %s -> %s" % (str(d0)[:8], str(dump)[:8], t0, ty)
            if looks is not None and l0 is not None and l0 != looks:
                return head + "lookup_query_metadata for keys %s gave %s, now gives %s" % (r.keys, _looks_txt(l0), _looks_txt(looks))
            if q is not None and q0 is not None and q0 != q:
                return head + "query metadata on the nodes of its query AST (pre-order position, pairs) was [%s], now is [%s]" % (
                    _qa_txt(q0), _qa_txt(q))
    return None


def _qa_txt(q: str) -> str:
    try:
        t = sx_parse("(" + q + ")")
        return "; ".join("node %s: {%s}" % (e[0], ", ".join("%s: %s" % (unhx(kv[0]), unhx(kv[1][1])) for kv in e[1:])) for e in t)
    except Exception:  # noqa
        return q[:200]


def _mentions_stream(src: str) -> bool:
    return "S" in src and any(isinstance(n, ast.Name) and n.id[:1] == "S" and n.id[1:].isdigit() for n in ast.walk(ast.parse(src)))


_PATH_CACHE: Dict[str, tuple] = {}


def oracle_independent(r: Runner) -> Optional[str]:
    """C11, last sentence (streams derived from a common parent are independent of each other): what is observed on a stream
    at the end of the history equals what is observed on the last stream of the history made of the operations on its own
    derivation path only - no sibling, no execution, no other dataset.  Streams whose AST embeds another stream's AST object
    (`new`/prebuilt lambdas naming S<k>) are skipped: their path is not a chain."""
    import json

    if not r.obs_steps or not r.obs_steps[-1]:
        return None
    made: List[Optional[dict]] = []      # per stream: the operation that created it
    k = 0
    for o in r.resolved:
        out = r.outs[k]
        k += 2 if (o["op"] == "val" and out[0] == "C") else 1
        if out[0] == "S":
            made.append(o)
    if len(made) != len(r.streams):
        return None
    last = r.obs_steps[-1]
    qa = r.qa_steps[-1] if r.qa_steps else None
    for sid in range(len(r.streams)):
        path = []
        j: Optional[int] = sid
        ok = True
        while j is not None:
            o = made[j]
            if o["op"] == "new" or (o.get("prebuilt") and _mentions_stream(o["lam"])):
                ok = False
                break
            path.append(o)
            j = None if o["op"] == "ds" else o["s"]
        if not ok or len(path) == len(r.streams):
            continue            # the whole history is this stream's path: nothing to be independent of
        path.reverse()
        h = [dict(o, s=i - 1) if o["op"] != "ds" else dict(o) for i, o in enumerate(path)]
        key = json.dumps([h, r.keys, list(r.focus)], sort_keys=True)
        want = _PATH_CACHE.get(key)
        if want is None:
            r2 = Runner(h, keys=r.keys, focus=r.focus).run()
            if len(r2.streams) != len(h):
                continue
            want = (r2.obs_steps[-1][-1][:3], r2.qa_steps[-1][-1] if r2.qa_steps[-1] is not None else None)
            if len(_PATH_CACHE) < 200000:
                _PATH_CACHE[key] = want
        got = (last[sid][:3], qa[sid] if qa is not None else None)
        if got != want:
            (d0, t0, l0), q0 = want
            (d1, t1, l1), q1 = got
            what = ("dump %s vs %s, item type %s vs %s" % (str(d0)[:8], str(d1)[:8], t0, t1) if (d0, t0) != (d1, t1) else
                    "lookup_query_metadata for keys %s gives %s vs %s" % (r.keys, _looks_txt(l0), _looks_txt(l1)) if l0 != l1 else
                    "query metadata on the nodes [%s] vs [%s]" % (_qa_txt(q0 or ""), _qa_txt(q1 or "")))
            return ("stream %d built on its own (path %s) and inside the history differ: %s" % (sid, json.dumps(h), what))
    return None


def oracle_types(r: Runner) -> Optional[str]:
    """C11 (item type part): MetaData/QMetaData/Where keep the item type, terminals give Any, Select/SelectMany
    give the declared result type of the pool lambda"""
    decl = {src: m for src, m in LAMBDAS}
    it = iter(r.resolved)
    sid_ty: List[str] = []
    k = 0
    for o in r.resolved:
        kind = o["op"]
        nout = 2 if kind == "val" else 1
        out = r.outs[k] if k < len(r.outs) else None
        k += nout if (kind != "val" or (out and out[0] == "C")) else 1
        if out is None or out[0] != "S":
            continue
        ty = out[2]
        want = None
        if kind == "ds":
            want = tyname(TYPES[o["ty"]])
        elif kind in ("md", "qmd"):
            want = sid_ty[o["s"]]
        elif kind == "term":
            want = "typing.Any"
        elif kind == "der":
            if o["kind"] == "Where":
                want = sid_ty[o["s"]]
            else:
                m = decl.get(o["lam"], {}).get(sid_ty[o["s"]])
                if m:
                    want = m[0 if o["kind"] == "Select" else 1]
        sid_ty.append(ty)
        if want is not None and want != ty:
            return "%s gives a stream of item type %s, expected %s" % (o, ty, want)
    return None


def oracle_routing(r: Runner) -> Optional[str]:
    """C12: the log grows only at value calls, by exactly one entry, on the right executor, with the stream's
    own query minus empty wrappers and the title; the caller gets what that invocation produced"""
    k = 0
    prev = 0
    for o in r.resolved:
        kind = o["op"]
        out = r.outs[k]
        if kind in ("val", "vs"):
            if out[0] == "C":
                c, exid, tree, title, n = out[1:6]
                if n != 1:
                    return "%s invoked executors %d times" % (o, n)
                s = r.streams[o["s"]]
                want_ex = ("o", o["ov"]) if o.get("ov") is not None else expected_executor(r, s)
                if exid != want_ex:
                    return "%s ran on executor %s, expected %s" % (o, exid, want_ex)
                spec = enc_tree(spec_remove_empty(s.query_ast))
                if tree != spec:
                    return "%s handed the executor %s, expected the stream's query without empty MetaData %s" % (o, tree[:200], spec[:200])
                if title != o.get("title"):
                    return "%s passed title %r" % (o, title)
                if r.log_len_steps[k] != prev + 1:
                    return "%s: log grew by %d" % (o, r.log_len_steps[k] - prev)
                prev = r.log_len_steps[k]
                k += 1
                if kind == "val":
                    if tuple(r.outs[k][2]) != tuple(o["res"]):
                        return "%s delivered %s, the executor produced %s" % (o, r.outs[k][2], o["res"])
                    if r.log_len_steps[k] != prev:
                        return "log grew after %s" % o
                    k += 1
                continue
            # the call raised before any executor ran: only legitimate when there is nothing to run it on
            s = r.streams[o["s"]]
            if not has_bad_wrapper(s.query_ast) and (o.get("ov") is not None or expected_executor(r, s)[0] == "d"):
                return "%s raised %s instead of running the query" % (o, out[1])
            k += 1
        elif kind == "vf":
            if tuple(out[2]) != tuple(o["res"]):
                return "call %d delivered %s, its executor invocation produced %s" % (o["c"], out[2], o["res"])
            k += 1
        else:
            k += 1
        if r.log_len_steps[k - 1] != prev:
            return "an executor was invoked during %s" % o
    return None


def expected_executor(r: Runner, s):
    """the dataset object at the root of the stream (independent of _get_executor: scan for the EventDataset call)"""
    found = [n for n in ast.walk(s.query_ast) if isinstance(n, ast.Call) and isinstance(n.func, ast.Name)
             and n.func.id == "EventDataset" and hasattr(n, "_eds_object")]
    node = s.query_ast
    # the root is the one on the args[0] spine
    while isinstance(node, ast.Call) and node not in found and node.args:
        node = node.args[0]
    if node in found and node._eds_object in r.datasets:
        return ("d", r.datasets.index(node._eds_object))
    return ("?", -1)


def has_bad_wrapper(n) -> bool:
    """a MetaData(x, d) whose d is not a Python literal: remove_empty_metadata cannot evaluate it"""
    for x in ast.walk(n):
        if isinstance(x, ast.Call) and isinstance(x.func, ast.Name) and x.func.id == "MetaData" and len(x.args) == 2:
            try:
                ast.literal_eval(x.args[1])
            except Exception:  # noqa
                return True
    return False


def spec_remove_empty(n):
    """independent statement of remove_empty_metadata: MetaData(x, {}) -> x, everything else rebuilt as is"""
    if isinstance(n, list):
        return [spec_remove_empty(x) for x in n]
    if not isinstance(n, ast.AST):
        return n
    kw = {f: spec_remove_empty(v) for f, v in ast.iter_fields(n)}
    if isinstance(n, ast.Call) and isinstance(kw.get("func"), ast.Name) and kw["func"].id == "MetaData" \
            and len(kw["args"]) == 2 and isinstance(kw["args"][1], ast.Dict) and not kw["args"][1].keys \
            and not kw["args"][1].values:
        return kw["args"][0]
    return type(n)(**kw)


def oracle_qmd(r: Runner) -> Optional[str]:
    """C16: lookup == dictionary replay along the derivation path, after every step, for every stream"""
    envs: List[Dict[str, Any]] = []
    tainted: List[bool] = []     # streams whose AST embeds another stream's AST (a join): replay not defined
    k = 0
    for o in r.resolved:
        kind = o["op"]
        out = r.outs[k]
        nsteps = 2 if (kind == "val" and out[0] == "C") else 1
        if out[0] == "S":
            if kind in ("ds",):
                envs.append({}); tainted.append(False)
            elif kind == "new":
                envs.append({}); tainted.append("S" in o["src"] and any(
                    isinstance(n, ast.Name) and n.id[:1] == "S" and n.id[1:].isdigit() for n in ast.walk(ast.parse(o["src"]))))
            elif kind == "qmd":
                e = dict(envs[o["s"]]); e.update(dict(o["kv"])); envs.append(e); tainted.append(tainted[o["s"]])
            else:
                envs.append(dict(envs[o["s"]]))
                tainted.append(tainted[o["s"]] or bool(o.get("prebuilt") and any(
                    isinstance(n, ast.Name) and n.id[:1] == "S" and n.id[1:].isdigit() for n in ast.walk(ast.parse(o["lam"])))))
        for j in range(nsteps):
            for sid, (_d, _t, looks, _r) in enumerate(r.obs_steps[k + j]):
                if tainted[sid]:
                    continue
                want = tuple(enc_val(envs[sid].get(key)) for key in r.keys)
                if looks != want:
                    return ("after %s: lookups on stream %d for %s give %s, the history says %s"
                            % (o, sid, r.keys, [unhx(x.split()[1][:-1]) for x in looks], [envs[sid].get(key) for key in r.keys]))
        k += nsteps
    return None


def erased(history: List[dict]) -> List[dict]:
    return [dict(o, kv=[]) if o["op"] == "qmd" else dict(o) for o in history]


def oracle_invisible(r: Runner) -> Optional[str]:
    """C16: dumps, hashes and executor arguments equal those of the same history with QMetaData setting nothing"""
    from func_adl.ast.ast_hash import calc_ast_hash

    r2 = Runner(erased(r.resolved), keys=r.keys, observe_all=False).run()
    if len(r2.streams) != len(r.streams):
        return "the history without QMetaData creates %d streams instead of %d" % (len(r2.streams), len(r.streams))
    for sid, (a, b) in enumerate(zip(r.streams, r2.streams)):
        if ast.dump(a.query_ast) != ast.dump(b.query_ast):
            return "stream %d dumps differently with and without QMetaData" % sid
        if calc_ast_hash(a.query_ast) != calc_ast_hash(b.query_ast):
            return "stream %d hashes differently with and without QMetaData" % sid
    la = [(e, d, t) for e, n, t, _x, d in r.glog]
    lb = [(e, d, t) for e, n, t, _x, d in r2.glog]
    if la != lb:
        return "executor calls differ with and without QMetaData"
    return None


# ---------------------------------------------------------------- generators

QKEYS = ["a", "b", "c"]
QVALS = [2, 3, "x", "y", None, [2, 3], "2", 1, True, 1.0, 0, False]   # equal under == but different values: 1, True, 1.0 (F48)
MDVALS = [{}, {"m": 2}, {"m": "x", "n": [2, 3]}, {}, {"neg": -4}, "notadict", [], {"d": {}}]
TERMS = [("AsPandasDF", {"columns": ["a", "b"]}), ("AsPandasDF", {"columns": "c"}), ("AsAwkwardArray", {}),
         ("AsROOTTTree", {"filename": "f.root", "treename": "t", "columns": ["x"]}),
         ("AsROOTTTree", {"filename": "t", "treename": "f.root"}),
         ("AsParquetFiles", {"filename": "p.parquet", "columns": "q"}), ("AsParquetFiles", {"filename": "p"})]
NEWS = ["Select(S0, lambda e: e.x)", "f(S0, S1)", "Select(EventDataset(), lambda e: S0)", "g(x)", "MetaData(S1, {})",
        "Select(lambda e: e, S0)", "EventDataset()", "h(args)", "Where(EventDataset('a'), lambda e: EventDataset('b'))"]
JOINS = ["lambda e: S0", "lambda e: (e.x, S1)", "lambda e: f(S0, S1)", "lambda e: MetaData(S2, {})"]
RESULTS = [["R", "r1"], ["R", "r2"], ["X", "RuntimeError"], ["R", "r3"], ["X", "KeyError"], ["X", "TypeError"], ["R", "r1"], ["X", "ColumnTypeError"],
           ["X", "AttributeError"], ["R", "r2"], ["X", "NotImplementedError"]]
TITLES = [None, None, "a title", "t2"]


def random_history(rng, n_ops: int) -> List[dict]:
    h: List[dict] = [{"op": "ds", "ty": rng.choice(["Any", "Evt", "Any", "EvtC"])}]
    nds = 1
    for _ in range(n_ops - 1):
        x = rng.random()
        s = rng.randrange(1000)
        if x < 0.05 and nds < 3:
            h.append({"op": "ds", "ty": rng.choice(["Any", "Evt", "EvtC"])})
            nds += 1
        elif x < 0.30:
            kind = rng.choice(["Select", "Select", "SelectMany", "Where"])
            if kind == "Where":
                lam = rng.choice(WHERES)
            else:
                lam = rng.choice(LAMBDAS)[0]
            o = {"op": "der", "s": s, "kind": kind, "lam": lam}
            if rng.random() < 0.25:
                o["prebuilt"] = True
                if rng.random() < 0.4:
                    o["lam"] = rng.choice(JOINS)
                elif rng.random() < 0.6:
                    o["prebuilt"] = "shared"
            h.append(o)
        elif x < 0.42:
            h.append({"op": "md", "s": s, "val": rng.choice(MDVALS)})
        elif x < 0.64:
            ks = rng.sample(QKEYS, rng.choice([1, 1, 2, 3]))
            h.append({"op": "qmd", "s": s, "kv": [[k, rng.choice(QVALS)] for k in ks]})
        elif x < 0.70:
            m, a = rng.choice(TERMS)
            h.append({"op": "term", "s": s, "m": m, "args": a})
        elif x < 0.74:
            h.append({"op": "new", "src": rng.choice(NEWS), "ty": rng.choice(["Any", "Jet"])})
        elif x < 0.84:
            h.append({"op": "val", "s": s, "ov": rng.choice([None, None, None, 0, 1]), "title": rng.choice(TITLES),
                      "res": rng.choice(RESULTS)})
        elif x < 0.93:
            h.append({"op": "vs", "s": s, "ov": rng.choice([None, None, None, 0, 1]), "title": rng.choice(TITLES)})
        else:
            h.append({"op": "vf", "c": rng.randrange(1000), "res": rng.choice(RESULTS)})
    # complete some of the pending calls at the end, in a seeded order
    for _ in range(rng.randrange(0, 4)):
        h.append({"op": "vf", "c": rng.randrange(1000), "res": rng.choice(RESULTS)})
    return h


def exhaustive_histories(alphabet, length: int):
    """all histories ds;o1;...;ok (k < length) where each op acts on any stream existing at that point
    (every building op of the alphabet succeeds, so the number of streams is known)"""
    out = []

    def rec(prefix, nstreams, npending):
        out.append(list(prefix))
        if len(prefix) >= length:
            return
        for tmpl in alphabet:
            if tmpl["op"] == "ds":
                rec(prefix + [dict(tmpl)], nstreams + 1, npending)
            elif tmpl["op"] == "vf":
                for c in range(npending):
                    rec(prefix + [dict(tmpl, c=c)], nstreams, npending - 1)
            else:
                grows = tmpl["op"] not in ("val", "vs")
                for s in range(nstreams):
                    rec(prefix + [dict(tmpl, s=s)], nstreams + (1 if grows else 0),
                        npending + (1 if tmpl["op"] == "vs" else 0))
    rec([{"op": "ds", "ty": "Any"}], 1, 0)
    return out


def quiet():
    logging.getLogger("func_adl").setLevel(logging.CRITICAL)
    logging.getLogger("func_adl.type_based_replacement").setLevel(logging.CRITICAL)
    logging.getLogger("func_adl.object_stream").setLevel(logging.CRITICAL)


def run_batch(ctx, histories: List[List[dict]], focus=("dump", "lookup", "root"), chunk: int = 1500):
    """run every history on both sides; yields (runner, diff).  Chunked so that the Python objects of at most
    `chunk` histories are alive at a time."""
    quiet()
    for i in range(0, len(histories), chunk):
        runners = []
        rows = []
        for h in histories[i:i + chunk]:
            r = Runner(h, focus=focus).run()
            runners.append(r)
            rows.append(["(" + " ".join(r.model_ops) + ")", "(" + " ".join(hx(k) for k in r.keys) + ")"])
        answers = ctx.driver.call("hist", rows)
        for r, a in zip(runners, answers):
            yield r, compare(r, a)


def minimise(history: List[dict], fails, budget: int = 80) -> List[dict]:
    """greedy removal of operations while `fails(history)` stays true (stream numbers are taken modulo the number
    of live streams, so every sub-list is a well-formed history)"""
    h = list(history)
    i = len(h) - 1
    while i >= 1 and budget > 0:
        cand = h[:i] + h[i + 1:]
        budget -= 1
        try:
            if fails(cand):
                h = cand
        except Exception:  # noqa
            pass
        i -= 1
    return h


FOCUS = {"C11": ("dump", "lookup", "qattrs"), "C12": ("root",), "C16": ("lookup",)}
ORACLES = {
    "C11": [("immutable", oracle_immutable), ("item-type", oracle_types), ("independent", oracle_independent)],
    "C12": [("routing", oracle_routing)],
    "C16": [("last-writer", oracle_qmd), ("invisible", oracle_invisible)],
}


def first_oracle_failure(prop: str, history: List[dict]):
    r = Runner(history, focus=FOCUS[prop]).run()
    for name, f in ORACLES[prop]:
        msg = f(r)
        if msg:
            return name, msg, r
    return None


def check_histories(ctx, prop: str, histories: List[List[dict]], label: str):
    """correspondence + oracles of one property over a list of histories"""
    import core
    import json

    n_failed = 0
    for r, d in run_batch(ctx, histories, FOCUS[prop]):
        if n_failed >= 12:
            ctx.notes.append("stopped comparing after %d failing histories" % n_failed)
            break
        ctx.evaluations += 1
        ctx.corr_cases += 1
        ctx.count("history_length", str(min(40, len(r.resolved)) // 5 * 5) + "+")
        for o in r.resolved:
            ctx.count("ops", o["op"] + (":" + o["kind"] if o["op"] == "der" else ""))
        for o in r.outs:
            ctx.count("outcomes", o[0] + (":" + str(o[1]) if o[0] == "E" else ""))
        for t in r.qmd_targets:
            ctx.count("qmd_target", t)
        key = md5(json.dumps(r.resolved, sort_keys=True))
        if len(r.streams) >= 3 and any(o["op"] in ("val", "vs", "qmd") for o in r.resolved):
            ctx.distinct.add(key)
        failed = None
        for name, f in ORACLES[prop]:
            msg = f(r)
            if msg:
                failed = (name, msg)
                break
        if failed:
            name = failed[0]
            n_failed += 1

            def still(h, name=name):
                x = first_oracle_failure(prop, h)
                return x is not None and x[0] == name
            small = minimise(r.resolved, still, budget=80 if n_failed <= 3 else 0)
            x = first_oracle_failure(prop, small)
            msg = x[1] if x else failed[1]
            ctx.fail("failing-input", "%s oracle '%s': %s ; history %s" % (prop, name, msg, json.dumps(x[2].resolved if x else small)),
                     {"oracle": name, "history": x[2].resolved if x else small}, key=core.digest({"p": prop, "o": name, "h": small}))
        if d.graph:
            ctx.count("object_graph", "differs")
            if not any(n.startswith("object graph") for n in ctx.notes):
                ctx.notes.append(d.graph[0][:400])
        else:
            ctx.count("object_graph", "same")
        mine = {"C11": d.structure, "C12": d.routing, "C16": d.qmd}[prop]
        if mine:
            ctx.corr_disagreements += 1
            if not failed:
                n_failed += 1
                ctx.fail("no-failing-input-found",
                         "correspondence Model/Stream.v vs object_stream.py (%s, %s) broke: %s ; history %s"
                         % (prop, label, mine[0][:500], json.dumps(r.resolved)),
                         {"correspondence": "stream-history", "history": r.resolved, "diff": mine[:3]})
        if ctx.evaluations % 97 == 0:
            ctx.sample({"history": r.resolved[:8], "streams": len(r.streams), "executor_calls": len(r.glog)})


def replay_history(ctx, prop: str, w: dict):
    import core
    h = w["history"]
    x = first_oracle_failure(prop, h)
    if x:
        ctx.fail("failing-input", "still fails: oracle '%s': %s" % (x[0], x[1]), w,
                 key=core.digest({"p": prop, "o": x[0], "h": h}))
        return
    for r, d in run_batch(ctx, [h], FOCUS[prop]):
        mine = {"C11": d.structure, "C12": d.routing, "C16": d.qmd}[prop]
        if mine:
            ctx.fail("no-failing-input-found", "correspondence still broken: %s" % mine[0][:400], w)


TRUSTED_COMMON = [
    "Coq 8.16.1 kernel (coqc); no axioms (Print Assumptions: closed under the global context)",
    "harness/sync_tables.py + harness/tables/stream.py (executor attribute name, operator and terminal node names read from object_stream.py)",
    "extraction: ExtrOcamlBasic + ExtrOcamlNativeString; ocaml/driver_stream.ml (op-history and generic-tree codec)",
    "harness/props/stream_common.py: generic-tree encoding of Python ast objects (ast.iter_fields; field-less nodes as atoms), "
    "history runner, recording EventDataset subclass and executors, oracles",
    "copy.copy on an ast node = new object with the same field values and the same __dict__ (modelled, checked by the object-graph comparison)",
]
ASSUME_COMMON = [
    "lambda processing (parse, sugar, type following) is an input of the model: Derive takes the processed lambda, the callback "
    "metadata and the computed item type from the run of the implementation",
    "asyncio: the code between two awaits is atomic (single-threaded event loop); make_sync's thread hand-off and the event loop itself "
    "are not modelled - value_async is split at its only await into ValueStart/ValueFinish",
    "literal_eval is modelled on the fragment constants/tuples/lists/dicts/signed numbers (what as_ast produces for metadata)",
]

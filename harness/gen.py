"""Generators of Python ``ast`` expression trees (enumerated and random) shared by the checks."""
from __future__ import annotations

import ast
import copy
import itertools
import random
from typing import Callable, Dict, Iterable, List, Sequence

L = ast.Load()


def N(x: str) -> ast.Name:
    return ast.Name(id=x, ctx=L)


def C(v) -> ast.Constant:
    return ast.Constant(value=v)


def A(v: ast.expr, a: str) -> ast.Attribute:
    return ast.Attribute(value=v, attr=a, ctx=L)


def call(f: ast.expr, args: Sequence[ast.expr] = (), kws: Sequence = ()) -> ast.Call:
    return ast.Call(func=f, args=list(args), keywords=[ast.keyword(arg=k, value=v) for k, v in kws])


def fcall(name: str, *args: ast.expr) -> ast.Call:
    return call(N(name), args)


def mcall(recv: ast.expr, name: str, *args: ast.expr) -> ast.Call:
    return call(A(recv, name), args)


def lam(ps, body: ast.expr) -> ast.Lambda:
    if isinstance(ps, str):
        ps = [ps]
    return ast.Lambda(
        args=ast.arguments(posonlyargs=[], args=[ast.arg(arg=p) for p in ps], kwonlyargs=[],
                           kw_defaults=[], defaults=[]),
        body=body)


def binop(op, l, r):
    return ast.BinOp(left=l, op=op(), right=r)


def cmp(op, l, r):
    return ast.Compare(left=l, ops=[op()], comparators=[r])


def tup(*es):
    return ast.Tuple(elts=list(es), ctx=L)


def lst(*es):
    return ast.List(elts=list(es), ctx=L)


def dct(pairs):
    return ast.Dict(keys=[k for k, _ in pairs], values=[v for _, v in pairs])


def sub(v, s):
    return ast.Subscript(value=v, slice=s, ctx=L)


def fix(n: ast.AST) -> ast.AST:
    return ast.fix_missing_locations(n)


def clone(n):
    return copy.deepcopy(n)


# ---------------------------------------------------------------- bounded enumeration

def enum_trees(leaves: Callable[[], Iterable[ast.expr]],
               builders: Dict[int, List[Callable[..., ast.expr]]],
               max_size: int) -> Dict[int, List[ast.expr]]:
    """All trees of size 1..max_size: size = 1 + sum of child sizes.  ``builders[k]`` are the
    k-ary constructors.  Returns {size: [trees]} (children are shared between trees: callers
    must deep-copy before handing a tree to code that mutates)."""
    by: Dict[int, List[ast.expr]] = {1: list(leaves())}
    for s in range(2, max_size + 1):
        out: List[ast.expr] = []
        for k, fs in builders.items():
            if k == 0:
                continue
            for parts in _compositions(s - 1, k):
                pools = [by.get(p, []) for p in parts]
                if any(not p for p in pools):
                    continue
                for kids in itertools.product(*pools):
                    for f in fs:
                        r = f(*kids)
                        if r is not None:
                            out.append(r)
        by[s] = out
    return by


def _compositions(total: int, k: int):
    if k == 1:
        if total >= 1:
            yield (total,)
        return
    for first in range(1, total - k + 2):
        for rest in _compositions(total - first, k - 1):
            yield (first,) + rest


# ---------------------------------------------------------------- random expressions

class RandomExpr:
    """Random expression trees over the query grammar.  All choices come from ``rng``."""

    def __init__(self, rng: random.Random, names: Sequence[str], attrs: Sequence[str],
                 funcs: Sequence[str], methods: Sequence[str], ops: Sequence[str] = ("Select", "Where", "SelectMany"),
                 consts: Sequence = (0, 1, 2, True, "a"), allow_lambda_calls: bool = True,
                 param_pool: Sequence[str] = ("x", "y", "e", "j")):
        self.r = rng
        self.names = list(names)
        self.attrs = list(attrs)
        self.funcs = list(funcs)
        self.methods = list(methods)
        self.ops = list(ops)
        self.consts = list(consts)
        self.param_pool = list(param_pool)
        self.allow_lambda_calls = allow_lambda_calls

    def leaf(self, scope: List[str]) -> ast.expr:
        r = self.r
        pool = scope + self.names
        if r.random() < 0.7 and pool:
            return N(r.choice(pool))
        return C(r.choice(self.consts))

    def expr(self, depth: int, scope: List[str] = None) -> ast.expr:
        scope = list(scope or [])
        r = self.r
        if depth <= 0 or r.random() < 0.15:
            return self.leaf(scope)
        k = r.randrange(16)
        d = depth - 1
        if k == 0:
            return A(self.expr(d, scope), r.choice(self.attrs))
        if k == 1:
            return call(N(r.choice(self.funcs)), [self.expr(d, scope) for _ in range(r.randrange(0, 3))],
                        [(r.choice(["k", "w"]), self.expr(d, scope))] if r.random() < 0.2 else [])
        if k == 2:
            return call(A(self.expr(d, scope), r.choice(self.methods)),
                        [self.expr(d, scope) for _ in range(r.randrange(0, 3))],
                        [(r.choice(["k", "w"]), self.expr(d, scope))] if r.random() < 0.2 else [])
        if k in (3, 4):
            return self.opcall(d, scope)
        if k == 5:
            return binop(r.choice([ast.Add, ast.Sub, ast.Mult, ast.FloorDiv, ast.Mod]), self.expr(d, scope), self.expr(d, scope))
        if k == 6:
            return cmp(r.choice([ast.Lt, ast.Gt, ast.Eq, ast.NotEq, ast.LtE, ast.GtE]), self.expr(d, scope), self.expr(d, scope))
        if k == 7:
            return ast.BoolOp(op=r.choice([ast.And, ast.Or])(), values=[self.expr(d, scope) for _ in range(r.randrange(2, 4))])
        if k == 8:
            return ast.IfExp(test=self.expr(d, scope), body=self.expr(d, scope), orelse=self.expr(d, scope))
        if k == 9:
            return tup(*[self.expr(d, scope) for _ in range(r.randrange(0, 4))])
        if k == 10:
            return lst(*[self.expr(d, scope) for _ in range(r.randrange(0, 3))])
        if k == 11:
            keys = r.sample(["a", "b", "c", "d"], r.randrange(0, 3))
            return dct([(C(kk), self.expr(d, scope)) for kk in keys])
        if k == 12:
            return sub(self.expr(d, scope), C(r.choice([0, 1, 2, "a", "b"])))
        if k == 13:
            return ast.UnaryOp(op=r.choice([ast.Not, ast.USub])(), operand=self.expr(d, scope))
        if k == 14 and self.allow_lambda_calls:
            ps = r.sample(self.param_pool, r.randrange(1, 3))
            return call(lam(ps, self.expr(d, scope + ps)), [self.expr(d, scope) for _ in ps])
        return self.leaf(scope)

    def opcall(self, depth: int, scope: List[str]) -> ast.expr:
        r = self.r
        op = r.choice(self.ops)
        p = r.choice(self.param_pool)
        src = self.expr(depth, scope)
        body = self.expr(depth, scope + [p])
        if r.random() < 0.5:
            return fcall(op, src, lam(p, body))
        return mcall(src, op, lam(p, body))

#!/venv/bin/python
"""Mechanical mutation campaign (a measurement of the checks, not a check itself).

    automut.py gen  <outdir>                 enumerate first-order mutants of func_adl/**.py of /repo's HEAD
    automut.py run  <outdir> <nworkers>      per mutant: the pinned test-suite, then (if it passes) the quick checks of the
                                             properties anchored in the mutated file, most specific first, until one alarms
    automut.py report <outdir>               table of outcomes; the survivors (tests pass, no check alarms) are listed for triage

Every worker owns a scratch worktree of /repo and a private copy of /verif under <outdir>/w<k>/ (so that generated tables,
evidence files and the Coq build of the real /verif are never touched).  Nothing here is registered in MANIFEST.json.
Operators: comparison swap, and/or swap, dropped conjunct/disjunct, dropped `not`, negated condition, integer +-1, boolean
flip, short string constants, statement deletion (-> pass), return value -> None, break<->continue, dropped element of an
isinstance tuple, removed copy.copy/copy.deepcopy/list()/reversed()/sorted() wrappers, slice/index changes, + <-> -.
"""
import ast
import hashlib
import json
import os
import re
import subprocess
import sys
import time

REPO = "/repo"
VERIF = os.path.dirname(os.path.dirname(os.path.abspath(__file__)))
FILES = ["func_adl/ast/aggregate_shortcuts.py", "func_adl/ast/ast_hash.py", "func_adl/ast/call_stack.py", "func_adl/ast/func_adl_ast_utils.py",
         "func_adl/ast/function_simplifier.py", "func_adl/ast/meta_data.py", "func_adl/ast/syntatic_sugar.py", "func_adl/event_dataset.py",
         "func_adl/object_stream.py", "func_adl/type_based_replacement.py", "func_adl/util_ast.py", "func_adl/util_types.py"]
COST = {"C12": 14, "C18": 16, "C04": 21, "C08": 26, "C16": 27, "C19": 28, "C05": 30, "C14": 30, "C20": 34, "C09": 36, "C11": 39, "C17": 43,
        "C07": 47, "C02": 45, "C10": 53, "C03": 62, "C13": 72, "C15": 95, "C06": 100, "C01": 170}
CMP = {ast.Eq: ast.NotEq, ast.NotEq: ast.Eq, ast.Lt: ast.LtE, ast.LtE: ast.Lt, ast.Gt: ast.GtE, ast.GtE: ast.Gt, ast.Is: ast.IsNot,
       ast.IsNot: ast.Is, ast.In: ast.NotIn, ast.NotIn: ast.In}
WRAPPERS = {"deepcopy", "copy", "list", "reversed", "sorted", "tuple"}
LOGGERS = {"debug", "info", "warning", "error", "warn"}


def props_of():
    by_file, names = {}, {}
    for line in open(os.path.join(VERIF, "properties.jsonl")):
        d = json.loads(line)
        for f in d["anchors"]["files"]:
            by_file.setdefault(f, []).append(d["id"])
        ws = set()
        for m in d["anchors"]["mechanism"]:
            ws |= set(re.findall(r"[A-Za-z_][A-Za-z_0-9]+", m["where"].split(":", 1)[-1]))
        names[d["id"]] = ws
    return by_file, names


class Gen:
    def __init__(self, path, text):
        self.path, self.text = path, text
        self.lines = text.split("\n")
        self.off = [0]
        for ln in self.lines:
            self.off.append(self.off[-1] + len(ln) + 1)
        self.tree = ast.parse(text)
        self.out = []       # (start, end, replacement, operator, lineno, scope)
        self.scope = []

    def span(self, n):
        return self.off[n.lineno - 1] + n.col_offset, self.off[n.end_lineno - 1] + n.end_col_offset

    def seg(self, n):
        a, b = self.span(n)
        return self.text[a:b]

    def add(self, n, repl, op):
        a, b = self.span(n)
        self.out.append((a, b, repl, op, n.lineno, ".".join(self.scope)))

    def add_expr(self, n, new, op):
        self.add(n, "(" + ast.unparse(new) + ")", op)

    # ---- walk
    def run(self):
        self.stmts(self.tree.body)
        return self.out

    def stmts(self, body):
        for i, s in enumerate(body):
            if i == 0 and isinstance(s, ast.Expr) and isinstance(s.value, ast.Constant) and isinstance(s.value.value, str):
                continue        # docstring
            self.stmt(s)

    def stmt(self, s):
        if isinstance(s, (ast.Import, ast.ImportFrom, ast.Assert, ast.Global, ast.Nonlocal, ast.Pass)):
            return
        if isinstance(s, (ast.FunctionDef, ast.AsyncFunctionDef, ast.ClassDef)):
            self.scope.append(s.name)
            if not isinstance(s, ast.ClassDef):
                for d in s.args.defaults + [d for d in s.args.kw_defaults if d is not None]:
                    self.expr(d)
            self.stmts(s.body)
            self.scope.pop()
            return
        if isinstance(s, ast.If):
            if "TYPE_CHECKING" in self.seg(s.test):
                return
            self.cond(s.test)
            self.stmts(s.body)
            self.stmts(s.orelse)
            return
        if isinstance(s, ast.While):
            self.cond(s.test)
            self.stmts(s.body)
            return
        if isinstance(s, (ast.For, ast.AsyncFor)):
            self.expr(s.iter)
            self.stmts(s.body)
            self.stmts(s.orelse)
            return
        if isinstance(s, (ast.With, ast.AsyncWith)):
            self.stmts(s.body)
            return
        if isinstance(s, ast.Try):
            self.stmts(s.body)
            for h in s.handlers:
                self.stmts(h.body)
            self.stmts(s.orelse)
            self.stmts(s.finalbody)
            return
        if isinstance(s, ast.Raise):
            self.add(s, "pass", "del-raise")
            return
        if isinstance(s, ast.Return):
            if s.value is not None and not (isinstance(s.value, ast.Constant) and s.value.value is None):
                self.add(s, "return None", "return-none")
                self.expr(s.value)
            return
        if isinstance(s, ast.Break):
            self.add(s, "continue", "break-continue")
            return
        if isinstance(s, ast.Continue):
            self.add(s, "break", "continue-break")
            return
        if isinstance(s, ast.Expr):
            v = s.value
            if isinstance(v, ast.Call) and isinstance(v.func, ast.Attribute) and v.func.attr in LOGGERS:
                return
            self.add(s, "pass", "del-stmt")
            self.expr(v)
            return
        if isinstance(s, (ast.Assign, ast.AugAssign)):
            self.add(s, "pass", "del-assign")
            self.expr(s.value)
            return
        if isinstance(s, ast.AnnAssign):
            if s.value is not None:
                self.expr(s.value)
            return
        if isinstance(s, ast.Delete):
            self.add(s, "pass", "del-stmt")

    def cond(self, t):
        self.add(t, "(not (%s))" % self.seg(t), "negate-cond")
        self.expr(t)

    def expr(self, e):
        for n in self.walk(e):
            self.one(n)

    def walk(self, e):
        """pre-order over expressions, not entering annotations"""
        todo = [e]
        while todo:
            n = todo.pop()
            yield n
            if isinstance(n, ast.Lambda):
                todo.append(n.body)
                continue
            for c in ast.iter_child_nodes(n):
                if isinstance(c, (ast.expr, ast.comprehension, ast.keyword, ast.Slice)):
                    todo.append(c)

    def one(self, n):
        if isinstance(n, ast.comprehension):
            for t in n.ifs:
                self.add(t, "(not (%s))" % self.seg(t), "negate-cond")
            return
        if isinstance(n, ast.keyword) or not hasattr(n, "lineno"):
            return
        if isinstance(n, ast.Compare) and len(n.ops) == 1 and type(n.ops[0]) in CMP:
            new = ast.Compare(left=n.left, ops=[CMP[type(n.ops[0])]()], comparators=n.comparators)
            self.add_expr(n, new, "cmp-swap")
        elif isinstance(n, ast.BoolOp):
            new = ast.BoolOp(op=ast.Or() if isinstance(n.op, ast.And) else ast.And(), values=n.values)
            self.add_expr(n, new, "and-or")
            for i in range(len(n.values)):
                rest = n.values[:i] + n.values[i + 1:]
                self.add_expr(n, rest[0] if len(rest) == 1 else ast.BoolOp(op=n.op, values=rest), "drop-operand")
        elif isinstance(n, ast.UnaryOp) and isinstance(n.op, ast.Not):
            self.add_expr(n, n.operand, "drop-not")
        elif isinstance(n, ast.IfExp):
            self.add(n.test, "(not (%s))" % self.seg(n.test), "negate-cond")
        elif isinstance(n, ast.Constant):
            v = n.value
            if v is True or v is False:
                self.add(n, repr(not v), "bool-flip")
            elif isinstance(v, int):
                self.add(n, repr(v + 1), "int+1")
                if v != 0:
                    self.add(n, repr(v - 1), "int-1")
            elif isinstance(v, str) and 0 < len(v) <= 24 and " " not in v and "\n" not in v:
                self.add(n, repr(v + "X"), "str")
        elif isinstance(n, ast.Call):
            f = n.func
            fname = f.id if isinstance(f, ast.Name) else f.attr if isinstance(f, ast.Attribute) else None
            if fname == "isinstance" and len(n.args) == 2 and isinstance(n.args[1], ast.Tuple) and len(n.args[1].elts) >= 2:
                for i in range(len(n.args[1].elts)):
                    es = n.args[1].elts[:i] + n.args[1].elts[i + 1:]
                    self.add(n.args[1], "(" + ", ".join(ast.unparse(x) for x in es) + ",)", "isinstance-drop")
            if fname in WRAPPERS and len(n.args) == 1 and not n.keywords and not isinstance(n.args[0], (ast.GeneratorExp, ast.Starred)):
                self.add(n, "(" + self.seg(n.args[0]) + ")", "unwrap-" + fname)
        elif isinstance(n, ast.Subscript):
            s = n.slice
            if isinstance(s, ast.Slice):
                if s.lower is not None or s.upper is not None:
                    self.add(s, ":", "slice-all")
            elif isinstance(s, ast.Constant) and s.value == 0:
                self.add(s, "-1", "index-0-last")
            elif isinstance(s, ast.UnaryOp) and isinstance(s.op, ast.USub) and isinstance(s.operand, ast.Constant) and s.operand.value == 1:
                self.add(s, "0", "index-last-0")
        elif isinstance(n, ast.BinOp) and isinstance(n.op, (ast.Add, ast.Sub)) and not isinstance(n.left, ast.Constant):
            new = ast.BinOp(left=n.left, op=ast.Sub() if isinstance(n.op, ast.Add) else ast.Add(), right=n.right)
            self.add_expr(n, new, "add-sub")


def in_raise_or_log(text, a):
    # skip message strings: the constant sits on a line that raises / logs / warns, or inside an f-string
    ls = text.rfind("\n", 0, a) + 1
    line = text[ls:text.find("\n", a)]
    return bool(re.search(r"\b(raise|logging|logger|warn|ValueError|TypeError|Exception)\b", line))


def cmd_gen(out):
    os.makedirs(out, exist_ok=True)
    muts, seen = [], set()
    for rel in FILES:
        text = open(os.path.join(REPO, rel)).read()
        for (a, b, repl, op, line, scope) in Gen(rel, text).run():
            if op == "str" and in_raise_or_log(text, a):
                continue
            new = text[:a] + repl + text[b:]
            h = hashlib.md5((rel + new).encode()).hexdigest()[:12]
            if h in seen or new == text:
                continue
            try:
                compile(new, rel, "exec")
            except SyntaxError:
                continue
            seen.add(h)
            muts.append({"id": h, "file": rel, "line": line, "scope": scope, "op": op, "start": a, "end": b, "repl": repl,
                         "orig": text[a:b][:120]})
    json.dump(muts, open(os.path.join(out, "mutants.json"), "w"), indent=0)
    print("mutants:", len(muts))
    import collections
    print(collections.Counter(m["file"] for m in muts))


def sh(cmd, cwd=None, env=None, timeout=None):
    try:
        p = subprocess.run(cmd, cwd=cwd, env=env, timeout=timeout, stdout=subprocess.PIPE, stderr=subprocess.STDOUT, text=True)
        return p.returncode, p.stdout
    except subprocess.TimeoutExpired as e:
        return 124, (e.stdout or b"").decode() if isinstance(e.stdout, bytes) else (e.stdout or "")


def worker(out, k, n):
    wd = os.path.join(out, "w%d" % k)
    repo, verif = os.path.join(wd, "repo"), os.path.join(wd, "verif")
    os.makedirs(wd, exist_ok=True)
    if not os.path.isdir(repo):
        subprocess.check_call(["git", "-C", REPO, "worktree", "add", "-q", "--detach", repo, "HEAD"])
    only_tests = os.environ.get("AUTOMUT_TESTS_ONLY") == "1"
    if not only_tests and not os.path.isdir(verif):
        subprocess.check_call(["cp", "-a", VERIF, verif])
        subprocess.call(["rm", "-rf", os.path.join(verif, "seeded"), os.path.join(verif, "replays")])
    by_file, names = props_of()
    muts = json.load(open(os.path.join(out, "mutants.json")))
    prev = load(out)
    if only_tests:
        todo = [m for m in muts if m["id"] not in prev]
    else:   # phase B: the mutants the test-suite lets through
        todo = [m for m in muts if m["id"] not in prev or (prev[m["id"]]["tests"] == "pass" and "checks" not in prev[m["id"]])]
    resf = os.path.join(out, "results_%s%d.jsonl" % ("a" if only_tests else "b", k))
    env = dict(os.environ, PYTHONPATH=repo, PYTHONHASHSEED="0", PYTHONDONTWRITEBYTECODE="1")
    with open(resf, "a") as rf:
        for i, m in enumerate(todo):
            if i % n != k:
                continue
            subprocess.check_call(["git", "-C", repo, "checkout", "-q", "--", "."])
            p = os.path.join(repo, m["file"])
            text = open(p).read()
            open(p, "w").write(text[:m["start"]] + m["repl"] + text[m["end"]:])
            t0 = time.time()
            if m["id"] in prev:
                rc = 0
            else:
                rc, o = sh(["/venv/bin/python", "-m", "pytest", "-q", "-x", "-p", "no:cacheprovider"], cwd=repo, env=env, timeout=300)
            res = dict(m, tests="pass" if rc == 0 else "fail", t_tests=round(time.time() - t0, 1))
            if rc == 0 and not only_tests:
                sc = set(m["scope"].split("."))
                ps = by_file.get(m["file"], [])
                ps = sorted(ps, key=lambda q: (0 if names[q] & sc else 1, COST.get(q, 50)))
                res["checks"] = []
                for q in ps:
                    t1 = time.time()
                    e2 = dict(os.environ, FUNC_ADL_REPO=repo)
                    rc2, o2 = sh([os.path.join(verif, "check"), q, "quick"], env=e2, timeout=1500)
                    vio = [ln for ln in o2.split("\n") if ln.startswith("VIOLATION")]
                    what = [ln for ln in o2.split("\n") if "what:" in ln]
                    res["checks"].append({"p": q, "rc": rc2, "nvio": len(vio), "nfi": sum(1 for v in vio if v.rstrip().endswith("no-failing-input-found")),
                                          "first": (what[0].strip()[:200] if what else ""), "t": round(time.time() - t1, 1)})
                    if rc2 == 1 and vio:
                        res["detected_by"] = q
                        break
                    if rc2 not in (0, 1):
                        res.setdefault("errors", []).append((q, rc2, o2[-300:]))
            rf.write(json.dumps(res) + "\n")
            rf.flush()
    subprocess.check_call(["git", "-C", repo, "checkout", "-q", "--", "."])


def cmd_run(out, n):
    ps = [subprocess.Popen([sys.executable, os.path.abspath(__file__), "worker", out, str(k), str(n)]) for k in range(n)]
    for p in ps:
        p.wait()


def load(out):
    rs = {}
    for f in os.listdir(out):
        if f.startswith("results_"):
            for ln in open(os.path.join(out, f)):
                d = json.loads(ln)
                if d["id"] not in rs or "checks" in d:
                    rs[d["id"]] = d
    return rs


def cmd_report(out):
    rs = load(out)
    import collections
    c = collections.Counter()
    surv = []
    for d in rs.values():
        if d["tests"] == "fail":
            c["killed by the test-suite"] += 1
        elif "checks" not in d:
            c["tests pass (checks not run)"] += 1
        elif d.get("detected_by"):
            c["tests pass, detected by a check"] += 1
        else:
            c["tests pass, no check alarms"] += 1
            surv.append(d)
    print(dict(c), "of", len(rs))
    surv.sort(key=lambda d: (d["file"], d["line"]))
    for d in surv:
        print("%s %s:%d [%s] %s: `%s` -> `%s`  checks=%s" % (d["id"], d["file"], d["line"], d["scope"], d["op"], d["orig"].replace("\n", " ")[:70],
                                                       d["repl"][:70], ",".join(x["p"] for x in d["checks"])))


# mutant id -> triage of a survivor (tests pass, no check alarms): why no property of the list is affected
TRIAGE = {}
TRIAGE_FILE = os.path.join(VERIF, "seeded", "AUTOMUT_TRIAGE.json")


def cmd_md(out):
    rs = load(out)
    import collections
    triage = json.load(open(TRIAGE_FILE)) if os.path.exists(TRIAGE_FILE) else {}
    per = collections.defaultdict(collections.Counter)
    surv = []
    bywhat = collections.Counter()
    for d in rs.values():
        f = d["file"].split("/")[-1]
        if d["tests"] == "fail":
            per[f]["killed by tests"] += 1
        elif "checks" not in d:
            per[f]["not run"] += 1
        elif d.get("detected_by"):
            per[f]["detected"] += 1
            c = [x for x in d["checks"] if x["p"] == d["detected_by"]][0]
            bywhat["failing input" if c["nvio"] > c["nfi"] else "broken obligation / correspondence only"] += 1
        else:
            per[f]["survived"] += 1
            surv.append(d)
    lines = ["# Mechanical first-order mutants (harness/automut.py)", "",
             "Generated against /repo HEAD at the time of the campaign; every mutant is run against the pinned test-suite and, if it",
             "passes, against the quick checks of the properties anchored in the mutated file until one alarms.  A measurement of",
             "the checks, not a check.", "",
             "| file | mutants | killed by the test-suite | tests pass: detected by a check | tests pass: no check alarms | not run |", "|---|---|---|---|---|---|"]
    tot = collections.Counter()
    for f in sorted(per):
        c = per[f]
        n = sum(c.values())
        lines.append("| %s | %d | %d | %d | %d | %d |" % (f, n, c["killed by tests"], c["detected"], c["survived"], c["not run"]))
        tot.update(c)
    lines.append("| total | %d | %d | %d | %d | %d |" % (sum(tot.values()), tot["killed by tests"], tot["detected"], tot["survived"], tot["not run"]))
    lines += ["", "How the detected ones were reported: %s." % ", ".join("%s %d" % kv for kv in bywhat.most_common()), "",
              "## Survivors (tests pass, no check alarms) and their triage", "",
              "| id | place | operator | change | checks run | triage |", "|---|---|---|---|---|---|"]
    surv.sort(key=lambda d: (d["file"], d["line"]))
    for d in surv:
        lines.append("| %s | %s:%d %s | %s | `%s` -> `%s` | %s | %s |" % (
            d["id"], d["file"].split("/")[-1], d["line"], d["scope"], d["op"], d["orig"].replace("\n", " ").replace("|", "\\|")[:60],
            d["repl"].replace("|", "\\|")[:60], ",".join(x["p"] for x in d["checks"]), triage.get(d["id"], "")))
    open(os.path.join(VERIF, "seeded", "AUTOMUT.md"), "w").write("\n".join(lines) + "\n")
    print("survivors without triage:", sum(1 for d in surv if d["id"] not in triage))


if __name__ == "__main__":
    a = sys.argv[1:]
    if a[0] == "gen":
        cmd_gen(a[1])
    elif a[0] == "run":
        cmd_run(a[1], int(a[2]))
    elif a[0] == "worker":
        worker(a[1], int(a[2]), int(a[3]))
    elif a[0] == "report":
        cmd_report(a[1])
    elif a[0] == "md":
        cmd_md(a[1])

"""Shared machinery of ./check: build (tables -> proofs -> extraction -> driver), model driver,
failure bookkeeping, known findings, evidence and replay files."""
from __future__ import annotations

import fcntl
import hashlib
import json
import os
import random
import re
import subprocess
import sys
import time
from typing import Any, Dict, List, Optional

ROOT = os.path.abspath(os.path.join(os.path.dirname(__file__), ".."))
COQ = os.path.join(ROOT, "coq")
OCAML = os.path.join(ROOT, "ocaml")
GEN = os.path.join(OCAML, "_gen")
REPO = os.environ.get("FUNC_ADL_REPO", "/repo")
WORK = os.path.join(ROOT, ".work")

FORBIDDEN = re.compile(
    r"\b(Admitted|admit|Axiom|Axioms|Parameter|Parameters|Conjecture|Conjectures|Abort All)\b"
    r"|Unset\s+Guard|bypass_check|type-in-type|impredicative-set|Admit\s+Obligations|Unset\s+Positivity"
    r"|Unset\s+Universe\s+Checking"
)

ALLOWED_AXIOMS: List[str] = []   # the development uses no axioms; anything reported is an error


class MachineryError(Exception):
    pass


def sh(cmd: List[str], cwd: Optional[str] = None, timeout: int = 1800, env: Optional[dict] = None):
    p = subprocess.run(cmd, cwd=cwd, stdout=subprocess.PIPE, stderr=subprocess.STDOUT, text=True,
                       timeout=timeout, env=env)
    return p.returncode, p.stdout


class BuildLock:
    def __enter__(self):
        os.makedirs(WORK, exist_ok=True)
        self.f = open(os.path.join(WORK, "build.lock"), "w")
        fcntl.flock(self.f, fcntl.LOCK_EX)
        return self

    def __exit__(self, *a):
        fcntl.flock(self.f, fcntl.LOCK_UN)
        self.f.close()


def grep_gate() -> List[str]:
    """Reject forbidden vernacular anywhere under coq/ (comments are stripped first)."""
    bad = []
    for dp, _, fns in os.walk(os.path.join(COQ, "FA")):
        for fn in fns:
            if not fn.endswith(".v"):
                continue
            p = os.path.join(dp, fn)
            txt = open(p).read()
            txt = strip_comments(txt)
            for m in FORBIDDEN.finditer(txt):
                bad.append("%s: %s" % (os.path.relpath(p, COQ), m.group(0)))
            # Variable/Hypothesis outside a section
            depth = 0
            for line in txt.splitlines():
                s = line.strip()
                if re.match(r"Section\s+\w+", s):
                    depth += 1
                elif re.match(r"End\s+\w+\s*\.", s) and depth > 0:
                    depth -= 1
                elif depth == 0 and re.match(r"(Variable|Variables|Hypothesis|Hypotheses|Context)\b", s):
                    bad.append("%s: %s outside a section" % (os.path.relpath(p, COQ), s.split()[0]))
    return bad


def strip_comments(txt: str) -> str:
    out = []
    depth = 0
    i = 0
    n = len(txt)
    instr = False
    while i < n:
        if depth == 0 and txt[i] == '"':
            instr = not instr
            out.append(txt[i])
            i += 1
        elif not instr and txt.startswith("(*", i):
            depth += 1
            i += 2
        elif not instr and depth > 0 and txt.startswith("*)", i):
            depth -= 1
            i += 2
        else:
            if depth == 0:
                out.append(txt[i])
            elif txt[i] == "\n":
                out.append("\n")
            i += 1
    return "".join(out)


def count_obligations(vfile: str) -> List[str]:
    txt = strip_comments(open(vfile).read())
    return re.findall(r"^\s*(?:Theorem|Lemma|Example|Corollary|Fact|Remark)\s+([A-Za-z_0-9']+)", txt, re.M)


class Build:
    """Result of the sync/prove/extract stage for one property."""

    def __init__(self):
        self.tables_status = ""
        self.tables_error: Optional[str] = None
        self.compiled: Dict[str, bool] = {}
        self.logs: Dict[str, str] = {}
        self.assumptions: Dict[str, str] = {}
        self.gate: List[str] = []
        self.obligations: List[str] = []
        self.discharged: List[str] = []
        self.broken: List[str] = []
        self.driver_ok = False
        self.make_s = 0.0


def ensure_makefile():
    """coq_makefile over the files of _CoqProject that exist right now (a listed but missing file
    would make every `make` fail, whatever the target)."""
    mk = os.path.join(COQ, "Makefile")
    cp = os.path.join(COQ, "_CoqProject")
    lines = [ln.rstrip("\n") for ln in open(cp)]
    keep = [ln for ln in lines if not ln.strip().endswith(".v") or os.path.exists(os.path.join(COQ, ln.strip()))]
    text = "\n".join(keep) + "\n"
    eff = os.path.join(COQ, "_CoqProject.effective")
    old = open(eff).read() if os.path.exists(eff) else None
    if old != text or not os.path.exists(mk):
        with open(eff, "w") as f:
            f.write(text)
        rc, out = sh(["coq_makefile", "-f", "_CoqProject.effective", "-o", "Makefile"], cwd=COQ)
        if rc != 0:
            raise MachineryError("coq_makefile failed: " + out[-400:])


def build(prop_files: List[str], need_driver: bool = True, jobs: int = 16,
          extract: str = "FA/Extract/Extract.v", driver_src: str = "driver.ml", tag: str = "") -> Build:
    """prop_files: .v files (relative to coq/) whose theorems are this property's obligations;
    the last one is the Properties/Cxx.v file carrying Print Assumptions."""
    b = Build()
    t0 = time.time()
    with BuildLock():
        rc, out = sh([sys.executable, os.path.join(ROOT, "harness", "sync_tables.py")],
                     env=dict(os.environ, FUNC_ADL_REPO=REPO))
        b.tables_status = " ".join(out.split())
        if rc != 0:
            b.tables_error = out.strip()
        ensure_makefile()
        b.gate = grep_gate()
        targets = [f[:-2] + ".vo" for f in prop_files]
        if need_driver:
            targets.append(extract[:-2] + ".vo")
        rc, out = sh(["timeout", "1500", "make", "-k", "-j%d" % jobs] + targets, cwd=COQ, timeout=1600)
        b.logs["make"] = out[-6000:]
        for f in prop_files:
            vo = os.path.join(COQ, f[:-2] + ".vo")
            src = os.path.join(COQ, f)
            ok = os.path.exists(vo) and os.path.getmtime(vo) >= os.path.getmtime(src) and not _failed_in(out, f)
            b.compiled[f] = ok
            names = count_obligations(src)
            b.obligations += ["%s:%s" % (os.path.basename(f), n) for n in names]
            if ok:
                b.discharged += ["%s:%s" % (os.path.basename(f), n) for n in names]
            else:
                b.broken.append(f)
        # Print Assumptions output: recompile the property file itself, capturing stdout
        pf = prop_files[-1] if prop_files else None
        if pf and b.compiled.get(pf):
            rc2, out2 = sh(["timeout", "600", "coqc", "-Q", "FA", "FA", pf], cwd=COQ, timeout=700)
            b.assumptions[pf] = out2
            if rc2 != 0:
                b.compiled[pf] = False
                b.broken.append(pf)
        if need_driver:
            b.driver_ok = build_driver(out, extract, driver_src, tag)
    b.make_s = time.time() - t0
    return b


def _failed_in(make_out: str, f: str) -> bool:
    return bool(re.search(r"Error.*\n?.*" + re.escape(f[:-2] + ".vo"), make_out)) or \
        bool(re.search(re.escape(f[:-2] + ".vo") + r"\] Error", make_out))


def build_driver(make_out: str = "", extract: str = "FA/Extract/Extract.v", driver_src: str = "driver.ml",
                 tag: str = "") -> bool:
    """Extract the models named in `extract` (a .v file relative to coq/ that ends with
    `Extraction "model.ml" ...`) and build them with ocaml/sx.ml + ocaml/<driver_src> into
    ocaml/_gen/<tag>/driver."""
    ext_vo = os.path.join(COQ, extract[:-2] + ".vo")
    if not os.path.exists(ext_vo):
        return False
    GEN = os.path.join(OCAML, "_gen", tag) if tag else os.path.join(OCAML, "_gen")
    os.makedirs(GEN, exist_ok=True)
    drv = os.path.join(GEN, "driver")
    srcs = [os.path.join(OCAML, "sx.ml"), os.path.join(OCAML, driver_src)]
    stamp = max([os.path.getmtime(ext_vo)] + [os.path.getmtime(s) for s in srcs])
    if os.path.exists(drv) and os.path.getmtime(drv) >= stamp:
        return True
    # re-run extraction in _gen (writes model.ml/.mli there)
    rc, out = sh(["timeout", "600", "coqc", "-Q", os.path.join(COQ, "FA"), "FA", "-o", os.path.join(GEN, os.path.basename(extract)[:-2] + ".vo"),
                  os.path.join(COQ, extract)], cwd=GEN, timeout=700)
    if rc != 0:
        raise MachineryError("extraction failed: " + out[-800:])
    subprocess.check_call(["cp", srcs[0], os.path.join(GEN, "sx.ml")])
    subprocess.check_call(["cp", srcs[1], os.path.join(GEN, "driver.ml")])
    rc, out = sh(["ocamlfind", "ocamlopt", "-w", "-a", "-O2", "model.mli", "model.ml", "sx.ml", "driver.ml",
                  "-o", "driver"], cwd=GEN, timeout=900)
    if rc != 0:
        raise MachineryError("ocaml build failed: " + out[-800:])
    return True


def parse_assumptions(out: str) -> Dict[str, List[str]]:
    """Split coqc output of a Properties file into {theorem: [axioms]} using the
    'Print Assumptions' blocks ("Closed under the global context" or "Axioms:\n name : type")."""
    res: Dict[str, List[str]] = {}
    blocks = re.split(r"(?=Closed under the global context|Axioms:)", out)
    k = 0
    for blk in blocks:
        if blk.startswith("Closed under the global context"):
            res["#%d" % k] = []
            k += 1
        elif blk.startswith("Axioms:"):
            ax = re.findall(r"^([A-Za-z_][\w.']*)\s*:", blk[len("Axioms:"):], re.M)
            res["#%d" % k] = ax
            k += 1
    return res


# ---------------------------------------------------------------- extraction cross-check inside Coq

def coq_crosscheck(ctx, name: str, imports: str, pairs, timeout: int = 600):
    """Validate extraction + OCaml driver + codecs against the kernel's own evaluation: for each (lhs, rhs) pair of
    Gallina texts - lhs a model call on an input of this run, rhs what the extracted driver answered - compile
    `Example : lhs = rhs` closed by vm_compute.  A failure is reported as a broken correspondence."""
    if not pairs:
        return
    os.makedirs(WORK, exist_ok=True)
    path = os.path.join(WORK, "xcheck_%s.v" % name)
    body = [imports, ""]
    for i, (lhs, rhs) in enumerate(pairs):
        body.append("Example xcheck_%d : %s = %s.\nProof. vm_compute. reflexivity. Qed." % (i, lhs, rhs))
    with open(path, "w") as f:
        f.write("\n".join(body) + "\n")
    rc, out = sh(["timeout", str(timeout), "coqc", "-Q", os.path.join(COQ, "FA"), "FA", path], cwd=WORK, timeout=timeout + 30)
    ctx.count("extraction_crosscheck", "examples", len(pairs))
    if rc != 0:
        ctx.fail("no-failing-input-found",
                 "extraction cross-check broke: the OCaml driver's answers differ from the kernel's evaluation of the model (%s)" % name,
                 {"correspondence": "extraction-vs-vm_compute", "file": path, "coq_output": out[-1500:]})
    else:
        ctx.notes.append("extraction cross-check: %d driver answers re-evaluated inside Coq by vm_compute, all equal" % len(pairs))
    for ext in (".vo", ".vok", ".vos", ".glob"):
        try:
            os.remove(path[:-2] + ext)
        except OSError:
            pass
    try:
        os.remove(os.path.join(WORK, ".xcheck_%s.aux" % name))
    except OSError:
        pass


def xcheck_sample(cases, answers, lhs_of, rhs_of, cap: int = 12, max_nodes: int = 25):
    """Pick a spread sample of (case, driver answer) pairs small enough for vm_compute and render them as Gallina
    equations for coq_crosscheck.  lhs_of(case) -> Gallina text of the model call; rhs_of(answer) -> Gallina text of
    the driver's answer, or None to skip an answer this printer does not cover."""
    import ast as _ast
    pairs = []
    both = list(zip(cases, answers))
    for e, a in both[::max(1, len(both) // (4 * cap))]:
        if len(pairs) >= cap:
            break
        try:
            if sum(1 for _ in _ast.walk(e)) > max_nodes:
                continue
            rhs = rhs_of(a)
            if rhs is None:
                continue
            pairs.append((lhs_of(e), rhs))
        except Exception:
            continue
    return pairs


# ---------------------------------------------------------------- model driver

class Driver:
    def __init__(self, tag: str = ""):
        self.path = os.path.join(OCAML, "_gen", tag, "driver") if tag else os.path.join(GEN, "driver")

    def run(self, requests: List[str]) -> List[str]:
        if not requests:
            return []
        env = dict(os.environ)
        p = subprocess.run(["bash", "-c", "ulimit -s unlimited 2>/dev/null; exec " + self.path],
                           input="\n".join(requests) + "\n", stdout=subprocess.PIPE, stderr=subprocess.PIPE,
                           text=True, timeout=3000, env=env)
        lines = p.stdout.split("\n")
        if lines and lines[-1] == "":
            lines.pop()
        if len(lines) != len(requests):
            raise MachineryError("driver answered %d of %d requests; stderr=%s" % (len(lines), len(requests), p.stderr[-400:]))
        return lines

    def call(self, cmd: str, rows: List[List[str]]) -> List[str]:
        return self.run(["\t".join([cmd] + r) for r in rows])


# ---------------------------------------------------------------- failures, findings, evidence

def digest(obj: Any) -> str:
    return hashlib.sha1(json.dumps(obj, sort_keys=True, default=str).encode()).hexdigest()[:16]


class Failure:
    def __init__(self, kind: str, what: str, witness: Dict[str, Any], key: Optional[str] = None):
        self.kind = kind            # "failing-input" | "no-failing-input-found"
        self.what = what
        self.witness = witness
        self.key = key or digest(witness)


def load_known(prop: str):
    path = os.path.join(ROOT, "KNOWN_FINDINGS.txt")
    opened = {}
    if os.path.exists(path):
        for line in open(path):
            line = line.strip()
            m = re.match(r"open:\s+property=(\S+)\s+key=(\S+)\s+(.*)", line)
            if m and m.group(1) == prop:
                opened[m.group(2)] = m.group(3)
    return opened


class Ctx:
    def __init__(self, prop: str, tier: str, seed: int, tag: str = ""):
        self.prop = prop
        self.tier = tier
        self.seed = seed
        self.rng = random.Random((seed, prop).__repr__())
        self.driver = Driver(tag)
        self.failures: List[Failure] = []
        self.evaluations = 0
        self.distinct = set()
        self.samples: List[Any] = []
        self.hist: Dict[str, Dict[str, int]] = {}
        self.notes: List[str] = []
        self.corr_cases = 0
        self.corr_disagreements = 0
        self.t0 = time.time()
        self.build: Optional[Build] = None
        self.escalate: List[str] = []      # anchored source files that differ from the fingerprinted revision

    def count(self, table: str, key: str, n: int = 1):
        d = self.hist.setdefault(table, {})
        d[key] = d.get(key, 0) + n

    def sample(self, s: Any, cap: int = 8):
        if len(self.samples) < cap:
            self.samples.append(s)

    def fail(self, kind: str, what: str, witness: Dict[str, Any], key: Optional[str] = None):
        f = Failure(kind, what, witness, key)
        if all(g.key != f.key for g in self.failures):
            self.failures.append(f)

    def budget(self, quick: int, thorough: int) -> int:
        if self.tier == "thorough":
            return thorough
        if self.escalate:      # the source changed since it was last validated: look harder (never an alarm by itself)
            return max(quick, min(thorough, 3 * quick))
        return quick


def write_replay(prop: str, f: Failure, seed: int) -> str:
    d = os.path.join(ROOT, "replays")
    os.makedirs(d, exist_ok=True)
    path = os.path.join(d, "%s-%s.json" % (prop, f.key))
    with open(path, "w") as fh:
        json.dump({"property": prop, "kind": f.kind, "what": f.what, "seed": seed, "witness": f.witness},
                  fh, indent=1, default=str)
    return path


def finish(ctx: Ctx, level_text: str, trusted: List[str], assumptions: List[str], rule: str,
           checker_cmd: str) -> int:
    """Verdict + evidence.  Returns the process exit code."""
    b = ctx.build
    known = load_known(ctx.prop)
    violations = 0
    fails = sorted(ctx.failures, key=lambda f: (f.kind != "failing-input", len(json.dumps(f.witness, default=str))))
    reported_known = set()
    for f in fails:
        if f.kind == "failing-input" and f.key in known:
            if f.key not in reported_known:
                print("KNOWN-FINDING: property=%s %s" % (ctx.prop, known[f.key]))
                reported_known.add(f.key)
            continue
        violations += 1
        if violations > 5:
            continue
        path = write_replay(ctx.prop, f, ctx.seed)
        tail = " no-failing-input-found" if f.kind == "no-failing-input-found" else ""
        print("VIOLATION property=%s replay=%s%s" % (ctx.prop, os.path.relpath(path, ROOT), tail))
        print("  what: %s" % f.what[:600])
    if violations > 5:
        print("  (+%d further failing cases not listed)" % (violations - 5))
    ev = {
        "property_id": ctx.prop,
        "tier": ctx.tier,
        "seed": ctx.seed,
        "level": "proof",
        "coverage": {
            "obligations": len(b.obligations) if b else 0,
            "discharged": len(b.discharged) if b else 0,
            "obligation_names": b.obligations if b else [],
            "broken_files": b.broken if b else [],
            "checker_cmd": checker_cmd,
            "trusted_base": trusted,
            "print_assumptions": {k: v for k, v in (parse_assumptions("".join(b.assumptions.values())).items() if b else [])},
            "tables": b.tables_status if b else "",
            "evaluations": ctx.evaluations,
            "distinct_nontrivial": len(ctx.distinct),
            "rule": rule,
            "samples": ctx.samples,
            "correspondence_cases": ctx.corr_cases,
            "correspondence_disagreements": ctx.corr_disagreements,
            "histograms": ctx.hist,
            "notes": ctx.notes,
            "explanation": level_text,
        },
        "assumptions": assumptions,
        "wall_s": round(time.time() - ctx.t0, 2),
        "violations": violations,
    }
    os.makedirs(os.path.join(ROOT, "evidence"), exist_ok=True)
    with open(os.path.join(ROOT, "evidence", "%s.json" % ctx.prop), "w") as fh:
        json.dump(ev, fh, indent=1, default=str)
    if violations == 0:
        print("OK property=%s tier=%s obligations=%d/%d cases=%d corr=%d wall=%.1fs" % (
            ctx.prop, ctx.tier, len(b.discharged) if b else 0, len(b.obligations) if b else 0,
            ctx.evaluations, ctx.corr_cases, time.time() - ctx.t0))
    return 1 if violations else 0

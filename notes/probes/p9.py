import ast, sys
sys.path.insert(0,'/repo')
from func_adl import EventDataset, ObjectStream
class DS(EventDataset):
    async def execute_result_async(self, a, title=None): return a
ds = DS()
def q(s): return ast.unparse(s.query_ast)
def attempt(label, thunk):
    try: print(label, "=>", q(thunk()))
    except Exception as e: print(label, "=> EXC %s: %s"%(type(e).__name__, str(e)[:100].replace("\n"," ")))
def A1():
    return ds.Select(lambda j: j.jets.Select(
        lambda j: j.pt)).Select(lambda j: j + 1)
attempt("A1", A1)
def A2():
    return ds.Select(lambda j: j.a).Select(
        lambda k: k.b).Select(lambda j: j.c)
attempt("A2", A2)
def A3():
    s = ds.Select(lambda e: e.first); t = 1
    return s.Select(lambda e: e.second)
attempt("A3", A3)
def A4():
    return ds.Select(lambda e: (
        e.a)).Select(lambda e: e.b)
attempt("A4", A4)

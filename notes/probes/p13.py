import ast, sys
sys.path.insert(0,'/repo')
from func_adl.ast.function_simplifier import simplify_chained_calls
import func_adl.ast.function_simplifier as fs
def simp(s):
    fs.argument_var_counter=0
    try:
        r = simplify_chained_calls().visit(ast.parse(s).body[0].value)
        return ast.unparse(r)
    except Exception as e:
        return "EXC %s: %s"%(type(e).__name__, e)
for t in ["(lambda y: Select(Select(s, lambda t: y), lambda u: u))(y+1)",
          "(lambda y: Select(Select(s, lambda t: t+y), lambda u: u*2))(y+1)",
          "Select(ds, lambda y: (lambda y: Select(Select(y.s, lambda t: t+y.a), lambda u: u*2))(y.inner))",
          "Select(Select(ds, lambda e: e.inner), lambda y: Select(Select(y.s, lambda t: t+y.a), lambda u: u*2))",
          "Select(Select(ds, lambda y: y.inner), lambda y: Select(Select(y.s, lambda t: t+y.a), lambda u: u*2))",
          "Where(Select(Select(ds, lambda y: y.inner), lambda y: Select(Select(y.s, lambda t: t+y.a), lambda u: u*2)), lambda q: q.Count() > 1)",
          ]:
    print(t, "\n   =>", simp(t))

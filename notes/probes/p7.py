import ast, sys, copy, asyncio, logging, math
sys.path.insert(0,'/repo')
from func_adl import EventDataset, ObjectStream
from func_adl.util_ast import parse_as_ast
from enum import Enum
class DS(EventDataset):
    async def execute_result_async(self, a, title=None): return a
ds = DS()
G = 10
class K:
    C = 5
    class In:
        D = 6
class Col(Enum):
    red = 1
def show(f, *a):
    try:
        r = f(*a)
        print("   ", ast.unparse(r.query_ast.args[1]) if isinstance(r, ObjectStream) else ast.unparse(r))
    except Exception as e:
        print("    EXC %s: %s"%(type(e).__name__, str(e)[:160]))
def t_scope():
    x = 3
    e = 99
    j = 77
    lst = [1,2]
    none = None
    fl = 1.5
    tup = (1,2)
    print("C04:")
    show(ds.Select, lambda e: e.a + x + G)
    show(ds.Select, lambda e: e.jets.Select(lambda j: j.pt + x))
    show(ds.Select, lambda ev: ev.jets.Select(lambda j: j.pt + x).Select(lambda q: q + j))   # j here is the captured outer j (77), since inner lambda j is closed
    show(ds.Select, lambda ev: [j.pt for j in ev.jets] + j)          # comprehension var j vs captured j
    show(ds.Select, lambda ev: [x for x in ev.jets])                 # comprehension target shadows captured x
    show(ds.Select, lambda ev: (lambda x: x + 1)(ev.a) + x)          
    show(ds.Select, lambda ev: K.C + K.In.D)
    show(ds.Select, lambda ev: math.pi)
    show(ds.Select, lambda ev: Col.red)
    show(ds.Select, lambda ev: lst)
    show(ds.Select, lambda ev: none)
    show(ds.Select, lambda ev: tup[0])
    show(ds.Select, lambda ev: ev.x)          # attribute name equal to captured var name 'x' must not be replaced
    show(ds.Select, lambda ev: ev.f(x=ev.a))  # keyword name x
    show(ds.Select, lambda ev, x=5: ev.a + x) # default arg
t_scope()
print("C05:")
def h1(p): return p
def h2(a, b): return a - b
def h3(a): return a.jets.Select(lambda a: a.pt)
def h4(a): return h2(a, 1) + 1
h5 = lambda q: q * 2
def h6(a, b=3): return a + b
def h7(a):
    "doc"
    return a + G
def t2():
    show(ds.Select, lambda e: h1(e.x))
    show(ds.Select, lambda e: h2(e.x, e.y))
    show(ds.Select, lambda e: h2(b=e.x, a=e.y))
    show(ds.Select, lambda e: h3(e))
    show(ds.Select, lambda e: h4(e.z))
    show(ds.Select, lambda e: h5(e.z))
    show(ds.Select, lambda e: h6(e.z))
    show(ds.Select, lambda e: h7(e.z))
    show(ds.Select, lambda a: h2(a.y, a.x))
    show(ds.Select, lambda b: h2(b, 1))    # arg mentions name 'b' also a param of helper
    show(ds.Select, lambda b: h2(1, b))
    show(ds.Select, lambda e: e.jets.Select(lambda a: h2(e.x, a)))
    show(ds.Select, lambda e: e.jets.Select(h1))
t2()

import ast, sys
sys.path.insert(0, sys.argv[1])
from func_adl.ast.function_simplifier import simplify_chained_calls
import func_adl.ast.function_simplifier as fs
def simp(s):
    fs.argument_var_counter=0
    try:
        r = simplify_chained_calls().visit(ast.parse(s).body[0].value)
        return ast.unparse(r)
    except Exception as e:
        return "EXC %s: %s"%(type(e).__name__, e)
for t in ["Select(ds, lambda x: SelectMany(SelectMany(x.a, lambda x: x.b), lambda y: y.c + x.k))",
          "Select(ds, lambda x: Select(SelectMany(x.a, lambda x: x.b), lambda y: y.c + x.k))",
          "Select(ds, lambda x: Where(SelectMany(x.a, lambda x: x.b), lambda y: y.c > x.k))",
          "Select(ds, lambda x: Where(Select(x.a, lambda x: x.b), lambda y: y.c > x.k))",
          "Select(ds, lambda x: Where(Where(x.a, lambda x: x.b), lambda y: y.c > x.k))",
          "{'a':1,'a':2}.a", "{'a':1,'a':2}['a']", "{1:'x', True:'y'}[1]",
          ]:
    print(t, "\n   =>", simp(t))

import ast, sys
sys.path.insert(0,'/repo')
from func_adl import EventDataset
class DS(EventDataset):
    async def execute_result_async(self, a, title=None): return a
ds = DS()
def show(th):
    try: print("   =>", ast.unparse(th().query_ast.args[1]))
    except Exception as e: print("   => EXC %s: %s"%(type(e).__name__, str(e)[:120]))
def a1():
    return ds.Select(lambda e: e.x.id)
def a2():
    return ds.Select(lambda e: e.x.ctx)
def a3():
    return ds.Select(lambda e: e.a.b.attr)
def a4():
    return ds.Select(lambda e: e.f(1).args)
def a5():
    return ds.Select(lambda e: e.f(1).func)
def a6():
    return ds.Select(lambda e: e[0].value)
def a7():
    return ds.Select(lambda e: e.x.value)
def a8():
    return ds.Select(lambda e: (-e.q).operand)
def a9():
    return ds.Select(lambda e: e.x.lineno)
def a10():
    return ds.Select(lambda e: e.jets.Select(lambda j: j.pt.id))
def a11():
    return ds.Select(lambda e: e.x.y.z)
for f in [a1,a2,a3,a4,a5,a6,a7,a8,a9,a10,a11]:
    print(f.__name__); show(f)

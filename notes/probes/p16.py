import ast, sys, logging, asyncio
sys.path.insert(0,'/repo')
from func_adl import EventDataset, ObjectStream, func_adl_callback, func_adl_callable, func_adl_parameterized_call
from func_adl.util_ast import parse_as_ast, _parse_source_for_lambda
from typing import Iterable
# ---- C05 h5
h5 = lambda q: q * 2
try: print("h5 parse:", ast.unparse(_parse_source_for_lambda(h5, None)))
except Exception as e: print("h5 EXC", type(e).__name__, e)
def outer():
    loc = lambda q: q * 3
    class DS(EventDataset):
        async def execute_result_async(self, a, title=None): return a
    ds = DS()
    r = ds.Select(lambda e: loc(e.z))
    print(ast.unparse(r.query_ast))
outer()
# ---- C12 concurrency
class DS2(EventDataset):
    def __init__(self, name, delay): super().__init__(); self.name=name; self.delay=delay; self.calls=[]
    async def execute_result_async(self, a, title=None):
        self.calls.append((ast.unparse(a), title)); await asyncio.sleep(self.delay)
        if self.name=="bad": raise RuntimeError("boom "+ast.unparse(a))
        return (self.name, ast.unparse(a))
async def main():
    a, b, c = DS2("A", 0.03), DS2("B", 0.01), DS2("bad", 0.02)
    qa = a.Select("lambda e: e.x").MetaData({}); qb = b.Where("lambda e: e.y > 1"); qc = c.Select("lambda e: e.z")
    qa2 = qa.Select("lambda x: x+1")
    rs = await asyncio.gather(qa.value_async(title="t1"), qb.value_async(), qc.value_async(), qa2.value_async(title="t2"), qb.AsAwkwardArray(['c']).value_async(), return_exceptions=True)
    for r in rs: print("   ", r)
    print(a.calls, b.calls, c.calls)
    async def ov(x, t): return ("override", ast.unparse(x), t)
    print(await qa.value_async(executor=ov, title="T"))
asyncio.run(main())
# sync from within running loop?
b = DS2("B", 0.0)
print(b.Select("lambda e: e.q").value(title="sync"))
# no root
try: print(ObjectStream(ast.parse("Select(x, lambda e: e)").body[0].value).value())
except Exception as e: print("noroot EXC", type(e).__name__, str(e)[:80])

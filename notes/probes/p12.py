import ast, sys, logging, traceback
sys.path.insert(0,'/repo')
from func_adl.util_types import *
from typing import Iterable, TypeVar, Generic
T = TypeVar("T")
class Track: 
    def pt(self)->float: ...
class Base(Generic[T]):
    def first(self) -> T: ...
    def items(self) -> Iterable[T]: ...
class Mid(Base[T]):
    pass
class Leaf(Mid[int]): pass
for f in [lambda: get_inherited(Mid[Track]), lambda: resolve_type_vars(T, Mid[Track], at_class=Base), lambda: is_iterable(Mid[Track]), lambda: unwrap_iterable(Mid[Track]), lambda: get_method_and_class(Mid[Track], 'first'),
          lambda: get_inherited(Leaf), lambda: resolve_type_vars(T, Leaf, at_class=Base), lambda: get_inherited(Base[int]), lambda: is_iterable(Base[int])]:
    try: print(f())
    except Exception as e: traceback.print_exc(limit=-3)

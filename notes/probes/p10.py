import ast, sys, logging
sys.path.insert(0,'/repo')
from func_adl import EventDataset, ObjectStream
class DS(EventDataset):
    async def execute_result_async(self, a, title=None): return a
ds = DS()
def t(op, s):
    try:
        r = getattr(ds, op)(s)
        out = ast.unparse(r.query_ast.args[1])
        same = ast.dump(ast.parse(s).body[0].value) == ast.dump(r.query_ast.args[1])
        print(op, s, "=>", "UNCHANGED" if same else "CHANGED: "+out, "| item_type", r.item_type)
    except Exception as e:
        print(op, s, "=> EXC %s: %s"%(type(e).__name__, str(e)[:120].replace("\n"," ")))
for s in ["lambda e: -e.x", "lambda e: not e.x", "lambda e: -e.f()", "lambda e: -e", "lambda e: -(e.x+1)", "lambda e: -e[0]", "lambda e: ~e.x", "lambda e: -(1 if e.a else 2)",
          "lambda e: -(lambda y: y)", "lambda e: -(e.x, e.y)", "lambda e: -[1]", "lambda e: -{'a':1}.a", "lambda e: -{'a':1}",
          "lambda e: e.x if e.a else e.y", "lambda e: 1 if e.a else 'a'", "lambda e: 1 if e.a else 2.0", "lambda e: e.x if e.a else 1", "lambda e: (1,2) if e.a else (3,4)",
          "lambda e: (e.a, e.b)[1]", "lambda e: (e.a, e.b)[e.i]", "lambda e: (e.a, e.b)[2]", "lambda e: (e.a, e.b)[-1]", "lambda e: (e.a, e.b)[0:1]", "lambda e: (e.a,e.b)['x']", "lambda e: (e.a,e.b)[True]", "lambda e: (e.a,e.b)[1.0]",
          "lambda e: {'a': e.x}.a", "lambda e: {'a': e.x}.b", "lambda e: {'a': e.x}['a']", "lambda e: {'a': e.x}['b']", "lambda e: {'a b': e.x}['a b']", "lambda e: {'class': 1}", "lambda e: {'1a': e.x}", "lambda e: {'a': 1, 'a': 2}", "lambda e: {1: e.x}", "lambda e: {e.k: 1}", "lambda e: {**e.d}", "lambda e: {'a': e.x}.zip", "lambda e: {'a':1}[e.k]",
          "lambda e: e.value", "lambda e: e.value.attr", "lambda e: e.keys", "lambda e: e.elts[0]", "lambda e: e._fields", "lambda e: e.args", "lambda value: value.value",
          "lambda e: e[0]", "lambda e: e[0:2]", "lambda e: e[e.i]", "lambda e: e['a']",
          "lambda e: e.f(1, k=2)", "lambda e: f(e)", "lambda e: e.f(*e.a)", "lambda e: e.f(**e.k)",
          "lambda e: [1, e.a]", "lambda e: [e.a][0]", "lambda e: abs(e.x)", "lambda e: abs()", "lambda e: len(e.x)", "lambda e: len()", "lambda e: abs", "lambda e: abs(e.x, 2)",
          "lambda e: 1 < e.x < 3", "lambda e: e.a and e.b", "lambda e: e.a + 1.5", "lambda e: e.a / 2", "lambda e: 1/2", "lambda e: 1+True", "lambda e: 'a'+'b'", "lambda e: 'a'*2",
          "lambda e: lambda y: y", "lambda e: (lambda y: y)(e)", "lambda e: e.Select(lambda y: y.a)", "lambda e: e.Where(lambda y: y.a)", "lambda e: e.First()", "lambda e: e.Count()",
          "lambda e: None", "lambda e: ...", "lambda e: 1j", "lambda e: b'a'", "lambda e: f'{e.x}'", "lambda e: e.x is None", "lambda e: (yield)", "lambda e: (y := e.x)", "lambda e: {1,2}", "lambda e: e.x @ e.y", "lambda e: e.a if e.b else None",
          ]:
    t("Select", s)
for s in ["lambda e: e.x > 1", "lambda e: e.a and e.b", "lambda e: not e.a", "lambda e: e.x", "lambda e: True", "lambda e: e.f()", "lambda e: (e.x>1) if e.a else (e.y>1)", "lambda e: 1 < e.x < 2", "lambda e: not (e.x > 1)", "lambda e: e.x in [1,2]", "lambda e: (e.x > 1) or e.b", "lambda e: any(e.x)"]:
    t("Where", s)

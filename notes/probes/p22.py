import ast, sys
sys.path.insert(0, sys.argv[1])
from func_adl.ast.function_simplifier import simplify_chained_calls
import func_adl.ast.function_simplifier as fs
def simp(s):
    fs.argument_var_counter=0
    try: return ast.unparse(simplify_chained_calls().visit(ast.parse(s).body[0].value))
    except Exception as e: return "EXC %s: %s"%(type(e).__name__, e)
for t in ["Select(ds, lambda p: (lambda q: Select(seq, lambda p: Select(Select(p.trk, lambda t: t.x + q.y), lambda u: u+1)))(p.jets))",
          "(lambda x: Select(seq, lambda x: x+1))(5)",
          "Select(ds, lambda x: Select(Select(x.jets, lambda j: (j, x.met)), lambda p: Select(p[0].tracks, lambda x: x.pt + p[1])))",
          "Select(ds, lambda y: (lambda a: Select(seq, lambda y: a+y))(y))",
          "(lambda y: Select(Select(s, lambda t: y), lambda u: u))(y+1)",
          "Select(ds, lambda y: (lambda y: Select(Select(y.s, lambda t: t+y.a), lambda u: u*2))(y.inner))",
          "Select(ds, lambda x: SelectMany(SelectMany(x.a, lambda x: x.b), lambda y: y.c + x.k))",
          "Select(ds, lambda x: Select(SelectMany(x.a, lambda x: x.b), lambda y: y.c + x.k))",
          "Select(ds, lambda x: Where(SelectMany(x.a, lambda x: x.b), lambda y: y.c > x.k))",
          "(lambda x, y: x-y)(y=1, x=2)", "(lambda x, y: x-y)(1)", "(lambda x=3: x)()",
          "SelectMany(SelectMany(ds, lambda ds: ds.b), lambda y: y.c + ds.k)",
          "Select(Select(ds, lambda e: (e.a, e.b)), lambda t: t[0]+t[1])",
          ]:
    print(t, "\n   =>", simp(t))

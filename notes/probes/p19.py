import sys, traceback
sys.path.insert(0,'/repo')
from func_adl.util_types import *
from typing import Iterable, TypeVar, Generic
T = TypeVar("T"); U = TypeVar("U"); V = TypeVar("V")
class Base(Generic[T]):
    def first(self) -> T: ...
class Mid(Base[U], Generic[T, U]):
    pass
class Mid2(Base[V]):   # renamed param
    pass
class It2(Iterable[U], Generic[T, U]): pass
class Fixed(Base[int]): pass
def tr(f):
    try: print("  ", f())
    except Exception as e: print("   EXC", type(e).__name__, str(e)[:100])
print("Mid[str,int] -> Base param should be int")
tr(lambda: get_inherited(Mid[str, int]))
tr(lambda: resolve_type_vars(T, Mid[str, int], at_class=Base))
print("Mid2[int] first() -> int")
tr(lambda: get_inherited(Mid2[int]))
tr(lambda: resolve_type_vars(T, Mid2[int], at_class=Base))
print("It2[str,int] element should be int")
tr(lambda: unwrap_iterable(It2[str, int]))
print("Fixed: first() -> int")
tr(lambda: resolve_type_vars(T, Fixed, at_class=Base))
tr(lambda: get_method_and_class(Fixed, 'first'))
tr(lambda: is_iterable(Fixed))
tr(lambda: is_iterable(Base[int]))
tr(lambda: is_iterable(int)); tr(lambda: is_iterable(Base))

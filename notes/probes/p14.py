import ast, sys, logging
sys.path.insert(0,'/repo')
from func_adl import EventDataset, ObjectStream
from typing import Iterable
class Jet:
    def pt(self, scale: float = 1.0, unit: str = "GeV") -> float: ...
class Event:
    def Jets(self, bank: str = "default") -> Iterable[Jet]: ...
class DS(EventDataset[Event]):
    def __init__(self): super().__init__(Event)
    async def execute_result_async(self, a, title=None): return a
ds = DS()
for s in ["lambda e: e.Jets(bank='x')", "lambda e: e.Jets().Select(lambda j: j.pt(scale=2.0))", "lambda e: e.Jets(bank='b').Select(lambda j: j.pt(scale=2.0))",
          "lambda e: e.Jets().Select(lambda j: e.Jets(bank='q').Select(lambda k: k.pt(scale=3.0) + j.pt()))",
          "lambda e: e.Jets().Where(lambda j: j.pt(scale=2.0) > 1).Select(lambda j: j.pt())"]:
    try:
        r = ds.Select(s); print(s, "\n   =>", ast.unparse(r.query_ast.args[1]))
    except Exception as e: print(s, "=> EXC", type(e).__name__, e)

import ast, sys, asyncio
sys.path.insert(0, sys.argv[1])
from func_adl import EventDataset
from func_adl.ast.meta_data import remove_empty_metadata
class DS(EventDataset):
    async def execute_result_async(self, a, title=None): return a
ds = DS(); s2 = ds.Select("lambda e: MetaData(e.x, {})").MetaData({}); s3 = s2.Where("lambda x: x > 1")
d=[ast.dump(s.query_ast) for s in (ds,s2,s3)]
r = s3.value()
print("unchanged:", d==[ast.dump(s.query_ast) for s in (ds,s2,s3)], "| sent:", ast.unparse(r))
print("executor still found on result root:", hasattr(r.args[0].args[0], "_func_adl_executor"))

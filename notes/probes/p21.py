import ast, sys
sys.path.insert(0,'/repo')
from func_adl.ast.function_simplifier import simplify_chained_calls
import func_adl.ast.function_simplifier as fs
def simp(s):
    fs.argument_var_counter=0
    try:
        r = simplify_chained_calls().visit(ast.parse(s).body[0].value)
        return r
    except Exception as e:
        return "EXC %s: %s"%(type(e).__name__, e)
def pk(r):
    if isinstance(r,str): return r
    kinds = sorted({type(n).__name__ for n in ast.walk(r) if isinstance(n,(ast.Tuple,ast.List,ast.Dict,ast.Subscript))})
    return (ast.unparse(r), kinds)
tests = [
 # nested packaging
 "Select(Select(ds, lambda e: ((e.a, e.b), {'c': e.c, 'd': [e.d, e.e]})), lambda t: t[0][1] + t[1].c + t[1]['d'][0])",
 # 3 stages
 "Select(Select(Select(ds, lambda e: (e.a, e.b)), lambda t: {'x': t[0], 'y': (t[1], t[0])}), lambda d: d.x + d.y[0])",
 # through Where
 "Select(Where(Select(ds, lambda e: (e.a, e.b)), lambda t: t[0] > 1), lambda t: t[1])",
 "Where(Select(Where(Select(ds, lambda e: (e.a, e.b)), lambda t: t[0] > 1), lambda t: {'k': t[1]}), lambda d: d.k < 5)",
 "Select(Where(Select(Where(Select(ds, lambda e: (e.a, e.b)), lambda t: t[0] > 1), lambda t: {'k': t[1]}), lambda d: d.k < 5), lambda d: d.k)",
 # SelectMany
 "Select(SelectMany(Select(ds, lambda e: (e.jets, e.met)), lambda t: t[0]), lambda j: j.pt)",
 "Select(SelectMany(Select(ds, lambda e: (e.jets, e.met)), lambda t: Select(t[0], lambda j: (j, t[1]))), lambda p: p[0].pt + p[1])",
 "SelectMany(Select(ds, lambda e: {'js': e.jets, 'm': e.met}), lambda d: Where(d.js, lambda j: j.pt > d.m))",
 # nested Select over packaged sequence referring to other fields
 "Select(Select(ds, lambda e: (e.jets, e.met)), lambda t: Select(t[0], lambda j: j.pt + t[1]))",
 "Select(Select(ds, lambda e: (e.jets, e.met)), lambda t: Select(Select(t[0], lambda j: (j.pt, t[1])), lambda q: q[0]*q[1]))",
 "Select(Select(ds, lambda e: (e.jets, e.met)), lambda t: Count(Where(t[0], lambda j: j.pt > t[1])))",
 "Select(Select(ds, lambda e: (e.jets, e.met)), lambda t: First(t[0]).pt + t[1])",
 "Select(Select(ds, lambda e: (e.jets, e.met)), lambda t: First(Select(t[0], lambda j: (j, t[1])))[0].pt)",
 "Select(Select(ds, lambda e: [e.a, e.b]), lambda l: l[0] if l[1] > 0 else l[1])",
 # method form (not handled by simplifier)
 "Select(Select(ds, lambda e: (e.jets, e.met)), lambda t: t[0].Select(lambda j: j.pt + t[1]))",
 "Select(Select(ds, lambda e: (e.jets, e.met)), lambda t: t[0].Select(lambda j: (j.pt, t[1])).Select(lambda q: q[0]))",
 # same binder names everywhere
 "Select(Select(Select(ds, lambda e: (e.a, e.b)), lambda e: (e[1], e[0])), lambda e: e[0] - e[1])",
]
for t in tests:
    print(t, "\n   =>", pk(simp(t)))

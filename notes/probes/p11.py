import ast, sys, logging
sys.path.insert(0,'/repo')
from func_adl import EventDataset, ObjectStream, func_adl_callback, func_adl_callable, func_adl_parameterized_call, register_func_adl_os_collection
from func_adl.type_based_replacement import ObjectStreamInternalMethods
from typing import Iterable, TypeVar, Generic, Tuple, Any
log=[]
T = TypeVar("T")
def cb(tag):
    def _cb(s, a):
        log.append((tag, ast.unparse(a)))
        return s.MetaData({tag: len(log)}), a
    return _cb
def pcb(s, a, param):
    log.append(("param", ast.unparse(a), param))
    return s.MetaData({'p': str(param)}), a, float
@func_adl_callback(cb("TrackCls"))
class Track:
    @func_adl_callback(cb("Track.pt"))
    def pt(self) -> float: ...
    def eta(self) -> float: ...
class Base(Generic[T]):
    def first(self) -> T: ...
    def items(self) -> Iterable[T]: ...
class Mid(Base[T]):
    pass
class Jet:
    def pt(self) -> float: ...
    def trks(self) -> Iterable[Track]: ...
    def mid(self) -> Mid[Track]: ...
    @func_adl_parameterized_call(pcb)
    @property
    def getAttr(self): ...
class MyIter(Iterable[T]):
    pass
@func_adl_callback(cb("EventCls"))
class Event:
    def Jets(self) -> Iterable[Jet]: ...
    def MJets(self) -> MyIter[Jet]: ...
    def n(self) -> int: ...
    def noann(self): ...
@func_adl_callable(cb("fproc"))
def myf(a: float) -> float: ...
class DS(EventDataset[Event]):
    def __init__(self): super().__init__(Event)
    async def execute_result_async(self, a, title=None): return a
ds = DS()
def t(op, s):
    log.clear()
    try:
        r = getattr(ds, op)(s)
        print(op, s, "\n   =>", ast.unparse(r.query_ast), "\n   type:", r.item_type, "\n   log:", log)
    except Exception as e:
        print(op, s, "=> EXC %s: %s"%(type(e).__name__, str(e)[:150].replace("\n"," ")))
t("Select", "lambda e: e.Jets().Select(lambda j: j.trks().Select(lambda t: t.pt()))")
t("Select", "lambda e: e.Jets().Select(lambda j: j.trks().Where(lambda t: t.eta() > 1).Count())")
t("Select", "lambda e: e.Jets().Select(lambda j: j.mid().first().pt())")
t("Select", "lambda e: e.Jets().Select(lambda j: j.mid().items())")
t("SelectMany", "lambda e: e.MJets()")
t("Select", "lambda e: e.MJets().First().pt()")
t("Select", "lambda e: e.Jets().Select(lambda j: j.getAttr[float]('x'))")
t("Select", "lambda e: e.Jets().Select(lambda j: j.getAttr[float, int]('x'))")
t("Select", "lambda e: myf(e.n())")
t("Select", "lambda e: e.Jets().Select(lambda j: myf(j.pt()))")
t("Select", "lambda e: e.noann()")
t("Select", "lambda e: e.n() + 1.0")
t("Select", "lambda e: e.n() / 2")
t("Select", "lambda e: e.n() // 2")
t("Select", "lambda e: (e.n(), e.Jets())[1].First()")
t("Select", "lambda e: {'j': e.Jets(), 'n': e.n()}.j.Select(lambda j: j.pt())")
t("Select", "lambda e: {'j': e.Jets(), 'n': e.n()}['n']")
t("Select", "lambda e: e.Jets()[0].pt()")
t("Select", "lambda e: len(e.Jets())")
t("Select", "lambda e: e.n() if e.n() > 1 else 2.5")
t("Where", "lambda e: e.n()")
t("Where", "lambda e: e.n() > 1 and e.Jets().Count() > 2")

import ast, sys
sys.path.insert(0,'/repo')
from func_adl import EventDataset, ObjectStream
class DS(EventDataset):
    async def execute_result_async(self, a, title=None): return a
ds = DS()
def q(s):
    return ast.unparse(s.query_ast)
def attempt(label, thunk):
    try:
        print(label, "=>", q(thunk()))
    except Exception as e:
        print(label, "=> EXC %s: %s"%(type(e).__name__, str(e)[:100].replace("\n"," ")))

# L1: black-wrapped chain
attempt("L1", lambda_holder := (lambda: None)) if False else None
def L1():
    return (
        ds.Select(lambda e: e.a)
        .Where(lambda e: e > 1)
        .Select(lambda e: e + 1)
    )
attempt("L1 black chain", L1)
def L2():
    return ds.Select(lambda e: e.y).Select(
        lambda e: e.x
    )
attempt("L2 two same-arg Selects, second wrapped", L2)
def L3():
    return ds.Select(lambda e: (e.a,
                                e.b)).Select(lambda e: e[0])
attempt("L3 first multi-line, second on tail line", L3)
def L4():
    return ds.Select(lambda e: e.a).Select(lambda f: f + 1)
attempt("L4 same line different arg names", L4)
def L5():
    return ds.Select(lambda e: e.a).Where(lambda e: e > 1)
attempt("L5 same line different method", L5)
def L6():
    return ds.Select(lambda e: e.a).Select(lambda e: e + 1)
attempt("L6 same line same everything", L6)
def L7():
    return ds.Select(lambda e: "lambda e: e.zz, )" + e.a)  # string containing lambda text
attempt("L7 string with lambda text", L7)
def L8():
    return ds.Select(lambda e: e.a  # comment with ) and , lambda e: e.bad
                     + 1)
attempt("L8 comment inside", L8)
def L9():
    f = lambda e: e.a
    return ds.Select(f)
attempt("L9 lambda in variable", L9)
def L10():
    return ds.Select(lambda e: {'a': e.a, 'b': [e.b, e.c]}).Select(lambda d: d.a)
attempt("L10 dict/list commas inside", L10)
def L11():
    x = [ds.Select(lambda e: e.a)]
    return x[0]
attempt("L11 lambda closes with ) then ]", L11)
def L12():
    return ds.Select(lambda e: e.a if e.b else e.c)
attempt("L12 conditional", L12)
def L13():
    return ds.Select(
        lambda e: e.a).Select(
        lambda e: e.b)
attempt("L13 each lambda own line, odd breaks", L13)
def L14():
    return ds.Select(lambda e:
                     e.a)
attempt("L14 break after colon", L14)
def L15():
    return ds.Select(lambda e: e.a).Select(lambda e: e.b) if False else ds.Select(lambda e: e.c)
attempt("L15 three same on a line (runtime picks third)", L15)
def L16():
    return ds.Select(lambda e: e.sel.Select(lambda e: e.inner))
attempt("L16 nested same-name", L16)
def one_liner(e): return e.a + 1
attempt("L17 one-line def", lambda: ds.Select(one_liner))
def two_liner(e):
    return e.a + 2
attempt("L18 def on two lines", lambda: ds.Select(two_liner))
class C:
    @staticmethod
    def m(e): return e.q
attempt("L19 staticmethod def", lambda: ds.Select(C.m))
def L20():
    return ds.Select(lambda e: e.a), ds.Select(lambda e: e.b)
attempt("L20 tuple of two", lambda: L20()[1])
def L21():
    g = [ds.Select(lambda e: e.jets.Select(lambda e: e.pt)) for _ in range(1)]
    return g[0]
attempt("L21 in comprehension", L21)

import ast, sys, copy, asyncio, logging
sys.path.insert(0,'/repo')
from func_adl import EventDataset, ObjectStream, func_adl_callable
from func_adl.ast.syntatic_sugar import resolve_syntatic_sugar
from func_adl.util_ast import parse_as_ast
from typing import Iterable, NamedTuple
from dataclasses import dataclass
def tryit(f,*a):
    try: return f(*a)
    except Exception as e: return "EXC %s: %s"%(type(e).__name__, e)
class DS(EventDataset):
    async def execute_result_async(self, a, title=None): return a
print("--- C06 sugar")
for s in ["[j.pt for j in jets if j.pt>1 if j.eta<2]",
          "[[t.x for t in j.trk if t.x > j.pt] for j in jets]",
          "[j for j in [k for k in jets if k.a] if j.b]",
          "[x+y for x in a for y in b]",
          "[x+y for x in a if x for y in x.b if y>x]",
          "[j for j in jets if [t for t in j.trk if t>j.z]]",
          "(j.pt for j in jets)",
          "{j for j in jets}", "{j:1 for j in jets}",
          "[a for (a,b) in jets]",
          "lambda e: [e for e in e.jets]",
          "[j.pt for j in jets if (lambda j: j.x)(j)]",
          ]:
    a = ast.parse(s).body[0].value
    r = tryit(resolve_syntatic_sugar, a)
    print(s, "=>", ast.unparse(r) if isinstance(r, ast.AST) else r)
@dataclass
class DC:
    x: int
    y: int = 2
class NT(NamedTuple):
    x: int
    y: int = 3
ds = DS()
for lam in [lambda e: DC(e.a, e.b).x, lambda e: DC(y=e.a, x=e.b), lambda e: DC(e.a), lambda e: DC(e.a, x=e.b), lambda e: DC(e.a, e.b, e.c), lambda e: DC(e.a, z=1), lambda e: NT(e.a), lambda e: NT(y=e.a, x=1), lambda e: DC(), lambda e: DC(y=1), lambda e: DC(*e.a), lambda e: DC(**e.a), lambda e: DC(e.a, y=e.b, **e.c)]:
    r = tryit(lambda: ds.Select(lam))
    print("   ", ast.unparse(r.query_ast.args[1]) if isinstance(r, ObjectStream) else r)

import ast, sys
sys.path.insert(0,'/repo')
from func_adl.ast.function_simplifier import simplify_chained_calls
import func_adl.ast.function_simplifier as fs
def simp(s):
    fs.argument_var_counter=0
    try:
        r = simplify_chained_calls().visit(ast.parse(s).body[0].value)
        try:
            return ast.unparse(r)
        except Exception as e:
            return "UNPARSE-FAIL %r dump=%s"%(e, ast.dump(r))
    except Exception as e:
        return "EXC %s: %s"%(type(e).__name__, e)
tests = [
 # shadowing: inner binder re-uses outer called-lambda param
 "(lambda x: Select(seq, lambda x: x+1))(5)",
 # capture: free var in arg captured by inner binder
 "Select(ds, lambda x: Select(Select(x.jets, lambda j: (j, x.met)), lambda p: Select(p[0].tracks, lambda x: x.pt + p[1])))",
 "Select(ds, lambda y: (lambda a: Select(seq, lambda y: a+y))(y))",
 # chains
 "Select(Select(ds, lambda e: (e.a, e.b)), lambda t: t[0]+t[1])",
 "Where(Select(ds, lambda e: (e.a, e.b)), lambda t: t[0]>t[1])",
 # literal projections
 "(1,2,3)[i]", "(1,2,3)[-1]", "(1,2,3)[0:2]", "(1,2,3)[5]", "[1,2,3][i]", "[1,2][x.y]", "(1,2)[x.y]",
 "{'a':1}['b']", "{'a':1}.b", "{'a':1}[k]", "{'a':1}[0:1]", "{'a':1}.a", "{1:2}[1]",
 "(1,2)[None]", "(1,2)[True]","(1,2)['a']",
 "First(seq)[0]", "First(seq).x", "First(seq).m(1, k=2)",
 "(lambda x, y: x-y)(y=1, x=2)",
 "(lambda x, y: x-y)(1)",
 "(lambda x: x)(1, 2)",
 "(lambda *a: a)(1, 2)",
 "(lambda x=3: x)()",
 "{**d}['a']",
 "seq.Select(lambda x: x).Select(lambda y: y+1)",
]
for t in tests:
    print(t, "\n   =>", simp(t))

import ast, sys, logging
sys.path.insert(0,'/repo')
from func_adl import EventDataset, ObjectStream, func_adl_callback, func_adl_callable, func_adl_parameterized_call
from typing import Iterable, TypeVar
log=[]
def cb(tag):
    def _cb(s, a):
        log.append((tag, ast.unparse(a)))
        return s.MetaData({tag: len(log)}), a
    return _cb
def cb_rewrite(s, a):
    log.append(("rw", ast.unparse(a)))
    new = ast.Call(ast.Attribute(a.func.value, "pt_renamed", ast.Load()), a.args, a.keywords)
    return s.MetaData({"rw": 1}), new
def pcb(s, a, param):
    log.append(("param", ast.unparse(a), param))
    return s.MetaData({'p': str(param)}), a, float
@func_adl_callback(cb("TrackCls"))
class Track:
    @func_adl_callback(cb("Track.pt"))
    def pt(self) -> float: ...
    def eta(self) -> float: ...
class Jet:
    @func_adl_callback(cb_rewrite)
    def pt(self) -> float: ...
    def eta(self) -> float: ...
    def trks(self) -> Iterable[Track]: ...
    @func_adl_parameterized_call(pcb)
    @property
    def getAttr(self): ...
class Event:
    def Jets(self) -> Iterable[Jet]: ...
    def Trks(self) -> Iterable[Track]: ...
class DS(EventDataset[Event]):
    def __init__(self): super().__init__(Event)
    async def execute_result_async(self, a, title=None): return a
ds = DS()

def show(r):
    print("   =>", ast.unparse(r.query_ast), "\n   type:", r.item_type, "\n   log:", list(log)); log.clear()
def guard(th):
    try: show(th())
    except Exception as e: print("   => EXC %s: %s"%(type(e).__name__, str(e)[:150])); log.clear()
guard(lambda: ds.Select("lambda e: e.Jets().Select(lambda j: j.pt())"))
guard(lambda: ds.Select("lambda e: e.Jets().Select(lambda j: j.eta())"))
def p1():
    return ds.Select(lambda e: e.Jets().Select(lambda j: j.getAttr[float]('x')))
guard(p1)
def p2():
    return ds.Select(lambda e: e.Jets().Select(lambda j: j.getAttr[float, int]('x')))
guard(p2)
guard(lambda: ds.Select("lambda e: e.Jets().Select(lambda j: j.trks().Where(lambda t: t.pt() > 1).Select(lambda t: t.eta()))"))
guard(lambda: ds.Select("lambda e: e.Trks().First().pt()"))
guard(lambda: ds.Select("lambda e: {'t': e.Trks()}.t.Select(lambda t: t.pt())"))
guard(lambda: ds.SelectMany("lambda e: e.Jets().SelectMany(lambda j: j.trks())"))
guard(lambda: ds.SelectMany("lambda e: e.Trks()").Where("lambda t: t.pt() > 1"))
guard(lambda: ds.Select("lambda e: e.Jets().Select(lambda j: j.trks().Select(lambda t: (t.pt(), j.pt())))"))
guard(lambda: ds.Select("lambda e: e.Jets().Select(lambda j: j.trks()).Select(lambda ts: ts.Select(lambda t: t.pt()))"))
guard(lambda: ds.Select("lambda e: e.Jets().Select(lambda j: j.trks().Count() if j.eta() > 0 else 0)"))

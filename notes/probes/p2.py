import ast, sys, copy
sys.path.insert(0,'/repo')
from func_adl.util_ast import as_ast, as_literal, check_ast
from func_adl.ast.aggregate_shortcuts import aggregate_node_transformer
from func_adl.ast.func_adl_ast_utils import change_extension_functions_to_calls
from func_adl.ast.meta_data import extract_metadata, remove_empty_metadata
from func_adl.ast.ast_hash import calc_ast_hash
def tryit(f,*a):
    try: return f(*a)
    except Exception as e: return "EXC %s: %s"%(type(e).__name__, e)
print("--- C13 as_ast")
for v in ["plain","it's","a\\nb","a\nb","x' + 'y",'say "hi"', "", "\\", "'", "tab\t", "ünï", ["a'b", 'c"d'], {"k'": "v\\"}, 1, -1, 1.5, -0.0, 1e22, 1e-7, True, None, b"by'tes", (1,"a"), [], {}, (), (1,), float('inf'), 10**30, [1,[2,[3,{"a":(4,)}]]], {"a":None}, 0.1+0.2]:
    r = tryit(as_ast, v)
    if isinstance(r, ast.AST):
        back = tryit(ast.literal_eval, r)
        ok = (back == v and type(back) is type(v))
        print(repr(v), "->", ast.dump(r)[:80], "| back:", repr(back), "OK" if ok else "*** MISMATCH")
    else:
        print(repr(v), "->", r, "*** FAIL")
print("--- C19 aggregates")
for s in ["Sum(a,b)","Sum()","Max(a,b)","len(a,b)","Count()","len(x)","x.Sum()","Sum","f(Sum)","Sum(Select(s, lambda x: len(x)))","Sum(s, key=1)","len(x, k=1)", "Count(x)", "a.len(x)", "Min(s)", "len(*x)"]:
    a = ast.parse(s).body[0].value
    r = tryit(lambda: ast.unparse(aggregate_node_transformer().visit(a)))
    print(s, "=>", r)
print("--- C17 ext")
for s in ["seq.Select(lambda x: x, k=1)", "seq.Select(lambda x: x.jets.Where(lambda j: j.pt>1).Count())", "a.Select.b(1)", "seq.Foo(1).Select(l)", "Select(seq,l).First()", "seq.Select", "seq.First(*a)", "seq.Zip()", "seq.First()[0].Select(f)", "(lambda s: s.Count())(seq)"]:
    a = ast.parse(s).body[0].value
    r = change_extension_functions_to_calls(a)
    print(s, "=>", ast.unparse(r))

import ast, sys, copy, asyncio, logging
sys.path.insert(0,'/repo')
from func_adl import EventDataset, ObjectStream, func_adl_callable, func_adl_callback
from func_adl.type_based_replacement import remap_by_types, remap_from_lambda
from typing import Iterable, NamedTuple, Any
class Jet:
    def pt(self, scale: float = 1.0, unit: str = "GeV", extra: int = 7) -> float: ...
    def two(self, a: int, b: int) -> int: ...
class Event:
    def Jets(self, bank: str = "default", calib: bool = True) -> Iterable[Jet]: ...
    def met(self) -> float: ...
@func_adl_callable()
def myf(a: float, b: float = 10.0, c: int = 3) -> float: ...
class DS(EventDataset[Event]):
    def __init__(self): super().__init__(Event)
    async def execute_result_async(self, a, title=None): return a
ds = DS()
def show(s):
    try:
        r = ds.Select(s)
        print(s, "\n     =>", ast.unparse(r.query_ast.args[1]), "| type", r.item_type)
    except Exception as e:
        print(s, "\n     => EXC %s: %s"%(type(e).__name__, str(e)[:150]))
for s in ["lambda e: e.Jets()", "lambda e: e.Jets('x')", "lambda e: e.Jets(calib=False)", "lambda e: e.Jets(calib=False, bank='y')",
          "lambda e: e.Jets().Select(lambda j: j.pt())", "lambda e: e.Jets().Select(lambda j: j.pt(2.0))", "lambda e: e.Jets().Select(lambda j: j.pt(unit='MeV'))",
          "lambda e: e.Jets().Select(lambda j: j.two(1))", "lambda e: e.Jets().Select(lambda j: j.two())", "lambda e: e.Jets().Select(lambda j: j.two(b=1))",
          "lambda e: myf(e.met())", "lambda e: myf()", "lambda e: myf(b=2.0, a=1.0)", "lambda e: myf(1.0, c=5)", "lambda e: myf(1.0, 2.0, 3, 4)", "lambda e: myf(1.0, zz=3)",
          "lambda e: e.Jets().Select(lambda j: j.pt()).Select(lambda p: p > 1)",
          "lambda e: e.Jets().Where(lambda j: j.pt() > 1).Count()",
          "lambda e: e.Jets().Where(lambda j: j.pt() > 1).First().pt()",
          "lambda e: {'a': e.Jets()}.a.Select(lambda j: j.pt())",
          "lambda e: (e.Jets(), e.met())[0].Select(lambda j: j.pt())",
          ]:
    show(s)

import ast, sys
sys.path.insert(0,'/repo')
from func_adl.ast.function_simplifier import simplify_chained_calls
import func_adl.ast.function_simplifier as fs
def simp(s):
    fs.argument_var_counter=0
    r = simplify_chained_calls().visit(ast.parse(s).body[0].value)
    out = ast.unparse(r)
    try:
        compile(ast.fix_missing_locations(ast.Expression(r)), "<x>", "eval"); c="compile OK"
    except Exception as e: c="COMPILE FAIL %s: %s"%(type(e).__name__, e)
    return out, c, ast.dump(r)[:200]
for t in ["Select(Select(ds, lambda e: e.a), lambda t: t+1)", "First(seq).x", "First(seq).m(1)", "First(seq)[0]", "Where(Where(ds, lambda a: a.x), lambda b: b.y)"]:
    print(t, "\n   =>", simp(t))

import ast, sys, copy, asyncio
sys.path.insert(0,'/repo')
from func_adl import EventDataset, ObjectStream, find_EventDataset
from func_adl.ast.meta_data import extract_metadata, remove_empty_metadata, lookup_query_metadata
from func_adl.ast.ast_hash import calc_ast_hash
def tryit(f,*a):
    try: return f(*a)
    except Exception as e: return "EXC %s: %s"%(type(e).__name__, e)
class DS(EventDataset):
    def __init__(self, name="ds"):
        super().__init__(); self.name=name; self.calls=[]
    async def execute_result_async(self, a, title=None):
        self.calls.append((ast.dump(a), title)); await asyncio.sleep(0.001); return (self.name, a)
print("--- C15")
for s in ["MetaData(MetaData(ds, {'a':1}), {'b':2})",
          "Select(MetaData(ds, {'a':1}), lambda e: MetaData(e.jets, {'c':3}).Select(lambda j: MetaData(j, {})))",
          "MetaData(MetaData(ds, {}), {})",
          "Select(MetaData(ds, {}), lambda e: MetaData(e, {}))",
          "MetaData(ds)", "x.MetaData(ds, {})", "MetaData(ds, {'a': x})", "MetaData(ds, {}, 3)", "MetaData(Select(MetaData(ds,{'i':1}), lambda e: MetaData(e,{'j':2})), {'o':0})",
          "f(MetaData(a,{'x':1}), MetaData(b,{'y':2}), k=MetaData(c,{'z':3}))"]:
    a = ast.parse(s).body[0].value
    before = ast.dump(a)
    r = tryit(extract_metadata, copy.deepcopy(a))
    print(s); print("   extract:", (ast.unparse(r[0]), r[1]) if isinstance(r, tuple) else r)
    a2 = copy.deepcopy(a); b2 = ast.dump(a2)
    r2 = tryit(remove_empty_metadata, a2)
    print("   remove_empty:", ast.unparse(r2) if isinstance(r2, ast.AST) else r2, "| input modified:", ast.dump(a2)!=b2)
print("--- C11/C12/C16")
ds = DS("one")
s1 = ds.Select("lambda e: e.x")
s2 = s1.MetaData({})
s3 = s2.Where("lambda x: x > 1")
d1 = ast.dump(s3.query_ast)
r = s3.value()
print("after value, s3 changed:", ast.dump(s3.query_ast)!=d1, "; exec got:", ast.unparse(r[1]))
print("s3 now:", ast.unparse(s3.query_ast))
print("s2 now:", ast.unparse(s2.query_ast))
# QMetaData
q0 = ds.QMetaData({'a':1})
q1 = q0.QMetaData({'b':2})
print("lookup a on q1:", lookup_query_metadata(q1,'a'), " b:", lookup_query_metadata(q1,'b'))
q2 = q1.Select("lambda e: e.x").QMetaData({'a':5})
print("q2 a,b:", lookup_query_metadata(q2,'a'), lookup_query_metadata(q2,'b'))
q3 = q2.QMetaData({'c':3})
print("q3 a,b,c:", lookup_query_metadata(q3,'a'), lookup_query_metadata(q3,'b'), lookup_query_metadata(q3,'c'))
print("q0 b (sibling leak?):", lookup_query_metadata(q0,'b'), " ds a:", lookup_query_metadata(ds,'a'))
# exec on q-metadata root copy
print("exec q1:", tryit(lambda: q1.Select("lambda e: e.y").value()[0]))
print("find_EventDataset on q3:", tryit(lambda: find_EventDataset(q3.query_ast)._eds_object.name))
# None-valued metadata
q4 = ds.QMetaData({'n': None}); print("None val lookup:", lookup_query_metadata(q4,'n'))
# falsy values / lookup inside lambda body nodes
q5 = ds.QMetaData({'z': 0}).QMetaData({'z': 0}); print("z:", lookup_query_metadata(q5,'z'))
print("--- C20")
a = ast.parse("Select(ds, lambda e: e.x + 1)").body[0].value
b = ast.parse("Select(ds,   lambda e:(e.x+1))").body[0].value
print(calc_ast_hash(a)==calc_ast_hash(b))
for s,t in [("f(1)","f(True)"),("f(1)","f(1.0)"),("f('1')","f(1)"),("f(a,b)","f(b,a)"),("f(x)","f(x,)"),("a.b","a .b"),("f(0)","f(-0)"),("f(0.0)","f(-0.0)"), ("1e400","2e400"), ("f(u'a')","f('a')")]:
    ha=calc_ast_hash(ast.parse(s).body[0].value); hb=calc_ast_hash(ast.parse(t).body[0].value)
    print(s,t,"same" if ha==hb else "diff", "| dump same:", ast.dump(ast.parse(s))==ast.dump(ast.parse(t)))
n1 = ast.Name('x', ast.Load()); n2 = ast.Name('x')  # missing ctx
print("ctx missing:", calc_ast_hash(n1)==calc_ast_hash(n2), ast.dump(n1), ast.dump(n2))

import ast, sys, copy, asyncio, logging
sys.path.insert(0,'/repo')
from func_adl import EventDataset, ObjectStream, func_adl_callable
from typing import Iterable, NamedTuple
from dataclasses import dataclass
class DS(EventDataset):
    async def execute_result_async(self, a, title=None): return a
@dataclass
class DC:
    x: int
    y: int = 2
class NT(NamedTuple):
    x: int
    y: int = 3
ds = DS()
def show(f, *a):
    try:
        r = f(*a)
        print("   ", ast.unparse(r.query_ast.args[1]))
    except Exception as e:
        print("    EXC %s: %s"%(type(e).__name__, str(e)[:150]))
show(ds.Select, lambda e: DC(e.a, e.b).x)
show(ds.Select, lambda e: DC(y=e.a, x=e.b))
show(ds.Select, lambda e: DC(e.a))
show(ds.Select, lambda e: DC(e.a, x=e.b))
show(ds.Select, lambda e: DC(e.a, e.b, e.c))
show(ds.Select, lambda e: DC(e.a, z=1))
show(ds.Select, lambda e: NT(e.a))
show(ds.Select, lambda e: NT(y=e.a, x=1))
show(ds.Select, lambda e: DC())
show(ds.Select, lambda e: DC(y=1))
show(ds.Select, lambda e: DC(*e.a))
show(ds.Select, lambda e: DC(**e.a))
show(ds.Select, lambda e: DC(y=e.a, x=e.b).y)
show(ds.Select, lambda e: [DC(j.a, j.b) for j in e.jets])
show(ds.Select, lambda e: DC(e.a, y=e.b, **e.c))

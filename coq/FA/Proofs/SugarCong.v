(* Congruence of the reference semantics under refinement, for passes that rewrite [Call] *and*
   comprehension nodes.

   Proofs/EvalCong.v (shared, not edited) states the engine for a transformer that is generic on
   every non-[Call] node.  resolve_syntatic_sugar also rewrites ListComp / GeneratorExp nodes, so
   that hypothesis is false for it.  This file is the same development with the weaker hypothesis
   "generic on every node that is neither a call nor a comprehension" ([special e = false]); the
   lemmas of EvalCong.v that do not depend on the hypothesis (evals_refine, boolop_refines,
   compare_refines, conds_refines, sem_ok) are imported, the others are re-proved here with the
   same scripts (only the case analyses on the callee / argument gain two trivial cases). *)
From FA.Base Require Import PyAst Induct Value Eval Traverse.
From FA.Proofs Require Import TraverseFacts Refine EvalCong.
From Coq Require Import Lia.

Definition special (e : expr) : bool :=
  match e with Call _ _ _ _ | ListComp _ _ | GenExp _ _ => true | _ => false end.

Section SCong.
  Variable B : backend.
  Variable ops : list string.
  Variable T : expr -> option expr.

  Notation ev := (eval B ops).
  Notation sem_ok := (sem_ok B ops T).


  Hypothesis T_generic : forall e, special e = false -> T e = map_children T e.

  Lemma T_name x : T (Name x) = Some (Name x).
  Proof. rewrite T_generic by reflexivity. reflexivity. Qed.



  Lemma view_refines n a a' :
    (forall e0, size e0 < n -> sem_ok e0) -> size a < n ->
    T a = Some a' -> forall E, aview_refines (view B ops E a) (view B ops E a').
  Proof.
    intros IH Hn Ha E.
    destruct (special a) eqn:Hc.
    - (* a call or a comprehension: not a lambda, so only its value view is defined *)
      destruct a; try discriminate; unfold view, mk_view;
        (split; [cbn [av_val]; apply IH; assumption | split; intros f Hf; discriminate]).
    - rewrite T_generic in Ha by assumption.
      destruct a; try discriminate; unfold view, mk_view;
        try (split; [cbn [av_val]; apply IH; [assumption | rewrite T_generic by reflexivity; assumption]
                    | split; intros f Hf; discriminate]).
      (* Lambda *)
      simpl in Ha. apply obind_some in Ha. destruct Ha as [b' [Hb Ha]]. inversion Ha; subst.
      assert (Hsb : size a < n) by (simpl in Hn; lia).
      split; [|split].
      + cbn [av_val]. apply refines_none.
      + cbn [av_f1]. intros f Hf. destruct ps as [|x [|y ps]]; try discriminate.
        inversion Hf; subst. eexists; split; [reflexivity|].
        intros v. apply IH; assumption.
      + cbn [av_f2]. intros f Hf. destruct ps as [|x [|y [|z ps]]]; try discriminate.
        inversion Hf; subst. eexists; split; [reflexivity|].
        intros v w. apply IH; assumption.
  Qed.

  Lemma views_refine n l l' :
    (forall e0, size e0 < n -> sem_ok e0) -> sizes l < n ->
    omap T l = Some l' ->
    forall E, Forall2 aview_refines (map (view B ops E) l) (map (view B ops E) l').
  Proof.
    intros IH Hn H E. apply omap_T_Forall2 in H.
    induction H as [|a a' l l' Ha _ IHl]; simpl; constructor.
    - eapply view_refines; try eassumption. simpl in Hn; lia.
    - apply IHl. simpl in Hn; lia.
  Qed.




  Lemma comp_case n elt elt' gs gs' E :
    (forall e0, size e0 < n -> sem_ok e0) -> size elt + sizes gs < n ->
    T elt = Some elt' -> omap T gs = Some gs' ->
    refines (comp_sem ev E elt gs) (comp_sem ev E elt' gs').
  Proof.
    intros IH Hn Helt Hgs. unfold comp_sem.
    destruct gs as [|g gs]; [apply refines_none|].
    destruct g; try apply refines_none.
    destruct g1; try apply refines_none.
    destruct is_async; [apply refines_none|].
    destruct gs; [|apply refines_none].
    apply omap_cons_some in Hgs. destruct Hgs as (g' & r & Hg & Hr & ->).
    apply omap_nil_some in Hr; subst.
    rewrite T_generic in Hg by reflexivity. simpl in Hg.
    apply obind_some in Hg. destruct Hg as [t' [Ht Hg]].
    apply obind_some in Hg. destruct Hg as [i' [Hi Hg]].
    apply obind_some in Hg. destruct Hg as [ifs' [Hifs Hg]]. inversion Hg; subst; clear Hg.
    rewrite T_name in Ht. inversion Ht; subst; clear Ht.
    cbn [sizes] in Hn. rewrite (size_sizes (CompFor _ _ _ _)) in Hn. cbn [children sizes] in Hn.
    apply obind_refines; [apply IH; [lia | assumption]|]. intros s.
    apply obind_refines_r. intros l.
    apply obind_refines.
    - apply ofilter_refines. intros v. apply conds_refines.
      eapply evals_refine; try eassumption. lia.
    - intros kept. apply option_map_refines. apply omap_refines. intros v.
      apply IH; [lia | assumption].
  Qed.

  (* The congruence step: a node handled by generic_visit preserves meaning if all smaller terms do. *)
  Theorem node_congruence e :
    (forall e0, size e0 < size e -> sem_ok e0) ->
    T e = map_children T e -> sem_ok e.
  Proof.
    intros IH Hgen e' He E. rewrite Hgen in He.
    pose proof (size_sizes e) as Hsz.
    destruct e; cbn [children] in Hsz; simpl in He;
      repeat match goal with
             | H : obind _ _ = Some _ |- _ =>
                 apply obind_some in H; let a := fresh "t" in let Ha := fresh "Ht" in destruct H as [a [Ha H]]
             end;
      try (inversion He; subst; clear He);
      try apply refines_refl; try apply refines_none.
    - (* Attr *)
      cbn [eval]. apply obind_refines_l. apply IH; [simpl in *; lia | assumption].
    - (* Call *)
      assert (Hsa : sizes args < size (Call e args kwn kwv)).
      { rewrite Hsz. assert (sizes (args ++ kwv) = sizes args + sizes kwv).
        { clear. induction args; simpl; auto. rewrite IHargs; lia. }
        simpl. lia. }
      assert (Hsk : sizes kwv < size (Call e args kwn kwv)).
      { rewrite Hsz. assert (sizes (args ++ kwv) = sizes args + sizes kwv).
        { clear. induction args; simpl; auto. rewrite IHargs; lia. }
        simpl. lia. }
      assert (Hse : size e < size (Call e args kwn kwv)) by (rewrite Hsz; simpl; lia).
      pose proof (evals_refine B ops T _ _ _ IH Hsa Ht0 E) as Hargs.
      pose proof (evals_refine B ops T _ _ _ IH Hsk Ht1 E) as Hkwv.
      pose proof (views_refine _ _ _ IH Hsa Ht0 E) as Hviews.
      cbn [eval].
      destruct kwn as [|k kwn].
      + (* no keywords *)
        destruct (special e) eqn:Hce.
        { destruct e; try discriminate Hce; apply refines_none. }
        rewrite T_generic in Ht by assumption.
        destruct e; try discriminate Hce; simpl in Ht;
          repeat match goal with
                 | H : obind _ _ = Some _ |- _ =>
                     apply obind_some in H; let a := fresh "u" in let Ha := fresh "Hu" in destruct H as [a [Ha H]]
                 end;
          inversion Ht; subst; clear Ht; try apply refines_none.
        * (* Name op *)
          destruct args as [|s rest].
          -- apply omap_nil_some in Ht0; subst. apply refines_refl.
          -- apply omap_cons_some in Ht0. destruct Ht0 as (s' & rest' & Hs & Hrest & ->).
             apply apply_op_refines.
             ++ apply IH; [simpl in *; lia | assumption].
             ++ eapply views_refine; try eassumption. simpl in *; lia.
        * (* Attr s m *)
          destruct (is_op ops a).
          -- apply apply_op_refines; [|assumption].
             apply IH; [simpl in *; lia | assumption].
          -- apply obind_refines; [apply IH; [simpl in *; lia | assumption]|]. intros r.
             apply obind_refines_l. apply omap_refines2. assumption.
        * (* Lambda ps b *)
          apply obind_refines; [apply omap_refines2; assumption|]. intros vs.
          apply obind_refines_r. intros E'. apply IH; [simpl in *; lia | assumption].
      + (* keywords *)
        apply obind_refines; [apply omap_refines2; assumption|]. intros vs.
        apply obind_refines; [apply omap_refines2; assumption|]. intros kvs.
        apply obind_refines_r. intros kws.
        destruct (special e) eqn:Hce.
        { destruct e; try discriminate Hce; apply refines_none. }
        rewrite T_generic in Ht by assumption.
        destruct e; try discriminate Hce; simpl in Ht;
          repeat match goal with
                 | H : obind _ _ = Some _ |- _ =>
                     apply obind_some in H; let a := fresh "u" in let Ha := fresh "Hu" in destruct H as [a [Ha H]]
                 end;
          inversion Ht; subst; clear Ht; try apply refines_none; try apply refines_refl.
        * apply obind_refines_l. apply IH; [simpl in *; lia | assumption].
        * apply obind_refines_r. intros E'. apply IH; [simpl in *; lia | assumption].
    - (* UnaryOp *)
      cbn [eval]. apply obind_refines_l. apply IH; [simpl in *; lia | assumption].
    - (* BinOp *)
      cbn [eval]. apply obind_refines; [apply IH; [simpl in *; lia | assumption]|]. intros a.
      apply obind_refines_l. apply IH; [simpl in *; lia | assumption].
    - (* BoolOp *)
      cbn [eval]. apply boolop_refines. eapply evals_refine; try eassumption. simpl in *; lia.
    - (* Compare *)
      cbn [eval]. apply obind_refines; [apply IH; [simpl in *; lia | assumption]|]. intros lv.
      apply compare_refines. eapply evals_refine; try eassumption. simpl in *; lia.
    - (* IfExp *)
      cbn [eval]. apply obind_refines; [apply IH; [simpl in *; lia | assumption]|]. intros cv.
      destruct (truthy cv); apply IH; first [simpl in *; lia | assumption].
    - (* Tuple *)
      cbn [eval]. apply option_map_refines. apply omap_refines2. eapply evals_refine; try eassumption. simpl in *; lia.
    - (* List *)
      cbn [eval]. apply option_map_refines. apply omap_refines2. eapply evals_refine; try eassumption. simpl in *; lia.
    - (* Dict *)
      cbn [eval].
      assert (sizes (ks ++ vs) = sizes ks + sizes vs).
      { clear. induction ks; simpl; auto. rewrite IHks; lia. }
      rewrite (omap_length _ _ _ Ht), (omap_length _ _ _ Ht0).
      destruct (Nat.eqb (length ks) (length vs)); [|apply refines_none].
      apply obind_refines; [apply omap_refines2; eapply evals_refine; try eassumption; simpl in *; lia|]. intros kvs.
      apply obind_refines_l. apply omap_refines2; eapply evals_refine; try eassumption; simpl in *; lia.
    - (* Subscript *)
      cbn [eval]. apply obind_refines; [apply IH; [simpl in *; lia | assumption]|]. intros a.
      apply obind_refines_l. apply IH; [simpl in *; lia | assumption].
    - (* ListComp *)
      cbn [eval]. eapply comp_case; try eassumption. simpl in *; lia.
    - (* GenExp *)
      cbn [eval]. eapply comp_case; try eassumption. simpl in *; lia.
  Qed.

  (* The whole pass preserves meaning as soon as its [Call] rule does (given smaller terms do). *)
  Theorem pass_refines :
    (forall e, special e = true -> (forall e0, size e0 < size e -> sem_ok e0) -> sem_ok e) ->
    forall e, sem_ok e.
  Proof.
    intros Hcall e.
    remember (size e) as n eqn:Hn. revert e Hn.
    induction n as [n IHn] using (well_founded_induction Wf_nat.lt_wf). intros e ->.
    assert (IH : forall e0, size e0 < size e -> sem_ok e0).
    { intros e0 H0. eapply IHn; [exact H0 | reflexivity]. }
    destruct (special e) eqn:Hc.
    - apply Hcall; assumption.
    - apply node_congruence; [assumption|]. apply T_generic; assumption.
  Qed.

End SCong.

(* The copy util_ast._copy_of_tree makes is a tree of its own: the objects it creates (everything of the result that is not at or
   below another stream's node) are exactly the counter values used, once each, in preorder - no object is created twice, none is
   shared between two places of the copy, and the counter range is used up. *)
From Coq Require Import String List Bool Arith Lia.
Import ListNotations.
From FA.Gen Require Import TablesCopy.
From FA.Model Require Import CopyTree.
From FA.Proofs Require Import CopyTreeFacts.

(* the objects of a tree that are not at or below a node carrying a stream attribute *)
Fixpoint own (t : ntree) : list nat :=
  match t with Node i ats _ ks => if carries ats then [] else i :: flat_map own ks end.

Definition fresh (t : ntree) : Prop := forall n,
  n <= snd (copy t n) /\ own (fst (copy t n)) = seq n (snd (copy t n) - n).

Definition fresh_list (l : list ntree) : Prop := forall n,
  n <= snd (copy_list l n) /\ flat_map own (fst (copy_list l n)) = seq n (snd (copy_list l n) - n).

Lemma seq_split a b c : a <= b -> b <= c -> seq a (c - a) = seq a (b - a) ++ seq b (c - b).
Proof.
  intros H1 H2. replace (c - a) with ((b - a) + (c - b)) by lia. rewrite seq_app. replace (a + (b - a)) with b by lia. reflexivity.
Qed.

Lemma fresh_list_of l : Forall fresh l -> fresh_list l.
Proof.
  induction l as [|k l IH]; intros HF n.
  - cbn. split; [lia|]. rewrite Nat.sub_diag. reflexivity.
  - inversion HF as [|x y Hk Hl]; subst. specialize (IH Hl).
    rewrite copy_list_cons. destruct (copy k n) as [k' n1] eqn:Ek. destruct (copy_list l n1) as [l' n2] eqn:El.
    destruct (Hk n) as (K1 & K2). rewrite Ek in K1, K2. cbn [fst snd] in *.
    destruct (IH n1) as (L1 & L2). rewrite El in L1, L2. cbn [fst snd] in *.
    cbn [flat_map]. split; [lia|]. rewrite K2, L2. symmetry. apply seq_split; assumption.
Qed.

Lemma copy_fresh : forall t, fresh t.
Proof.
  apply ntree_ind'. intros i ats c ks HF n. rewrite copy_unfold.
  destruct (carries ats) eqn:Hc.
  - cbn [fst snd own]. rewrite Hc, Nat.sub_diag. split; [lia | reflexivity].
  - pose proof (fresh_list_of ks HF (S n)) as (L1 & L2).
    destruct (copy_list ks (S n)) as [ks' n'] eqn:El. cbn [fst snd] in *.
    cbn [own]. rewrite Hc, L2. split; [lia|].
    replace (n' - n) with (S (n' - S n)) by lia. reflexivity.
Qed.

Theorem copy_creates_each_object_once t n :
  own (fst (copy t n)) = seq n (snd (copy t n) - n) /\ NoDup (own (fst (copy t n))).
Proof.
  destruct (copy_fresh t n) as (_ & H). split; [exact H | rewrite H; apply seq_NoDup].
Qed.

(* own and attached partition the objects of a tree *)
Lemma ids_own_or_attached : forall t i, In i (ids t) <-> In i (own t) \/ In i (attached t).
Proof.
  apply (ntree_ind' (fun t => forall i, In i (ids t) <-> In i (own t) \/ In i (attached t))).
  intros j ats c ks HF i. cbn [own attached]. destruct (carries ats) eqn:Hc.
  - split; [intros H; right; exact H | intros [[]|H]; exact H].
  - cbn [ids]. split.
    + intros [H|H]; [left; left; exact H|]. apply in_flat_map in H. destruct H as (k & Hk & Hi).
      rewrite Forall_forall in HF. apply (HF k Hk) in Hi. destruct Hi as [Hi|Hi].
      * left. right. apply in_flat_map. exists k. split; assumption.
      * right. apply in_flat_map. exists k. split; assumption.
    + rewrite Forall_forall in HF. intros [[H|H]|H]; [left; exact H | right | right];
        apply in_flat_map in H; destruct H as (k & Hk & Hi); apply in_flat_map; exists k; (split; [exact Hk|]); apply (HF k Hk); [left|right]; exact Hi.
Qed.

(* the other streams' nodes reachable from the copy are those reachable from the caller's tree: the same objects, all of them, in
   the same order - a back end that walks the copied lambda finds the datasets, executors and metadata it would have found *)
Lemma copy_list_attached l : Forall (fun t => forall n, attached (fst (copy t n)) = attached t) l ->
  forall n, flat_map attached (fst (copy_list l n)) = flat_map attached l.
Proof.
  induction l as [|k l IH]; intros HF n; [reflexivity|].
  inversion HF as [|x y Hk Hl]; subst. rewrite copy_list_cons.
  destruct (copy k n) as [k' n1] eqn:Ek. specialize (IH Hl n1). destruct (copy_list l n1) as [l' n2] eqn:El.
  cbn [fst flat_map] in *. specialize (Hk n). rewrite Ek in Hk. cbn [fst] in Hk. rewrite Hk, IH. reflexivity.
Qed.

Theorem copy_keeps_all_attached : forall t n, attached (fst (copy t n)) = attached t.
Proof.
  apply (ntree_ind' (fun t => forall n, attached (fst (copy t n)) = attached t)).
  intros i ats c ks HF n. rewrite copy_unfold. destruct (carries ats) eqn:Hc; [reflexivity|].
  pose proof (copy_list_attached ks HF (S n)) as L. destruct (copy_list ks (S n)) as [ks' n'] eqn:El.
  cbn [fst attached] in *. rewrite Hc. exact L.
Qed.

Example own_of_copies :
  own (fst (copy ex_lambda 9)) = [9; 10; 11; 12; 13; 14; 15; 16; 17] /\
  own (fst (copy ex_query_in_lambda 6)) = [6; 7; 8].
Proof. vm_compute. split; reflexivity. Qed.

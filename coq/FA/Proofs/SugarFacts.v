(* C06, structural half: inversion principles for the pass [sugar], head preservation,
   completeness (no comprehension left), totality (no crash on trees whose generators are
   comprehension nodes) and refusal (non-name target / async => ValueError). *)
From FA.Base Require Import PyAst Induct Value Eval Traverse.
From FA.Model Require Import Sugar SugarSpec.
From FA.Proofs Require Import TraverseFacts EvalCong.
From Coq Require Import Lia.

(* ---------- the result monad ---------- *)

Lemma rbind_ok {A B} (r : sres A) (f : A -> sres B) b :
  rbind r f = Ok b -> exists a, r = Ok a /\ f a = Ok b.
Proof. destruct r; simpl; intros H; [eauto | discriminate]. Qed.

Lemma rbind_err {A B} (r : sres A) (f : A -> sres B) k :
  rbind r f = Err k -> r = Err k \/ exists a, r = Ok a /\ f a = Err k.
Proof.
  destruct r as [a|e]; simpl; intros H.
  - right. exists a. split; [reflexivity | exact H].
  - left. inversion H; reflexivity.
Qed.

Lemma to_opt_some {A} (r : sres A) a : to_opt r = Some a <-> r = Ok a.
Proof. destruct r; simpl; split; intros H; inversion H; reflexivity. Qed.

Lemma to_opt_rmap {A B} (f : A -> sres B) l : to_opt (rmap f l) = omap (fun x => to_opt (f x)) l.
Proof.
  induction l as [|x xs IH]; [reflexivity|].
  rewrite omap_cons. simpl. destruct (f x); simpl; [|reflexivity].
  rewrite <- IH. destruct (rmap f xs); reflexivity.
Qed.

Lemma rmap_ok {A B} (f : A -> sres B) l r :
  rmap f l = Ok r <-> Forall2 (fun x y => f x = Ok y) l r.
Proof.
  revert r; induction l as [|x xs IH]; intros r; simpl; split; intros H.
  - inversion H; constructor.
  - inversion H; reflexivity.
  - apply rbind_ok in H. destruct H as [y [Hy H]]. apply rbind_ok in H. destruct H as [ys [Hys H]].
    inversion H; subst. constructor; [assumption | apply IH; assumption].
  - inversion H; subst. rewrite H2. simpl. apply IH in H4. rewrite H4. reflexivity.
Qed.

Lemma rmap_err {A B} (f : A -> sres B) l k :
  rmap f l = Err k -> exists c, In c l /\ f c = Err k.
Proof.
  induction l as [|x xs IH]; simpl; intros H; [discriminate|].
  apply rbind_err in H. destruct H as [H | [y [Hy H]]].
  - exists x; split; [left; reflexivity | assumption].
  - apply rbind_err in H. destruct H as [H | [ys [Hys H]]]; [|discriminate].
    destruct (IH H) as [c [Hin Hc]]. exists c; split; [right|]; assumption.
Qed.

Lemma to_opt_map_children f e :
  to_opt (map_children_r f e) = map_children (fun x => to_opt (f x)) e.
Proof.
  destruct e; simpl; rewrite <- ?to_opt_rmap;
    repeat match goal with
           | |- context [rbind ?r _] => destruct r; simpl
           end; reflexivity.
Qed.

Lemma Forall2_to_opt {A B} (f : A -> sres B) l r :
  Forall2 (fun x y => to_opt (f x) = Some y) l r -> Forall2 (fun x y => f x = Ok y) l r.
Proof. induction 1; constructor; [apply to_opt_some|]; assumption. Qed.

Lemma map_children_r_ok f e e' :
  map_children_r f e = Ok e' ->
  exists cs', Forall2 (fun c c' => f c = Ok c') (children e) cs' /\ e' = rebuild e cs'.
Proof.
  intros H. apply to_opt_some in H. rewrite to_opt_map_children in H.
  apply map_children_rebuild in H. destruct H as [cs' [Hcs ->]].
  exists cs'; split; [|reflexivity].
  apply Forall2_to_opt. apply omap_T_Forall2. assumption.
Qed.

Lemma map_children_r_of f e cs' :
  Forall2 (fun c c' => f c = Ok c') (children e) cs' -> map_children_r f e = Ok (rebuild e cs').
Proof.
  intros H. apply to_opt_some. rewrite to_opt_map_children. apply map_children_of_omap.
  apply omap_of_Forall2. induction H; constructor; [apply to_opt_some|]; assumption.
Qed.

Lemma map_children_r_err f e k :
  map_children_r f e = Err k -> exists c, In c (children e) /\ f c = Err k.
Proof.
  destruct e; simpl; intros H; try discriminate;
    repeat match goal with
           | H : rbind _ _ = Err _ |- _ => apply rbind_err in H; destruct H as [H | [? [? H]]]
           | H : Ok _ = Err _ |- _ => discriminate H
           end;
    try match goal with
        | H : rmap _ _ = Err _ |- _ => apply rmap_err in H; destruct H as [c [Hin H]]
        end;
    (eexists; split; [|eassumption]); simpl; rewrite ?in_app_iff; tauto.
Qed.

(* ---------- shape of the pass ---------- *)

Definition is_comp (e : expr) : bool := match e with ListComp _ _ | GenExp _ _ => true | _ => false end.

Lemma sugar_unfold e :
  sugar e = if is_comp e then rbind (map_children_r sugar e) lower_comp
            else if is_call e then rbind (map_children_r sugar e) lower_call
            else map_children_r sugar e.
Proof. destruct e; reflexivity. Qed.

Lemma sugar_ok_inv e e' :
  sugar e = Ok e' ->
  exists cs', Forall2 (fun c c' => sugar c = Ok c') (children e) cs' /\
    (if is_comp e then lower_comp (rebuild e cs') = Ok e'
     else if is_call e then lower_call (rebuild e cs') = Ok e'
     else e' = rebuild e cs').
Proof.
  rewrite sugar_unfold. intros H.
  destruct (is_comp e); [|destruct (is_call e)].
  - apply rbind_ok in H. destruct H as [a [Ha H]].
    apply map_children_r_ok in Ha. destruct Ha as [cs' [Hcs ->]]. eauto.
  - apply rbind_ok in H. destruct H as [a [Ha H]].
    apply map_children_r_ok in Ha. destruct Ha as [cs' [Hcs ->]]. eauto.
  - apply map_children_r_ok in H. destruct H as [cs' [Hcs ->]]. eauto.
Qed.

Lemma sugar_err_inv e k :
  sugar e = Err k ->
  (exists c, In c (children e) /\ sugar c = Err k) \/
  (exists cs', Forall2 (fun c c' => sugar c = Ok c') (children e) cs' /\
     ((is_comp e = true /\ lower_comp (rebuild e cs') = Err k) \/
      (is_comp e = false /\ is_call e = true /\ lower_call (rebuild e cs') = Err k))).
Proof.
  rewrite sugar_unfold. intros H.
  destruct (is_comp e) eqn:Hc; [|destruct (is_call e) eqn:Hk].
  - apply rbind_err in H. destruct H as [H | [a [Ha H]]].
    + left. apply map_children_r_err. assumption.
    + right. apply map_children_r_ok in Ha. destruct Ha as [cs' [Hcs ->]]. eauto.
  - apply rbind_err in H. destruct H as [H | [a [Ha H]]].
    + left. apply map_children_r_err. assumption.
    + right. apply map_children_r_ok in Ha. destruct Ha as [cs' [Hcs ->]]. eauto 8.
  - left. apply map_children_r_err. assumption.
Qed.

(* ---------- resolve_generator ---------- *)

Definition good_clause (g : expr) : Prop :=
  match g with CompFor (Name _) _ _ false => True | _ => False end.

Lemma resolve_gens_ok_all body a l r :
  resolve_gens body a l = Ok r -> Forall good_clause l.
Proof.
  revert body a; induction l as [|c rest IH]; intros body a H; [constructor|].
  simpl in H. destruct c; try discriminate. destruct c1; try discriminate.
  destruct is_async; [discriminate|]. constructor; [exact I | eapply IH; eassumption].
Qed.

Lemma resolve_gens_no_crash body a l k :
  Forall (fun g => is_compfor g = true) l -> resolve_gens body a l <> Err (Crash k).
Proof.
  revert body a; induction l as [|c rest IH]; intros body a HF H; [discriminate|].
  inversion HF; subst. simpl in H. destruct c; try discriminate. destruct c1; try discriminate.
  destruct is_async; [discriminate|]. eapply IH; eassumption.
Qed.

(* the result is the node itself (no generator) or a Select call *)
Lemma resolve_gens_shape body a l r :
  resolve_gens body a l = Ok r ->
  (l = [] /\ r = a) \/ exists x src b, r = select_call x src b.
Proof.
  revert body a; induction l as [|c rest IH]; intros body a H.
  - inversion H; left; split; reflexivity.
  - right. simpl in H. destruct c; try discriminate. destruct c1; try discriminate.
    destruct is_async; [discriminate|].
    apply IH in H. destruct H as [[-> ->] | H]; [|assumption]. eauto.
Qed.

Lemma no_comp_where_chain x ifs : forall src,
  no_comp (where_chain x src ifs) = no_comp src && forallb no_comp ifs.
Proof.
  induction ifs as [|c cs IH]; intros src; simpl.
  - rewrite andb_true_r; reflexivity.
  - unfold where_chain in *. simpl. rewrite IH. simpl.
    rewrite !andb_true_r. rewrite andb_assoc. reflexivity.
Qed.

(* ---------- head preservation ---------- *)

Lemma lower_comp_shape a r :
  lower_comp a = Ok r -> r = a \/ exists x src b, r = select_call x src b.
Proof.
  destruct a; simpl; intros H; try (inversion H; left; reflexivity);
    unfold resolve_generator in H; apply resolve_gens_shape in H;
    (destruct H as [[_ ->] | H]; [left; reflexivity | right; assumption]).
Qed.

Lemma lower_call_shape a r :
  lower_call a = Ok r -> r = a \/ exists assoc, r = dict_of_assoc assoc.
Proof.
  unfold lower_call, lower_call_with. destruct a; intros H; try (inversion H; left; reflexivity).
  destruct a; try (inversion H; left; reflexivity).
  destruct (class_fields c); [|inversion H; left; reflexivity].
  destruct (existsb is_starred args); [discriminate|].
  destruct (convert _ _ _); [|discriminate]. inversion H; right; eauto.
Qed.

(* constructor class of a node: the pass maps Name to Name, Const to Const, comprehension clauses to
   comprehension clauses, and nothing else to those *)
Ltac rbinds :=
  repeat match goal with
         | H : rbind _ _ = Ok _ |- _ =>
             let a := fresh "a" in let Ha := fresh "Ha" in
             apply rbind_ok in H; destruct H as [a [Ha H]]
         end;
  repeat match goal with
         | H : Ok _ = Ok _ |- _ => inversion H; subst; clear H
         end.

Ltac head_inv H :=
  rewrite sugar_unfold in H;
  match type of H with
  | context [sugar ?e] => destruct e
  | context [map_children_r sugar ?e] => destruct e
  end; simpl in H; rbinds; try discriminate;
  try match goal with
      | H : lower_call _ = Ok _ |- _ =>
          apply lower_call_shape in H; destruct H as [H | [? H]]; discriminate H
      | H : lower_comp _ = Ok _ |- _ =>
          apply lower_comp_shape in H; destruct H as [H | (? & ? & ? & H)]; discriminate H
      end.

Lemma sugar_name_inv e x : sugar e = Ok (Name x) -> e = Name x.
Proof. intros H. head_inv H. reflexivity. Qed.

Lemma sugar_const_inv e c : sugar e = Ok (Const c) -> e = Const c.
Proof. intros H. head_inv H. reflexivity. Qed.

Lemma sugar_compfor_inv e t' i' ifs' a :
  sugar e = Ok (CompFor t' i' ifs' a) ->
  exists t i ifs, e = CompFor t i ifs a /\ sugar t = Ok t' /\ sugar i = Ok i' /\
                  Forall2 (fun c c' => sugar c = Ok c') ifs ifs'.
Proof.
  intros H. head_inv H.
  match goal with H : rmap _ _ = Ok _ |- _ => apply rmap_ok in H end. eauto 8.
Qed.

Lemma sugar_compfor_fwd t i ifs a e' :
  sugar (CompFor t i ifs a) = Ok e' ->
  exists t' i' ifs', e' = CompFor t' i' ifs' a /\ sugar t = Ok t' /\ sugar i = Ok i' /\
                     Forall2 (fun c c' => sugar c = Ok c') ifs ifs'.
Proof.
  intros H. apply sugar_ok_inv in H. destruct H as [cs' [Hcs H]]. simpl in H, Hcs. subst.
  inversion Hcs as [|? t1 ? r1 Ht Hr]; subst. inversion Hr as [|? i1 ? r2 Hi Hifs]; subst.
  simpl. eauto 8.
Qed.

(* ---------- children-level readings of the syntactic predicates ---------- *)

Lemma forallb_Forall {A} (p : A -> bool) l : forallb p l = true <-> Forall (fun x => p x = true) l.
Proof. rewrite forallb_forall, Forall_forall; reflexivity. Qed.

Lemma Forall_app_iff {A} (P : A -> Prop) l1 l2 : Forall P (l1 ++ l2) <-> Forall P l1 /\ Forall P l2.
Proof. apply Forall_app. Qed.

Ltac bool_split :=
  repeat match goal with
         | H : _ && _ = true |- _ => apply andb_true_iff in H; destruct H
         | H : forallb _ _ = true |- _ => apply forallb_Forall in H
         | |- _ && _ = true => apply andb_true_iff; split
         | |- forallb _ _ = true => apply forallb_Forall
         end.

Ltac forall_split :=
  repeat match goal with
         | H : Forall _ (_ :: _) |- _ => inversion H; subst; clear H
         | H : Forall _ (_ ++ _) |- _ => apply Forall_app in H; destruct H
         end.

Lemma in_firstn' {A} (x : A) n l : In x (firstn n l) -> In x l.
Proof. intros H. rewrite <- (firstn_skipn n l). apply in_or_app; left; assumption. Qed.
Lemma in_skipn' {A} (x : A) n l : In x (skipn n l) -> In x l.
Proof. intros H. rewrite <- (firstn_skipn n l). apply in_or_app; right; assumption. Qed.

Lemma single_for_children e :
  is_comp e = false -> single_for e = true ->
  is_compfor e = false /\ Forall (fun c => single_for c = true) (children e).
Proof.
  destruct e; simpl; intros Hc H; try discriminate; split; try reflexivity; bool_split;
    repeat first [apply Forall_nil | apply Forall_cons | apply Forall_app_intro | assumption].
Qed.

Lemma gens_ok_children e :
  gens_ok e = true -> Forall (fun c => gens_ok c = true) (children e).
Proof.
  destruct e; simpl; intros H; bool_split;
    repeat first [apply Forall_nil | apply Forall_cons | apply Forall_app_intro | assumption].
Qed.

Lemma Forall_firstn' {A} (P : A -> Prop) n l : Forall P l -> Forall P (firstn n l).
Proof. rewrite !Forall_forall. intros H x Hx. apply H. eapply in_firstn'; eassumption. Qed.
Lemma Forall_skipn' {A} (P : A -> Prop) n l : Forall P l -> Forall P (skipn n l).
Proof. rewrite !Forall_forall. intros H x Hx. apply H. eapply in_skipn'; eassumption. Qed.

Ltac split_cs :=
  repeat match goal with
         | |- context [match ?c with [] => _ | _ :: _ => _ end] => destruct c; simpl in *; try discriminate; try lia
         end.

Lemma no_comp_rebuild e cs :
  is_comp e = false -> is_compfor e = false -> length cs = length (children e) ->
  Forall (fun c => no_comp c = true) cs -> no_comp (rebuild e cs) = true.
Proof.
  intros Hc Hf HL HF.
  destruct e; simpl in *; try discriminate; try reflexivity; split_cs;
    forall_split; simpl; bool_split; try assumption; try reflexivity;
    try (apply Forall_firstn'; assumption); try (apply Forall_skipn'; assumption).
Qed.

(* ---------- small list facts ---------- *)

Lemma Forall2_Forall_r {A B} (R : A -> B -> Prop) (Q : B -> Prop) l r :
  Forall2 R l r -> Forall (fun x => forall y, R x y -> Q y) l -> Forall Q r.
Proof.
  induction 1 as [|x y l r Hxy _ IH]; intros HF; [constructor|].
  inversion HF; subst. constructor; auto.
Qed.

Lemma Forall2_in_l {A B} (R : A -> B -> Prop) l r x :
  Forall2 R l r -> In x l -> exists y, In y r /\ R x y.
Proof.
  induction 1 as [|a b l r Hab _ IH]; intros Hin; [contradiction|].
  destruct Hin as [->|Hin].
  - exists b; split; [left; reflexivity | assumption].
  - destruct (IH Hin) as [y [Hy Hr]]. exists y; split; [right|]; assumption.
Qed.

Lemma size_grandchild e c g : In g (children e) -> In c (children g) -> size c < size e.
Proof. intros H1 H2. apply size_child in H1. apply size_child in H2. lia. Qed.

(* ---------- convert_call_to_dict only re-arranges the argument expressions ---------- *)

Lemma kw_lookup_in k kws v : kw_lookup k kws = Some v -> In v (map snd kws).
Proof.
  induction kws as [|[[k'|] v'] rest IH]; simpl; intros H; [discriminate| |].
  - destruct (String.eqb k k'); [inversion H; left; reflexivity | right; apply IH; assumption].
  - right; apply IH; assumption.
Qed.

Lemma kw_fill_values fs kws v : In v (map snd (kw_fill fs kws)) -> In v (map snd kws).
Proof.
  unfold kw_fill. induction fs as [|f fs IH]; simpl; intros H; [contradiction|].
  rewrite map_app, in_app_iff in H. destruct H as [H|H]; [|apply IH; assumption].
  destruct (kw_lookup f kws) eqn:Hk; simpl in H; [|contradiction].
  destruct H as [<-|[]]. eapply kw_lookup_in; eassumption.
Qed.

Lemma convert_values fields args kws assoc :
  convert fields args kws = BOk assoc ->
  forall v, In v (map snd assoc) -> In v args \/ In v (map snd kws).
Proof.
  unfold convert. destruct (Nat.ltb _ _); [discriminate|].
  destruct (first_dup _ _ _); [discriminate|]. destruct (first_unknown _ _); [discriminate|].
  intros H v Hv. inversion H; subst; clear H.
  rewrite map_app, in_app_iff in Hv. destruct Hv as [Hv|Hv].
  - left. apply in_map_iff in Hv. destruct Hv as [[f a] [<- Hin]]. apply in_combine_r in Hin. assumption.
  - right. eapply kw_fill_values; eassumption.
Qed.

Lemma lower_call_err a k : lower_call a = Err k -> exists r, k = ValueErr r.
Proof.
  unfold lower_call, lower_call_with. destruct a; try discriminate. destruct a; try discriminate.
  destruct (class_fields c); [|discriminate].
  destruct (existsb is_starred args); [intros H; inversion H; eauto|]. destruct (convert _ _ _); [discriminate|].
  intros H; inversion H; eauto.
Qed.

Lemma lower_call_no_comp a r : no_comp a = true -> lower_call a = Ok r -> no_comp r = true.
Proof.
  intros Ha H. unfold lower_call, lower_call_with in H.
  destruct a; try (inversion H; subst; assumption).
  destruct a; try (inversion H; subst; assumption).
  destruct (class_fields c); [|inversion H; subst; assumption].
  destruct (existsb is_starred args); [discriminate|].
  destruct (convert l args (combine kwn kwv)) eqn:Hc; [|discriminate]. inversion H; subst; clear H.
  simpl in Ha. apply andb_true_iff in Ha. destruct Ha as [Hargs Hkw].
  apply forallb_Forall in Hargs. apply forallb_Forall in Hkw.
  unfold dict_of_assoc. simpl. apply andb_true_iff; split; apply forallb_Forall.
  - apply Forall_forall. intros x Hx. apply in_map_iff in Hx. destruct Hx as [kv [<- _]]. reflexivity.
  - apply Forall_forall. intros v Hv. destruct (convert_values _ _ _ _ Hc v Hv) as [Hin|Hin].
    + rewrite Forall_forall in Hargs. apply Hargs; assumption.
    + rewrite Forall_forall in Hkw. apply Hkw.
      apply in_map_iff in Hin. destruct Hin as [[k' v'] [<- Hin]]. apply in_combine_r in Hin. assumption.
Qed.

(* ---------- completeness: no comprehension is left ---------- *)

Theorem sugar_complete e :
  single_for e = true -> forall e', sugar e = Ok e' -> no_comp e' = true.
Proof.
  remember (size e) as n eqn:Hn. revert e Hn.
  induction n as [n IHn] using (well_founded_induction Wf_nat.lt_wf). intros e -> Hs e' He.
  assert (IH : forall c, size c < size e -> single_for c = true ->
                         forall c', sugar c = Ok c' -> no_comp c' = true).
  { intros c Hc. eapply IHn; [exact Hc | reflexivity]. }
  clear IHn.
  destruct (is_comp e) eqn:Hcomp.
  - (* a comprehension with exactly one clause *)
    assert (Hshape : exists x t i ifs a, (e = ListComp x [CompFor t i ifs a] \/ e = GenExp x [CompFor t i ifs a])
                       /\ single_for x = true /\ single_for t = true /\ single_for i = true
                       /\ Forall (fun c => single_for c = true) ifs).
    { destruct e; try discriminate; simpl in Hs; bool_split;
        (destruct gs as [|g [|g2 gs]]; try discriminate; destruct g; try discriminate; bool_split;
         do 5 eexists; split; [eauto | auto]). }
    destruct Hshape as (x & t & i & ifs & a & Hshape & Hx & Ht & Hi & Hifs).
    assert (Hkids : children e = [x; CompFor t i ifs a]) by (destruct Hshape as [-> | ->]; reflexivity).
    apply sugar_ok_inv in He. destruct He as [cs' [Hcs He]]. rewrite Hcomp in He. rewrite Hkids in Hcs.
    inversion Hcs as [|? x' ? r1 Hx' Hr1]; subst. inversion Hr1 as [|? g' ? r2 Hg' Hr2]; subst.
    inversion Hr2; subst. clear Hcs Hr1 Hr2.
    apply sugar_compfor_fwd in Hg'. destruct Hg' as (t' & i' & ifs' & -> & Ht' & Hi' & Hifs').
    assert (Hlow : resolve_gens x' (rebuild e [x'; CompFor t' i' ifs' a]) [CompFor t' i' ifs' a] = Ok e').
    { destruct Hshape as [-> | ->]; exact He. }
    simpl in Hlow. destruct t'; try discriminate. destruct a; [discriminate|].
    inversion Hlow; subst; clear Hlow He. simpl. rewrite no_comp_where_chain. rewrite !andb_true_r.
    assert (Hsx : size x < size e) by (apply size_child; rewrite Hkids; simpl; auto).
    assert (Hsg : forall c, In c (t :: i :: ifs) -> size c < size e).
    { intros c Hc. eapply size_grandchild; [rewrite Hkids; right; left; reflexivity | exact Hc]. }
    bool_split.
    + apply (IH i); [apply Hsg; simpl; auto | exact Hi | exact Hi'].
    + eapply Forall2_Forall_r; [exact Hifs'|]. apply Forall_forall. intros c Hc c' Hc'.
      rewrite Forall_forall in Hifs. apply (IH c); [apply Hsg; simpl; auto | apply Hifs; exact Hc | exact Hc'].
    + apply (IH x); [exact Hsx | exact Hx | exact Hx'].
  - (* a call or a generically visited node *)
    destruct (single_for_children e Hcomp Hs) as [Hnf Hkids].
    apply sugar_ok_inv in He. destruct He as [cs' [Hcs He]]. rewrite Hcomp in He.
    assert (Hall : Forall (fun c => no_comp c = true) cs').
    { eapply Forall2_Forall_r; [exact Hcs|]. apply Forall_forall. intros c Hc c' Hc'.
      rewrite Forall_forall in Hkids. apply (IH c); [apply size_child; exact Hc | apply Hkids; exact Hc | exact Hc']. }
    assert (Hreb : no_comp (rebuild e cs') = true).
    { apply no_comp_rebuild; try assumption. eapply Forall2_length'; eassumption. }
    destruct (is_call e).
    + eapply lower_call_no_comp; eassumption.
    + subst; assumption.
Qed.

(* ---------- totality: the only crash is a non-comprehension generator ---------- *)

Lemma sugar_keeps_compfor g g' : is_compfor g = true -> sugar g = Ok g' -> is_compfor g' = true.
Proof.
  destruct g; try discriminate. intros _ H. apply sugar_compfor_fwd in H.
  destruct H as (t' & i' & ifs' & -> & _). reflexivity.
Qed.

Theorem sugar_total e : gens_ok e = true -> forall k, sugar e <> Err (Crash k).
Proof.
  induction e as [e IH] using expr_ind_children. intros Hg k He.
  pose proof (gens_ok_children e Hg) as Hkids.
  apply sugar_err_inv in He. destruct He as [[c [Hin Hc]] | [cs' [Hcs [[Hcomp He] | [Hcomp [Hcall He]]]]]].
  - rewrite Forall_forall in IH, Hkids. exact (IH c Hin (Hkids c Hin) k Hc).
  - assert (Hsh : exists x gs, (e = ListComp x gs \/ e = GenExp x gs) /\ forallb is_compfor gs = true).
    { destruct e; try discriminate; simpl in Hg; bool_split; do 2 eexists; (split; [eauto|]);
        apply forallb_Forall; assumption. }
    destruct Hsh as (x & gs & Hsh & Hcf).
    assert (Hk : children e = x :: gs) by (destruct Hsh as [-> | ->]; reflexivity).
    rewrite Hk in Hcs. inversion Hcs as [|? x' ? gs' Hx' Hgs']; subst.
    assert (Hlow : resolve_gens x' (rebuild e (x' :: gs')) (rev gs') = Err (Crash k)).
    { destruct Hsh as [-> | ->]; exact He. }
    revert Hlow. apply resolve_gens_no_crash. apply Forall_rev.
    eapply Forall2_Forall_r; [exact Hgs'|]. apply forallb_Forall in Hcf.
    apply Forall_forall. intros g Hgin g' Hg'. rewrite Forall_forall in Hcf.
    eapply sugar_keeps_compfor; [apply Hcf; exact Hgin | exact Hg'].
  - apply lower_call_err in He. destruct He as [r He]. discriminate He.
Qed.

(* ---------- refusal: a clause with a non-name target or async is never lowered ---------- *)

Lemma has_bad_inv e :
  has_bad_comp e = true ->
  (exists x gs, (e = ListComp x gs \/ e = GenExp x gs) /\ existsb bad_clause gs = true) \/
  (exists c, In c (children e) /\ has_bad_comp c = true).
Proof.
  destruct e; simpl; intros H; try discriminate;
    repeat match goal with
           | H : _ || _ = true |- _ => apply orb_true_iff in H; destruct H as [H|H]
           end;
    try (apply existsb_exists in H; destruct H as [c [Hin Hc]]);
    try (right; eexists; split; [|eassumption]; simpl; rewrite ?in_app_iff; tauto).
  - left. do 2 eexists. split; [left; reflexivity|]. apply existsb_exists. eauto.
  - left. do 2 eexists. split; [right; reflexivity|]. apply existsb_exists. eauto.
Qed.

Lemma sugar_ok_not_bad e : has_bad_comp e = true -> forall e', sugar e <> Ok e'.
Proof.
  induction e as [e IH] using expr_ind_children. intros Hb e' He.
  apply sugar_ok_inv in He. destruct He as [cs' [Hcs He]].
  apply has_bad_inv in Hb. destruct Hb as [(x & gs & Hsh & Hbad) | [c [Hin Hc]]].
  - assert (Hk : children e = x :: gs) by (destruct Hsh as [-> | ->]; reflexivity).
    assert (Hcomp : is_comp e = true) by (destruct Hsh as [-> | ->]; reflexivity).
    rewrite Hcomp in He. rewrite Hk in Hcs. inversion Hcs as [|? x' ? gs' Hx' Hgs']; subst.
    assert (Hlow : resolve_gens x' (rebuild e (x' :: gs')) (rev gs') = Ok e').
    { destruct Hsh as [-> | ->]; exact He. }
    apply resolve_gens_ok_all in Hlow. apply Forall_rev in Hlow. rewrite rev_involutive in Hlow.
    apply existsb_exists in Hbad. destruct Hbad as [g [Hgin Hgbad]].
    destruct (Forall2_in_l _ _ _ _ Hgs' Hgin) as [g' [Hg'in Hg']].
    rewrite Forall_forall in Hlow. specialize (Hlow g' Hg'in).
    destruct g'; try contradiction. destruct g'1; try contradiction. destruct is_async; [contradiction|].
    apply sugar_compfor_inv in Hg'. destruct Hg' as (t0 & i0 & ifs0 & -> & Ht & _).
    apply sugar_name_inv in Ht. subst. simpl in Hgbad. discriminate.
  - destruct (Forall2_in_l _ _ _ _ Hcs Hin) as [c' [_ Hc']].
    rewrite Forall_forall in IH. exact (IH c Hin Hc c' Hc').
Qed.

Theorem sugar_refuses e :
  gens_ok e = true -> has_bad_comp e = true -> exists r, sugar e = Err (ValueErr r).
Proof.
  intros Hg Hb. destruct (sugar e) as [e'|[r|k]] eqn:He.
  - exfalso. eapply sugar_ok_not_bad; eassumption.
  - eauto.
  - exfalso. eapply sugar_total; eassumption.
Qed.

(* ---------- the pass at a constructor call is convert_call_to_dict on the lowered arguments ---------- *)

Lemma sugar_class_call c fields args kwn kwv args' kwv' :
  class_fields c = Some fields ->
  rmap sugar args = Ok args' -> rmap sugar kwv = Ok kwv' ->
  sugar (Call (Const c) args kwn kwv) =
  if existsb is_starred args' then Err (ValueErr DynamicArg) else
  match convert fields args' (combine kwn kwv') with
  | BOk assoc => Ok (dict_of_assoc assoc)
  | BErr r => Err (ValueErr r)
  end.
Proof.
  intros Hc Ha Hk. rewrite sugar_unfold. cbn [is_comp is_call map_children_r].
  change (sugar (Const c)) with (@Ok expr (Const c)). cbn [rbind].
  rewrite Ha. cbn [rbind]. rewrite Hk. cbn [rbind].
  unfold lower_call, lower_call_with. rewrite Hc. reflexivity.
Qed.

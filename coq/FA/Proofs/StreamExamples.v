(* Concrete trees and histories used by the non-vacuity Examples of C11, C12, C16 (definitions only). *)
From Coq Require Import String List.
From FA.Model Require Import Heap Stream.
Import ListNotations.
Open Scope string_scope.

Definition nd (cls : string) (fs : list (string * fkind * list itree)) : itree := G (INew []) cls fs.
Definition name_ (id : string) : itree := nd "Name" [("id", KOne, [lf id]); ("ctx", KOne, [Leaf (ARaw "c:Load")])].
Definition const_ (a : atom) : itree := nd "Constant" [("value", KOne, [Leaf a]); ("kind", KOne, [Leaf (ARaw "None")])].
Definition dict_ (ks vs : list itree) : itree := nd "Dict" [("keys", KList, ks); ("values", KList, vs)].
Definition call_ (f : itree) (args : list itree) : itree :=
  nd "Call" [("func", KOne, [f]); ("args", KList, args); ("keywords", KList, [])].
Definition lambda_ (x : string) (body : itree) : itree :=
  nd "Lambda" [("args", KOne, [nd "arguments" [("posonlyargs", KList, []); ("args", KList, [nd "arg" [("arg", KOne, [lf x])]]);
                                               ("kwonlyargs", KList, []); ("kw_defaults", KList, []); ("defaults", KList, [])]]);
               ("body", KOne, [body])].
Definition attr_ (v : itree) (a : string) : itree := nd "Attribute" [("value", KOne, [v]); ("attr", KOne, [lf a]); ("ctx", KOne, [Leaf (ARaw "c:Load")])].
Definition sref (s : nat) : itree := G (IRef s) "" [].

Definition lam_x : itree := lambda_ "e" (attr_ (name_ "e") "x").                              (* lambda e: e.x *)
Definition lam_md : itree := lambda_ "e" (call_ (name_ "MetaData") [attr_ (name_ "e") "x"; dict_ [] []]).  (* lambda e: MetaData(e.x, {}) *)
Definition md_m : itree := dict_ [const_ (AStr "m")] [const_ (ARaw "i:2")].                   (* {'m': 2} *)
Definition i2 : atom := ARaw "i:2".
Definition i3 : atom := ARaw "i:3".

(* two datasets; an empty and a non-empty MetaData; branching from stream 1; query metadata on the root, on a
   derived stream and twice in a row; a terminal; three value calls completing out of order, one on an override *)
Definition hist1 : list op :=
  [ NewDataset "Evt";                                   (* s0 *)
    MetaData 0 (dict_ [] []);                           (* s1 = MetaData(s0, {}) *)
    Derive 1 DSelect lam_md [dict_ [] []; md_m] "Jet";   (* s2 = Select(MetaData(MetaData(s1,{}),{'m':2}), lambda) *)
    QMetaData 0 [("a", i2)];                            (* s3 *)
    Derive 1 DWhere lam_x [] "bool";                    (* s4, sibling of s2 *)
    QMetaData 2 [("a", i3); ("b", i2)];                 (* s5 *)
    QMetaData 5 [("c", AStr "x")];                      (* s6: consecutive *)
    ValueStart 2 None (Some "title");                   (* call 0 on dataset 0 *)
    NewDataset "typing.Any";                            (* s7, dataset 1 *)
    Derive 7 DSelectMany lam_x [] "typing.Any";          (* s8 *)
    Terminal 6 "AsROOTTTree" [("filename", const_ (AStr "f")); ("treename", const_ (AStr "t")); ("columns", nd "List" [("elts", KList, [])])];   (* s9 *)
    ValueStart 8 None None;                             (* call 1 on dataset 1 *)
    ValueStart 9 (Some 4) None;                         (* call 2 on override 4 *)
    ValueFinish 1 (RRet "one");
    QMetaData 6 [("a", i3); ("c", AStr "y")];           (* s10 *)
    ValueFinish 2 (RRaise "KeyError");
    ValueFinish 0 (RRet "zero");
    Derive 3 DWhere lam_x [] "float"                    (* fails: not a bool *)
  ].

(* a join: stream 3's lambda contains the AST object of stream 2, which carries its own query metadata *)
Definition hist_join : list op :=
  [ NewDataset "typing.Any"; NewDataset "typing.Any";
    QMetaData 1 [("k", i2)];                                      (* s2 on dataset 1 *)
    QMetaData 0 [("k", i3)];                                      (* s3 on dataset 0 *)
    Derive 3 DSelect (lambda_ "e" (sref 2)) [] "typing.Any" ].     (* s4 = s3.Select(lambda e: <s2>) *)

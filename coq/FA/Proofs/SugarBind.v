(* C06, constructor-binding half: convert_call_to_dict (with fixes/F17.diff) against the
   independent specification [bind_spec] of Python's positional-then-keyword binding. *)
From FA.Base Require Import PyAst Induct Value.
From FA.Model Require Import Sugar SugarSpec.
From Coq Require Import Lia.

(* ---------- membership tests ---------- *)

Lemma mem_str_in x l : mem_str x l = true <-> In x l.
Proof.
  unfold mem_str. rewrite existsb_exists. split.
  - intros [y [Hin Heq]]. apply String.eqb_eq in Heq. subst; assumption.
  - intros H. exists x; split; [assumption | apply String.eqb_refl].
Qed.

Lemma mem_str_notin x l : mem_str x l = false <-> ~ In x l.
Proof.
  rewrite <- mem_str_in. destruct (mem_str x l); split; intros H.
  - discriminate H.
  - exfalso; apply H; reflexivity.
  - intros H'; discriminate H'.
  - reflexivity.
Qed.

Lemma mem_okey_some k seen : mem_okey (Some k) (map Some seen) = mem_str k seen.
Proof. unfold mem_okey, mem_str. induction seen; simpl; [reflexivity|]. rewrite IHseen. reflexivity. Qed.

(* ---------- keyword lists without [**kw] entries ---------- *)

Fixpoint plain_kws (kws : list (option string * expr)) : option (list (string * expr)) :=
  match kws with
  | [] => Some []
  | (Some k, v) :: r => option_map (cons (k, v)) (plain_kws r)
  | (None, _) :: _ => None
  end.

Definition lift (kvs : list (string * expr)) : list (option string * expr) :=
  map (fun kv => (Some (fst kv), snd kv)) kvs.

Lemma plain_kws_some kws kvs : plain_kws kws = Some kvs -> kws = lift kvs.
Proof.
  revert kvs; induction kws as [|[[k|] v] r IH]; simpl; intros kvs H.
  - inversion H; reflexivity.
  - destruct (plain_kws r) eqn:Hr; [|discriminate]. inversion H; subst. simpl. f_equal. apply IH; reflexivity.
  - discriminate.
Qed.

Lemma plain_lift kvs : plain_kws (lift kvs) = Some kvs.
Proof. induction kvs as [|[k v] r IH]; simpl; [reflexivity|]. rewrite IH. reflexivity. Qed.

Lemma lift_length kvs : length (lift kvs) = length kvs.
Proof. apply map_length. Qed.

(* every key names a field, none twice, none that is already bound *)
Definition keys_ok (fields bound : list string) (kvs : list (string * expr)) : Prop :=
  NoDup (map fst kvs) /\ forall k, In k (map fst kvs) -> In k fields /\ ~ In k bound.

(* ---------- the specification side ---------- *)

Lemma bind_kws_char fields : forall kws bound,
  match bind_kws fields bound kws with
  | BOk r => exists kvs, plain_kws kws = Some kvs /\ r = bound ++ kvs /\ keys_ok fields (map fst bound) kvs
  | BErr _ => forall kvs, plain_kws kws = Some kvs -> ~ keys_ok fields (map fst bound) kvs
  end.
Proof.
  induction kws as [|[[k|] v] rest IH]; intros bound; simpl.
  - exists []. split; [reflexivity|]. split; [symmetry; apply app_nil_r|].
    split; [constructor | intros k []].
  - destruct (mem_str k fields) eqn:Hkf; simpl.
    2:{ intros kvs Hp [_ Hall]. destruct (plain_kws rest); [|discriminate]. inversion Hp; subst.
        apply mem_str_notin in Hkf. apply Hkf. apply (Hall k). left; reflexivity. }
    destruct (mem_str k (map fst bound)) eqn:Hkb.
    { intros kvs Hp [_ Hall]. destruct (plain_kws rest); [|discriminate]. inversion Hp; subst.
      apply mem_str_in in Hkb. apply (Hall k); [left; reflexivity | assumption]. }
    apply mem_str_in in Hkf. apply mem_str_notin in Hkb.
    specialize (IH (bound ++ [(k, v)])). rewrite map_app in IH. simpl in IH.
    destruct (bind_kws fields (bound ++ [(k, v)]) rest) as [r|r].
    + destruct IH as (kvs' & Hp & -> & Hnd & Hall).
      exists ((k, v) :: kvs'). rewrite Hp. split; [reflexivity|]. split; [rewrite <- app_assoc; reflexivity|].
      split.
      * simpl. constructor; [|assumption]. intros Hin. destruct (Hall k Hin) as [_ Hn].
        apply Hn. apply in_or_app; right; left; reflexivity.
      * intros k' [<-|Hin]; [split; assumption|]. destruct (Hall k' Hin) as [Hf Hn]. split; [assumption|].
        intros Hb. apply Hn. apply in_or_app; left; assumption.
    + intros kvs Hp [Hnd Hall]. destruct (plain_kws rest) as [kvs'|] eqn:Hr; [|discriminate].
      inversion Hp; subst; clear Hp. simpl in Hnd. inversion Hnd; subst.
      apply (IH kvs' eq_refl). split; [assumption|].
      intros k' Hin. destruct (Hall k' (or_intror Hin)) as [Hf Hn]. split; [assumption|].
      intros Hb. apply in_app_or in Hb. destruct Hb as [Hb | [<- | []]]; [apply Hn; assumption|].
      contradiction.
  - intros kvs Hp; discriminate.
Qed.

Lemma bind_pos_some fields : forall args,
  length args <= length fields ->
  bind_pos fields args = Some (combine (firstn (length args) fields) args).
Proof.
  induction fields as [|f fs IH]; intros [|a args] HL; simpl in *; try reflexivity; try lia.
  rewrite IH by lia. reflexivity.
Qed.

Lemma bind_pos_none fields : forall args, length fields < length args -> bind_pos fields args = None.
Proof.
  induction fields as [|f fs IH]; intros [|a args] HL; simpl in *; try reflexivity; try lia.
  rewrite IH by lia. reflexivity.
Qed.

Lemma map_fst_combine' {A B} (l1 : list A) : forall (l2 : list B),
  length l1 = length l2 -> map fst (combine l1 l2) = l1.
Proof. induction l1 as [|x xs IH]; intros [|y ys] H; simpl in *; try reflexivity; try lia. f_equal; apply IH; lia. Qed.

(* ---------- the code side ---------- *)

Lemma first_dup_char pos : forall kvs seen,
  first_dup pos (map Some seen) (lift kvs) = None <->
  NoDup (map fst kvs) /\ forall k, In k (map fst kvs) -> ~ In k seen /\ ~ In k pos.
Proof.
  induction kvs as [|[k v] rest IH]; intros seen; simpl.
  - split; [intros _; split; [constructor | intros k []] | reflexivity].
  - rewrite mem_okey_some. unfold okey_in_fields.
    destruct (mem_str k seen) eqn:Hs; simpl.
    { split; [discriminate|]. intros [_ Hall]. apply mem_str_in in Hs.
      destruct (Hall k (or_introl eq_refl)) as [Hn _]. contradiction. }
    destruct (mem_str k pos) eqn:Hp; simpl.
    { split; [discriminate|]. intros [_ Hall]. apply mem_str_in in Hp.
      destruct (Hall k (or_introl eq_refl)) as [_ Hn]. contradiction. }
    apply mem_str_notin in Hs. apply mem_str_notin in Hp.
    replace (map Some seen ++ [Some k]) with (map Some (seen ++ [k])) by (rewrite map_app; reflexivity).
    rewrite IH. split.
    + intros [Hnd Hall]. split.
      * constructor; [|assumption]. intros Hin. destruct (Hall k Hin) as [Hn _].
        apply Hn. apply in_or_app; right; left; reflexivity.
      * intros k' [<-|Hin]; [split; assumption|]. destruct (Hall k' Hin) as [Hn1 Hn2].
        split; [|assumption]. intros Hb; apply Hn1; apply in_or_app; left; assumption.
    + intros [Hnd Hall]. inversion Hnd; subst. split; [assumption|].
      intros k' Hin. destruct (Hall k' (or_intror Hin)) as [Hn1 Hn2]. split; [|assumption].
      intros Hb. apply in_app_or in Hb. destruct Hb as [Hb | [<- | []]]; contradiction.
Qed.

Lemma first_unknown_char fields : forall kvs,
  first_unknown fields (lift kvs) = None <-> forall k, In k (map fst kvs) -> In k fields.
Proof.
  induction kvs as [|[k v] rest IH]; simpl.
  - split; [intros _ k [] | reflexivity].
  - destruct (mem_str k fields) eqn:Hk.
    + apply mem_str_in in Hk. rewrite IH. split.
      * intros H k' [<-|Hin]; auto.
      * intros H k' Hin. apply H; right; assumption.
    + apply mem_str_notin in Hk. split; [discriminate|]. intros H. exfalso. apply Hk. apply H; left; reflexivity.
Qed.

Lemma first_unknown_not_plain fields kws :
  plain_kws kws = None -> first_unknown fields kws <> None.
Proof.
  induction kws as [|[[k|] v] rest IH]; simpl; intros H; [discriminate| |].
  - destruct (mem_str k fields); [|discriminate]. apply IH. destruct (plain_kws rest); [discriminate | reflexivity].
  - discriminate.
Qed.

(* ---------- the bindings, listed in field order ---------- *)

Lemma assoc_str_app_notin k a b : ~ In k (map fst a) -> assoc_str k (a ++ b) = assoc_str k b.
Proof.
  induction a as [|[k' v] a IH]; simpl; intros H; [reflexivity|].
  destruct (String.eqb k k') eqn:He.
  - apply String.eqb_eq in He. subst. exfalso; apply H; left; reflexivity.
  - apply IH. intros Hin; apply H; right; assumption.
Qed.

Lemma assoc_kw_lookup k kvs : assoc_str k kvs = kw_lookup k (lift kvs).
Proof. induction kvs as [|[k' v] r IH]; simpl; [reflexivity|]. rewrite IH. reflexivity. Qed.

Lemma flat_map_ext_in {A B} (f g : A -> list B) l :
  (forall x, In x l -> f x = g x) -> flat_map f l = flat_map g l.
Proof.
  induction l as [|x xs IH]; simpl; intros H; [reflexivity|].
  rewrite (H x (or_introl eq_refl)). rewrite IH; [reflexivity|]. intros y Hy; apply H; right; assumption.
Qed.

Lemma in_field_order_app f1 f2 b :
  in_field_order (f1 ++ f2) b = in_field_order f1 b ++ in_field_order f2 b.
Proof. unfold in_field_order. apply flat_map_app. Qed.

Lemma in_field_order_pos : forall f1 args b,
  NoDup f1 -> length f1 = length args ->
  in_field_order f1 (combine f1 args ++ b) = combine f1 args.
Proof.
  induction f1 as [|f fs IH]; intros [|a args] b Hnd HL; simpl in *; try reflexivity; try lia.
  rewrite String.eqb_refl. simpl. f_equal.
  inversion Hnd; subst.
  rewrite <- (IH args b) at 2 by (assumption || lia).
  apply flat_map_ext_in. intros x Hx. simpl.
  destruct (String.eqb x f) eqn:He; [|reflexivity].
  apply String.eqb_eq in He. subst. contradiction.
Qed.

Lemma in_field_order_rest f2 pos kvs :
  (forall f, In f f2 -> ~ In f (map fst pos)) ->
  in_field_order f2 (pos ++ kvs) = kw_fill f2 (lift kvs).
Proof.
  intros H. unfold in_field_order, kw_fill. apply flat_map_ext_in. intros f Hf.
  rewrite assoc_str_app_notin by (apply H; assumption). rewrite assoc_kw_lookup. reflexivity.
Qed.

Lemma NoDup_app_l {A} (l1 l2 : list A) : NoDup (l1 ++ l2) -> NoDup l1.
Proof.
  induction l1 as [|x xs IH]; simpl; intros H; [constructor|].
  inversion H; subst. constructor; [|apply IH; assumption].
  intros Hin; apply H2; apply in_or_app; left; assumption.
Qed.

(* pigeonhole: distinct keys that name fields not bound positionally fit in the remaining fields *)
Lemma keys_fit fields n kvs :
  NoDup fields -> keys_ok fields (firstn n fields) kvs -> n <= length fields ->
  n + length kvs <= length fields.
Proof.
  intros Hnd [Hk Hall] Hn.
  assert (Hincl : incl (map fst kvs) (skipn n fields)).
  { intros k Hin. destruct (Hall k Hin) as [Hf Hnb].
    rewrite <- (firstn_skipn n fields) in Hf. apply in_app_or in Hf. destruct Hf; [contradiction | assumption]. }
  pose proof (NoDup_incl_length Hk Hincl) as HL. rewrite map_length, skipn_length in HL. lia.
Qed.

(* ---------- the theorem ---------- *)

Theorem dataclass_binds fields args kws :
  NoDup fields -> same_outcome (convert fields args kws) (bind_spec fields args kws).
Proof.
  intros Hnd. unfold convert, bind_spec.
  set (n := length args).
  destruct (Nat.ltb (length fields) (n + length kws)) eqn:Hcount.
  - (* the code refuses on the count; the specification refuses too *)
    apply Nat.ltb_lt in Hcount.
    destruct (le_lt_dec n (length fields)) as [Hn|Hn].
    2:{ rewrite bind_pos_none by assumption. exact I. }
    rewrite bind_pos_some by assumption. fold n.
    pose proof (bind_kws_char fields kws (combine (firstn n fields) args)) as Hc.
    destruct (bind_kws fields (combine (firstn n fields) args) kws) as [r|r]; [|exact I].
    destruct Hc as (kvs & Hp & _ & Hok).
    rewrite map_fst_combine' in Hok by (rewrite firstn_length; unfold n in *; lia).
    pose proof (keys_fit _ _ _ Hnd Hok Hn) as Hfit.
    apply plain_kws_some in Hp. subst kws. rewrite lift_length in Hcount. lia.
  - apply Nat.ltb_ge in Hcount.
    assert (Hn : n <= length fields) by lia.
    rewrite bind_pos_some by assumption. fold n.
    assert (Hfst : map fst (combine (firstn n fields) args) = firstn n fields).
    { apply map_fst_combine'. rewrite firstn_length. unfold n in *; lia. }
    pose proof (bind_kws_char fields kws (combine (firstn n fields) args)) as Hc. rewrite Hfst in Hc.
    destruct (plain_kws kws) as [kvs|] eqn:Hp.
    + pose proof (plain_kws_some _ _ Hp) as ->.
      pose proof (first_dup_char (firstn n fields) kvs []) as Hd. simpl in Hd.
      pose proof (first_unknown_char fields kvs) as Hu.
      destruct (first_dup (firstn n fields) [] (lift kvs)) as [kd|].
      { (* duplicate: the specification must refuse *)
        destruct (bind_kws fields (combine (firstn n fields) args) (lift kvs)) as [r|r]; [|exact I].
        destruct Hc as (kvs' & Hp' & _ & Hk1 & Hk2). inversion Hp'; subst kvs'.
        assert (Hx : @None (option string) = None) by reflexivity. exfalso.
        assert (Hnone : Some kd = None); [|discriminate Hnone].
        apply Hd. split; [assumption|]. intros k Hk. split; [intros [] | apply Hk2; assumption]. }
      destruct (first_unknown fields (lift kvs)) as [ku|].
      { destruct (bind_kws fields (combine (firstn n fields) args) (lift kvs)) as [r|r]; [|exact I].
        destruct Hc as (kvs' & Hp' & _ & Hk1 & Hk2). inversion Hp'; subst kvs'.
        exfalso. assert (Hnone : Some ku = None); [|discriminate Hnone].
        apply Hu. intros k Hk. apply Hk2; assumption. }
      (* the code binds: so does the specification, to the same list *)
      destruct Hd as [Hd _]. destruct (Hd eq_refl) as [Hk1 Hk2].
      destruct Hu as [Hu _]. specialize (Hu eq_refl).
      assert (Hok : keys_ok fields (firstn n fields) kvs).
      { split; [assumption|]. intros k Hk. split; [apply Hu; assumption | apply Hk2; assumption]. }
      destruct (bind_kws fields (combine (firstn n fields) args) (lift kvs)) as [r|r].
      2:{ exfalso. exact (Hc kvs eq_refl Hok). }
      destruct Hc as (kvs' & Hp' & -> & _). inversion Hp'; subst kvs'.
      simpl.
      transitivity (in_field_order (firstn n fields ++ skipn n fields) (combine (firstn n fields) args ++ kvs)).
      2:{ rewrite firstn_skipn. reflexivity. }
      rewrite in_field_order_app. f_equal; symmetry.
      * apply in_field_order_pos.
        -- rewrite <- (firstn_skipn n fields) in Hnd. apply NoDup_app_l in Hnd. assumption.
        -- rewrite firstn_length. unfold n in *; lia.
      * apply in_field_order_rest. rewrite Hfst. intros f Hf Hf1.
        rewrite <- (firstn_skipn n fields) in Hnd.
        revert Hf1 Hf. clear -Hnd. generalize (firstn n fields) (skipn n fields) Hnd.
        induction l as [|y l IH]; intros l0 Hnd' Hf1 Hf; [contradiction|].
        simpl in Hnd'. inversion Hnd'; subst. destruct Hf1 as [->|Hf1].
        -- apply H1. apply in_or_app; right; assumption.
        -- eapply IH; eassumption.
    + (* a [**kw] entry: both refuse *)
      pose proof (first_unknown_not_plain fields kws Hp) as Hunk.
      destruct (first_dup (firstn n fields) [] kws); [|destruct (first_unknown fields kws); [|contradiction]];
        (destruct (bind_kws fields (combine (firstn n fields) args) kws) as [r|r]; [|exact I];
         destruct Hc as (kvs' & Hp' & _); discriminate Hp').
Qed.

Corollary dataclass_binds_ok fields args kws assoc :
  NoDup fields -> (convert fields args kws = BOk assoc <-> bind_spec fields args kws = BOk assoc).
Proof.
  intros Hnd. pose proof (dataclass_binds fields args kws Hnd) as H.
  destruct (convert fields args kws), (bind_spec fields args kws); simpl in H; try contradiction;
    split; intros E; try discriminate E; inversion E; subst; reflexivity.
Qed.

Corollary dataclass_refuses fields args kws :
  NoDup fields ->
  ((exists r, convert fields args kws = BErr r) <-> (exists r, bind_spec fields args kws = BErr r)).
Proof.
  intros Hnd. pose proof (dataclass_binds fields args kws Hnd) as H.
  destruct (convert fields args kws), (bind_spec fields args kws); simpl in H; try contradiction;
    split; intros [r' E]; try discriminate E; eauto.
Qed.

(* the pinned commit (no duplicate check) violates the binding clause: F17 *)
Lemma dataclass_binds_pinned_refuted :
  exists fields args kws,
    NoDup fields /\ ~ same_outcome (convert_pinned fields args kws) (bind_spec fields args kws).
Proof.
  exists ["x"; "y"], [Attr (Name "e") "a"], [(Some "x", Attr (Name "e") "b")]. split.
  - constructor; [intros [H|[]]; discriminate H|]. constructor; [intros []|constructor].
  - vm_compute. intros H; exact H.
Qed.

(* C08, whole expressions: [wt W G e t] - "the annotations imply that [e] has type [t]" - is a declarative typing
   relation over the supported subset of the property, written separately from the follower:

     names and constants; comparisons and and/or are bool; arithmetic follows int/float promotion; conditionals;
     a method call gives the return annotation with the class type variables substituted through the base chain
     ([get_method_and_class] / [resolve_type_vars], the model of util_types.py);
     on an iterable: First / Count / any other method of a registered collection class, through its annotation;
     Select / SelectMany / Where of a registered collection class with a lambda: Iterable of the lambda's result
     type / of its element type / of the element type provided the filter is bool;
     subscripting gives the element type, a constant index into a tuple literal the type of that element;
     a field of a dictionary literal, of a dictionary-typed or dataclass-typed value gives the field's type;
     a registered function ([len], [abs], func_adl_callable) gives its return annotation.

   [follow_types_agree]: every such expression is accepted by the follower with exactly that type.
   [wt_deterministic]: the relation assigns at most one type. *)
From FA.Base Require Import PyAst Value Induct Traverse.
From FA.Gen Require Import TablesUtil TablesTypes.
From FA.Model Require Import TypeDefs TypeFollow.
From FA.Proofs Require Import TraverseFacts EvalCong TypeFollowFacts TypeFollowFill TypeFollowNormalised TypeFollowResolve
     TypeFollowUntyped TypeFollowCallbacks TypeFollowSites.
From Coq Require Import Lia.

Definition numeric (t : ty) : Prop := t = TInt \/ t = TFloat.
Definition promote (o : bop) (tl tr : ty) : ty :=
  match tl, tr with
  | TInt, TInt => match o with BDiv => TFloat | _ => TInt end
  | _, _ => TFloat
  end.

(* the call supplies every required parameter: the walk of the signature succeeds (only the number of positional
   arguments and the keyword names matter) *)
Definition binds (ps : list param) (nargs : nat) (kwn : list (option string)) : Prop :=
  exists r, fill (fun _ : const => tt) ps (repeat tt nargs) (map (fun k => (k, tt)) kwn) = inl r.

(* the value of key [a] in a dictionary literal: its last occurrence *)
Fixpoint assoc2_last {A} (x : string) (ks : list string) (vs : list A) : option A :=
  match ks, vs with
  | k :: ks', v :: vs' =>
      match assoc2_last x ks' vs' with
      | Some r => Some r
      | None => if String.eqb k x then Some v else None
      end
  | _, _ => None
  end.

Definition ret_of (m : method) : ty := match m_ret m with Some t => t | None => TAny end.

Definition op_result (ct : classtab) (op : opkind) (elem tb : ty) : option ty :=
  match op with
  | OpSelect => Some tb
  | OpSelectMany => Some (unwrap_iterable ct tb)
  | OpWhere => match tb with TBool => Some elem | _ => None end
  | _ => None
  end.

Section Typing.
  Variable W : world.
  Let ct := w_ct W.

  (* the first registered collection class that has a method [a], for elements of type [elem] *)
  Fixpoint first_coll_in (cs : list string) (elem : ty) (a : string) : option (string * string * method) :=
    match cs with
    | [] => None
    | c :: r =>
        match get_method_and_class ct (TCls c [elem]) a with
        | Some (mcls, MMethod m) => Some (c, mcls, m)
        | Some (_, MProp _) => None
        | None => first_coll_in r elem a
        end
    end.
  Definition first_coll (elem : ty) (a : string) := first_coll_in (collection_names ct) elem a.

  Definition is_dict (e : expr) : bool := match e with Dict _ _ => true | _ => false end.
  Definition is_tuple (e : expr) : bool := match e with Tuple _ => true | _ => false end.

  (* a receiver of a method call whose attribute access the follower does not read as a field lookup *)
  Definition plain_receiver (v : expr) (tv : ty) : Prop := is_dict v = false /\ record_fields ct tv = None.

  Inductive wt : tenv -> expr -> ty -> Prop :=
   | wt_name G x t : assoc x G = Some t -> wt G (Name x) t
   | wt_const G c : wt G (Const c) (const_type c)
   | wt_compare G l ops rs tl ts : wt G l tl -> wts G rs ts -> wt G (Compare l ops rs) TBool
   | wt_boolop G o es ts : wts G es ts -> wt G (BoolOp o es) TBool
   | wt_binop G o l r tl tr :
       wt G l tl -> wt G r tr -> numeric tl -> numeric tr -> wt G (BinOp o l r) (promote o tl tr)
   | wt_unary G o x t : wt G x t -> wt G (UnaryOp o x) (unary_type o t)          (* `not x` is bool, -x +x ~x keep x's type *)
   | wt_ifexp G c x y tc t : wt G c tc -> wt G x t -> wt G y t -> ty_eqb t t = true -> wt G (IfExp c x y) t
   | wt_ifexp_num G c x y tc tx ty' :
       wt G c tc -> wt G x tx -> wt G y ty' -> numeric tx -> numeric ty' -> tx <> ty' -> wt G (IfExp c x y) TFloat
   | wt_subscript G v s tv ts :
       wt G v tv -> wt G s ts -> is_tuple v = false -> record_fields ct tv = None ->
       wt G (Subscript v s) (unwrap_iterable ct tv)
   | wt_tuple_index G es ts i t :
       wts G es ts -> nth_error ts i = Some t -> wt G (Subscript (Tuple es) (Const (CInt (Z.of_nat i)))) t
   | wt_dict_field G ns vs ts a t :
       wts G vs ts -> length ns = length vs -> assoc2_last a ns ts = Some t ->    (* a key given twice: the last one counts *)
       wt G (Attr (Dict (map (fun n => Const (CStr n)) ns) vs) a) t
   | wt_record_field G v tv a ns ts t :
       wt G v tv -> is_dict v = false -> record_fields ct tv = Some (ns, ts) -> assoc2 a ns ts = Some t ->
       wt G (Attr v a) t
   | wt_function G x fn args kwn kwv ts tk :
       find_func (w_ft W) x = Some fn -> wts G args ts -> wts G kwv tk ->
       binds (f_params fn) (length args) kwn -> length kwn = length kwv ->
       wt G (Call (Name x) args kwn kwv) (match f_ret fn with Some t => t | None => TAny end)
   | wt_method G v a args kwn kwv tv ts tk mcls m t :
       wt G v tv -> plain_receiver v tv -> wts G args ts -> wts G kwv tk ->
       get_method_and_class ct tv a = Some (mcls, MMethod m) ->
       resolve_type_vars ct (ret_of m) tv mcls = Some t ->
       binds (m_params m) (length args) kwn -> length kwn = length kwv ->
       wt G (Call (Attr v a) args kwn kwv) t
   | wt_collection_method G v a args kwn kwv tv ts tk c mcls m t :
       wt G v tv -> plain_receiver v tv -> wts G args ts -> wts G kwv tk ->
       is_iterable ct tv = true -> get_method_and_class ct tv a = None ->
       first_coll (unwrap_iterable ct tv) a = Some (c, mcls, m) ->
       resolve_type_vars ct (ret_of m) (TCls c [unwrap_iterable ct tv]) mcls = Some t ->
       binds (m_params m) (length args) kwn -> length kwn = length kwv ->
       wt G (Call (Attr v a) args kwn kwv) t
   | wt_operator G v a p b tv tb c mcls m t :
       wt G v tv -> plain_receiver v tv ->
       is_iterable ct tv = true -> get_method_and_class ct tv a = None ->
       first_coll (unwrap_iterable ct tv) a = Some (c, mcls, m) -> is_collection ct c = true ->
       own_operator (m_op m) ->
       fill Const (m_params m) [Lambda [p] b] [] = inl ([Lambda [p] b], []) ->
       wt ((p, unwrap_iterable ct tv) :: G) b tb ->
       check_ast (Lambda [p] (out_of W ((p, unwrap_iterable ct tv) :: G) b)) = true ->     (* transportable constants: C10/C13's concern *)
       op_result ct (m_op m) (unwrap_iterable ct tv) tb = Some t ->
       wt G (Call (Attr v a) [Lambda [p] b] [] []) (TIter t)
  with wts : tenv -> list expr -> list ty -> Prop :=
   | wts_nil G : wts G [] []
   | wts_cons G e es t ts : wt G e t -> wts G es ts -> wts G (e :: es) (t :: ts).

  Scheme wt_mut := Induction for wt Sort Prop
  with wts_mut := Induction for wts Sort Prop.
  Combined Scheme wt_wts_ind from wt_mut, wts_mut.
End Typing.

(* ---------- the follower keeps the class of every node ---------- *)

Definition head (e : expr) : nat :=
  match e with
  | Name _ => 0 | Const _ => 1 | Attr _ _ => 2 | Call _ _ _ _ => 3 | Lambda _ _ => 4 | UnaryOp _ _ => 5
  | BinOp _ _ _ => 6 | BoolOp _ _ => 7 | Compare _ _ _ => 8 | IfExp _ _ _ => 9 | Tuple _ => 10 | List _ => 11
  | Dict _ _ => 12 | Subscript _ _ => 13 | ListComp _ _ => 14 | GenExp _ _ => 15 | CompFor _ _ _ _ => 16
  | Raw _ => 17 | Other _ _ _ => 18
  end.

Section Head.
  Variable W : world.

  Ltac crush1 H :=
    let y := fresh "y" in let Hy := fresh "Hy" in
    apply bind_ok in H; destruct H as (y & Hy & H);
    try (first [destruct y as [[[? ?] ?] ?] | destruct y as [[? ?] ?]]); cbv beta iota in H.
  Ltac crush H := repeat crush1 H.

  Lemma fx_head G e e' t aux ev : follow_x W G e = Ok (e', t, aux, ev) -> head e' = head e.
  Proof.
    intros H. destruct e.
    - rewrite fx_Name in H. inversion H; reflexivity.
    - rewrite fx_Const in H. inversion H; reflexivity.
    - rewrite fx_Attr in H. crush H. inversion H; reflexivity.
    - assert (Hc : is_call e' = true).
      { destruct (callee_cases e) as [(v & a & ->)|[(v & a & s & ->)|[(ps0 & b0 & ->)|Hplain]]].
        + rewrite fx_Call_method in H. crush H. inversion H; subst.
          match goal with Hp : process_method_call _ _ _ _ _ _ _ = _ |- _ => eapply pmc_is_call; exact Hp end.
        + rewrite fx_Call_param in H. crush H.
          destruct (is_any _ && param_call_guarded); [inversion H; reflexivity|].
          crush H. inversion H; subst.
          match goal with Hp : process_parameterized _ _ _ _ _ _ _ _ = _ |- _ => unfold process_parameterized in Hp;
            destruct (get_method_and_class _ _ _) as [[? [?|[?|]]]|]; try discriminate;
            destruct (literal_eval _); try discriminate; inversion Hp as [[Hn Ht He]] end.
          destruct (cb_rw _); reflexivity.
        + rewrite fx_Call_lambda in H. crush H. destruct (called_ok ps0 args kwn kwv); [crush H|]; inversion H; reflexivity.
        + rewrite fx_Call_plain in H by exact Hplain. crush H.
          match type of H with context [match ?f with _ => _ end] => destruct f end; try (inversion H; reflexivity).
          destruct (find_func (w_ft W) id) as [fn|]; [|inversion H; reflexivity].
          crush H. inversion H; subst.
          match goal with Hp : process_function_call _ _ _ _ _ = _ |- _ => unfold process_function_call in Hp;
            destruct (fill Const _ _ _) as [[? ?]|]; try discriminate;
            destruct (f_proc fn) as [id'|]; cbn in Hp; inversion Hp as [[Hn Ht He]] end.
          * destruct (cb_rw _); reflexivity.
          * reflexivity. }
      destruct e'; try discriminate. reflexivity.
    - rewrite fx_Lambda in H. inversion H; reflexivity.
    - rewrite fx_UnaryOp in H. crush H. destruct (unary_uses_lookup || _); inversion H; reflexivity.
    - rewrite fx_BinOp in H. crush H. inversion H; reflexivity.
    - rewrite fx_BoolOp in H. crush H. inversion H; reflexivity.
    - rewrite fx_Compare in H. crush H. inversion H; reflexivity.
    - rewrite fx_IfExp in H. crush H. inversion H; reflexivity.
    - rewrite fx_Tuple in H. crush H. inversion H; reflexivity.
    - rewrite fx_List in H. crush H. inversion H; reflexivity.
    - rewrite fx_Dict in H. crush H. inversion H; reflexivity.
    - rewrite fx_Subscript in H. crush H. inversion H; reflexivity.
    - rewrite fx_ListComp in H. crush H. inversion H; reflexivity.
    - rewrite fx_GenExp in H. crush H. inversion H; reflexivity.
    - rewrite fx_CompFor in H. crush H. inversion H; reflexivity.
    - rewrite fx_Raw in H. inversion H; reflexivity.
    - rewrite fx_Other in H. crush H. inversion H; reflexivity.
  Qed.

  Lemma fx_dict G e e' t aux ev : follow_x W G e = Ok (e', t, aux, ev) -> is_dict e' = is_dict e.
  Proof. intros H. apply fx_head in H. destruct e, e'; try discriminate; reflexivity. Qed.
  Lemma fx_tuple G e e' t aux ev : follow_x W G e = Ok (e', t, aux, ev) -> is_tuple e' = is_tuple e.
  Proof. intros H. apply fx_head in H. destruct e, e'; try discriminate; reflexivity. Qed.
End Head.

(* ---------- auxiliary facts ---------- *)

Lemma map_unit_repeat {A} (l : list A) : map (fun _ => tt) l = repeat tt (length l).
Proof. induction l; cbn; congruence. Qed.

Lemma zip_unit {A} (kwn : list (option string)) (l : list A) :
  length l = length kwn ->
  map (hk (fun _ : A => tt)) (combine kwn l) = map (fun k => (k, tt)) kwn.
Proof.
  revert l. induction kwn as [|k ks IH]; intros [|x xs] H; cbn in *; try discriminate; [reflexivity|].
  unfold hk at 1. cbn. f_equal. apply IH. lia.
Qed.

(* the walk succeeds on the real arguments as soon as it does on their shape *)
Lemma binds_fill {A} (mk : const -> A) ps (args : list A) kwn (kwv : list A) n :
  binds ps n kwn -> length args = n -> length kwv = length kwn ->
  exists a2 k2, fill mk ps args (combine kwn kwv) = inl (a2, k2).
Proof.
  intros [r Hr] Ha Hk. unfold fill in *.
  pose proof (fill_go_map (fun _ : A => tt) mk (fun _ => tt) (fun c => eq_refl) ps 0 args (combine kwn kwv)) as Hm.
  rewrite map_unit_repeat, Ha, zip_unit in Hm by exact Hk. rewrite Hr in Hm.
  destruct (fill_go mk ps 0 args (combine kwn kwv)) as [[a2 k2]|p]; [eauto | discriminate].
Qed.

Lemma binop_promote o tl tr : numeric tl -> numeric tr -> binop_type o tl tr = promote o tl tr.
Proof. intros [->| ->] [->| ->]; destruct o; reflexivity. Qed.

Lemma wt_not_lambda W G e t : wt W G e t -> is_lambda e = false.
Proof. destruct 1; reflexivity. Qed.

Lemma wts_not_lambda W G es ts : wts W G es ts -> Forall (fun x => is_lambda x = false) es.
Proof. induction 1; constructor; eauto using wt_not_lambda. Qed.

Section Sound.
  Variable W : world.
  Let ct := w_ct W.

  Lemma fl_lengths G es es' ts ev :
    follow_list_with (follow_x W G) es = Ok (es', ts, ev) -> length es' = length es /\ length ts = length es.
  Proof.
    revert es' ts ev. induction es as [|x xs IH]; intros es' ts ev H.
    - cbn in H. inversion H; auto.
    - rewrite fl_cons in H. apply bind_ok in H. destruct H as ([[[x' t] aux] ev1] & H1 & H).
      apply bind_ok in H. destruct H as ([[xs' ts'] evs] & H2 & H). inversion H; subst.
      destruct (IH _ _ _ H2). cbn. auto.
  Qed.

  Lemma nl_length G es es' : length es' = length es -> length (nested_args_with (follow_x W) G es es') = length es.
  Proof. revert es'. induction es as [|x xs IH]; intros [|y ys] H; cbn in *; try discriminate; auto. Qed.

  Lemma nl_not_lambda G es es' ts ev :
    Forall (fun x => is_lambda x = false) es -> follow_list_with (follow_x W G) es = Ok (es', ts, ev) ->
    Forall (fun a => is_lam_arg a = false) (nested_args_with (follow_x W) G es es').
  Proof.
    revert es' ts ev. induction es as [|x xs IH]; intros es' ts ev Hl H.
    - cbn in H. inversion H; subst. constructor.
    - rewrite fl_cons in H. apply bind_ok in H. destruct H as ([[[x' t] aux] ev1] & H1 & H).
      apply bind_ok in H. destruct H as ([[xs' ts'] evs] & H2 & H). inversion H; subst.
      inversion Hl; subst. cbn [nested_args_with]. constructor; [|eapply IH; eauto].
      unfold is_lam_arg, aexpr. cbn [fst]. apply fx_head in H1.
      destruct x, x'; try discriminate; reflexivity.
  Qed.

  Lemma fl_consts G ns :
    follow_list_with (follow_x W G) (map (fun n => Const (CStr n)) ns) =
      Ok (map (fun n => Const (CStr n)) ns, map (fun _ => TStr) ns, []).
  Proof. induction ns as [|n r IH]; [reflexivity|]. cbn [map]. rewrite fl_cons, fx_Const. cbn [bind]. rewrite IH. reflexivity. Qed.

  Lemma key_lits_consts ns : key_lits (map (fun n => Const (CStr n)) ns) = Some (map LStr ns).
  Proof. induction ns as [|n r IH]; [reflexivity|]. cbn. rewrite IH. reflexivity. Qed.
  Lemma lit_names_strs ns : lit_names (map LStr ns) = Some ns.
  Proof. induction ns as [|n r IH]; [reflexivity|]. cbn. rewrite IH. reflexivity. Qed.

  Lemma dict_type_consts ns ts : exists t, dict_type (map (fun n => Const (CStr n)) ns) ts = Ok t.
  Proof.
    unfold dict_type. rewrite key_lits_consts, lit_names_strs.
    destruct (forallb valid_field_name ns); eauto.
  Qed.

  Lemma key_index_total ns a : forall j, exists l, key_index (map (fun n => Const (CStr n)) ns) a j = Some l.
  Proof. induction ns as [|x xs IHr]; intros j; cbn; [eauto|]. destruct (IHr (S j)) as [l ->]. cbn. eauto. Qed.

  Lemma key_index_ge ns a : forall k l, key_index (map (fun n => Const (CStr n)) ns) a k = Some l -> Forall (fun i => k <= i) l.
  Proof.
    induction ns as [|n r IH]; intros k l H; cbn in H.
    - inversion H; constructor.
    - destruct (key_index (map (fun n => Const (CStr n)) r) a (S k)) as [l0|] eqn:E; [|discriminate].
      cbn in H. pose proof (IH _ _ E) as H0.
      assert (Forall (fun i => k <= i) l0) by (eapply Forall_impl; [|exact H0]; intros; cbn in *; lia).
      destruct (String.eqb n a); inversion H; subst; auto.
  Qed.

  Lemma key_index_none ns a : (forall n, In n ns -> String.eqb n a = false) ->
    forall k, key_index (map (fun n => Const (CStr n)) ns) a k = Some [].
  Proof.
    induction ns as [|n r IH]; intros H k; cbn; [reflexivity|].
    rewrite IH by (intros m Hm; apply H; right; exact Hm). cbn. rewrite (H n) by (left; reflexivity). reflexivity.
  Qed.

  Lemma assoc2_last_none {A} a ns : forall (ts : list A), length ns = length ts -> assoc2_last a ns ts = None ->
    forall n, In n ns -> String.eqb n a = false.
  Proof.
    induction ns as [|m r IH]; intros ts Hl H n Hin; [contradiction|].
    destruct ts as [|t ts']; [discriminate|]. cbn in H, Hl.
    destruct (assoc2_last a r ts') eqn:E; [discriminate|].
    destruct (String.eqb m a) eqn:Em; [discriminate|].
    destruct Hin as [<-|Hin]; [exact Em | eapply IH; eauto].
  Qed.

  (* the last matching key is the one [assoc2_last] finds *)
  Lemma key_index_assoc2 ns : forall (ts : list ty) a t k,
    length ns = length ts -> assoc2_last a ns ts = Some t ->
    exists i l, key_index (map (fun n => Const (CStr n)) ns) a k = Some (i :: l) /\
                k <= last l i /\ nth (last l i - k) ts TAny = t.
  Proof.
    induction ns as [|n r IH]; intros ts a t k Hlen H; [destruct ts; discriminate|].
    destruct ts as [|t0 ts]; [discriminate|]. cbn [assoc2_last] in H. cbn [map key_index]. cbn in Hlen.
    destruct (assoc2_last a r ts) as [t1|] eqn:E.
    - inversion H; subst. destruct (IH ts a t (S k) ltac:(lia) E) as (i & l & Hk & Hge & Hn). rewrite Hk. cbn.
      destruct (String.eqb n a).
      + exists k, (i :: l). split; [reflexivity|].
        assert (Hl : forall (l0 : list nat) x d, last (x :: l0) d = last l0 x).
        { clear. induction l0 as [|y l' IHl]; intros x d; [reflexivity|]. change (last (x :: y :: l') d) with (last (y :: l') d). rewrite !IHl. reflexivity. }
        specialize (Hl l i k).
        rewrite Hl. split; [lia|]. replace (last l i - k) with (S (last l i - S k)) by lia. exact Hn.
      + exists i, l. split; [reflexivity|]. split; [lia|].
        replace (last l i - k) with (S (last l i - S k)) by lia. exact Hn.
    - destruct (String.eqb n a) eqn:En; [|discriminate]. inversion H; subst.
      rewrite (key_index_none r a (assoc2_last_none a r ts ltac:(lia) E)). cbn.
      exists k, []. split; [reflexivity|]. cbn. split; [lia|]. rewrite Nat.sub_diag. reflexivity.
  Qed.
End Sound.

Section Resolution.
  Variable W : world.
  Let ct := w_ct W.
  Variable a : string.
  Variable args : list aarg.
  Variable kws : list (option string * aarg).

  Notation res := (resolve mk_const_arg is_lam_arg (w_ct W)).

  Lemma resolve_static_first bo rest last mcls m a2 k2 t :
    get_method_and_class (w_ct W) bo a = Some (mcls, MMethod m) ->
    fill mk_const_arg (m_params m) args kws = inl (a2, k2) ->
    resolve_type_vars (w_ct W) (ret_of m) bo mcls = Some t ->
    existsb is_lam_arg a2 = false ->
    res (bo :: rest) a args kws last = Ok (PStatic bo m a2 k2 t true).
  Proof. intros Hm Hf Hr Hl. cbn [resolve]. rewrite Hm, Hf. unfold ret_of in Hr. rewrite Hr. cbn. rewrite Hl. reflexivity. Qed.

  Lemma resolve_skip bo rest last :
    get_method_and_class (w_ct W) bo a = None -> res (bo :: rest) a args kws last = res rest a args kws last.
  Proof. intros Hm. cbn [resolve]. rewrite Hm. reflexivity. Qed.

  Lemma resolve_first_coll_static cs elem c mcls m a2 k2 t :
    first_coll_in W cs elem a = Some (c, mcls, m) ->
    fill mk_const_arg (m_params m) args kws = inl (a2, k2) ->
    resolve_type_vars (w_ct W) (ret_of m) (TCls c [elem]) mcls = Some t ->
    existsb is_lam_arg a2 = false ->
    res (map (fun c => TCls c [elem]) cs) a args kws PNone = Ok (PStatic (TCls c [elem]) m a2 k2 t true).
  Proof.
    induction cs as [|c0 r IH]; intros Hfc Hf Hr Hl; [discriminate|]. cbn [first_coll_in map] in *.
    destruct (get_method_and_class (w_ct W) (TCls c0 [elem]) a) as [[mc [m0|pc]]|] eqn:Em.
    - inversion Hfc; subst. eapply resolve_static_first; eauto.
    - discriminate.
    - rewrite resolve_skip by exact Em. apply IH; assumption.
  Qed.

  Lemma resolve_first_coll_stream cs elem c mcls m x k2 :
    first_coll_in W cs elem a = Some (c, mcls, m) -> is_collection (w_ct W) c = true ->
    fill mk_const_arg (m_params m) args kws = inl ([x], k2) ->
    is_lam_arg x = true ->
    res (map (fun c => TCls c [elem]) cs) a args kws PNone = Ok (PStream (TCls c [elem]) m [x] k2 elem).
  Proof.
    induction cs as [|c0 r IH]; intros Hfc Hc Hf Hl; [discriminate|]. cbn [first_coll_in map] in *.
    destruct (get_method_and_class (w_ct W) (TCls c0 [elem]) a) as [[mc [m0|pc]]|] eqn:Em.
    - inversion Hfc; subst. cbn [resolve]. rewrite Em, Hf.
      assert (Hst : stream_target_of (w_ct W) (TCls c [elem]) [x] = STItem elem).
      { unfold stream_target_of. rewrite Hc. reflexivity. }
      destruct (resolve_type_vars (w_ct W) _ (TCls c [elem]) mcls); cbn [plan_full existsb];
        rewrite ?Hl; cbn [orb negb]; rewrite Hst; reflexivity.
    - discriminate.
    - rewrite resolve_skip by exact Em. apply IH; assumption.
  Qed.
End Resolution.

(* ---------- follow_types_agree ---------- *)

Section Agree.
  Variable W : world.
  Let ct := w_ct W.

  Definition accepted (G : tenv) (e : expr) (t : ty) : Prop :=
    exists e' aux ev, follow_x W G e = Ok (e', t, aux, ev).
  Definition accepted_list (G : tenv) (es : list expr) (ts : list ty) : Prop :=
    exists es' ev, follow_list_with (follow_x W G) es = Ok (es', ts, ev).

  (* a method call whose resolution is a static plan: the callbacks run and the call is accepted with that type *)
  Lemma pmc_static v' tv a aargs kwn akwv bo m a2 k2 t :
    resolve mk_const_arg is_lam_arg (w_ct W) (candidates W tv) a aargs (zip_kw kwn akwv) PNone
      = Ok (PStatic bo m a2 k2 t true) ->
    exists out ev, process_method_call W v' tv a aargs kwn akwv = Ok (out, t, ev).
  Proof.
    intros Hr. unfold process_method_call. rewrite method_loop_resolve, Hr. cbn [bind exec mres_of mr_obj mr_node mr_ty mr_ev].
    destruct (callbacks_of W tv a (bo, m)) as [cbo cm].
    destruct (method_callbacks W cbo cm _) as [site evs]. eauto.
  Qed.

  Lemma candidates_iterable tv :
    is_iterable (w_ct W) tv = true ->
    candidates W tv = tv :: map (fun c => TCls c [unwrap_iterable (w_ct W) tv]) (collection_names (w_ct W)).
  Proof. intros H. unfold candidates. rewrite H. reflexivity. Qed.

  Lemma plain_attr_type a v v' tv aux G t0 aux0 ev0 :
    follow_x W G v = Ok (v', t0, aux0, ev0) -> plain_receiver W v tv -> attr_type W a v' tv aux = Ok TAny.
  Proof.
    intros Hv [Hd Hr]. pose proof (fx_dict W _ _ _ _ _ _ Hv) as Hd'. rewrite Hd in Hd'.
    unfold attr_type. destruct v'; try discriminate; rewrite Hr; reflexivity.
  Qed.

  Lemma no_lam_after_fill ps aargs akws a2 k2 :
    Forall (fun x => is_lam_arg x = false) aargs -> Forall (fun kv => is_lam_arg (snd kv) = false) akws ->
    fill mk_const_arg ps aargs akws = inl (a2, k2) -> existsb is_lam_arg a2 = false.
  Proof.
    intros Ha Hk Hf.
    destruct (fill_go_Forall mk_const_arg (fun x => is_lam_arg x = false) ps (fun c => eq_refl) 0 aargs akws a2 k2 Ha Hk Hf) as [H _].
    clear -H. induction H as [|x xs Hx _ IH]; cbn; [reflexivity|]. rewrite Hx, IH. reflexivity.
  Qed.

  Lemma zip_kw_Forall (P : aarg -> Prop) kwn akwv :
    Forall P akwv -> Forall (fun kv => P (snd kv)) (zip_kw kwn akwv).
  Proof. intros H. revert kwn. induction H as [|x xs Hx _ IH]; intros [|k ks]; cbn; constructor; auto. Qed.

  Theorem wt_sound :
    (forall G e t, wt W G e t -> accepted G e t) /\
    (forall G es ts, wts W G es ts -> accepted_list G es ts).
  Proof.
    apply wt_wts_ind; unfold accepted, accepted_list.
    - (* name *) intros G x t H. rewrite fx_Name. unfold name_type. rewrite H. eauto.
    - (* const *) intros G c. rewrite fx_Const. eauto.
    - (* compare *)
      intros G l ops rs tl ts _ (l' & auxl & evl & Hl) _ (rs' & evr & Hr).
      rewrite fx_Compare, Hl. cbn [bind]. rewrite Hr. cbn [bind]. eauto.
    - (* boolop *)
      intros G o es ts _ (es' & ev & He). rewrite fx_BoolOp, He. cbn [bind]. eauto.
    - (* binop *)
      intros G o l r tl tr _ (l' & al & el & Hl) _ (r' & ar & er & Hr) Hnl Hnr.
      rewrite fx_BinOp, Hl. cbn [bind]. rewrite Hr. cbn [bind]. rewrite binop_promote by assumption. eauto.
    - (* unary *)
      intros G o x t _ (x' & ax & ex & Hx). rewrite fx_UnaryOp, Hx. cbn [bind]. rewrite unary_uses_lookup_on. cbn [orb]. eauto.
    - (* ifexp, equal types *)
      intros G c x y tc t _ (c' & ac & ec & Hc) _ (x' & ax & ex & Hx) _ (y' & ay & ey & Hy) Heq.
      rewrite fx_IfExp, Hc. cbn [bind]. rewrite Hx. cbn [bind]. rewrite Hy. cbn [bind].
      unfold ifexp_type. rewrite Heq. cbn [bind]. eauto.
    - (* ifexp, int/float *)
      intros G c x y tc tx ty' _ (c' & ac & ec & Hc) _ (x' & ax & ex & Hx) _ (y' & ay & ey & Hy) Hnx Hny Hne.
      rewrite fx_IfExp, Hc. cbn [bind]. rewrite Hx. cbn [bind]. rewrite Hy. cbn [bind].
      unfold ifexp_type. destruct Hnx as [-> | ->], Hny as [-> | ->]; try congruence; cbn; eauto.
    - (* subscript *)
      intros G v s tv ts _ (v' & av & ev & Hv) _ (s' & as' & es & Hs) Ht Hr.
      rewrite fx_Subscript, Hv. cbn [bind]. rewrite Hs. cbn [bind].
      pose proof (fx_tuple W _ _ _ _ _ _ Hv) as Ht'. rewrite Ht in Ht'.
      assert (Hst : subscript_type W v' tv av s' = Ok (unwrap_iterable (w_ct W) tv)).
      { unfold subscript_type. destruct v'; try discriminate; rewrite Hr; reflexivity. }
      rewrite Hst. cbn [bind]. eauto.
    - (* constant index into a tuple literal *)
      intros G es ts i t _ (es' & ev & He) Hn.
      rewrite fx_Subscript, fx_Tuple, He. cbn [bind]. rewrite fx_Const. cbn [bind].
      destruct (fl_lengths W _ _ _ _ _ He) as [L1 L2].
      assert (Hi : i < length ts) by (apply nth_error_Some; congruence).
      assert (Hst : subscript_type W (Tuple es') TAny ts (Const (CInt (Z.of_nat i))) = Ok t).
      { unfold subscript_type.
        assert (Hrange : ((- Z.of_nat (length es') <=? Z.of_nat i) && (Z.of_nat i <? Z.of_nat (length es')))%Z = true).
        { apply andb_true_iff. split; [apply Z.leb_le | apply Z.ltb_lt]; lia. }
        rewrite Hrange. assert ((Z.of_nat i <? 0)%Z = false) by (apply Z.ltb_ge; lia). rewrite H.
        rewrite Nat2Z.id. f_equal. apply nth_error_nth. exact Hn. }
      rewrite Hst. cbn [bind]. eauto.
    - (* field of a dictionary literal *)
      intros G ns vs ts a t _ (vs' & ev & Hvs) Hlen Ha.
      rewrite fx_Attr, fx_Dict, fl_consts. cbn [bind]. rewrite Hvs. cbn [bind].
      destruct (dict_type_consts ns ts) as [td ->]. cbn [bind].
      destruct (fl_lengths W _ _ _ _ _ Hvs) as [_ Lts].
      destruct (key_index_assoc2 ns ts a t 0 ltac:(lia) Ha) as (i & l & Hk & _ & Hnth).
      unfold attr_type. rewrite Hk. cbn [bind]. rewrite Nat.sub_0_r in Hnth. rewrite Hnth. eauto.
    - (* field of a dictionary- / dataclass-typed value *)
      intros G v tv a ns ts t _ (v' & av & ev & Hv) Hd Hr Ha.
      rewrite fx_Attr, Hv. cbn [bind].
      pose proof (fx_dict W _ _ _ _ _ _ Hv) as Hd'. rewrite Hd in Hd'.
      assert (Hat : attr_type W a v' tv av = Ok t).
      { unfold attr_type. destruct v'; try discriminate; rewrite Hr, Ha; reflexivity. }
      rewrite Hat. cbn [bind]. eauto.
    - (* registered function *)
      intros G x fn args kwn kwv ts tk Hf _ (args' & ev1 & Ha) _ (kwv' & ev2 & Hk) Hb Hlen.
      rewrite fx_Call_plain by exact I. rewrite fx_Name. cbn [bind]. rewrite Ha. cbn [bind]. rewrite Hk. cbn [bind].
      rewrite Hf. unfold process_function_call. rewrite zfix_combine.
      destruct (fl_lengths W _ _ _ _ _ Ha) as [La _]. destruct (fl_lengths W _ _ _ _ _ Hk) as [Lk _].
      destruct (binds_fill Const (f_params fn) args' kwn kwv' (length args) Hb La) as (a2 & k2 & Hfill); [lia|].
      rewrite Hfill.
      destruct (run_cb W (f_proc fn) _) as [site evs]. cbn [bind]. eauto.
    - (* method of the receiver's own class *)
      intros G v a args kwn kwv tv ts tk mcls m t _ (v' & av & ev0 & Hv) Hpl Hwa (args' & ev1 & Ha) Hwk (kwv' & ev2 & Hk)
             Hm Hr Hb Hlen.
      rewrite fx_Call_method, Hv. cbn [bind]. rewrite (plain_attr_type a v v' tv av G _ _ _ Hv Hpl). cbn [bind].
      rewrite Ha. cbn [bind]. rewrite Hk. cbn [bind].
      destruct (fl_lengths W _ _ _ _ _ Ha) as [La _]. destruct (fl_lengths W _ _ _ _ _ Hk) as [Lk _].
      set (aargs := nested_args_with (follow_x W) G args args'). set (akwv := nested_args_with (follow_x W) G kwv kwv').
      assert (Laa : length aargs = length args) by (apply nl_length; exact La).
      assert (Lak : length akwv = length kwn) by (unfold akwv; rewrite nl_length by exact Lk; lia).
      destruct (binds_fill mk_const_arg (m_params m) aargs kwn akwv (length args) Hb Laa Lak) as (a2 & k2 & Hfill).
      rewrite <- zip_kw_combine in Hfill.
      assert (Hnl : existsb is_lam_arg a2 = false).
      { eapply no_lam_after_fill; [| |exact Hfill].
        - eapply nl_not_lambda; [eapply wts_not_lambda; exact Hwa | exact Ha].
        - apply (zip_kw_Forall (fun x => is_lam_arg x = false)). eapply nl_not_lambda; [eapply wts_not_lambda; exact Hwk | exact Hk]. }
      destruct (pmc_static v' tv a aargs kwn akwv tv m a2 k2 t) as (out & ev3 & Hp).
      { unfold candidates. eapply resolve_static_first; eauto. }
      rewrite Hp. cbn [bind]. eauto.
    - (* method of a registered collection class on an iterable *)
      intros G v a args kwn kwv tv ts tk c mcls m t _ (v' & av & ev0 & Hv) Hpl Hwa (args' & ev1 & Ha) Hwk (kwv' & ev2 & Hk)
             Hit Hnone Hfc Hr Hb Hlen.
      rewrite fx_Call_method, Hv. cbn [bind]. rewrite (plain_attr_type a v v' tv av G _ _ _ Hv Hpl). cbn [bind].
      rewrite Ha. cbn [bind]. rewrite Hk. cbn [bind].
      destruct (fl_lengths W _ _ _ _ _ Ha) as [La _]. destruct (fl_lengths W _ _ _ _ _ Hk) as [Lk _].
      set (aargs := nested_args_with (follow_x W) G args args'). set (akwv := nested_args_with (follow_x W) G kwv kwv').
      assert (Laa : length aargs = length args) by (apply nl_length; exact La).
      assert (Lak : length akwv = length kwn) by (unfold akwv; rewrite nl_length by exact Lk; lia).
      destruct (binds_fill mk_const_arg (m_params m) aargs kwn akwv (length args) Hb Laa Lak) as (a2 & k2 & Hfill).
      rewrite <- zip_kw_combine in Hfill.
      assert (Hnl : existsb is_lam_arg a2 = false).
      { eapply no_lam_after_fill; [| |exact Hfill].
        - eapply nl_not_lambda; [eapply wts_not_lambda; exact Hwa | exact Ha].
        - apply (zip_kw_Forall (fun x => is_lam_arg x = false)). eapply nl_not_lambda; [eapply wts_not_lambda; exact Hwk | exact Hk]. }
      destruct (pmc_static v' tv a aargs kwn akwv (TCls c [unwrap_iterable (w_ct W) tv]) m a2 k2 t) as (out & ev3 & Hp).
      { rewrite candidates_iterable by exact Hit. rewrite resolve_skip by exact Hnone.
        eapply resolve_first_coll_static; eauto. }
      rewrite Hp. cbn [bind]. eauto.
    - (* Select / SelectMany / Where of a registered collection class, with its lambda *)
      intros G v a p b tv tb c mcls m t _ (v' & av & ev0 & Hv) Hpl Hit Hnone Hfc Hcoll Hop Hfill _ (b' & ab & evb & Hb) Hchk Hres.
      rewrite fx_Call_method, Hv. cbn [bind]. rewrite (plain_attr_type a v v' tv av G _ _ _ Hv Hpl). cbn [bind].
      rewrite fl_cons, fx_Lambda. cbn [bind follow_list_with nested_args_with].
      set (elem := unwrap_iterable (w_ct W) tv) in *.
      set (x := (Lambda [p] b, NLam p (fun item => bind (follow_x W ((p, item) :: G) b) (fun '(b', t, _, ev) => Ok (b', t, ev))))).
      (* the walk leaves the lambda where it is, also on the annotated arguments *)
      assert (Hfa : fill mk_const_arg (m_params m) [x] (zip_kw [] []) = inl ([x], [])).
      { pose proof (fill_go_map aexpr mk_const_arg Const (fun c => eq_refl) (m_params m) 0 [x] []) as Hm.
        cbn [map] in Hm. change (aexpr x) with (Lambda [p] b) in Hm. unfold fill in Hfill. rewrite Hfill in Hm.
        cbn [zip_kw]. unfold fill.
        destruct (fill_go mk_const_arg (m_params m) 0 [x] []) as [[a2 k2]|pn] eqn:Ef; [|discriminate].
        inversion Hm as [[Ha2 Hk2]].
        destruct k2; [|discriminate]. destruct a2 as [|y [|z r]]; try discriminate.
        destruct (fill_go_Forall mk_const_arg (fun y => y = x \/ exists c0, y = mk_const_arg c0) (m_params m)
                    (fun c0 => or_intror (ex_intro _ c0 eq_refl)) 0 [x] [] [y] []
                    (Forall_cons _ (or_introl eq_refl) (Forall_nil _)) (Forall_nil _) Ef) as [Hy _].
        pose proof (Forall_inv Hy) as Hy0. destruct Hy0 as [->|[c0 ->]]; [reflexivity|].
        unfold mk_const_arg, aexpr in Ha2. cbn in Ha2. discriminate. }
      set (aargs := [x]).
      assert (Hres' : resolve mk_const_arg is_lam_arg (w_ct W) (candidates W tv) a aargs (zip_kw [] []) PNone
                      = Ok (PStream (TCls c [elem]) m [x] [] elem)).
      { rewrite candidates_iterable by exact Hit. rewrite resolve_skip by exact Hnone.
        eapply resolve_first_coll_stream; eauto. }
      assert (Hout : out_of W ((p, elem) :: G) b = b') by (exact (proj1 (out_of_fx _ _ _ _ _ _ _ Hb))).
      rewrite Hout in Hchk.
      assert (Hfin : finish_op W (m_op m) elem p (b', tb, evb) = Ok (Lambda [p] b', t, evb)).
      { unfold finish_op. rewrite Hchk. cbn [negb].
        destruct Hop as [Ho|[Ho|Ho]]; rewrite Ho in *; cbn in Hres.
        - inversion Hres; reflexivity.
        - inversion Hres; reflexivity.
        - destruct tb; try discriminate. inversion Hres; reflexivity. }
      assert (Hp : exists out ev3, process_method_call W v' tv a aargs [] [] = Ok (out, TIter t, ev3)).
      { unfold process_method_call. rewrite method_loop_resolve, Hres'. cbn [bind exec].
        unfold follow_on_stream_obj. rewrite Hcoll.
        assert (Hx : snd x = NLam p (fun item => bind (follow_x W ((p, item) :: G) b) (fun '(b', t, _, ev) => Ok (b', t, ev)))) by reflexivity.
        assert (Hop' : match m_op m with OpSelect | OpSelectMany | OpWhere => True | _ => False end)
          by (destruct Hop as [Ho|[Ho|Ho]]; rewrite Ho; exact I).
        destruct (m_op m) eqn:Eop; try contradiction; rewrite Hx; cbn beta; rewrite Hb; cbn [bind];
          rewrite Hfin; cbn [bind mr_obj mr_node mr_ty mr_ev];
          destruct (callbacks_of W tv a (TCls c [elem], m)) as [cbo cm];
          destruct (method_callbacks W cbo cm _) as [site evs]; eauto. }
      destruct Hp as (out & ev3 & Hp). unfold aargs in Hp.
      match goal with |- context [bind ?pm _] => replace pm with (Ok (A:=expr * ty * list event) (out, TIter t, ev3)) by (symmetry; exact Hp) end.
      cbn [bind]. eauto.
    - (* lists *) intros G. exists [], []. reflexivity.
    - intros G e es t ts _ (e' & aux & ev & He) _ (es' & evs & Hes).
      rewrite fl_cons, He. cbn [bind]. rewrite Hes. cbn [bind]. eauto.
  Qed.

End Agree.

(* ---------- exported statements ---------- *)

Theorem follow_types_agree_x W G e t :
  wt W G e t -> exists e' ev, follow W G e = Ok (e', t, ev).
Proof.
  intros H. destruct (proj1 (wt_sound W) G e t H) as (e' & aux & ev & Hx).
  exists e', ev. unfold follow. rewrite Hx. reflexivity.
Qed.

(* the item type of the stream a stream operator returns, for a well-typed lambda *)
Theorem stream_types_agree_x W op G0 item p b tb t :
  wt W ((p, item) :: G0) b tb ->
  check_ast (Lambda [p] (out_of W ((p, item) :: G0) b)) = true ->
  op_result (w_ct W) op item tb = Some t ->
  exists lam ev, stream_op W op G0 item (Lambda [p] b) = Ok (lam, t, ev).
Proof.
  intros Hw Hc Hr. destruct (follow_types_agree_x W _ _ _ Hw) as (b' & ev & Hf).
  cbn [stream_op]. rewrite Hf. cbn [bind]. unfold finish_op.
  assert (Ho : out_of W ((p, item) :: G0) b = b') by (unfold out_of; rewrite Hf; reflexivity).
  rewrite Ho in Hc. rewrite Hc. cbn [negb].
  destruct op; cbn in Hr; try discriminate.
  - inversion Hr; subst. eauto.
  - inversion Hr; subst. eauto.
  - destruct tb; try discriminate. inversion Hr; subst. cbn. eauto.
Qed.

Lemma map_const_inj ns ns' :
  map (fun n => Const (CStr n)) ns = map (fun n => Const (CStr n)) ns' -> ns = ns'.
Proof.
  revert ns'. induction ns as [|n r IH]; intros [|n' r'] H; cbn in H; try discriminate; [reflexivity|].
  inversion H; subst. f_equal. auto.
Qed.

Ltac ihs :=
  repeat match goal with
         | IH : forall t', wt _ ?G ?e t' -> _ = t', H : wt _ ?G ?e _ |- _ => pose proof (IH _ H); clear H
         | IH : forall ts', wts _ ?G ?es ts' -> _ = ts', H : wts _ ?G ?es _ |- _ => pose proof (IH _ H); clear H
         end; subst.

Theorem wt_det W :
  (forall G e t, wt W G e t -> forall t', wt W G e t' -> t = t') /\
  (forall G es ts, wts W G es ts -> forall ts', wts W G es ts' -> ts = ts').
Proof.
  apply wt_wts_ind.
  - intros G x t H t' H'. inversion H'; subst. congruence.
  - intros G c t' H'. inversion H'; subst. reflexivity.
  - intros G l ops rs tl ts _ _ _ _ t' H'. inversion H'; subst. reflexivity.
  - intros G o es ts _ _ t' H'. inversion H'; subst. reflexivity.
  - intros G o l r tl tr _ IHl _ IHr _ _ t' H'. inversion H'; subst. ihs. reflexivity.
  - intros G o x t _ IH t' H'. inversion H'; subst. ihs. reflexivity.
  - intros G c x y tc t _ _ _ IHx _ IHy _ t' H'. inversion H'; subst; ihs; [reflexivity | congruence].
  - intros G c x y tc tx ty' _ _ _ IHx _ IHy _ _ Hne t' H'. inversion H'; subst; ihs; [congruence | reflexivity].
  - intros G v s tv ts _ IHv _ _ Ht _ t' H'. inversion H'; subst; ihs; [reflexivity | discriminate].
  - intros G es ts i t _ IH Hn t' H'. inversion H'; subst; [discriminate|].
    match goal with E : Z.of_nat _ = Z.of_nat _ |- _ => apply Nat2Z.inj in E; subst end. ihs. congruence.
  - intros G ns vs ts a t _ IH _ Ha t' H'. inversion H'; subst; [|discriminate].
    match goal with E : map _ _ = map _ _ |- _ => apply map_const_inj in E; subst end. ihs. congruence.
  - intros G v tv a ns ts t _ IHv Hd Hr Ha t' H'. inversion H'; subst; [discriminate|]. ihs. congruence.
  - intros G x fn args kwn kwv ts tk Hf _ _ _ _ _ _ t' H'. inversion H'; subst.
    match goal with E : find_func _ x = Some ?f0 |- _ => rewrite Hf in E; inversion E; subst end. reflexivity.
  - (* method *)
    intros G v a args kwn kwv tv ts tk mcls m t _ IHv _ _ _ _ _ Hm Hr _ _ t' H'. inversion H'; subst; ihs; congruence.
  - (* collection method *)
    intros G v a args kwn kwv tv ts tk c mcls m t _ IHv _ Hwa _ _ _ Hit Hn Hfc Hr _ _ t' H'.
    inversion H'; subst; try (ihs; congruence).
    exfalso. match goal with Hw : wts W G [Lambda _ _] _ |- _ => inversion Hw as [|? ? ? ? ? Hl _]; inversion Hl end.
  - (* operator *)
    intros G v a p b tv tb c mcls m t _ IHv _ Hit Hn Hfc _ _ _ _ IHb _ Hres t' H'.
    inversion H'; subst.
    + ihs. congruence.
    + exfalso. match goal with Hw : wts W G [Lambda _ _] _ |- _ => inversion Hw as [|? ? ? ? ? Hl _]; inversion Hl end.
    + match goal with Hv2 : wt W G v _ |- _ => pose proof (IHv _ Hv2); clear Hv2; subst end.
      ihs. congruence.
  - intros G ts' H'. inversion H'; reflexivity.
  - intros G e es t ts _ IHe _ IHes ts' H'. inversion H'; subst. ihs. reflexivity.
Qed.

Theorem wt_deterministic_x W G e t t' : wt W G e t -> wt W G e t' -> t = t'.
Proof. intros H H'. exact (proj1 (wt_det W) G e t H t' H'). Qed.

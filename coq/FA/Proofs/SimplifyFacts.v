(* Basic facts about the simplifier model (Model/Simplify.v): the generated dispatch table is the one the
   hand-written rule bodies assume, the result monad, the helpers. *)
From FA.Base Require Import PyAst Induct Value Traverse Names.
From FA.Gen Require Import TablesSimp.
From FA.Model Require Import Simplify.
From Coq Require Import Lia.

(* The model's three rule bodies are exactly the call_* handlers the class defines: adding a
   call_First method to simplify_chained_calls (which silently changes dispatch) breaks this. *)
Example handlers_pinned : simp_call_handlers = ["Select"; "SelectMany"; "Where"].
Proof. reflexivity. Qed.

(* ... and the node classes it intercepts are the ones the model gives their own clause; every other
   class goes through generic_visit. *)
Example visitors_pinned : simp_visit_handlers = ["Attribute"; "Call"; "Lambda"; "Name"; "Subscript"].
Proof. reflexivity. Qed.

Example base_dispatch_pinned : base_transformer_methods = ["visit_Call"].
Proof. reflexivity. Qed.

Lemma is_call_handler_spec n :
  is_call_handler n = true <-> n = "Select" \/ n = "SelectMany" \/ n = "Where".
Proof.
  unfold is_call_handler. rewrite handlers_pinned. simpl. rewrite !orb_true_iff, !String.eqb_eq.
  intuition congruence.
Qed.

Lemma sbind_ok {A B} (m : sres A) (f : A -> sres B) r :
  sbind m f = Ok r -> exists a, m = Ok a /\ f a = Ok r.
Proof. destruct m; simpl; intros H; try discriminate. eauto. Qed.

Lemma make_args_unique_lambda ps b c :
  make_args_unique ps b c = (Lambda (fresh_names (length ps) c) (rename (rev (combine ps (fresh_names (length ps) c))) b), c + length ps).
Proof. reflexivity. Qed.

Lemma fresh_names_length n c : length (fresh_names n c) = n.
Proof. revert c; induction n; simpl; intros; auto. Qed.

(* python indexing succeeds exactly inside the bounds *)
Lemma py_index_in_range {A} (l : list A) n :
  (- Z.of_nat (length l) <= n < Z.of_nat (length l))%Z -> exists x, py_index l n = Some x.
Proof.
  intros Hn. unfold py_index.
  destruct (0 <=? n)%Z eqn:H0.
  - apply Z.leb_le in H0.
    destruct (nth_error l (Z.to_nat n)) eqn:E; [eauto|].
    apply nth_error_None in E. lia.
  - apply Z.leb_gt in H0.
    destruct (0 <=? Z.of_nat (length l) + n)%Z eqn:H1.
    + apply Z.leb_le in H1.
      destruct (nth_error l (Z.to_nat (Z.of_nat (length l) + n))) eqn:E; [eauto|].
      apply nth_error_None in E. lia.
    + apply Z.leb_gt in H1. lia.
Qed.

Lemma py_index_In {A} (l : list A) n x : py_index l n = Some x -> In x l.
Proof.
  unfold py_index. destruct (0 <=? n)%Z.
  - apply nth_error_In.
  - destruct (0 <=? Z.of_nat (length l) + n)%Z; [apply nth_error_In | discriminate].
Qed.

(* the dedicated index error is raised exactly for a constant index outside the literal *)
Lemma seq_project_spec es n :
  match seq_project es n with
  | Ok x => In x es /\ py_index es n = Some x
  | IndexErr => (n >= Z.of_nat (length es) \/ n < - Z.of_nat (length es))%Z
  | Crash _ => False
  | OutOfFuel => False
  end.
Proof.
  unfold seq_project.
  destruct ((n >=? Z.of_nat (length es)) || (n <? - Z.of_nat (length es)))%Z eqn:Hb.
  - apply orb_true_iff in Hb. destruct Hb as [Hb|Hb].
    + left. apply Z.geb_le in Hb. lia.
    + right. apply Z.ltb_lt in Hb. lia.
  - apply orb_false_iff in Hb. destruct Hb as [H1 H2].
    rewrite Z.geb_leb in H1. apply Z.leb_gt in H1. apply Z.ltb_ge in H2.
    destruct (py_index_in_range es n) as [x Hx]; [lia|].
    rewrite Hx. split; [eapply py_index_In; eauto | reflexivity].
Qed.

Lemma dict_scan_In rks rvs s v : dict_scan rks rvs s = Some v -> In v rvs.
Proof.
  revert rvs; induction rks as [|k rks IH]; intros [|x rvs] H; simpl in *; try discriminate.
  destruct k; try discriminate. destruct (key_matches c s).
  - inversion H; auto.
  - right; eauto.
Qed.

(* C06, semantic half: the Where*/Select chain emitted for a comprehension computes what Python
   computes for the comprehension (Base/Eval.v [comp_sem]: iterable in the outer scope, target
   local, [if] clauses left to right with short circuit), and the whole pass preserves the meaning
   of every tree that evaluates - at any depth, for every backend and environment. *)
From FA.Base Require Import PyAst Induct Value Eval Traverse.
From FA.Model Require Import Sugar SugarSpec.
From FA.Proofs Require Import TraverseFacts Refine EvalCong SugarCong SugarFacts.
From Coq Require Import Lia.

Definition T (e : expr) : option expr := to_opt (sugar e).

Lemma T_generic e : special e = false -> T e = map_children T e.
Proof.
  intros H. unfold T. rewrite sugar_unfold.
  destruct e; try discriminate H; apply to_opt_map_children.
Qed.

Lemma T_some e e' : T e = Some e' <-> sugar e = Ok e'.
Proof. apply to_opt_some. Qed.

(* ---------- filtering clause by clause = filtering by the short-circuit conjunction ---------- *)

Lemma ofilter_true {A} (l : list A) : ofilter (fun _ => Some true) l = Some l.
Proof. induction l as [|x xs IH]; simpl; [reflexivity|]. rewrite IH. reflexivity. Qed.

Lemma filter_split {A} (g : A -> option value) (q : A -> option bool) l : forall kept,
  ofilter (fun v => obind (g v) (fun cv => if truthy cv then q v else Some false)) l = Some kept ->
  exists k1, ofilter (fun v => option_map truthy (g v)) l = Some k1 /\ ofilter q k1 = Some kept.
Proof.
  induction l as [|a l IH]; intros kept H.
  - inversion H. exists []. split; reflexivity.
  - cbn [ofilter] in H. apply obind_some in H. destruct H as [b [Hb H]].
    apply obind_some in H. destruct H as [r [Hr H]]. inversion H; subst; clear H.
    destruct (IH _ Hr) as [k1 [Hk1 Hk2]].
    apply obind_some in Hb. destruct Hb as [cv [Hcv Hb]].
    cbn [ofilter]. rewrite Hcv. cbn [option_map obind]. rewrite Hk1. cbn [obind].
    destruct (truthy cv).
    + exists (a :: k1). split; [reflexivity|]. cbn [ofilter]. rewrite Hb. cbn [obind]. rewrite Hk2. reflexivity.
    + inversion Hb; subst. exists k1. split; [reflexivity | assumption].
Qed.

Section Sem.
  Variable B : backend.
  Variable ops : list string.
  Hypothesis Hselect : is_op ops "Select" = true.
  Hypothesis Hwhere : is_op ops "Where" = true.
  Notation ev := (eval B ops).

  Lemma where_call_sem x E src c l k1 :
    ev E src = Some (VList l) ->
    ofilter (fun v => option_map truthy (ev ((x, v) :: E) c)) l = Some k1 ->
    ev E (where_call x src c) = Some (VList k1).
  Proof.
    intros Hs Hf. unfold where_call, lambda_build. cbn [eval]. rewrite Hwhere.
    unfold apply_op. cbn [String.eqb Ascii.eqb Bool.eqb map mk_view av_f1]. rewrite Hs. cbn [obind as_list].
    rewrite Hf. reflexivity.
  Qed.

  Lemma select_call_sem x E src body l r :
    ev E src = Some (VList l) ->
    omap (fun v => ev ((x, v) :: E) body) l = Some r ->
    ev E (select_call x src body) = Some (VList r).
  Proof.
    intros Hs Hf. unfold select_call, lambda_build. cbn [eval]. rewrite Hselect.
    unfold apply_op. cbn [String.eqb Ascii.eqb Bool.eqb map mk_view av_f1]. rewrite Hs. cbn [obind as_list].
    rewrite Hf. reflexivity.
  Qed.

  Lemma where_chain_sem x E ifs : forall src l kept,
    ev E src = Some (VList l) ->
    ofilter (fun v => conds_sem (ev ((x, v) :: E)) ifs) l = Some kept ->
    ev E (where_chain x src ifs) = Some (VList kept).
  Proof.
    induction ifs as [|c cs IH]; intros src l kept Hs Hf.
    - cbn [conds_sem] in Hf. rewrite ofilter_true in Hf. inversion Hf; subst. exact Hs.
    - apply (filter_split (fun v => ev ((x, v) :: E) c) (fun v => conds_sem (ev ((x, v) :: E)) cs)) in Hf.
      destruct Hf as [k1 [Hk1 Hk2]].
      unfold where_chain. cbn [fold_left]. apply (IH _ k1 kept); [|assumption].
      eapply where_call_sem; eassumption.
  Qed.

  (* the lowering of one clause means what the comprehension means *)
  Lemma lower_sem x E elt it ifs :
    refines (comp_sem ev E elt [CompFor (Name x) it ifs false])
            (ev E (select_call x (where_chain x it ifs) elt)).
  Proof.
    intros v H. unfold comp_sem in H.
    apply obind_some in H. destruct H as [s [Hs H]].
    apply obind_some in H. destruct H as [l [Hl H]].
    apply obind_some in H. destruct H as [kept [Hk H]].
    destruct s; try discriminate. inversion Hl; subst; clear Hl.
    destruct (omap (fun v0 => ev ((x, v0) :: E) elt) kept) as [r|] eqn:Hr; [|discriminate].
    inversion H; subst; clear H.
    eapply select_call_sem; [|exact Hr].
    eapply where_chain_sem; eassumption.
  Qed.

  (* a constructor call has no meaning in the reference semantics: nothing to preserve *)
  Lemma class_call_none E c args kwn kwv : ev E (Call (Const c) args kwn kwv) = None.
  Proof.
    cbn [eval]. destruct kwn; [reflexivity|].
    destruct (omap (ev E) args); [|reflexivity]. cbn [obind].
    destruct (omap (ev E) kwv); [|reflexivity]. cbn [obind].
    destruct (zip_kw (o :: kwn) l0); reflexivity.
  Qed.

  Lemma lower_call_cases a r :
    lower_call a = Ok r -> r = a \/ exists c args kwn kwv, a = Call (Const c) args kwn kwv.
  Proof.
    unfold lower_call, lower_call_with. destruct a; intros H; try (inversion H; left; reflexivity).
    destruct a; try (inversion H; left; reflexivity). right; eauto.
  Qed.

  Lemma T_of_children e cs' :
    Forall2 (fun c c' => sugar c = Ok c') (children e) cs' -> map_children T e = Some (rebuild e cs').
  Proof.
    intros H. apply map_children_of_omap. apply omap_of_Forall2.
    induction H; constructor; [apply T_some|]; assumption.
  Qed.

  Lemma special_case e :
    special e = true -> (forall e0, size e0 < size e -> sem_ok B ops T e0) -> sem_ok B ops T e.
  Proof.
    intros Hsp IH e' He E.
    pose proof He as He0. apply T_some in He. apply sugar_ok_inv in He. destruct He as [cs' [Hcs He]].
    pose proof (T_of_children e cs' Hcs) as Hgen.
    destruct (is_comp e) eqn:Hcomp.
    - (* comprehension *)
      assert (Hsh : exists x gs, (e = ListComp x gs \/ e = GenExp x gs)) by (destruct e; try discriminate; eauto).
      destruct Hsh as (x & gs & Hsh).
      assert (Hk : children e = x :: gs) by (destruct Hsh as [-> | ->]; reflexivity).
      rewrite Hk in Hcs. inversion Hcs as [|? x' ? gs' Hx' Hgs']; subst cs'.
      assert (Hev : ev E e = comp_sem ev E x gs) by (destruct Hsh as [-> | ->]; reflexivity).
      rewrite Hev. clear Hev.
      apply refines_trans with (b := comp_sem ev E x' gs').
      + apply (comp_case B ops T T_generic (size e)); try assumption.
        * rewrite (size_sizes e), Hk. simpl. lia.
        * apply T_some; assumption.
        * apply omap_of_Forall2. clear -Hgs'. induction Hgs'; constructor; [apply T_some|]; assumption.
      + assert (Hlow : resolve_generator x' gs' (rebuild e (x' :: gs')) = Ok e').
        { destruct Hsh as [-> | ->]; exact He. }
        intros v Hv.
        assert (Hone : exists t it ifs, gs' = [CompFor (Name t) it ifs false]).
        { unfold comp_sem in Hv.
          repeat match type of Hv with
                 | context [match ?z with _ => _ end] => destruct z; try discriminate Hv
                 end.
          eauto. }
        destruct Hone as (t & it & ifs & ->).
        unfold resolve_generator in Hlow. simpl in Hlow. inversion Hlow; subst e'.
        revert v Hv. apply lower_sem.
    - (* call *)
      assert (Hcall : is_call e = true) by (destruct e; try discriminate; reflexivity).
      rewrite Hcall in He.
      destruct (lower_call_cases _ _ He) as [-> | (c & args' & kwn' & kwv' & Hreb)].
      + (* left alone: the generic congruence applies *)
        apply (node_congruence B ops T T_generic e IH); [|exact He0].
        rewrite Hgen. exact He0.
      + (* lowered to a dictionary: the callee was a class constant *)
        destruct e; try discriminate. simpl in Hcs.
        inversion Hcs as [|g0 g' l0 r Hg Hr]; subst. simpl in Hreb. inversion Hreb; subst.
        apply sugar_const_inv in Hg. subst.
        rewrite class_call_none. apply refines_none.
  Qed.

  Theorem sugar_sem_all e e' :
    sugar e = Ok e' -> forall E v, ev E e = Some v -> ev E e' = Some v.
  Proof.
    intros He E v. apply (pass_refines B ops T T_generic special_case e e'). apply T_some; assumption.
  Qed.

End Sem.

(* Argument binding: the reference semantics' Python-style binding on values (Eval.bind_args / bind_kw /
   zip_kw) agrees with the simplifier model's binding on expressions (Simplify.bind_lambda_call /
   bind_keywords / assoc_expr / has_dup): whenever the semantics binds successfully, the model binds too,
   and parameter-by-parameter to an argument expression whose value is the one the semantics put into the
   environment.  Generic in the evaluation function [ev]. *)
From Coq Require Import List String Bool Arith Lia.
From FA.Base Require Import PyAst Induct Value Eval Traverse Names.
From FA.Model Require Import Simplify.
From FA.Proofs Require Import TraverseFacts Refine SimplifyFacts.
Import ListNotations.
Open Scope string_scope.
Open Scope list_scope.

(* ------------------------------------------------------------------------------------------------ *)
(* small list facts                                                                                  *)

Lemma existsb_eqb_In x l : existsb (String.eqb x) l = true <-> In x l.
Proof.
  rewrite existsb_exists. split.
  - intros (y & Hy & Heq). apply String.eqb_eq in Heq. subst y. exact Hy.
  - intros Hin. exists x. split; [exact Hin | apply String.eqb_refl].
Qed.

Lemma existsb_eqb_notIn x l : existsb (String.eqb x) l = false <-> ~ In x l.
Proof.
  rewrite <- existsb_eqb_In. destruct (existsb (String.eqb x) l); split; intros H.
  - discriminate H.
  - exfalso; apply H; reflexivity.
  - intros H'; discriminate H'.
  - reflexivity.
Qed.

Lemma has_dup_false_NoDup l : has_dup l = false <-> NoDup l.
Proof.
  induction l as [|x xs IH]; cbn [has_dup].
  - split; [constructor | reflexivity].
  - rewrite orb_false_iff, existsb_eqb_notIn, IH. split.
    + intros [Hx Hxs]. constructor; assumption.
    + intros Hnd. inversion Hnd; subst. split; assumption.
Qed.

Lemma filter_nil_false {A} (f : A -> bool) l : filter f l = [] -> forall x, In x l -> f x = false.
Proof.
  intros Hf x Hin. destruct (f x) eqn:E; [|reflexivity].
  assert (Hx : In x (filter f l)) by (apply filter_In; split; assumption).
  rewrite Hf in Hx. destruct Hx.
Qed.

Lemma filter_all_true {A} (f : A -> bool) l : (forall x, In x l -> f x = true) -> filter f l = l.
Proof.
  induction l as [|a l IH]; intros H; cbn [filter]; [reflexivity|].
  rewrite (H a (or_introl eq_refl)). f_equal. apply IH. intros x Hx. apply H. right; exact Hx.
Qed.

Lemma filter_partition_length {A} (f : A -> bool) l :
  length l = length (filter f l) + length (filter (fun x => negb (f x)) l).
Proof.
  induction l as [|a l IH]; cbn [filter]; [reflexivity|].
  destruct (f a); cbn [negb length]; lia.
Qed.

Lemma combine_app_exact {A B} (l1 l2 : list A) (r : list B) :
  length r = length l1 -> combine (l1 ++ l2) r = combine l1 r.
Proof.
  revert r; induction l1 as [|a l1 IH]; intros [|b r] H; cbn [length] in H; try discriminate.
  - destruct l2; reflexivity.
  - cbn [app combine]. f_equal. apply IH. lia.
Qed.

Lemma map_fst_combine_incl {A B} (l : list A) (r : list B) x : In x (map fst (combine l r)) -> In x l.
Proof.
  intros H. apply in_map_iff in H. destruct H as ([a b] & Heq & Hin). cbn [fst] in Heq. subst a.
  eapply in_combine_l; exact Hin.
Qed.

Lemma sequence_map_total {A B} (f : A -> option B) (P : A -> B -> Prop) l :
  (forall a, In a l -> exists b, f a = Some b /\ P a b) ->
  exists r, sequence (map f l) = Some r /\ Forall2 P l r.
Proof.
  induction l as [|a l IH]; intros H.
  - exists []. split; [reflexivity | constructor].
  - destruct (H a (or_introl eq_refl)) as (b & Hb & HP).
    destruct IH as (r & Hr & HF); [intros a' Ha'; apply H; right; exact Ha'|].
    exists (b :: r). split; [|constructor; assumption].
    cbn [map sequence]. rewrite Hb. cbn [obind]. rewrite Hr. reflexivity.
Qed.

Lemma sequence_map_In {A B} (f : A -> option B) l r :
  sequence (map f l) = Some r -> forall b, In b r -> exists a, In a l /\ f a = Some b.
Proof.
  revert r; induction l as [|a l IH]; intros r H b Hb; cbn [map sequence] in H.
  - inversion H; subst. destruct Hb.
  - apply obind_some in H. destruct H as (b0 & Hb0 & H).
    apply obind_some in H. destruct H as (r0 & Hr0 & H). inversion H; subst.
    destruct Hb as [Hb|Hb].
    + subst b0. exists a. split; [left; reflexivity | exact Hb0].
    + destruct (IH r0 Hr0 b Hb) as (a' & Ha' & Hf). exists a'. split; [right; exact Ha' | exact Hf].
Qed.

Lemma Forall2_weaken {A B} (P Q : A -> B -> Prop) l r :
  (forall a b, P a b -> Q a b) -> Forall2 P l r -> Forall2 Q l r.
Proof. intros HPQ HF. induction HF; constructor; auto. Qed.

Lemma Forall2_In_r {A B} (P : A -> B -> Prop) l r :
  Forall2 P l r -> forall b, In b r -> exists a, In a l /\ P a b.
Proof.
  induction 1 as [|a b0 l r Hab HF IH]; intros b Hb; [destruct Hb|].
  destruct Hb as [Hb|Hb].
  - subst b0. exists a. split; [left; reflexivity | exact Hab].
  - destruct (IH b Hb) as (a' & Ha' & HP). exists a'. split; [right; exact Ha' | exact HP].
Qed.

(* ------------------------------------------------------------------------------------------------ *)
(* facts about the model's binding that hold for every successful call                               *)

Lemma assoc_expr_In x g v : assoc_expr x g = Some v -> In (x, v) g.
Proof.
  induction g as [|[a b] g IH]; cbn [assoc_expr]; intros H; [discriminate|].
  destruct (String.eqb x a) eqn:E.
  - apply String.eqb_eq in E. inversion H; subst. left; reflexivity.
  - right. apply IH; exact H.
Qed.

Lemma assoc_expr_skip x l r :
  ~ In x (map fst l) -> assoc_expr x (l ++ r) = assoc_expr x r.
Proof.
  induction l as [|[a b] l IH]; intros Hn; cbn [app assoc_expr]; [reflexivity|].
  cbn [map fst] in Hn. destruct (String.eqb x a) eqn:E.
  - apply String.eqb_eq in E. exfalso. apply Hn. left. symmetry; exact E.
  - apply IH. intros Hin. apply Hn. right; exact Hin.
Qed.

Lemma lookup_skip x (l r : env) :
  ~ In x (map fst l) -> lookup x (l ++ r) = lookup x r.
Proof.
  induction l as [|[a b] l IH]; intros Hn; cbn [app lookup]; [reflexivity|].
  cbn [map fst] in Hn. destruct (String.eqb x a) eqn:E.
  - apply String.eqb_eq in E. exfalso. apply Hn. left. symmetry; exact E.
  - apply IH. intros Hin. apply Hn. right; exact Hin.
Qed.

Lemma bind_keywords_In ps kwn : forall kwv given0 g,
  bind_keywords ps given0 kwn kwv = Some g ->
  forall x v, In (x, v) g -> In (x, v) given0 \/ In v kwv.
Proof.
  induction kwn as [|[k|] kwn IH]; intros kwv given0 g Hb x v Hin; cbn [bind_keywords] in Hb.
  - inversion Hb; subst. left; exact Hin.
  - destruct kwv as [|v0 kwv]; [discriminate|].
    destruct (negb (existsb (String.eqb k) ps)); [discriminate|].
    destruct (existsb (fun kv => String.eqb k (fst kv)) given0); [discriminate|].
    destruct (IH kwv (given0 ++ [(k, v0)]) g Hb x v Hin) as [H|H].
    + apply in_app_or in H. destruct H as [H|[H|[]]]; [left; exact H|].
      inversion H; subst. right; left; reflexivity.
    + right; right; exact H.
  - discriminate.
Qed.

Lemma bind_lambda_call_length ps args kwn kwv given :
  bind_lambda_call ps args kwn kwv = Some given -> length given = length ps.
Proof.
  unfold bind_lambda_call. destruct (has_dup ps); [discriminate|].
  destruct (Nat.ltb (length ps) (length args)); [discriminate|].
  destruct (bind_keywords ps (combine ps args) kwn kwv) as [g|]; [|discriminate].
  destruct (negb (Nat.eqb (length g) (length ps))); [discriminate|].
  intros Hseq. change (omap (fun p => assoc_expr p g) ps = Some given) in Hseq.
  eapply omap_length; exact Hseq.
Qed.

Lemma bind_lambda_call_incl ps args kwn kwv given :
  bind_lambda_call ps args kwn kwv = Some given -> forall g, In g given -> In g (args ++ kwv).
Proof.
  unfold bind_lambda_call. destruct (has_dup ps); [discriminate|].
  destruct (Nat.ltb (length ps) (length args)); [discriminate|].
  destruct (bind_keywords ps (combine ps args) kwn kwv) as [g0|] eqn:Eg; [|discriminate].
  destruct (negb (Nat.eqb (length g0) (length ps))); [discriminate|].
  intros Hseq g Hg.
  destruct (sequence_map_In _ _ _ Hseq g Hg) as (p & _ & Hp).
  apply assoc_expr_In in Hp.
  destruct (bind_keywords_In _ _ _ _ _ Eg _ _ Hp) as [H|H]; apply in_or_app.
  - left. eapply in_combine_r; exact H.
  - right; exact H.
Qed.

(* with no keyword names the keyword values are never looked at (as in the semantics) *)
Lemma bind_lambda_call_nokw ps args kwv :
  bind_lambda_call ps args [] kwv = bind_lambda_call ps args [] [].
Proof. reflexivity. Qed.

(* ------------------------------------------------------------------------------------------------ *)
(* specification of the semantic binding                                                             *)

Lemma nodup_fst_filter {V} (p : string) (kws : list (string * V)) hit :
  filter (fun kv => String.eqb (fst kv) p) kws = [hit] ->
  NoDup (map fst (filter (fun kv => negb (String.eqb (fst kv) p)) kws)) ->
  NoDup (map fst kws).
Proof.
  induction kws as [|[k v] kws IH]; intros Hhit Hrest; [constructor|].
  cbn [filter fst] in Hhit, Hrest. cbn [map fst].
  destruct (String.eqb k p) eqn:E; cbn [negb] in Hrest.
  - (* this is the hit; no other entry is named p *)
    inversion Hhit as [[Hh Hnil]].
    pose proof (filter_nil_false _ _ Hnil) as Hno.
    rewrite filter_all_true in Hrest by (intros x Hx; rewrite (Hno x Hx); reflexivity).
    constructor; [|exact Hrest].
    intros Hin. apply in_map_iff in Hin. destruct Hin as (kv & Hk & Hkv).
    specialize (Hno kv Hkv). cbn beta in Hno. rewrite Hk, E in Hno. discriminate.
  - cbn [map fst] in Hrest. inversion Hrest as [|? ? Hnk Hnd]; subst.
    constructor; [|apply IH; assumption].
    intros Hin. apply Hnk. apply in_map_iff in Hin. destruct Hin as (kv & Hk & Hkv).
    apply in_map_iff. exists kv. split; [exact Hk|].
    apply filter_In. split; [exact Hkv|]. rewrite Hk, E. reflexivity.
Qed.

Lemma bind_kw_spec ps : forall kws E2,
  bind_kw ps kws = Some E2 ->
  map fst E2 = ps /\
  length kws = length ps /\
  NoDup (map fst kws) /\
  (forall k v, In (k, v) kws -> In k ps /\ lookup k E2 = Some v) /\
  (forall p, In p ps -> exists v, In (p, v) kws).
Proof.
  induction ps as [|p ps IH]; intros kws E2 H; cbn [bind_kw] in H.
  - destruct kws; [|discriminate]. inversion H; subst.
    split; [reflexivity|]. split; [reflexivity|]. split; [constructor|]. split; [intros k v [] | intros p []].
  - cbv zeta in H.
    destruct (filter (fun kv => String.eqb (fst kv) p) kws) as [|[k0 v0] [|? ?]] eqn:Ehit; try discriminate.
    destruct (bind_kw ps (filter (fun kv => negb (String.eqb (fst kv) p)) kws)) as [E1|] eqn:Erest; [|discriminate].
    cbn [option_map] in H. inversion H; subst E2; clear H.
    destruct (IH _ _ Erest) as (Hdom & Hlen & Hnd & Hin & Hall).
    assert (Hk0 : In (k0, v0) kws /\ k0 = p).
    { assert (Hi : In (k0, v0) (filter (fun kv => String.eqb (fst kv) p) kws)) by (rewrite Ehit; left; reflexivity).
      apply filter_In in Hi. destruct Hi as [Hi Heq]. cbn [fst] in Heq. apply String.eqb_eq in Heq. split; assumption. }
    destruct Hk0 as [Hk0 ->].
    split; [|split; [|split; [|split]]].
    + cbn [map fst]. f_equal. exact Hdom.
    + rewrite (filter_partition_length (fun kv => String.eqb (fst kv) p) kws), Ehit, Hlen. reflexivity.
    + eapply nodup_fst_filter; [exact Ehit | exact Hnd].
    + intros k v Hkv. cbn [lookup]. destruct (String.eqb k p) eqn:E.
      * apply String.eqb_eq in E. subst k. split; [left; reflexivity|].
        assert (Hi : In (p, v) (filter (fun kv => String.eqb (fst kv) p) kws)).
        { apply filter_In. split; [exact Hkv|]. cbn [fst]. apply String.eqb_refl. }
        rewrite Ehit in Hi. destruct Hi as [Hi|[]]. inversion Hi; subst. reflexivity.
      * assert (Hi : In (k, v) (filter (fun kv => negb (String.eqb (fst kv) p)) kws)).
        { apply filter_In. split; [exact Hkv|]. cbn [fst]. rewrite E. reflexivity. }
        destruct (Hin _ _ Hi) as [Hk Hl]. split; [right; exact Hk | exact Hl].
    + intros q [Hq|Hq].
      * subst q. exists v0. exact Hk0.
      * destruct (Hall q Hq) as (v & Hv). exists v. apply filter_In in Hv. apply Hv.
Qed.

Lemma bind_args_spec ps : forall vs kws E',
  bind_args ps vs kws = Some E' ->
  exists ps1 ps2 E2,
    ps = ps1 ++ ps2 /\ length ps1 = length vs /\
    (forall p, In p ps1 -> ~ In p (map fst kws)) /\
    E' = combine ps1 vs ++ E2 /\ bind_kw ps2 kws = Some E2.
Proof.
  induction ps as [|p ps IH]; intros vs kws E' H.
  - destruct vs as [|v vs]; cbn [bind_args] in H; [|discriminate].
    exists [], [], E'. repeat split; try reflexivity; try exact H. intros ? [].
  - destruct vs as [|v vs]; cbn [bind_args] in H.
    + exists [], (p :: ps), E'. repeat split; try reflexivity; try exact H. intros ? [].
    + destruct (existsb (fun kv => String.eqb (fst kv) p) kws) eqn:Eex; [discriminate|].
      destruct (bind_args ps vs kws) as [E1|] eqn:Eb; [|discriminate].
      cbn [option_map] in H. inversion H; subst E'; clear H.
      destruct (IH _ _ _ Eb) as (ps1 & ps2 & E2 & -> & Hlen & Hnk & -> & Hkw).
      exists (p :: ps1), ps2, E2. split; [reflexivity|]. split; [cbn [length]; lia|].
      split; [|split; [reflexivity | exact Hkw]].
      intros q [Hq|Hq]; [|apply Hnk; exact Hq]. subst q.
      intros Hin. apply in_map_iff in Hin. destruct Hin as (kv & Hk & Hkv).
      assert (Ht : existsb (fun kv => String.eqb (fst kv) p) kws = true).
      { apply existsb_exists. exists kv. split; [exact Hkv|]. rewrite Hk. apply String.eqb_refl. }
      rewrite Ht in Eex. discriminate.
Qed.

Lemma bind_args_dom ps vs kws E0 : bind_args ps vs kws = Some E0 -> map fst E0 = ps.
Proof.
  intros H. destruct (bind_args_spec _ _ _ _ H) as (ps1 & ps2 & E2 & -> & Hlen & _ & -> & Hkw).
  destruct (bind_kw_spec _ _ _ Hkw) as (Hdom & _).
  rewrite map_app, Hdom. f_equal.
  clear - Hlen. revert vs Hlen. induction ps1 as [|a l IH]; intros [|v vs] Hlen; cbn [length] in Hlen; try discriminate.
  - reflexivity.
  - cbn [combine map fst]. f_equal. apply IH. lia.
Qed.

Lemma zip_kw_spec kwn : forall kvs kws,
  zip_kw kwn kvs = Some kws -> kwn = map (fun kv => Some (fst kv)) kws /\ kvs = map snd kws.
Proof.
  induction kwn as [|[k|] kwn IH]; intros [|v kvs] kws H; cbn [zip_kw] in H; try discriminate.
  - inversion H; subst. split; reflexivity.
  - destruct (zip_kw kwn kvs) as [r|] eqn:Ez; [|discriminate]. cbn [option_map] in H. inversion H; subst kws.
    destruct (IH _ _ Ez) as [-> ->]. split; reflexivity.
Qed.

(* ------------------------------------------------------------------------------------------------ *)
(* the model follows the semantics                                                                   *)

Section Bind.
  Variable ev : expr -> option value.

  (* the model's keyword loop succeeds on keywords that are parameters, pairwise distinct and not yet given *)
  Lemma bind_keywords_ok ps (kws : list (string * value)) : forall kwv given0,
    length kwv = length kws ->
    (forall k, In k (map fst kws) -> In k ps) ->
    NoDup (map fst kws) ->
    (forall k, In k (map fst kws) -> ~ In k (map fst given0)) ->
    bind_keywords ps given0 (map (fun kv => Some (fst kv)) kws) kwv
    = Some (given0 ++ combine (map fst kws) kwv).
  Proof.
    induction kws as [|[k v] kws IH]; intros kwv given0 Hlen Hps Hnd Hfresh.
    - cbn [map bind_keywords combine]. rewrite app_nil_r. reflexivity.
    - destruct kwv as [|e kwv]; cbn [length] in Hlen; [discriminate|].
      cbn [map fst] in *. cbn [bind_keywords combine].
      assert (Hk : existsb (String.eqb k) ps = true) by (apply existsb_eqb_In; apply Hps; left; reflexivity).
      rewrite Hk. cbn [negb].
      assert (Hg : existsb (fun kv => String.eqb k (fst kv)) given0 = false).
      { destruct (existsb (fun kv => String.eqb k (fst kv)) given0) eqn:Ex; [|reflexivity].
        apply existsb_exists in Ex. destruct Ex as (kv & Hkv & Heq). apply String.eqb_eq in Heq.
        exfalso. apply (Hfresh k (or_introl eq_refl)). apply in_map_iff. exists kv. split; [symmetry; exact Heq | exact Hkv]. }
      rewrite Hg. inversion Hnd as [|? ? Hnk Hnd']; subst.
      rewrite IH.
      + rewrite <- app_assoc. reflexivity.
      + lia.
      + intros k' Hk'. apply Hps. right; exact Hk'.
      + exact Hnd'.
      + intros k' Hk' Hin. rewrite map_app in Hin. apply in_app_or in Hin. destruct Hin as [Hin|[Hin|[]]].
        * apply (Hfresh k' (or_intror Hk')). exact Hin.
        * cbn [fst] in Hin. subst k'. apply Hnk. exact Hk'.
  Qed.

  (* a positionally bound parameter: model and semantics both take the first match *)
  Lemma assoc_positional p ps1 : forall args vs X (Y : env),
    Forall2 (fun e v => ev e = Some v) args vs -> length ps1 = length args -> In p ps1 ->
    exists g w, assoc_expr p (combine ps1 args ++ X) = Some g /\ lookup p (combine ps1 vs ++ Y) = Some w /\
                ev g = Some w /\ In g args.
  Proof.
    induction ps1 as [|q ps1 IH]; intros args vs X Y HF Hlen Hin; [destruct Hin|].
    destruct HF as [|a v args vs Hav HF]; cbn [length] in Hlen; [discriminate|].
    cbn [combine app assoc_expr lookup]. destruct (String.eqb p q) eqn:E.
    - exists a, v. repeat split; try reflexivity; [exact Hav | left; reflexivity].
    - destruct Hin as [Hin|Hin]; [subst q; rewrite String.eqb_refl in E; discriminate|].
      destruct (IH args vs X Y HF) as (g & w & Hg & Hw & Hgw & Hga); [lia | exact Hin|].
      exists g, w. repeat split; try assumption. right; exact Hga.
  Qed.

  (* a keyword-bound parameter *)
  Lemma assoc_keyword p v (kws : list (string * value)) : forall kwv,
    Forall2 (fun e w => ev e = Some w) kwv (map snd kws) -> NoDup (map fst kws) -> In (p, v) kws ->
    exists g, assoc_expr p (combine (map fst kws) kwv) = Some g /\ ev g = Some v /\ In g kwv.
  Proof.
    induction kws as [|[k v1] kws IH]; intros kwv HF Hnd Hin; [destruct Hin|].
    cbn [map fst snd] in HF, Hnd. inversion HF as [|e w kwv' ? He HF']; subst.
    inversion Hnd as [|? ? Hnk Hnd']; subst.
    cbn [map fst combine assoc_expr]. destruct (String.eqb p k) eqn:E.
    - apply String.eqb_eq in E. subst k. destruct Hin as [Hin|Hin].
      + inversion Hin; subst. exists e. repeat split; [exact He | left; reflexivity].
      + exfalso. apply Hnk. apply in_map_iff. exists (p, v). split; [reflexivity | exact Hin].
    - destruct Hin as [Hin|Hin]; [inversion Hin; subst; rewrite String.eqb_refl in E; discriminate|].
      destruct (IH kwv' HF' Hnd' Hin) as (g & Hg & Hgv & Hgk).
      exists g. repeat split; try assumption. right; exact Hgk.
  Qed.

  (* keyword case *)
  Lemma bind_args_given_kw ps args kwn kwv vs kvs kws E' :
    has_dup ps = false ->
    omap ev args = Some vs -> omap ev kwv = Some kvs -> zip_kw kwn kvs = Some kws ->
    bind_args ps vs kws = Some E' ->
    exists given, bind_lambda_call ps args kwn kwv = Some given /\
      Forall2 (fun p g => exists w, ev g = Some w /\ lookup p E' = Some w) ps given /\
      (forall g, In g given -> In g (args ++ kwv)).
  Proof.
    intros Hdup Hargs Hkwv Hzip Hbind.
    pose proof (proj1 (has_dup_false_NoDup ps) Hdup) as Hnd.
    destruct (bind_args_spec _ _ _ _ Hbind) as (ps1 & ps2 & E2 & Hps & Hlen1 & Hnk & HE' & Hkw).
    destruct (bind_kw_spec _ _ _ Hkw) as (_ & Hlen2 & Hndk & Hkin & Hkall).
    destruct (zip_kw_spec _ _ _ Hzip) as [Hkwn Hkvs].
    pose proof (omap_length _ _ _ Hargs) as Hla.
    pose proof (omap_length _ _ _ Hkwv) as Hlk.
    assert (HFa : Forall2 (fun e v => ev e = Some v) args vs).
    { eapply omap_Forall2; [|exact Hargs]. apply Forall_forall. intros x _ y Hy; exact Hy. }
    assert (HFk : Forall2 (fun e v => ev e = Some v) kwv (map snd kws)).
    { rewrite <- Hkvs. eapply omap_Forall2; [|exact Hkwv]. apply Forall_forall. intros x _ y Hy; exact Hy. }
    assert (Hlkw : length kwv = length kws) by (rewrite <- Hlk, Hkvs, map_length; reflexivity).
    subst ps E' kwn.
    assert (Hdisj : forall p, In p ps1 -> In p ps2 -> False).
    { clear - Hnd. induction ps1 as [|a l IH]; intros p H1 H2; [destruct H1|].
      cbn [app] in Hnd. inversion Hnd as [|? ? Hna Hnd']; subst. destruct H1 as [H1|H1].
      - subst a. apply Hna. apply in_or_app. right; exact H2.
      - eapply IH; eassumption. }
    assert (Hcomb : combine (ps1 ++ ps2) args = combine ps1 args) by (apply combine_app_exact; lia).
    set (full := combine ps1 args ++ combine (map fst kws) kwv).
    assert (Hbk : bind_keywords (ps1 ++ ps2) (combine (ps1 ++ ps2) args) (map (fun kv => Some (fst kv)) kws) kwv
                  = Some full).
    { rewrite Hcomb. apply bind_keywords_ok.
      - exact Hlkw.
      - intros k Hk. apply in_map_iff in Hk. destruct Hk as ([k' v'] & Heq & Hk). cbn [fst] in Heq. subst k'.
        apply in_or_app. right. apply (Hkin _ _ Hk).
      - exact Hndk.
      - intros k Hk Hin. apply map_fst_combine_incl in Hin.
        apply in_map_iff in Hk. destruct Hk as ([k' v'] & Heq & Hk). cbn [fst] in Heq. subst k'.
        apply (Hdisj k Hin). apply (Hkin _ _ Hk). }
    assert (Hfl : length full = length (ps1 ++ ps2)).
    { unfold full. rewrite !app_length, !combine_length, map_length. lia. }
    assert (Hper : forall p, In p (ps1 ++ ps2) -> exists g, assoc_expr p full = Some g /\
               ((exists w, ev g = Some w /\ lookup p (combine ps1 vs ++ E2) = Some w) /\ In g (args ++ kwv))).
    { intros p Hp. apply in_app_or in Hp. destruct Hp as [Hp|Hp].
      - destruct (assoc_positional p ps1 args vs (combine (map fst kws) kwv) E2 HFa) as (g & w & Hg & Hw & Hgw & Hga);
          [lia | exact Hp|].
        exists g. split; [exact Hg|]. split; [exists w; split; assumption | apply in_or_app; left; exact Hga].
      - destruct (Hkall p Hp) as (v & Hv).
        destruct (assoc_keyword p v kws kwv HFk Hndk Hv) as (g & Hg & Hgv & Hgk).
        assert (Hn1 : ~ In p ps1) by (intros H1; exact (Hdisj p H1 Hp)).
        exists g. split; [|split; [exists v; split; [exact Hgv|] | apply in_or_app; right; exact Hgk]].
        + unfold full. rewrite assoc_expr_skip; [exact Hg|]. intros Hin. apply Hn1. eapply map_fst_combine_incl; exact Hin.
        + rewrite lookup_skip; [apply (Hkin _ _ Hv)|]. intros Hin. apply Hn1. eapply map_fst_combine_incl; exact Hin. }
    destruct (sequence_map_total (fun p => assoc_expr p full) _ _ Hper) as (given & Hseq & HF).
    exists given. split; [|split].
    - unfold bind_lambda_call. rewrite Hdup.
      assert (Hlt : Nat.ltb (length (ps1 ++ ps2)) (length args) = false) by (apply Nat.ltb_ge; rewrite app_length; lia).
      rewrite Hlt, Hbk, Hfl, Nat.eqb_refl. cbn [negb]. exact Hseq.
    - eapply Forall2_weaken; [|exact HF]. intros p g [H _]; exact H.
    - intros g Hg. destruct (Forall2_In_r _ _ _ HF g Hg) as (p & _ & _ & H). exact H.
  Qed.

  (* no-keyword case: the semantics ignores kwv when kwn = [] and so does bind_keywords *)
  Lemma bind_args_given_pos ps args kwv vs E' :
    has_dup ps = false ->
    omap ev args = Some vs -> bind_args ps vs [] = Some E' ->
    exists given, bind_lambda_call ps args [] kwv = Some given /\
      Forall2 (fun p g => exists w, ev g = Some w /\ lookup p E' = Some w) ps given /\
      (forall g, In g given -> In g args).
  Proof.
    intros Hdup Hargs Hbind.
    destruct (bind_args_given_kw ps args [] [] vs [] [] E' Hdup Hargs eq_refl eq_refl Hbind) as (given & Hb & HF & Hin).
    exists given. split; [rewrite bind_lambda_call_nokw; exact Hb|]. split; [exact HF|].
    intros g Hg. specialize (Hin g Hg). rewrite app_nil_r in Hin. exact Hin.
  Qed.
End Bind.

(* ------------------------------------------------------------------------------------------------ *)
(* a concrete instance: f(1, c=3, b=2) against lambda a, b, c; names evaluate to themselves as strings *)

Definition ev_demo (e : expr) : option value :=
  match e with Name x => Some (VStr x) | _ => None end.

Example bind_demo_sem :
  has_dup ["a"; "b"; "c"] = false /\
  omap ev_demo [Name "x"] = Some [VStr "x"] /\
  omap ev_demo [Name "z"; Name "y"] = Some [VStr "z"; VStr "y"] /\
  zip_kw [Some "c"; Some "b"] [VStr "z"; VStr "y"] = Some [("c", VStr "z"); ("b", VStr "y")] /\
  bind_args ["a"; "b"; "c"] [VStr "x"] [("c", VStr "z"); ("b", VStr "y")]
  = Some [("a", VStr "x"); ("b", VStr "y"); ("c", VStr "z")] /\
  bind_lambda_call ["a"; "b"; "c"] [Name "x"] [Some "c"; Some "b"] [Name "z"; Name "y"]
  = Some [Name "x"; Name "y"; Name "z"].
Proof. repeat split; vm_compute; reflexivity. Qed.

Example bind_demo_pos :
  bind_args ["a"; "b"] [VStr "x"; VStr "y"] [] = Some [("a", VStr "x"); ("b", VStr "y")] /\
  bind_lambda_call ["a"; "b"] [Name "x"; Name "y"] [] [Name "ignored"] = Some [Name "x"; Name "y"].
Proof. split; vm_compute; reflexivity. Qed.

(* Not claimed here: the converse direction (the model can bind a call whose arguments do not evaluate), and
   any statement about calls that the semantics refuses to bind. *)

Print Assumptions bind_lambda_call_length.
Print Assumptions bind_lambda_call_incl.
Print Assumptions bind_args_dom.
Print Assumptions bind_args_given_pos.
Print Assumptions bind_args_given_kw.

(* C13: the constant-type gate (util_ast.check_ast) and the entry-point table. *)
From Coq Require Import Ascii String List ZArith Bool Lia.
From FA.Base Require Import PyAst Induct Value.
From FA.Gen Require Import TablesUtil TablesStream.
From FA.Model Require Import Literal.
Import ListNotations.

Lemma kind_legal_spec k :
  kind_legal k = true <-> In k [KStr; KInt; KFloat; KBool; KComplex; KBytes; KModule].
Proof.
  destruct k; vm_compute; split; intros H; try discriminate; auto 10;
    repeat (destruct H as [H | H]; try discriminate H); try contradiction.
Qed.

Lemma const_legal_spec c : const_legal c = true <-> transportable c.
Proof. unfold const_legal, transportable. apply kind_legal_spec. Qed.

Definition check_all : list expr -> bool :=
  fix all (l : list expr) : bool := match l with [] => true | x :: xs => check_ast x && all xs end.
Definition consts_all : list expr -> list const :=
  fix cl (l : list expr) : list const := match l with [] => [] | x :: xs => consts x ++ cl xs end.

Lemma check_all_spec l :
  Forall (fun e => check_ast e = true <-> Forall transportable (consts e)) l ->
  (check_all l = true <-> Forall transportable (consts_all l)).
Proof.
  induction 1 as [| x xs Hx _ IH]; cbn [check_all consts_all].
  - split; auto.
  - rewrite andb_true_iff, Forall_app, Hx, IH. reflexivity.
Qed.

Theorem check_ast_gate e : check_ast e = true <-> Forall transportable (consts e).
Proof.
  induction e using expr_ind'; cbn [check_ast consts];
    fold check_all; fold consts_all;
    repeat match goal with
           | H : Forall _ ?l |- _ => apply check_all_spec in H
           end;
    repeat rewrite andb_true_iff; repeat rewrite Forall_app;
    try (split; [auto | auto]; fail);
    try tauto.
  - (* Const *) rewrite const_legal_spec. split; intros H; [constructor; auto | inversion H; auto].
Qed.

(* the gate refuses exactly: None, Ellipsis and every captured object that is not a module *)
Lemma const_legal_cases c :
  const_legal c = match c with
                  | CNone | CEllipsis => false
                  | CObj k _ => String.eqb k "module"
                  | _ => true
                  end.
Proof. destruct c; try reflexivity. unfold const_legal; cbn [kind_of_const]. destruct (String.eqb kind "module"); reflexivity. Qed.

(* Basic facts about the type-follower model (Model/TypeFollow.v) shared by the C07-C10 proofs:
   inversion of [bind], one unfolding equation of [follow_x] per node class (so that proofs never
   [simpl] the whole transformer), list lemmas. *)
From FA.Base Require Import PyAst Value Induct Traverse.
From FA.Gen Require Import TablesUtil TablesTypes.
From FA.Model Require Import TypeDefs TypeFollow.

Lemma bind_ok {A B} (x : tres A) (f : A -> tres B) b :
  bind x f = Ok b -> exists a, x = Ok a /\ f a = Ok b.
Proof. destruct x; cbn; intros H; try discriminate. eauto. Qed.

Lemma bind_refuse {A B} (x : tres A) (f : A -> tres B) r :
  bind x f = Refuse r -> x = Refuse r \/ exists a, x = Ok a /\ f a = Refuse r.
Proof. destruct x; cbn; intros H; try discriminate; [right; eauto | left; congruence]. Qed.

Lemma bind_crash {A B} (x : tres A) (f : A -> tres B) k :
  bind x f = Crash k -> x = Crash k \/ exists a, x = Ok a /\ f a = Crash k.
Proof. destruct x; cbn; intros H; try discriminate; [right; eauto | left; congruence]. Qed.

(* the table flags the fixed algorithms rest on (regenerated from the source on every run) *)
Lemma fill_increments_on : fill_increments = true. Proof. reflexivity. Qed.
Lemma unary_uses_lookup_on : unary_uses_lookup = true. Proof. reflexivity. Qed.
Lemma param_call_guarded_on : param_call_guarded = true. Proof. reflexivity. Qed.
Lemma fill_skipped_params_are : fill_skipped_params = ["self"; "known_types"]. Proof. reflexivity. Qed.

Section Equations.
  Variable W : world.
  Variable G : tenv.
  Notation fx := (follow_x W G).
  Notation fl := (follow_list_with (follow_x W G)).
  Notation nl := (nested_args_with (follow_x W) G).

  Lemma fx_Name x : fx (Name x) = Ok (Name x, name_type W G x, [], []). Proof. reflexivity. Qed.
  Lemma fx_Const c : fx (Const c) = Ok (Const c, const_type c, [], []). Proof. reflexivity. Qed.
  Lemma fx_Raw c : fx (Raw c) = Ok (Raw c, TAny, [], []). Proof. reflexivity. Qed.
  Lemma fx_Lambda ps b : fx (Lambda ps b) = Ok (Lambda ps b, TCallable, [], []). Proof. reflexivity. Qed.
  Lemma fx_Attr v a :
    fx (Attr v a) = bind (fx v) (fun '(v', tv, aux, ev) =>
                    bind (attr_type W a v' tv aux) (fun t => Ok (Attr v' a, t, [], ev))).
  Proof. reflexivity. Qed.
  Lemma fx_Subscript v s :
    fx (Subscript v s) =
      bind (fx v) (fun '(v', tv, aux, ev1) =>
      bind (fx s) (fun '(s', _, _, ev2) =>
      bind (subscript_type W v' tv aux s') (fun t => Ok (Subscript v' s', t, [], ev1 ++ ev2)))).
  Proof. reflexivity. Qed.
  Lemma fx_UnaryOp o x :
    fx (UnaryOp o x) =
      bind (fx x) (fun '(x', t, _, ev) =>
        if unary_uses_lookup || negb (no_entry_shape x' t) then Ok (UnaryOp o x', unary_type o t, [], ev) else Crash CkKey).
  Proof. reflexivity. Qed.
  Lemma fx_BinOp o l r :
    fx (BinOp o l r) =
      bind (fx l) (fun '(l', tl, _, ev1) =>
      bind (fx r) (fun '(r', tr, _, ev2) => Ok (BinOp o l' r', binop_type o tl tr, [], ev1 ++ ev2))).
  Proof. reflexivity. Qed.
  Lemma fx_BoolOp o es :
    fx (BoolOp o es) = bind (fl es) (fun '(es', _, ev) => Ok (BoolOp o es', TBool, [], ev)).
  Proof. reflexivity. Qed.
  Lemma fx_Compare l ops rs :
    fx (Compare l ops rs) =
      bind (fx l) (fun '(l', _, _, ev1) =>
      bind (fl rs) (fun '(rs', _, ev2) => Ok (Compare l' ops rs', TBool, [], ev1 ++ ev2))).
  Proof. reflexivity. Qed.
  Lemma fx_IfExp c t f :
    fx (IfExp c t f) =
      bind (fx c) (fun '(c', _, _, ev1) =>
      bind (fx t) (fun '(t', ty1, _, ev2) =>
      bind (fx f) (fun '(f', ty2, _, ev3) =>
      bind (ifexp_type ty1 ty2) (fun ty => Ok (IfExp c' t' f', ty, [], ev1 ++ ev2 ++ ev3))))).
  Proof. reflexivity. Qed.
  Lemma fx_Tuple es : fx (Tuple es) = bind (fl es) (fun '(es', ts, ev) => Ok (Tuple es', TAny, ts, ev)).
  Proof. reflexivity. Qed.
  Lemma fx_List es : fx (List es) = bind (fl es) (fun '(es', _, ev) => Ok (List es', TAny, [], ev)).
  Proof. reflexivity. Qed.
  Lemma fx_Dict ks vs :
    fx (Dict ks vs) =
      bind (fl ks) (fun '(ks', _, ev1) =>
      bind (fl vs) (fun '(vs', tvs, ev2) =>
      bind (dict_type ks' tvs) (fun t => Ok (Dict ks' vs', t, tvs, ev1 ++ ev2)))).
  Proof. reflexivity. Qed.
  Lemma fx_ListComp x gs :
    fx (ListComp x gs) =
      bind (fx x) (fun '(x', _, _, ev1) =>
      bind (fl gs) (fun '(gs', _, ev2) => Ok (ListComp x' gs', TAny, [], ev1 ++ ev2))).
  Proof. reflexivity. Qed.
  Lemma fx_GenExp x gs :
    fx (GenExp x gs) =
      bind (fx x) (fun '(x', _, _, ev1) =>
      bind (fl gs) (fun '(gs', _, ev2) => Ok (GenExp x' gs', TAny, [], ev1 ++ ev2))).
  Proof. reflexivity. Qed.
  Lemma fx_CompFor t i ifs a :
    fx (CompFor t i ifs a) =
      bind (fx t) (fun '(t', _, _, ev1) =>
      bind (fx i) (fun '(i', _, _, ev2) =>
      bind (fl ifs) (fun '(ifs', _, ev3) => Ok (CompFor t' i' ifs' a, TAny, [], ev1 ++ ev2 ++ ev3)))).
  Proof. reflexivity. Qed.
  Lemma fx_Other cls ats cs :
    fx (Other cls ats cs) = bind (fl cs) (fun '(cs', _, ev) => Ok (Other cls ats cs', TAny, [], ev)).
  Proof. reflexivity. Qed.

  Lemma fx_Call_method v a args kwn kwv :
    fx (Call (Attr v a) args kwn kwv) =
      bind (fx v) (fun '(v', tv, aux, ev0) =>
      bind (attr_type W a v' tv aux) (fun _ =>
      bind (fl args) (fun '(args', _, ev1) =>
      bind (fl kwv) (fun '(kwv', _, ev2) =>
      bind (process_method_call W v' tv a (nl args args') kwn (nl kwv kwv')) (fun '(node, t, ev3) =>
        Ok (node, t, [], ev0 ++ ev1 ++ ev2 ++ ev3)))))).
  Proof. reflexivity. Qed.

  Lemma fx_Call_param v a s args kwn kwv :
    fx (Call (Subscript (Attr v a) s) args kwn kwv) =
      bind (fx v) (fun '(v', tv, aux, ev0) =>
      bind (attr_type W a v' tv aux) (fun ta =>
      bind (fx s) (fun '(s', _, _, ev0') =>
      bind (subscript_type W (Attr v' a) ta [] s') (fun _ =>
      bind (fl args) (fun '(args', _, ev1) =>
      bind (fl kwv) (fun '(kwv', _, ev2) =>
        if is_any tv && param_call_guarded
        then Ok (Call (Subscript (Attr v' a) s') args' kwn kwv', TAny, [], ev0 ++ ev0' ++ ev1 ++ ev2)
        else bind (process_parameterized W v' tv a s' args' kwn kwv') (fun '(node, t, ev3) =>
               Ok (node, t, [], ev0 ++ ev0' ++ ev1 ++ ev2 ++ ev3)))))))).
  Proof. reflexivity. Qed.

  Lemma fx_Call_lambda ps b args kwn kwv :
    fx (Call (Lambda ps b) args kwn kwv) =
      bind (fl args) (fun '(args', ts, ev1) =>
      bind (fl kwv) (fun '(kwv', _, ev2) =>
        if called_ok ps args kwn kwv
        then bind (follow_x W (bind_params ps ts G) b) (fun '(b', tb, _, ev3) =>
               Ok (Call (Lambda ps b') args' kwn kwv', tb, [], ev1 ++ ev2 ++ ev3))
        else Ok (Call (Lambda ps b) args' kwn kwv', TAny, [], ev1 ++ ev2))).
  Proof. reflexivity. Qed.

  (* callee that is neither an attribute, nor a subscripted attribute, nor a lambda *)
  Definition plain_callee (f : expr) : Prop :=
    match f with Attr _ _ => False | Subscript (Attr _ _) _ => False | Lambda _ _ => False | _ => True end.

  (* the four kinds of callee *)
  Lemma callee_cases (f : expr) :
    (exists v a, f = Attr v a) \/ (exists v a s, f = Subscript (Attr v a) s) \/ (exists ps b, f = Lambda ps b) \/ plain_callee f.
  Proof.
    destruct f; try (right; right; right; exact I); try (left; eauto; fail); try (right; right; left; eauto; fail).
    match goal with |- context [plain_callee (Subscript ?x ?y)] => destruct x end;
      try (right; right; right; exact I).
    right; left; eauto.
  Qed.

  Lemma fx_Call_plain f args kwn kwv :
    plain_callee f ->
    fx (Call f args kwn kwv) =
      bind (fx f) (fun '(f', _, _, ev0) =>
      bind (fl args) (fun '(args', _, ev1) =>
      bind (fl kwv) (fun '(kwv', _, ev2) =>
        match f' with
        | Name x =>
            match find_func (w_ft W) x with
            | Some fn =>
                bind (process_function_call W fn args' kwn kwv') (fun '(node, t, ev3) =>
                  Ok (node, t, [], ev0 ++ ev1 ++ ev2 ++ ev3))
            | None => Ok (Call f' args' kwn kwv', TAny, [], ev0 ++ ev1 ++ ev2)
            end
        | _ => Ok (Call f' args' kwn kwv', TAny, [], ev0 ++ ev1 ++ ev2)
        end))).
  Proof.
    intros H. destruct f; try reflexivity; try contradiction.
    destruct f1; try reflexivity; contradiction.
  Qed.

  Lemma fl_nil : fl [] = Ok ([], [], []). Proof. reflexivity. Qed.
  Lemma fl_cons x xs :
    fl (x :: xs) = bind (fx x) (fun '(x', t, _, ev) =>
                   bind (fl xs) (fun '(xs', ts, evs) => Ok (x' :: xs', t :: ts, ev ++ evs))).
  Proof. reflexivity. Qed.
End Equations.

(* map aexpr over the annotated arguments gives back the visited arguments *)
Lemma nested_args_exprs rec G l l' :
  length l = length l' -> map aexpr (nested_args_with rec G l l') = l'.
Proof.
  revert l'. induction l as [|x xs IH]; intros [|x' xs'] H; cbn in *; try discriminate; try reflexivity.
  f_equal. apply IH. congruence.
Qed.

Lemma assoc2_In {A} x ks (vs : list A) v : assoc2 x ks vs = Some v -> In v vs.
Proof.
  revert vs. induction ks as [|k ks IH]; intros [|v' vs] H; cbn in H; try discriminate.
  destruct (String.eqb k x).
  - inversion H; subst. left; reflexivity.
  - right. eapply IH; eauto.
Qed.

Lemma find_func_name ft x fn : find_func ft x = Some fn -> f_name fn = x.
Proof.
  induction ft as [|f r IH]; cbn; intros H; try discriminate.
  destruct (String.eqb (f_name f) x) eqn:E.
  - inversion H; subst. apply String.eqb_eq; exact E.
  - auto.
Qed.

Lemma find_func_In ft x fn : find_func ft x = Some fn -> In fn ft.
Proof.
  induction ft as [|f r IH]; cbn; intros H; try discriminate.
  destruct (String.eqb (f_name f) x).
  - inversion H; subst. left; reflexivity.
  - right; auto.
Qed.

(* Basic facts about the type-follower model (Model/TypeFollow.v) shared by the C07-C10 proofs. *)
From FA.Base Require Import PyAst Value Induct.
From FA.Gen Require Import TablesUtil TablesTypes.
From FA.Model Require Import TypeDefs TypeFollow.

(* C07: the signature walk of _fill_in_default_arguments computes Python's Signature.bind + apply_defaults.

   [bind_full] (end of the file) is written independently of the walk, the way inspect describes binding: the
   positional arguments bind the first parameters in declaration order; every remaining parameter takes the keyword
   of its name (looked up in the call as written, no bookkeeping), else its default; the first parameter left without
   a value is the one reported missing; the call is acceptable when keywords are distinct and each names a remaining
   parameter, and there are not more positional arguments than parameters. *)
From FA.Base Require Import PyAst Value Induct.
From FA.Gen Require Import TablesUtil TablesTypes.
From FA.Model Require Import TypeDefs TypeFollow.
From FA.Proofs Require Import TypeFollowFacts.
From Coq Require Import Lia.

Definition eff (ps : list param) : list param := filter (fun p => negb (skipped (p_name p))) ps.

(* ---------- the walk, phase by phase ---------- *)

Section Walk.
  Context {A : Type}.
  Variable mk : const -> A.

  Definition lookup (kws : list (option string * A)) (n : string) : option A :=
    match find_keyword kws n with Some (a, _) => Some a | None => None end.
  Definition remove1 (kws : list (option string * A)) (n : string) : list (option string * A) :=
    match find_keyword kws n with Some (_, r) => r | None => kws end.

  (* what the walk does once the positional arguments are used up *)
  Fixpoint tail_fill (qs : list param) (args : list A) (kws : list (option string * A)) :=
    match qs with
    | [] => inl (args, kws)
    | q :: r =>
        match find_keyword kws (p_name q) with
        | Some (a, kws') => tail_fill r (args ++ [a]) kws'
        | None => match p_default q with
                  | Some d => tail_fill r (args ++ [mk d]) kws
                  | None => inr (p_name q)
                  end
        end
    end.

  Lemma fill_go_tail ps : forall i args kws,
    i <= length args ->
    fill_go mk ps i args kws = tail_fill (skipn (length args - i) (eff ps)) args kws.
  Proof.
    induction ps as [|p r IH]; intros i args kws Hi; cbn [fill_go eff filter].
    - rewrite skipn_nil. reflexivity.
    - destruct (skipped (p_name p)) eqn:Es; cbn [negb].
      + apply IH. exact Hi.
      + fold (eff r). unfold next_arg. rewrite fill_increments_on.
        destruct (Nat.leb (length args) i) eqn:E.
        * apply Nat.leb_le in E. assert (i = length args) by lia. subst i.
          rewrite Nat.sub_diag. cbn [skipn tail_fill].
          destruct (find_keyword kws (p_name p)) as [[a kws']|].
          -- rewrite IH by (rewrite app_length; cbn; lia).
             replace (length (args ++ [a]) - S (length args)) with 0 by (rewrite app_length; cbn; lia). reflexivity.
          -- destruct (p_default p).
             ++ rewrite IH by (rewrite app_length; cbn; lia).
                replace (length (args ++ [mk c]) - S (length args)) with 0 by (rewrite app_length; cbn; lia). reflexivity.
             ++ reflexivity.
        * apply Nat.leb_gt in E.
          replace (length args - i) with (S (length args - S i)) by lia. cbn [skipn].
          apply IH. lia.
  Qed.

  (* find_keyword in terms of names *)
  Lemma find_keyword_other kws n m a r :
    find_keyword kws n = Some (a, r) -> n <> m -> lookup r m = lookup kws m.
  Proof.
    unfold lookup. revert a r. induction kws as [|[k v] t IH]; cbn; intros a r H Hnm; [discriminate|].
    destruct (ostr_eqb k (Some n)) eqn:E.
    - inversion H; subst. destruct (ostr_eqb k (Some m)) eqn:E2.
      + apply ostr_eqb_eq in E. apply ostr_eqb_eq in E2. congruence.
      + destruct (find_keyword r m) as [[? ?]|]; reflexivity.
    - destruct (find_keyword t n) as [[a' r']|] eqn:Ef; [|discriminate]. inversion H; subst. cbn.
      destruct (ostr_eqb k (Some m)); [reflexivity|].
      specialize (IH _ _ eq_refl Hnm).
      destruct (find_keyword r' m) as [[? ?]|]; destruct (find_keyword t m) as [[? ?]|]; congruence.
  Qed.

  Definition pick (kws : list (option string * A)) (q : param) : option A :=
    match lookup kws (p_name q) with
    | Some a => Some a
    | None => match p_default q with Some d => Some (mk d) | None => None end
    end.

  Fixpoint first_unpicked (kws : list (option string * A)) (qs : list param) : option string :=
    match qs with
    | [] => None
    | q :: r => match pick kws q with Some _ => first_unpicked kws r | None => Some (p_name q) end
    end.

  Lemma pick_ext kws kws' qs :
    (forall q, In q qs -> lookup kws' (p_name q) = lookup kws (p_name q)) ->
    omap (pick kws') qs = omap (pick kws) qs /\ first_unpicked kws' qs = first_unpicked kws qs.
  Proof.
    induction qs as [|q r IH]; intros H; [split; reflexivity|].
    destruct IH as [IH1 IH2]; [intros q' Hq'; apply H; right; exact Hq'|].
    assert (Hq : pick kws' q = pick kws q) by (unfold pick; rewrite H by (left; reflexivity); reflexivity).
    split.
    - unfold omap in *. cbn [map sequence]. rewrite Hq, IH1. reflexivity.
    - cbn [first_unpicked]. rewrite Hq, IH2. reflexivity.
  Qed.

  Lemma tail_fill_closed qs : forall args kws,
    NoDup (map p_name qs) ->
    match omap (pick kws) qs with
    | Some vals => tail_fill qs args kws = inl (args ++ vals, fold_left remove1 (map p_name qs) kws)
    | None => exists p, first_unpicked kws qs = Some p /\ tail_fill qs args kws = inr p
    end.
  Proof.
    induction qs as [|q r IH]; intros args kws Hnd.
    - cbn. rewrite app_nil_r. reflexivity.
    - inversion Hnd as [|? ? Hnotin Hnd']; subst.
      unfold omap. cbn [map sequence tail_fill first_unpicked fold_left]. fold (omap (pick kws) r).
      unfold pick at 1 3. unfold lookup at 1 2. unfold remove1 at 2.
      destruct (find_keyword kws (p_name q)) as [[a kws']|] eqn:Ef.
      + cbn [obind].
        assert (Hext : forall q', In q' r -> lookup kws' (p_name q') = lookup kws (p_name q')).
        { intros q' Hq'. eapply find_keyword_other; [exact Ef|]. intros Heq. apply Hnotin. rewrite Heq.
          apply in_map. exact Hq'. }
        destruct (pick_ext kws kws' r Hext) as [Hp1 Hp2].
        specialize (IH (args ++ [a]) kws' Hnd'). rewrite Hp1 in IH.
        destruct (omap (pick kws) r) as [vals|]; cbn [obind].
        * rewrite IH. rewrite <- app_assoc. reflexivity.
        * destruct IH as (p & Hp & Ht). exists p. rewrite <- Hp2. split; assumption.
      + destruct (p_default q) as [d|]; cbn [obind].
        * specialize (IH (args ++ [mk d]) kws Hnd').
          destruct (omap (pick kws) r) as [vals|]; cbn [obind].
          -- rewrite IH. rewrite <- app_assoc. reflexivity.
          -- exact IH.
        * exists (p_name q). split; reflexivity.
  Qed.
End Walk.

(* ---------- the specification and the theorem ---------- *)

Section Spec.
  Context {A : Type}.
  Variable mk : const -> A.

  Inductive bind_result :=
   | BOk (values : list A)        (* one value per declared parameter, in declaration order *)
   | BMissing (p : string).       (* the first required parameter that has no value *)

  (* Signature.bind + apply_defaults, for a call Python accepts or rejects only for a missing argument *)
  Definition bind_full (ps : list param) (args : list A) (kws : list (option string * A)) : bind_result :=
    let rest := skipn (length args) (eff ps) in
    match omap (pick mk kws) rest with
    | Some vals => BOk (args ++ vals)
    | None => match first_unpicked mk kws rest with Some p => BMissing p | None => BMissing "" end
    end.

  (* the call shapes Python itself accepts (up to missing arguments): no surplus positional argument, keywords
     pairwise distinct, each naming a parameter not already given positionally *)
  Definition acceptable (ps : list param) (args : list A) (kws : list (option string * A)) : Prop :=
    length args <= length (eff ps) /\
    NoDup (map fst kws) /\
    Forall (fun k => exists n, k = Some n /\ In n (map p_name (skipn (length args) (eff ps)))) (map fst kws).

  Lemma find_keyword_names (kws : list (option string * A)) n :
    match find_keyword kws n with
    | Some (_, r) => exists l1 l2, map fst kws = l1 ++ Some n :: l2 /\ map fst r = l1 ++ l2 /\ ~ In (Some n) l1
    | None => ~ In (Some n) (map fst kws)
    end.
  Proof.
    induction kws as [|[k v] t IH]; cbn; [tauto|].
    destruct (ostr_eqb k (Some n)) eqn:E.
    - apply ostr_eqb_eq in E. subst. exists [], (map fst t). cbn. tauto.
    - assert (k <> Some n) by (intros ->; rewrite (proj2 (ostr_eqb_eq _ _) eq_refl) in E; discriminate).
      destruct (find_keyword t n) as [[a r]|].
      + destruct IH as (l1 & l2 & H1 & H2 & H3). exists (k :: l1), l2. cbn. rewrite H1, H2.
        repeat split; auto. intros [X|X]; auto.
      + intros [X|X]; auto.
  Qed.

  Lemma fold_remove_nil ns : forall (kws : list (option string * A)),
    NoDup (map fst kws) ->
    Forall (fun k => exists n, k = Some n /\ In n ns) (map fst kws) ->
    fold_left (remove1 (A:=A)) ns kws = [].
  Proof.
    induction ns as [|n ns IH]; intros kws Hnd Hall; cbn [fold_left].
    - destruct kws as [|[k v] t]; [reflexivity|]. inversion Hall as [|? ? (m & _ & []) _].
    - apply IH; unfold remove1; pose proof (find_keyword_names kws n) as Hf;
        destruct (find_keyword kws n) as [[a r]|].
      + destruct Hf as (l1 & l2 & H1 & H2 & H3). rewrite H2. rewrite H1 in Hnd.
        apply NoDup_remove_1 in Hnd. exact Hnd.
      + exact Hnd.
      + destruct Hf as (l1 & l2 & H1 & H2 & H3). rewrite H2. rewrite H1 in Hnd, Hall.
        pose proof (NoDup_remove_2 _ _ _ Hnd) as Hnot.
        apply Forall_forall. intros k Hk. rewrite Forall_forall in Hall.
        destruct (Hall k) as (m & -> & Hm).
        { apply in_app_or in Hk. apply in_or_app. destruct Hk; [left|right; right]; assumption. }
        exists m. split; [reflexivity|]. destruct Hm as [->|Hm]; [contradiction|exact Hm].
      + apply Forall_forall. intros k Hk. rewrite Forall_forall in Hall.
        destruct (Hall k Hk) as (m & -> & Hm). exists m. split; [reflexivity|].
        destruct Hm as [->|Hm]; [contradiction|exact Hm].
  Qed.

  Lemma NoDup_skipn {B} (l : list B) n : NoDup l -> NoDup (skipn n l).
  Proof.
    revert n. induction l as [|x xs IH]; intros [|n] H; cbn; auto. apply IH. inversion H; assumption.
  Qed.

  Theorem fill_is_bind_x (ps : list param) (args : list A) (kws : list (option string * A)) :
    NoDup (map p_name (eff ps)) -> acceptable ps args kws ->
    fill mk ps args kws =
      match bind_full ps args kws with
      | BOk values => inl (values, [])
      | BMissing p => inr p
      end.
  Proof.
    intros Hnd (Hlen & Hkd & Hkn). unfold fill, bind_full.
    rewrite fill_go_tail by lia. rewrite Nat.sub_0_r.
    set (rest := skipn (length args) (eff ps)) in *.
    assert (Hndr : NoDup (map p_name rest)).
    { unfold rest. rewrite <- skipn_map. apply NoDup_skipn. exact Hnd. }
    pose proof (tail_fill_closed mk rest args kws Hndr) as H.
    destruct (omap (pick mk kws) rest) as [vals|].
    - rewrite H. rewrite fold_remove_nil; auto.
    - destruct H as (p & Hp & Ht). rewrite Hp. exact Ht.
  Qed.

  (* the walk never touches the positional arguments the user wrote, whatever the call *)
  Theorem fill_keeps_positionals (ps : list param) (args : list A) (kws : list (option string * A)) a2 k2 :
    NoDup (map p_name (eff ps)) -> fill mk ps args kws = inl (a2, k2) -> firstn (length args) a2 = args.
  Proof.
    intros Hnd H. unfold fill in H. rewrite fill_go_tail in H by lia. rewrite Nat.sub_0_r in H.
    set (rest := skipn (length args) (eff ps)) in *.
    assert (Hndr : NoDup (map p_name rest)).
    { unfold rest. rewrite <- skipn_map. apply NoDup_skipn. exact Hnd. }
    pose proof (tail_fill_closed mk rest args kws Hndr) as Hc.
    destruct (omap (pick mk kws) rest) as [vals|].
    - rewrite Hc in H. inversion H; subst. rewrite firstn_app, Nat.sub_diag, firstn_all. cbn. apply app_nil_r.
    - destruct Hc as (p & _ & Ht). congruence.
  Qed.
End Spec.

(* the library's own operators: "self" and "known_types" are not parameters of the walk, so a call of
   Select / SelectMany / Where with its lambda keeps exactly the arguments the user wrote *)
Lemma own_operators_untouched_x {A} (mk : const -> A) (dflt : const) (lam : A) (kws : list (option string * A)) :
  fill mk [ {| p_name := "self"; p_default := None |}; {| p_name := "f"; p_default := None |};
            {| p_name := "known_types"; p_default := Some dflt |} ] [lam] kws = inl ([lam], kws).
Proof. reflexivity. Qed.

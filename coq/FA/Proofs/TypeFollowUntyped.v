(* C10: on a stream without type information the follower returns the expression it was given, or
   refuses for a designed reason; it never fails with an internal error.

   The statement is for EVERY class table and callback table (no class is ever consulted when the
   lambda parameter is typed Any), every table of registered functions that have neither defaults nor a
   processor and return a plain type (the library's own [abs]/[len]: Example [ft_default_plain]). *)
From FA.Base Require Import PyAst Value Induct Traverse.
From FA.Gen Require Import TablesUtil TablesTypes.
From FA.Model Require Import TypeDefs TypeFollow.
From FA.Proofs Require Import TypeFollowFacts.
From Coq Require Import Lia.

(* ---------- types that can arise: no class, no Iterable, no type variable ---------- *)

Fixpoint simple_ty (t : ty) : bool :=
  let all := fix all (l : list ty) : bool := match l with [] => true | x :: xs => simple_ty x && all xs end in
  match t with
  | TCls _ _ | TIter _ | TVar _ => false
  | TRecord _ ts => all ts
  | _ => true
  end.
Definition simple (t : ty) : Prop := simple_ty t = true.

Lemma simple_record ns ts : simple (TRecord ns ts) <-> Forall simple ts.
Proof.
  unfold simple; cbn. induction ts as [|x xs IH]; cbn.
  - split; auto.
  - rewrite andb_true_iff. split.
    + intros [H1 H2]. constructor; [exact H1 | apply IH; exact H2].
    + intros H. inversion H; subst. split; [assumption | apply IH; assumption].
Qed.

Lemma simple_nth ts i : Forall simple ts -> simple (nth i ts TAny).
Proof.
  intros H. revert i. induction H as [|x xs Hx _ IH]; intros [|i]; cbn; try reflexivity; auto.
Qed.

Lemma upd_field_simple n t l :
  simple t -> Forall simple (map snd l) -> Forall simple (map snd (upd_field n t l)).
Proof.
  intros Ht. induction l as [|[k v] r IH]; cbn; intros H.
  - constructor; auto.
  - inversion H; subst. destruct (String.eqb k n); cbn; constructor; auto.
Qed.

Lemma dedupe_from_simple ns : forall acc ts,
  Forall simple (map snd acc) -> Forall simple ts -> Forall simple (map snd (dedupe_from acc ns ts)).
Proof.
  induction ns as [|n r IH]; intros acc ts Ha Ht; cbn; [exact Ha|].
  destruct ts as [|t ts']; [exact Ha|]. inversion Ht; subst. apply IH; [apply upd_field_simple|]; assumption.
Qed.

Lemma dedupe_simple ns ts : Forall simple ts -> Forall simple (map snd (dedupe_last ns ts)).
Proof. intros H. apply dedupe_from_simple; [constructor | exact H]. Qed.

Lemma simple_not_cls t : simple t -> match t with TCls _ _ | TIter _ | TVar _ => False | _ => True end.
Proof. destruct t; cbn; intros H; try exact I; discriminate. Qed.

Section UtilSimple.
  Variable ct : classtab.

  Lemma get_inherited_simple t : simple t -> get_inherited ct t = TAny.
  Proof. destruct t; cbn; intros H; try reflexivity; discriminate. Qed.

  Lemma find_iterable_any n : find_iterable ct n TAny = TAny.
  Proof. destruct n; reflexivity. Qed.

  Lemma find_iterable_simple n t : simple t -> find_iterable ct n t = TAny.
  Proof.
    intros H. destruct n as [|n]; [reflexivity|]. cbn [find_iterable].
    destruct (is_any t); [reflexivity|].
    destruct t; cbn in *; try discriminate; try apply find_iterable_any.
  Qed.

  Lemma is_iterable_simple t : simple t -> is_iterable ct t = false.
  Proof. intros H. unfold is_iterable. rewrite find_iterable_simple by exact H. reflexivity. Qed.

  Lemma unwrap_iterable_simple t : simple t -> unwrap_iterable ct t = TAny.
  Proof. intros H. unfold unwrap_iterable. rewrite find_iterable_simple by exact H. reflexivity. Qed.

  Lemma get_method_simple t a : simple t -> get_method_and_class ct t a = None.
  Proof. destruct t; cbn; intros H; try reflexivity; discriminate. Qed.

  Lemma record_fields_simple t ns ts : simple t -> record_fields ct t = Some (ns, ts) -> Forall simple ts.
  Proof.
    destruct t; cbn; intros H E; try discriminate.
    inversion E; subst. apply simple_record in H. exact H.
  Qed.
End UtilSimple.

(* ---------- designed refusals ---------- *)

(* [e] itself is a place where the refusal [r] is designed to happen *)
Definition site (ft : functab) (r : refusal) (e : expr) : Prop :=
  match r, e with
  | RIfExp, IfExp _ _ _ => True                                  (* conditional with incompatible branch types *)
  | RTupleIndex, Subscript (Tuple _) s =>                        (* non-constant / non-integer index into a tuple literal *)
      match s with Const (CInt _) | Const (CBool _) => False | _ => True end
  | RTupleRange, Subscript (Tuple es) (Const c) =>               (* constant index outside the tuple literal *)
      match c with
      | CInt z => ~ (- Z.of_nat (length es) <= z < Z.of_nat (length es))%Z
      | CBool b => ~ ((if b then 1 else 0) < Z.of_nat (length es))%Z
      | _ => False
      end
  | RDictKey, Attr (Dict ks _) a => ~ In (Const (CStr a)) ks     (* key the dictionary literal does not define *)
  | RRecordKey, Attr v _ => match v with Dict _ _ => False | _ => True end    (* field of a dictionary-typed value *)
  | RRecordKey, Subscript _ _ => True
  | RNotLiteral, Subscript _ s => literal_eval s = None          (* non-constant key into a dictionary-typed value *)
  | RMissingArg _, Call (Name x) _ _ _ => find_func ft x <> None (* registered function without its required argument *)
  | _, _ => False
  end.

Inductive within (P : expr -> Prop) : expr -> Prop :=
 | within_here e : P e -> within P e
 | within_child e c : In c (children e) -> within P c -> within P e.

Definition designed (ft : functab) (r : refusal) (e : expr) : Prop := within (site ft r) e.

(* ---------- the grammar of the statement ---------- *)

Definition is_str_const (e : expr) : bool := match e with Const (CStr _) => true | _ => false end.

Definition kw_names_param (ps : list param) (kwn : list (option string)) : bool :=
  existsb (fun k => existsb (fun p => ostr_eqb k (Some (p_name p))) ps) kwn.

(* the environment in which the grammar reads the body of an immediately called lambda: nothing is assumed of
   what its parameters are bound to (they hide the outer names and are not known to be untyped) *)
Definition shadow (ps : list string) (G : tenv) : tenv := bind_params ps (map (fun _ => TOpaque "parameter") ps) G.

Section Grammar.
  Variable W : world.

  (* receivers whose type is certainly unknown *)
  Fixpoint untyped_shape (G : tenv) (e : expr) : bool :=
    match e with
    | Name x => is_any (name_type W G x)
    | Attr u _ => untyped_shape G u
    | Subscript u _ => untyped_shape G u
    | _ => false
    end.

  (* a call of a registered function either has all its parameters positionally or names none of them
     by keyword (abs(x=...) is not valid Python for the builtins either) *)
  Definition fn_call_ok (x : string) (args : list expr) (kwn : list (option string)) : bool :=
    match find_func (w_ft W) x with
    | None => true
    | Some fn => Nat.leb (length (f_params fn)) (length args) || negb (kw_names_param (f_params fn) kwn)
    end.

  Fixpoint expr_grammar (G : tenv) (e : expr) {struct e} : bool :=
    let all := fix all (l : list expr) : bool := match l with [] => true | x :: xs => expr_grammar G x && all xs end in
    match e with
    | Name _ | Const _ | Raw _ => true
    | Lambda _ _ => true                        (* nested lambdas are not entered on an untyped object *)
    | Attr v _ => expr_grammar G v
    | Call f args kwn kwv =>
        expr_grammar G f && all args && all kwv && Nat.eqb (length kwn) (length kwv) &&
        match f with
        | Subscript (Attr v _) _ => untyped_shape G v          (* residual of F21, see Properties/C10.v *)
        | Name x => fn_call_ok x args kwn
        | Lambda ps b =>                                     (* an immediately called lambda that binds all its
                                                                parameters is followed (F45): its body is in the
                                                                grammar, the parameters hiding the outer names *)
            if called_ok ps args kwn kwv then expr_grammar (shadow ps G) b else true
        | _ => true
        end
    | UnaryOp _ x => expr_grammar G x
    | BinOp _ x y => expr_grammar G x && expr_grammar G y
    | BoolOp _ xs => all xs
    | Compare x _ xs => expr_grammar G x && all xs
    | IfExp c t f => expr_grammar G c && expr_grammar G t && expr_grammar G f
    | Tuple xs | List xs => all xs
    | Dict ks vs => forallb is_str_const ks && all vs && Nat.eqb (length ks) (length vs)   (* arbitrary string keys *)
    | Subscript v s => expr_grammar G v && expr_grammar G s
    | ListComp x gs | GenExp x gs => expr_grammar G x && all gs
    | CompFor t i fs _ => expr_grammar G t && expr_grammar G i && all fs
    | Other _ _ cs => all cs
    end.
End Grammar.

Lemma grammar_all W G (l : list expr) :
  (fix all (l : list expr) : bool := match l with [] => true | x :: xs => expr_grammar W G x && all xs end) l = true ->
  Forall (fun x => expr_grammar W G x = true) l.
Proof.
  induction l as [|x xs IH]; intros H; constructor.
  - apply andb_true_iff in H. tauto.
  - apply IH. apply andb_true_iff in H. tauto.
Qed.

(* ---------- registered functions of the untyped setting ---------- *)

Definition fn_plain (fn : func) : Prop :=
  f_proc fn = None /\ Forall (fun p => p_default p = None) (f_params fn) /\
  simple (match f_ret fn with Some t => t | None => TAny end).
Definition ft_plain (ft : functab) : Prop := Forall fn_plain ft.

Lemma find_keyword_none {A} (kws : list (option string * A)) name :
  existsb (fun k => ostr_eqb k (Some name)) (map fst kws) = false -> find_keyword kws name = None.
Proof.
  induction kws as [|[k v] r IH]; cbn; intros H; [reflexivity|].
  apply orb_false_iff in H. destruct H as [H1 H2]. rewrite H1. rewrite IH by exact H2. reflexivity.
Qed.

Lemma kw_names_param_false ps kwn p :
  kw_names_param ps kwn = false -> In p ps -> existsb (fun k => ostr_eqb k (Some (p_name p))) kwn = false.
Proof.
  unfold kw_names_param. induction kwn as [|k r IH]; cbn; intros H Hin; [reflexivity|].
  apply orb_false_iff in H. destruct H as [H1 H2].
  rewrite IH by assumption. rewrite orb_false_r.
  destruct (ostr_eqb k (Some (p_name p))) eqn:E; [|reflexivity].
  exfalso. assert (X : existsb (fun p0 => ostr_eqb k (Some (p_name p0))) ps = true).
  { apply existsb_exists. exists p. split; assumption. }
  congruence.
Qed.

(* no default and no matching keyword: the walk either leaves the call as it is or refuses *)
Lemma fill_go_plain {A} (mk : const -> A) ps :
  forall i args (kws : list (option string * A)),
    Forall (fun p => p_default p = None) ps ->
    (forall p, In p ps -> existsb (fun k => ostr_eqb k (Some (p_name p))) (map fst kws) = false) ->
    match fill_go mk ps i args kws with
    | inl (a2, k2) => a2 = args /\ k2 = kws
    | inr _ => True
    end.
Proof.
  induction ps as [|p r IH]; intros i args kws Hd Hk; cbn [fill_go].
  - split; reflexivity.
  - inversion Hd as [|? ? Hp Hr]; subst.
    destruct (skipped (p_name p)).
    + apply IH; [assumption | intros q Hq; apply Hk; right; assumption].
    + destruct (Nat.leb (length args) i).
      * rewrite find_keyword_none by (apply Hk; left; reflexivity). rewrite Hp. exact I.
      * apply IH; [assumption | intros q Hq; apply Hk; right; assumption].
Qed.

(* enough positional arguments: nothing to fill *)
Lemma fill_go_enough {A} (mk : const -> A) ps :
  forall i args (kws : list (option string * A)),
    i + length ps <= length args -> fill_go mk ps i args kws = inl (args, kws).
Proof.
  induction ps as [|p r IH]; intros i args kws H; cbn [fill_go]; [reflexivity|].
  cbn [length] in H.
  destruct (skipped (p_name p)).
  - apply IH. lia.
  - destruct (Nat.leb (length args) i) eqn:E.
    + apply Nat.leb_le in E. lia.
    + unfold next_arg. rewrite fill_increments_on. apply IH. lia.
Qed.

Lemma zip_unzip (kwn : list (option string)) (kwv : list expr) :
  length kwn = length kwv ->
  let kws := (fix z (ks : list (option string)) (vs : list expr) :=
                match ks, vs with k :: ks', v :: vs' => (k, v) :: z ks' vs' | _, _ => [] end) kwn kwv in
  map fst kws = kwn /\ map snd kws = kwv.
Proof.
  revert kwv. induction kwn as [|k ks IH]; intros [|v vs] H; cbn in *; try discriminate; [split; reflexivity|].
  destruct (IH vs) as [H1 H2]; [congruence|]. cbn in H1, H2. rewrite H1, H2. split; reflexivity.
Qed.

(* ---------- size of a sub-expression (the induction measure: a called lambda's body is followed in another
   environment) ---------- *)

Fixpoint tsizes (l : list expr) : nat := match l with [] => 0 | x :: xs => size x + tsizes xs end.

Lemma tsize_sizes e : size e = S (tsizes (children e)).
Proof.
  assert (Hs : forall l, (fix sizes (l : list expr) : nat :=
                            match l with [] => 0 | x :: xs => size x + sizes xs end) l = tsizes l).
  { induction l; simpl; auto. }
  assert (Happ : forall l1 l2, tsizes (l1 ++ l2) = tsizes l1 + tsizes l2).
  { induction l1; simpl; intros; auto. rewrite IHl1; lia. }
  destruct e; simpl; rewrite ?Hs; try rewrite (Hs kwv); try rewrite (Hs vs); rewrite ?Happ; simpl; lia.
Qed.

Lemma tsize_child e c : In c (children e) -> size c < size e.
Proof.
  intros H. rewrite (tsize_sizes e).
  assert (X : forall l, In c l -> size c <= tsizes l).
  { induction l; simpl; intros Hl; [contradiction|]. destruct Hl as [->|Hl]; [lia|]. apply IHl in Hl; lia. }
  apply X in H. lia.
Qed.

(* ---------- environments ---------- *)

Definition simple_env (G : tenv) : Prop := Forall (fun xt => simple (snd xt)) G.

(* whatever the grammar's environment [Gg] takes for untyped is untyped in the environment [G] of the follower *)
Definition env_le (W : world) (Gg G : tenv) : Prop :=
  forall x, is_any (name_type W Gg x) = true -> name_type W G x = TAny.

Lemma env_le_refl W G : env_le W G G.
Proof. intros x H. destruct (name_type W G x); try discriminate. reflexivity. Qed.

Lemma env_le_bind W Gg G ps : forall ts,
  env_le W Gg G -> length ps = length ts -> env_le W (shadow ps Gg) (bind_params ps ts G).
Proof.
  unfold shadow. induction ps as [|p ps IH]; intros [|t ts] Hle Hl; try discriminate; [exact Hle|].
  cbn [map bind_params]. intros x. unfold name_type. cbn [assoc].
  destruct (String.eqb p x); [discriminate|].
  apply (IH ts Hle). cbn in Hl. congruence.
Qed.

Lemma simple_env_bind G ps : forall ts,
  simple_env G -> Forall simple ts -> simple_env (bind_params ps ts G).
Proof.
  induction ps as [|p ps IH]; intros [|t ts] HG Hts; cbn [bind_params]; try exact HG.
  inversion Hts; subst. constructor; [assumption | apply IH; assumption].
Qed.

Section Untyped.
  Variable W : world.
  Variable Gg G : tenv.        (* the environment the grammar is read in, the environment of the follower *)
  Hypothesis Hft : ft_plain (w_ft W).
  Hypothesis HG : Forall (fun xt => simple (snd xt)) G.
  Hypothesis Hle : env_le W Gg G.
  Let ft := w_ft W.
  Notation fx := (follow_x W G).
  Notation fl := (follow_list_with (follow_x W G)).

  Definition aux_len (e : expr) (aux : list ty) : Prop :=
    match e with Tuple es => length aux = length es | _ => True end.

  Definition good (e : expr) (r : tres fres) : Prop :=
    match r with
    | Ok (e', t, aux, ev) => e' = e /\ ev = [] /\ simple t /\ Forall simple aux /\ aux_len e aux
    | Refuse r => designed ft r e
    | Crash _ => False
    end.

  Definition good_list (es : list expr) (r : tres (list expr * list ty * list event)) : Prop :=
    match r with
    | Ok (es', ts, ev) => es' = es /\ ev = [] /\ Forall simple ts /\ length ts = length es
    | Refuse r => exists x, In x es /\ designed ft r x
    | Crash _ => False
    end.

  Lemma good_list_intro es : Forall (fun x => good x (fx x)) es -> good_list es (fl es).
  Proof.
    induction 1 as [|x xs Hx _ IH]; [cbn; auto|].
    rewrite fl_cons. unfold good in Hx.
    destruct (fx x) as [[[[x' t] aux] ev]|r|k]; cbn [bind]; try contradiction.
    - destruct Hx as (-> & -> & Ht & _ & _).
      unfold good_list in IH. destruct (fl xs) as [[[xs' ts] evs]|r|k]; cbn [bind]; try contradiction.
      + destruct IH as (-> & -> & Hts & Hl). cbn. repeat split; auto.
      + destruct IH as (y & Hy & Hd). exists y. split; [right; assumption | assumption].
    - exists x. split; [left; reflexivity | assumption].
  Qed.

  Lemma designed_child r e c : In c (children e) -> designed ft r c -> designed ft r e.
  Proof. intros H1 H2. eapply within_child; eauto. Qed.

  Lemma name_type_simple x : simple (name_type W G x).
  Proof.
    unfold name_type. destruct (assoc x G) eqn:E.
    - clear -E HG. induction G as [|[k v] r IH]; cbn in E; [discriminate|].
      inversion HG; subst. destruct (String.eqb k x); [inversion E; subst; assumption | auto].
    - destruct (find_func (w_ft W) x); reflexivity.
  Qed.

  Lemma const_type_simple c : simple (const_type c).
  Proof. destruct c; reflexivity. Qed.

  (* step lemmas: one bind on a child *)
  Lemma step_child {B} (e c : expr) (k : fres -> tres B) (Q : tres B -> Prop) :
    In c (children e) ->
    good c (fx c) ->
    (forall r, designed ft r e -> Q (Refuse r)) ->
    (forall t aux, simple t -> Forall simple aux -> aux_len c aux -> fx c = Ok (c, t, aux, []) -> Q (k (c, t, aux, []))) ->
    Q (bind (fx c) k).
  Proof.
    intros Hin Hg Hr Hk. unfold good in Hg.
    destruct (fx c) as [[[[c' t] aux] ev]|r|kk] eqn:E; cbn [bind]; try contradiction.
    - destruct Hg as (-> & -> & Ht & Ha & Hl). apply Hk; auto.
    - apply Hr. eapply designed_child; eauto.
  Qed.

  Lemma step_list {B} (e : expr) (cs : list expr) (k : list expr * list ty * list event -> tres B) (Q : tres B -> Prop) :
    incl cs (children e) ->
    Forall (fun x => good x (fx x)) cs ->
    (forall r, designed ft r e -> Q (Refuse r)) ->
    (forall ts, Forall simple ts -> length ts = length cs -> Q (k (cs, ts, []))) ->
    Q (bind (fl cs) k).
  Proof.
    intros Hin Hg Hr Hk. pose proof (good_list_intro cs Hg) as H. unfold good_list in H.
    destruct (fl cs) as [[[cs' ts] ev]|r|kk]; cbn [bind]; try contradiction.
    - destruct H as (-> & -> & Hts & Hl). apply Hk; auto.
    - destruct H as (x & Hx & Hd). apply Hr. eapply designed_child; eauto.
  Qed.

  (* visit_Attribute on a simple-typed value *)
  Lemma attr_type_good v a tv aux :
    expr_grammar W Gg (Attr v a) = true -> simple tv -> Forall simple aux ->
    match attr_type W a v tv aux with
    | Ok t => simple t
    | Refuse r => site ft r (Attr v a)
    | Crash _ => False
    end.
  Proof.
    intros Hg Ht Ha. unfold attr_type.
    assert (Hrec : match record_fields (w_ct W) tv with
                   | Some (ns, ts) => match assoc2 a ns ts with Some t => Ok t | None => Refuse RRecordKey end
                   | None => Ok TAny
                   end = attr_type W a (Name "") tv aux) by reflexivity.
    destruct v; try (
      destruct (record_fields (w_ct W) tv) as [[ns ts]|] eqn:E; [|reflexivity];
      destruct (assoc2 a ns ts) eqn:E2; [|exact I];
      eapply Forall_forall; [eapply record_fields_simple; eauto | eapply assoc2_In; eauto]).
    (* dict literal *)
    cbn [expr_grammar] in Hg. repeat (apply andb_true_iff in Hg; destruct Hg as [Hg ?]).
    assert (Hk : forall i, exists l, key_index ks a i = Some l /\
                                     (l = [] -> ~ In (Const (CStr a)) ks)).
    { clear -Hg. induction ks as [|k r IH]; intros i; cbn.
      - exists []. split; auto.
      - cbn in Hg. apply andb_true_iff in Hg. destruct Hg as [Hk Hr].
        destruct k; try discriminate. destruct c; try discriminate.
        destruct (IH Hr (S i)) as (l & -> & Hl). cbn.
        destruct (String.eqb s a) eqn:E.
        + eexists; split; [reflexivity|]. discriminate.
        + eexists; split; [reflexivity|]. intros -> [X|X].
          * inversion X; subst. rewrite String.eqb_refl in E. discriminate.
          * exact (Hl eq_refl X). }
    destruct (Hk 0) as (l & -> & Hl). destruct l as [|i l'].
    - destruct (is_zip a); [reflexivity|]. cbn. apply Hl. reflexivity.
    - apply simple_nth. exact Ha.
  Qed.

  (* visit_Subscript on a simple-typed value *)
  Lemma subscript_type_good v tv aux s :
    simple tv -> Forall simple aux -> (match v with Tuple es => length aux = length es | _ => True end) ->
    match subscript_type W v tv aux s with
    | Ok t => simple t
    | Refuse r => site ft r (Subscript v s)
    | Crash _ => False
    end.
  Proof.
    intros Ht Ha Hl. unfold subscript_type.
    destruct v; try (
      destruct (record_fields (w_ct W) tv) as [[ns ts]|] eqn:E;
      [ destruct (literal_eval s) as [[k| |]|] eqn:El;
        [ destruct (assoc2 k ns ts) eqn:E2; [|exact I];
          eapply Forall_forall; [eapply record_fields_simple; eauto | eapply assoc2_In; eauto]
        | exact I | exact I | exact El ]
      | rewrite unwrap_iterable_simple by exact Ht; reflexivity ]).
    (* tuple literal *)
    destruct s; try exact I. destruct c; try exact I.
    - destruct ((- Z.of_nat (length es) <=? z)%Z && (z <? Z.of_nat (length es))%Z) eqn:E.
      + apply simple_nth. exact Ha.
      + cbn. intros [H1 H2]. apply andb_false_iff in E. destruct E as [E|E].
        * apply Z.leb_gt in E. lia.
        * apply Z.ltb_ge in E. lia.
    - destruct ((- Z.of_nat (length es) <=? (if b then 1 else 0))%Z && ((if b then 1 else 0) <? Z.of_nat (length es))%Z) eqn:E.
      + apply simple_nth. exact Ha.
      + cbn. intros H1. apply andb_false_iff in E. destruct E as [E|E].
        * apply Z.leb_gt in E. destruct b; lia.
        * apply Z.ltb_ge in E. lia.
  Qed.

  (* a method call on a simple-typed receiver is left alone *)
  Lemma process_method_call_simple v tv a args kwn kwv :
    simple tv ->
    process_method_call W v tv a args kwn kwv = Ok (Call (Attr v a) (map aexpr args) kwn (map aexpr kwv), TAny, []).
  Proof.
    intros Ht. unfold process_method_call, candidates.
    rewrite is_iterable_simple by exact Ht. cbn [method_loop].
    rewrite get_method_simple by exact Ht. reflexivity.
  Qed.

  Lemma untyped_visited_shape v :
    untyped_shape W Gg v = true -> forall v' t aux ev, fx v = Ok (v', t, aux, ev) ->
    match v' with Dict _ _ | Tuple _ => False | _ => True end.
  Proof.
    destruct v; cbn [untyped_shape]; intros Hu v' t aux ev E; try discriminate.
    - rewrite fx_Name in E. inversion E; subst. exact I.
    - rewrite fx_Attr in E. apply bind_ok in E. destruct E as ([[[v1 t1] aux1] ev1] & _ & E).
      apply bind_ok in E. destruct E as (t2 & _ & E). inversion E; subst. exact I.
    - rewrite fx_Subscript in E. apply bind_ok in E. destruct E as ([[[v1' t1] aux1] ev1] & _ & E).
      apply bind_ok in E. destruct E as ([[[s' ts] auxs] evs] & _ & E).
      apply bind_ok in E. destruct E as (t2 & _ & E). inversion E; subst. exact I.
  Qed.

  Lemma untyped_is_any v :
    untyped_shape W Gg v = true -> forall v' t aux ev, fx v = Ok (v', t, aux, ev) -> t = TAny /\ aux = [].
  Proof.
    induction v; cbn [untyped_shape]; intros Hu v' t aux ev E; try discriminate.
    - rewrite fx_Name in E. inversion E; subst. rewrite (Hle _ Hu). auto.
    - rewrite fx_Attr in E. apply bind_ok in E. destruct E as ([[[v1 t1] aux1] ev1] & E1 & E2).
      destruct (IHv Hu _ _ _ _ E1) as [-> ->].
      pose proof (untyped_visited_shape v Hu _ _ _ _ E1) as Hs.
      apply bind_ok in E2. destruct E2 as (t2 & E2 & E3). inversion E3; subst.
      unfold attr_type in E2.
      destruct v1; try contradiction; cbn in E2; inversion E2; auto.
    - rewrite fx_Subscript in E. apply bind_ok in E. destruct E as ([[[v1' t1] aux1] ev1] & E1 & E2).
      destruct (IHv1 Hu _ _ _ _ E1) as [-> ->].
      pose proof (untyped_visited_shape v1 Hu _ _ _ _ E1) as Hs.
      apply bind_ok in E2. destruct E2 as ([[[s' ts] auxs] evs] & _ & E2).
      apply bind_ok in E2. destruct E2 as (t2 & E2 & E3). inversion E3; subst.
      unfold subscript_type in E2.
      destruct v1'; try contradiction; cbn in E2; rewrite ?find_iterable_any in E2; inversion E2; auto.
  Qed.

  Definition subgood (e : expr) : Prop :=
    match e with
    | Attr v _ => good v (fx v)
    | Subscript (Attr v _) s => good v (fx v) /\ good s (fx s)
    | Subscript _ s => good s (fx s)
    | _ => True
    end.

  (* the measure: bodies of called lambdas smaller than [n] are already known to be good, in every environment *)
  Variable n : nat.
  Hypothesis Hbody : forall Gg' G' b,
    size b < n -> simple_env G' -> env_le W Gg' G' -> expr_grammar W Gg' b = true -> good b (follow_x W G' b).

  Definition P (e : expr) : Prop := size e <= n -> expr_grammar W Gg e = true -> good e (fx e) /\ subgood e.

  Lemma P_list es :
    Forall P es -> (forall x, In x es -> size x <= n) ->
    Forall (fun x => expr_grammar W Gg x = true) es -> Forall (fun x => good x (fx x)) es.
  Proof.
    induction 1 as [|x xs Hx _ IH]; intros Hs Hg; constructor; inversion Hg; subst.
    - apply Hx; [apply Hs; left; reflexivity | assumption].
    - apply IH; [intros y Hy; apply Hs; right; exact Hy | assumption].
  Qed.

  Lemma child_le e c : size e <= n -> In c (children e) -> size c <= n.
  Proof. intros H Hc. pose proof (tsize_child e c Hc). lia. Qed.

  Ltac split_gram H :=
    repeat match type of H with
           | _ && _ = true => let H' := fresh H in apply andb_true_iff in H; destruct H as [H H']
           end.

  Ltac fin := cbn; repeat split; auto using const_type_simple, name_type_simple.

  Lemma good_refuse_here e r : site ft r e -> good e (Refuse r).
  Proof. intros H. cbn. apply within_here. exact H. Qed.

  Lemma incl_app_l {A} (a : A) (l1 l2 : list A) : incl l1 (a :: l1 ++ l2).
  Proof. intros x Hx. right. apply in_or_app. left; exact Hx. Qed.
  Lemma incl_app_r {A} (a : A) (l1 l2 : list A) : incl l2 (a :: l1 ++ l2).
  Proof. intros x Hx. right. apply in_or_app. right; exact Hx. Qed.

  Lemma process_function_call_plain fn args kwn kwv x :
    find_func (w_ft W) x = Some fn -> fn_call_ok W x args kwn = true -> length kwn = length kwv ->
    match process_function_call W fn args kwn kwv with
    | Ok (node, t, ev) => node = Call (Name x) args kwn kwv /\ ev = [] /\ simple t
    | Refuse r => site ft r (Call (Name x) args kwn kwv)
    | Crash _ => False
    end.
  Proof.
    intros Hf Hok Hlen. unfold process_function_call.
    pose proof (find_func_name _ _ _ Hf) as Hn.
    pose proof (find_func_In _ _ _ Hf) as Hin.
    assert (Hp : fn_plain fn) by (eapply Forall_forall; [exact Hft | exact Hin]).
    destruct Hp as (Hproc & Hdef & Hret).
    destruct (zip_unzip kwn kwv Hlen) as [Hz1 Hz2].
    set (kws := (fix z (ks : list (option string)) (vs : list expr) :=
                   match ks, vs with k :: ks', v :: vs' => (k, v) :: z ks' vs' | _, _ => [] end) kwn kwv) in *.
    unfold fn_call_ok in Hok. rewrite Hf in Hok. apply orb_true_iff in Hok.
    assert (Hfill : match fill Const (f_params fn) args kws with
                    | inl (a2, k2) => a2 = args /\ k2 = kws
                    | inr _ => True end).
    { unfold fill. destruct Hok as [Hok|Hok].
      - apply Nat.leb_le in Hok. rewrite fill_go_enough by (cbn; lia). split; reflexivity.
      - apply negb_true_iff in Hok. apply fill_go_plain; [exact Hdef|].
        intros p Hp. rewrite Hz1. eapply kw_names_param_false; eauto. }
    destruct (fill Const (f_params fn) args kws) as [[a2 k2]|p].
    - destruct Hfill as [-> ->]. rewrite Hproc. cbn [run_cb]. rewrite Hz1, Hz2, Hn.
      repeat split; auto.
    - cbn. unfold ft. rewrite Hf. discriminate.
  Qed.

  Theorem follow_good : forall e, P e.
  Proof.
    induction e using expr_ind'; intros Hsz Hg;
      match type of Hsz with size ?E <= _ => pose proof (child_le E) as Hc; specialize (fun c => Hc c Hsz) end;
      cbn [children] in Hc.
    - (* Name *) rewrite fx_Name. fin.
    - (* Const *) rewrite fx_Const. fin.
    - (* Attr *)
      cbn [expr_grammar] in Hg. destruct (IHe (Hc _ (or_introl eq_refl)) Hg) as [Hv _]. split; [|exact Hv].
      rewrite fx_Attr.
      apply (step_child (Attr e a) e _ (good (Attr e a))); [cbn; auto | exact Hv | intros r Hr; exact Hr |].
      intros t aux Ht Ha Hl E. cbv beta iota.
      pose proof (attr_type_good e a t aux Hg Ht Ha) as H.
      destruct (attr_type W a e t aux); cbn [bind]; [fin | apply good_refuse_here; exact H | contradiction].
    - (* Call *)
      cbn [expr_grammar] in Hg.
      destruct (andb_prop _ _ Hg) as [Hg4 Hg3]. destruct (andb_prop _ _ Hg4) as [Hg5 Hg0].
      destruct (andb_prop _ _ Hg5) as [Hg6 Hg1]. destruct (andb_prop _ _ Hg6) as [Hgf Hg2]. clear Hg4 Hg5 Hg6.
      apply grammar_all in Hg2. apply grammar_all in Hg1.
      assert (Hsa : forall x, In x args -> size x <= n) by (intros x Hx; apply Hc; right; apply in_or_app; auto).
      assert (Hsk : forall x, In x kwv -> size x <= n) by (intros x Hx; apply Hc; right; apply in_or_app; auto).
      pose proof (P_list _ H Hsa Hg2) as Ha. pose proof (P_list _ H0 Hsk Hg1) as Hk.
      apply Nat.eqb_eq in Hg0.
      split; [|exact I].
      destruct (IHe (Hc _ (or_introl eq_refl)) Hgf) as [Hf Hsub].
      set (E := Call e args kwn kwv).
      pose proof (callee_cases e) as Hcases.
      destruct Hcases as [(v & a & ->)|[(v & a & s & ->)|[(ps & b & ->)|Hplain]]].
      + (* method call *)
        cbn [subgood] in Hsub. unfold E. rewrite fx_Call_method.
        assert (Hin : forall r, designed ft r (Attr v a) -> designed ft r E).
        { intros r Hr. eapply designed_child; [|exact Hr]. cbn; auto. }
        unfold good in Hsub.
        destruct (fx v) as [[[[v' tv] aux] ev]|r|kk] eqn:Ev; cbn [bind]; try contradiction.
        * destruct Hsub as (-> & -> & Ht & Hax & _).
          pose proof (attr_type_good v a tv aux Hgf Ht Hax) as Hat.
          destruct (attr_type W a v tv aux); cbn [bind]; try contradiction.
          -- apply (step_list E args _ (good E)); [apply incl_app_l | exact Ha | intros r Hr; exact Hr |].
             intros ts1 _ _. cbv beta iota.
             apply (step_list E kwv _ (good E)); [apply incl_app_r | exact Hk | intros r Hr; exact Hr |].
             intros ts2 _ _. cbv beta iota.
             rewrite process_method_call_simple by exact Ht. cbn [bind].
             rewrite !nested_args_exprs by reflexivity. fin.
          -- cbn. apply Hin. apply within_here. exact Hat.
        * cbn. apply Hin. eapply designed_child; [|exact Hsub]. cbn; auto.
      + (* call of a subscripted attribute of an untyped object *)
        cbn [subgood] in Hsub. destruct Hsub as [Hv Hs]. unfold E. rewrite fx_Call_param.
        assert (Hin : forall r, designed ft r (Subscript (Attr v a) s) -> designed ft r E).
        { intros r Hr. eapply designed_child; [|exact Hr]. cbn; auto. }
        unfold good in Hv.
        destruct (fx v) as [[[[v' tv] aux] ev]|r|kk] eqn:Ev; cbn [bind]; try contradiction.
        * destruct Hv as (-> & -> & Ht & Hax & _).
          destruct (untyped_is_any v Hg3 _ _ _ _ Ev) as [-> ->].
          pose proof (untyped_visited_shape v Hg3 _ _ _ _ Ev) as Hsh.
          assert (Hat : attr_type W a v TAny [] = Ok TAny).
          { unfold attr_type. destruct v; try contradiction; reflexivity. }
          rewrite Hat. cbn [bind].
          unfold good in Hs.
          destruct (fx s) as [[[[s' ts] auxs] evs]|r|kk] eqn:Es; cbn [bind]; try contradiction.
          -- destruct Hs as (-> & -> & _).
             assert (Hst : subscript_type W (Attr v a) TAny [] s = Ok TAny).
             { unfold subscript_type. cbn. rewrite ?find_iterable_any. reflexivity. }
             rewrite Hst. cbn [bind].
             apply (step_list E args _ (good E)); [apply incl_app_l | exact Ha | intros r Hr; exact Hr |].
             intros ts1 _ _. cbv beta iota.
             apply (step_list E kwv _ (good E)); [apply incl_app_r | exact Hk | intros r Hr; exact Hr |].
             intros ts2 _ _. cbv beta iota.
             rewrite param_call_guarded_on. cbn. fin.
          -- cbn. apply Hin. eapply designed_child; [|exact Hs]. cbn; auto.
        * cbn. apply Hin. apply (designed_child r (Subscript (Attr v a) s) (Attr v a)); [cbn; auto|].
          apply (designed_child r (Attr v a) v); [cbn; auto | exact Hv].
      + (* an immediately called lambda: left alone when it does not bind its parameters positionally; otherwise
           its body is followed with the parameters bound to the (plain) types of the arguments *)
        unfold E. rewrite fx_Call_lambda.
        apply (step_list E args _ (good E)); [apply incl_app_l | exact Ha | intros r Hr; exact Hr |].
        intros ts1 Hts1 Hl1. cbv beta iota.
        apply (step_list E kwv _ (good E)); [apply incl_app_r | exact Hk | intros r Hr; exact Hr |].
        intros ts2 _ _. cbv beta iota.
        destruct (called_ok ps args kwn kwv) eqn:Eok; [|fin].
        assert (Hlen : length ps = length ts1).
        { unfold called_ok in Eok. repeat (apply andb_true_iff in Eok; destruct Eok as [Eok ?]).
          apply Nat.eqb_eq in Eok. congruence. }
        assert (Hsb : size b < n).
        { pose proof (tsize_child (Lambda ps b) b (or_introl eq_refl)).
          pose proof (Hc (Lambda ps b) (or_introl eq_refl)). lia. }
        pose proof (Hbody (shadow ps Gg) (bind_params ps ts1 G) b Hsb
                          (simple_env_bind G ps ts1 HG Hts1) (env_le_bind W Gg G ps ts1 Hle Hlen) Hg3) as Hb.
        unfold good in Hb.
        destruct (follow_x W (bind_params ps ts1 G) b) as [[[[b' tb] auxb] evb]|r|kk]; cbn [bind]; try contradiction.
        * destruct Hb as (-> & -> & Htb & _). fin.
        * cbn. apply (designed_child r E (Lambda ps b)); [cbn; auto|].
          apply (designed_child r (Lambda ps b) b); [cbn; auto | exact Hb].
      + (* any other callee *)
        unfold E. rewrite fx_Call_plain by exact Hplain.
        apply (step_child E e _ (good E)); [cbn; auto | exact Hf | intros r Hr; exact Hr |].
        intros t aux _ _ _ _. cbv beta iota.
        apply (step_list E args _ (good E)); [apply incl_app_l | exact Ha | intros r Hr; exact Hr |].
        intros ts1 _ _. cbv beta iota.
        apply (step_list E kwv _ (good E)); [apply incl_app_r | exact Hk | intros r Hr; exact Hr |].
        intros ts2 _ _. cbv beta iota.
        destruct e; try (fin; fail).
        destruct (find_func (w_ft W) id) as [fn|] eqn:Ef; [|fin].
        pose proof (process_function_call_plain fn args kwn kwv id Ef Hg3 Hg0) as Hp.
        destruct (process_function_call W fn args kwn kwv) as [[[node t'] ev']|r|kk]; cbn [bind]; try contradiction.
        * destruct Hp as (-> & -> & Ht'). fin.
        * apply good_refuse_here. exact Hp.
    - (* Lambda *) rewrite fx_Lambda. fin.
    - (* UnaryOp *)
      cbn [expr_grammar] in Hg. destruct (IHe (Hc _ (or_introl eq_refl)) Hg) as [Hv _]. split; [|exact I].
      rewrite fx_UnaryOp.
      apply (step_child (UnaryOp o e) e _ (good (UnaryOp o e))); [cbn; auto | exact Hv | intros r Hr; exact Hr |].
      intros t aux Ht _ _ _. cbv beta iota. rewrite unary_uses_lookup_on. cbn. fin. destruct o; auto; reflexivity.
    - (* BinOp *)
      cbn [expr_grammar] in Hg. destruct (andb_prop _ _ Hg) as [Hga Hgb].
      destruct (IHe1 ltac:(apply Hc; cbn; auto) Hga) as [H1 _]. destruct (IHe2 ltac:(apply Hc; cbn; auto) Hgb) as [H2 _]. split; [|exact I].
      rewrite fx_BinOp. set (E := BinOp o e1 e2).
      apply (step_child E e1 _ (good E)); [cbn; auto | exact H1 | intros r Hr; exact Hr |].
      intros t1 aux1 Ht1 _ _ _. cbv beta iota.
      apply (step_child E e2 _ (good E)); [cbn; auto | exact H2 | intros r Hr; exact Hr |].
      intros t2 aux2 Ht2 _ _ _. cbv beta iota. fin.
      unfold binop_type. destruct (is_any t1 || is_any t2); [reflexivity|].
      destruct (ty_eqb t1 TFloat || ty_eqb t2 TFloat); [reflexivity|]. destruct o; reflexivity.
    - (* BoolOp *)
      cbn [expr_grammar] in Hg. apply grammar_all in Hg. pose proof (P_list _ H Hc Hg) as Ha. split; [|exact I].
      rewrite fx_BoolOp. set (E := BoolOp o es).
      apply (step_list E es _ (good E)); [cbn; apply incl_refl | exact Ha | intros r Hr; exact Hr |].
      intros ts _ _. cbv beta iota. fin.
    - (* Compare *)
      cbn [expr_grammar] in Hg. destruct (andb_prop _ _ Hg) as [Hga Hg0].
      apply grammar_all in Hg0. pose proof (P_list _ H (fun x Hx => Hc x (or_intror Hx)) Hg0) as Ha.
      destruct (IHe (Hc _ (or_introl eq_refl)) Hga) as [H1 _]. split; [|exact I].
      rewrite fx_Compare. set (E := Compare e ops rs).
      apply (step_child E e _ (good E)); [cbn; auto | exact H1 | intros r Hr; exact Hr |].
      intros t1 aux1 _ _ _ _. cbv beta iota.
      apply (step_list E rs _ (good E)); [cbn; apply incl_tl, incl_refl | exact Ha | intros r Hr; exact Hr |].
      intros ts _ _. cbv beta iota. fin.
    - (* IfExp *)
      cbn [expr_grammar] in Hg. destruct (andb_prop _ _ Hg) as [Hgab Hgc]. destruct (andb_prop _ _ Hgab) as [Hga Hgb].
      destruct (IHe1 ltac:(apply Hc; cbn; auto) Hga) as [H1 _]. destruct (IHe2 ltac:(apply Hc; cbn; auto) Hgb) as [H2 _].
      destruct (IHe3 ltac:(apply Hc; cbn; auto) Hgc) as [H3 _]. split; [|exact I].
      rewrite fx_IfExp. set (E := IfExp e1 e2 e3).
      apply (step_child E e1 _ (good E)); [cbn; auto | exact H1 | intros r Hr; exact Hr |].
      intros t1 aux1 _ _ _ _. cbv beta iota.
      apply (step_child E e2 _ (good E)); [cbn; auto | exact H2 | intros r Hr; exact Hr |].
      intros t2 aux2 Ht2 _ _ _. cbv beta iota.
      apply (step_child E e3 _ (good E)); [cbn; auto | exact H3 | intros r Hr; exact Hr |].
      intros t3 aux3 Ht3 _ _ _. cbv beta iota.
      unfold ifexp_type. destruct (ty_eqb t2 t3); [fin|].
      destruct (numeric_or_any t2 && numeric_or_any t3); [fin|].
      apply good_refuse_here. exact I.
    - (* Tuple *)
      cbn [expr_grammar] in Hg. apply grammar_all in Hg. pose proof (P_list _ H Hc Hg) as Ha. split; [|exact I].
      rewrite fx_Tuple. set (E := Tuple es).
      apply (step_list E es _ (good E)); [cbn; apply incl_refl | exact Ha | intros r Hr; exact Hr |].
      intros ts Hts Hl. cbv beta iota. fin.
    - (* List *)
      cbn [expr_grammar] in Hg. apply grammar_all in Hg. pose proof (P_list _ H Hc Hg) as Ha. split; [|exact I].
      rewrite fx_List. set (E := List es).
      apply (step_list E es _ (good E)); [cbn; apply incl_refl | exact Ha | intros r Hr; exact Hr |].
      intros ts _ _. cbv beta iota. fin.
    - (* Dict *)
      cbn [expr_grammar] in Hg. destruct (andb_prop _ _ Hg) as [Hgkv Hg0]. destruct (andb_prop _ _ Hgkv) as [Hgk Hg1].
      clear Hg. rename Hgk into Hg. apply grammar_all in Hg1.
      pose proof (P_list _ H0 (fun x Hx => Hc x (in_or_app _ _ _ (or_intror Hx))) Hg1) as Hv. apply Nat.eqb_eq in Hg0.
      split; [|exact I].
      assert (Hkeys : Forall (fun x => good x (fx x)) ks).
      { clear -Hg. induction ks as [|k r IH]; constructor; cbn in Hg; apply andb_true_iff in Hg; destruct Hg as [Hk Hr].
        - destruct k; try discriminate. rewrite fx_Const. cbn. repeat split; auto. destruct c; reflexivity.
        - apply IH; exact Hr. }
      rewrite fx_Dict. set (E := Dict ks vs).
      apply (step_list E ks _ (good E)); [cbn; apply incl_appl, incl_refl | exact Hkeys | intros r Hr; exact Hr |].
      intros ts1 _ _. cbv beta iota.
      apply (step_list E vs _ (good E)); [cbn; apply incl_appr, incl_refl | exact Hv | intros r Hr; exact Hr |].
      intros ts2 Hts2 _. cbv beta iota.
      assert (Hd : exists t, dict_type ks ts2 = Ok t /\ simple t).
      { unfold dict_type.
        assert (Hl : exists ls, key_lits ks = Some ls /\ exists ns, lit_names ls = Some ns).
        { clear -Hg. induction ks as [|k r IH]; cbn.
          - exists []. split; [reflexivity|]. exists []. reflexivity.
          - cbn in Hg. apply andb_true_iff in Hg. destruct Hg as [Hk Hr].
            destruct k; try discriminate. destruct c; try discriminate.
            destruct (IH Hr) as (ls & -> & ns & Hns). cbn. eexists; split; [reflexivity|]. cbn. rewrite Hns. cbn. eauto. }
        destruct Hl as (ls & -> & ns & ->).
        destruct (forallb valid_field_name ns).
        - eexists; split; [reflexivity|]. apply simple_record. apply dedupe_simple. exact Hts2.
        - eexists; split; reflexivity. }
      destruct Hd as (t & -> & Ht). cbn [bind]. fin.
    - (* Subscript *)
      cbn [expr_grammar] in Hg. destruct (andb_prop _ _ Hg) as [Hga Hgb].
      destruct (IHe1 ltac:(apply Hc; cbn; auto) Hga) as [H1 Hs1]. destruct (IHe2 ltac:(apply Hc; cbn; auto) Hgb) as [H2 _].
      split; [| destruct e1; cbn; auto ].
      rewrite fx_Subscript. set (E := Subscript e1 e2).
      apply (step_child E e1 _ (good E)); [cbn; auto | exact H1 | intros r Hr; exact Hr |].
      intros t1 aux1 Ht1 Ha1 Hl1 _. cbv beta iota.
      apply (step_child E e2 _ (good E)); [cbn; auto | exact H2 | intros r Hr; exact Hr |].
      intros t2 aux2 _ _ _ _. cbv beta iota.
      pose proof (subscript_type_good e1 t1 aux1 e2 Ht1 Ha1) as Hst.
      assert (Hl : match e1 with Tuple es => length aux1 = length es | _ => True end) by (destruct e1; auto).
      specialize (Hst Hl).
      destruct (subscript_type W e1 t1 aux1 e2); cbn [bind]; [fin | apply good_refuse_here; exact Hst | contradiction].
    - (* ListComp *)
      cbn [expr_grammar] in Hg. destruct (andb_prop _ _ Hg) as [Hga Hg0].
      apply grammar_all in Hg0. pose proof (P_list _ H (fun x Hx => Hc x (or_intror Hx)) Hg0) as Ha.
      destruct (IHe (Hc _ (or_introl eq_refl)) Hga) as [H1 _]. split; [|exact I].
      rewrite fx_ListComp. set (E := ListComp e gs).
      apply (step_child E e _ (good E)); [cbn; auto | exact H1 | intros r Hr; exact Hr |].
      intros t1 aux1 _ _ _ _. cbv beta iota.
      apply (step_list E gs _ (good E)); [cbn; apply incl_tl, incl_refl | exact Ha | intros r Hr; exact Hr |].
      intros ts _ _. cbv beta iota. fin.
    - (* GenExp *)
      cbn [expr_grammar] in Hg. destruct (andb_prop _ _ Hg) as [Hga Hg0].
      apply grammar_all in Hg0. pose proof (P_list _ H (fun x Hx => Hc x (or_intror Hx)) Hg0) as Ha.
      destruct (IHe (Hc _ (or_introl eq_refl)) Hga) as [H1 _]. split; [|exact I].
      rewrite fx_GenExp. set (E := GenExp e gs).
      apply (step_child E e _ (good E)); [cbn; auto | exact H1 | intros r Hr; exact Hr |].
      intros t1 aux1 _ _ _ _. cbv beta iota.
      apply (step_list E gs _ (good E)); [cbn; apply incl_tl, incl_refl | exact Ha | intros r Hr; exact Hr |].
      intros ts _ _. cbv beta iota. fin.
    - (* CompFor *)
      cbn [expr_grammar] in Hg. destruct (andb_prop _ _ Hg) as [Hgab Hg0]. destruct (andb_prop _ _ Hgab) as [Hga Hgb].
      apply grammar_all in Hg0. pose proof (P_list _ H (fun x Hx => Hc x (or_intror (or_intror Hx))) Hg0) as Ha.
      destruct (IHe1 ltac:(apply Hc; cbn; auto) Hga) as [H1 _]. destruct (IHe2 ltac:(apply Hc; cbn; auto) Hgb) as [H2 _]. split; [|exact I].
      rewrite fx_CompFor. set (E := CompFor e1 e2 ifs a).
      apply (step_child E e1 _ (good E)); [cbn; auto | exact H1 | intros r Hr; exact Hr |].
      intros t1 aux1 _ _ _ _. cbv beta iota.
      apply (step_child E e2 _ (good E)); [cbn; auto | exact H2 | intros r Hr; exact Hr |].
      intros t2 aux2 _ _ _ _. cbv beta iota.
      apply (step_list E ifs _ (good E)); [cbn; apply incl_tl, incl_tl, incl_refl | exact Ha | intros r Hr; exact Hr |].
      intros ts _ _. cbv beta iota. fin.
    - (* Raw *) rewrite fx_Raw. fin.
    - (* Other *)
      cbn [expr_grammar] in Hg. apply grammar_all in Hg. pose proof (P_list _ H Hc Hg) as Ha. split; [|exact I].
      rewrite fx_Other. set (E := Other cls atoms cs).
      apply (step_list E cs _ (good E)); [cbn; apply incl_refl | exact Ha | intros r Hr; exact Hr |].
      intros ts _ _. cbv beta iota. fin.
  Qed.
End Untyped.

(* the measure is discharged by induction: bodies of called lambdas are smaller than the call *)
Lemma follow_good_all W (Hft : ft_plain (w_ft W)) : forall n Gg G e,
  simple_env G -> env_le W Gg G -> size e <= n -> expr_grammar W Gg e = true ->
  good W e (follow_x W G e) /\ subgood W G e.
Proof.
  induction n as [|n IH]; intros Gg G e HG Hle Hsz Hg.
  - apply (follow_good W Gg G Hft HG Hle 0); [|exact Hsz | exact Hg].
    intros Gg' G' b Hb. lia.
  - apply (follow_good W Gg G Hft HG Hle (S n)); [|exact Hsz | exact Hg].
    intros Gg' G' b Hb HG' Hle' Hg'. apply (IH Gg' G' b HG' Hle'); [lia | exact Hg'].
Qed.

(* ---------- the statements exported by Properties/C10.v ---------- *)

Definition bool_shape (b : expr) : bool :=
  match b with Compare _ _ _ | BoolOp _ _ | UnaryOp UNot _ => true | _ => false end.

(* comparisons and and/or are typed bool, whatever the class model, environment and operands *)
Lemma where_bool_shapes_x W G b e' t ev :
  bool_shape b = true -> follow W G b = Ok (e', t, ev) -> t = TBool.
Proof.
  unfold follow. intros Hb H. apply bind_ok in H. destruct H as ([[[e1 t1] aux1] ev1] & H1 & H2).
  inversion H2; subst. destruct b; try discriminate.
  - destruct o; try discriminate. rewrite fx_UnaryOp in H1. apply bind_ok in H1.
    destruct H1 as ([[[? ?] ?] ?] & _ & H1). destruct (unary_uses_lookup || _); inversion H1; reflexivity.
  - rewrite fx_BoolOp in H1. apply bind_ok in H1. destruct H1 as ([[? ?] ?] & _ & H1). inversion H1; reflexivity.
  - rewrite fx_Compare in H1. apply bind_ok in H1. destruct H1 as ([[[? ?] ?] ?] & _ & H1).
    apply bind_ok in H1. destruct H1 as ([[? ?] ?] & _ & H1). inversion H1; reflexivity.
Qed.

Lemma untyped_passthrough_x W G e :
  ft_plain (w_ft W) -> Forall (fun xt => simple (snd xt)) G -> expr_grammar W G e = true ->
  match follow W G e with
  | Ok (e', t, ev) => e' = e /\ ev = [] /\ simple t
  | Refuse r => designed (w_ft W) r e
  | Crash _ => False
  end.
Proof.
  intros Hft HG Hg. destruct (follow_good_all W Hft (S (size e)) G G e HG (env_le_refl W G) (Nat.le_succ_diag_r _) Hg) as [H _].
  unfold follow, good in *.
  destruct (follow_x W G e) as [[[[e' t] aux] ev]|r|k]; cbn [bind]; auto.
  destruct H as (-> & -> & Ht & _). auto.
Qed.

Definition stream_operator (op : opkind) : Prop := op = OpSelect \/ op = OpSelectMany \/ op = OpWhere.

Definition designed_op (ft : functab) (op : opkind) (r : refusal) (p : string) (b : expr) : Prop :=
  designed ft r b                                                         (* raised while following the body *)
  \/ (r = RBadConst /\ check_ast (Lambda [p] b) = false)                    (* a constant that cannot be transported *)
  \/ (r = RWhereNotBool /\ op = OpWhere /\ bool_shape b = false).           (* non-boolean Where filter *)

Lemma untyped_stream_ops_x W op p b :
  ft_plain (w_ft W) -> stream_operator op -> expr_grammar W [(p, TAny)] b = true ->
  match stream_op W op [] TAny (Lambda [p] b) with
  | Ok (lam, t, ev) => lam = Lambda [p] b /\ ev = [] /\ simple t
  | Refuse r => designed_op (w_ft W) op r p b
  | Crash _ => False
  end.
Proof.
  intros Hft Hop Hg. cbn [stream_op].
  assert (HG : Forall (fun xt : string * ty => simple (snd xt)) [(p, TAny)]) by (constructor; [reflexivity | constructor]).
  pose proof (untyped_passthrough_x W [(p, TAny)] b Hft HG Hg) as H.
  pose proof (where_bool_shapes_x W [(p, TAny)] b) as Hb.
  destruct (follow W [(p, TAny)] b) as [[[b' t] ev]|r|k]; cbn [bind]; try contradiction.
  - destruct H as (-> & -> & Ht). unfold finish_op.
    destruct (check_ast (Lambda [p] b)) eqn:Ec; cbn [negb].
    + destruct Hop as [-> | [-> | ->]].
      * auto.
      * repeat split; auto. rewrite unwrap_iterable_simple by exact Ht. reflexivity.
      * destruct (ty_eqb t TBool) eqn:Et; [repeat split; auto; reflexivity|].
        right; right. repeat split; auto.
        destruct (bool_shape b) eqn:Es; [|reflexivity].
        rewrite (Hb b t [] eq_refl eq_refl) in Et. discriminate.
    + right; left. auto.
  - left. exact H.
Qed.

(* the library's own registered functions (Gen/TablesTypes.v, regenerated from the source) are plain *)
Lemma ft_default_plain : ft_plain ft_default.
Proof. unfold ft_plain, ft_default. repeat constructor. Qed.

Definition lib_world (ct : classtab) (cbs : cbtab) : world := {| w_ct := ct; w_ft := ft_default; w_cb := cbs |}.

Lemma untyped_passthrough_default (ct : classtab) (cbs : cbtab) (p : string) (e : expr) :
  expr_grammar (lib_world ct cbs) [(p, TAny)] e = true ->
  match follow (lib_world ct cbs) [(p, TAny)] e with
  | Ok (e', t, ev) => e' = e /\ ev = []
  | Refuse r => designed ft_default r e
  | Crash _ => False
  end.
Proof.
  intros Hg.
  assert (HG : Forall (fun xt : string * ty => simple (snd xt)) [(p, TAny)]) by (constructor; [reflexivity | constructor]).
  pose proof (untyped_passthrough_x (lib_world ct cbs) [(p, TAny)] e ft_default_plain HG Hg) as H.
  destruct (follow (lib_world ct cbs) [(p, TAny)] e) as [[[e' t] ev]|r|k]; auto. tauto.
Qed.

Lemma untyped_stream_ops_default (ct : classtab) (cbs : cbtab) (op : opkind) (p : string) (b : expr) :
  stream_operator op -> expr_grammar (lib_world ct cbs) [(p, TAny)] b = true ->
  match stream_op (lib_world ct cbs) op [] TAny (Lambda [p] b) with
  | Ok (lam, t, ev) => lam = Lambda [p] b /\ ev = []
  | Refuse r => designed_op ft_default op r p b
  | Crash _ => False
  end.
Proof.
  intros Hop Hg.
  pose proof (untyped_stream_ops_x (lib_world ct cbs) op p b ft_default_plain Hop Hg) as H.
  destruct (stream_op (lib_world ct cbs) op [] TAny (Lambda [p] b)) as [[[e' t] ev]|r|k]; auto. tauto.
Qed.

(* Where on a comparison / boolean combination: the gate cannot be what refuses *)
Lemma untyped_where_bool (ct : classtab) (cbs : cbtab) (p : string) (b : expr) :
  bool_shape b = true -> expr_grammar (lib_world ct cbs) [(p, TAny)] b = true ->
  match stream_op (lib_world ct cbs) OpWhere [] TAny (Lambda [p] b) with
  | Ok (lam, t, ev) => lam = Lambda [p] b /\ t = TAny /\ ev = []
  | Refuse r => designed ft_default r b \/ (r = RBadConst /\ check_ast (Lambda [p] b) = false)
  | Crash _ => False
  end.
Proof.
  intros Hb Hg.
  pose proof (untyped_stream_ops_x (lib_world ct cbs) OpWhere p b ft_default_plain (or_intror (or_intror eq_refl)) Hg) as H.
  assert (Hitem : forall lam t ev, stream_op (lib_world ct cbs) OpWhere [] TAny (Lambda [p] b) = Ok (lam, t, ev) -> t = TAny).
  { cbn [stream_op]. intros lam t ev E. apply bind_ok in E. destruct E as ([[b' t'] ev'] & _ & E).
    unfold finish_op in E. destruct (negb (check_ast (Lambda [p] b'))); [discriminate|].
    destruct (ty_eqb t' TBool); inversion E; reflexivity. }
  destruct (stream_op (lib_world ct cbs) OpWhere [] TAny (Lambda [p] b)) as [[[e' t] ev]|r|k]; auto.
  - destruct H as (-> & -> & _). repeat split; auto. eapply Hitem; reflexivity.
  - destruct H as [H|[H|(_ & _ & H)]]; auto. congruence.
Qed.

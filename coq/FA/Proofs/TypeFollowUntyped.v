From FA.Base Require Import PyAst Value Induct.
From FA.Gen Require Import TablesUtil TablesTypes.
From FA.Model Require Import TypeDefs TypeFollow.
From FA.Proofs Require Import TypeFollowFacts.

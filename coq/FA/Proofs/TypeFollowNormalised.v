(* C07, whole queries: the tree [follow] emits relates to the tree it was given by [norm] - a separately
   written relation that says, node class by node class, what the property demands:

     - every call site the follower has a signature for (method of a class of the table found for the receiver's
       type - the type the follower computed -, registered function), at ANY lambda nesting depth, is emitted as
       [f(values...)] with [values] = Signature.bind + apply_defaults ([bind_full]), no keyword left, the user's own
       positional values kept - followed by whatever the callbacks of that site return (the rewrite menu);
     - a call of one of the library's own stream operators with a lambda keeps exactly the user's arguments (the
       lambda, possibly given as [f=...]), the lambda body being normalised in turn under the element type;
     - a method call is left alone only if no class of the receiver's type has a method of that name whose return
       annotation resolves ([known]);
     - everything else is rebuilt from its normalised children and nothing else changes.

   Proved by induction over the model's (structural) recursion, with [fill_is_bind] at the call sites. *)
From FA.Base Require Import PyAst Value Induct Traverse.
From FA.Gen Require Import TablesUtil TablesTypes.
From FA.Model Require Import TypeDefs TypeFollow.
From FA.Proofs Require Import TraverseFacts TypeFollowFacts TypeFollowFill.
From Coq Require Import Lia.

(* ---------- what callbacks may do to a call site: the menu, any number of times ---------- *)

Inductive rewritten : expr -> expr -> Prop :=
 | rw_refl s : rewritten s s
 | rw_step s s1 rw : rewritten s s1 -> rewritten s (apply_rw rw s1).

(* ---------- positional completeness of one emitted call ---------- *)

Definition zipk {B} (kwn : list (option string)) (kwv : list B) : list (option string * B) := combine kwn kwv.

(* [site] is the call of [f'] that Signature.bind + apply_defaults describes for the user's (followed) arguments:
   the user's positional values stay in place whatever the call; for every call shape Python accepts all declared
   parameters are present positionally in declaration order and no keyword is left *)
Definition complete_call (ps : list param) (f' : expr) (uargs : list expr) (ukws : list (option string * expr))
           (site : expr) : Prop :=
  exists args2 kwn2 kwv2,
    site = Call f' args2 kwn2 kwv2 /\
    firstn (length uargs) args2 = uargs /\
    (acceptable ps uargs ukws -> bind_full Const ps uargs ukws = BOk args2 /\ kwn2 = [] /\ kwv2 = []).

Definition is_leaf (e : expr) : bool :=
  match e with Name _ | Const _ | Raw _ | Lambda _ _ => true | _ => false end.
Definition is_call (e : expr) : bool := match e with Call _ _ _ _ => true | _ => false end.

Definition own_operator (o : opkind) : Prop := o = OpSelect \/ o = OpSelectMany \/ o = OpWhere.

Section Norm.
  Variable W : world.
  Let ct := w_ct W.

  (* the follower has a signature and a type for [tv.a(...)] *)
  Definition known (tv : ty) (a : string) : Prop :=
    exists bo mcls m t, In bo (candidates W tv) /\ get_method_and_class ct bo a = Some (mcls, MMethod m) /\
                        resolve_type_vars ct (match m_ret m with Some r => r | None => TAny end) bo mcls = Some t.

  Inductive norm (G : tenv) : expr -> expr -> Prop :=
   | norm_leaf e : is_leaf e = true -> norm G e e                      (* a lambda that is nobody's operator argument is not entered *)
   | norm_cong e cs' :                                                 (* every node class but Call: rebuilt from its children *)
       is_leaf e = false -> is_call e = false -> Forall2 (norm G) (children e) cs' -> norm G e (rebuild e cs')
   | norm_call_untyped f args kwn kwv f' args' kwv' :                  (* callee without a signature *)
       (match f with Attr _ _ => False | Name x => find_func (w_ft W) x = None | _ => True end) ->
       norm G f f' -> Forall2 (norm G) args args' -> Forall2 (norm G) kwv kwv' ->
       norm G (Call f args kwn kwv) (Call f' args' kwn kwv')
   | norm_called_lambda ps b b' args args' ts ev :                      (* (lambda x, ...: body)(a, ...): the body one lambda level deeper *)
       called_ok ps args [] [] = true ->
       follow_list_with (follow_x W G) args = Ok (args', ts, ev) ->   (* the types the follower computed for the arguments *)
       Forall2 (norm G) args args' ->
       norm (bind_params ps ts G) b b' ->
       norm G (Call (Lambda ps b) args [] []) (Call (Lambda ps b') args' [] [])
   | norm_call_function x fn args kwn kwv args' kwv' site0 out :       (* registered function *)
       find_func (w_ft W) x = Some fn ->
       Forall2 (norm G) args args' -> Forall2 (norm G) kwv kwv' ->
       complete_call (f_params fn) (Name x) args' (zipk kwn kwv') site0 ->
       rewritten site0 out ->
       norm G (Call (Name x) args kwn kwv) out
   | norm_call_parameterized v a s args kwn kwv v' s' args' kwv' out : (* obj.prop[params](args): subscript removed, arguments as given *)
       norm G v v' -> norm G s s' -> Forall2 (norm G) args args' -> Forall2 (norm G) kwv kwv' ->
       rewritten (Call (Attr v' a) args' kwn kwv') out ->
       norm G (Call (Subscript (Attr v a) s) args kwn kwv) out
   | norm_method_unknown v a args kwn kwv v' args' kwv' tv ev :        (* no class of the receiver's type knows the method *)
       norm G v v' -> Forall2 (norm G) args args' -> Forall2 (norm G) kwv kwv' ->
       follow W G v = Ok (v', tv, ev) -> ~ known tv a ->
       norm G (Call (Attr v a) args kwn kwv) (Call (Attr v' a) args' kwn kwv')
   | norm_method_typed v a args kwn kwv v' args' kwv' tv ev bo mcls m site0 out :
       norm G v v' -> Forall2 (norm G) args args' -> Forall2 (norm G) kwv kwv' ->
       follow W G v = Ok (v', tv, ev) ->
       In bo (candidates W tv) -> get_method_and_class ct bo a = Some (mcls, MMethod m) ->
       complete_call (m_params m) (Attr v' a) args' (zipk kwn kwv') site0 ->
       rewritten site0 out ->
       norm G (Call (Attr v a) args kwn kwv) out
   | norm_method_operator v a args kwn kwv v' args' kwv' tv ev c item targs mcls m p b b' kws2 out :
       norm G v v' -> Forall2 (norm G) args args' -> Forall2 (norm G) kwv kwv' ->
       follow W G v = Ok (v', tv, ev) ->
       In (TCls c (item :: targs)) (candidates W tv) -> is_collection ct c = true ->
       get_method_and_class ct (TCls c (item :: targs)) a = Some (mcls, MMethod m) -> own_operator (m_op m) ->
       (* the walk leaves the operator's arguments as the user wrote them: the lambda, nothing filled in *)
       fill Const (m_params m) args' (zipk kwn kwv') = inl ([Lambda [p] b], kws2) ->
       norm ((p, item) :: G) b b' ->                                   (* the body, one lambda level deeper *)
       rewritten (Call (Attr v' a) [Lambda [p] b'] (map fst kws2) (map snd kws2)) out ->
       norm G (Call (Attr v a) args kwn kwv) out.
End Norm.

(* ---------- the walk commutes with forgetting the annotations of the arguments ---------- *)

Section FillMap.
  Context {A B : Type}.
  Variable h : A -> B.
  Variable mkA : const -> A.
  Variable mkB : const -> B.
  Hypothesis Hmk : forall c, h (mkA c) = mkB c.

  Definition hk (kv : option string * A) : option string * B := (fst kv, h (snd kv)).

  Lemma find_keyword_map kws n :
    find_keyword (map hk kws) n =
      match find_keyword kws n with Some (a, r) => Some (h a, map hk r) | None => None end.
  Proof.
    induction kws as [|[k v] t IH]; cbn; [reflexivity|].
    destruct (ostr_eqb k (Some n)); [reflexivity|]. rewrite IH.
    destruct (find_keyword t n) as [[a r]|]; reflexivity.
  Qed.

  Lemma fill_go_map ps : forall i args kws,
    fill_go mkB ps i (map h args) (map hk kws) =
      match fill_go mkA ps i args kws with
      | inl (a2, k2) => inl (map h a2, map hk k2)
      | inr p => inr p
      end.
  Proof.
    induction ps as [|p r IH]; intros i args kws; cbn [fill_go]; [reflexivity|].
    destruct (skipped (p_name p)); [apply IH|].
    rewrite map_length. destruct (Nat.leb (length args) i); [|apply IH].
    rewrite find_keyword_map. destruct (find_keyword kws (p_name p)) as [[a kws']|].
    - rewrite <- IH. rewrite map_app. reflexivity.
    - destruct (p_default p); [|reflexivity]. rewrite <- IH. rewrite map_app. cbn. rewrite Hmk. reflexivity.
  Qed.

  Lemma fill_map ps args kws a2 k2 :
    fill mkA ps args kws = inl (a2, k2) -> fill mkB ps (map h args) (map hk kws) = inl (map h a2, map hk k2).
  Proof. unfold fill. intros H. rewrite fill_go_map, H. reflexivity. Qed.
End FillMap.

(* a property of all the arguments (and of the default constants) holds of everything the walk returns *)
Lemma fill_go_Forall {A} (mk : const -> A) (P : A -> Prop) ps :
  (forall c, P (mk c)) ->
  forall i args kws a2 k2,
    Forall P args -> Forall (fun kv => P (snd kv)) kws ->
    fill_go mk ps i args kws = inl (a2, k2) -> Forall P a2 /\ Forall (fun kv => P (snd kv)) k2.
Proof.
  intros Hmk. induction ps as [|p r IH]; intros i args kws a2 k2 Ha Hk H; cbn [fill_go] in H.
  - inversion H; subst. auto.
  - destruct (skipped (p_name p)); [eapply IH; eauto|].
    destruct (Nat.leb (length args) i); [|eapply IH; eauto].
    destruct (find_keyword kws (p_name p)) as [[a kws']|] eqn:Ef.
    + assert (P a /\ Forall (fun kv => P (snd kv)) kws').
      { clear -Ef Hk. revert a kws' Ef. induction kws as [|[k v] t IHk]; cbn; intros a kws' Ef; [discriminate|].
        inversion Hk; subst. destruct (ostr_eqb k (Some (p_name p))).
        - inversion Ef; subst. auto.
        - destruct (find_keyword t (p_name p)) as [[a' r']|]; [|discriminate]. inversion Ef; subst.
          destruct (IHk H2 _ _ eq_refl). split; auto. }
      destruct H0. eapply IH; [| |exact H]; try apply Forall_app_intro; auto.
    + destruct (p_default p); [|discriminate]. eapply IH; [| |exact H]; try apply Forall_app_intro; auto.
Qed.

Lemma combine_map_snd {A B} (h : A -> B) kwn (kwv : list A) :
  map (fun kv : option string * A => (fst kv, h (snd kv))) (combine kwn kwv) = combine kwn (map h kwv).
Proof. revert kwv. induction kwn as [|k ks IH]; intros [|v vs]; cbn; try reflexivity; try (rewrite IH; reflexivity). Qed.

Lemma zip_kw_combine kwn kwv : zip_kw kwn kwv = combine kwn kwv.
Proof. revert kwv. induction kwn as [|k ks IH]; intros [|v vs]; cbn; try reflexivity; try (rewrite IH; reflexivity). Qed.

Lemma zfix_combine (kwn : list (option string)) (kwv : list expr) :
  (fix z (ks : list (option string)) (vs : list expr) :=
     match ks, vs with k :: ks', v :: vs' => (k, v) :: z ks' vs' | _, _ => [] end) kwn kwv = combine kwn kwv.
Proof. revert kwv. induction kwn as [|k ks IH]; intros [|v vs]; cbn; try reflexivity; try (rewrite IH; reflexivity). Qed.

Lemma rewritten_trans a b c : rewritten a b -> rewritten b c -> rewritten a c.
Proof. intros H1 H2. induction H2; [assumption|]. econstructor. eauto. Qed.

Lemma run_cb_rewritten W cb site : rewritten site (fst (run_cb W cb site)).
Proof. destruct cb; cbn; [econstructor; constructor | constructor]. Qed.

Lemma method_callbacks_rewritten W bo m site : rewritten site (fst (method_callbacks W bo m site)).
Proof.
  unfold method_callbacks.
  pose proof (run_cb_rewritten W (class_cb (w_ct W) bo) site) as H1.
  destruct (run_cb W (class_cb (w_ct W) bo) site) as [s1 e1]. cbn in H1.
  pose proof (run_cb_rewritten W (m_cb m) s1) as H2.
  destruct (run_cb W (m_cb m) s1) as [s2 e2]. cbn in *. eapply rewritten_trans; eauto.
Qed.

(* signatures have pairwise distinct parameter names (Python guarantees it) *)
Definition sig_ok (ps : list param) : Prop := NoDup (map p_name (eff ps)).
Definition wf_sigs (W : world) : Prop :=
  Forall (fun k => Forall (fun m => sig_ok (m_params m)) (c_methods k)) (w_ct W) /\
  Forall (fun f => sig_ok (f_params f)) (w_ft W).

Lemma find_cls_In ct c k : find_cls ct c = Some k -> In k ct.
Proof.
  induction ct as [|x r IH]; cbn; intros H; [discriminate|].
  destruct (String.eqb (c_name x) c); [inversion H; subst; left; reflexivity | right; auto].
Qed.

Lemma find_method_In ms n m : find_method ms n = Some m -> In m ms.
Proof.
  induction ms as [|x r IH]; cbn; intros H; [discriminate|].
  destruct (String.eqb (m_name x) n); [inversion H; subst; left; reflexivity | right; auto].
Qed.

Lemma lookup_member_sig W fuel c n mcls m :
  wf_sigs W -> lookup_member (w_ct W) fuel c n = Some (mcls, MMethod m) -> sig_ok (m_params m).
Proof.
  intros [Hc _]. revert c. induction fuel as [|f IH]; intros c H; cbn in H; [discriminate|].
  destruct (find_cls (w_ct W) c) as [k|] eqn:Ek; [|discriminate].
  unfold own_member in H. destruct (find_method (c_methods k) n) as [m'|] eqn:Em.
  - inversion H; subst. apply find_cls_In in Ek. apply find_method_In in Em.
    rewrite Forall_forall in Hc. specialize (Hc _ Ek). rewrite Forall_forall in Hc. apply Hc. exact Em.
  - destruct (assoc n (c_props k)); [discriminate|]. destruct (c_parent k); [eapply IH; eauto | discriminate].
Qed.

Lemma gmc_sig W bo n mcls m :
  wf_sigs W -> get_method_and_class (w_ct W) bo n = Some (mcls, MMethod m) -> sig_ok (m_params m).
Proof.
  destruct bo; intros Hw H; try (cbn in H; discriminate).
  unfold get_method_and_class in H. eapply lookup_member_sig; eauto.
Qed.

(* the walk's result, read as the completeness of the emitted call *)
Lemma fill_complete ps f' uargs ukws a2 k2 :
  sig_ok ps -> fill Const ps uargs ukws = inl (a2, k2) ->
  complete_call ps f' uargs ukws (Call f' a2 (map fst k2) (map snd k2)).
Proof.
  intros Hs Hf. exists a2, (map fst k2), (map snd k2). split; [reflexivity|]. split.
  - eapply fill_keeps_positionals; eauto.
  - intros Hacc. pose proof (fill_is_bind_x Const ps uargs ukws Hs Hacc) as H. rewrite Hf in H.
    destruct (bind_full Const ps uargs ukws) as [vals|p]; [|discriminate].
    inversion H; subst. auto.
Qed.

(* ---------- the method-call path ---------- *)

Section MethodCall.
  Variable W : world.
  Hypothesis Hwf : wf_sigs W.
  Let ct := w_ct W.
  Variable G : tenv.

  (* an annotated argument: if the follower may enter it as an operator lambda, what it returns is normalised *)
  Definition nlam_ok (a : aarg) : Prop :=
    match snd a with
    | NLam p k => exists b, fst a = Lambda [p] b /\
                            forall item b' t ev, k item = Ok (b', t, ev) -> norm W ((p, item) :: G) b b'
    | _ => True
    end.

  Variable a : string.
  Variable f' : expr.
  Variable args : list aarg.
  Variable kws : list (option string * aarg).
  Variable cands0 : list ty.

  Definition node_of (args2 : list aarg) (kws2 : list (option string * aarg)) : expr :=
    Call f' (map aexpr args2) (map fst kws2) (map (fun kv => aexpr (snd kv)) kws2).

  Inductive res_ok : mres -> Prop :=
   | res_static r bo mcls m args2 kws2 :
       In bo cands0 -> get_method_and_class ct bo a = Some (mcls, MMethod m) -> mr_obj r = Some (bo, m) ->
       fill mk_const_arg (m_params m) args kws = inl (args2, kws2) ->
       mr_node r = node_of args2 kws2 -> res_ok r
   | res_stream r c item targs mcls m x kws2 p k b' t ev :
       In (TCls c (item :: targs)) cands0 -> is_collection ct c = true ->
       get_method_and_class ct (TCls c (item :: targs)) a = Some (mcls, MMethod m) ->
       mr_obj r = Some (TCls c (item :: targs), m) ->
       fill mk_const_arg (m_params m) args kws = inl ([x], kws2) ->
       snd x = NLam p k -> k item = Ok (b', t, ev) -> own_operator (m_op m) ->
       mr_node r = Call f' [Lambda [p] b'] (map fst kws2) (map (fun kv => aexpr (snd kv)) kws2) ->
       res_ok r.

  Lemma stream_obj_ok bo mcls m args2 kws2 r :
    In bo cands0 -> get_method_and_class ct bo a = Some (mcls, MMethod m) ->
    fill mk_const_arg (m_params m) args kws = inl (args2, kws2) ->
    follow_on_stream_obj W bo m f' args2 kws2 = Ok (Some r) -> res_ok r.
  Proof.
    intros Hin Hm Hf H. unfold follow_on_stream_obj in H.
    destruct bo as [| | | | | | | | | | | |c targs| |]; try discriminate.
    destruct (is_collection (w_ct W) c) eqn:Ec; [|discriminate].
    destruct targs as [|item targs]; [discriminate|].
    destruct args2 as [|x [|y rest]]; [| |discriminate].
    - inversion H; subst. eapply res_static; eauto.
    - assert (Hop : own_operator (m_op m) /\
                    exists p k, snd x = NLam p k /\
                      bind (k item) (fun r0 => bind (finish_op W (m_op m) item p r0) (fun '(lam, t, ev) =>
                        Ok (Some {| mr_node := Call f' [lam] (map fst kws2) (map (fun kv => aexpr (snd kv)) kws2);
                                    mr_ty := TIter t; mr_full := true; mr_obj := Some (TCls c (item :: targs), m);
                                    mr_ev := ev |}))) = Ok (Some r)).
      { unfold own_operator. destruct (m_op m); try discriminate;
          (split; [tauto|]); destruct (snd x) as [| |p k]; try discriminate; eauto. }
      destruct Hop as (Hop & p & k & Hx & Hb).
      apply bind_ok in Hb. destruct Hb as ([[b' t] ev] & Hk & Hb).
      apply bind_ok in Hb. destruct Hb as ([[lam t'] ev'] & Hfin & Hb).
      assert (lam = Lambda [p] b').
      { unfold finish_op in Hfin. destruct (negb (check_ast (Lambda [p] b'))); [discriminate|].
        destruct (m_op m); try discriminate; try (inversion Hfin; reflexivity).
        destruct (ty_eqb t TBool); inversion Hfin; reflexivity. }
      subst lam. inversion Hb; subst. eapply res_stream; eauto.
  Qed.

  Lemma loop_ok cands : forall last r,
    incl cands cands0 -> (forall r0, last = Some r0 -> res_ok r0) ->
    method_loop W cands a f' args kws last = Ok (Some r) -> res_ok r.
  Proof.
    induction cands as [|bo rest IH]; intros last r Hincl Hlast H; cbn [method_loop] in H.
    - inversion H; subst. apply Hlast. reflexivity.
    - assert (Hin : In bo cands0) by (apply Hincl; left; reflexivity).
      assert (Hincl' : incl rest cands0) by (intros x Hx; apply Hincl; right; exact Hx).
      fold ct in H.
      destruct (get_method_and_class ct bo a) as [[mcls [m|pc]]|] eqn:Em; [| discriminate | eapply IH; eauto].
      destruct (fill mk_const_arg (m_params m) args kws) as [[args2 kws2]|pn] eqn:Ef; [|discriminate].
      set (ret := resolve_type_vars ct (match m_ret m with Some t => t | None => TAny end) bo mcls) in *.
      set (node2 := Call f' (map aexpr args2) (map fst kws2) (map (fun kv => aexpr (snd kv)) kws2)) in *.
      set (last1 := match ret with
                    | Some t => Some {| mr_node := node2; mr_ty := t;
                                        mr_full := negb (existsb (fun x => is_lambda (aexpr x)) args2);
                                        mr_obj := Some (bo, m); mr_ev := [] |}
                    | None => last end) in *.
      assert (Hlast1 : forall r0, last1 = Some r0 -> res_ok r0).
      { unfold last1. destruct ret; [|exact Hlast]. intros r0 E. inversion E; subst.
        eapply res_static; eauto. }
      apply bind_ok in H. destruct H as (fr & Hfr & H).
      assert (Hlast2 : forall r0, match fr with Some r1 => Some r1 | None => last1 end = Some r0 -> res_ok r0).
      { destruct fr as [r1|]; [|exact Hlast1]. intros r0 E. inversion E; subst.
        destruct (match last1 with None => true | Some r2 => negb (mr_full r2) end); [|discriminate].
        eapply stream_obj_ok; eauto. }
      destruct (match fr with Some r1 => Some r1 | None => last1 end) as [r2|] eqn:E2.
      + destruct (mr_full r2).
        * inversion H; subst. apply Hlast2. reflexivity.
        * eapply IH; eauto.
      + eapply IH; eauto.
  Qed.

  (* once there is a result there always is one *)
  Lemma loop_some cands : forall r0,
    method_loop W cands a f' args kws (Some r0) = Ok None -> False.
  Proof.
    induction cands as [|bo rest IH]; intros r0 H; cbn [method_loop] in H; [discriminate|].
    destruct (get_method_and_class (w_ct W) bo a) as [[mcls [m|pc]]|]; [| discriminate | eapply IH; eauto].
    destruct (fill mk_const_arg (m_params m) args kws) as [[args2 kws2]|pn]; [|discriminate].
    apply bind_ok in H. destruct H as (fr & _ & H).
    destruct fr as [r1|].
    - destruct (mr_full r1); [discriminate | eapply IH; eauto].
    - destruct (resolve_type_vars (w_ct W) _ bo mcls).
      + cbn in H. destruct (negb (existsb (fun x => is_lambda (aexpr x)) args2)); [discriminate | eapply IH; eauto].
      + destruct (mr_full r0); [discriminate | eapply IH; eauto].
  Qed.

  Lemma loop_known cands last bo mcls m t :
    In bo cands -> get_method_and_class ct bo a = Some (mcls, MMethod m) ->
    resolve_type_vars ct (match m_ret m with Some r => r | None => TAny end) bo mcls = Some t ->
    method_loop W cands a f' args kws last = Ok None -> False.
  Proof.
    revert last. induction cands as [|bo' rest IH]; intros last Hin Hm Hr H; [contradiction|].
    cbn [method_loop] in H. fold ct in H. destruct Hin as [->|Hin].
    - rewrite Hm in H.
      destruct (fill mk_const_arg (m_params m) args kws) as [[args2 kws2]|pn]; [|discriminate].
      rewrite Hr in H. apply bind_ok in H. destruct H as (fr & _ & H).
      destruct fr as [r1|].
      + destruct (mr_full r1); [discriminate | eapply loop_some; eauto].
      + cbn in H. destruct (negb (existsb (fun x => is_lambda (aexpr x)) args2)); [discriminate | eapply loop_some; eauto].
    - destruct (get_method_and_class ct bo' a) as [[mcls' [m'|pc]]|]; [| discriminate | eapply IH; eauto].
      destruct (fill mk_const_arg (m_params m') args kws) as [[args2 kws2]|pn]; [|discriminate].
      apply bind_ok in H. destruct H as (fr & _ & H).
      destruct (match fr with Some r1 => Some r1 | None => _ end) as [r2|].
      + destruct (mr_full r2); [discriminate | eapply IH; eauto].
      + eapply IH; eauto.
  Qed.
End MethodCall.

(* ---------- the theorem ---------- *)

Section Main.
  Variable W : world.
  Hypothesis Hwf : wf_sigs W.
  Let ct := w_ct W.

  Definition Q (e : expr) : Prop :=
    forall G e' t aux ev, follow_x W G e = Ok (e', t, aux, ev) -> norm W G e e'.

  (* induction hypotheses for the sub-terms the follower looks through *)
  Definition sub (e : expr) : Prop :=
    match e with
    | Lambda _ b => Q b
    | Attr v _ => Q v
    | Subscript v s => Q s /\ match v with Attr u _ => Q u | _ => True end
    | _ => True
    end.
  Definition P (e : expr) : Prop := Q e /\ sub e.

  Lemma fl_norm G es : Forall P es -> forall es' ts ev,
    follow_list_with (follow_x W G) es = Ok (es', ts, ev) -> Forall2 (norm W G) es es'.
  Proof.
    induction 1 as [|x xs Hx _ IH]; intros es' ts ev H.
    - cbn in H. inversion H; subst. constructor.
    - rewrite fl_cons in H. apply bind_ok in H. destruct H as ([[[x' t] aux] ev1] & H1 & H).
      apply bind_ok in H. destruct H as ([[xs' ts'] evs] & H2 & H). inversion H; subst.
      constructor; [eapply (proj1 Hx); eauto | eapply IH; eauto].
  Qed.

  Lemma fl_length G es es' ts ev :
    follow_list_with (follow_x W G) es = Ok (es', ts, ev) -> length es' = length es.
  Proof.
    revert es' ts ev. induction es as [|x xs IH]; intros es' ts ev H.
    - cbn in H. inversion H; reflexivity.
    - rewrite fl_cons in H. apply bind_ok in H. destruct H as ([[[x' t] aux] ev1] & H1 & H).
      apply bind_ok in H. destruct H as ([[xs' ts'] evs] & H2 & H). inversion H; subst. cbn. f_equal. eauto.
  Qed.

  Lemma nl_ok G es : Forall P es -> forall es' ts ev,
    follow_list_with (follow_x W G) es = Ok (es', ts, ev) ->
    Forall (nlam_ok W G) (nested_args_with (follow_x W) G es es').
  Proof.
    induction 1 as [|x xs Hx _ IH]; intros es' ts ev H.
    - cbn in H. inversion H; subst. constructor.
    - rewrite fl_cons in H. apply bind_ok in H. destruct H as ([[[x' t] aux] ev1] & H1 & H).
      apply bind_ok in H. destruct H as ([[xs' ts'] evs] & H2 & H). inversion H; subst.
      cbn [nested_args_with]. constructor; [|eapply IH; eauto].
      unfold nlam_ok. cbn [snd fst].
      destruct x; try exact I. destruct ps as [|p [|q r]]; try exact I.
      rewrite fx_Lambda in H1. inversion H1; subst. exists x. split; [reflexivity|].
      intros item b' t0 ev0 Hk. apply bind_ok in Hk. destruct Hk as ([[[b1 t1] aux1] ev2] & Hb & Hk).
      inversion Hk; subst. destruct Hx as [_ Hsub]. cbn in Hsub. eapply Hsub; eauto.
  Qed.

  Lemma follow_of_fx G e e' t aux ev : follow_x W G e = Ok (e', t, aux, ev) -> follow W G e = Ok (e', t, ev).
  Proof. intros H. unfold follow. rewrite H. reflexivity. Qed.

  (* process_method_call, read against the relation *)
  Lemma pmc_norm G v v' tv ev0 a args args' kwn kwv kwv' aargs akwv out t ev :
    norm W G v v' -> follow W G v = Ok (v', tv, ev0) ->
    Forall2 (norm W G) args args' -> Forall2 (norm W G) kwv kwv' ->
    map aexpr aargs = args' -> map aexpr akwv = kwv' ->
    Forall (nlam_ok W G) aargs -> Forall (nlam_ok W G) akwv ->
    process_method_call W v' tv a aargs kwn akwv = Ok (out, t, ev) ->
    norm W G (Call (Attr v a) args kwn kwv) out.
  Proof.
    intros Hv Hfv Ha Hk Ea Ek Hna Hnk H. unfold process_method_call in H.
    apply bind_ok in H. destruct H as (best & Hloop & H).
    assert (Hkws : map (hk aexpr) (zip_kw kwn akwv) = zipk kwn kwv').
    { rewrite zip_kw_combine. unfold hk, zipk. rewrite combine_map_snd. rewrite Ek. reflexivity. }
    assert (Hnkws : Forall (fun kv => nlam_ok W G (snd kv)) (zip_kw kwn akwv)).
    { clear -Hnk. revert kwn. induction Hnk as [|x xs Hx _ IH]; intros [|k ks]; cbn; constructor; auto. }
    destruct best as [r|].
    - pose proof (loop_ok W a (Attr v' a) aargs (zip_kw kwn akwv) (candidates W tv) (candidates W tv) None r
                          (incl_refl _) (fun r0 E => match E with end) ) as Hok.
      assert (Hres : res_ok W a (Attr v' a) aargs (zip_kw kwn akwv) (candidates W tv) r).
      { eapply loop_ok; [apply incl_refl | | exact Hloop]. intros r0 E. discriminate. }
      clear Hok.
      assert (Hout : exists bo m, mr_obj r = Some (bo, m) /\ rewritten (mr_node r) out).
      { inversion Hres as [r' bo mcls m args2 kws2 _ _ Ho _ _ | r' c item targs mcls m x kws2 p k b' t' ev' _ _ _ Ho _ _ _ _ _];
          subst; rewrite Ho in H; destruct (callbacks_of W tv a _) as [cbo cm];
          match type of H with context [method_callbacks W ?b ?mm ?n] =>
            pose proof (method_callbacks_rewritten W b mm n) as Hrw;
            destruct (method_callbacks W b mm n) as [site evs] end;
          inversion H; subst; eauto. }
      destruct Hout as (bo0 & m0 & Ho0 & Hrw).
      inversion Hres as [r' bo mcls m args2 kws2 Hin Hm Ho Hf Hn | r' c item targs mcls m x kws2 p k b' t' ev' Hin Hc Hm Ho Hf Hx Hkk Hop Hn]; subst.
      + (* filled from the signature *)
        pose proof (fill_map aexpr mk_const_arg Const (fun c => eq_refl) _ _ _ _ _ Hf) as Hf'.
        rewrite Hkws in Hf'.
        eapply norm_method_typed; eauto.
        rewrite Hn. unfold node_of.
        pose proof (fill_complete (m_params m) (Attr v' a) _ _ _ _ (gmc_sig W bo a mcls m Hwf Hm) Hf') as Hc.
        unfold hk in Hc. rewrite !map_map in Hc. cbn [fst snd] in Hc. exact Hc.
      + (* a stream operator with its lambda *)
        pose proof (fill_map aexpr mk_const_arg Const (fun c => eq_refl) _ _ _ _ _ Hf) as Hf'.
        rewrite Hkws in Hf'.
        assert (Hxok : nlam_ok W G x).
        { destruct (fill_go_Forall mk_const_arg (nlam_ok W G) (m_params m) (fun c => I) 0 aargs (zip_kw kwn akwv) [x] kws2 Hna Hnkws Hf) as [Hx1 _].
          inversion Hx1; assumption. }
        unfold nlam_ok in Hxok. rewrite Hx in Hxok. destruct Hxok as (b & Hfst & Hbody).
        cbn [map] in Hf'. change (aexpr x) with (fst x) in Hf'. rewrite Hfst in Hf'.
        eapply norm_method_operator; eauto.
        rewrite Hn in Hrw. unfold hk. rewrite !map_map. cbn [fst snd]. exact Hrw.
    - (* no result: only when the method is not known *)
      inversion H; subst. eapply norm_method_unknown; eauto.
      intros (bo & mcls & m & t0 & Hin & Hm & Hr).
      eapply loop_known; eauto.
  Qed.

  Lemma rewritten_is_call s out : rewritten s out -> is_call s = true -> is_call out = true.
  Proof.
    induction 1 as [|s s1 rw _ IH]; intros Hc; [exact Hc|]. specialize (IH Hc).
    destruct rw; cbn; [exact IH | | reflexivity].
    destruct s1; try discriminate. cbn.
    match goal with |- context [match ?f with _ => _ end] => destruct f end; reflexivity.
  Qed.

  Lemma pmc_is_call v' tv a aargs kwn akwv out t ev :
    process_method_call W v' tv a aargs kwn akwv = Ok (out, t, ev) -> is_call out = true.
  Proof.
    intros H. unfold process_method_call in H. apply bind_ok in H. destruct H as (best & Hloop & H).
    destruct best as [r|]; [|inversion H; reflexivity].
    assert (Hres : res_ok W a (Attr v' a) aargs (zip_kw kwn akwv) (candidates W tv) r).
    { eapply loop_ok; [apply incl_refl | | exact Hloop]. intros r0 E. discriminate. }
    assert (Hn : is_call (mr_node r) = true) by (inversion Hres; subst; match goal with Hx : mr_node _ = _ |- _ => rewrite Hx end; reflexivity).
    destruct (mr_obj r) as [[bo m]|].
    - destruct (callbacks_of W tv a (bo, m)) as [cbo cm].
      pose proof (method_callbacks_rewritten W cbo cm (mr_node r)) as Hrw.
      destruct (method_callbacks W cbo cm (mr_node r)) as [site evs]. inversion H; subst.
      eapply rewritten_is_call; eauto.
    - inversion H; subst. exact Hn.
  Qed.

  Ltac inv_bind H x H1 :=
    apply bind_ok in H; destruct H as (x & H1 & H).

  Ltac crush1 H :=
    let y := fresh "y" in let Hy := fresh "Hy" in
    apply bind_ok in H; destruct H as (y & Hy & H);
    try (first [destruct y as [[[? ?] ?] ?] | destruct y as [[? ?] ?]]); cbv beta iota in H.
  Ltac crush H := repeat crush1 H.

  (* the visited callee is a name only if the callee is that name *)
  Lemma fx_is_name G e e' t aux ev x :
    follow_x W G e = Ok (e', t, aux, ev) -> e' = Name x -> e = Name x.
  Proof.
    intros H ->. destruct e.
    - rewrite fx_Name in H. inversion H; reflexivity.
    - rewrite fx_Const in H. inversion H.
    - rewrite fx_Attr in H. crush H. inversion H.
    - exfalso.
      destruct (callee_cases e) as [(v & a & ->)|[(v & a & s & ->)|[(ps & b & ->)|Hplain]]].
      + rewrite fx_Call_method in H. crush H. inversion H; subst.
        match goal with Hp : process_method_call _ _ _ _ _ _ _ = _ |- _ => apply pmc_is_call in Hp; discriminate end.
      + rewrite fx_Call_param in H. crush H.
        destruct (is_any _ && param_call_guarded); [inversion H|].
        crush H. inversion H; subst.
        match goal with Hp : process_parameterized _ _ _ _ _ _ _ _ = _ |- _ => unfold process_parameterized in Hp;
          destruct (get_method_and_class _ _ _) as [[? [?|[?|]]]|]; try discriminate;
          destruct (literal_eval _); try discriminate; inversion Hp as [[Hn Ht He]] end.
        destruct (cb_rw _); discriminate.
      + rewrite fx_Call_lambda in H. crush H. destruct (called_ok ps args kwn kwv); [crush H|]; inversion H.
      + rewrite fx_Call_plain in H by exact Hplain. crush H.
        match type of H with context [match ?f with _ => _ end] => destruct f end; try (inversion H; fail).
        destruct (find_func (w_ft W) id) as [fn|]; [|inversion H].
        crush H. inversion H; subst.
        match goal with Hp : process_function_call _ _ _ _ _ = _ |- _ => unfold process_function_call in Hp;
          destruct (fill Const _ _ _) as [[? ?]|]; try discriminate;
          destruct (f_proc fn) as [id'|]; cbn in Hp; inversion Hp as [[Hn Ht He]] end.
        destruct (cb_rw _); discriminate.
    - rewrite fx_Lambda in H. inversion H.
    - rewrite fx_UnaryOp in H. crush H. destruct (unary_uses_lookup || _); inversion H.
    - rewrite fx_BinOp in H. crush H. inversion H.
    - rewrite fx_BoolOp in H. crush H. inversion H.
    - rewrite fx_Compare in H. crush H. inversion H.
    - rewrite fx_IfExp in H. crush H. inversion H.
    - rewrite fx_Tuple in H. crush H. inversion H.
    - rewrite fx_List in H. crush H. inversion H.
    - rewrite fx_Dict in H. crush H. inversion H.
    - rewrite fx_Subscript in H. crush H. inversion H.
    - rewrite fx_ListComp in H. crush H. inversion H.
    - rewrite fx_GenExp in H. crush H. inversion H.
    - rewrite fx_CompFor in H. crush H. inversion H.
    - rewrite fx_Raw in H. inversion H.
    - rewrite fx_Other in H. crush H. inversion H.
  Qed.

  (* congruence, node class by node class *)
  Section Cong.
    Variable G : tenv.
    Notation N := (norm W G).
    Lemma nc_Attr v v' a : N v v' -> N (Attr v a) (Attr v' a).
    Proof. intros. apply (norm_cong W G (Attr v a) [v']); try reflexivity. cbn. auto. Qed.
    Lemma nc_UnaryOp o x x' : N x x' -> N (UnaryOp o x) (UnaryOp o x').
    Proof. intros. apply (norm_cong W G (UnaryOp o x) [x']); try reflexivity. cbn. auto. Qed.
    Lemma nc_BinOp o l r l' r' : N l l' -> N r r' -> N (BinOp o l r) (BinOp o l' r').
    Proof. intros. apply (norm_cong W G (BinOp o l r) [l'; r']); try reflexivity. cbn. auto. Qed.
    Lemma nc_BoolOp o es es' : Forall2 N es es' -> N (BoolOp o es) (BoolOp o es').
    Proof. intros. apply (norm_cong W G (BoolOp o es) es'); try reflexivity. cbn. auto. Qed.
    Lemma nc_Compare l ops rs l' rs' : N l l' -> Forall2 N rs rs' -> N (Compare l ops rs) (Compare l' ops rs').
    Proof. intros. apply (norm_cong W G (Compare l ops rs) (l' :: rs')); try reflexivity. cbn. auto. Qed.
    Lemma nc_IfExp c t f c' t' f' : N c c' -> N t t' -> N f f' -> N (IfExp c t f) (IfExp c' t' f').
    Proof. intros. apply (norm_cong W G (IfExp c t f) [c'; t'; f']); try reflexivity. cbn. auto. Qed.
    Lemma nc_Tuple es es' : Forall2 N es es' -> N (Tuple es) (Tuple es').
    Proof. intros. apply (norm_cong W G (Tuple es) es'); try reflexivity. cbn. auto. Qed.
    Lemma nc_List es es' : Forall2 N es es' -> N (List es) (List es').
    Proof. intros. apply (norm_cong W G (List es) es'); try reflexivity. cbn. auto. Qed.
    Lemma nc_Dict ks vs ks' vs' : Forall2 N ks ks' -> Forall2 N vs vs' -> N (Dict ks vs) (Dict ks' vs').
    Proof.
      intros Hk Hv. pose proof (Forall2_length' _ _ _ Hk) as Hl.
      replace (Dict ks' vs') with (rebuild (Dict ks vs) (ks' ++ vs')).
      - apply norm_cong; try reflexivity. cbn. apply Forall2_app; assumption.
      - cbn. rewrite <- Hl. rewrite firstn_app_len, skipn_app_len by reflexivity. reflexivity.
    Qed.
    Lemma nc_Subscript v s v' s' : N v v' -> N s s' -> N (Subscript v s) (Subscript v' s').
    Proof. intros. apply (norm_cong W G (Subscript v s) [v'; s']); try reflexivity. cbn. auto. Qed.
    Lemma nc_ListComp x gs x' gs' : N x x' -> Forall2 N gs gs' -> N (ListComp x gs) (ListComp x' gs').
    Proof. intros. apply (norm_cong W G (ListComp x gs) (x' :: gs')); try reflexivity. cbn. auto. Qed.
    Lemma nc_GenExp x gs x' gs' : N x x' -> Forall2 N gs gs' -> N (GenExp x gs) (GenExp x' gs').
    Proof. intros. apply (norm_cong W G (GenExp x gs) (x' :: gs')); try reflexivity. cbn. auto. Qed.
    Lemma nc_CompFor t i ifs a t' i' ifs' :
      N t t' -> N i i' -> Forall2 N ifs ifs' -> N (CompFor t i ifs a) (CompFor t' i' ifs' a).
    Proof. intros. apply (norm_cong W G (CompFor t i ifs a) (t' :: i' :: ifs')); try reflexivity. cbn. auto. Qed.
    Lemma nc_Other cls ats cs cs' : Forall2 N cs cs' -> N (Other cls ats cs) (Other cls ats cs').
    Proof. intros. apply (norm_cong W G (Other cls ats cs) cs'); try reflexivity. cbn. auto. Qed.
  End Cong.

  Theorem follow_norm : forall e, P e.
  Proof.
    induction e using expr_ind'; (split; [intros G e' t aux ev HE | try exact I]).
    - (* Name *) rewrite fx_Name in HE. inversion HE; subst. apply norm_leaf; reflexivity.
    - (* Const *) rewrite fx_Const in HE. inversion HE; subst. apply norm_leaf; reflexivity.
    - (* Attr *)
      rewrite fx_Attr in HE. crush HE. inversion HE; subst.
      apply nc_Attr. eapply (proj1 IHe); eauto.
    - cbn. apply IHe.
    - (* Call *)
      destruct (callee_cases e) as [(v & a & ->)|[(v & a & s & ->)|[(ps & b & ->)|Hplain]]].
      + rewrite fx_Call_method in HE.
        inv_bind HE x Hv. destruct x as [[[v' tv] auxv] ev0].
        inv_bind HE ta Hat. inv_bind HE x Hargs. destruct x as [[args' ts1] ev1].
        inv_bind HE x Hkwv. destruct x as [[kwv' ts2] ev2].
        inv_bind HE x Hp. destruct x as [[node tn] ev3]. inversion HE; subst.
        destruct IHe as [_ Hsub]. cbn in Hsub.
        eapply pmc_norm; try exact Hp.
        * eapply Hsub; eauto.
        * eapply follow_of_fx; eauto.
        * eapply fl_norm; eauto.
        * eapply fl_norm; eauto.
        * apply nested_args_exprs. symmetry. eapply fl_length; eauto.
        * apply nested_args_exprs. symmetry. eapply fl_length; eauto.
        * eapply nl_ok; eauto.
        * eapply nl_ok; eauto.
      + rewrite fx_Call_param in HE.
        inv_bind HE x Hv. destruct x as [[[v' tv] auxv] ev0].
        inv_bind HE ta Hat. inv_bind HE x Hs. destruct x as [[[s' ts] auxs] evs].
        inv_bind HE tsub Hst. inv_bind HE x Hargs. destruct x as [[args' ts1] ev1].
        inv_bind HE x Hkwv. destruct x as [[kwv' ts2] ev2].
        destruct IHe as [_ [Hqs Hqv]].
        pose proof (Hqv _ _ _ _ _ Hv) as Hnv. pose proof (Hqs _ _ _ _ _ Hs) as Hns.
        pose proof (fl_norm G _ H _ _ _ Hargs) as Hna. pose proof (fl_norm G _ H0 _ _ _ Hkwv) as Hnk.
        destruct (is_any tv && param_call_guarded).
        * inversion HE; subst. apply norm_call_untyped; auto.
          apply nc_Subscript; [apply nc_Attr; exact Hnv | exact Hns].
        * inv_bind HE x Hp. destruct x as [[node tn] ev3]. inversion HE; subst.
          eapply norm_call_parameterized; eauto.
          unfold process_parameterized in Hp.
          destruct (get_method_and_class (w_ct W) tv a) as [[c0 [m0|[id|]]]|]; try discriminate.
          destruct (literal_eval s'); [|discriminate]. inversion Hp; subst. econstructor. constructor.
      + (* an immediately called lambda *)
        rewrite fx_Call_lambda in HE.
        inv_bind HE x Hargs. destruct x as [[args' ts1] ev1].
        inv_bind HE x Hkwv. destruct x as [[kwv' ts2] ev2].
        pose proof (fl_norm G _ H _ _ _ Hargs) as Hna. pose proof (fl_norm G _ H0 _ _ _ Hkwv) as Hnk.
        destruct (called_ok ps args kwn kwv) eqn:Eok.
        * inv_bind HE x Hb. destruct x as [[[b' tb] auxb] ev3]. inversion HE; subst.
          assert (kwn = [] /\ kwv = []).
          { unfold called_ok in Eok. destruct kwn; destruct kwv; try (rewrite ?andb_false_r in Eok; discriminate); auto. }
          destruct H1 as [-> ->]. cbn in Hkwv. inversion Hkwv; subst.
          eapply norm_called_lambda; eauto.
          destruct IHe as [_ Hsub]. cbn in Hsub. eapply Hsub; eauto.
        * inversion HE; subst. apply norm_call_untyped; auto. apply norm_leaf; reflexivity.
      + rewrite fx_Call_plain in HE by exact Hplain.
        inv_bind HE x Hf. destruct x as [[[f' tf] auxf] ev0].
        inv_bind HE x Hargs. destruct x as [[args' ts1] ev1].
        inv_bind HE x Hkwv. destruct x as [[kwv' ts2] ev2].
        pose proof (proj1 IHe _ _ _ _ _ Hf) as Hnf.
        pose proof (fl_norm G _ H _ _ _ Hargs) as Hna. pose proof (fl_norm G _ H0 _ _ _ Hkwv) as Hnk.
        pose proof (fx_is_name G e f' tf auxf ev0) as Hname.
        assert (Hfn : forall x fn, f' = Name x -> find_func (w_ft W) x = Some fn ->
                        forall node tn ev3, process_function_call W fn args' kwn kwv' = Ok (node, tn, ev3) ->
                        norm W G (Call e args kwn kwv) node).
        { intros x fn -> Hff node tn ev3 Hp. rewrite (Hname x Hf eq_refl).
          unfold process_function_call in Hp. rewrite zfix_combine in Hp.
          destruct (fill Const (f_params fn) args' (combine kwn kwv')) as [[a2 k2]|pn] eqn:Efill; [|discriminate].
          pose proof (find_func_name _ _ _ Hff) as Hn. rewrite Hn in Hp.
          pose proof (run_cb_rewritten W (f_proc fn) (Call (Name x) a2 (map fst k2) (map snd k2))) as Hrw.
          destruct (run_cb W (f_proc fn) (Call (Name x) a2 (map fst k2) (map snd k2))) as [site evs].
          inversion Hp; subst. eapply norm_call_function; eauto.
          apply fill_complete; [|exact Efill].
          destruct Hwf as [_ Hfs]. rewrite Forall_forall in Hfs. apply Hfs. eapply find_func_In; eauto. }
        assert (Hun : (match e with Attr _ _ => False | Name x => find_func (w_ft W) x = None | _ => True end) ->
                      norm W G (Call e args kwn kwv) (Call f' args' kwn kwv')).
        { intros Hc. apply norm_call_untyped; auto. }
        destruct f'; try (inversion HE; subst; apply Hun; destruct e; try exact I; try contradiction;
                          match goal with Hx : follow_x W G (Name ?i) = _ |- _ => rewrite fx_Name in Hx; inversion Hx end; fail).
        pose proof (Hname id Hf eq_refl) as ->.
        destruct (find_func (w_ft W) id) as [fn|] eqn:Eff.
        * inv_bind HE x Hp. destruct x as [[node tn] ev3]. inversion HE; subst. eapply Hfn; eauto.
        * inversion HE; subst. apply Hun. first [exact Eff | reflexivity].
    - (* Lambda *) rewrite fx_Lambda in HE. inversion HE; subst. apply norm_leaf; reflexivity.
    - cbn. apply IHe.
    - (* UnaryOp *)
      rewrite fx_UnaryOp in HE. crush HE. destruct (unary_uses_lookup || _); inversion HE; subst.
      apply nc_UnaryOp. eapply (proj1 IHe); eauto.
    - (* BinOp *)
      rewrite fx_BinOp in HE. crush HE. inversion HE; subst.
      apply nc_BinOp; [eapply (proj1 IHe1); eauto | eapply (proj1 IHe2); eauto].
    - (* BoolOp *)
      rewrite fx_BoolOp in HE. crush HE. inversion HE; subst. apply nc_BoolOp. eapply fl_norm; eauto.
    - (* Compare *)
      rewrite fx_Compare in HE. crush HE. inversion HE; subst.
      apply nc_Compare; [eapply (proj1 IHe); eauto | eapply fl_norm; eauto].
    - (* IfExp *)
      rewrite fx_IfExp in HE. crush HE. inversion HE; subst.
      apply nc_IfExp; [eapply (proj1 IHe1); eauto | eapply (proj1 IHe2); eauto | eapply (proj1 IHe3); eauto].
    - (* Tuple *)
      rewrite fx_Tuple in HE. crush HE. inversion HE; subst. apply nc_Tuple. eapply fl_norm; eauto.
    - (* List *)
      rewrite fx_List in HE. crush HE. inversion HE; subst. apply nc_List. eapply fl_norm; eauto.
    - (* Dict *)
      rewrite fx_Dict in HE. crush HE. inversion HE; subst. apply nc_Dict; eapply fl_norm; eauto.
    - (* Subscript *)
      rewrite fx_Subscript in HE. crush HE. inversion HE; subst.
      apply nc_Subscript; [eapply (proj1 IHe1); eauto | eapply (proj1 IHe2); eauto].
    - cbn. split; [apply IHe2|]. destruct e1; try exact I. apply (proj2 IHe1).
    - (* ListComp *)
      rewrite fx_ListComp in HE. crush HE. inversion HE; subst.
      apply nc_ListComp; [eapply (proj1 IHe); eauto | eapply fl_norm; eauto].
    - (* GenExp *)
      rewrite fx_GenExp in HE. crush HE. inversion HE; subst.
      apply nc_GenExp; [eapply (proj1 IHe); eauto | eapply fl_norm; eauto].
    - (* CompFor *)
      rewrite fx_CompFor in HE. crush HE. inversion HE; subst.
      apply nc_CompFor; [eapply (proj1 IHe1); eauto | eapply (proj1 IHe2); eauto | eapply fl_norm; eauto].
    - (* Raw *) rewrite fx_Raw in HE. inversion HE; subst. apply norm_leaf; reflexivity.
    - (* Other *)
      rewrite fx_Other in HE. crush HE. inversion HE; subst. apply nc_Other. eapply fl_norm; eauto.
  Qed.
End Main.

(* ---------- exported statements ---------- *)

Theorem calls_normalised_x W G e e' t ev :
  wf_sigs W -> follow W G e = Ok (e', t, ev) -> norm W G e e'.
Proof.
  intros Hwf H. unfold follow in H. apply bind_ok in H. destruct H as ([[[e1 t1] aux1] ev1] & H1 & H).
  inversion H; subst. exact (proj1 (follow_norm W Hwf e) G _ _ _ _ H1).
Qed.

(* through the stream operators themselves: the emitted lambda is the user's lambda with its body normalised
   under the stream's item type *)
Theorem stream_calls_normalised_x W op G0 item p b lam t ev :
  wf_sigs W -> stream_op W op G0 item (Lambda [p] b) = Ok (lam, t, ev) ->
  exists b', lam = Lambda [p] b' /\ norm W ((p, item) :: G0) b b'.
Proof.
  intros Hwf H. cbn [stream_op] in H. apply bind_ok in H. destruct H as ([[b' tb] ev'] & Hf & H).
  exists b'. split; [|eapply calls_normalised_x; eauto].
  unfold finish_op in H. destruct (negb (check_ast (Lambda [p] b'))); [discriminate|].
  destruct op; try discriminate; try (inversion H; reflexivity).
  destruct (ty_eqb tb TBool); inversion H; reflexivity.
Qed.

(* what a callback can turn a zero-argument method call into: nothing that is again a zero-argument method call
   on the same receiver unless the site already was one (used by the negative Example of Properties/C07.v) *)
Lemma rewritten_to_bare_method s v a :
  rewritten s (Call (Attr v a) [] [] []) -> exists a0, s = Call (Attr v a0) [] [] [].
Proof.
  intros H. remember (Call (Attr v a) [] [] []) as out eqn:E. revert a E.
  induction H as [|s s1 rw _ IH]; intros a E; [eauto|].
  destruct rw; cbn in E.
  - eauto.
  - destruct s1 as [| | |f args kwn kwv| | | | | | | | | | | | | | |]; try (eapply IH; eauto; fail).
    destruct f; try (eapply IH; eauto; fail); inversion E; subst; eapply IH; eauto.
  - discriminate.
Qed.

(* C07, whole queries: the tree [follow] emits relates to the tree it was given by [norm] - a separately
   written relation that says, node class by node class, what the property demands:

     - every call site the follower has a signature for (method of a class of the table found for the receiver's
       type - the type the follower computed -, registered function), at ANY lambda nesting depth, is emitted as
       [f(values...)] with [values] = Signature.bind + apply_defaults ([bind_full]), no keyword left, the user's own
       positional values kept - followed by whatever the callbacks of that site return (the rewrite menu);
     - a call of one of the library's own stream operators with a lambda keeps exactly the user's arguments (the
       lambda, possibly given as [f=...]), the lambda body being normalised in turn under the element type;
     - a method call is left alone only if no class of the receiver's type has a method of that name whose return
       annotation resolves ([known]);
     - everything else is rebuilt from its normalised children and nothing else changes.

   Proved by induction over the model's (structural) recursion, with [fill_is_bind] at the call sites. *)
From FA.Base Require Import PyAst Value Induct Traverse.
From FA.Gen Require Import TablesUtil TablesTypes.
From FA.Model Require Import TypeDefs TypeFollow.
From FA.Proofs Require Import TraverseFacts TypeFollowFacts TypeFollowFill.
From Coq Require Import Lia.

(* ---------- what callbacks may do to a call site: the menu, any number of times ---------- *)

Inductive rewritten : expr -> expr -> Prop :=
 | rw_refl s : rewritten s s
 | rw_step s s1 rw : rewritten s s1 -> rewritten s (apply_rw rw s1).

(* ---------- positional completeness of one emitted call ---------- *)

Definition zipk {B} (kwn : list (option string)) (kwv : list B) : list (option string * B) := combine kwn kwv.

(* [site] is the call of [f'] that Signature.bind + apply_defaults describes for the user's (followed) arguments:
   the user's positional values stay in place whatever the call; for every call shape Python accepts all declared
   parameters are present positionally in declaration order and no keyword is left *)
Definition complete_call (ps : list param) (f' : expr) (uargs : list expr) (ukws : list (option string * expr))
           (site : expr) : Prop :=
  exists args2 kwn2 kwv2,
    site = Call f' args2 kwn2 kwv2 /\
    firstn (length uargs) args2 = uargs /\
    (acceptable ps uargs ukws -> bind_full Const ps uargs ukws = BOk args2 /\ kwn2 = [] /\ kwv2 = []).

Definition is_leaf (e : expr) : bool :=
  match e with Name _ | Const _ | Raw _ | Lambda _ _ => true | _ => false end.
Definition is_call (e : expr) : bool := match e with Call _ _ _ _ => true | _ => false end.

Definition own_operator (o : opkind) : Prop := o = OpSelect \/ o = OpSelectMany \/ o = OpWhere.

Section Norm.
  Variable W : world.
  Let ct := w_ct W.

  (* the follower has a signature and a type for [tv.a(...)] *)
  Definition known (tv : ty) (a : string) : Prop :=
    exists bo mcls m t, In bo (candidates W tv) /\ get_method_and_class ct bo a = Some (mcls, MMethod m) /\
                        resolve_type_vars ct (match m_ret m with Some r => r | None => TAny end) bo mcls = Some t.

  Inductive norm (G : tenv) : expr -> expr -> Prop :=
   | norm_leaf e : is_leaf e = true -> norm G e e                      (* a lambda that is nobody's operator argument is not entered *)
   | norm_cong e cs' :                                                 (* every node class but Call: rebuilt from its children *)
       is_leaf e = false -> is_call e = false -> Forall2 (norm G) (children e) cs' -> norm G e (rebuild e cs')
   | norm_call_untyped f args kwn kwv f' args' kwv' :                  (* callee without a signature *)
       (match f with Attr _ _ => False | Name x => find_func (w_ft W) x = None | _ => True end) ->
       norm G f f' -> Forall2 (norm G) args args' -> Forall2 (norm G) kwv kwv' ->
       norm G (Call f args kwn kwv) (Call f' args' kwn kwv')
   | norm_call_function x fn args kwn kwv args' kwv' site0 out :       (* registered function *)
       find_func (w_ft W) x = Some fn ->
       Forall2 (norm G) args args' -> Forall2 (norm G) kwv kwv' ->
       complete_call (f_params fn) (Name x) args' (zipk kwn kwv') site0 ->
       rewritten site0 out ->
       norm G (Call (Name x) args kwn kwv) out
   | norm_call_parameterized v a s args kwn kwv v' s' args' kwv' out : (* obj.prop[params](args): subscript removed, arguments as given *)
       norm G v v' -> norm G s s' -> Forall2 (norm G) args args' -> Forall2 (norm G) kwv kwv' ->
       rewritten (Call (Attr v' a) args' kwn kwv') out ->
       norm G (Call (Subscript (Attr v a) s) args kwn kwv) out
   | norm_method_unknown v a args kwn kwv v' args' kwv' tv ev :        (* no class of the receiver's type knows the method *)
       norm G v v' -> Forall2 (norm G) args args' -> Forall2 (norm G) kwv kwv' ->
       follow W G v = Ok (v', tv, ev) -> ~ known tv a ->
       norm G (Call (Attr v a) args kwn kwv) (Call (Attr v' a) args' kwn kwv')
   | norm_method_typed v a args kwn kwv v' args' kwv' tv ev bo mcls m site0 out :
       norm G v v' -> Forall2 (norm G) args args' -> Forall2 (norm G) kwv kwv' ->
       follow W G v = Ok (v', tv, ev) ->
       In bo (candidates W tv) -> get_method_and_class ct bo a = Some (mcls, MMethod m) ->
       complete_call (m_params m) (Attr v' a) args' (zipk kwn kwv') site0 ->
       rewritten site0 out ->
       norm G (Call (Attr v a) args kwn kwv) out
   | norm_method_operator v a args kwn kwv v' args' kwv' tv ev c item targs mcls m p b b' kws2 out :
       norm G v v' -> Forall2 (norm G) args args' -> Forall2 (norm G) kwv kwv' ->
       follow W G v = Ok (v', tv, ev) ->
       In (TCls c (item :: targs)) (candidates W tv) -> is_collection ct c = true ->
       get_method_and_class ct (TCls c (item :: targs)) a = Some (mcls, MMethod m) -> own_operator (m_op m) ->
       (* the walk leaves the operator's arguments as the user wrote them: the lambda, nothing filled in *)
       fill Const (m_params m) args' (zipk kwn kwv') = inl ([Lambda [p] b], kws2) ->
       norm ((p, item) :: G) b b' ->                                   (* the body, one lambda level deeper *)
       rewritten (Call (Attr v' a) [Lambda [p] b'] (map fst kws2) (map snd kws2)) out ->
       norm G (Call (Attr v a) args kwn kwv) out.
End Norm.

(* ---------- the walk commutes with forgetting the annotations of the arguments ---------- *)

Section FillMap.
  Context {A B : Type}.
  Variable h : A -> B.
  Variable mkA : const -> A.
  Variable mkB : const -> B.
  Hypothesis Hmk : forall c, h (mkA c) = mkB c.

  Definition hk (kv : option string * A) : option string * B := (fst kv, h (snd kv)).

  Lemma find_keyword_map kws n :
    find_keyword (map hk kws) n =
      match find_keyword kws n with Some (a, r) => Some (h a, map hk r) | None => None end.
  Proof.
    induction kws as [|[k v] t IH]; cbn; [reflexivity|].
    destruct (ostr_eqb k (Some n)); [reflexivity|]. rewrite IH.
    destruct (find_keyword t n) as [[a r]|]; reflexivity.
  Qed.

  Lemma fill_go_map ps : forall i args kws,
    fill_go mkB ps i (map h args) (map hk kws) =
      match fill_go mkA ps i args kws with
      | inl (a2, k2) => inl (map h a2, map hk k2)
      | inr p => inr p
      end.
  Proof.
    induction ps as [|p r IH]; intros i args kws; cbn [fill_go]; [reflexivity|].
    destruct (skipped (p_name p)); [apply IH|].
    rewrite map_length. destruct (Nat.leb (length args) i); [|apply IH].
    rewrite find_keyword_map. destruct (find_keyword kws (p_name p)) as [[a kws']|].
    - rewrite <- IH. rewrite map_app. reflexivity.
    - destruct (p_default p); [|reflexivity]. rewrite <- IH. rewrite map_app. cbn. rewrite Hmk. reflexivity.
  Qed.

  Lemma fill_map ps args kws a2 k2 :
    fill mkA ps args kws = inl (a2, k2) -> fill mkB ps (map h args) (map hk kws) = inl (map h a2, map hk k2).
  Proof. unfold fill. intros H. rewrite fill_go_map, H. reflexivity. Qed.
End FillMap.

(* a property of all the arguments (and of the default constants) holds of everything the walk returns *)
Lemma fill_go_Forall {A} (mk : const -> A) (P : A -> Prop) ps :
  (forall c, P (mk c)) ->
  forall i args kws a2 k2,
    Forall P args -> Forall (fun kv => P (snd kv)) kws ->
    fill_go mk ps i args kws = inl (a2, k2) -> Forall P a2 /\ Forall (fun kv => P (snd kv)) k2.
Proof.
  intros Hmk. induction ps as [|p r IH]; intros i args kws a2 k2 Ha Hk H; cbn [fill_go] in H.
  - inversion H; subst. auto.
  - destruct (skipped (p_name p)); [eapply IH; eauto|].
    destruct (Nat.leb (length args) i); [|eapply IH; eauto].
    destruct (find_keyword kws (p_name p)) as [[a kws']|] eqn:Ef.
    + assert (P a /\ Forall (fun kv => P (snd kv)) kws').
      { clear -Ef Hk. revert a kws' Ef. induction kws as [|[k v] t IHk]; cbn; intros a kws' Ef; [discriminate|].
        inversion Hk; subst. destruct (ostr_eqb k (Some (p_name p))).
        - inversion Ef; subst. auto.
        - destruct (find_keyword t (p_name p)) as [[a' r']|]; [|discriminate]. inversion Ef; subst.
          destruct (IHk H2 _ _ eq_refl). split; auto. }
      destruct H0. eapply IH; [| |exact H]; try apply Forall_app_intro; auto.
    + destruct (p_default p); [|discriminate]. eapply IH; [| |exact H]; try apply Forall_app_intro; auto.
Qed.

Lemma combine_map_snd {A B} (h : A -> B) kwn (kwv : list A) :
  map (fun kv : option string * A => (fst kv, h (snd kv))) (combine kwn kwv) = combine kwn (map h kwv).
Proof. revert kwv. induction kwn as [|k ks IH]; intros [|v vs]; cbn; try reflexivity; try (rewrite IH; reflexivity). Qed.

Lemma zip_kw_combine kwn kwv : zip_kw kwn kwv = combine kwn kwv.
Proof. revert kwv. induction kwn as [|k ks IH]; intros [|v vs]; cbn; try reflexivity; try (rewrite IH; reflexivity). Qed.

Lemma zfix_combine (kwn : list (option string)) (kwv : list expr) :
  (fix z (ks : list (option string)) (vs : list expr) :=
     match ks, vs with k :: ks', v :: vs' => (k, v) :: z ks' vs' | _, _ => [] end) kwn kwv = combine kwn kwv.
Proof. revert kwv. induction kwn as [|k ks IH]; intros [|v vs]; cbn; try reflexivity; try (rewrite IH; reflexivity). Qed.

Lemma rewritten_trans a b c : rewritten a b -> rewritten b c -> rewritten a c.
Proof. intros H1 H2. induction H2; [assumption|]. econstructor. eauto. Qed.

Lemma run_cb_rewritten W cb site : rewritten site (fst (run_cb W cb site)).
Proof. destruct cb; cbn; [econstructor; constructor | constructor]. Qed.

Lemma method_callbacks_rewritten W bo m site : rewritten site (fst (method_callbacks W bo m site)).
Proof.
  unfold method_callbacks.
  pose proof (run_cb_rewritten W (class_cb (w_ct W) bo) site) as H1.
  destruct (run_cb W (class_cb (w_ct W) bo) site) as [s1 e1]. cbn in H1.
  pose proof (run_cb_rewritten W (m_cb m) s1) as H2.
  destruct (run_cb W (m_cb m) s1) as [s2 e2]. cbn in *. eapply rewritten_trans; eauto.
Qed.

(* signatures have pairwise distinct parameter names (Python guarantees it) *)
Definition sig_ok (ps : list param) : Prop := NoDup (map p_name (eff ps)).
Definition wf_sigs (W : world) : Prop :=
  Forall (fun k => Forall (fun m => sig_ok (m_params m)) (c_methods k)) (w_ct W) /\
  Forall (fun f => sig_ok (f_params f)) (w_ft W).

Lemma find_cls_In ct c k : find_cls ct c = Some k -> In k ct.
Proof.
  induction ct as [|x r IH]; cbn; intros H; [discriminate|].
  destruct (String.eqb (c_name x) c); [inversion H; subst; left; reflexivity | right; auto].
Qed.

Lemma find_method_In ms n m : find_method ms n = Some m -> In m ms.
Proof.
  induction ms as [|x r IH]; cbn; intros H; [discriminate|].
  destruct (String.eqb (m_name x) n); [inversion H; subst; left; reflexivity | right; auto].
Qed.

Lemma lookup_member_sig W fuel c n mcls m :
  wf_sigs W -> lookup_member (w_ct W) fuel c n = Some (mcls, MMethod m) -> sig_ok (m_params m).
Proof.
  intros [Hc _]. revert c. induction fuel as [|f IH]; intros c H; cbn in H; [discriminate|].
  destruct (find_cls (w_ct W) c) as [k|] eqn:Ek; [|discriminate].
  unfold own_member in H. destruct (find_method (c_methods k) n) as [m'|] eqn:Em.
  - inversion H; subst. apply find_cls_In in Ek. apply find_method_In in Em.
    rewrite Forall_forall in Hc. specialize (Hc _ Ek). rewrite Forall_forall in Hc. apply Hc. exact Em.
  - destruct (assoc n (c_props k)); [discriminate|]. destruct (c_parent k); [eapply IH; eauto | discriminate].
Qed.

Lemma gmc_sig W bo n mcls m :
  wf_sigs W -> get_method_and_class (w_ct W) bo n = Some (mcls, MMethod m) -> sig_ok (m_params m).
Proof.
  destruct bo; intros Hw H; try (cbn in H; discriminate).
  unfold get_method_and_class in H. eapply lookup_member_sig; eauto.
Qed.

(* the walk's result, read as the completeness of the emitted call *)
Lemma fill_complete ps f' uargs ukws a2 k2 :
  sig_ok ps -> fill Const ps uargs ukws = inl (a2, k2) ->
  complete_call ps f' uargs ukws (Call f' a2 (map fst k2) (map snd k2)).
Proof.
  intros Hs Hf. exists a2, (map fst k2), (map snd k2). split; [reflexivity|]. split.
  - eapply fill_keeps_positionals; eauto.
  - intros Hacc. pose proof (fill_is_bind_x Const ps uargs ukws Hs Hacc) as H. rewrite Hf in H.
    destruct (bind_full Const ps uargs ukws) as [vals|p]; [|discriminate].
    inversion H; subst. auto.
Qed.

(* C17, semantic half: for every backend, every environment (dataset) and every query whose
   method-form operator calls carry no keywords, the rewritten query evaluates to the same value
   whenever the original evaluates.  The reference semantics (Base/Eval.v) gives method-form
   operator calls their own clause ([is_op m] -> [apply_op m (eval s) (views args)]) and
   function-form calls another ([Name op], first argument = receiver), so this is an induction
   through lambda bodies, keyword values and nested calls, discharged with the generic engine of
   Proofs/EvalCong.v: only the rewritten [Call] nodes need an argument of their own. *)
From FA.Base Require Import PyAst Induct Value Eval Traverse.
From FA.Model Require Import ExtCalls.
From FA.Proofs Require Import TraverseFacts Refine EvalCong TraverseTFacts ExtCallsProofs.
From Coq Require Import Lia.

Lemma all_children_forallb p e : all_children p e = forallb p (children e).
Proof.
  destruct e; cbn [all_children children forallb]; rewrite ?forallb_app, ?andb_true_r, ?andb_assoc; reflexivity.
Qed.

Lemma ops_kw_free_unfold ops e :
  ops_kw_free ops e = kw_ok_here ops e && forallb (ops_kw_free ops) (children e).
Proof. rewrite <- all_children_forallb. destruct e; reflexivity. Qed.

Section Sem.
  Variable B : backend.
  Variable ops : list string.
  Notation ev := (eval B ops).
  Notation ext := (ext_with ops).
  Notation kwf := (ops_kw_free ops).

  (* the pass, defined exactly on the queries that meet the hypothesis *)
  Definition T (e : expr) : option expr := if kwf e then Some (ext e) else None.

  Lemma T_generic' e : is_meth_op ops e = false -> T e = map_children T e.
  Proof.
    intros Hn. unfold T at 1. rewrite ops_kw_free_unfold.
    assert (Hk : kw_ok_here ops e = true).
    { destruct e; try reflexivity. destruct e; try reflexivity. simpl in *. rewrite Hn. reflexivity. }
    rewrite Hk. cbn [andb]. unfold T. rewrite map_children_guard.
    rewrite ext_generic by assumption. reflexivity.
  Qed.

  Lemma T_generic e : is_call e = false -> T e = map_children T e.
  Proof. intros H. apply T_generic'. destruct e; try reflexivity; discriminate. Qed.

  Lemma omap_T l : forallb kwf l = true -> omap T l = Some (map ext l).
  Proof. intros H. unfold T. rewrite omap_guard, H. reflexivity. Qed.

  Lemma is_op_in_names m : is_op ops m = in_names ops m.
  Proof. reflexivity. Qed.

  Theorem ext_refines : forall e, sem_ok B ops T e.
  Proof.
    apply (pass_refines B ops T T_generic).
    intros e _ IH.
    destruct (is_meth_op_cases ops e) as [(v & m & args & kwn & kwv & -> & Hm) | Hn].
    - intros e' He E. unfold T in He.
      destruct (kwf (Call (Attr v m) args kwn kwv)) eqn:Hk; [|discriminate].
      inversion He; subst e'; clear He.
      rewrite ops_kw_free_unfold in Hk. apply andb_true_iff in Hk. destruct Hk as [Hhere Hch].
      cbn [kw_ok_here] in Hhere. rewrite Hm in Hhere. destruct kwn; [|discriminate].
      cbn [children forallb] in Hch. apply andb_true_iff in Hch. destruct Hch as [Hf Hrest].
      rewrite forallb_app in Hrest. apply andb_true_iff in Hrest. destruct Hrest as [Hargs _].
      rewrite ops_kw_free_unfold in Hf. cbn [kw_ok_here children forallb andb] in Hf.
      rewrite andb_true_r in Hf.
      rewrite Hm. unfold function_call.
      cbn [eval]. rewrite is_op_in_names, Hm.
      apply apply_op_refines.
      + apply IH; [rewrite size_call, size_attr; lia|]. unfold T. rewrite Hf. reflexivity.
      + change (mk_view ev E) with (view B ops E).
        eapply (views_refine B ops T T_generic); [exact IH | | apply omap_T; assumption].
        rewrite size_call. lia.
    - apply node_congruence; [apply T_generic | assumption | apply T_generic'; assumption].
  Qed.

  Theorem ext_sem : forall e, kwf e = true ->
    forall E v, ev E e = Some v -> ev E (ext e) = Some v.
  Proof.
    intros e Hk E v. apply (ext_refines e). unfold T. rewrite Hk. reflexivity.
  Qed.

End Sem.

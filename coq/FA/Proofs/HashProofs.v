(* C20: ast.dump determines the field-level structure; consequences for calc_ast_hash.

   Route: [dump v = render_all (dump_lex v)] (the dump is the rendering of a lexeme sequence);
   lexeme sequences of well-formed trees are uniquely readable from their text (HashLex.render_all_inj);
   the lexeme sequence determines the tree (dump_lex_inj, nested induction, prefix form). *)
From Coq Require Import Lia DecimalString DecimalZ DecimalPos DecimalFacts.
From FA.Base Require Import Names.
From FA.Model Require Import GTree Hash.
From FA.Proofs Require Import HashLex HashUtf8.
Local Open Scope N_scope.

(* ---------- code points of Coq strings ---------- *)

Lemma cps_cons a s : cps (String a s) = N_of_ascii a :: cps s.
Proof. reflexivity. Qed.

Lemma N_of_ascii_inj a b : N_of_ascii a = N_of_ascii b -> a = b.
Proof. intros H. rewrite <- (ascii_N_embedding a), <- (ascii_N_embedding b), H. reflexivity. Qed.

Lemma cps_inj : forall s1 s2, cps s1 = cps s2 -> s1 = s2.
Proof.
  induction s1 as [|a s1 IH]; intros [|b s2] H; try discriminate H; [reflexivity|].
  rewrite !cps_cons in H. inversion H as [[Ha Hs]].
  f_equal; [apply N_of_ascii_inj; exact Ha | apply IH; exact Hs].
Qed.

(* ---------- decimal rendering of ints ---------- *)

Definition is_ichar (c : N) : bool := is_digit c || (c =? 45).

Lemma uint_chars d : forallb is_ichar (cps (NilEmpty.string_of_uint d)) = true.
Proof. induction d; cbn [NilEmpty.string_of_uint]; rewrite ?cps_cons; cbn [forallb]; try rewrite IHd; reflexivity. Qed.

Lemma z_to_string_chars z :
  cps (z_to_string z) <> [] /\ forallb is_ichar (cps (z_to_string z)) = true.
Proof.
  unfold z_to_string, NilZero.string_of_int.
  destruct (Z.to_int z) as [d|d].
  - unfold NilZero.string_of_uint. destruct d; try (split; [discriminate | ]); try reflexivity;
      match goal with |- forallb _ (cps (NilEmpty.string_of_uint ?d)) = true => apply (uint_chars d) end.
  - split; [rewrite cps_cons; discriminate|]. rewrite cps_cons. cbn [forallb].
    unfold NilZero.string_of_uint. destruct d; try reflexivity;
      match goal with |- _ && forallb _ (cps (NilEmpty.string_of_uint ?d)) = true => rewrite (uint_chars d); reflexivity end.
Qed.

Lemma z_to_string_inj z1 z2 : z_to_string z1 = z_to_string z2 -> z1 = z2.
Proof.
  unfold z_to_string. intros H.
  apply (f_equal NilZero.int_of_string) in H.
  assert (Hn : forall z, Z.to_int z <> Decimal.Pos Decimal.Nil /\ Z.to_int z <> Decimal.Neg Decimal.Nil).
  { intros [|p|p]; cbn [Z.to_int]; split; try discriminate;
      intros E; inversion E as [E']; exact (DecimalPos.Unsigned.to_uint_nonnil p E'). }
  rewrite !NilZero.isi in H by apply Hn.
  inversion H as [H']. apply DecimalZ.to_int_inj. exact H'.
Qed.

(* ---------- the kind of a number / keyword word ---------- *)

Definition wkind (w : text) : N :=
  match w with
  | [] => 0
  | c :: _ =>
      if (c =? 84) || (c =? 70) then 1          (* True / False *)
      else if c =? 78 then 2                    (* None *)
      else if c =? 69 then 3                    (* Ellipsis *)
      else if mem_cp 106 w then 6               (* j : complex *)
      else if existsb is_fmark w then 5         (* . e n : float *)
      else 4                                    (* int *)
  end.

Lemma ichar_facts c : is_ichar c = true ->
  c <> 84 /\ c <> 70 /\ c <> 78 /\ c <> 69 /\ c <> 106 /\ is_fmark c = false.
Proof.
  intros H. unfold is_ichar, is_digit in H. nb.
  repeat split; try lia. unfold is_fmark. nb. lia.
Qed.

Lemma wkind_int w : w <> [] -> forallb is_ichar w = true -> wkind w = 4.
Proof.
  intros Hne Hall. destruct w as [|c w]; [congruence|]. unfold wkind.
  assert (Hj : mem_cp 106 (c :: w) = false).
  { unfold mem_cp. apply Bool.not_true_is_false. intros E. apply existsb_exists in E.
    destruct E as (x & Hin & Hx). apply N.eqb_eq in Hx. subst x.
    rewrite forallb_forall in Hall. specialize (Hall _ Hin). vm_compute in Hall. discriminate. }
  assert (Hm : existsb is_fmark (c :: w) = false).
  { apply Bool.not_true_is_false. intros E. apply existsb_exists in E.
    destruct E as (x & Hin & Hx). rewrite forallb_forall in Hall. specialize (Hall _ Hin).
    destruct (ichar_facts x Hall) as (_ & _ & _ & _ & _ & F). congruence. }
  rewrite Hj, Hm. cbn [forallb] in Hall. apply Bool.andb_true_iff in Hall. destruct Hall as [Hc _].
  destruct (ichar_facts c Hc) as (A1 & A2 & A3 & A4 & _).
  apply N.eqb_neq in A1, A2, A3, A4. rewrite A1, A2, A3, A4. reflexivity.
Qed.

Lemma fchar_facts c : is_cchar c = true -> c <> 84 /\ c <> 70 /\ c <> 78 /\ c <> 69.
Proof.
  intros H. unfold is_cchar, is_fchar, is_digit in H. nb. repeat split; lia.
Qed.

Lemma fchar_cchar c : is_fchar c = true -> is_cchar c = true.
Proof. intros H. unfold is_cchar. rewrite H. reflexivity. Qed.

Lemma fchar_not_j c : is_fchar c = true -> c <> 106.
Proof. intros H. unfold is_fchar, is_digit in H. nb. lia. Qed.

Lemma wkind_float t : wf_float t = true -> wkind (cps t) = 5.
Proof.
  unfold wf_float. intros H. apply Bool.andb_true_iff in H. destruct H as [H Hm].
  apply Bool.andb_true_iff in H. destruct H as [Hne Hall].
  destruct (cps t) as [|c w]; [discriminate Hne|]. unfold wkind.
  assert (Hj : mem_cp 106 (c :: w) = false).
  { unfold mem_cp. apply Bool.not_true_is_false. intros E. apply existsb_exists in E.
    destruct E as (x & Hin & Hx). apply N.eqb_eq in Hx. subst x.
    rewrite forallb_forall in Hall. specialize (Hall _ Hin). vm_compute in Hall. discriminate. }
  rewrite Hj, Hm. cbn [forallb] in Hall. apply Bool.andb_true_iff in Hall. destruct Hall as [Hc _].
  destruct (fchar_facts c (fchar_cchar c Hc)) as (A1 & A2 & A3 & A4).
  apply N.eqb_neq in A1, A2, A3, A4. rewrite A1, A2, A3, A4. reflexivity.
Qed.

Lemma wkind_complex w : wf_cword w = true -> mem_cp 106 w = true -> wkind w = 6.
Proof.
  unfold wf_cword. intros H Hj. apply Bool.andb_true_iff in H. destruct H as [Hne Hall].
  destruct w as [|c w]; [discriminate Hne|]. unfold wkind. rewrite Hj.
  cbn [forallb] in Hall. apply Bool.andb_true_iff in Hall. destruct Hall as [Hc _].
  destruct (fchar_facts c Hc) as (A1 & A2 & A3 & A4).
  apply N.eqb_neq in A1, A2, A3, A4. rewrite A1, A2, A3, A4. reflexivity.
Qed.

(* word characters *)
Lemma ichar_wchar c : is_ichar c = true -> is_wchar c = true.
Proof. unfold is_ichar, is_wchar, is_alpha_, is_digit. intros H. nb. lia. Qed.
Lemma cchar_wchar c : is_cchar c = true -> is_wchar c = true.
Proof. unfold is_cchar, is_fchar, is_wchar, is_alpha_, is_digit. intros H. nb. lia. Qed.
Lemma identchar_wchar c : is_alpha_ c || is_digit c = true -> is_wchar c = true.
Proof. unfold is_wchar. intros H. apply Bool.orb_true_iff in H. destruct H as [-> | ->]; rewrite ?Bool.orb_true_r; reflexivity. Qed.

Lemma forallb_impl {A} (p q : A -> bool) l :
  (forall x, p x = true -> q x = true) -> forallb p l = true -> forallb q l = true.
Proof. intros Hpq. rewrite !forallb_forall. auto. Qed.

Lemma ident_word s : is_ident s = true -> cps s <> [] /\ forallb is_wchar (cps s) = true.
Proof.
  unfold is_ident. destruct (cps s) as [|c r]; [discriminate|]. intros H.
  apply Bool.andb_true_iff in H. destruct H as [Hc Hr]. split; [discriminate|].
  cbn [forallb]. rewrite (identchar_wchar c) by (rewrite Hc; reflexivity).
  apply (forallb_impl _ _ _ identchar_wchar Hr).
Qed.

(* ---------- "(body)" ---------- *)

Lemma unparen_some l b : unparen l = Some b -> l = 40 :: b ++ [41].
Proof.
  unfold unparen. destruct l as [|c r]; [discriminate|].
  destruct (c =? 40) eqn:Ec; [|discriminate]. apply N.eqb_eq in Ec. subst c.
  destruct (rev r) as [|d b'] eqn:Er; [discriminate|].
  destruct (d =? 41) eqn:Ed; [|discriminate]. apply N.eqb_eq in Ed. subst d.
  intros H. inversion H; subst b. f_equal.
  rewrite <- (rev_involutive r), Er. reflexivity.
Qed.

Section Tree.
  Variable printable : N -> bool.

  Notation lexeme := HashLex.lexeme.
  Notation render_all := (HashLex.render_all printable).
  Notation render_lex := (HashLex.render_lex printable).

  (* ---------- the lexemes of a dump ---------- *)

  Definition atom_lex (a : atom) : list lexeme :=
    match a with
    | AInt z => [LWord (cps (z_to_string z))]
    | ABool true => [LWord (cps "True")]
    | ABool false => [LWord (cps "False")]
    | AStr s => [LStr s]
    | ABytes s => [LBytes s]
    | ANone => [LWord (cps "None")]
    | AEllipsis => [LWord (cps "Ellipsis")]
    | AFloat t => [LWord (cps t)]
    | AComplex t =>
        match unparen (cps t) with
        | Some b => [LLPar; LWord b; LRPar]
        | None => [LWord (cps t)]
        end
    end.

  Definition join_lex (l : list (list lexeme)) : list lexeme :=
    match l with
    | [] => []
    | x :: xs => x ++ flat_map (fun y => LComma :: y) xs
    end.

  Fixpoint dump_lex (v : gval) : list lexeme :=
    match v with
    | GNode c fs =>
        LWord (cps c) :: LLPar ::
        join_lex (map (fun kv => LWord (cps (fst kv)) :: LEq :: dump_lex (snd kv)) fs) ++ [LRPar]
    | GList l => LLBr :: join_lex (map dump_lex l) ++ [LRBr]
    | GAtom a => atom_lex a
    end.

  Definition fld (kv : string * gval) : list lexeme := LWord (cps (fst kv)) :: LEq :: dump_lex (snd kv).

  Lemma render_app a b : render_all (a ++ b) = render_all a ++ render_all b.
  Proof. apply flat_map_app. Qed.

  Lemma render_atom a : render_all (atom_lex a) = repr_atom printable a.
  Proof.
    destruct a as [z|[|]|s|s| | |t|t]; cbn [atom_lex repr_atom];
      try (cbn [HashLex.render_all flat_map HashLex.render_lex]; rewrite app_nil_r; reflexivity).
    destruct (unparen (cps t)) as [b|] eqn:E.
    - apply unparen_some in E. rewrite E. reflexivity.
    - cbn [HashLex.render_all flat_map HashLex.render_lex]. rewrite app_nil_r. reflexivity.
  Qed.

  Lemma render_cons x l : render_all (x :: l) = render_lex x ++ render_all l.
  Proof. reflexivity. Qed.

  Lemma render_fields fs :
    Forall (fun kv : string * gval => dump printable (snd kv) = render_all (dump_lex (snd kv))) fs ->
    join_sep (map (fun kv : string * gval => cps (fst kv) ++ EQ :: dump printable (snd kv)) fs)
    = render_all (join_lex (map fld fs)).
  Proof.
    intros IH. destruct fs as [|[k x] fs]; [reflexivity|].
    cbn [map join_sep join_lex fst snd]. rewrite render_app.
    inversion IH as [|? ? Hx Hfs]; subst. cbn [snd] in Hx.
    f_equal.
    - unfold fld. cbn [fst snd]. rewrite !render_cons. cbn [HashLex.render_lex]. rewrite Hx. reflexivity.
    - clear Hx IH. induction Hfs as [|[k' x'] fs' Hx' _ IHf]; [reflexivity|].
      cbn [map flat_map fst snd]. rewrite render_app, IHf. cbn [snd] in Hx'.
      unfold fld. cbn [fst snd]. rewrite !render_cons. cbn [HashLex.render_lex]. rewrite Hx'.
      cbn [app]. rewrite <- !app_assoc. reflexivity.
  Qed.

  Lemma render_elems l :
    Forall (fun x => dump printable x = render_all (dump_lex x)) l ->
    join_sep (map (dump printable) l) = render_all (join_lex (map dump_lex l)).
  Proof.
    intros IH. destruct l as [|x l]; [reflexivity|].
    cbn [map join_sep join_lex]. rewrite render_app.
    inversion IH as [|? ? Hx Hl]; subst. rewrite Hx. f_equal.
    clear Hx IH. induction Hl as [|x' l' Hx' _ IHl]; [reflexivity|].
    cbn [map flat_map]. rewrite render_app, IHl, render_cons. cbn [HashLex.render_lex].
    rewrite Hx'. cbn [app]. reflexivity.
  Qed.

  Lemma dump_render : forall v, dump printable v = render_all (dump_lex v).
  Proof.
    induction v as [c fs IH | l IH | a] using gval_ind'.
    - cbn [dump dump_lex]. rewrite !render_cons, render_app. cbn [HashLex.render_lex].
      rewrite (render_fields fs IH). cbn [app]. reflexivity.
    - cbn [dump dump_lex]. rewrite render_cons, render_app. cbn [HashLex.render_lex].
      rewrite (render_elems l IH). reflexivity.
    - cbn [dump dump_lex]. symmetry. apply render_atom.
  Qed.

  (* ---------- well-formed trees print uniquely readable lexeme sequences ---------- *)

  Notation chain_ok := HashLex.chain_ok.
  Notation pstart := HashLex.pstart.

  Definition wf_lexb (x : lexeme) : Prop := HashLex.wf_lex x.

  Lemma forallb_Forall_lt b s : forallb (fun c => c <? b) s = true -> Forall (fun c => c < b) s.
  Proof.
    rewrite forallb_forall, Forall_forall. intros H x Hx. apply N.ltb_lt. auto.
  Qed.

  Lemma chain_word w : w <> [] -> forallb is_wchar w = true -> chain_ok [LWord w].
  Proof. intros H1 H2. cbn. repeat split; assumption. Qed.

  Lemma chain_atom a : wf_atom a = true -> chain_ok (atom_lex a).
  Proof.
    destruct a as [z|[|]|s|s| | |t|t]; cbn [wf_atom atom_lex]; intros H.
    - destruct (z_to_string_chars z) as [H1 H2]. apply chain_word; [exact H1|].
      apply (forallb_impl _ _ _ ichar_wchar H2).
    - apply chain_word; [discriminate|reflexivity].
    - apply chain_word; [discriminate|reflexivity].
    - cbn. repeat split. apply forallb_Forall_lt. exact H.
    - cbn. repeat split. apply forallb_Forall_lt. exact H.
    - apply chain_word; [discriminate|reflexivity].
    - apply chain_word; [discriminate|reflexivity].
    - unfold wf_float in H. apply Bool.andb_true_iff in H. destruct H as [H _].
      apply Bool.andb_true_iff in H. destruct H as [Hne Hall].
      apply chain_word; [destruct (cps t); [discriminate Hne|discriminate]|].
      apply (forallb_impl _ _ _ (fun c Hc => cchar_wchar c (fchar_cchar c Hc)) Hall).
    - unfold wf_complex in H. destruct (unparen (cps t)) as [b|].
      + unfold wf_cword in H. apply Bool.andb_true_iff in H. destruct H as [Hne Hall].
        cbn. repeat split; [destruct b; [discriminate Hne|discriminate]|].
        apply (forallb_impl _ _ _ cchar_wchar Hall).
      + apply Bool.andb_true_iff in H. destruct H as [H _]. unfold wf_cword in H.
        apply Bool.andb_true_iff in H. destruct H as [Hne Hall].
        apply chain_word; [destruct (cps t); [discriminate Hne|discriminate]|].
        apply (forallb_impl _ _ _ cchar_wchar Hall).
  Qed.

  Lemma chain_tail (f : list lexeme -> list lexeme) ls :
    Forall chain_ok ls ->
    chain_ok (flat_map (fun y => LComma :: y) ls).
  Proof.
    induction 1 as [|x l Hx _ IH]; [exact I|].
    cbn [flat_map]. change (LComma :: x) with ([LComma] ++ x). rewrite <- app_assoc.
    cbn [app]. cbn [HashLex.chain_ok]. split; [exact I|]. split; [exact I|].
    destruct l as [|y l]; [cbn [flat_map]; rewrite app_nil_r; exact Hx|].
    apply HashLex.chain_app; [exact Hx | exact IH | reflexivity].
  Qed.

  Lemma chain_join ls : Forall chain_ok ls -> chain_ok (join_lex ls).
  Proof.
    intros H. destruct ls as [|x l]; [exact I|]. cbn [join_lex].
    inversion H as [|? ? Hx Hl]; subst.
    destruct l as [|y l]; [cbn [flat_map]; rewrite app_nil_r; exact Hx|].
    apply HashLex.chain_app; [exact Hx | apply (chain_tail (fun x => x)); exact Hl | reflexivity].
  Qed.

  Lemma chain_close ls (cl : lexeme) :
    HashLex.is_punct cl = true -> chain_ok ls -> chain_ok (ls ++ [cl]).
  Proof.
    intros Hp H. apply HashLex.chain_app; [exact H | | exact Hp].
    cbn. destruct cl; try discriminate Hp; repeat split.
  Qed.

  Lemma chain_dump : forall v, wf v = true -> chain_ok (dump_lex v).
  Proof.
    induction v as [c fs IH | l IH | a] using gval_ind'; intros Hw.
    - cbn [wf] in Hw. apply Bool.andb_true_iff in Hw. destruct Hw as [Hc Hfs].
      cbn [dump_lex].
      destruct (ident_word c Hc) as [C1 C2].
      cbn [HashLex.chain_ok]. split; [split; assumption|]. split; [reflexivity|].
      split; [exact I|]. split; [exact I|].
      apply chain_close; [reflexivity|]. apply chain_join.
      rewrite forallb_forall in Hfs. rewrite Forall_forall in IH. apply Forall_forall.
      intros ls Hin. apply in_map_iff in Hin. destruct Hin as ([k x] & <- & Hin).
      specialize (Hfs _ Hin). cbn [fst snd] in *. apply Bool.andb_true_iff in Hfs. destruct Hfs as [Hk Hx].
      destruct (ident_word k Hk) as [K1 K2].
      cbn [HashLex.chain_ok]. split; [split; assumption|]. split; [reflexivity|].
      split; [exact I|]. split; [exact I|].
      apply (IH _ Hin). exact Hx.
    - cbn [wf] in Hw. cbn [dump_lex]. cbn [HashLex.chain_ok]. split; [exact I|]. split; [exact I|].
      apply chain_close; [reflexivity|]. apply chain_join.
      rewrite forallb_forall in Hw. rewrite Forall_forall in IH. apply Forall_forall.
      intros ls Hin. apply in_map_iff in Hin. destruct Hin as (x & <- & Hin). apply (IH _ Hin). apply Hw. exact Hin.
    - cbn [wf] in Hw. cbn [dump_lex]. apply chain_atom. exact Hw.
  Qed.

  (* ---------- the lexeme sequence determines the tree ---------- *)

  Definition good_rest (r : list lexeme) : Prop :=
    match r with
    | [] => True
    | LComma :: _ | LRPar :: _ | LRBr :: _ => True
    | _ => False
    end.

  Inductive atom_shape : list lexeme -> Prop :=
   | SWord w : atom_shape [LWord w]
   | SStr s : atom_shape [LStr s]
   | SBytes s : atom_shape [LBytes s]
   | SParen w : atom_shape [LLPar; LWord w; LRPar].

  Lemma atom_lex_shape a : atom_shape (atom_lex a).
  Proof.
    destruct a as [z|[|]|s|s| | |t|t]; cbn [atom_lex]; try constructor.
    destruct (unparen (cps t)); constructor.
  Qed.

  Lemma wkind_atom_int z : wkind (cps (z_to_string z)) = 4.
  Proof. destruct (z_to_string_chars z) as [H1 H2]. apply wkind_int; assumption. Qed.

  (* what an atom's lexemes say about it: a kind tag and a text *)
  Definition akey (a : atom) : N * text :=
    match a with
    | AInt z => (4, cps (z_to_string z))
    | ABool true => (1, cps "True")
    | ABool false => (1, cps "False")
    | AStr s => (10, s)
    | ABytes s => (11, s)
    | ANone => (2, cps "None")
    | AEllipsis => (3, cps "Ellipsis")
    | AFloat t => (5, cps t)
    | AComplex t => match unparen (cps t) with Some _ => (7, cps t) | None => (6, cps t) end
    end.

  Definition lex_key (l : list lexeme) : option (N * text * list lexeme) :=
    match l with
    | LStr s :: r => Some (10, s, r)
    | LBytes s :: r => Some (11, s, r)
    | LLPar :: LWord b :: LRPar :: r => Some (7, 40 :: b ++ [41], r)
    | LWord w :: r => Some (wkind w, w, r)
    | _ => None
    end.

  Lemma akey_inj x y : akey x = akey y -> x = y.
  Proof.
    destruct x as [z|[|]|s|s| | |t|t]; destruct y as [z'|[|]|s'|s'| | |t'|t']; cbn [akey];
      try (destruct (unparen (cps t))); try (destruct (unparen (cps t')));
      intros H; try discriminate H; try reflexivity;
      injection H as H; f_equal;
      first [ apply z_to_string_inj; apply cps_inj; exact H | apply cps_inj; exact H | exact H ].
  Qed.

  Lemma lex_key_atom x r : wf_atom x = true -> lex_key (atom_lex x ++ r) = Some (akey x, r).
  Proof.
    destruct x as [z|[|]|s|s| | |t|t]; cbn [wf_atom atom_lex akey]; intros W;
      try (cbn [app lex_key]; reflexivity).
    - cbn [app lex_key]. rewrite wkind_atom_int. reflexivity.
    - cbn [app lex_key]. rewrite (wkind_float _ W). reflexivity.
    - unfold wf_complex in W. destruct (unparen (cps t)) as [b|] eqn:E.
      + cbn [app lex_key]. apply unparen_some in E. rewrite E. reflexivity.
      + apply Bool.andb_true_iff in W. destruct W as [W1 W2].
        cbn [app lex_key]. rewrite (wkind_complex _ W1 W2). reflexivity.
  Qed.

  Lemma atom_lex_inj x y r1 r2 :
    wf_atom x = true -> wf_atom y = true ->
    atom_lex x ++ r1 = atom_lex y ++ r2 -> x = y /\ r1 = r2.
  Proof.
    intros Wx Wy H. apply (f_equal lex_key) in H.
    rewrite (lex_key_atom x r1 Wx), (lex_key_atom y r2 Wy) in H.
    injection H as Hk Hr. split; [apply akey_inj; exact Hk | exact Hr].
  Qed.
  Lemma good_rest_tail ls cl r : cl = LRPar \/ cl = LRBr ->
    good_rest (flat_map (fun y => LComma :: y) ls ++ cl :: r).
  Proof. intros Hcl. destruct ls as [|x ls]; cbn [flat_map app good_rest]; [destruct Hcl; subst; exact I | exact I]. Qed.

  Section Lists.
    Context {A : Type} (p : A -> list lexeme) (okA : A -> Prop) (cl : lexeme).
    Hypothesis Hcl : cl = LRPar \/ cl = LRBr.

    Definition elem_inj (x : A) : Prop :=
      forall y R1 R2, okA y -> good_rest R1 -> good_rest R2 -> p x ++ R1 = p y ++ R2 -> x = y /\ R1 = R2.

    Lemma tail_inj : forall l, Forall elem_inj l ->
      forall l' r1 r2, Forall okA l' ->
        flat_map (fun y => LComma :: y) (map p l) ++ cl :: r1
        = flat_map (fun y => LComma :: y) (map p l') ++ cl :: r2 -> l = l' /\ r1 = r2.
    Proof.
      induction 1 as [|x l Hx _ IH]; intros [|y l'] r1 r2 Hok H; cbn [map flat_map app] in H.
      - injection H as H. auto.
      - destruct Hcl; subst cl; discriminate H.
      - destruct Hcl; subst cl; discriminate H.
      - injection H as H. rewrite <- !app_assoc in H.
        inversion Hok as [|? ? Hy Hl']; subst.
        destruct (Hx y _ _ Hy (good_rest_tail _ _ _ Hcl) (good_rest_tail _ _ _ Hcl) H) as [-> H'].
        destruct (IH l' r1 r2 Hl' H') as [-> ->]. auto.
    Qed.

    Hypothesis Hhead : forall y, match p y with h :: _ => h <> cl | [] => False end.

    Lemma join_inj : forall l, Forall elem_inj l ->
      forall l' r1 r2, Forall okA l' ->
        join_lex (map p l) ++ cl :: r1 = join_lex (map p l') ++ cl :: r2 -> l = l' /\ r1 = r2.
    Proof.
      intros l Hl l' r1 r2 Hok H.
      destruct l as [|x l]; destruct l' as [|y l']; cbn [map join_lex app] in H.
      - injection H as H. auto.
      - exfalso. specialize (Hhead y). destruct (p y) as [|h t]; [exact Hhead|].
        cbn [app] in H. injection H as H _. congruence.
      - exfalso. specialize (Hhead x). destruct (p x) as [|h t]; [exact Hhead|].
        cbn [app] in H. injection H as H _. congruence.
      - rewrite <- !app_assoc in H.
        inversion Hl as [|? ? Hx Hl0]; subst. inversion Hok as [|? ? Hy Hl']; subst.
        destruct (Hx y _ _ Hy (good_rest_tail _ _ _ Hcl) (good_rest_tail _ _ _ Hcl) H) as [-> H'].
        destruct (tail_inj l Hl0 l' r1 r2 Hl' H') as [-> ->]. auto.
    Qed.
  End Lists.

  Lemma dump_lex_head v :
    match dump_lex v with h :: _ => h <> LRBr /\ h <> LRPar /\ h <> LComma | [] => False end.
  Proof.
    destruct v as [c fs|l|a]; cbn [dump_lex]; try (repeat split; discriminate).
    destruct (atom_lex_shape a); repeat split; discriminate.
  Qed.

  Definition inj_at (a : gval) : Prop :=
    wf a = true -> forall b r1 r2, wf b = true -> good_rest r1 -> good_rest r2 ->
      dump_lex a ++ r1 = dump_lex b ++ r2 -> a = b /\ r1 = r2.

  Definition ok_field (kv : string * gval) : Prop := is_ident (fst kv) && wf (snd kv) = true.

  Lemma atom_vs_node a c fs r1 r2 : good_rest r1 ->
    atom_lex a ++ r1 = dump_lex (GNode c fs) ++ r2 -> False.
  Proof.
    intros G H. cbn [dump_lex app] in H.
    destruct (atom_lex_shape a); cbn [app] in H; try discriminate H.
    injection H as _ H. destruct r1 as [|[] r1]; cbn [good_rest] in G; try discriminate H; exact G.
  Qed.

  Lemma atom_vs_list a l r1 r2 : atom_lex a ++ r1 = dump_lex (GList l) ++ r2 -> False.
  Proof.
    intros H. cbn [dump_lex app] in H. destruct (atom_lex_shape a); cbn [app] in H; discriminate H.
  Qed.

  Lemma dump_lex_inj : forall a, inj_at a.
  Proof.
    induction a as [c fs IH | l IH | x] using gval_ind'; unfold inj_at; intros Wa b r1 r2 Wb G1 G2 H.
    - destruct b as [c' fs'|l'|y].
      + cbn [dump_lex app] in H. injection H as Hc H. apply cps_inj in Hc. subst c'.
        rewrite <- !app_assoc in H. cbn [app] in H.
        cbn [wf] in Wa, Wb. apply Bool.andb_true_iff in Wa, Wb. destruct Wa as [_ Wfs]. destruct Wb as [_ Wfs'].
        assert (Hel : Forall (elem_inj fld ok_field) fs).
        { rewrite Forall_forall in IH |- *. intros [k v] Hin [k' v'] R1 R2 Hok GR1 GR2 E.
          unfold fld in E. cbn [fst snd app] in E. injection E as Hk E. apply cps_inj in Hk. subst k'.
          rewrite forallb_forall in Wfs. specialize (Wfs _ Hin). cbn [fst snd] in Wfs.
          apply Bool.andb_true_iff in Wfs. destruct Wfs as [_ Wv].
          unfold ok_field in Hok. cbn [fst snd] in Hok. apply Bool.andb_true_iff in Hok. destruct Hok as [_ Wv'].
          pose proof (IH _ Hin) as IHv. cbn [snd] in IHv.
          destruct (IHv Wv v' R1 R2 Wv' GR1 GR2 E) as [-> ->]. auto. }
        assert (Hok : Forall ok_field fs').
        { apply Forall_forall. intros kv Hin. rewrite forallb_forall in Wfs'. exact (Wfs' _ Hin). }
        destruct (join_inj fld ok_field LRPar (or_introl eq_refl)
                    (fun y => ltac:(unfold fld; discriminate)) fs Hel fs' r1 r2 Hok H) as [-> ->]. auto.
      + cbn [dump_lex app] in H. discriminate H.
      + exfalso. symmetry in H. exact (atom_vs_node _ _ _ _ _ G2 H).
    - destruct b as [c' fs'|l'|y].
      + cbn [dump_lex app] in H. discriminate H.
      + cbn [dump_lex app] in H. injection H as H. rewrite <- !app_assoc in H. cbn [app] in H.
        cbn [wf] in Wa, Wb.
        assert (Hel : Forall (elem_inj dump_lex (fun v => wf v = true)) l).
        { rewrite Forall_forall in IH |- *. intros v Hin v' R1 R2 Wv' GR1 GR2 E.
          rewrite forallb_forall in Wa. exact (IH _ Hin (Wa _ Hin) v' R1 R2 Wv' GR1 GR2 E). }
        assert (Hok : Forall (fun v => wf v = true) l').
        { apply Forall_forall. intros v Hin. rewrite forallb_forall in Wb. exact (Wb _ Hin). }
        destruct (join_inj dump_lex (fun v => wf v = true) LRBr (or_intror eq_refl)
                    (fun y => ltac:(pose proof (dump_lex_head y) as Hh; destruct (dump_lex y); [exact Hh | exact (proj1 Hh)]))
                    l Hel l' r1 r2 Hok H) as [-> ->]. auto.
      + exfalso. symmetry in H. exact (atom_vs_list _ _ _ _ H).
    - destruct b as [c' fs'|l'|y].
      + exfalso. exact (atom_vs_node _ _ _ _ _ G1 H).
      + exfalso. exact (atom_vs_list _ _ _ _ H).
      + cbn [dump_lex wf] in *. destruct (atom_lex_inj x y r1 r2 Wa Wb H) as [-> ->]. auto.
  Qed.

  (* ---------- the theorems ---------- *)

  Theorem dump_lex_injective a b : wf a = true -> wf b = true -> dump_lex a = dump_lex b -> a = b.
  Proof.
    intros Wa Wb H. apply (dump_lex_inj a Wa b [] [] Wb I I). rewrite !app_nil_r. exact H.
  Qed.

  Theorem dump_injective a b : wf a = true -> wf b = true -> dump printable a = dump printable b -> a = b.
  Proof.
    intros Wa Wb H. rewrite !dump_render in H.
    apply dump_lex_injective; [exact Wa | exact Wb |].
    apply (HashLex.render_all_inj printable); [apply chain_dump; exact Wa | apply chain_dump; exact Wb | exact H].
  Qed.

  (* ast.dump of a raw node is the dump of its erasure *)
  Lemma dump_raw_erase : forall r, dump_raw printable r = dump printable (erase r).
  Proof.
    induction r as [c fs ats IH | l IH | a] using rval_ind'.
    - cbn [dump_raw erase dump]. f_equal. f_equal. f_equal. f_equal.
      induction IH as [|[[k d] [x|]] fs Hx _ IHfs]; [reflexivity| |].
      + unfold Pslot in Hx. cbn [snd] in Hx. destruct (d && is_none x); [exact IHfs|].
        cbn [map fst snd]. rewrite Hx, IHfs. reflexivity.
      + exact IHfs.
    - cbn [dump_raw erase dump]. f_equal. f_equal. f_equal.
      rewrite map_map. induction IH as [|x l Hx _ IHl]; [reflexivity|]. cbn [map]. rewrite Hx, IHl. reflexivity.
    - reflexivity.
  Qed.

  Theorem dump_raw_iff a b : wf (erase a) = true -> wf (erase b) = true ->
    (dump_raw printable a = dump_raw printable b <-> erase a = erase b).
  Proof.
    intros Wa Wb. rewrite !dump_raw_erase. split.
    - apply dump_injective; assumption.
    - intros ->. reflexivity.
  Qed.

  Variable md5 : text -> text.

  Lemma hash_erase r : hash printable md5 r = ghash printable md5 (erase r).
  Proof. unfold hash, ghash. rewrite dump_raw_erase. reflexivity. Qed.

  (* equal structure => equal hash (no hypothesis at all) *)
  Theorem hash_complete a b : erase a = erase b -> hash printable md5 a = hash printable md5 b.
  Proof. intros H. rewrite !hash_erase, H. reflexivity. Qed.

  Lemma hash_input_some t u : hash_input t = Some u -> u = utf8 t.
  Proof. unfold hash_input. destruct (forallb _ t); [intros H; inversion H; reflexivity | discriminate]. Qed.

  (* equal hash => equal structure, relative to md5 not colliding on the two encoded dumps *)
  Theorem hash_sound_if a b h :
    wf (erase a) = true -> wf (erase b) = true ->
    (md5 (utf8 (dump_raw printable a)) = md5 (utf8 (dump_raw printable b)) ->
     utf8 (dump_raw printable a) = utf8 (dump_raw printable b)) ->
    hash printable md5 a = Some h -> hash printable md5 b = Some h -> erase a = erase b.
  Proof.
    intros Wa Wb Hmd5 Ha Hb. unfold hash in Ha, Hb.
    destruct (hash_input (dump_raw printable a)) as [ta|] eqn:Ea; [|discriminate Ha].
    destruct (hash_input (dump_raw printable b)) as [tb|] eqn:Eb; [|discriminate Hb].
    apply hash_input_some in Ea, Eb. subst ta tb. cbn [option_map] in Ha, Hb.
    apply (dump_raw_iff a b Wa Wb). apply utf8_inj. apply Hmd5. congruence.
  Qed.

  (* the hash is defined exactly when the dump text can be encoded *)
  Theorem hash_defined_iff a :
    (exists h, hash printable md5 a = Some h) <-> forallb encodable (dump_raw printable a) = true.
  Proof.
    unfold hash, hash_input. destruct (forallb encodable (dump_raw printable a)); cbn [option_map]; split.
    - reflexivity.
    - intros _. eexists. reflexivity.
    - intros [h H]. discriminate H.
    - discriminate.
  Qed.

  (* non-field attributes (executor, metadata, dataset object, positions) are invisible *)
  Theorem hash_ignores_attrs r ats : hash printable md5 (set_attrs r ats) = hash printable md5 r.
  Proof. apply hash_complete. destruct r; reflexivity. Qed.

  (* attributes anywhere in the tree: two raw trees with the same erasure *)
  Theorem dump_ignores_attrs_deep a b : erase a = erase b -> dump_raw printable a = dump_raw printable b.
  Proof. intros H. rewrite !dump_raw_erase, H. reflexivity. Qed.

  Lemma is_none_strip x : is_none (strip x) = is_none x.
  Proof. destruct x as [c fs ats|l|[]]; reflexivity. Qed.

  Lemma erase_strip : forall r, erase (strip r) = erase r.
  Proof.
    induction r as [c fs ats IH | l IH | a] using rval_ind'.
    - cbn [strip erase]. f_equal.
      induction IH as [|[[k d] [x|]] fs Hx _ IHfs]; [reflexivity| |].
      + unfold Pslot in Hx. cbn [snd] in Hx. rewrite is_none_strip.
        destruct (d && is_none x); [exact IHfs|]. rewrite Hx, IHfs. reflexivity.
      + exact IHfs.
    - cbn [strip erase]. f_equal. rewrite map_map.
      induction IH as [|x l Hx _ IHl]; [reflexivity|]. cbn [map]. rewrite Hx, IHl. reflexivity.
    - reflexivity.
  Qed.

  (* removing every attribute everywhere in the tree leaves the hash unchanged *)
  Theorem hash_ignores_all_attrs r : hash printable md5 (strip r) = hash printable md5 r.
  Proof. apply hash_complete. apply erase_strip. Qed.

  (* a structural difference always shows in the dump, hence in the hash unless md5 collides *)
  Corollary edit_changes_dump a b : wf a = true -> wf b = true -> a <> b -> dump printable a <> dump printable b.
  Proof. intros Wa Wb Hne H. apply Hne. apply dump_injective; assumption. Qed.
End Tree.

(* ---------- single edits, as instances of injectivity ---------- *)

Definition gLoad : gval := GNode "Load" [].
Definition gName (id : text) : gval := GNode "Name" [("id", GAtom (AStr id)); ("ctx", gLoad)]%string.
Definition gConst (a : atom) : gval := GNode "Constant" [("value", GAtom a)]%string.
Definition gCall (f : gval) (args : list gval) : gval :=
  GNode "Call" [("func", f); ("args", GList args); ("keywords", GList [])]%string.
Definition gBinOp (l : gval) (op : string) (r : gval) : gval :=
  GNode "BinOp" [("left", l); ("op", GNode op []); ("right", r)]%string.
Definition gAttr (v : gval) (a : text) : gval :=
  GNode "Attribute" [("value", v); ("attr", GAtom (AStr a)); ("ctx", gLoad)]%string.

Section Edits.
  Variable printable : N -> bool.
  Variable md5 : text -> text.
  Notation dump := (dump printable).

  Lemma wf_gName id : wf (gName id) = forallb (fun c => c <? 1114112) id.
  Proof. cbn. rewrite !Bool.andb_true_r. reflexivity. Qed.
  Lemma wf_gConst a : wf (gConst a) = wf_atom a.
  Proof. cbn. rewrite !Bool.andb_true_r. reflexivity. Qed.
  Lemma wf_gCall f args : wf (gCall f args) = wf f && forallb wf args.
  Proof. cbn -[forallb]. cbn [forallb]. rewrite !Bool.andb_true_r. reflexivity. Qed.
  Lemma wf_gBinOp l op r : wf (gBinOp l op r) = wf l && is_ident op && wf r.
  Proof. cbn. rewrite !Bool.andb_true_r. rewrite Bool.andb_assoc. reflexivity. Qed.

  (* the operator *)
  Lemma edit_operator l r o1 o2 :
    wf l = true -> wf r = true -> is_ident o1 = true -> is_ident o2 = true -> o1 <> o2 ->
    dump (gBinOp l o1 r) <> dump (gBinOp l o2 r).
  Proof.
    intros Wl Wr W1 W2 Hne. apply edit_changes_dump.
    - rewrite wf_gBinOp, Wl, W1, Wr. reflexivity.
    - rewrite wf_gBinOp, Wl, W2, Wr. reflexivity.
    - intros H. inversion H. contradiction.
  Qed.

  (* a name *)
  Lemma edit_name id1 id2 :
    wf (gName id1) = true -> wf (gName id2) = true -> id1 <> id2 -> dump (gName id1) <> dump (gName id2).
  Proof.
    intros W1 W2 Hne. apply edit_changes_dump; [exact W1 | exact W2 |]. intros H. inversion H. contradiction.
  Qed.

  (* a constant's value or type *)
  Lemma edit_constant a b :
    wf_atom a = true -> wf_atom b = true -> a <> b -> dump (gConst a) <> dump (gConst b).
  Proof.
    intros Wa Wb Hne. apply edit_changes_dump; rewrite ?wf_gConst; try assumption.
    intros H. inversion H. contradiction.
  Qed.

  (* argument order *)
  Lemma edit_arg_order f x y :
    wf f = true -> wf x = true -> wf y = true -> x <> y -> dump (gCall f [x; y]) <> dump (gCall f [y; x]).
  Proof.
    intros Wf Wx Wy Hne. apply edit_changes_dump.
    - rewrite wf_gCall. cbn [forallb]. rewrite Wf, Wx, Wy. reflexivity.
    - rewrite wf_gCall. cbn [forallb]. rewrite Wf, Wx, Wy. reflexivity.
    - intros H. inversion H. contradiction.
  Qed.

  (* nesting: f(g(x)) vs g(f(x)) *)
  Lemma edit_nesting f g x :
    wf f = true -> wf g = true -> wf x = true -> f <> g ->
    dump (gCall f [gCall g [x]]) <> dump (gCall g [gCall f [x]]).
  Proof.
    intros Wf Wg Wx Hne. apply edit_changes_dump.
    - rewrite !wf_gCall. cbn [forallb]. rewrite !wf_gCall. cbn [forallb]. rewrite Wf, Wg, Wx. reflexivity.
    - rewrite !wf_gCall. cbn [forallb]. rewrite !wf_gCall. cbn [forallb]. rewrite Wf, Wg, Wx. reflexivity.
    - intros H. inversion H. contradiction.
  Qed.

  (* any difference at all, at the level of the hash: the two hashes can only agree if md5 collides *)
  Lemma edit_changes_hash_if a b h :
    wf a = true -> wf b = true -> a <> b ->
    ghash printable md5 a = Some h -> ghash printable md5 b = Some h ->
    utf8 (dump a) <> utf8 (dump b) /\ md5 (utf8 (dump a)) = md5 (utf8 (dump b)).
  Proof.
    intros Wa Wb Hne Ha Hb. split; [intros Hu; apply utf8_inj in Hu; revert Hu; apply edit_changes_dump; assumption|].
    unfold ghash in Ha, Hb.
    destruct (hash_input (dump a)) as [ta|] eqn:Ea; [|discriminate Ha].
    destruct (hash_input (dump b)) as [tb|] eqn:Eb; [|discriminate Hb].
    apply hash_input_some in Ea, Eb. subst ta tb. cbn [option_map] in Ha, Hb. congruence.
  Qed.
End Edits.

(* Facts about the model of util_ast._copy_of_tree (Model/CopyTree.v). *)
From Coq Require Import String List Bool Arith Lia.
Import ListNotations.
Local Open Scope string_scope.
From FA.Gen Require Import TablesCopy.
From FA.Model Require Import CopyTree.

Section Ind.
  Variable P : ntree -> Prop.
  Hypothesis H : forall i a c ks, Forall P ks -> P (Node i a c ks).
  Fixpoint ntree_ind' (t : ntree) : P t :=
    match t with
    | Node i a c ks =>
        H i a c ks ((fix go (l : list ntree) : Forall P l :=
                       match l with [] => Forall_nil _ | k :: l' => Forall_cons _ (ntree_ind' k) (go l') end) ks)
    end.
End Ind.

Lemma copy_unfold i ats c ks n :
  copy (Node i ats c ks) n =
  if carries ats then (Node i ats c ks, n) else let (ks', n') := copy_list ks (S n) in (Node n ats c ks', n').
Proof. reflexivity. Qed.

Lemma copy_list_cons k l n :
  copy_list (k :: l) n = let (k', n1) := copy k n in let (l', n2) := copy_list l n1 in (k' :: l', n2).
Proof. reflexivity. Qed.

(* what one copy does: same shape, same attributes, counter only grows, every object of the result is new or attached *)
Definition good (t : ntree) : Prop := forall n,
  erase (fst (copy t n)) = erase t /\
  attrs_pre (fst (copy t n)) = attrs_pre t /\
  n <= snd (copy t n) /\
  (forall i, In i (ids (fst (copy t n))) -> (n <= i < snd (copy t n)) \/ In i (attached t)).

Definition good_list (l : list ntree) : Prop := forall n,
  map erase (fst (copy_list l n)) = map erase l /\
  flat_map attrs_pre (fst (copy_list l n)) = flat_map attrs_pre l /\
  n <= snd (copy_list l n) /\
  (forall i, In i (flat_map ids (fst (copy_list l n))) -> (n <= i < snd (copy_list l n)) \/ In i (flat_map attached l)).

Lemma good_list_of l : Forall good l -> good_list l.
Proof.
  induction l as [|k l IH]; intros HF n.
  - cbn. repeat split; try reflexivity; try lia.
  - inversion HF as [|x y Hk Hl]; subst. specialize (IH Hl).
    rewrite copy_list_cons. destruct (copy k n) as [k' n1] eqn:Ek. destruct (copy_list l n1) as [l' n2] eqn:El.
    destruct (Hk n) as (K1 & K2 & K3 & K4). rewrite Ek in K1, K2, K3, K4. cbn [fst snd] in *.
    destruct (IH n1) as (L1 & L2 & L3 & L4). rewrite El in L1, L2, L3, L4. cbn [fst snd] in *.
    cbn [map flat_map]. split; [rewrite K1, L1; reflexivity|]. split; [rewrite K2, L2; reflexivity|]. split; [lia|].
    intros i Hi. apply in_app_or in Hi. destruct Hi as [Hi|Hi].
    + destruct (K4 i Hi) as [Hr|Ha]; [left; lia | right; apply in_or_app; left; exact Ha].
    + destruct (L4 i Hi) as [Hr|Ha]; [left; lia | right; apply in_or_app; right; exact Ha].
Qed.

Lemma copy_good : forall t, good t.
Proof.
  apply ntree_ind'. intros i ats c ks HF n. rewrite copy_unfold. cbn [attached].
  destruct (carries ats) eqn:Hc.
  - cbn [fst snd]. split; [reflexivity|]. split; [reflexivity|]. split; [lia|]. intros j Hj. right. exact Hj.
  - pose proof (good_list_of ks HF (S n)) as (L1 & L2 & L3 & L4).
    destruct (copy_list ks (S n)) as [ks' n'] eqn:El. cbn [fst snd] in *.
    cbn [erase attrs_pre ids]. split; [rewrite L1; reflexivity|]. split; [rewrite L2; reflexivity|]. split; [lia|].
    intros j [Hj|Hj]; [left; lia|]. destruct (L4 j Hj) as [Hr|Ha]; [left; lia | right; exact Ha].
Qed.

(* ---------- the statements ---------- *)

(* the copy is the same query: ast.dump cannot tell them apart, and every node keeps what it carries *)
Theorem copy_same_shape t n : erase (fst (copy t n)) = erase t /\ attrs_pre (fst (copy t n)) = attrs_pre t.
Proof. destruct (copy_good t n) as (H1 & H2 & _). split; assumption. Qed.

(* every object of the copy is new, or is at or below a node that carries a dataset, an executor or query metadata *)
Theorem copy_new_or_attached t n i :
  In i (ids (fst (copy t n))) -> (n <= i < snd (copy t n)) \/ In i (attached t).
Proof. intros H. destruct (copy_good t n) as (_ & _ & _ & H4). apply H4. exact H. Qed.

(* so no object of the caller's tree that is not another stream's node is reachable from the copy: whatever the passes that
   follow write into the nodes of the copy they own, the caller's tree - and every stream built from it - stays as it was *)
Theorem copy_isolates t n :
  (forall i, In i (ids t) -> i < n) ->
  forall i, In i (ids t) -> ~ In i (attached t) -> ~ In i (ids (fst (copy t n))).
Proof.
  intros Hn i Hi Hna Hc. destruct (copy_new_or_attached t n i Hc) as [Hr|Ha]; [specialize (Hn i Hi); lia | contradiction].
Qed.

(* the other streams' nodes are not copied: a back end finds its dataset, executor and metadata on the very objects *)
Theorem copy_keeps_attached i ats c ks n : carries ats = true -> copy (Node i ats c ks) n = (Node i ats c ks, n).
Proof. intros H. rewrite copy_unfold, H. reflexivity. Qed.

(* non-vacuity + F57: lambda e: e.info().met(1.0) with the default-filled call carrying _old_ast, handed over a second time.
   [copy] gives the call a new object; the pre-F57 test (any attribute) hands the caller's own call object on. *)
Definition ex_lambda : ntree :=
  Node 0 [] "Lambda" [Node 1 [] "arguments" [Node 2 [] "arg e" []];
                      Node 3 ["_old_ast"] "Call" [Node 4 [] "Attribute met" [Node 5 [] "Call" [Node 6 [] "Attribute info" [Node 7 [] "Name e" []]]];
                                                  Node 8 [] "Constant 1.0" []]].
Definition ex_query_in_lambda : ntree :=
  Node 0 [] "Lambda" [Node 1 [] "arguments" [Node 2 [] "arg e" []];
                      Node 3 ["_q_metadata"] "Call" [Node 4 ["_func_adl_executor"; "_eds_object"] "Call EventDataset" []; Node 5 [] "Lambda" []]].

Example copy_of_processed_lambda :
  (forall i, In i (ids ex_lambda) -> i < 9) /\ attached ex_lambda = [] /\
  ids (fst (copy ex_lambda 9)) = [9; 10; 11; 12; 13; 14; 15; 16; 17] /\
  erase (fst (copy ex_lambda 9)) = erase ex_lambda.
Proof.
  split; [intros i Hi; cbn in Hi; repeat (destruct Hi as [<-|Hi]; [lia|]); contradiction|].
  split; [vm_compute; reflexivity|]. split; vm_compute; reflexivity.
Qed.

Example copy_keeps_other_streams_nodes :
  attached ex_query_in_lambda = [3; 4; 5] /\ ids (fst (copy ex_query_in_lambda 6)) = [6; 7; 8; 3; 4; 5].
Proof. split; vm_compute; reflexivity. Qed.

Theorem any_attribute_test_refuted :
  In 3 (ids ex_lambda) /\ ~ In 3 (attached ex_lambda) /\ In 3 (ids (fst (copy_any ex_lambda 9))) /\ In 7 (ids (fst (copy_any ex_lambda 9))).
Proof.
  split; [vm_compute; tauto|]. split; [vm_compute; tauto|]. split; vm_compute; tauto.
Qed.

Print Assumptions copy_isolates.
Print Assumptions copy_new_or_attached.
Print Assumptions copy_same_shape.
Print Assumptions any_attribute_test_refuted.

(* C13: printer/parser round trip for whole values, and the theorems about as_ast / as_literal /
   the entry points of object_stream.py. *)
From Coq Require Import Ascii String List ZArith Bool Lia Decimal DecimalN.
From FA.Base Require Import PyAst Induct Value.
From FA.Gen Require Import TablesUtil TablesStream.
From FA.Model Require Import Literal.
From FA.Proofs Require Import LiteralLex LiteralCheck.
Import ListNotations.

(* ------------------------------------------------------------------ induction over nested values *)

Section PyvalInd.
  Variable P : pyval -> Prop.
  Hypothesis HStr : forall s, P (PStr s).
  Hypothesis HInt : forall z, P (PInt z).
  Hypothesis HBool : forall b, P (PBool b).
  Hypothesis HNone : P PNone.
  Hypothesis HBytes : forall s, P (PBytes s).
  Hypothesis HFloat : forall t, P (PFloat t).
  Hypothesis HList : forall l, Forall P l -> P (PList l).
  Hypothesis HTuple : forall l, Forall P l -> P (PTuple l).
  Hypothesis HDict : forall kvs, Forall (fun kv => P (fst kv) /\ P (snd kv)) kvs -> P (PDict kvs).

  Fixpoint pyval_ind' (v : pyval) : P v :=
    let all := fix all (l : list pyval) : Forall P l :=
                 match l with [] => Forall_nil P | x :: xs => Forall_cons x (pyval_ind' x) (all xs) end in
    match v with
    | PStr s => HStr s | PInt z => HInt z | PBool b => HBool b | PNone => HNone
    | PBytes s => HBytes s | PFloat t => HFloat t
    | PList l => HList l (all l)
    | PTuple l => HTuple l (all l)
    | PDict kvs =>
        HDict kvs ((fix alld (l : list (pyval * pyval)) : Forall (fun kv => P (fst kv) /\ P (snd kv)) l :=
                      match l with
                      | [] => Forall_nil _
                      | (k, x) :: r => Forall_cons (k, x) (conj (pyval_ind' k) (pyval_ind' x)) (alld r)
                      end) kvs)
    end.
End PyvalInd.

(* ------------------------------------------------------------------ fuel a value needs *)

Fixpoint sum1 (l : list nat) : nat := match l with [] => 1 | a :: r => S (a + sum1 r) end.

Fixpoint need (v : pyval) : nat :=
  match v with
  | PList l | PTuple l => S (S (sum1 (map need l)))
  | PDict kvs => S (sum1 (map (fun kv => match kv with (k, x) => need k + need x end) kvs))
  | PInt _ => 2
  | PFloat tok => match tok with EmptyString => 1 | String _ _ => 2 end
  | _ => 1
  end.

(* ------------------------------------------------------------------ unfolding equations *)

Lemma pval_S n t : pval (S n) t = pval_step (pval n) (pitems n) (pdict n) t.
Proof. reflexivity. Qed.
Lemma pitems_S n c t : pitems (S n) c t = pitems_step (pval n) (pitems n) c t.
Proof. reflexivity. Qed.
Lemma pdict_S n t : pdict (S n) t = pdict_step (pval n) (pdict n) t.
Proof. reflexivity. Qed.

Lemma pval_sp n t : pval n (c_sp :: t) = pval n t.
Proof. destruct n; [reflexivity |]. rewrite !pval_S. reflexivity. Qed.
Lemma pitems_sp n c t : pitems n c (c_sp :: t) = pitems n c t.
Proof. destruct n; [reflexivity |]. rewrite !pitems_S. reflexivity. Qed.
Lemma pdict_sp n t : pdict n (c_sp :: t) = pdict n t.
Proof. destruct n; [reflexivity |]. rewrite !pdict_S. reflexivity. Qed.

Lemma pval_step_minus pv pi pd t :
  pval_step pv pi pd ("-"%char :: t) = match pv t with Some (e, r) => Some (UnaryOp USub e, r) | None => None end.
Proof. reflexivity. Qed.
Lemma pval_step_list pv pi pd t :
  pval_step pv pi pd ("["%char :: t) = match pi "]"%char t with Some (es, _, r) => Some (List es, r) | None => None end.
Proof. reflexivity. Qed.
Lemma pval_step_tuple pv pi pd t :
  pval_step pv pi pd ("("%char :: t) =
  match pi ")"%char t with
  | Some (es, tr, r) => match es, tr with [e], false => Some (e, r) | _, _ => Some (Tuple es, r) end
  | None => None
  end.
Proof. reflexivity. Qed.
Lemma pval_step_dict pv pi pd t :
  pval_step pv pi pd ("{"%char :: t) = match pd t with Some (ks, vs, r) => Some (Dict ks vs, r) | None => None end.
Proof. reflexivity. Qed.

Lemma join_cons_ne a rs : rs <> [] -> join (a :: rs) = a ++ ","%char :: c_sp :: join rs.
Proof. destruct rs; [congruence | reflexivity]. Qed.

(* ------------------------------------------------------------------ first character of a value's text *)

Definition head_ok (c : ascii) : Prop :=
  is_ws c = false /\ ceq c "]"%char = false /\ ceq c ")"%char = false /\ ceq c "}"%char = false.

Lemma digit_head_ok c : is_digit c = true -> head_ok c.
Proof.
  destruct c as [[|] [|] [|] [|] [|] [|] [|] [|]]; cbn; intros H; try discriminate H; repeat split.
Qed.

Lemma float_tok_head t :
  float_tok_ok t = true ->
  exists c r, t = c :: r /\ (c = "-"%char \/ is_digit c = true).
Proof.
  unfold float_tok_ok. destruct t as [| c r]; [discriminate |].
  destruct (ceq c "-"%char) eqn:E.
  - intros _. exists c, r. split; [reflexivity |]. left. apply Ascii.eqb_eq. exact E.
  - intros H. apply andb_true_iff in H as [H _]. apply andb_true_iff in H as [H _].
    exists c, r. split; [reflexivity | right; exact H].
Qed.

Lemma repr_head v : finite v = true -> exists c r, repr_t v = c :: r /\ head_ok c.
Proof.
  destruct v; cbn [repr_t finite]; intros Hf.
  - unfold repr_strlit, choose_quote. destruct (_ && _); eexists; eexists; (split; [reflexivity | repeat split]).
  - unfold repr_int. destruct z.
    + destruct (repr_nat_head (Z.to_N 0)) as (c & r & E & Hd). exists c, r. split; [exact E | apply digit_head_ok; exact Hd].
    + destruct (repr_nat_head (Z.to_N (Z.pos p))) as (c & r & E & Hd). exists c, r. split; [exact E | apply digit_head_ok; exact Hd].
    + eexists; eexists; (split; [reflexivity | repeat split]).
  - destruct b; eexists; eexists; (split; [reflexivity | repeat split]).
  - eexists; eexists; (split; [reflexivity | repeat split]).
  - eexists; eexists; (split; [reflexivity | repeat split]).
  - destruct (float_tok_head _ Hf) as (c & r & E & [Hc | Hd]); exists c, r.
    + split; [exact E | subst c; repeat split].
    + split; [exact E | apply digit_head_ok; exact Hd].
  - eexists; eexists; (split; [reflexivity | repeat split]).
  - destruct l as [| x [| y l']]; eexists; eexists; (split; [reflexivity | repeat split]).
  - eexists; eexists; (split; [reflexivity | repeat split]).
Qed.

(* ------------------------------------------------------------------ the round trip, value by value *)

Definition RT (v : pyval) : Prop :=
  finite v = true ->
  forall n rest, need v <= n -> follow rest ->
  pval n (repr_t v ++ rest) = Some (lit_expr v, rest).

Lemma rt_str s : RT (PStr s).
Proof.
  intros _ n rest Hn Hf. destruct n as [| n']; [cbn in Hn; lia |]. rewrite pval_S. cbn [repr_t lit_expr].
  destruct (lex_strlit MStr (list_ascii_of_string s) rest) as (q & t1 & E & Hq & Hl).
  rewrite E. unfold pval_step.
  destruct (is_quote_cases q Hq) as [-> | ->]; cbn [skip_ws]; cbn; rewrite Hl;
    rewrite string_of_list_ascii_of_string; reflexivity.
Qed.

Lemma rt_bytes s : RT (PBytes s).
Proof.
  intros _ n rest Hn Hf. destruct n as [| n']; [cbn in Hn; lia |]. rewrite pval_S. cbn [repr_t lit_expr].
  destruct (lex_strlit MBytes (list_ascii_of_string s) rest) as (q & t1 & E & Hq & Hl).
  cbn [app]. rewrite E. unfold pval_step.
  destruct (is_quote_cases q Hq) as [-> | ->]; cbn [skip_ws]; cbn; rewrite Hl;
    rewrite string_of_list_ascii_of_string; reflexivity.
Qed.

Lemma pval_nat n k rest :
  1 <= n -> follow rest -> pval n (repr_nat k ++ rest) = Some (Const (CInt (Z.of_N k)), rest).
Proof.
  intros Hn Hf. destruct n as [| n']; [lia |]. rewrite pval_S.
  destruct (repr_nat_head k) as (c & r & E & Hd).
  rewrite E. cbn [app]. rewrite pval_step_digit by exact Hd.
  change (c :: r ++ rest) with ((c :: r) ++ rest). rewrite <- E. apply pnum_nat; assumption.
Qed.

Lemma rt_int z : RT (PInt z).
Proof.
  intros _ n rest Hn Hf. cbn [need] in Hn. cbn [repr_t lit_expr]. destruct z; cbn [repr_int].
  - rewrite pval_nat by (lia || assumption). reflexivity.
  - rewrite pval_nat by (lia || assumption). reflexivity.
  - destruct n as [| n']; [lia |]. rewrite pval_S. cbn [app]. rewrite pval_step_minus.
    rewrite pval_nat by (lia || assumption). reflexivity.
Qed.

Lemma rt_bool b : RT (PBool b).
Proof.
  intros _ n rest Hn Hf. destruct n as [| n']; [cbn in Hn; lia |]. rewrite pval_S. cbn [repr_t lit_expr].
  destruct (pval_step_word (pval n') (pitems n') (pdict n') rest Hf) as (H1 & H2 & _). destruct b; assumption.
Qed.

Lemma rt_none : RT PNone.
Proof.
  intros _ n rest Hn Hf. destruct n as [| n']; [cbn in Hn; lia |]. rewrite pval_S. cbn [repr_t lit_expr].
  destruct (pval_step_word (pval n') (pitems n') (pdict n') rest Hf) as (_ & _ & H3). assumption.
Qed.

Lemma pval_float n t rest :
  1 <= n ->
  match t with c :: _ => is_digit c | [] => false end = true ->
  (let (_, r) := take_num false t in match r with [] => true | _ :: _ => false end) = true ->
  valid_float t = true -> follow rest ->
  pval n (t ++ rest) = Some (Const (CFloat (string_of_list_ascii t)), rest).
Proof.
  intros Hn Hd Ht Hv Hf. destruct n as [| n']; [lia |]. rewrite pval_S.
  destruct t as [| c r]; [discriminate |]. cbn [app]. rewrite pval_step_digit by exact Hd.
  change (c :: r ++ rest) with ((c :: r) ++ rest). apply pnum_float; assumption.
Qed.

Lemma rt_float tok : RT (PFloat tok).
Proof.
  intros Hfin n rest Hn Hf. cbn [finite] in Hfin. cbn [repr_t lit_expr].
  destruct tok as [| c tok']; [discriminate |]. cbn [need] in Hn.
  cbn [list_ascii_of_string] in *. unfold float_tok_ok in Hfin.
  destruct (ceq c "-"%char) eqn:E.
  - apply Ascii.eqb_eq in E. subst c.
    apply andb_true_iff in Hfin as [Hfin Hv]. apply andb_true_iff in Hfin as [Hd Ht].
    destruct n as [| n']; [lia |]. rewrite pval_S. cbn [app]. rewrite pval_step_minus.
    rewrite pval_float by (lia || assumption).
    rewrite string_of_list_ascii_of_string. reflexivity.
  - apply andb_true_iff in Hfin as [Hfin Hv]. apply andb_true_iff in Hfin as [Hd Ht].
    change (c :: list_ascii_of_string tok') with (list_ascii_of_string (String c tok')) in *.
    rewrite pval_float by (lia || assumption).
    rewrite string_of_list_ascii_of_string. reflexivity.
Qed.

Lemma follow_close close rest : close = "]"%char \/ close = ")"%char \/ close = "}"%char -> follow (close :: rest).
Proof. intros [-> | [-> | ->]]; cbn; auto 10. Qed.

Lemma pitems_join close l :
  close = "]"%char \/ close = ")"%char ->
  l <> [] -> Forall RT l -> forallb finite l = true ->
  forall n rest, sum1 (map need l) <= n ->
  pitems n close (join (map repr_t l) ++ close :: rest) = Some (map lit_expr l, false, rest).
Proof.
  intros Hc. induction l as [| x l IH]; [congruence |]. intros _ HP Hfin n rest Hn.
  inversion HP as [| ? ? Px Pl]; subst. cbn [forallb] in Hfin. apply andb_true_iff in Hfin as [Fx Fl].
  cbn [map sum1] in Hn. destruct n as [| n']; [lia |]. rewrite pitems_S.
  destruct (repr_head x Fx) as (c & r & E & Hws & H1 & H2 & H3).
  assert (Hcc : ceq c close = false) by (destruct Hc; subst; assumption).
  assert (Hl : l = [] \/ l <> []) by (destruct l; [left | right]; congruence).
  destruct Hl as [-> | Hne].
  - cbn [map join]. unfold pitems_step. rewrite E. cbn [app skip_ws]. rewrite Hws, Hcc.
    change (c :: r ++ close :: rest) with ((c :: r) ++ close :: rest). rewrite <- E.
    rewrite (Px Fx n' (close :: rest)) by (lia || (apply follow_close; tauto)).
    destruct Hc; subst; reflexivity.
  - cbn [map]. rewrite join_cons_ne by (destruct l; [congruence | discriminate]).
    rewrite <- app_assoc. cbn [app].
    unfold pitems_step. rewrite E. cbn [app skip_ws]. rewrite Hws, Hcc.
    change (c :: r ++ ?z) with ((c :: r) ++ z). rewrite <- E.
    rewrite (Px Fx n') by (lia || (cbn; auto)).
    destruct Hc; subst; cbn [skip_ws]; cbn; rewrite pitems_sp;
      (rewrite IH by (assumption || lia)); reflexivity.
Qed.

Definition kv_text (kv : pyval * pyval) : text :=
  match kv with (k, x) => repr_t k ++ ":"%char :: c_sp :: repr_t x end.
Definition kv_need (kv : pyval * pyval) : nat := match kv with (k, x) => need k + need x end.
Definition kv_fin (kv : pyval * pyval) : bool := match kv with (k, x) => finite k && finite x end.
Definition kv_key (kv : pyval * pyval) : expr := match kv with (k, _) => lit_expr k end.
Definition kv_val (kv : pyval * pyval) : expr := match kv with (_, x) => lit_expr x end.

Lemma pdict_join kvs :
  kvs <> [] -> Forall (fun kv => RT (fst kv) /\ RT (snd kv)) kvs -> forallb kv_fin kvs = true ->
  forall n rest, sum1 (map kv_need kvs) <= n ->
  pdict n (join (map kv_text kvs) ++ "}"%char :: rest) = Some (map kv_key kvs, map kv_val kvs, rest).
Proof.
  induction kvs as [| [k x] l IH]; [congruence |]. intros _ HP Hfin n rest Hn.
  inversion HP as [| ? ? [Pk Px] Pl]; subst. cbn [fst snd] in *.
  cbn [forallb kv_fin] in Hfin. apply andb_true_iff in Hfin as [Fkx Fl]. apply andb_true_iff in Fkx as [Fk Fx].
  cbn [map sum1 kv_need] in Hn. destruct n as [| n']; [lia |]. rewrite pdict_S.
  destruct (repr_head k Fk) as (c & r & E & Hws & H1 & H2 & H3).
  assert (Hl : l = [] \/ l <> []) by (destruct l; [left | right]; congruence).
  destruct Hl as [-> | Hne].
  - cbn [map join kv_text]. rewrite <- app_assoc. cbn [app].
    unfold pdict_step. rewrite E. cbn [app skip_ws]. rewrite Hws, H3.
    change (c :: r ++ ?z) with ((c :: r) ++ z). rewrite <- E.
    rewrite (Pk Fk n') by (lia || (cbn; auto 10)).
    cbn [skip_ws]; cbn. rewrite pval_sp.
    rewrite (Px Fx n') by (lia || (cbn; auto 10)).
    reflexivity.
  - cbn [map]. rewrite join_cons_ne by (destruct l; [congruence | discriminate]).
    cbn [kv_text]. repeat (rewrite <- app_assoc; cbn [app]).
    unfold pdict_step. rewrite E. cbn [app skip_ws]. rewrite Hws, H3.
    change (c :: r ++ ?z) with ((c :: r) ++ z). rewrite <- E.
    rewrite (Pk Fk n') by (lia || (cbn; auto 10)).
    cbn [skip_ws]; cbn. rewrite pval_sp.
    rewrite (Px Fx n') by (lia || (cbn; auto 10)).
    cbn [skip_ws]; cbn. rewrite pdict_sp.
    rewrite IH by (assumption || lia). reflexivity.
Qed.

Lemma rt_list l : Forall RT l -> RT (PList l).
Proof.
  intros HP Hfin n rest Hn Hf. cbn [finite] in Hfin. cbn [need] in Hn. cbn [repr_t lit_expr].
  destruct n as [| n']; [lia |]. rewrite pval_S. cbn [app]. rewrite <- app_assoc. cbn [app].
  rewrite pval_step_list.
  destruct l as [| x l'].
  - destruct n' as [| n'']; [cbn in Hn; lia |]. reflexivity.
  - rewrite pitems_join; [reflexivity | tauto | discriminate | assumption | assumption | lia].
Qed.

Lemma rt_tuple l : Forall RT l -> RT (PTuple l).
Proof.
  intros HP Hfin n rest Hn Hf. cbn [finite] in Hfin. cbn [need] in Hn. cbn [lit_expr].
  destruct n as [| n']; [lia |]. rewrite pval_S.
  destruct l as [| x [| y l']].
  - cbn [repr_t map join app]. rewrite pval_step_tuple.
    destruct n' as [| n'']; [cbn in Hn; lia |]. reflexivity.
  - (* (x,) *)
    cbn [repr_t]. cbn [app]. rewrite <- app_assoc. cbn [app].
    rewrite pval_step_tuple.
    inversion HP as [| ? ? Px _]; subst. cbn [forallb] in Hfin. apply andb_true_iff in Hfin as [Fx _].
    cbn [map sum1] in Hn.
    destruct n' as [| n'']; [lia |]. rewrite pitems_S.
    destruct (repr_head x Fx) as (c & r & E & Hws & H1 & H2 & H3).
    unfold pitems_step. rewrite E. cbn [app skip_ws]. rewrite Hws, H2.
    change (c :: r ++ ?z) with ((c :: r) ++ z). rewrite <- E.
    rewrite (Px Fx n'') by (lia || (cbn; auto 10)).
    destruct n'' as [| n3]; [lia |]. reflexivity.
  - cbn [repr_t]. cbn [app]. rewrite <- app_assoc. cbn [app].
    rewrite pval_step_tuple.
    rewrite pitems_join; [reflexivity | tauto | discriminate | assumption | assumption | cbn [map sum1] in *; lia].
Qed.

Lemma rt_dict kvs : Forall (fun kv => RT (fst kv) /\ RT (snd kv)) kvs -> RT (PDict kvs).
Proof.
  intros HP Hfin n rest Hn Hf. cbn [finite] in Hfin. cbn [need] in Hn. cbn [repr_t lit_expr].
  fold kv_text. fold kv_key. fold kv_val. fold kv_need in Hn. fold kv_fin in Hfin.
  destruct n as [| n']; [lia |]. rewrite pval_S. cbn [app]. rewrite <- app_assoc. cbn [app].
  rewrite pval_step_dict.
  destruct kvs as [| kv l'].
  - destruct n' as [| n'']; [cbn in Hn; lia |]. reflexivity.
  - rewrite pdict_join; [reflexivity | discriminate | assumption | assumption | lia].
Qed.

Theorem roundtrip_parse v : RT v.
Proof.
  induction v using pyval_ind'.
  - apply rt_str. - apply rt_int. - apply rt_bool. - apply rt_none. - apply rt_bytes. - apply rt_float.
  - apply rt_list; assumption. - apply rt_tuple; assumption. - apply rt_dict; assumption.
Qed.

(* ------------------------------------------------------------------ the text is long enough to be its own fuel *)

Lemma join_len_need l :
  Forall (fun v => need v <= 2 * length (repr_t v) + 1) l ->
  sum1 (map need l) <= 2 * length (join (map repr_t l)) + 3.
Proof.
  induction 1 as [| x l Hx Hl IH]; [cbn; lia |].
  assert (Hc : l = [] \/ l <> []) by (destruct l; [left | right]; congruence).
  destruct Hc as [-> | Hne].
  - cbn [map sum1 join]. lia.
  - cbn [map sum1]. rewrite join_cons_ne by (destruct l; [congruence | discriminate]).
    rewrite app_length. cbn [length]. lia.
Qed.

Lemma join_len_need_d kvs :
  Forall (fun kv => need (fst kv) <= 2 * length (repr_t (fst kv)) + 1 /\
                    need (snd kv) <= 2 * length (repr_t (snd kv)) + 1) kvs ->
  sum1 (map kv_need kvs) <= 2 * length (join (map kv_text kvs)) + 3.
Proof.
  induction 1 as [| [k x] l [Hk Hx] Hl IH]; [cbn; lia |]. cbn [fst snd] in *.
  assert (Hc : l = [] \/ l <> []) by (destruct l; [left | right]; congruence).
  destruct Hc as [-> | Hne].
  - cbn [map sum1 join kv_need kv_text]. rewrite app_length. cbn [length]. lia.
  - cbn [map sum1]. rewrite join_cons_ne by (destruct l; [congruence | discriminate]).
    cbn [kv_need kv_text]. rewrite !app_length. cbn [length]. lia.
Qed.

Lemma need_le_len v : need v <= 2 * length (repr_t v) + 1.
Proof.
  induction v using pyval_ind'; try (cbn [need]; lia).
  - (* int *) cbn [need repr_t]. unfold repr_int. destruct z; cbn [length].
    + destruct (repr_nat_head (Z.to_N 0)) as (c & r & E & _). rewrite E. cbn [length]. lia.
    + destruct (repr_nat_head (Z.to_N (Z.pos p))) as (c & r & E & _). rewrite E. cbn [length]. lia.
    + lia.
  - (* float: the token may be empty only outside [finite]; 2 <= 2*len+1 needs len >= 1 *)
    cbn [need repr_t]. destruct t; cbn [list_ascii_of_string length]; lia.
  - cbn [need repr_t length]. rewrite app_length. cbn [length]. pose proof (join_len_need l H). lia.
  - cbn [need]. destruct l as [| x [| y l']].
    + cbn. lia.
    + cbn [repr_t length map sum1]. rewrite app_length. cbn [length]. inversion H; subst. lia.
    + cbn [repr_t length]. rewrite app_length. cbn [length]. pose proof (join_len_need _ H). lia.
  - cbn [need repr_t length]. fold kv_need. fold kv_text. rewrite app_length. cbn [length].
    pose proof (join_len_need_d kvs H) as H0. unfold kv_text, kv_need, text in *. lia.
Qed.

(* ------------------------------------------------------------------ literal_eval of the expected literal *)

Lemma omap_lit l :
  Forall (fun v => finite v = true -> literal_eval (lit_expr v) = Some v) l ->
  forallb finite l = true ->
  omap literal_eval (map lit_expr l) = Some l.
Proof.
  unfold omap. induction 1 as [| x l Hx _ IH]; [reflexivity |].
  cbn [forallb map sequence]. intros Hf. apply andb_true_iff in Hf as [Fx Fl].
  rewrite (Hx Fx). cbn [obind]. rewrite (IH Fl). reflexivity.
Qed.

Lemma eval_lit v : finite v = true -> literal_eval (lit_expr v) = Some v.
Proof.
  induction v using pyval_ind'; intros Hf; try reflexivity.
  - destruct z; reflexivity.
  - (* float *) cbn [finite] in Hf. cbn [lit_expr]. destruct t as [| c t']; [discriminate |].
    destruct (ceq c "-"%char) eqn:E.
    + apply Ascii.eqb_eq in E. subst c. cbn [literal_eval]. unfold neg_tok.
      cbn [list_ascii_of_string] in Hf. unfold float_tok_ok in Hf.
      change (ceq "-"%char "-"%char) with true in Hf. cbv iota in Hf.
      apply andb_true_iff in Hf as [Hf _]. apply andb_true_iff in Hf as [Hd _].
      destruct t' as [| d t'']; [discriminate |]. cbn [list_ascii_of_string] in Hd.
      destruct (ceq d "-"%char) eqn:E2; [| reflexivity].
      apply Ascii.eqb_eq in E2. subst d. discriminate.
    + reflexivity.
  - cbn [lit_expr literal_eval finite] in *. rewrite omap_lit by assumption. reflexivity.
  - cbn [lit_expr literal_eval finite] in *. rewrite omap_lit by assumption. reflexivity.
  - cbn [lit_expr literal_eval finite] in *. rewrite !map_length, Nat.eqb_refl.
    assert (Hk : omap literal_eval (map (fun kv : pyval * pyval => let (k, _) := kv in lit_expr k) kvs) = Some (map fst kvs) /\
                 omap literal_eval (map (fun kv : pyval * pyval => let (_, x) := kv in lit_expr x) kvs) = Some (map snd kvs)).
    { unfold omap. clear - H Hf. induction H as [| [k x] l [Hk Hx] _ IH]; [split; reflexivity |].
      cbn [forallb map sequence fst snd] in *. apply andb_true_iff in Hf as [Fkx Fl]. apply andb_true_iff in Fkx as [Fk Fx].
      destruct (IH Fl) as [IH1 IH2]. rewrite (Hk Fk), (Hx Fx), IH1, IH2. split; reflexivity. }
    destruct Hk as [-> ->]. cbn [obind]. f_equal. f_equal.
    clear. induction kvs as [| [k x] l IH]; [reflexivity |]. cbn [map combine fst snd]. rewrite IH. reflexivity.
Qed.

Lemma finite_ints_ok v : finite v = true -> ints_ok v = true.
Proof.
  induction v using pyval_ind'; cbn [finite ints_ok]; intros Hf; try reflexivity; try assumption.
  - induction H as [| x l Hx _ IH]; [reflexivity |]. cbn [forallb] in *. apply andb_true_iff in Hf as [F1 F2].
    rewrite (Hx F1), (IH F2). reflexivity.
  - induction H as [| x l Hx _ IH]; [reflexivity |]. cbn [forallb] in *. apply andb_true_iff in Hf as [F1 F2].
    rewrite (Hx F1), (IH F2). reflexivity.
  - induction H as [| [k x] l [Hk Hx] _ IH]; [reflexivity |]. cbn [forallb fst snd] in *.
    apply andb_true_iff in Hf as [F1 F2]. apply andb_true_iff in F1 as [Fk Fx].
    rewrite (Hk Fk), (Hx Fx), (IH F2). reflexivity.
Qed.

(* ------------------------------------------------------------------ as_ast *)

Lemma parse_text_repr v : finite v = true -> parse_text (repr_t v) = Some (lit_expr v).
Proof.
  intros Hf. destruct (repr_head v Hf) as (c & r & E & Hws & _).
  unfold parse_text. rewrite E. rewrite Hws. rewrite <- E.
  pose proof (roundtrip_parse v Hf (2 * length (repr_t v) + 1) []) as H.
  rewrite app_nil_r in H. rewrite H; [reflexivity | apply need_le_len | exact I].
Qed.

(* the emitted node is exactly the literal of the value ... *)
Theorem as_ast_exact v : embeddable v = true -> as_ast v = Some (lit_expr v).
Proof.
  unfold embeddable. intros H. apply andb_true_iff in H as [Hf Hd].
  unfold as_ast. rewrite finite_ints_ok by assumption. rewrite Hd. apply parse_text_repr; assumption.
Qed.

Lemma embeddable_finite v : embeddable v = true -> finite v = true.
Proof. unfold embeddable. intros H. apply andb_true_iff in H as [Hf _]. exact Hf. Qed.

(* ... which evaluates back to the value, type-exactly *)
Theorem as_ast_roundtrip v :
  embeddable v = true -> exists e, as_ast v = Some e /\ literal_eval e = Some v.
Proof.
  intros Hf. exists (lit_expr v). split; [apply as_ast_exact; assumption | apply eval_lit, embeddable_finite; assumption].
Qed.

(* beyond CPython's limits the value is refused, never altered *)
Theorem as_ast_some v e : as_ast v = Some e -> finite v = true -> e = lit_expr v.
Proof.
  unfold as_ast. destruct (ints_ok v && Nat.leb (depth v) max_nesting); [| discriminate].
  intros H Hf. rewrite parse_text_repr in H by assumption. inversion H; reflexivity.
Qed.

(* a str - any bytes: quotes, backslashes, newlines, code-like text - becomes one string constant *)
Theorem as_ast_no_code s : as_ast (PStr s) = Some (Const (CStr s)).
Proof. apply (as_ast_exact (PStr s)). reflexivity. Qed.

Theorem as_ast_bytes s : as_ast (PBytes s) = Some (Const (CBytes s)).
Proof. apply (as_ast_exact (PBytes s)). reflexivity. Qed.

(* the printed text as a Coq string, for the statement about [py_repr] / [parse_literal] *)
Theorem parse_repr v : finite v = true -> parse_literal (py_repr v) = Some (lit_expr v).
Proof.
  intros Hf. unfold parse_literal, py_repr. rewrite list_ascii_of_string_of_list_ascii.
  apply parse_text_repr; assumption.
Qed.

(* the pinned commit's code: three kinds of failure, each with its witness *)
Theorem as_ast_unfixed_refuted :
  (exists s, as_ast_unfixed (PStr s) = None) /\
  (exists s s', as_ast_unfixed (PStr s) = Some (Const (CStr s')) /\ s' <> s) /\
  (exists s e1 e2, as_ast_unfixed (PStr s) = Some (BinOp BAdd e1 e2)).
Proof.
  split; [| split].
  - exists "it's"%string. vm_compute. reflexivity.
  - exists "a\nb"%string. eexists. split; [vm_compute; reflexivity | discriminate].
  - exists "x' + 'y"%string. eexists. eexists. vm_compute. reflexivity.
Qed.

(* ------------------------------------------------------------------ as_literal *)

Theorem as_literal_exact v c :
  const_of_scalar v = Some c ->
  literal_eval (as_literal c) = Some v /\ consts (as_literal c) = [c].
Proof. destruct v; cbn; intros H; inversion H; subst; split; reflexivity. Qed.

Theorem as_literal_any c : as_literal c = Const c /\ (check_ast (as_literal c) = true <-> transportable c).
Proof. split; [reflexivity |]. apply const_legal_spec. Qed.

(* ------------------------------------------------------------------ entry points *)

Theorem metadata_embed q md :
  embeddable md = true -> metadata_call q md = Some (Call (Name "MetaData") [q; lit_expr md] [] []).
Proof. intros Hf. unfold metadata_call. rewrite as_ast_exact by assumption. reflexivity. Qed.

(* every As* terminal: the node named by the wire format, the source query first, then each Python
   argument as its own literal in the wire format's position *)
Theorem terminals_embed meth node lits :
  In (meth, node, lits) wire_format ->
  forall q env vs,
    map (fun nm => lookup nm env) lits = map Some vs -> forallb embeddable vs = true ->
    as_terminal meth q env = Some (Call (Name node) (q :: map lit_expr vs) [] []).
Proof.
  intros Hin q env vs Hl Hf. unfold wire_format in Hin. cbn [In] in Hin.
  repeat (destruct Hin as [Hin | Hin]; [inversion Hin; subst; clear Hin | ]); try contradiction.
  all: unfold as_terminal;
    match goal with |- context [find_terminal ?m terminals] =>
      let r := eval vm_compute in (find_terminal m terminals) in
      change (find_terminal m terminals) with r end;
    cbv iota beta; unfold terminal_call, omap; cbn [map] in *.
  all: repeat (let v := fresh "v" in destruct vs as [| v vs]; cbn [map] in Hl; try discriminate Hl).
  all: inversion Hl as [Hl']; clear Hl.
  all: cbn [forallb] in Hf;
    repeat match goal with H : (_ && _) = true |- _ => apply andb_true_iff in H; destruct H end.
  all: repeat match goal with H : lookup _ _ = Some _ |- _ => rewrite H; clear H end.
  all: cbn [obind sequence]; repeat (rewrite as_ast_exact by assumption; cbn [obind]).
  all: reflexivity.
Qed.

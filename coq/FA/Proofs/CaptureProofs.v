(* Syntactic facts about the capture model (Model/Capture.v): the gate, scope, by-name calls. *)
From FA.Base Require Import PyAst Induct Value Traverse.
From FA.Gen Require Import TablesUtil.
From FA.Model Require Import Capture.
From Coq Require Import Lia.

(* ---------- the gate ---------- *)

Lemma check_ast_ok_iff e :
  check_ast e = Ok tt <-> Forall (fun c => legal_const c = true) (consts_in e).
Proof.
  unfold check_ast. rewrite Forall_forall.
  destruct (forallb legal_const (consts_in e)) eqn:H; split; intros HH; try reflexivity; try discriminate.
  - rewrite forallb_forall in H. exact H.
  - exfalso. assert (forallb legal_const (consts_in e) = true) by (apply forallb_forall; exact HH).
    congruence.
Qed.

Lemma check_ast_total e : check_ast e = Ok tt \/ check_ast e = Err EValueError.
Proof. unfold check_ast. destruct (forallb legal_const (consts_in e)); auto. Qed.

Lemma pipeline_gate ce src e' :
  capture_pipeline ce src = Ok e' -> Forall (fun c => legal_const c = true) (consts_in e').
Proof.
  unfold capture_pipeline. destruct (parse_callable ce src) as [e|er]; simpl; [|discriminate].
  destruct (check_ast e) as [[]|er] eqn:Hc; simpl; [|discriminate].
  intros H; inversion H; subst. apply check_ast_ok_iff. exact Hc.
Qed.

(* ---------- scope: the ignore stack ---------- *)

Lemma is_arg_cons ps st x : is_arg (ps :: st) x = existsb (String.eqb x) ps || is_arg st x.
Proof. reflexivity. Qed.

Lemma is_arg_cons_false ps st x : is_arg (ps :: st) x = false -> is_arg st x = false.
Proof. rewrite is_arg_cons. intros H. apply orb_false_iff in H. tauto. Qed.

(* two snapshots that differ only on names that are on the ignore stack *)
Definition agree_off (st : list (list string)) (ce1 ce2 : cenv) : Prop :=
  (forall x, is_arg st x = false -> lookup_var ce1 x = lookup_var ce2 x) /\ ce_attrs ce1 = ce_attrs ce2.

Lemma agree_off_cons ps st ce1 ce2 : agree_off st ce1 ce2 -> agree_off (ps :: st) ce1 ce2.
Proof. intros [H1 H2]. split; [|exact H2]. intros x Hx. apply H1. eapply is_arg_cons_false; eauto. Qed.

Lemma rw_list_ext f g l : Forall (fun x => f x = g x) l -> rw_list f l = rw_list g l.
Proof. induction 1 as [|x xs Hx _ IH]; simpl; [reflexivity|]. rewrite Hx, IH. reflexivity. Qed.

Lemma rw_gens_ext fo fi go gi l :
  Forall (fun g => match g with
                   | CompFor _ it ifs _ => fo it = go it /\ fi it = gi it /\ Forall (fun x => fi x = gi x) ifs
                   | _ => True end) l ->
  forall first, rw_gens fo fi first l = rw_gens go gi first l.
Proof.
  induction 1 as [|g gs Hg _ IH]; intros first; simpl; [reflexivity|].
  destruct g; try reflexivity. destruct Hg as (H1 & H2 & H3).
  rewrite (rw_list_ext _ _ _ H3), IH. destruct first; [rewrite H1 | rewrite H2]; reflexivity.
Qed.

(* ---------- lambdas with default values / other parameter kinds: the visitors against [lam_parts] ---------- *)

Lemma lam_parts_inv cls cs acls aatoms akids b lv :
  lam_parts cls cs = Some (acls, aatoms, akids, b, lv) ->
  String.prefix "Lambda;" cls = true /\ cs = [Other acls aatoms akids; b] /\ lam_view acls akids = Some lv.
Proof.
  unfold lam_parts. destruct (String.prefix "Lambda;" cls); [|discriminate].
  destruct cs as [|a0 [|b0 [|c0 cs]]]; try discriminate;
    (destruct a0 as [| | | | | | | | | | | | | | | | | |acls0 aatoms0 akids0]; try discriminate).
  destruct (lam_view acls0 akids0) eqn:Hv; [|discriminate]. intros H; inversion H; subst. auto.
Qed.

Lemma lam_bound_parts cls cs :
  lam_bound cls cs = match lam_parts cls cs with Some (_, _, _, _, lv) => lv_params lv | None => [] end.
Proof.
  unfold lam_bound, lam_parts. destruct (String.prefix "Lambda;" cls); [|reflexivity].
  destruct cs as [|a0 [|b0 [|c0 cs]]]; try reflexivity;
    (destruct a0 as [| | | | | | | | | | | | | | | | | |acls0 aatoms0 akids0]; try reflexivity).
  destruct (lam_view acls0 akids0); reflexivity.
Qed.

(* a class string that starts with "Lambda;" starts neither with "SetComp;" nor with "DictComp;" *)
Lemma prefix_lambda_excl cls :
  String.prefix "Lambda;" cls = true -> String.prefix "SetComp;" cls = false /\ String.prefix "DictComp;" cls = false.
Proof.
  destruct cls as [|c cls]; [discriminate|]. intros H.
  assert (Hc : c = Ascii.Ascii false false true true false false true false).
  { cbn [String.prefix] in H. destruct (Ascii.ascii_dec _ c) as [<-|]; [reflexivity | discriminate]. }
  subst c. split; reflexivity.
Qed.

Lemma rw_other_shape ce st cls atoms cs :
  String.prefix "SetComp;" cls = false -> String.prefix "DictComp;" cls = false ->
  rw ce st (Other cls atoms cs) =
  match lam_parts cls cs with
  | Some (acls, aatoms, akids, b, lv) =>
      same (sbind (rw_list (fun k => if is_argnode k then Ok (k, k) else rw ce st k) akids) (fun akids' =>
            sbind (rw ce ((lv_params lv ++ assigned b) :: st) b) (fun pb => Ok (Other cls atoms [Other acls aatoms akids'; fst pb]))))
  | None => same (sbind (rw_list (rw ce st) cs) (fun cs' => Ok (Other cls atoms cs')))
  end.
Proof.
  intros E1 E2. cbn [rw]. rewrite E1, E2. unfold lam_parts.
  destruct (String.prefix "Lambda;" cls); [|reflexivity].
  destruct cs as [|a0 [|b0 [|c0 cs]]]; try reflexivity;
    (destruct a0 as [| | | | | | | | | | | | | | | | | |acls0 aatoms0 akids0]; try reflexivity).
  destruct (lam_view acls0 akids0); reflexivity.
Qed.

Lemma res_other_shape st cls atoms cs :
  String.prefix "SetComp;" cls = false -> String.prefix "DictComp;" cls = false ->
  res st (Other cls atoms cs) =
  match lam_parts cls cs with
  | Some (acls, aatoms, akids, b, lv) =>
      Other cls atoms [Other acls aatoms (map (on_defaults (res st)) akids); res (shadow (lv_params lv) :: st) b]
  | None => Other cls atoms (map (res st) cs)
  end.
Proof.
  intros E1 E2. cbn [res]. rewrite E1, E2. unfold lam_parts.
  destruct (String.prefix "Lambda;" cls); [|reflexivity].
  destruct cs as [|a0 [|b0 [|c0 cs]]]; try reflexivity;
    (destruct a0 as [| | | | | | | | | | | | | | | | | |acls0 aatoms0 akids0]; try reflexivity).
  destruct (lam_view acls0 akids0); reflexivity.
Qed.

(* a call whose callee is an [Other] node: inlined only when that node is a lambda with default values that python
   binds by position alone *)
Lemma res_call_other_shape st cls atoms cs args kwn kwv :
  res st (Call (Other cls atoms cs) args kwn kwv) =
  let stays := Call (res st (Other cls atoms cs)) (map (res st) args) kwn (map (res st) kwv) in
  match lam_parts cls cs, kwn with
  | Some (_, _, _, b, lv), [] =>
      if lv_simple lv && Nat.eqb (length (lv_args lv)) (length args) && negb (existsb is_starred args || has_walrus b)
      then if overlaps (flat_map names_in (map (res st) args)) (inner_binders b) then stays
           else res (combine (lv_args lv) (map (@Some expr) (map (res st) args)) :: st) b
      else stays
  | _, _ => stays
  end.
Proof.
  cbn [res]. unfold lam_parts. destruct (String.prefix "Lambda;" cls); [|reflexivity].
  destruct cs as [|a0 [|b0 [|c0 cs]]]; try reflexivity;
    (destruct a0 as [| | | | | | | | | | | | | | | | | |acls0 aatoms0 akids0]; try reflexivity).
  destruct (lam_view acls0 akids0); [|reflexivity]. destruct kwn; reflexivity.
Qed.

Lemma inner_binders_other cls atoms cs :
  inner_binders (Other cls atoms cs) = lam_bound cls cs ++ flat_map inner_binders cs.
Proof. reflexivity. Qed.

Definition scope_P (e : expr) : Prop :=
  forall st ce1 ce2, agree_off st ce1 ce2 -> rw ce1 st e = rw ce2 st e.

Definition scope_Q (e : expr) : Prop :=
  scope_P e /\ match e with
               | CompFor _ it ifs _ => scope_P it /\ Forall scope_P ifs
               | Other _ _ cs => Forall scope_P cs         (* the children of an ast.arguments node: default values *)
               | _ => True
               end.

Lemma scope_Q_P l : Forall scope_Q l -> Forall scope_P l.
Proof. apply Forall_impl. intros a [H _]; exact H. Qed.

Lemma scope_list l st ce1 ce2 :
  Forall scope_P l -> agree_off st ce1 ce2 -> rw_list (rw ce1 st) l = rw_list (rw ce2 st) l.
Proof.
  intros H Hag. apply rw_list_ext. eapply Forall_impl; [|exact H]. intros a Ha. apply Ha; exact Hag.
Qed.

Lemma scope_gens gs st st' ce1 ce2 first :
  Forall scope_Q gs -> agree_off st ce1 ce2 -> agree_off st' ce1 ce2 ->
  rw_gens (rw ce1 st) (rw ce1 st') first gs = rw_gens (rw ce2 st) (rw ce2 st') first gs.
Proof.
  intros H Hag Hag'. apply rw_gens_ext. eapply Forall_impl; [|exact H].
  intros g [_ Hg]. destruct g; try exact I. destruct Hg as [Hit Hifs].
  split; [apply Hit; exact Hag | split; [apply Hit; exact Hag'|]].
  eapply Forall_impl; [|exact Hifs]. intros a Ha. apply Ha; exact Hag'.
Qed.

Lemma scope_all : forall e, scope_Q e.
Proof.
  induction e using expr_ind'; (split; [intros st ce1 ce2 Hag | try exact I]); cbn [rw].
  - (* Name *)
    destruct (is_arg st id) eqn:E; [reflexivity|]. rewrite (proj1 Hag _ E). reflexivity.
  - reflexivity.
  - (* Attr *)
    rewrite (proj1 IHe st ce1 ce2 Hag). unfold lookup_attr. rewrite (proj2 Hag). reflexivity.
  - (* Call *)
    rewrite (proj1 IHe st ce1 ce2 Hag).
    rewrite (scope_list args st ce1 ce2 (scope_Q_P _ H) Hag), (scope_list kwv st ce1 ce2 (scope_Q_P _ H0) Hag).
    reflexivity.
  - (* Lambda *)
    rewrite (proj1 IHe ((ps ++ assigned e) :: st) ce1 ce2 (agree_off_cons _ _ _ _ Hag)). reflexivity.
  - rewrite (proj1 IHe st ce1 ce2 Hag). reflexivity.
  - rewrite (proj1 IHe1 st ce1 ce2 Hag), (proj1 IHe2 st ce1 ce2 Hag). reflexivity.
  - rewrite (scope_list es st ce1 ce2 (scope_Q_P _ H) Hag). reflexivity.
  - rewrite (proj1 IHe st ce1 ce2 Hag), (scope_list rs st ce1 ce2 (scope_Q_P _ H) Hag). reflexivity.
  - rewrite (proj1 IHe1 st ce1 ce2 Hag), (proj1 IHe2 st ce1 ce2 Hag), (proj1 IHe3 st ce1 ce2 Hag). reflexivity.
  - rewrite (scope_list es st ce1 ce2 (scope_Q_P _ H) Hag). reflexivity.
  - rewrite (scope_list es st ce1 ce2 (scope_Q_P _ H) Hag). reflexivity.
  - rewrite (scope_list ks st ce1 ce2 (scope_Q_P _ H) Hag), (scope_list vs st ce1 ce2 (scope_Q_P _ H0) Hag). reflexivity.
  - rewrite (proj1 IHe1 st ce1 ce2 Hag), (proj1 IHe2 st ce1 ce2 Hag). reflexivity.
  - (* ListComp *)
    destruct gs as [|g gs]; [reflexivity|].
    pose proof (agree_off_cons (comp_targets (g :: gs)) _ _ _ Hag) as Hag'.
    rewrite (scope_gens (g :: gs) st _ ce1 ce2 true H Hag Hag'), (proj1 IHe _ ce1 ce2 Hag'). reflexivity.
  - (* GenExp *)
    destruct gs as [|g gs]; [reflexivity|].
    pose proof (agree_off_cons (comp_targets (g :: gs)) _ _ _ Hag) as Hag'.
    rewrite (scope_gens (g :: gs) st _ ce1 ce2 true H Hag Hag'), (proj1 IHe _ ce1 ce2 Hag'). reflexivity.
  - (* CompFor *)
    rewrite (proj1 IHe1 st ce1 ce2 Hag), (proj1 IHe2 st ce1 ce2 Hag), (scope_list ifs st ce1 ce2 (scope_Q_P _ H) Hag).
    reflexivity.
  - (* CompFor, hereditary part *)
    split; [exact (proj1 IHe2) | exact (scope_Q_P _ H)].
  - reflexivity.
  - (* Other *)
    destruct (String.prefix "SetComp;" cls).
    { destruct cs as [|h [|g gs]]; try reflexivity.
      inversion H as [|? ? Hh Hgs]; subst.
      pose proof (agree_off_cons (comp_targets (g :: gs)) _ _ _ Hag) as Hag'.
      rewrite (scope_gens (g :: gs) st _ ce1 ce2 true Hgs Hag Hag'), (proj1 Hh _ ce1 ce2 Hag'). reflexivity. }
    destruct (String.prefix "DictComp;" cls).
    { destruct cs as [|k [|v [|g gs]]]; try reflexivity.
      inversion H as [|? ? Hk Hr]; subst. inversion Hr as [|? ? Hv Hgs]; subst.
      pose proof (agree_off_cons (comp_targets (g :: gs)) _ _ _ Hag) as Hag'.
      rewrite (scope_gens (g :: gs) st _ ce1 ce2 true Hgs Hag Hag'), (proj1 Hk _ ce1 ce2 Hag'), (proj1 Hv _ ce1 ce2 Hag').
      reflexivity. }
    (* a lambda with default values / other parameter kinds (FC7, FC8), or any other node class *)
    destruct (String.prefix "Lambda;" cls);
      [|rewrite (scope_list _ st ce1 ce2 (scope_Q_P _ H) Hag); reflexivity].
    destruct cs as [|a0 [|b [|c0 cs]]]; try (rewrite (scope_list _ st ce1 ce2 (scope_Q_P _ H) Hag); reflexivity);
      (destruct a0 as [| | | | | | | | | | | | | | | | | |acls aatoms akids];
       try (rewrite (scope_list _ st ce1 ce2 (scope_Q_P _ H) Hag); reflexivity)).
    destruct (lam_view acls akids) as [lv|]; [|rewrite (scope_list _ st ce1 ce2 (scope_Q_P _ H) Hag); reflexivity].
    inversion H as [|? ? Ha0 Hr]; subst. inversion Hr as [|? ? Hb0 _]; subst.
    destruct Ha0 as [_ Hkids].
    rewrite (proj1 Hb0 ((lv_params lv ++ assigned b) :: st) ce1 ce2 (agree_off_cons _ _ _ _ Hag)).
    rewrite (rw_list_ext (fun k => if is_argnode k then Ok (k, k) else rw ce1 st k)
                         (fun k => if is_argnode k then Ok (k, k) else rw ce2 st k) akids); [reflexivity|].
    eapply Forall_impl; [|exact Hkids]. intros a Ha. cbv beta. destruct (is_argnode a); [reflexivity | apply Ha; exact Hag].
  - (* Other, hereditary part *)
    exact (scope_Q_P _ H).
Qed.

(* The values the snapshot holds for names on the ignore stack are irrelevant: whatever was captured under the
   name of a lambda parameter / comprehension target in scope, the rewritten tree is the same. *)
Theorem rw_scope : forall e st ce1 ce2, agree_off st ce1 ce2 -> rw ce1 st e = rw ce2 st e.
Proof. intros e. exact (proj1 (scope_all e)). Qed.

(* erasing names from the snapshot *)
Definition mem (x : string) (X : list string) : bool := existsb (String.eqb x) X.

Definition erase_list {A} (X : list string) (l : list (string * A)) : list (string * A) :=
  filter (fun p => negb (mem (fst p) X)) l.

Definition erase (X : list string) (ce : cenv) : cenv :=
  {| ce_nonlocals := erase_list X (ce_nonlocals ce); ce_globals := erase_list X (ce_globals ce); ce_attrs := ce_attrs ce |}.

Lemma assoc_erase {A} X (l : list (string * A)) x :
  assoc x (erase_list X l) = if mem x X then None else assoc x l.
Proof.
  induction l as [|[y v] l IH]; simpl; [destruct (mem x X); reflexivity|].
  destruct (mem y X) eqn:Hy; simpl.
  - rewrite IH. destruct (String.eqb x y) eqn:E; [|reflexivity].
    apply String.eqb_eq in E; subst. rewrite Hy. reflexivity.
  - rewrite IH. destruct (String.eqb x y) eqn:E; [|reflexivity].
    apply String.eqb_eq in E; subst. rewrite Hy. reflexivity.
Qed.

Lemma lookup_erase X ce x : lookup_var (erase X ce) x = if mem x X then None else lookup_var ce x.
Proof. unfold lookup_var, erase; simpl. rewrite !assoc_erase. destruct (mem x X); reflexivity. Qed.

(* pushing names on the ignore stack = deleting them from the snapshot *)
Theorem rw_stack_is_erasure ce X st e : rw ce (X :: st) e = rw (erase X ce) (X :: st) e.
Proof.
  apply rw_scope. split; [|reflexivity]. intros x Hx. rewrite lookup_erase.
  rewrite is_arg_cons in Hx. apply orb_false_iff in Hx. destruct Hx as [Hx _].
  unfold mem. rewrite Hx. reflexivity.
Qed.

Lemma rw_bound_name ce st x : is_arg st x = true -> rw ce st (Name x) = Ok (Name x, Name x).
Proof. intros H. cbn [rw]. rewrite H. reflexivity. Qed.

(* F42: the names a lambda binds - its parameters and the targets of the assignment expressions in its body *)
Lemma rw_lambda_pushes ce st ps b :
  rw ce st (Lambda ps b) = same (sbind (rw ce ((ps ++ assigned b) :: st) b) (fun p => Ok (Lambda ps (fst p)))).
Proof. reflexivity. Qed.

(* the passed lambda: the captured values of its parameters AND of the names it assigns with `:=` never matter *)
Theorem lambda_bound_never_replaced ce ps b :
  rewrite_captured ce (Lambda ps b) = rewrite_captured (erase (ps ++ assigned b) ce) (Lambda ps b).
Proof.
  unfold rewrite_captured. rewrite !rw_lambda_pushes. rewrite (rw_stack_is_erasure ce (ps ++ assigned b) [] b). reflexivity.
Qed.

Theorem lambda_params_never_replaced ce ps b :
  rewrite_captured ce (Lambda ps b) = rewrite_captured (erase ps ce) (Lambda ps b).
Proof.
  unfold rewrite_captured. rewrite !rw_lambda_pushes.
  rewrite (rw_scope b [ps ++ assigned b] ce (erase ps ce)); [reflexivity|].
  split; [|reflexivity]. intros x Hx. rewrite lookup_erase.
  cbn [is_arg existsb] in Hx. rewrite orb_false_r, existsb_app in Hx. apply orb_false_iff in Hx. destruct Hx as [Hx _].
  unfold mem. rewrite Hx. reflexivity.
Qed.

(* an assigned name that is also captured stays a name, target and uses alike *)
Theorem rw_assigned_name_kept st ps b x :
  In x (assigned b) -> is_arg ((ps ++ assigned b) :: st) x = true.
Proof.
  intros H. rewrite is_arg_cons, existsb_app. apply orb_true_iff; left. apply orb_true_iff; right.
  apply existsb_exists. exists x. split; [exact H | apply String.eqb_refl].
Qed.

(* ---------- calls of callables that cannot be inlined stay calls by name ---------- *)

Definition not_inlinable (ce : cenv) (h : string) : Prop :=
  lookup_var ce h = Some (CFun None) \/ lookup_var ce h = None.

Lemma rw_call_by_name ce st h args kwn kwv :
  not_inlinable ce h ->
  rw ce st (Call (Name h) args kwn kwv) =
  same (sbind (rw_list (rw ce st) args) (fun args' =>
        sbind (rw_list (rw ce st) kwv) (fun kwv' => Ok (Call (Name h) args' kwn kwv')))).
Proof.
  intros Hh. cbn [rw]. destruct (is_arg st h); [reflexivity|].
  destruct Hh as [Hh|Hh]; rewrite Hh; reflexivity.
Qed.

Lemma res_call_by_name st h args kwn kwv :
  lookup_st h st = None \/ lookup_st h st = Some None ->
  res st (Call (Name h) args kwn kwv) = Call (Name h) (map (res st) args) kwn (map (res st) kwv).
Proof. intros [H|H]; cbn [res]; rewrite H; reflexivity. Qed.

Theorem call_stays_by_name ce h args kwn kwv e' :
  not_inlinable ce h ->
  parse_callable ce (Call (Name h) args kwn kwv) = Ok e' ->
  exists args' kwv', e' = Call (Name h) args' kwn kwv' /\ length args' = length args /\ length kwv' = length kwv.
Proof.
  intros Hh. unfold parse_callable, rewrite_captured, resolve_called.
  rewrite (rw_call_by_name ce [] h args kwn kwv Hh). unfold same.
  destruct (rw_list (rw ce []) args) as [a1|] eqn:Ha; simpl; [|discriminate].
  destruct (rw_list (rw ce []) kwv) as [k1|] eqn:Hk; simpl; [|discriminate].
  intros H. inversion H; subst; clear H.
  exists (map (res []) a1), (map (res []) k1). split; [reflexivity|].
  assert (Hlen : forall f l l', rw_list f l = Ok l' -> length l' = length l).
  { clear. intros f l. induction l as [|x xs IH]; intros l' H; simpl in H.
    - inversion H; reflexivity.
    - destruct (f x); simpl in H; [|discriminate]. destruct (rw_list f xs) eqn:E; simpl in H; [|discriminate].
      inversion H; subst. simpl. f_equal. apply IH. reflexivity. }
  rewrite !map_length. split; eapply Hlen; eauto.
Qed.

(* ---------- F30: a called lambda with a starred argument stays a call ---------- *)

Lemma prefix_starred_excl cls :
  String.prefix "Starred;" cls = true ->
  String.prefix "SetComp;" cls = false /\ String.prefix "DictComp;" cls = false /\ String.prefix "Lambda;" cls = false.
Proof.
  destruct cls as [|c [|d cls]]; [discriminate | |]; intros H.
  { cbn [String.prefix] in H. destruct (Ascii.ascii_dec _ c); discriminate. }
  assert (Hc : c = Ascii.Ascii true true false false true false true false /\
               d = Ascii.Ascii false false true false true true true false).
  { cbn [String.prefix] in H. destruct (Ascii.ascii_dec _ c) as [<-|]; [|discriminate].
    destruct (Ascii.ascii_dec _ d) as [<-|]; [split; reflexivity | discriminate]. }
  destruct Hc; subst c d. repeat split; reflexivity.
Qed.

(* the starred argument itself is treated by generic_visit: it stays starred, its operand is resolved *)
Lemma res_starred_node st cls atoms cs :
  String.prefix "Starred;" cls = true -> res st (Other cls atoms cs) = Other cls atoms (map (res st) cs).
Proof.
  intros H. destruct (prefix_starred_excl _ H) as (E1 & E2 & E3).
  rewrite (res_other_shape st cls atoms cs E1 E2). unfold lam_parts. rewrite E3. reflexivity.
Qed.

Lemma res_keeps_starred st a : is_starred a = true -> is_starred (res st a) = true.
Proof. destruct a; try discriminate. cbn [is_starred]. intros H. rewrite (res_starred_node st cls atoms cs H). exact H. Qed.

Lemma res_keeps_starred_args st args : existsb is_starred args = true -> existsb is_starred (map (res st) args) = true.
Proof.
  induction args as [|a args IH]; simpl; [discriminate|]. intros H. apply orb_true_iff in H. apply orb_true_iff.
  destruct H as [H|H]; [left; apply res_keeps_starred; exact H | right; apply IH; exact H].
Qed.

(* _plainly_called refuses a starred argument: the call is left, its parts resolved (generic_visit) - whatever the
   number of arguments, keywords or the parameters' names *)
Theorem res_starred_call_stays st ps b args kwn kwv :
  existsb is_starred args = true ->
  res st (Call (Lambda ps b) args kwn kwv) =
  Call (Lambda ps (res (shadow ps :: st) b)) (map (res st) args) kwn (map (res st) kwv) /\
  existsb is_starred (map (res st) args) = true.
Proof.
  intros H. split; [|apply res_keeps_starred_args; exact H].
  cbn [res]. destruct kwn; [|reflexivity]. destruct (Nat.eqb (length ps) (length args)); [rewrite H|]; reflexivity.
Qed.

(* F48: so does a called lambda whose body contains an assignment expression - the name it binds is local to that lambda,
   moving the body out of it would change what the name means (or put the argument in the place of the target) *)
Theorem res_walrus_call_stays st ps b args kwn kwv :
  has_walrus b = true ->
  res st (Call (Lambda ps b) args kwn kwv) =
  Call (Lambda ps (res (shadow ps :: st) b)) (map (res st) args) kwn (map (res st) kwv).
Proof.
  intros H. cbn [res]. destruct kwn; [|reflexivity].
  destruct (Nat.eqb (length ps) (length args)); [rewrite H, orb_true_r|]; reflexivity.
Qed.

(* the same for a called lambda that has default values / other parameter kinds *)
Theorem res_starred_call_stays_defaults st cls atoms cs args kwn kwv :
  existsb is_starred args = true ->
  res st (Call (Other cls atoms cs) args kwn kwv) =
  Call (res st (Other cls atoms cs)) (map (res st) args) kwn (map (res st) kwv).
Proof.
  intros H. cbn [res]. destruct (String.prefix "Lambda;" cls); [|reflexivity].
  destruct cs as [|a0 [|b0 [|c0 cs]]]; try reflexivity;
    (destruct a0 as [| | | | | | | | | | | | | | | | | |acls0 aatoms0 akids0]; try reflexivity).
  destruct (lam_view acls0 akids0); [|reflexivity]. destruct kwn; [|reflexivity].
  rewrite H. cbn [negb orb]. rewrite !andb_false_r. reflexivity.
Qed.

(* [inner_binders] agrees: such a call is not "certainly inlined", its parameters count as binders that stay *)
Lemma inner_binders_starred_call ps b args kwv :
  existsb is_starred args = true ->
  incl ps (inner_binders (Call (Lambda ps b) args [] kwv)).
Proof.
  intros H z Hz. cbn [inner_binders]. rewrite H. cbn [negb orb]. rewrite andb_false_r.
  destruct (inner_binders b); apply in_or_app; left; exact Hz.
Qed.

(* what the pass did before 6fb93bf (F30) for a call whose argument count matched: substitute *)
Definition res_inlined (st : list amap) (ps : list string) (b : expr) (args : list expr) : expr :=
  res (combine ps (map (@Some expr) (map (res st) args)) :: st) b.

(* without a starred argument (and without keywords, matching count, no clash) that is still what happens *)
Lemma res_plain_call_inlined st ps b args kwv :
  length ps = length args -> existsb is_starred args = false -> has_walrus b = false ->
  overlaps (flat_map names_in (map (res st) args)) (inner_binders b) = false ->
  res st (Call (Lambda ps b) args [] kwv) = res_inlined st ps b args.
Proof. intros Hl Hs Hw Ho. cbn [res]. rewrite Hl, Nat.eqb_refl, Hs, Hw, Ho. reflexivity. Qed.

(* ---------- F31 / FC8: default values of a lambda that stays belong to the enclosing scope ---------- *)

Lemma on_defaults_arg f k : is_argnode k = true -> on_defaults f k = k.
Proof. unfold on_defaults. intros ->. reflexivity. Qed.

Lemma on_defaults_default f k : is_argnode k = false -> on_defaults f k = f k.
Proof. unfold on_defaults. intros ->. reflexivity. Qed.

(* _resolve_called_lambdas.visit_Lambda (F31): in the result the ast.arg nodes are untouched, every default value [d]
   is [res st d] - resolved with the argument maps [st] of the ENCLOSING scope, not hidden by the lambda's own
   parameters - and the body is resolved under every bound name *)
Theorem res_lambda_defaults_outer st cls atoms cs acls aatoms akids b lv :
  lam_parts cls cs = Some (acls, aatoms, akids, b, lv) ->
  res st (Other cls atoms cs) =
  Other cls atoms [Other acls aatoms (map (on_defaults (res st)) akids); res (shadow (lv_params lv) :: st) b].
Proof.
  intros H. destruct (lam_parts_inv _ _ _ _ _ _ _ H) as (Hp & _ & _). destruct (prefix_lambda_excl _ Hp) as [E1 E2].
  rewrite (res_other_shape st cls atoms cs E1 E2), H. reflexivity.
Qed.

(* in particular a parameter of an inlined helper that a default value mentions is replaced by the argument, even when
   the lambda binds a parameter of that very name (`lambda j, k=k: j + k`) *)
Corollary res_default_sees_argument st cls atoms cs acls aatoms akids b lv x a :
  lam_parts cls cs = Some (acls, aatoms, akids, b, lv) -> In (Name x) akids -> lookup_st x st = Some (Some a) ->
  exists akids' b', res st (Other cls atoms cs) = Other cls atoms [Other acls aatoms akids'; b'] /\ In a akids'.
Proof.
  intros H Hin Hl. rewrite (res_lambda_defaults_outer _ _ _ _ _ _ _ _ _ H). eexists; eexists; split; [reflexivity|].
  apply in_map_iff. exists (Name x). split; [|exact Hin]. unfold on_defaults. cbn [is_argnode res]. rewrite Hl. reflexivity.
Qed.

(* _rewrite_captured_vars.visit_Lambda (FC7, FC8): the same shape - defaults rewritten with the ignore stack of the
   enclosing scope, the body with every bound name pushed *)
Theorem rw_lambda_defaults_outer ce st cls atoms cs acls aatoms akids b lv :
  lam_parts cls cs = Some (acls, aatoms, akids, b, lv) ->
  rw ce st (Other cls atoms cs) =
  same (sbind (rw_list (fun k => if is_argnode k then Ok (k, k) else rw ce st k) akids) (fun akids' =>
        sbind (rw ce ((lv_params lv ++ assigned b) :: st) b) (fun pb => Ok (Other cls atoms [Other acls aatoms akids'; fst pb])))).
Proof.
  intros H. destruct (lam_parts_inv _ _ _ _ _ _ _ H) as (Hp & _ & _). destruct (prefix_lambda_excl _ Hp) as [E1 E2].
  rewrite (rw_other_shape ce st cls atoms cs E1 E2), H. reflexivity.
Qed.

(* what visit_Lambda did before a7148b7 (F31): the parameters pushed first, then generic_visit - default values under
   the lambda's own parameters *)
Definition res_lambda_pinned (st : list amap) (cls : string) (atoms : list const) (acls : string) (aatoms : list const)
           (akids : list expr) (b : expr) (lv : lamv) : expr :=
  let st' := shadow (lv_params lv) :: st in
  Other cls atoms [Other acls aatoms (map (on_defaults (res st')) akids); res st' b].

(* ---------- F32: every parameter of a lambda that stays is an inner binder ---------- *)

Theorem inner_binders_all_params cls atoms cs acls aatoms akids b lv :
  lam_parts cls cs = Some (acls, aatoms, akids, b, lv) ->
  incl (lv_params lv) (inner_binders (Other cls atoms cs)).
Proof.
  intros H z Hz. rewrite inner_binders_other, lam_bound_parts, H. apply in_or_app; left; exact Hz.
Qed.

(* so a call whose (resolved) argument mentions such a name is left as a call *)
Theorem res_call_stays_on_any_binder st ps cls atoms cs acls aatoms akids b lv args z :
  lam_parts cls cs = Some (acls, aatoms, akids, b, lv) -> length ps = length args -> existsb is_starred args = false ->
  In z (lv_params lv) -> In z (flat_map names_in (map (res st) args)) ->
  res st (Call (Lambda ps (Other cls atoms cs)) args [] []) =
  Call (Lambda ps (res (shadow ps :: st) (Other cls atoms cs))) (map (res st) args) [] [].
Proof.
  intros H Hl Hs Hz Hu.
  destruct (has_walrus (Other cls atoms cs)) eqn:Hw; [exact (res_walrus_call_stays st ps _ args [] [] Hw)|].
  assert (Ho : overlaps (flat_map names_in (map (res st) args)) (inner_binders (Other cls atoms cs)) = true).
  { unfold overlaps. apply existsb_exists. exists z. split; [exact Hu|]. apply existsb_exists. exists z.
    split; [eapply inner_binders_all_params; eauto | apply String.eqb_refl]. }
  cbn [res]. rewrite Hl, Nat.eqb_refl, Hs, Hw, Ho. reflexivity.
Qed.

(* the binder set before cb95368 (F32): the plain positional parameters only *)
Definition lam_bound_pinned (cls : string) (cs : list expr) : list string :=
  match lam_parts cls cs with Some (_, _, _, _, lv) => lv_args lv | None => [] end.

(* ---------- F36: a helper whose source uses an assignment expression is not inlinable ---------- *)

Theorem helper_with_walrus_by_name hce l : has_walrus l = true -> helper_capval hce l = CFun None.
Proof. unfold helper_capval. intros ->. reflexivity. Qed.

Theorem helper_without_walrus hce l :
  has_walrus l = false -> bare_return l = false ->
  helper_capval hce l = match rewrite_captured hce l with Ok l' => CFun (Some l') | Err _ => CFun None end.
Proof. unfold helper_capval. intros -> ->. reflexivity. Qed.

(* a helper that cannot be rewritten - `return` without a value: its Lambda has no body node - stays by name: whatever
   goes wrong while a captured callable is turned into a lambda, the call is left alone, never an exception *)
Theorem helper_bare_return_by_name hce l : bare_return l = true -> helper_capval hce l = CFun None.
Proof. unfold helper_capval. intros ->. destruct (has_walrus l); reflexivity. Qed.

(* [helper_capval] never fails: an inlinable lambda or "by name" *)
Theorem helper_capval_total hce l : helper_capval hce l = CFun None \/ exists l', helper_capval hce l = CFun (Some l').
Proof.
  unfold helper_capval. destruct (has_walrus l); [left; reflexivity|]. destruct (bare_return l); [left; reflexivity|].
  destruct (rewrite_captured hce l); [right; eauto | left; reflexivity].
Qed.

(* so its calls stay calls by name, like those of any callable the snapshot marks as not inlinable ([CFun None]:
   source not recovered, a bound method (F34), a callable with __wrapped__ (F35), a helper being expanded) *)
Theorem walrus_helper_call_stays_by_name ce hce l h args kwn kwv e' :
  lookup_var ce h = Some (helper_capval hce l) -> has_walrus l = true ->
  parse_callable ce (Call (Name h) args kwn kwv) = Ok e' ->
  exists args' kwv', e' = Call (Name h) args' kwn kwv' /\ length args' = length args /\ length kwv' = length kwv.
Proof.
  intros Hl Hw. apply call_stays_by_name. left. rewrite Hl, (helper_with_walrus_by_name hce l Hw). reflexivity.
Qed.

(* ---------- F42: no assignment expression, nothing assigned ---------- *)

Lemma flat_assigned_nil l :
  Forall (fun e => has_walrus e = false -> assigned e = []) l -> existsb has_walrus l = false -> flat_map assigned l = [].
Proof.
  induction 1 as [|c l Hc _ IH]; intros H; [reflexivity|]. cbn [existsb flat_map] in *.
  apply orb_false_iff in H. destruct H as [H1 H2]. rewrite (Hc H1), (IH H2). reflexivity.
Qed.

Lemma no_walrus_no_assigned : forall e, has_walrus e = false -> assigned e = [].
Proof.
  induction e using expr_ind'; cbn [has_walrus assigned]; intros Hw; try reflexivity;
    repeat match goal with
           | H : _ || _ = false |- _ => apply orb_false_iff in H; destruct H
           end;
    try (lazymatch goal with |- context [String.prefix] => fail | _ => idtac end;
         repeat match goal with
                | IH : has_walrus ?x = false -> assigned ?x = [], H : has_walrus ?x = false |- _ => rewrite (IH H); clear IH
                | HF : Forall _ ?l, H : existsb has_walrus ?l = false |- _ => rewrite (flat_assigned_nil l HF H); clear HF
                end;
         reflexivity).
  (* Other *)
  rewrite H0. cbn [app].
  destruct (String.prefix "Lambda;" cls); [|apply flat_assigned_nil; assumption].
  destruct cs as [|a cs]; [reflexivity|]. inversion H as [|? ? Ha _]; subst.
  cbn [existsb] in H1. apply orb_false_iff in H1. destruct H1 as [H1 _]. exact (Ha H1).
Qed.

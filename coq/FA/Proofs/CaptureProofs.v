(* Syntactic facts about the capture model (Model/Capture.v): the gate, scope, by-name calls. *)
From FA.Base Require Import PyAst Induct Value Traverse.
From FA.Gen Require Import TablesUtil.
From FA.Model Require Import Capture.
From Coq Require Import Lia.

(* ---------- the gate ---------- *)

Lemma check_ast_ok_iff e :
  check_ast e = Ok tt <-> Forall (fun c => legal_const c = true) (consts_in e).
Proof.
  unfold check_ast. rewrite Forall_forall.
  destruct (forallb legal_const (consts_in e)) eqn:H; split; intros HH; try reflexivity; try discriminate.
  - rewrite forallb_forall in H. exact H.
  - exfalso. assert (forallb legal_const (consts_in e) = true) by (apply forallb_forall; exact HH).
    congruence.
Qed.

Lemma check_ast_total e : check_ast e = Ok tt \/ check_ast e = Err EValueError.
Proof. unfold check_ast. destruct (forallb legal_const (consts_in e)); auto. Qed.

Lemma pipeline_gate ce src e' :
  capture_pipeline ce src = Ok e' -> Forall (fun c => legal_const c = true) (consts_in e').
Proof.
  unfold capture_pipeline. destruct (parse_callable ce src) as [e|er]; simpl; [|discriminate].
  destruct (check_ast e) as [[]|er] eqn:Hc; simpl; [|discriminate].
  intros H; inversion H; subst. apply check_ast_ok_iff. exact Hc.
Qed.

(* ---------- scope: the ignore stack ---------- *)

Lemma is_arg_cons ps st x : is_arg (ps :: st) x = existsb (String.eqb x) ps || is_arg st x.
Proof. reflexivity. Qed.

Lemma is_arg_cons_false ps st x : is_arg (ps :: st) x = false -> is_arg st x = false.
Proof. rewrite is_arg_cons. intros H. apply orb_false_iff in H. tauto. Qed.

(* two snapshots that differ only on names that are on the ignore stack *)
Definition agree_off (st : list (list string)) (ce1 ce2 : cenv) : Prop :=
  (forall x, is_arg st x = false -> lookup_var ce1 x = lookup_var ce2 x) /\ ce_attrs ce1 = ce_attrs ce2.

Lemma agree_off_cons ps st ce1 ce2 : agree_off st ce1 ce2 -> agree_off (ps :: st) ce1 ce2.
Proof. intros [H1 H2]. split; [|exact H2]. intros x Hx. apply H1. eapply is_arg_cons_false; eauto. Qed.

Lemma rw_list_ext f g l : Forall (fun x => f x = g x) l -> rw_list f l = rw_list g l.
Proof. induction 1 as [|x xs Hx _ IH]; simpl; [reflexivity|]. rewrite Hx, IH. reflexivity. Qed.

Lemma rw_gens_ext fo fi go gi l :
  Forall (fun g => match g with
                   | CompFor _ it ifs _ => fo it = go it /\ fi it = gi it /\ Forall (fun x => fi x = gi x) ifs
                   | _ => True end) l ->
  forall first, rw_gens fo fi first l = rw_gens go gi first l.
Proof.
  induction 1 as [|g gs Hg _ IH]; intros first; simpl; [reflexivity|].
  destruct g; try reflexivity. destruct Hg as (H1 & H2 & H3).
  rewrite (rw_list_ext _ _ _ H3), IH. destruct first; [rewrite H1 | rewrite H2]; reflexivity.
Qed.

Definition scope_P (e : expr) : Prop :=
  forall st ce1 ce2, agree_off st ce1 ce2 -> rw ce1 st e = rw ce2 st e.

Definition scope_Q (e : expr) : Prop :=
  scope_P e /\ match e with CompFor _ it ifs _ => scope_P it /\ Forall scope_P ifs | _ => True end.

Lemma scope_Q_P l : Forall scope_Q l -> Forall scope_P l.
Proof. apply Forall_impl. intros a [H _]; exact H. Qed.

Lemma scope_list l st ce1 ce2 :
  Forall scope_P l -> agree_off st ce1 ce2 -> rw_list (rw ce1 st) l = rw_list (rw ce2 st) l.
Proof.
  intros H Hag. apply rw_list_ext. eapply Forall_impl; [|exact H]. intros a Ha. apply Ha; exact Hag.
Qed.

Lemma scope_gens gs st st' ce1 ce2 first :
  Forall scope_Q gs -> agree_off st ce1 ce2 -> agree_off st' ce1 ce2 ->
  rw_gens (rw ce1 st) (rw ce1 st') first gs = rw_gens (rw ce2 st) (rw ce2 st') first gs.
Proof.
  intros H Hag Hag'. apply rw_gens_ext. eapply Forall_impl; [|exact H].
  intros g [_ Hg]. destruct g; try exact I. destruct Hg as [Hit Hifs].
  split; [apply Hit; exact Hag | split; [apply Hit; exact Hag'|]].
  eapply Forall_impl; [|exact Hifs]. intros a Ha. apply Ha; exact Hag'.
Qed.

Lemma scope_all : forall e, scope_Q e.
Proof.
  induction e using expr_ind'; (split; [intros st ce1 ce2 Hag | try exact I]); cbn [rw].
  - (* Name *)
    destruct (is_arg st id) eqn:E; [reflexivity|]. rewrite (proj1 Hag _ E). reflexivity.
  - reflexivity.
  - (* Attr *)
    rewrite (proj1 IHe st ce1 ce2 Hag). unfold lookup_attr. rewrite (proj2 Hag). reflexivity.
  - (* Call *)
    rewrite (proj1 IHe st ce1 ce2 Hag).
    rewrite (scope_list args st ce1 ce2 (scope_Q_P _ H) Hag), (scope_list kwv st ce1 ce2 (scope_Q_P _ H0) Hag).
    reflexivity.
  - (* Lambda *)
    rewrite (proj1 IHe (ps :: st) ce1 ce2 (agree_off_cons _ _ _ _ Hag)). reflexivity.
  - rewrite (proj1 IHe st ce1 ce2 Hag). reflexivity.
  - rewrite (proj1 IHe1 st ce1 ce2 Hag), (proj1 IHe2 st ce1 ce2 Hag). reflexivity.
  - rewrite (scope_list es st ce1 ce2 (scope_Q_P _ H) Hag). reflexivity.
  - rewrite (proj1 IHe st ce1 ce2 Hag), (scope_list rs st ce1 ce2 (scope_Q_P _ H) Hag). reflexivity.
  - rewrite (proj1 IHe1 st ce1 ce2 Hag), (proj1 IHe2 st ce1 ce2 Hag), (proj1 IHe3 st ce1 ce2 Hag). reflexivity.
  - rewrite (scope_list es st ce1 ce2 (scope_Q_P _ H) Hag). reflexivity.
  - rewrite (scope_list es st ce1 ce2 (scope_Q_P _ H) Hag). reflexivity.
  - rewrite (scope_list ks st ce1 ce2 (scope_Q_P _ H) Hag), (scope_list vs st ce1 ce2 (scope_Q_P _ H0) Hag). reflexivity.
  - rewrite (proj1 IHe1 st ce1 ce2 Hag), (proj1 IHe2 st ce1 ce2 Hag). reflexivity.
  - (* ListComp *)
    destruct gs as [|g gs]; [reflexivity|].
    pose proof (agree_off_cons (comp_targets (g :: gs)) _ _ _ Hag) as Hag'.
    rewrite (scope_gens (g :: gs) st _ ce1 ce2 true H Hag Hag'), (proj1 IHe _ ce1 ce2 Hag'). reflexivity.
  - (* GenExp *)
    destruct gs as [|g gs]; [reflexivity|].
    pose proof (agree_off_cons (comp_targets (g :: gs)) _ _ _ Hag) as Hag'.
    rewrite (scope_gens (g :: gs) st _ ce1 ce2 true H Hag Hag'), (proj1 IHe _ ce1 ce2 Hag'). reflexivity.
  - (* CompFor *)
    rewrite (proj1 IHe1 st ce1 ce2 Hag), (proj1 IHe2 st ce1 ce2 Hag), (scope_list ifs st ce1 ce2 (scope_Q_P _ H) Hag).
    reflexivity.
  - (* CompFor, hereditary part *)
    split; [exact (proj1 IHe2) | exact (scope_Q_P _ H)].
  - reflexivity.
  - (* Other *)
    destruct (String.prefix "SetComp;" cls).
    { destruct cs as [|h [|g gs]]; try reflexivity.
      inversion H as [|? ? Hh Hgs]; subst.
      pose proof (agree_off_cons (comp_targets (g :: gs)) _ _ _ Hag) as Hag'.
      rewrite (scope_gens (g :: gs) st _ ce1 ce2 true Hgs Hag Hag'), (proj1 Hh _ ce1 ce2 Hag'). reflexivity. }
    destruct (String.prefix "DictComp;" cls).
    { destruct cs as [|k [|v [|g gs]]]; try reflexivity.
      inversion H as [|? ? Hk Hr]; subst. inversion Hr as [|? ? Hv Hgs]; subst.
      pose proof (agree_off_cons (comp_targets (g :: gs)) _ _ _ Hag) as Hag'.
      rewrite (scope_gens (g :: gs) st _ ce1 ce2 true Hgs Hag Hag'), (proj1 Hk _ ce1 ce2 Hag'), (proj1 Hv _ ce1 ce2 Hag').
      reflexivity. }
    rewrite (scope_list cs st ce1 ce2 (scope_Q_P _ H) Hag). reflexivity.
Qed.

(* The values the snapshot holds for names on the ignore stack are irrelevant: whatever was captured under the
   name of a lambda parameter / comprehension target in scope, the rewritten tree is the same. *)
Theorem rw_scope : forall e st ce1 ce2, agree_off st ce1 ce2 -> rw ce1 st e = rw ce2 st e.
Proof. intros e. exact (proj1 (scope_all e)). Qed.

(* erasing names from the snapshot *)
Definition mem (x : string) (X : list string) : bool := existsb (String.eqb x) X.

Definition erase_list {A} (X : list string) (l : list (string * A)) : list (string * A) :=
  filter (fun p => negb (mem (fst p) X)) l.

Definition erase (X : list string) (ce : cenv) : cenv :=
  {| ce_nonlocals := erase_list X (ce_nonlocals ce); ce_globals := erase_list X (ce_globals ce); ce_attrs := ce_attrs ce |}.

Lemma assoc_erase {A} X (l : list (string * A)) x :
  assoc x (erase_list X l) = if mem x X then None else assoc x l.
Proof.
  induction l as [|[y v] l IH]; simpl; [destruct (mem x X); reflexivity|].
  destruct (mem y X) eqn:Hy; simpl.
  - rewrite IH. destruct (String.eqb x y) eqn:E; [|reflexivity].
    apply String.eqb_eq in E; subst. rewrite Hy. reflexivity.
  - rewrite IH. destruct (String.eqb x y) eqn:E; [|reflexivity].
    apply String.eqb_eq in E; subst. rewrite Hy. reflexivity.
Qed.

Lemma lookup_erase X ce x : lookup_var (erase X ce) x = if mem x X then None else lookup_var ce x.
Proof. unfold lookup_var, erase; simpl. rewrite !assoc_erase. destruct (mem x X); reflexivity. Qed.

(* pushing names on the ignore stack = deleting them from the snapshot *)
Theorem rw_stack_is_erasure ce X st e : rw ce (X :: st) e = rw (erase X ce) (X :: st) e.
Proof.
  apply rw_scope. split; [|reflexivity]. intros x Hx. rewrite lookup_erase.
  rewrite is_arg_cons in Hx. apply orb_false_iff in Hx. destruct Hx as [Hx _].
  unfold mem. rewrite Hx. reflexivity.
Qed.

Lemma rw_bound_name ce st x : is_arg st x = true -> rw ce st (Name x) = Ok (Name x, Name x).
Proof. intros H. cbn [rw]. rewrite H. reflexivity. Qed.

Lemma rw_lambda_pushes ce st ps b :
  rw ce st (Lambda ps b) = same (sbind (rw ce (ps :: st) b) (fun p => Ok (Lambda ps (fst p)))).
Proof. reflexivity. Qed.

(* the passed lambda: its parameters' captured values never matter *)
Theorem lambda_params_never_replaced ce ps b :
  rewrite_captured ce (Lambda ps b) = rewrite_captured (erase ps ce) (Lambda ps b).
Proof.
  unfold rewrite_captured. rewrite !rw_lambda_pushes. rewrite (rw_stack_is_erasure ce ps [] b). reflexivity.
Qed.

(* ---------- calls of callables that cannot be inlined stay calls by name ---------- *)

Definition not_inlinable (ce : cenv) (h : string) : Prop :=
  lookup_var ce h = Some (CFun None) \/ lookup_var ce h = None.

Lemma rw_call_by_name ce st h args kwn kwv :
  not_inlinable ce h ->
  rw ce st (Call (Name h) args kwn kwv) =
  same (sbind (rw_list (rw ce st) args) (fun args' =>
        sbind (rw_list (rw ce st) kwv) (fun kwv' => Ok (Call (Name h) args' kwn kwv')))).
Proof.
  intros Hh. cbn [rw]. destruct (is_arg st h); [reflexivity|].
  destruct Hh as [Hh|Hh]; rewrite Hh; reflexivity.
Qed.

Lemma res_call_by_name st h args kwn kwv :
  lookup_st h st = None \/ lookup_st h st = Some None ->
  res st (Call (Name h) args kwn kwv) = Call (Name h) (map (res st) args) kwn (map (res st) kwv).
Proof. intros [H|H]; cbn [res]; rewrite H; reflexivity. Qed.

Theorem call_stays_by_name ce h args kwn kwv e' :
  not_inlinable ce h ->
  parse_callable ce (Call (Name h) args kwn kwv) = Ok e' ->
  exists args' kwv', e' = Call (Name h) args' kwn kwv' /\ length args' = length args /\ length kwv' = length kwv.
Proof.
  intros Hh. unfold parse_callable, rewrite_captured, resolve_called.
  rewrite (rw_call_by_name ce [] h args kwn kwv Hh). unfold same.
  destruct (rw_list (rw ce []) args) as [a1|] eqn:Ha; simpl; [|discriminate].
  destruct (rw_list (rw ce []) kwv) as [k1|] eqn:Hk; simpl; [|discriminate].
  intros H. inversion H; subst; clear H.
  exists (map (res []) a1), (map (res []) k1). split; [reflexivity|].
  assert (Hlen : forall f l l', rw_list f l = Ok l' -> length l' = length l).
  { clear. intros f l. induction l as [|x xs IH]; intros l' H; simpl in H.
    - inversion H; reflexivity.
    - destruct (f x); simpl in H; [|discriminate]. destruct (rw_list f xs) eqn:E; simpl in H; [|discriminate].
      inversion H; subst. simpl. f_equal. apply IH. reflexivity. }
  rewrite !map_length. split; eapply Hlen; eauto.
Qed.

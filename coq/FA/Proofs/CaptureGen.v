(* General semantic theorems for the capture model, over ALL expression trees (no fragment):
     [res_sem]   _resolve_called_lambdas preserves the value Python's call semantics gives; hygiene is no longer a
                 hypothesis - the bail-out test of FC4 ([overlaps .. (inner_binders b)]) is what the proof uses;
     [rw_sem]    _rewrite_captured_vars with a snapshot of plain literals computes, in any later environment, exactly
                 what the original computes with the snapshot's values in front (both directions).
   They rest on the shared coincidence lemma Proofs/EvalAgree.v ([eval_agree]). *)
From FA.Base Require Import PyAst Induct Value Eval Traverse.
From FA.Model Require Import Simplify Capture.
From FA.Proofs Require Import TraverseFacts Refine EvalCong EvalAgree RenameSem CaptureProofs CaptureSem.
From Coq Require Import Lia.

(* ---------- names: [occurs] (Simplify.v) against [names_in] (Capture.v) ---------- *)

Lemma in_flat_map_names z l :
  In z (flat_map names_in l) <-> exists a, In a l /\ In z (names_in a).
Proof. rewrite in_flat_map. tauto. Qed.

Lemma names_many_fix l :
  (fix many (l : list expr) : list string := match l with [] => [] | x :: xs => names_in x ++ many xs end) l
  = flat_map names_in l.
Proof. induction l; simpl; congruence. Qed.

Lemma names_in_children e :
  names_in e = match e with Name x => [x] | _ => flat_map names_in (children e) end.
Proof.
  destruct e; cbn [names_in children]; rewrite ?names_many_fix; cbn [flat_map];
    rewrite ?flat_map_app, ?app_nil_r, <- ?app_assoc; try reflexivity.
Qed.

Lemma occurs_any_names z l :
  Forall (fun e => forall z, occurs z e = true -> In z (names_in e)) l ->
  occurs_any z l = true -> In z (flat_map names_in l).
Proof.
  induction 1 as [|c l Hc _ IH]; simpl; intros H; [discriminate|].
  apply in_or_app. apply orb_true_iff in H. destruct H as [H|H]; [left; apply Hc; exact H | right; apply IH; exact H].
Qed.

Lemma occurs_names : forall e z, occurs z e = true -> In z (names_in e).
Proof.
  induction e using expr_ind'; intros z Hocc; rewrite occurs_children in Hocc; rewrite names_in_children;
    cbn [children] in *;
    try (apply String.eqb_eq in Hocc; subst; left; reflexivity);
    try discriminate;
    (apply occurs_any_names; [|exact Hocc]);
    repeat first [ assumption | apply Forall_cons | apply Forall_nil | apply Forall_app; split ].
Qed.

Lemma not_in_names_occurs z e : ~ In z (names_in e) -> occurs z e = false.
Proof. intros H. destruct (occurs z e) eqn:E; [|reflexivity]. exfalso. apply H. apply occurs_names. exact E. Qed.

(* ---------- relational congruence of the reference semantics, two environments ---------- *)

Lemma lookup_dom (E : env) y : lookup y E <> None <-> In y (map fst E).
Proof.
  induction E as [|[x v] E IH]; simpl; [split; [intros H; contradiction | intros []]|].
  destruct (String.eqb y x) eqn:Heq.
  - apply String.eqb_eq in Heq; subst. split; [intros _; left; reflexivity | intros _; discriminate].
  - rewrite IH. split; [intros H; right; exact H | intros [H|H]; [subst; rewrite String.eqb_refl in Heq; discriminate | exact H]].
Qed.

Section Cong2.
  Variable B : backend.
  Variable ops : list string.
  Notation ev := (eval B ops).

  Lemma bind_kw_dom : forall ps kws E', bind_kw ps kws = Some E' -> map fst E' = ps.
  Proof.
    induction ps as [|p ps IH]; intros kws E' H; simpl in H.
    - destruct kws; inversion H; reflexivity.
    - destruct (filter (fun kv => String.eqb (fst kv) p) kws) as [|[k v] [|? ?]]; try discriminate.
      destruct (bind_kw ps _) eqn:Hb; simpl in H; [|discriminate]. inversion H; subst. simpl. f_equal. eapply IH; eauto.
  Qed.

  Lemma bind_args_dom : forall ps vs kws E', bind_args ps vs kws = Some E' -> map fst E' = ps.
  Proof.
    induction ps as [|p ps IH]; intros vs kws E' H.
    - destruct vs; simpl in H; [|discriminate]. eapply bind_kw_dom; eauto.
    - destruct vs as [|v vs]; [eapply bind_kw_dom; eauto|]. simpl in H.
      destruct (existsb _ kws); [discriminate|].
      destruct (bind_args ps vs kws) eqn:Hb; simpl in H; [|discriminate]. inversion H; subst. simpl. f_equal. eapply IH; eauto.
  Qed.

  Section Two.
    Variables Ea Eb : env.
    Notation rf a b := (refines (ev Ea a) (ev Eb b)).

    Lemma c_attr v v' a : rf v v' -> rf (Attr v a) (Attr v' a).
    Proof. intros H. cbn [eval]. apply obind_refines_l; exact H. Qed.

    Lemma c_unary o x x' : rf x x' -> rf (UnaryOp o x) (UnaryOp o x').
    Proof. intros H. cbn [eval]. apply obind_refines_l; exact H. Qed.

    Lemma c_bin o l l' r r' : rf l l' -> rf r r' -> rf (BinOp o l r) (BinOp o l' r').
    Proof. intros H1 H2. cbn [eval]. apply obind_refines; [exact H1|]. intros a. apply obind_refines_l; exact H2. Qed.

    Lemma c_boolop o es es' : Forall2 (fun a a' => rf a a') es es' -> rf (BoolOp o es) (BoolOp o es').
    Proof. intros H. cbn [eval]. apply boolop_refines; exact H. Qed.

    Lemma c_compare l l' cops rs rs' :
      rf l l' -> Forall2 (fun a a' => rf a a') rs rs' -> rf (Compare l cops rs) (Compare l' cops rs').
    Proof. intros H1 H2. cbn [eval]. apply obind_refines; [exact H1|]. intros lv. apply compare_refines; exact H2. Qed.

    Lemma c_if c c' t t' f f' : rf c c' -> rf t t' -> rf f f' -> rf (IfExp c t f) (IfExp c' t' f').
    Proof.
      intros H1 H2 H3. cbn [eval]. apply obind_refines; [exact H1|]. intros cv. destruct (truthy cv); assumption.
    Qed.

    Lemma c_tuple es es' : Forall2 (fun a a' => rf a a') es es' -> rf (Tuple es) (Tuple es').
    Proof. intros H. cbn [eval]. apply option_map_refines. apply omap_refines2; exact H. Qed.

    Lemma c_list es es' : Forall2 (fun a a' => rf a a') es es' -> rf (List es) (List es').
    Proof. intros H. cbn [eval]. apply option_map_refines. apply omap_refines2; exact H. Qed.

    Lemma c_dict ks ks' vs vs' :
      Forall2 (fun a a' => rf a a') ks ks' -> Forall2 (fun a a' => rf a a') vs vs' -> rf (Dict ks vs) (Dict ks' vs').
    Proof.
      intros H1 H2. cbn [eval]. rewrite (Forall2_length' _ _ _ H1), (Forall2_length' _ _ _ H2).
      destruct (Nat.eqb (length ks) (length vs)); [|apply refines_none].
      apply obind_refines; [apply omap_refines2; exact H1|]. intros kvs.
      apply obind_refines_l. apply omap_refines2; exact H2.
    Qed.

    Lemma c_sub v v' s s' : rf v v' -> rf s s' -> rf (Subscript v s) (Subscript v' s').
    Proof. intros H1 H2. cbn [eval]. apply obind_refines; [exact H1|]. intros a. apply obind_refines_l; exact H2. Qed.

    (* an argument seen as a value and as a one- / two-parameter function *)
    Definition arg_ok (a a' : expr) : Prop := aview_refines (view B ops Ea a) (view B ops Eb a').

    Lemma arg_ok_val a a' : arg_ok a a' -> rf a a'.
    Proof. intros (H & _ & _). exact H. Qed.

    Lemma args_ok_vals l l' : Forall2 arg_ok l l' -> Forall2 (fun a a' => rf a a') l l'.
    Proof. induction 1; constructor; [apply arg_ok_val; assumption | assumption]. Qed.

    Lemma args_ok_views l l' :
      Forall2 arg_ok l l' -> Forall2 aview_refines (map (mk_view ev Ea) l) (map (mk_view ev Eb) l').
    Proof. induction 1; simpl; constructor; assumption. Qed.

    Lemma arg_ok_intro a a' :
      rf a a' ->
      (forall x b, a = Lambda [x] b ->
         exists b', a' = Lambda [x] b' /\ forall v, refines (ev ((x, v) :: Ea) b) (ev ((x, v) :: Eb) b')) ->
      (forall x y b, a = Lambda [x; y] b ->
         exists b', a' = Lambda [x; y] b' /\
                    forall v w, refines (ev ((y, w) :: (x, v) :: Ea) b) (ev ((y, w) :: (x, v) :: Eb) b')) ->
      arg_ok a a'.
    Proof.
      intros Hv H1 H2. unfold arg_ok, view, mk_view. split; [exact Hv | split].
      - cbn [av_f1]. intros f Hf. destruct a; try discriminate.
        destruct ps as [|x [|y ps]]; try discriminate. inversion Hf; subst.
        destruct (H1 x a eq_refl) as [b' [-> Hb]]. eexists; split; [reflexivity|]. intros v; apply Hb.
      - cbn [av_f2]. intros f Hf. destruct a; try discriminate.
        destruct ps as [|x [|y [|z ps]]]; try discriminate. inversion Hf; subst.
        destruct (H2 x y a eq_refl) as [b' [-> Hb]]. eexists; split; [reflexivity|]. intros v w; apply Hb.
    Qed.

    Lemma c_call_name op args args' kwn kwv kwv' :
      Forall2 arg_ok args args' -> Forall2 (fun a a' => rf a a') kwv kwv' ->
      rf (Call (Name op) args kwn kwv) (Call (Name op) args' kwn kwv').
    Proof.
      intros Ha Hk. cbn [eval]. destruct kwn as [|k kwn].
      - inversion Ha as [|s s' rest rest' Hs Hrest]; subst; [apply refines_refl|].
        apply apply_op_refines; [apply arg_ok_val; exact Hs | apply args_ok_views; exact Hrest].
      - apply obind_refines; [apply omap_refines2; apply args_ok_vals; exact Ha|]. intros vs.
        apply obind_refines_l. apply omap_refines2; exact Hk.
    Qed.

    Lemma c_call_attr s s' m args args' kwn kwv kwv' :
      rf s s' -> Forall2 arg_ok args args' -> Forall2 (fun a a' => rf a a') kwv kwv' ->
      rf (Call (Attr s m) args kwn kwv) (Call (Attr s' m) args' kwn kwv').
    Proof.
      intros Hs Ha Hk. cbn [eval]. destruct kwn as [|k kwn].
      - destruct (is_op ops m).
        + apply apply_op_refines; [exact Hs | apply args_ok_views; exact Ha].
        + apply obind_refines; [exact Hs|]. intros r. apply obind_refines_l. apply omap_refines2. apply args_ok_vals; exact Ha.
      - apply obind_refines; [apply omap_refines2; apply args_ok_vals; exact Ha|]. intros vs.
        apply obind_refines; [apply omap_refines2; exact Hk|]. intros kvs.
        apply obind_refines_r. intros kws. apply obind_refines_l. exact Hs.
    Qed.

    (* a called lambda that stays a called lambda *)
    Lemma c_call_lambda ps b b' args args' kwn kwv kwv' :
      Forall2 (fun a a' => rf a a') args args' -> Forall2 (fun a a' => rf a a') kwv kwv' ->
      (forall E', map fst E' = ps -> refines (ev (E' ++ Ea) b) (ev (E' ++ Eb) b')) ->
      rf (Call (Lambda ps b) args kwn kwv) (Call (Lambda ps b') args' kwn kwv').
    Proof.
      intros Ha Hk Hb. cbn [eval]. destruct kwn as [|k kwn].
      - apply obind_refines; [apply omap_refines2; exact Ha|]. intros vs.
        intros w Hw. apply obind_some in Hw. destruct Hw as [E' [HE' Hw]]. rewrite HE'. simpl.
        apply Hb; [eapply bind_args_dom; eauto | exact Hw].
      - apply obind_refines; [apply omap_refines2; exact Ha|]. intros vs.
        apply obind_refines; [apply omap_refines2; exact Hk|]. intros kvs.
        apply obind_refines_r. intros kws.
        intros w Hw. apply obind_some in Hw. destruct Hw as [E' [HE' Hw]]. rewrite HE'. simpl.
        apply Hb; [eapply bind_args_dom; eauto | exact Hw].
    Qed.

    (* without keywords the keyword values are not looked at *)
    Lemma c_call_lambda0 ps b b' args args' kwv kwv' :
      Forall2 (fun a a' => rf a a') args args' ->
      (forall E', map fst E' = ps -> refines (ev (E' ++ Ea) b) (ev (E' ++ Eb) b')) ->
      rf (Call (Lambda ps b) args [] kwv) (Call (Lambda ps b') args' [] kwv').
    Proof.
      intros Ha Hb. cbn [eval].
      apply obind_refines; [apply omap_refines2; exact Ha|]. intros vs.
      intros w Hw. apply obind_some in Hw. destruct Hw as [E' [HE' Hw]]. rewrite HE'. simpl.
      apply Hb; [eapply bind_args_dom; eauto | exact Hw].
    Qed.

    Lemma c_comp x it it' ifs ifs' elt elt' :
      rf it it' ->
      (forall v, Forall2 (fun a a' => refines (ev ((x, v) :: Ea) a) (ev ((x, v) :: Eb) a')) ifs ifs') ->
      (forall v, refines (ev ((x, v) :: Ea) elt) (ev ((x, v) :: Eb) elt')) ->
      refines (comp_sem ev Ea elt [CompFor (Name x) it ifs false])
              (comp_sem ev Eb elt' [CompFor (Name x) it' ifs' false]).
    Proof.
      intros Hit Hifs Helt. cbn [comp_sem].
      apply obind_refines; [exact Hit|]. intros s. apply obind_refines_r. intros l.
      apply obind_refines.
      - apply ofilter_refines. intros v. apply conds_refines. apply Hifs.
      - intros kept. apply option_map_refines. apply omap_refines. intros v. apply Helt.
    Qed.
  End Two.
End Cong2.

(* ---------- sub-terms, first-order use of lambda parameters ---------- *)

Inductive sub : expr -> expr -> Prop :=
 | sub_refl e : sub e e
 | sub_step x c e : In c (children e) -> sub x c -> sub x e.

(* A parameter of a called lambda is never used as the callee of a call by name: the reference semantics has no
   function values, [f(v)] with [f] a parameter is a backend function named "f" there, not the argument. *)
Definition first_order (e : expr) : Prop :=
  forall ps b args kwn kwv, sub (Call (Lambda ps b) args kwn kwv) e -> forall p, In p ps -> is_callee p b = false.

Lemma first_order_child e c : In c (children e) -> first_order e -> first_order c.
Proof. intros Hin H ps b args kwn kwv Hs p Hp. eapply H; [|exact Hp]. eapply sub_step; eauto. Qed.

Lemma existsb_eqb_in y ps : existsb (String.eqb y) ps = true <-> In y ps.
Proof.
  rewrite existsb_exists. split.
  - intros [x [Hin Heq]]. apply String.eqb_eq in Heq; subst; exact Hin.
  - intros H. exists y. split; [exact H | apply String.eqb_refl].
Qed.

Lemma overlaps_false used bs : overlaps used bs = false -> forall u, In u used -> ~ In u bs.
Proof.
  unfold overlaps. intros H u Hu Hb.
  assert (existsb (fun u => existsb (String.eqb u) bs) used = true).
  { apply existsb_exists. exists u. split; [exact Hu | apply existsb_eqb_in; exact Hb]. }
  congruence.
Qed.

Lemma overlaps_true_nonempty used bs : overlaps used bs = true -> bs <> [].
Proof. intros H ->. rewrite overlaps_nil_r in H. discriminate. Qed.

Lemma ib_in_list c l : In c l -> incl (inner_binders c) (flat_map inner_binders l).
Proof. intros Hin z Hz. apply in_flat_map. exists c; split; assumption. Qed.

(* binders of a child are binders of the node - except for the callee of a called lambda, treated separately *)
Lemma ib_child e c :
  In c (children e) -> (forall ps b a k v, e <> Call (Lambda ps b) a k v) ->
  (forall cls ats cs a k v, e <> Call (Other cls ats cs) a k v) -> incl (inner_binders c) (inner_binders e).
Proof.
  intros Hin Hne Hno z Hz. destruct e; cbn [children] in Hin; cbn [inner_binders];
    try contradiction;
    repeat match goal with
           | H : In _ (_ :: _) |- _ => destruct H as [<-|H]
           | H : In _ (_ ++ _) |- _ => apply in_app_or in H; destruct H as [H|H]
           | H : In _ [] |- _ => contradiction
           end;
    try (repeat (apply in_or_app; first [ left; solve [ assumption | eapply ib_in_list; eassumption ] | right ]);
         solve [ assumption | eapply ib_in_list; eassumption ]).
  all: destruct e; try (exfalso; eapply Hne; reflexivity); try (exfalso; eapply Hno; reflexivity);
    try (repeat (apply in_or_app; first [ left; solve [ assumption | eapply ib_in_list; eassumption ] | right ]);
         solve [ assumption | eapply ib_in_list; eassumption ]).
Qed.

(* ---------- resolve_called preserves Python's call semantics, for every expression ---------- *)

Lemma lookup_shadow_some y ps st a :
  lookup_st y (shadow ps :: st) = Some (Some a) -> lookup_st y st = Some (Some a).
Proof. cbn [lookup_st]. rewrite assoc_shadow. destruct (existsb (String.eqb y) ps); [discriminate | auto]. Qed.

Lemma ib_call_lambda_args ps b args kwn kwv c :
  In c args -> incl (inner_binders c) (inner_binders (Call (Lambda ps b) args kwn kwv)).
Proof.
  intros Hin z Hz. pose proof (ib_in_list c args Hin z Hz) as H. cbn [inner_binders].
  destruct kwn; destruct (inner_binders b);
    try destruct (Nat.eqb (length ps) (length args) && negb (existsb is_starred args || has_walrus b));
    repeat rewrite in_app_iff; tauto.
Qed.

Lemma ib_call_lambda_kwv ps b args k kwn kwv c :
  In c kwv -> incl (inner_binders c) (inner_binders (Call (Lambda ps b) args (k :: kwn) kwv)).
Proof.
  intros Hin z Hz. pose proof (ib_in_list c kwv Hin z Hz) as H. cbn [inner_binders].
  apply in_or_app; right. apply in_or_app; right. apply in_or_app; right. exact H.
Qed.

Lemma ib_call_lambda_body ps b args kwn kwv :
  incl (inner_binders b) (inner_binders (Call (Lambda ps b) args kwn kwv)).
Proof.
  intros z Hz. cbn [inner_binders].
  destruct kwn; destruct (inner_binders b) eqn:Hb; try contradiction;
    apply in_or_app; right; apply in_or_app; left; exact Hz.
Qed.

(* the parameters count as binders unless the call is certainly inlined *)
Lemma ib_call_lambda_params ps b args kwn kwv :
  kwn <> [] \/ inner_binders b <> [] \/ existsb is_starred args || has_walrus b = true ->
  incl ps (inner_binders (Call (Lambda ps b) args kwn kwv)).
Proof.
  intros H z Hz. cbn [inner_binders].
  destruct kwn; destruct (inner_binders b) eqn:Hb;
    try (apply in_or_app; left; exact Hz).
  destruct H as [H|[H|H]]; try (exfalso; apply H; reflexivity).
  rewrite H. cbn [negb]. rewrite andb_false_r. apply in_or_app; left; exact Hz.
Qed.

Lemma assoc_combine_some {A} y ps (l : list A) r :
  assoc y (combine ps l) = Some r -> In y ps /\ In r l.
Proof.
  revert l. induction ps as [|p ps IH]; intros [|a l] H; simpl in H; try discriminate.
  destruct (String.eqb y p) eqn:E.
  - apply String.eqb_eq in E; subst. inversion H; subst. split; left; reflexivity.
  - destruct (IH _ H) as [H1 H2]. split; right; assumption.
Qed.

Section ResSem.
  Variable B : backend.
  Variable ops : list string.
  Notation ev := (eval B ops).
  Notation Rr := (Rr B ops).

  (* no argument in flight mentions a name that a binder staying inside [e] binds *)
  Definition Inv (st : list amap) (e : expr) : Prop :=
    forall y a, lookup_st y st = Some (Some a) -> forall z, In z (names_in a) -> ~ In z (inner_binders e).

  (* no parameter being substituted is used as a callee in [e] *)
  Definition FO (st : list amap) (e : expr) : Prop :=
    forall y a, lookup_st y st = Some (Some a) -> is_callee y e = false.

  Lemma Inv_incl st e c : incl (inner_binders c) (inner_binders e) -> Inv st e -> Inv st c.
  Proof. intros Hi H y a Hy z Hz Hc. eapply H; eauto. Qed.

  Lemma Inv_shadow st ps e : Inv st e -> Inv (shadow ps :: st) e.
  Proof. intros H y a Hy. eapply H. eapply lookup_shadow_some; eauto. Qed.

  Lemma FO_child st e c : In c (children e) -> FO st e -> FO st c.
  Proof.
    intros Hin H y a Hy. destruct (is_callee y c) eqn:E; [|reflexivity].
    specialize (H y a Hy). rewrite (is_callee_child y e c Hin E) in H. discriminate.
  Qed.

  Lemma FO_shadow st ps e : FO st e -> FO (shadow ps :: st) e.
  Proof. intros H y a Hy. eapply H. eapply lookup_shadow_some; eauto. Qed.

  (* going under binders that stay: sound when no argument in flight mentions them *)
  Lemma Rr_ext st E1 E2 ps Eb :
    Rr st E1 E2 ->
    (forall y a, lookup_st y st = Some (Some a) -> forall p, In p ps -> ~ In p (names_in a)) ->
    (forall y, In y (map fst Eb) <-> In y ps) ->
    Rr (shadow ps :: st) (Eb ++ E1) (Eb ++ E2).
  Proof.
    intros HR Hyg Hdom y. cbn [lookup_st]. rewrite assoc_shadow, !lookup_app.
    destruct (existsb (String.eqb y) ps) eqn:Hy.
    - apply existsb_eqb_in in Hy. apply Hdom in Hy. apply lookup_dom in Hy.
      destruct (lookup y Eb); [reflexivity | contradiction].
    - assert (Hn : lookup y Eb = None).
      { destruct (lookup y Eb) eqn:Hl; [|reflexivity]. exfalso.
        assert (Hin : In y (map fst Eb)) by (apply lookup_dom; congruence).
        apply Hdom in Hin. apply existsb_eqb_in in Hin. congruence. }
      rewrite Hn. specialize (HR y).
      destruct (lookup_st y st) as [[a|]|] eqn:Hl; try exact HR.
      intros w Hw. rewrite <- (HR w Hw). apply eval_agree. intros z Hz. rewrite lookup_app.
      destruct (lookup z Eb) eqn:Hzb; [|reflexivity]. exfalso.
      assert (Hin : In z (map fst Eb)) by (apply lookup_dom; congruence).
      apply Hdom in Hin. eapply Hyg; eauto. apply occurs_names; exact Hz.
  Qed.

  Lemma call_other_none E f args kwn kwv w :
    (forall x, f <> Name x) -> (forall s m, f <> Attr s m) -> (forall ps b, f <> Lambda ps b) ->
    ev E (Call f args kwn kwv) = Some w -> False.
  Proof.
    intros H1 H2 H3 H. cbn [eval] in H.
    destruct kwn.
    - destruct f; try discriminate; exfalso; [eapply H1 | eapply H2 | eapply H3]; reflexivity.
    - apply obind_some in H. destruct H as [vs [_ H]]. apply obind_some in H. destruct H as [kvs [_ H]].
      apply obind_some in H. destruct H as [kws [_ H]].
      destruct f; try discriminate; exfalso; [eapply H1 | eapply H2 | eapply H3]; reflexivity.
  Qed.

  Definition res_ok (e : expr) : Prop :=
    forall st E1 E2, first_order e -> FO st e -> Inv st e -> Rr st E1 E2 -> refines (ev E1 e) (ev E2 (res st e)).

  (* children lists, pointwise *)
  Lemma res_list n e l st E1 E2 :
    (forall e0, size e0 < n -> res_ok e0) -> size e <= n ->
    (forall c, In c l -> In c (children e)) ->
    (forall c, In c l -> incl (inner_binders c) (inner_binders e)) ->
    first_order e -> FO st e -> Inv st e -> Rr st E1 E2 ->
    Forall2 (fun a a' => refines (ev E1 a) (ev E2 a')) l (map (res st) l).
  Proof.
    intros IH Hn Hsub Hib Hfo HFO HInv HR. induction l as [|c l IHl]; simpl; constructor.
    - apply IH.
      + pose proof (size_child e c (Hsub c (or_introl eq_refl))). lia.
      + eapply first_order_child; [apply Hsub; left; reflexivity | exact Hfo].
      + eapply FO_child; [apply Hsub; left; reflexivity | exact HFO].
      + eapply Inv_incl; [apply Hib; left; reflexivity | exact HInv].
      + exact HR.
    - apply IHl; intros c' Hc'; [apply Hsub | apply Hib]; right; exact Hc'.
  Qed.

  (* arguments of a call that stays a call by name / method call: values and lambda views *)
  Lemma res_args n e l st E1 E2 :
    (forall e0, size e0 < n -> res_ok e0) -> size e <= n ->
    (forall c, In c l -> In c (children e)) ->
    (forall c, In c l -> incl (inner_binders c) (inner_binders e)) ->
    first_order e -> FO st e -> Inv st e -> Rr st E1 E2 ->
    Forall2 (arg_ok B ops E1 E2) l (map (res st) l).
  Proof.
    intros IH Hn Hsub Hib Hfo HFO HInv HR. induction l as [|c l IHl]; simpl; constructor;
      [|apply IHl; intros c' Hc'; [apply Hsub | apply Hib]; right; exact Hc'].
    assert (Hc : In c (children e)) by (apply Hsub; left; reflexivity).
    assert (Hic : incl (inner_binders c) (inner_binders e)) by (apply Hib; left; reflexivity).
    pose proof (size_child e c Hc) as Hsz.
    assert (Hunder : forall ps b, c = Lambda ps b -> forall Eb, (forall y, In y (map fst Eb) <-> In y ps) ->
               refines (ev (Eb ++ E1) b) (ev (Eb ++ E2) (res (shadow ps :: st) b))).
    { intros ps b -> Eb Hdom.
      assert (Hb : In b (children (Lambda ps b))) by (left; reflexivity).
      apply IH.
      - pose proof (size_child _ _ Hb). lia.
      - eapply first_order_child; [exact Hb|]. eapply first_order_child; [exact Hc | exact Hfo].
      - apply FO_shadow. eapply FO_child; [exact Hb|]. eapply FO_child; [exact Hc | exact HFO].
      - apply Inv_shadow. eapply Inv_incl; [|exact HInv].
        intros z Hz. apply Hic. cbn [inner_binders]. apply in_or_app; right; exact Hz.
      - apply Rr_ext; [exact HR | | exact Hdom].
        intros y a Hy p Hp Hpa. eapply HInv; [exact Hy | exact Hpa|].
        apply Hic. cbn [inner_binders]. apply in_or_app; left; exact Hp. }
    apply arg_ok_intro.
    - apply IH; [lia | eapply first_order_child; eauto | eapply FO_child; eauto | eapply Inv_incl; eauto | exact HR].
    - intros x b ->. cbn [res]. eexists; split; [reflexivity|]. intros v.
      apply (Hunder [x] b eq_refl [(x, v)]). intros z; reflexivity.
    - intros x y b ->. cbn [res]. eexists; split; [reflexivity|]. intros v w.
      apply (Hunder [x; y] b eq_refl [(y, w); (x, v)]).
      (* the environment lists the second parameter first *)
      intros z; simpl; tauto.
  Qed.
  (* a starred argument has no value of its own in the reference semantics (Python unpacks it at the call): a call
     that has one has no value there, and [res] leaves such a call alone (F30) *)
  Lemma starred_args_no_value E args : existsb is_starred args = true -> omap (ev E) args = None.
  Proof.
    induction args as [|a args IH]; [discriminate|]. cbn [existsb]. intros H.
    unfold omap. cbn [map sequence]. destruct (is_starred a) eqn:Ha.
    - destruct a; try discriminate. reflexivity.
    - simpl in H. destruct (ev E a); [|reflexivity]. cbn [obind].
      change (sequence (map (ev E) args)) with (omap (ev E) args). rewrite (IH H). reflexivity.
  Qed.

  Lemma bind_args_nokw_len : forall ps vs E', bind_args ps vs [] = Some E' -> length ps = length vs.
  Proof.
    induction ps as [|p ps IH]; intros [|v vs] E' H; simpl in H; try discriminate; [reflexivity|].
    destruct (bind_args ps vs []) eqn:Hb; simpl in H; [|discriminate]. simpl. f_equal. eapply IH; eauto.
  Qed.

  Lemma comp_sem_some (f : env -> expr -> option value) E elt gs w :
    comp_sem f E elt gs = Some w -> exists x it ifs, gs = [CompFor (Name x) it ifs false].
  Proof.
    unfold comp_sem. intros H.
    destruct gs as [|g gs]; [discriminate|]. destruct g; try discriminate. destruct g1; try discriminate.
    destruct is_async; try discriminate. destruct gs; [eauto | discriminate].
  Qed.

  (* a single-for comprehension whose parts are smaller than [n]; [mk] is ListComp or GenExp *)
  Lemma res_comp n (mk : expr -> list expr -> expr) x it ifs elt st E1 E2 :
    (forall e0, size e0 < n -> res_ok e0) ->
    size (CompFor (Name x) it ifs false) < n -> size elt < n ->
    children (mk elt [CompFor (Name x) it ifs false]) = elt :: [CompFor (Name x) it ifs false] ->
    inner_binders (mk elt [CompFor (Name x) it ifs false])
      = inner_binders elt ++ flat_map inner_binders [CompFor (Name x) it ifs false] ->
    let e := mk elt [CompFor (Name x) it ifs false] in
    first_order e -> FO st e -> Inv st e -> Rr st E1 E2 ->
    refines (comp_sem ev E1 elt [CompFor (Name x) it ifs false])
            (comp_sem ev E2 (res (shadow [x] :: st) elt)
                      [CompFor (Name x) (res st it) (map (res (shadow [x] :: st)) ifs) false]).
  Proof.
    intros IH Hszg Hszelt Hch Hib e Hfo HFO HInv HR.
    set (g := CompFor (Name x) it ifs false) in *.
    assert (Hg : In g (children e)) by (unfold e; rewrite Hch; right; left; reflexivity).
    assert (Helt : In elt (children e)) by (unfold e; rewrite Hch; left; reflexivity).
    assert (Hibg : incl (inner_binders g) (inner_binders e)).
    { intros z Hz. unfold e. rewrite Hib. apply in_or_app; right. cbn [flat_map]. apply in_or_app; left; exact Hz. }
    assert (Hibelt : incl (inner_binders elt) (inner_binders e)).
    { intros z Hz. unfold e. rewrite Hib. apply in_or_app; left; exact Hz. }
    assert (Hxg : In x (inner_binders g)) by (unfold g; cbn [inner_binders names_in]; left; reflexivity).
    assert (Hfog : first_order g) by (eapply first_order_child; eauto).
    assert (HFOg : FO st g) by (eapply FO_child; eauto).
    assert (HInvg : Inv st g) by (eapply Inv_incl; eauto).
    assert (Hext : forall v, Rr (shadow [x] :: st) ((x, v) :: E1) ((x, v) :: E2)).
    { intros v. apply (Rr_ext st E1 E2 [x] [(x, v)] HR); [|intros y; reflexivity].
      intros y a Hy p [<-|[]] Hpa. eapply HInv; [exact Hy | exact Hpa | apply Hibg; exact Hxg]. }
    apply c_comp.
    - (* the iterable: enclosing scope *)
      assert (Hit : In it (children g)) by (unfold g; cbn [children]; right; left; reflexivity).
      apply IH; [pose proof (size_child _ _ Hit); lia | eapply first_order_child; eauto | eapply FO_child; eauto | | exact HR].
      eapply Inv_incl; [apply ib_child; [exact Hit | intros; discriminate | intros; discriminate] | exact HInvg].
    - intros v.
      apply (res_list n g ifs (shadow [x] :: st) ((x, v) :: E1) ((x, v) :: E2) IH); try assumption.
      + lia.
      + intros c0 Hc0. unfold g; cbn [children]. right; right; exact Hc0.
      + intros c0 Hc0. apply ib_child; [unfold g; cbn [children]; right; right; exact Hc0 | intros; discriminate | intros; discriminate].
      + apply FO_shadow; exact HFOg.
      + apply Inv_shadow; exact HInvg.
      + apply Hext.
    - intros v. apply IH; [exact Hszelt | eapply first_order_child; eauto | apply FO_shadow; eapply FO_child; eauto | | apply Hext].
      apply Inv_shadow. eapply Inv_incl; eauto.
  Qed.

  Theorem res_ok_all : forall n e, size e < n -> res_ok e.
  Proof.
    intros n. induction n as [n IHn] using (well_founded_induction Wf_nat.lt_wf). intros e Hn.
    assert (IH : forall e0, size e0 < size e -> res_ok e0).
    { intros e0 H0. exact (IHn (size e) Hn e0 H0). }
    clear IHn Hn. intros st E1 E2 Hfo HFO HInv HR.
    (* a direct child that is not the callee of a called lambda *)
    assert (Hkid : forall c, In c (children e) -> (forall ps b a k v, e <> Call (Lambda ps b) a k v) ->
                   (forall cls ats cs a k v, e <> Call (Other cls ats cs) a k v) ->
                   refines (ev E1 c) (ev E2 (res st c))).
    { intros c Hc Hne Hno. apply IH; [apply size_child; exact Hc | eapply first_order_child; eauto
                                 | eapply FO_child; eauto | eapply Inv_incl; [apply ib_child; eauto | exact HInv] | exact HR]. }
    assert (Hkids : forall l, (forall c, In c l -> In c (children e)) -> (forall ps b a k v, e <> Call (Lambda ps b) a k v) ->
                    (forall cls ats cs a k v, e <> Call (Other cls ats cs) a k v) ->
                    Forall2 (fun a a' => refines (ev E1 a) (ev E2 a')) l (map (res st) l)).
    { intros l Hl Hne Hno. apply (res_list (size e) e l st E1 E2 IH (le_n _) Hl); try assumption.
      intros c Hc. apply ib_child; [apply Hl; exact Hc | exact Hne | exact Hno]. }
    destruct e as [x|c|v a|f args kwn kwv|ps b|o x|o l r|o es|l cops rs|c t f|es|es|ks vs|v s|elt gs|elt gs|t i ifs asy|c|cls atoms cs].
    - (* Name *)
      cbn [res eval]. specialize (HR x).
      destruct (lookup_st x st) as [[a|]|]; try (rewrite HR; apply refines_refl).
      intros w Hw. apply HR. exact Hw.
    - apply refines_refl.
    - (* Attr *) cbn [res]. apply c_attr. apply Hkid; [left; reflexivity | intros; discriminate | intros; discriminate].
    - (* Call *)
      destruct f as [op| | s m | | lps lb | | | | | | | | | | | | | | ];
        try (intros w Hw; exfalso; eapply call_other_none; [ | | | exact Hw]; intros; discriminate).
      + (* call by name *)
        assert (Hop : res st (Name op) = Name op).
        { cbn [res]. destruct (lookup_st op st) as [[a|]|] eqn:Hl; try reflexivity. exfalso.
          specialize (HFO op a Hl). cbn [is_callee] in HFO. rewrite String.eqb_refl in HFO. discriminate. }
        change (res st (Call (Name op) args kwn kwv))
          with (Call (res st (Name op)) (map (res st) args) kwn (map (res st) kwv)).
        rewrite Hop. apply c_call_name.
        * apply (res_args (size (Call (Name op) args kwn kwv)) (Call (Name op) args kwn kwv)); try assumption; try apply le_n.
          -- intros c Hc. cbn [children]. right. apply in_or_app; left; exact Hc.
          -- intros c Hc. apply ib_child; [cbn [children]; right; apply in_or_app; left; exact Hc | intros; discriminate | intros; discriminate].
        * apply Hkids; [|intros; discriminate|intros; discriminate]. intros c Hc. cbn [children]. right. apply in_or_app; right; exact Hc.
      + (* method call *)
        change (res st (Call (Attr s m) args kwn kwv))
          with (Call (Attr (res st s) m) (map (res st) args) kwn (map (res st) kwv)).
        apply c_call_attr.
        * assert (Hf : In (Attr s m) (children (Call (Attr s m) args kwn kwv))) by (left; reflexivity).
          assert (Hs : In s (children (Attr s m))) by (left; reflexivity).
          apply IH.
          -- pose proof (size_child _ _ Hf). pose proof (size_child _ _ Hs). lia.
          -- eapply first_order_child; [exact Hs|]. eapply first_order_child; eauto.
          -- eapply FO_child; [exact Hs|]. eapply FO_child; eauto.
          -- eapply Inv_incl; [|exact HInv]. intros z Hz. cbn [inner_binders]. apply in_or_app; left; exact Hz.
          -- exact HR.
        * apply (res_args (size (Call (Attr s m) args kwn kwv)) (Call (Attr s m) args kwn kwv)); try assumption; try apply le_n.
          -- intros c Hc. cbn [children]. right. apply in_or_app; left; exact Hc.
          -- intros c Hc. apply ib_child; [cbn [children]; right; apply in_or_app; left; exact Hc | intros; discriminate | intros; discriminate].
        * apply Hkids; [|intros; discriminate|intros; discriminate]. intros c Hc. cbn [children]. right. apply in_or_app; right; exact Hc.
      + (* called lambda *)
        set (e := Call (Lambda lps lb) args kwn kwv) in *.
        assert (Hlam : In (Lambda lps lb) (children e)) by (left; reflexivity).
        assert (Hbody : In lb (children (Lambda lps lb))) by (left; reflexivity).
        assert (Hszb : size lb < size e).
        { pose proof (size_child _ _ Hlam). pose proof (size_child _ _ Hbody). lia. }
        assert (Hfob : first_order lb).
        { eapply first_order_child; [exact Hbody|]. eapply first_order_child; eauto. }
        assert (HFOb : FO st lb).
        { eapply FO_child; [exact Hbody|]. eapply FO_child; eauto. }
        assert (Hargs : Forall2 (fun a a' => refines (ev E1 a) (ev E2 a')) args (map (res st) args)).
        { apply (res_list (size e) e args st E1 E2 IH (le_n _)); try assumption.
          - intros c Hc. unfold e; cbn [children]. right. apply in_or_app; left; exact Hc.
          - intros c Hc. apply ib_call_lambda_args; exact Hc. }
        (* the call stays: body under the shadow of its own parameters *)
        assert (Hstay : kwn <> [] \/ inner_binders lb <> [] \/ existsb is_starred args || has_walrus lb = true ->
                        forall E', map fst E' = lps ->
                          refines (ev (E' ++ E1) lb) (ev (E' ++ E2) (res (shadow lps :: st) lb))).
        { intros Hwhy E' Hdom. apply IH; [exact Hszb | exact Hfob | apply FO_shadow; exact HFOb | |].
          - apply Inv_shadow. eapply Inv_incl; [apply ib_call_lambda_body | exact HInv].
          - apply Rr_ext; [exact HR | | intros y; rewrite Hdom; reflexivity].
            intros y a Hy p Hp Hpa. eapply HInv; [exact Hy | exact Hpa|].
            eapply ib_call_lambda_params; eauto. }
        unfold e. cbn [res]. destruct kwn as [|k kwn].
        * destruct (Nat.eqb (length lps) (length args)) eqn:Hlen.
          -- apply Nat.eqb_eq in Hlen.
             destruct (existsb is_starred args || has_walrus lb) eqn:Hstar.
             { (* F30 / F48: a starred argument, an assignment expression in the body - the call is left, its parameters
                  count as binders that stay *)
               apply c_call_lambda0; [exact Hargs|]. apply Hstay. right; right; reflexivity. }
             destruct (overlaps (flat_map names_in (map (res st) args)) (inner_binders lb)) eqn:Hov.
             ++ (* FC4: left as a call *)
                apply c_call_lambda0; [exact Hargs|]. apply Hstay. right; left. eapply overlaps_true_nonempty; eauto.
             ++ (* inlined *)
                intros w Hw. cbn [eval] in Hw. apply obind_some in Hw. destruct Hw as [vs [Hvs Hw]].
                apply obind_some in Hw. destruct Hw as [E' [HE' Hw]].
                apply bind_args_nokw in HE'. subst E'.
                refine (IH lb Hszb _ (combine lps vs ++ E1) E2 Hfob _ _ _ w Hw).
                ** (* FO *)
                   intros y a Hy. cbn [lookup_st] in Hy.
                   destruct (assoc y (combine lps (map (@Some expr) (map (res st) args)))) as [r|] eqn:Ha.
                   --- apply assoc_combine_some in Ha. destruct Ha as [Hin _].
                       eapply Hfo; [apply sub_refl | exact Hin].
                   --- eapply HFOb; eauto.
                ** (* Inv *)
                   intros y a Hy z Hz. cbn [lookup_st] in Hy.
                   destruct (assoc y (combine lps (map (@Some expr) (map (res st) args)))) as [r|] eqn:Ha.
                   --- inversion Hy; subst. apply assoc_combine_some in Ha. destruct Ha as [_ Hin].
                       apply in_map_iff in Hin. destruct Hin as [a' [Heq Hin]]. inversion Heq; subst.
                       eapply overlaps_false; [exact Hov|]. apply in_flat_map. exists a; split; assumption.
                   --- intros Hzb. eapply HInv; [exact Hy | exact Hz|]. apply ib_call_lambda_body. exact Hzb.
                ** (* Rr *)
                   intros x. cbn [lookup_st]. rewrite EvalAgree.lookup_app.
                   pose proof (frame_rel B ops st E1 E2 lps args vs Hlen Hvs Hargs x) as Hfr.
                   destruct (assoc x (combine lps (map (@Some expr) (map (res st) args)))) as [[a'|]|].
                   --- destruct Hfr as [w0 [Hl Hev]]. intros w' Hw'. rewrite Hl in Hw'. inversion Hw'; subst. exact Hev.
                   --- contradiction.
                   --- rewrite Hfr. exact (HR x).
          -- (* arity mismatch: python raises *)
             intros w Hw. exfalso. cbn [eval] in Hw. apply obind_some in Hw. destruct Hw as [vs [Hvs Hw]].
             apply obind_some in Hw. destruct Hw as [E' [HE' _]].
             apply bind_args_nokw_len in HE'. apply omap_length in Hvs.
             apply Nat.eqb_neq in Hlen. congruence.
        * (* keywords: left as a call (FC2) *)
          apply c_call_lambda; [exact Hargs | | apply Hstay; left; discriminate].
          apply (res_list (size e) e kwv st E1 E2 IH (le_n _)); try assumption.
          -- intros c Hc. unfold e; cbn [children]. right. apply in_or_app; right; exact Hc.
          -- intros c Hc. apply ib_call_lambda_kwv; exact Hc.
    - (* Lambda: not a value *) apply refines_none.
    - cbn [res]. apply c_unary. apply Hkid; [left; reflexivity | intros; discriminate | intros; discriminate].
    - cbn [res]. apply c_bin; apply Hkid; try (intros; discriminate); [left; reflexivity | right; left; reflexivity].
    - cbn [res]. apply c_boolop. apply Hkids; [intros c0 Hc0; exact Hc0 | intros; discriminate | intros; discriminate].
    - cbn [res]. apply c_compare.
      + apply Hkid; [left; reflexivity | intros; discriminate | intros; discriminate].
      + apply Hkids; [intros c0 Hc0; right; exact Hc0 | intros; discriminate | intros; discriminate].
    - cbn [res]. apply c_if; apply Hkid; try (intros; discriminate);
        [left; reflexivity | right; left; reflexivity | right; right; left; reflexivity].
    - cbn [res]. apply c_tuple. apply Hkids; [intros c0 Hc0; exact Hc0 | intros; discriminate | intros; discriminate].
    - cbn [res]. apply c_list. apply Hkids; [intros c0 Hc0; exact Hc0 | intros; discriminate | intros; discriminate].
    - cbn [res]. apply c_dict; apply Hkids; try (intros; discriminate);
        intros c0 Hc0; cbn [children]; apply in_or_app; [left | right]; exact Hc0.
    - cbn [res]. apply c_sub; apply Hkid; try (intros; discriminate); [left; reflexivity | right; left; reflexivity].
    - (* ListComp *)
      intros w Hw. cbn [eval] in Hw. destruct (comp_sem_some _ _ _ _ _ Hw) as (x & it & ifs & ->).
      revert w Hw. cbn [res res_gens comp_targets names_in app map eval].
            apply (res_comp (size (ListComp elt [CompFor (Name x) it ifs false])) ListComp x it ifs elt st E1 E2 IH); try assumption; try reflexivity.
      + apply size_child. cbn [children]. right; left; reflexivity.
      + apply size_child. cbn [children]. left; reflexivity.
    - (* GenExp *)
      intros w Hw. cbn [eval] in Hw. destruct (comp_sem_some _ _ _ _ _ Hw) as (x & it & ifs & ->).
      revert w Hw. cbn [res res_gens comp_targets names_in app map eval].
            apply (res_comp (size (GenExp elt [CompFor (Name x) it ifs false])) GenExp x it ifs elt st E1 E2 IH); try assumption; try reflexivity.
      + apply size_child. cbn [children]. right; left; reflexivity.
      + apply size_child. cbn [children]. left; reflexivity.
    - (* CompFor *) apply refines_none.
    - apply refines_none.
    - apply refines_none.
  Qed.
End ResSem.

Theorem res_sem (B : backend) (ops : list string) e :
  first_order e -> forall E v, eval B ops E e = Some v -> eval B ops E (res [] e) = Some v.
Proof.
  intros Hfo E v. apply (res_ok_all B ops (S (size e)) e (Nat.lt_succ_diag_r _) [] E E Hfo).
  - intros y a H; discriminate.
  - intros y a H; discriminate.
  - intros x; reflexivity.
Qed.

(* ---------- rewrite_captured with a snapshot of plain literals: exact, for every expression ---------- *)

Lemma sbind_ok {A C} (r : sres A) (f : A -> sres C) y : sbind r f = Ok y -> exists a, r = Ok a /\ f a = Ok y.
Proof. destruct r; simpl; intros H; [eauto | discriminate]. Qed.

Lemma same_ok r e' r0 : same r = Ok (e', r0) -> r = Ok e' /\ r0 = e'.
Proof. unfold same. intros H. apply sbind_ok in H. destruct H as [a [Ha H]]. inversion H; subst. auto. Qed.

Lemma rw_list_ok f l l' :
  rw_list f l = Ok l' -> Forall2 (fun a a' => exists r, f a = Ok (a', r)) l l'.
Proof.
  revert l'. induction l as [|x xs IH]; intros l' H; simpl in H.
  - inversion H; constructor.
  - apply sbind_ok in H. destruct H as [[x' rx] [Hx H]]. apply sbind_ok in H. destruct H as [ys [Hys H]].
    inversion H; subst. constructor; [eauto | apply IH; exact Hys].
Qed.

Section Both.
  Variable B : backend.
  Variable ops : list string.
  Notation ev := (eval B ops).
  Variables E1 E2 : env.

  (* both directions at once: the two terms have the same value (or both none) *)
  Definition eqv (a b : expr) : Prop := refines (ev E1 a) (ev E2 b) /\ refines (ev E2 b) (ev E1 a).

  Lemma eqv_eq a b : eqv a b -> ev E1 a = ev E2 b.
  Proof. intros [H1 H2]. apply refines_antisym; assumption. Qed.

  Lemma eqv_lists l l' :
    Forall2 eqv l l' ->
    Forall2 (fun a a' => refines (ev E1 a) (ev E2 a')) l l' /\ Forall2 (fun a' a => refines (ev E2 a') (ev E1 a)) l' l.
  Proof. induction 1 as [|a a' l l' [H1 H2] _ [IH1 IH2]]; split; constructor; assumption. Qed.

  Definition arg_eqv (a a' : expr) : Prop := arg_ok B ops E1 E2 a a' /\ arg_ok B ops E2 E1 a' a.

  Lemma arg_eqv_lists l l' :
    Forall2 arg_eqv l l' -> Forall2 (arg_ok B ops E1 E2) l l' /\ Forall2 (arg_ok B ops E2 E1) l' l.
  Proof. induction 1 as [|a a' l l' [H1 H2] _ [IH1 IH2]]; split; constructor; assumption. Qed.

  Lemma cc_attr v v' a : eqv v v' -> eqv (Attr v a) (Attr v' a).
  Proof. intros [H1 H2]; split; apply c_attr; assumption. Qed.
  Lemma cc_unary o x x' : eqv x x' -> eqv (UnaryOp o x) (UnaryOp o x').
  Proof. intros [H1 H2]; split; apply c_unary; assumption. Qed.
  Lemma cc_bin o l l' r r' : eqv l l' -> eqv r r' -> eqv (BinOp o l r) (BinOp o l' r').
  Proof. intros [H1 H2] [H3 H4]; split; apply c_bin; assumption. Qed.
  Lemma cc_boolop o es es' : Forall2 eqv es es' -> eqv (BoolOp o es) (BoolOp o es').
  Proof. intros H. destruct (eqv_lists _ _ H). split; apply c_boolop; assumption. Qed.
  Lemma cc_compare l l' cops rs rs' : eqv l l' -> Forall2 eqv rs rs' -> eqv (Compare l cops rs) (Compare l' cops rs').
  Proof. intros [H1 H2] H. destruct (eqv_lists _ _ H). split; apply c_compare; assumption. Qed.
  Lemma cc_if c c' t t' f f' : eqv c c' -> eqv t t' -> eqv f f' -> eqv (IfExp c t f) (IfExp c' t' f').
  Proof. intros [? ?] [? ?] [? ?]; split; apply c_if; assumption. Qed.
  Lemma cc_tuple es es' : Forall2 eqv es es' -> eqv (Tuple es) (Tuple es').
  Proof. intros H. destruct (eqv_lists _ _ H). split; apply c_tuple; assumption. Qed.
  Lemma cc_list es es' : Forall2 eqv es es' -> eqv (List es) (List es').
  Proof. intros H. destruct (eqv_lists _ _ H). split; apply c_list; assumption. Qed.
  Lemma cc_dict ks ks' vs vs' : Forall2 eqv ks ks' -> Forall2 eqv vs vs' -> eqv (Dict ks vs) (Dict ks' vs').
  Proof. intros H H'. destruct (eqv_lists _ _ H). destruct (eqv_lists _ _ H'). split; apply c_dict; assumption. Qed.
  Lemma cc_sub v v' s s' : eqv v v' -> eqv s s' -> eqv (Subscript v s) (Subscript v' s').
  Proof. intros [? ?] [? ?]; split; apply c_sub; assumption. Qed.
  Lemma cc_call_name op args args' kwn kwv kwv' :
    Forall2 arg_eqv args args' -> Forall2 eqv kwv kwv' ->
    eqv (Call (Name op) args kwn kwv) (Call (Name op) args' kwn kwv').
  Proof. intros H H'. destruct (arg_eqv_lists _ _ H). destruct (eqv_lists _ _ H'). split; apply c_call_name; assumption. Qed.
  Lemma cc_call_attr s s' m args args' kwn kwv kwv' :
    eqv s s' -> Forall2 arg_eqv args args' -> Forall2 eqv kwv kwv' ->
    eqv (Call (Attr s m) args kwn kwv) (Call (Attr s' m) args' kwn kwv').
  Proof.
    intros [? ?] Ha Hk. destruct (arg_eqv_lists _ _ Ha). destruct (eqv_lists _ _ Hk). split; apply c_call_attr; assumption.
  Qed.
  Lemma cc_none a b : ev E1 a = None -> ev E2 b = None -> eqv a b.
  Proof. intros H1 H2. split; [rewrite H1 | rewrite H2]; apply refines_none. Qed.
End Both.

Ltac inv_binds H :=
  repeat (apply sbind_ok in H;
          let q := fresh "q" in let Hq := fresh "Hq" in destruct H as [q [Hq H]]; cbv beta in H).

Ltac inv_same H :=
  apply same_ok in H; let Hr := fresh "Hr" in destruct H as [H Hr]; inv_binds H.

Section RwSem.
  Variable B : backend.
  Variable ops : list string.
  Notation ev := (eval B ops).
  Variable ce : cenv.
  (* no attribute table: nothing is folded (class constants, enums and methods of literals are outside this theorem) *)
  Hypothesis Hattr : ce_attrs ce = [].

  (* what the snapshot holds under the names that occur in the expression: plain literals, or nothing *)
  Definition lit_at (x : string) : Prop :=
    match lookup_var ce x with
    | Some (CVal c) => const_value c <> None
    | Some (CFun _) => False
    | None => True
    end.

  Definition lit_names (e : expr) : Prop := forall x, In x (names_in e) -> lit_at x.

  Lemma names_child e c : In c (children e) -> incl (names_in c) (names_in e).
  Proof.
    intros Hin z Hz. rewrite (names_in_children e). destruct e; try (apply in_flat_map; exists c; split; assumption).
    all: simpl in Hin; contradiction.
  Qed.

  Lemma lit_names_child e c : In c (children e) -> lit_names e -> lit_names c.
  Proof. intros Hin H x Hx. apply H. eapply names_child; eauto. Qed.

  (* F42: the theorem is about trees without assignment expressions - the reference semantics has none, and a name
     they bind would be local to the lambda (on the ignore stack) although the snapshot holds a value for it *)
  Lemma has_walrus_child e c : In c (children e) -> has_walrus e = false -> has_walrus c = false.
  Proof.
    intros Hin H. destruct (has_walrus c) eqn:Hc; [|reflexivity]. exfalso.
    assert (Hex : forall l, In c l -> existsb has_walrus l = true).
    { intros l Hl. apply existsb_exists. exists c; split; assumption. }
    destruct e; cbn [children] in Hin; cbn [has_walrus] in H;
      repeat match goal with
             | H : In _ (_ :: _) |- _ => destruct H as [<-|H]
             | H : In _ (_ ++ _) |- _ => apply in_app_or in H; destruct H as [H|H]
             | H : In _ [] |- _ => contradiction
             end;
      try contradiction;
      try (rewrite Hc in H; cbn in H; rewrite ?orb_true_r in H; discriminate);
      try (rewrite (Hex _ Hin) in H; cbn in H; rewrite ?orb_true_r in H; discriminate).
  Qed.

  Definition lit_ok (e : expr) : Prop := lit_names e /\ has_walrus e = false.

  Lemma lit_ok_child e c : In c (children e) -> lit_ok e -> lit_ok c.
  Proof. intros Hin [H1 H2]. split; [eapply lit_names_child; eauto | eapply has_walrus_child; eauto]. Qed.

  Lemma lit_ok_lambda ps b : lit_ok (Lambda ps b) -> ps ++ assigned b = ps.
  Proof. intros [_ H]. cbn [has_walrus] in H. rewrite (no_walrus_no_assigned b H). apply app_nil_r. Qed.

  Lemma lit_no_attr c a : lookup_attr ce c a = None.
  Proof. unfold lookup_attr. rewrite Hattr. reflexivity. Qed.

  Lemma lit_not_keeps c : const_value c <> None -> keeps_const_callee c = false.
  Proof. destruct c; simpl; intros H; try reflexivity. contradiction. Qed.

  (* the environments of the original (E1: snapshot values in front) and of the rewritten term (E2) *)
  Definition Rc (st : list (list string)) (E1 E2 : env) : Prop :=
    forall x, if is_arg st x then lookup x E1 = lookup x E2
              else match lookup_var ce x with
                   | Some (CVal c) => match const_value c with
                                      | Some v => lookup x E1 = Some v
                                      | None => lookup x E1 = lookup x E2
                                      end
                   | _ => lookup x E1 = lookup x E2
                   end.

  Lemma Rc_ext st E1 E2 ps Eb :
    Rc st E1 E2 -> (forall y, In y (map fst Eb) <-> In y ps) -> Rc (ps :: st) (Eb ++ E1) (Eb ++ E2).
  Proof.
    intros HR Hdom y. rewrite is_arg_cons, !EvalAgree.lookup_app.
    destruct (existsb (String.eqb y) ps) eqn:Hy; simpl.
    - apply existsb_eqb_in in Hy. apply Hdom in Hy. apply lookup_dom in Hy.
      destruct (lookup y Eb); [reflexivity | contradiction].
    - assert (Hn : lookup y Eb = None).
      { destruct (lookup y Eb) eqn:Hl; [|reflexivity]. exfalso.
        assert (Hin : In y (map fst Eb)) by (apply lookup_dom; congruence).
        apply Hdom in Hin. apply existsb_eqb_in in Hin. congruence. }
      rewrite Hn. exact (HR y).
  Qed.

  (* second component of [rw]: the old node, equal to the returned node unless a Name was replaced by a literal *)
  Definition Q (e e' r : expr) : Prop :=
    r = e' \/ exists x c, e = Name x /\ e' = Const c /\ r = Name x /\ const_value c <> None.

  Lemma rw_name_inv st x e' r :
    lit_at x ->
    rw ce st (Name x) = Ok (e', r) ->
    (e' = Name x /\ r = Name x /\ (is_arg st x = true \/ lookup_var ce x = None)) \/
    (exists c, e' = Const c /\ r = Name x /\ is_arg st x = false /\ lookup_var ce x = Some (CVal c) /\ const_value c <> None).
  Proof.
    intros Hx. unfold lit_at in Hx. cbn [rw]. destruct (is_arg st x) eqn:Ha.
    - intros H; inversion H; subst. left; auto.
    - destruct (lookup_var ce x) as [[c|l]|] eqn:Hl.
      + intros H; inversion H; subst. right. exists c. repeat split; auto.
      + contradiction.
      + intros H; inversion H; subst. left; auto.
  Qed.

  Lemma rw_attr_inv st v a e' r :
    rw ce st (Attr v a) = Ok (e', r) ->
    exists v' vr, rw ce st v = Ok (v', vr) /\ (Q v v' vr -> e' = Attr v' a /\ r = Attr v' a).
  Proof.
    cbn [rw]. intros H. apply sbind_ok in H. destruct H as [[v' vr] [Hv H]]. exists v', vr. split; [exact Hv|].
    intros HQ. cbn [fst snd] in H.
    assert (Hold : match v' with Const c => if byname_const c then vr else v' | _ => vr end = v').
    { destruct HQ as [->|(x & c & _ & -> & _ & Hc)].
      - destruct v'; try reflexivity. destruct (byname_const c); reflexivity.
      - rewrite (const_value_not_byname c Hc). reflexivity. }
    rewrite Hold in H.
    destruct v'; try (inversion H; subst; auto).
    rewrite lit_no_attr in H. inversion H; subst; auto.
  Qed.

  Lemma rw_lambda_out st e ps b' r :
    lit_ok e ->
    rw ce st e = Ok (Lambda ps b', r) -> exists b rb, e = Lambda ps b /\ rw ce (ps :: st) b = Ok (b', rb).
  Proof.
    intros Hln H. destruct e.
    - apply rw_name_inv in H; [|apply (proj1 Hln); left; reflexivity]. destruct H as [(H & _)|(c & H & _)]; discriminate.
    - cbn [rw] in H. inversion H.
    - destruct (rw_attr_inv _ _ _ _ _ H) as (v' & vr & Hv & _).
      cbn [rw] in H. rewrite Hv in H. cbn [sbind fst snd] in H.
      destruct v'; try (inversion H; fail). destruct (lookup_attr ce c a) as [[| [|] |]|]; try (inversion H; fail).
    - cbn [rw] in H. inv_same H. inversion H.
    - cbn [rw] in H. rewrite (lit_ok_lambda _ _ Hln) in H. inv_same H. inversion H; subst. destruct q as [b1 rb]. eauto.
    - cbn [rw] in H. inv_same H. inversion H.
    - cbn [rw] in H. inv_same H. inversion H.
    - cbn [rw] in H. inv_same H. inversion H.
    - cbn [rw] in H. inv_same H. inversion H.
    - cbn [rw] in H. inv_same H. inversion H.
    - cbn [rw] in H. inv_same H. inversion H.
    - cbn [rw] in H. inv_same H. inversion H.
    - cbn [rw] in H. inv_same H. inversion H.
    - cbn [rw] in H. inv_same H. inversion H.
    - cbn [rw] in H. destruct gs; [discriminate|]. inv_same H. inversion H.
    - cbn [rw] in H. destruct gs; [discriminate|]. inv_same H. inversion H.
    - cbn [rw] in H. inv_same H. inversion H.
    - cbn [rw] in H. inversion H.
    - destruct (String.prefix "SetComp;" cls) eqn:E1.
      { cbn [rw] in H. rewrite E1 in H. destruct cs as [|h [|g gs]]; try discriminate. inv_same H. inversion H. }
      destruct (String.prefix "DictComp;" cls) eqn:E2.
      { cbn [rw] in H. rewrite E1, E2 in H. destruct cs as [|k [|v [|g gs]]]; try discriminate. inv_same H. inversion H. }
      rewrite (rw_other_shape ce st cls atoms cs E1 E2) in H.
      destruct (lam_parts cls cs) as [[[[[acls aatoms] akids] b] lv]|]; inv_same H; inversion H.
  Qed.
  (* callees that are neither a name, an attribute, a lambda nor a constant keep their shape *)
  Definition plain_callee (e : expr) : Prop :=
    (forall x, e <> Name x) /\ (forall s m, e <> Attr s m) /\ (forall ps b, e <> Lambda ps b) /\ (forall c, e <> Const c).

  Lemma rw_plain_callee st e e' r :
    plain_callee e -> rw ce st e = Ok (e', r) -> plain_callee e' /\ r = e'.
  Proof.
    intros (H1 & H2 & H3 & H4) H.
    destruct e; try (exfalso; eapply H1; reflexivity); try (exfalso; eapply H2; reflexivity);
      try (exfalso; eapply H3; reflexivity); try (exfalso; eapply H4; reflexivity);
      cbn [rw] in H;
      try (destruct gs; [discriminate|]);
      try (inversion H; subst; split; [repeat split; intros; discriminate | reflexivity]; fail);
      try (inv_same H; inversion H; subst; split; [repeat split; intros; discriminate | reflexivity]; fail).
    (* Other *)
    destruct (String.prefix "SetComp;" cls).
    { destruct cs as [|h [|g gs]]; try discriminate. inv_same H. inversion H; subst.
      split; [repeat split; intros; discriminate | reflexivity]. }
    destruct (String.prefix "DictComp;" cls).
    { destruct cs as [|k [|v [|g gs]]]; try discriminate. inv_same H. inversion H; subst.
      split; [repeat split; intros; discriminate | reflexivity]. }
    destruct (String.prefix "Lambda;" cls);
      [|inv_same H; inversion H; subst; split; [repeat split; intros; discriminate | reflexivity]].
    destruct cs as [|a0 [|b0 [|c0 cs]]];
      try (inv_same H; inversion H; subst; split; [repeat split; intros; discriminate | reflexivity]);
      (destruct a0 as [| | | | | | | | | | | | | | | | | |acls aatoms akids];
       try (inv_same H; inversion H; subst; split; [repeat split; intros; discriminate | reflexivity])).
    destruct (lam_view acls akids);
      inv_same H; inversion H; subst; split; [repeat split; intros; discriminate | reflexivity | repeat split; intros; discriminate | reflexivity].
  Qed.

  Lemma call_plain_none E f args kwn kwv : plain_callee f -> ev E (Call f args kwn kwv) = None.
  Proof.
    intros (H1 & H2 & H3 & _). destruct (ev E (Call f args kwn kwv)) eqn:Hev; [|reflexivity].
    exfalso. eapply (call_other_none B ops); eauto.
  Qed.

  Lemma call_const_none E c args kwn kwv : ev E (Call (Const c) args kwn kwv) = None.
  Proof.
    destruct (ev E (Call (Const c) args kwn kwv)) eqn:Hev; [|reflexivity].
    exfalso. eapply (call_other_none B ops); [| | | exact Hev]; intros; discriminate.
  Qed.

  Definition rw_ok2 (e : expr) : Prop :=
    forall st E1 E2 e' r, lit_ok e -> Rc st E1 E2 -> rw ce st e = Ok (e', r) -> eqv B ops E1 E2 e e' /\ Q e e' r.

  Lemma eqv_of_eq E1 E2 a b : ev E1 a = ev E2 b -> eqv B ops E1 E2 a b.
  Proof. intros H. split; [rewrite H | rewrite <- H]; apply refines_refl. Qed.

  Lemma rw_list_eqv n l l' st E1 E2 :
    (forall e0, size e0 < n -> rw_ok2 e0) -> (forall a, In a l -> size a < n) -> (forall a, In a l -> lit_ok a) ->
    Rc st E1 E2 ->
    rw_list (rw ce st) l = Ok l' -> Forall2 (eqv B ops E1 E2) l l'.
  Proof.
    intros IH Hsz Hln HR H. apply rw_list_ok in H.
    induction H as [|a a' l l' [r Ha] _ IHl]; constructor.
    - eapply IH; [apply Hsz; left; reflexivity | apply Hln; left; reflexivity | exact HR | exact Ha].
    - apply IHl; intros a0 H0; [apply Hsz | apply Hln]; right; exact H0.
  Qed.

  Lemma rw_list_args n l l' st E1 E2 :
    (forall e0, size e0 < n -> rw_ok2 e0) -> (forall a, In a l -> size a < n) -> (forall a, In a l -> lit_ok a) ->
    Rc st E1 E2 ->
    rw_list (rw ce st) l = Ok l' -> Forall2 (arg_eqv B ops E1 E2) l l'.
  Proof.
    intros IH Hsz Hln HR H. apply rw_list_ok in H.
    induction H as [|a a' l l' [r Ha] _ IHl]; constructor;
      [|apply IHl; intros a0 H0; [apply Hsz | apply Hln]; right; exact H0].
    assert (Hsa : size a < n) by (apply Hsz; left; reflexivity).
    assert (Hla : lit_ok a) by (apply Hln; left; reflexivity).
    destruct (IH a Hsa st E1 E2 a' r Hla HR Ha) as [[Hf Hb] _].
    (* a lambda argument: its body under the parameters *)
    assert (Hbody : forall ps b, a = Lambda ps b -> exists b' rb, a' = Lambda ps b' /\ rw ce (ps :: st) b = Ok (b', rb) /\
               forall Eb, (forall y, In y (map fst Eb) <-> In y ps) -> eqv B ops (Eb ++ E1) (Eb ++ E2) b b').
    { intros ps b ->. cbn [rw] in Ha. rewrite (lit_ok_lambda _ _ Hla) in Ha. inv_same Ha. destruct q as [b' rb]. inversion Ha; subst.
      exists b', rb. split; [reflexivity | split; [exact Hq|]]. intros Eb Hdom.
      assert (Hsb : size b < n).
      { pose proof (size_child (Lambda ps b) b (or_introl eq_refl)). lia. }
      refine (proj1 (IH b Hsb (ps :: st) _ _ b' rb _ (Rc_ext st E1 E2 ps Eb HR Hdom) Hq)).
      eapply lit_ok_child; [|exact Hla]. left; reflexivity. }
    split; apply arg_ok_intro; try assumption.
    - intros x b Hab. destruct (Hbody _ _ Hab) as (b' & rb & -> & _ & Hb'). eexists; split; [reflexivity|].
      intros v. exact (proj1 (Hb' [(x, v)] (fun y => iff_refl _))).
    - intros x y b Hab. destruct (Hbody _ _ Hab) as (b' & rb & -> & _ & Hb'). eexists; split; [reflexivity|].
      intros v w. refine (proj1 (Hb' [(y, w); (x, v)] _)). intros z; simpl; tauto.
    - intros x b' Hab'. subst a'. destruct (rw_lambda_out _ _ _ _ _ Hla Ha) as (b & rb & -> & Hb0).
      destruct (Hbody _ _ eq_refl) as (b2 & rb2 & Heq & _ & Hb'). inversion Heq; subst b2.
      eexists; split; [reflexivity|]. intros v. exact (proj2 (Hb' [(x, v)] (fun y => iff_refl _))).
    - intros x y b' Hab'. subst a'. destruct (rw_lambda_out _ _ _ _ _ Hla Ha) as (b & rb & -> & Hb0).
      destruct (Hbody _ _ eq_refl) as (b2 & rb2 & Heq & _ & Hb'). inversion Heq; subst b2.
      eexists; split; [reflexivity|]. intros v w. refine (proj2 (Hb' [(y, w); (x, v)] _)). intros z; simpl; tauto.
  Qed.
  Lemma comp_sem_none2 (f : env -> expr -> option value) E elt a b l : comp_sem f E elt (a :: b :: l) = None.
  Proof.
    destruct (comp_sem f E elt (a :: b :: l)) eqn:H; [|reflexivity].
    apply comp_sem_some in H. destruct H as (x & it & ifs & H). discriminate.
  Qed.

  (* a comprehension ([mk] = ListComp / GenExp): both sides have a value only for a single plain [for] *)
  Lemma rw_comp n (mk : expr -> list expr -> expr) elt gs st E1 E2 gs' elt' relt :
    (forall e0, size e0 < n -> rw_ok2 e0) ->
    size elt < n -> (forall g, In g gs -> size g < n) -> gs <> [] ->
    lit_ok elt -> (forall g, In g gs -> lit_ok g) ->
    Rc st E1 E2 ->
    rw_gens (rw ce st) (rw ce (comp_targets gs :: st)) true gs = Ok gs' ->
    rw ce (comp_targets gs :: st) elt = Ok (elt', relt) ->
    refines (comp_sem ev E1 elt gs) (comp_sem ev E2 elt' gs') /\
    refines (comp_sem ev E2 elt' gs') (comp_sem ev E1 elt gs).
  Proof.
    intros IH Hselt Hsgs Hne Hlelt Hlgs HR Hg Helt.
    destruct gs as [|g gs]; [contradiction|].
    destruct g; try (cbn [rw_gens] in Hg; discriminate).
    rename g1 into t, g2 into it.
    destruct gs as [|g2 gs].
    - (* one generator *)
      cbn [rw_gens] in Hg. inv_binds Hg. destruct q as [it' rit].
      cbn [rw_gens] in Hq1. inversion Hq1; subst q1; clear Hq1. cbn [fst] in Hg. inversion Hg; subst gs'; clear Hg.
      destruct t; try (split; cbn [comp_sem]; apply refines_none).
      destruct is_async; [split; cbn [comp_sem]; apply refines_none|].
      cbn [comp_targets names_in app] in *.
      assert (Hsg : size (CompFor (Name id) it ifs false) < n) by (apply Hsgs; left; reflexivity).
      assert (Hsit : size it < n).
      { pose proof (size_child (CompFor (Name id) it ifs false) it). cbn [children] in H. specialize (H (or_intror (or_introl eq_refl))). lia. }
      assert (Hsifs : forall a, In a ifs -> size a < n).
      { intros a Ha. pose proof (size_child (CompFor (Name id) it ifs false) a). cbn [children] in H.
        specialize (H (or_intror (or_intror Ha))). lia. }
      assert (Hext : forall v, Rc ([id] :: st) ((id, v) :: E1) ((id, v) :: E2)).
      { intros v. apply (Rc_ext st E1 E2 [id] [(id, v)] HR). intros y; reflexivity. }
      assert (Hlg : lit_ok (CompFor (Name id) it ifs false)) by (apply Hlgs; left; reflexivity).
      assert (Hlit : lit_ok it).
      { eapply lit_ok_child; [|exact Hlg]. cbn [children]. right; left; reflexivity. }
      assert (Hlifs : forall a, In a ifs -> lit_ok a).
      { intros a Ha. eapply lit_ok_child; [|exact Hlg]. cbn [children]. right; right; exact Ha. }
      destruct (IH it Hsit st E1 E2 it' rit Hlit HR Hq) as [[Hit1 Hit2] _].
      assert (Hifs : forall v, Forall2 (eqv B ops ((id, v) :: E1) ((id, v) :: E2)) ifs q0).
      { intros v. eapply rw_list_eqv; eauto. }
      assert (Helt' : forall v, eqv B ops ((id, v) :: E1) ((id, v) :: E2) elt elt').
      { intros v. exact (proj1 (IH elt Hselt _ _ _ _ _ Hlelt (Hext v) Helt)). }
      split.
      + apply (c_comp B ops E1 E2 id it it' ifs q0 elt elt'); [exact Hit1 | |].
        * intros v. exact (proj1 (eqv_lists B ops _ _ _ _ (Hifs v))).
        * intros v. exact (proj1 (Helt' v)).
      + apply (c_comp B ops E2 E1 id it' it q0 ifs elt' elt); [exact Hit2 | |].
        * intros v. exact (proj2 (eqv_lists B ops _ _ _ _ (Hifs v))).
        * intros v. exact (proj2 (Helt' v)).
    - (* several generators: no value on either side *)
      cbn [rw_gens] in Hg. inv_binds Hg.
      destruct g2; try (cbn [rw_gens] in Hq1; discriminate).
      cbn [rw_gens] in Hq1. inv_binds Hq1. inversion Hq1; subst q1. inversion Hg; subst gs'.
      rewrite !comp_sem_none2. split; apply refines_none.
  Qed.

  Ltac plain_case Hq :=
    match type of Hq with
    | rw _ ?st0 ?f0 = Ok (?f1, _) =>
        let Hpf := fresh "Hpf" in
        assert (Hpf : plain_callee f0) by (unfold plain_callee; repeat split; intros; discriminate);
        let Hp := fresh "Hp" in
        destruct (rw_plain_callee st0 _ _ _ Hpf Hq) as [Hp ->];
        let Hf' := fresh "Hf" in
        assert (Hf' : match f1 with Const c => if keeps_const_callee c then f1 else f1 | _ => f1 end = f1)
          by (destruct f1; try reflexivity; destruct (keeps_const_callee _); reflexivity);
        rewrite Hf'; apply cc_none; apply call_plain_none; [exact Hpf | exact Hp]
    end.

  Theorem rw_ok2_all : forall n e, size e < n -> rw_ok2 e.
  Proof.
    intros n. induction n as [n IHn] using (well_founded_induction Wf_nat.lt_wf). intros e Hn.
    assert (IH : forall e0, size e0 < size e -> rw_ok2 e0).
    { intros e0 H0. exact (IHn (size e) Hn e0 H0). }
    clear IHn Hn. intros st E1 E2 e' r Hln HR H.
    assert (Hkid : forall c c' rc, In c (children e) -> rw ce st c = Ok (c', rc) -> eqv B ops E1 E2 c c' /\ Q c c' rc).
    { intros c c' rc Hc Hrw. eapply IH; [apply size_child; exact Hc | eapply lit_ok_child; eauto | exact HR | exact Hrw]. }
    assert (Hkids : forall l l', (forall c, In c l -> In c (children e)) -> rw_list (rw ce st) l = Ok l' ->
                    Forall2 (eqv B ops E1 E2) l l').
    { intros l l' Hl Hrw. eapply (rw_list_eqv (size e)); eauto.
      - intros a Ha. apply size_child. apply Hl; exact Ha.
      - intros a Ha. eapply lit_ok_child; [apply Hl; exact Ha | exact Hln]. }
    destruct e as [x|c|v a|f args kwn kwv|ps b|o x|o l r0|o es|l cops rs|c t f|es|es|ks vs|v s|elt gs|elt gs|t i ifs asy|c|cls atoms cs].
    - (* Name *)
      pose proof (HR x) as Hx.
      apply rw_name_inv in H; [|apply (proj1 Hln); left; reflexivity].
      destruct H as [(-> & -> & Hwhy)|(c & -> & -> & Ha & Hl & Hc)].
      + split; [|left; reflexivity]. apply eqv_of_eq. cbn [eval].
        destruct Hwhy as [Ha|Hl]; [rewrite Ha in Hx; exact Hx|].
        destruct (is_arg st x); [exact Hx | rewrite Hl in Hx; exact Hx].
      + split; [|right; eauto 10]. apply eqv_of_eq. cbn [eval]. rewrite Ha, Hl in Hx.
        destruct (const_value c) eqn:Hcv; [exact Hx | contradiction].
    - cbn [rw] in H. inversion H; subst. split; [apply eqv_of_eq; reflexivity | left; reflexivity].
    - (* Attr *)
      destruct (rw_attr_inv _ _ _ _ _ H) as (v' & vr & Hv & Hres).
      destruct (Hkid v v' vr (or_introl eq_refl) Hv) as [Hev HQ].
      destruct (Hres HQ) as [-> ->]. split; [apply cc_attr; exact Hev | left; reflexivity].
    - (* Call *)
      cbn [rw] in H. inv_same H. destruct q as [f' fr]. cbn [fst snd] in H. inversion H; subst; clear H.
      split; [|left; reflexivity].
      assert (Hargs : Forall2 (arg_eqv B ops E1 E2) args q0).
      { eapply (rw_list_args (size (Call f args kwn kwv))); eauto.
        - intros a Ha. apply size_child. cbn [children]. right. apply in_or_app; left; exact Ha.
        - intros a Ha. eapply lit_ok_child; [|exact Hln]. cbn [children]. right. apply in_or_app; left; exact Ha. }
      assert (Hlf : lit_ok f) by (eapply lit_ok_child; [|exact Hln]; left; reflexivity).
      assert (Hkw : Forall2 (eqv B ops E1 E2) kwv q1).
      { apply Hkids; [|exact Hq1]. intros c Hc. cbn [children]. right. apply in_or_app; right; exact Hc. }
      destruct f as [op|c0|s m| | lps lb | | | | | | | | | | | | | | ].
      + (* by name *)
        apply rw_name_inv in Hq; [|apply (proj1 Hlf); left; reflexivity].
        destruct Hq as [(-> & -> & _)|(c & -> & -> & _ & _ & Hc)].
        * apply cc_call_name; assumption.
        * rewrite (lit_not_keeps c Hc). apply cc_call_name; assumption.
      + (* a constant as callee: no value *)
        cbn [rw] in Hq. inversion Hq; subst.
        apply cc_none; [apply call_const_none|]. destruct (keeps_const_callee c0); apply call_const_none.
      + (* method *)
        destruct (rw_attr_inv _ _ _ _ _ Hq) as (s' & sr & Hs & Hres).
        assert (Hss : size s < size (Call (Attr s m) args kwn kwv)).
        { pose proof (size_child (Call (Attr s m) args kwn kwv) (Attr s m) (or_introl eq_refl)).
          pose proof (size_child (Attr s m) s (or_introl eq_refl)). lia. }
        assert (Hls : lit_ok s) by (eapply lit_ok_child; [|exact Hlf]; left; reflexivity).
        destruct (IH s Hss st E1 E2 s' sr Hls HR Hs) as [Hevs HQs].
        destruct (Hres HQs) as [-> ->]. apply cc_call_attr; assumption.
      + plain_case Hq.
      + (* called lambda: it stays a called lambda *)
        cbn [rw] in Hq. rewrite (lit_ok_lambda _ _ Hlf) in Hq. inv_same Hq. destruct q as [lb' rlb]. inversion Hq; subst; clear Hq.
        assert (Hsb : size lb < size (Call (Lambda lps lb) args kwn kwv)).
        { pose proof (size_child (Call (Lambda lps lb) args kwn kwv) (Lambda lps lb) (or_introl eq_refl)).
          pose proof (size_child (Lambda lps lb) lb (or_introl eq_refl)). lia. }
        assert (Hb : forall E', map fst E' = lps -> eqv B ops (E' ++ E1) (E' ++ E2) lb lb').
        { intros E' Hdom. refine (proj1 (IH lb Hsb (lps :: st) _ _ lb' rlb _ _ Hq2)).
          - eapply lit_ok_child; [|exact Hlf]. left; reflexivity.
          - apply Rc_ext; [exact HR | intros y; rewrite Hdom; reflexivity]. }
        destruct (arg_eqv_lists B ops _ _ _ _ Hargs) as [Ha1 Ha2].
        destruct (eqv_lists B ops _ _ _ _ Hkw) as [Hk1 Hk2].
        split; apply c_call_lambda; try assumption;
          try (apply (args_ok_vals B ops); assumption); intros E' Hdom; apply (Hb E' Hdom).
      + plain_case Hq.
      + plain_case Hq.
      + plain_case Hq.
      + plain_case Hq.
      + plain_case Hq.
      + plain_case Hq.
      + plain_case Hq.
      + plain_case Hq.
      + plain_case Hq.
      + plain_case Hq.
      + plain_case Hq.
      + plain_case Hq.
      + plain_case Hq.
      + plain_case Hq.
    - (* Lambda: not a value on either side *)
      cbn [rw] in H. inv_same H. inversion H; subst. split; [apply cc_none; reflexivity | left; reflexivity].
    - cbn [rw] in H. inv_same H. destruct q as [x' rx]. inversion H; subst. split; [|left; reflexivity].
      apply cc_unary. exact (proj1 (Hkid _ _ _ (or_introl eq_refl) Hq)).
    - cbn [rw] in H. inv_same H. destruct q as [l' rl]; destruct q0 as [r' rr]. inversion H; subst. split; [|left; reflexivity].
      apply cc_bin; [exact (proj1 (Hkid _ _ _ (or_introl eq_refl) Hq)) | exact (proj1 (Hkid _ _ _ (or_intror (or_introl eq_refl)) Hq0))].
    - cbn [rw] in H. inv_same H. inversion H; subst. split; [|left; reflexivity].
      apply cc_boolop. apply Hkids; [intros c0 Hc0; exact Hc0 | exact Hq].
    - cbn [rw] in H. inv_same H. destruct q as [l' rl]. inversion H; subst. split; [|left; reflexivity].
      apply cc_compare; [exact (proj1 (Hkid _ _ _ (or_introl eq_refl) Hq))|].
      apply Hkids; [intros c0 Hc0; right; exact Hc0 | exact Hq0].
    - cbn [rw] in H. inv_same H. destruct q as [c' rc]; destruct q0 as [t' rt]; destruct q1 as [f' rf]. inversion H; subst.
      split; [|left; reflexivity].
      apply cc_if; [exact (proj1 (Hkid _ _ _ (or_introl eq_refl) Hq)) | exact (proj1 (Hkid _ _ _ (or_intror (or_introl eq_refl)) Hq0))
                   | exact (proj1 (Hkid _ _ _ (or_intror (or_intror (or_introl eq_refl))) Hq1))].
    - cbn [rw] in H. inv_same H. inversion H; subst. split; [|left; reflexivity].
      apply cc_tuple. apply Hkids; [intros c0 Hc0; exact Hc0 | exact Hq].
    - cbn [rw] in H. inv_same H. inversion H; subst. split; [|left; reflexivity].
      apply cc_list. apply Hkids; [intros c0 Hc0; exact Hc0 | exact Hq].
    - cbn [rw] in H. inv_same H. inversion H; subst. split; [|left; reflexivity].
      apply cc_dict; (apply Hkids; [|eassumption]); intros c0 Hc0; cbn [children]; apply in_or_app; [left | right]; exact Hc0.
    - cbn [rw] in H. inv_same H. destruct q as [v' rv]; destruct q0 as [s' rs]. inversion H; subst. split; [|left; reflexivity].
      apply cc_sub; [exact (proj1 (Hkid _ _ _ (or_introl eq_refl) Hq)) | exact (proj1 (Hkid _ _ _ (or_intror (or_introl eq_refl)) Hq0))].
    - (* ListComp *)
      cbn [rw] in H. destruct gs as [|g gs]; [discriminate|]. inv_same H. destruct q0 as [elt' relt]. inversion H; subst.
      split; [|left; reflexivity]. unfold eqv. cbn [eval].
      apply (rw_comp (size (ListComp elt (g :: gs))) ListComp elt (g :: gs) st E1 E2 q elt' relt IH); try assumption.
      + apply size_child. left; reflexivity.
      + intros g0 Hg0. apply size_child. right; exact Hg0.
      + discriminate.
      + eapply lit_ok_child; [|exact Hln]. left; reflexivity.
      + intros g0 Hg0. eapply lit_ok_child; [|exact Hln]. right; exact Hg0.
    - (* GenExp *)
      cbn [rw] in H. destruct gs as [|g gs]; [discriminate|]. inv_same H. destruct q0 as [elt' relt]. inversion H; subst.
      split; [|left; reflexivity]. unfold eqv. cbn [eval].
      apply (rw_comp (size (GenExp elt (g :: gs))) GenExp elt (g :: gs) st E1 E2 q elt' relt IH); try assumption.
      + apply size_child. left; reflexivity.
      + intros g0 Hg0. apply size_child. right; exact Hg0.
      + discriminate.
      + eapply lit_ok_child; [|exact Hln]. left; reflexivity.
      + intros g0 Hg0. eapply lit_ok_child; [|exact Hln]. right; exact Hg0.
    - (* CompFor on its own: no value *)
      cbn [rw] in H. inv_same H. inversion H; subst. split; [apply cc_none; reflexivity | left; reflexivity].
    - cbn [rw] in H. inversion H; subst. split; [apply cc_none; reflexivity | left; reflexivity].
    - (* Other: no value *)
      destruct (String.prefix "SetComp;" cls) eqn:Ep1.
      { cbn [rw] in H. rewrite Ep1 in H. destruct cs as [|h [|g gs]]; try discriminate. inv_same H. inversion H; subst.
        split; [apply cc_none; reflexivity | left; reflexivity]. }
      destruct (String.prefix "DictComp;" cls) eqn:Ep2.
      { cbn [rw] in H. rewrite Ep1, Ep2 in H. destruct cs as [|k [|v [|g gs]]]; try discriminate. inv_same H. inversion H; subst.
        split; [apply cc_none; reflexivity | left; reflexivity]. }
      rewrite (rw_other_shape ce st cls atoms cs Ep1 Ep2) in H.
      destruct (lam_parts cls cs) as [[[[[acls aatoms] akids] b] lv]|]; inv_same H; inversion H; subst;
        (split; [apply cc_none; reflexivity | left; reflexivity]).
  Qed.
End RwSem.

(* an environment that holds, under every name, exactly the literal value the snapshot's first binding gives it *)
Fixpoint firsts (seen : list string) (l : list (string * capval)) : env :=
  match l with
  | [] => []
  | (x, cv) :: l' =>
      if mem x seen then firsts seen l'
      else match cv with
           | CVal c => match const_value c with Some v => [(x, v)] | None => [] end
           | CFun _ => []
           end ++ firsts (x :: seen) l'
  end.

Lemma lookup_firsts x l : forall seen,
  lookup x (firsts seen l) =
  if mem x seen then None else match assoc x l with Some (CVal c) => const_value c | _ => None end.
Proof.
  induction l as [|[y cv] l IH]; intros seen; simpl; [destruct (mem x seen); reflexivity|].
  destruct (mem y seen) eqn:Hy.
  - rewrite IH. destruct (mem x seen) eqn:Hx; [reflexivity|].
    destruct (String.eqb x y) eqn:E; [|reflexivity]. apply String.eqb_eq in E; subst. congruence.
  - rewrite EvalAgree.lookup_app, IH.
    assert (Hm : mem x (y :: seen) = String.eqb x y || mem x seen) by reflexivity. rewrite Hm.
    destruct (String.eqb x y) eqn:E.
    + apply String.eqb_eq in E; subst. rewrite Hy.
      destruct cv as [c|f]; [destruct (const_value c)|]; simpl; rewrite ?String.eqb_refl; reflexivity.
    + destruct cv as [c|f]; [destruct (const_value c)|]; simpl; rewrite ?E; reflexivity.
Qed.

Lemma lookup_snapshot_first x l :
  match assoc x l with Some (CVal c) => const_value c <> None | Some (CFun _) => False | None => True end ->
  lookup x (snapshot_vals l) = match assoc x l with Some (CVal c) => const_value c | _ => None end.
Proof.
  induction l as [|[y cv] l IH]; simpl; intros H; [reflexivity|].
  rewrite EvalAgree.lookup_app. destruct (String.eqb x y) eqn:E.
  - apply String.eqb_eq in E; subst. destruct cv as [c|f]; [|contradiction].
    destruct (const_value c) eqn:Hc; [|contradiction]. simpl. rewrite String.eqb_refl. reflexivity.
  - destruct cv as [c|f]; [destruct (const_value c)|]; simpl; rewrite ?E; apply IH; exact H.
Qed.

(* capture_freezes, for every expression: when the names the expression mentions are bound to plain literals in the
   snapshot (or not at all) and nothing is attribute-folded, the rewritten tree computes in ANY later environment
   exactly what the original computes with the snapshot's values in front of that environment *)
Theorem rw_sem (B : backend) (ops : list string) ce e e' :
  ce_attrs ce = [] -> lit_names ce e -> has_walrus e = false -> rewrite_captured ce e = Ok e' ->
  forall later, eval B ops later e' = eval B ops (vals ce ++ later) e.
Proof.
  intros Hattr Hln Hnw Hrw later. unfold rewrite_captured in Hrw. apply sbind_ok in Hrw. destruct Hrw as [[e1 r] [Hrw H]].
  inversion H; subst; clear H. cbn [fst].
  set (l := ce_nonlocals ce ++ ce_globals ce).
  assert (Hlv : forall x, lookup_var ce x = assoc x l).
  { intros x. unfold lookup_var, l. rewrite assoc_app. destruct (assoc x (ce_nonlocals ce)); reflexivity. }
  transitivity (eval B ops (firsts [] l ++ later) e).
  - symmetry. apply (eqv_eq B ops (firsts [] l ++ later) later).
    refine (proj1 (rw_ok2_all B ops ce Hattr (S (size e)) e (Nat.lt_succ_diag_r _) [] _ _ e' r (conj Hln Hnw) _ Hrw)).
    intros x. cbn [is_arg existsb]. rewrite EvalAgree.lookup_app, lookup_firsts, Hlv. cbn [mem existsb].
    destruct (assoc x l) as [[c|f]|]; try reflexivity. destruct (const_value c); reflexivity.
  - apply eval_agree. intros y Hy. rewrite !EvalAgree.lookup_app, lookup_firsts. cbn [mem existsb].
    unfold vals. fold l. apply occurs_names in Hy. specialize (Hln y Hy). unfold lit_at in Hln. rewrite Hlv in Hln.
    rewrite (lookup_snapshot_first y l Hln). reflexivity.
Qed.

Lemma lit_env_names ce e : lit_env ce -> lit_names ce e.
Proof.
  intros Hlit x _. unfold lit_at. destruct (lookup_var ce x) as [[c|f]|] eqn:Hl; [| |exact I].
  - eapply lit_lookup; eauto.
  - eapply lit_lookup_fun; eauto.
Qed.

(* the whole callable path on literal snapshots: freeze, then resolve the called lambdas written in the query *)
Theorem parse_callable_sem (B : backend) (ops : list string) ce e e1 e2 :
  ce_attrs ce = [] -> lit_names ce e -> has_walrus e = false -> rewrite_captured ce e = Ok e1 -> first_order e1 ->
  resolve_called e1 = Ok e2 ->
  forall later v, eval B ops (vals ce ++ later) e = Some v -> eval B ops later e2 = Some v.
Proof.
  intros Hattr Hln Hnw Hrw Hfo Hres later v Hv. unfold resolve_called in Hres. inversion Hres; subst.
  apply res_sem; [exact Hfo|]. rewrite (rw_sem B ops ce e e1 Hattr Hln Hnw Hrw later). exact Hv.
Qed.

(* a sufficient, computable condition for [first_order]: no parameter name is the callee of a call by name *)
Lemma is_callee_sub x c e : sub c e -> is_callee x c = true -> is_callee x e = true.
Proof. induction 1 as [|c0 c1 e0 Hin _ IH]; intros H; [exact H|]. eapply is_callee_child; eauto. Qed.

Lemma sub_trans a b c : sub a b -> sub b c -> sub a c.
Proof. intros Hab Hbc. induction Hbc as [|x c0 e0 Hin _ IH]; [exact Hab|]. eapply sub_step; [exact Hin | apply IH; exact Hab]. Qed.

Lemma first_order_of_no_callee e : (forall x, is_callee x e = false) -> first_order e.
Proof.
  intros H ps b args kwn kwv Hs p Hp. destruct (is_callee p b) eqn:E; [|reflexivity].
  assert (Hb : sub b e).
  { eapply sub_trans; [|exact Hs].
    eapply sub_step; [left; reflexivity|]. eapply sub_step; [left; reflexivity | apply sub_refl]. }
  pose proof (is_callee_sub p b e Hb E) as Hc. rewrite H in Hc. discriminate.
Qed.

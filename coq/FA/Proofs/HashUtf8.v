(* C20: the UTF-8 encoding of the dump text is injective (every list of numbers, code point or not), so hashing the
   encoded bytes loses nothing of the text (fix F47 replaced bytearray(map(ord, ...)) by .encode("utf-8")). *)
From Coq Require Import NArith ZArith List Bool Lia ZifyBool ZifyN.
From FA.Base Require Import Names.
From FA.Model Require Import GTree Hash.
Import ListNotations.
Local Open Scope N_scope.
Ltac Zify.zify_post_hook ::= Z.div_mod_to_equations.

Lemma cons_eq {A} (a b : A) l m : a :: l = b :: m -> a = b /\ l = m.
Proof. intros H; injection H; auto. Qed.

Lemma utf8_cp_prefix c d x y : utf8_cp c ++ x = utf8_cp d ++ y -> c = d /\ x = y.
Proof.
  unfold utf8_cp.
  destruct (c <? 128) eqn:C1; [|destruct (c <? 2048) eqn:C2; [|destruct (c <? 65536) eqn:C3]];
  (destruct (d <? 128) eqn:D1; [|destruct (d <? 2048) eqn:D2; [|destruct (d <? 65536) eqn:D3]]);
  cbn [app]; intros H;
  repeat (match goal with H : _ :: _ = _ :: _ |- _ => apply cons_eq in H; let h := fresh "E" in destruct H as [h H] end);
  try (exfalso; lia); (split; [lia | assumption]).
Qed.

Lemma utf8_cp_nonempty c : utf8_cp c <> [].
Proof. unfold utf8_cp. destruct (c <? 128); [discriminate|]. destruct (c <? 2048); [discriminate|]. destruct (c <? 65536); discriminate. Qed.

Lemma utf8_inj : forall t u, utf8 t = utf8 u -> t = u.
Proof.
  induction t as [|c t IH]; intros [|d u] H; cbn [utf8 flat_map] in H.
  - reflexivity.
  - exfalso. destruct (utf8_cp d) eqn:E; [exact (utf8_cp_nonempty d E) | discriminate H].
  - exfalso. destruct (utf8_cp c) eqn:E; [exact (utf8_cp_nonempty c E) | discriminate H].
  - apply utf8_cp_prefix in H. destruct H as [-> H]. f_equal. apply IH. exact H.
Qed.

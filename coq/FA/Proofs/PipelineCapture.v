(* C01: the capture hypothesis discharged where C04's theorem reaches - callables whose captured variables are plain
   literals (int / bool / str / None; no helper functions, no attribute table) and whose bodies are in the first-order
   fragment [fragc] of Proofs/CaptureSem.v - and the chain theorem for untyped chains that mix such callables with
   string / ast lambdas.

   parse_callable = resolve_called o rewrite_captured.  On the fragment, rewriting the body with the parameter on the
   ignore stack is the substitution [res (cstack ce [[p]])] (CaptureSem.rw_ok_all); [sem_engine] then gives the value
   under the parameter alone, and a second application of [sem_engine] (empty argument maps, the parameter shadowed)
   carries it through _resolve_called_lambdas. *)
From FA.Base Require Import PyAst Induct Value Eval Traverse.
From FA.Model Require Import TypeDefs Pipeline.
From FA.Model Require Capture Sugar TypeFollow.
From FA.Proofs Require Import TraverseFacts Refine CaptureProofs CaptureSem SugarSem TypeFollowUntyped
  PipelineFacts PipelineSem.

(* ---------- substituting constants keeps a term in the fragment of the inlining engine ---------- *)

Lemma res_cstack_fragr ce :
  (forall e, fragc e -> forall st, fragr true (Capture.res (cstack ce st) e)) /\
  (forall l, fragcs l -> forall st, fragrs true (map (Capture.res (cstack ce st)) l)).
Proof.
  apply fragc_mutind.
  - (* Name *)
    intros x st. cbn [Capture.res].
    destruct (Capture.lookup_st x (cstack ce st)) as [[a|]|] eqn:H; try constructor.
    rewrite lookup_cstack in H. destruct (Capture.is_arg st x); [discriminate|].
    destruct (Capture.lookup_var ce x) as [[c|l]|]; inversion H; constructor.
  - intros c _ st. constructor.
  - intros v a _ IH st. cbn [Capture.res]. constructor. apply IH.
  - intros o x _ IH st. cbn [Capture.res]. constructor. apply IH.
  - intros o l r _ IHl _ IHr st. cbn [Capture.res]. constructor; [apply IHl | apply IHr].
  - intros c t f _ IHc _ IHt _ IHf st. cbn [Capture.res]. constructor; [apply IHc | apply IHt | apply IHf].
  - intros v s _ IHv _ IHs st. cbn [Capture.res]. constructor; [apply IHv | apply IHs].
  - intros es _ IH st. cbn [Capture.res]. constructor. apply IH.
  - intros es _ IH st. cbn [Capture.res]. constructor. apply IH.
  - intros s m _ IH st. cbn [Capture.res map]. constructor. apply IH.
  - intros s m x b _ IHs _ IHb st. cbn [Capture.res map].
    change (Capture.shadow [x] :: cstack ce st) with (cstack ce ([x] :: st)).
    constructor; [apply IHs | apply IHb].
  - intros x it elt _ IHit _ IHelt st.
    cbn [Capture.res Capture.res_gens Capture.comp_targets Capture.names_in app map].
    change (Capture.shadow [x] :: cstack ce st) with (cstack ce ([x] :: st)).
    constructor; [apply IHit | apply IHelt].
  - intros st. constructor.
  - intros a l _ IHa _ IHl st. cbn [map]. constructor; [apply IHa | apply IHl].
Qed.

Lemma snapshot_env_vals l : snapshot_env l = snapshot_vals l.
Proof.
  induction l as [|[x [c|f]] l IH]; cbn [snapshot_env snapshot_vals flat_map fst snd]; [reflexivity| |exact IH].
  destruct (const_value c); cbn [app]; rewrite IH; reflexivity.
Qed.

Lemma captured_vals ce : captured (AcqCallable ce) = vals ce.
Proof. apply snapshot_env_vals. Qed.

Lemma lookup_vals ce x : lit_env ce ->
  lookup x (vals ce) = match Capture.lookup_var ce x with Some (Capture.CVal c) => const_value c | _ => None end.
Proof.
  intros Hlit.
  assert (Hall : Forall lit_entry (Capture.ce_nonlocals ce ++ Capture.ce_globals ce)).
  { destruct Hlit as (H1 & H2 & _). apply Forall_app; split; assumption. }
  unfold vals. rewrite (lookup_snapshot x _ Hall), assoc_app. unfold Capture.lookup_var.
  destruct (Capture.assoc x (Capture.ce_nonlocals ce)) as [[c|l]|]; reflexivity.
Qed.

Section LitCapture.
  Variable B : backend.
  Variable ops : list string.
  Notation ev := (eval B ops).

  Lemma closed_cstack ce st : closed_st (cstack ce st).
  Proof.
    intros y a H. rewrite lookup_cstack in H. destruct (Capture.is_arg st y); [discriminate|].
    destruct (Capture.lookup_var ce y) as [[c|l]|]; inversion H; eauto.
  Qed.

  Lemma closed_shadow1 p : closed_st [Capture.shadow [p]].
  Proof. apply closed_shadow. intros y a H. discriminate. Qed.

  Lemma Rr_shadow_refl p E : Rr B ops [Capture.shadow [p]] E E.
  Proof.
    intros x. destruct (Capture.lookup_st x [Capture.shadow [p]]) as [[a|]|] eqn:H; try reflexivity.
    destruct (closed_shadow1 p _ _ H) as [c ->]. cbn [Capture.lookup_st] in H. rewrite assoc_shadow in H.
    destruct (existsb (String.eqb x) [p]); discriminate.
  Qed.

  (* capture_sound, restricted to literal snapshots and the first-order fragment *)
  Theorem capture_sound_lit ce p b b0 :
    lit_env ce -> fragc b ->
    Capture.parse_callable ce (Lambda [p] b) = Capture.Ok (Lambda [p] b0) ->
    forall v, refines (ev ((p, v) :: captured (AcqCallable ce)) b) (ev [(p, v)] b0).
  Proof.
    intros Hlit Hf Hp v.
    unfold Capture.parse_callable, Capture.rewrite_captured in Hp. cbn [Capture.rw Capture.same] in Hp.
    rewrite (fragc_no_assigned b Hf) in Hp. cbn [app] in Hp.     (* F42: the fragment has no assignment expressions *)
    destruct (proj1 (rw_ok_all ce Hlit) b Hf [[p]]) as (r & Hr & _). rewrite Hr in Hp.
    cbn [Capture.sbind fst Capture.resolve_called Capture.res] in Hp. inversion Hp; subst b0. clear Hp.
    rewrite captured_vals.
    eapply refines_trans.
    - (* freezing the captured values *)
      apply (proj1 (sem_engine B ops) true b (proj1 fragc_fragr b Hf) (cstack ce [[p]]) ((p, v) :: vals ce) [(p, v)]).
      + intros _. apply closed_cstack.
      + intros x. rewrite lookup_cstack. cbn [Capture.is_arg existsb lookup].
        destruct (String.eqb x p) eqn:Exp; cbn [orb]; [reflexivity|].
        pose proof (lookup_vals ce x Hlit) as Hv.
        destruct (Capture.lookup_var ce x) as [[c|l]|] eqn:Hl.
        * intros w Hw. cbn [eval]. rewrite Hv in Hw. exact Hw.
        * exfalso. eapply lit_lookup_fun; eassumption.
        * rewrite Hv. reflexivity.
    - (* _resolve_called_lambdas on the rewritten body: nothing to inline, the parameter shadowed *)
      apply (proj1 (sem_engine B ops) true _ (proj1 (res_cstack_fragr ce) b Hf [[p]]) [Capture.shadow [p]] [(p, v)] [(p, v)]).
      + intros _. apply closed_shadow1.
      + apply Rr_shadow_refl.
  Qed.
End LitCapture.

(* ---------- untyped chains mixing such callables with string / ast lambdas ---------- *)

Definition acquire_lit (a : acquire) (b : expr) : Prop :=
  match a with
  | AcqAsIs => True
  | AcqCallable ce => lit_env ce /\ fragc b
  end.

(* along the chain: every lambda is acquired soundly by the above, and what reaches the type follower (the acquired
   and lowered body) is in the grammar of C10 for the item type the model computes *)
Inductive lit_chain (W : world) : ty -> chain -> Prop :=
 | LC_nil item : lit_chain W item []
 | LC_cons item s rest p b :
     st_src s = Lambda [p] b ->
     acquire_lit (st_acq s) b ->
     (forall b0 b1, acquire_lambda (st_acq s) (Lambda [p] b) = Capture.Ok (Lambda [p] b0) ->
                    Sugar.sugar b0 = Sugar.Ok b1 ->
        expr_grammar W [(p, item)] b1 = true /\
        forall lam t evs, TypeFollow.stream_op W (st_op s) [] item (Lambda [p] b1) = TypeFollow.Ok (lam, t, evs) ->
                          lit_chain W t rest) ->
     lit_chain W item (s :: rest).

Section LitChain.
  Variable B : backend.
  Variable ops : list string.
  Variable W : world.
  Hypothesis Hsel : is_op ops "Select" = true.
  Hypothesis Hwh : is_op ops "Where" = true.
  Hypothesis Hmd : md_identity B.
  Hypothesis Hft : ft_plain (w_ft W).
  Notation ev := (eval B ops).

  Lemma acquire_sound_lit s p b : st_src s = Lambda [p] b -> acquire_lit (st_acq s) b -> acquire_sound B ops s.
  Proof.
    intros Hsrc Hl. destruct (st_acq s) as [ce|] eqn:Ha; [|apply acquire_sound_asis; exact Ha].
    destruct Hl as [Hlit Hf]. intros p' b' b0 Hsrc' H v. rewrite Hsrc in Hsrc'. inversion Hsrc'; subst p' b'.
    rewrite Ha in *. cbn [acquire_lambda] in H. exact (capture_sound_lit B ops ce p b b0 Hlit Hf H v).
  Qed.

  Theorem lit_chain_sound :
    forall ch k q item q' t' l r,
      simple item -> lit_chain W item ch ->
      build_from W k (q, item) ch = POk (q', t') ->
      ev [] q = Some (VList l) -> direct B ops ch l = Some r -> ev [] q' = Some (VList r).
  Proof.
    induction ch as [|s rest IH]; intros k q item q' t' l r Hitem Hc Hb Hq Hd.
    - cbn in Hb, Hd. inversion Hb; inversion Hd; subst. exact Hq.
    - cbn [build_from] in Hb. destruct (step W k (q, item) s) as [[q1 t1]|] eqn:Hstep; [|discriminate].
      cbn [pbind] in Hb. cbn [direct] in Hd. destruct (run_stage B ops s l) as [l1|] eqn:Hrun; [|discriminate].
      inversion Hc as [|? ? ? p b Hsrc Hacq Hnext]; subst.
      destruct (step_inv W k q item s q1 t1 p b Hsrc Hstep) as (Hop & b0 & b1 & b2 & evs & Ha & Hs & Hf & ->).
      destruct (Hnext b0 b1 Ha Hs) as [Hg Hrest].
      destruct (plain_stream_op W _ item p b1 _ _ _ Hft Hitem Hg Hf) as (Hlam & -> & Ht1).
      eapply IH; [exact Ht1 | exact (Hrest _ _ _ Hf) | exact Hb | | exact Hd].
      eapply (step_sound B ops W Hsel Hwh Hmd); try eassumption.
      + eapply acquire_sound_lit; eassumption.
      + intros p' b' b0' b1' Hsrc' Ha' Hs'. rewrite Hsrc in Hsrc'. inversion Hsrc'; subst p' b'.
        destruct (Hnext b0' b1' Ha' Hs') as [Hg' _].
        intros b2' t2 evs2 Hf2.
        destruct (plain_stream_op W _ item p b1' _ _ _ Hft Hitem Hg' Hf2) as (Hl2 & -> & _).
        inversion Hl2; subst b2'. split; [intros v; apply refines_refl | constructor].
  Qed.
End LitChain.

Theorem captured_literals_chain_means_direct_x (B : backend) (ops : list string) (W : world) :
  is_op ops "Select" = true -> is_op ops "Where" = true ->
  md_identity B -> terminals_ok B -> ft_plain (w_ft W) ->
  forall ch term q data r,
    dataset B data ->
    lit_chain W TAny ch ->
    query W TAny ch term = POk q ->
    direct B ops ch data = Some r ->
    eval B ops [] q = Some (VList r).
Proof.
  intros Hsel Hwh Hmd Ht Hft ch term q data r Hds Hc Hq Hd.
  eapply (query_sound B ops W Hmd); [exact Ht | exact Hq|].
  intros q0 t0 Hb. unfold build in Hb.
  apply (lit_chain_sound B ops W Hsel Hwh Hmd Hft ch 0 root TAny q0 t0 data r);
    [reflexivity | exact Hc | exact Hb | apply eval_root; exact Hds | exact Hd].
Qed.

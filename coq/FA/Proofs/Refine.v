(* One-directional refinement of option-valued computations:
   [refines o o'] = "whenever o succeeds with v, so does o' with the same v".
   This is the shape of every semantic property ("whenever the original evaluates without
   error, the rewritten query evaluates to the same value"). *)
From FA.Base Require Import PyAst Value Eval.
From FA.Proofs Require Import TraverseFacts.

Definition refines {A} (o o' : option A) : Prop := forall v, o = Some v -> o' = Some v.
Definition frefines {A B} (f f' : A -> option B) : Prop := forall x, refines (f x) (f' x).
Definition f2refines {A B C} (f f' : A -> B -> option C) : Prop := forall x y, refines (f x y) (f' x y).

Definition orefines1 {A B} (o o' : option (A -> option B)) : Prop :=
  forall f, o = Some f -> exists f', o' = Some f' /\ frefines f f'.
Definition orefines2 {A B C} (o o' : option (A -> B -> option C)) : Prop :=
  forall f, o = Some f -> exists f', o' = Some f' /\ f2refines f f'.

Definition aview_refines (a a' : aview) : Prop :=
  refines (av_val a) (av_val a') /\ orefines1 (av_f1 a) (av_f1 a') /\ orefines2 (av_f2 a) (av_f2 a').

Lemma refines_refl {A} (o : option A) : refines o o.
Proof. intros v H; exact H. Qed.

Lemma refines_trans {A} (a b c : option A) : refines a b -> refines b c -> refines a c.
Proof. intros H1 H2 v H; auto. Qed.

Lemma refines_none {A} (o : option A) : refines None o.
Proof. intros v H; discriminate. Qed.

Lemma refines_eq {A} (o o' : option A) : o = o' -> refines o o'.
Proof. intros ->; apply refines_refl. Qed.

Lemma obind_refines {A B} (o o' : option A) (f f' : A -> option B) :
  refines o o' -> frefines f f' -> refines (obind o f) (obind o' f').
Proof.
  intros Ho Hf v H. apply obind_some in H. destruct H as [a [Ha Hfa]].
  rewrite (Ho _ Ha). simpl. apply Hf; assumption.
Qed.

Lemma obind_refines_l {A B} (o o' : option A) (f : A -> option B) :
  refines o o' -> refines (obind o f) (obind o' f).
Proof. intros Ho; apply obind_refines; [assumption | intros x; apply refines_refl]. Qed.

Lemma obind_refines_r {A B} (o : option A) (f f' : A -> option B) :
  frefines f f' -> refines (obind o f) (obind o f').
Proof. intros Hf; apply obind_refines; [apply refines_refl | assumption]. Qed.

Lemma option_map_refines {A B} (g : A -> B) (o o' : option A) :
  refines o o' -> refines (option_map g o) (option_map g o').
Proof. intros Ho v H. destruct o; [|discriminate]. rewrite (Ho _ eq_refl). exact H. Qed.

Lemma sequence_refines {A} (l l' : list (option A)) :
  Forall2 refines l l' -> refines (sequence l) (sequence l').
Proof.
  induction 1 as [|x y l l' Hxy _ IH]; [apply refines_refl|].
  simpl. apply obind_refines; [assumption|]. intros a.
  apply obind_refines; [assumption|]. intros r; apply refines_refl.
Qed.

Lemma omap_refines2 {A B} (f f' : A -> option B) (l l' : list A) :
  Forall2 (fun a a' => refines (f a) (f' a')) l l' -> refines (omap f l) (omap f' l').
Proof.
  intros H. unfold omap. apply sequence_refines.
  induction H; constructor; assumption.
Qed.

Lemma omap_refines {A B} (f f' : A -> option B) (l : list A) :
  frefines f f' -> refines (omap f l) (omap f' l).
Proof.
  intros H. apply omap_refines2. induction l; constructor; auto.
Qed.

Lemma ofilter_refines {A} (p p' : A -> option bool) (l : list A) :
  frefines p p' -> refines (ofilter p l) (ofilter p' l).
Proof.
  intros H. induction l as [|x xs IH]; [apply refines_refl|].
  simpl. apply obind_refines; [apply H|]. intros b.
  apply obind_refines; [assumption|]. intros r; apply refines_refl.
Qed.

Lemma ofold_refines {A B} (f f' : A -> B -> option A) (l : list B) :
  f2refines f f' -> forall a, refines (ofold f l a) (ofold f' l a).
Proof.
  intros H. induction l as [|x xs IH]; intros a; [apply refines_refl|].
  simpl. apply obind_refines; [apply H|]. intros a'; apply IH.
Qed.

(* ---------- operators respect refinement of receiver and argument views ---------- *)

Section ApplyOp.
  Variable B : backend.

  Lemma aviews_vals l l' :
    Forall2 aview_refines l l' -> refines (sequence (map av_val l)) (sequence (map av_val l')).
  Proof.
    intros H. apply sequence_refines. induction H as [|a a' l l' [Hv _] _ IH]; constructor; assumption.
  Qed.

  Lemma apply_op_refines op recv recv' args args' :
    refines recv recv' -> Forall2 aview_refines args args' ->
    refines (apply_op B op recv args) (apply_op B op recv' args').
  Proof.
    intros Hr Ha. unfold apply_op.
    repeat match goal with
           | |- refines (if ?c then _ else _) (if ?c then _ else _) => destruct c
           end.
    - (* Select *)
      inversion Ha as [|a a' l l' Haa Hl]; subst; [apply refines_refl|].
      inversion Hl; subst; [|apply refines_none].
      apply obind_refines; [assumption|]. intros s. apply obind_refines_r. intros ls.
      destruct Haa as (_ & H1 & _). intros v Hv.
      apply obind_some in Hv. destruct Hv as [f [Hf Hv]].
      destruct (H1 _ Hf) as [f' [Hf' Hff]]. rewrite Hf'. simpl.
      revert v Hv. apply option_map_refines. apply omap_refines. assumption.
    - (* Where *)
      inversion Ha as [|a a' l l' Haa Hl]; subst; [apply refines_refl|].
      inversion Hl; subst; [|apply refines_none].
      apply obind_refines; [assumption|]. intros s. apply obind_refines_r. intros ls.
      destruct Haa as (_ & H1 & _). intros v Hv.
      apply obind_some in Hv. destruct Hv as [f [Hf Hv]].
      destruct (H1 _ Hf) as [f' [Hf' Hff]]. rewrite Hf'. simpl.
      revert v Hv. apply option_map_refines. apply ofilter_refines.
      intros x. apply option_map_refines. apply Hff.
    - (* SelectMany *)
      inversion Ha as [|a a' l l' Haa Hl]; subst; [apply refines_refl|].
      inversion Hl; subst; [|apply refines_none].
      apply obind_refines; [assumption|]. intros s. apply obind_refines_r. intros ls.
      destruct Haa as (_ & H1 & _). intros v Hv.
      apply obind_some in Hv. destruct Hv as [f [Hf Hv]].
      destruct (H1 _ Hf) as [f' [Hf' Hff]]. rewrite Hf'. simpl.
      revert v Hv. apply obind_refines_l. apply omap_refines.
      intros x. apply obind_refines_l. apply Hff.
    - (* First *)
      inversion Ha; subst; [|apply refines_none].
      apply obind_refines_l; assumption.
    - (* Count / len *)
      inversion Ha; subst; [|apply refines_none].
      apply obind_refines_l; assumption.
    - (* Sum *)
      inversion Ha; subst; [|apply refines_none].
      apply obind_refines_l; assumption.
    - (* Max *)
      inversion Ha; subst; [|apply refines_none].
      apply obind_refines_l; assumption.
    - (* Min *)
      inversion Ha; subst; [|apply refines_none].
      apply obind_refines_l; assumption.
    - (* Aggregate *)
      inversion Ha as [|a a' l l' Haa Hl]; subst; [apply refines_refl|].
      inversion Hl as [|g g' l2 l2' Hgg Hl2]; subst; [apply refines_none|].
      inversion Hl2; subst; [|apply refines_none].
      apply obind_refines; [assumption|]. intros s. apply obind_refines_r. intros ls.
      destruct Haa as (Hav & _ & _). apply obind_refines; [assumption|]. intros a0.
      destruct Hgg as (_ & _ & H2). intros v Hv.
      apply obind_some in Hv. destruct Hv as [f [Hf Hv]].
      destruct (H2 _ Hf) as [f' [Hf' Hff]]. rewrite Hf'. simpl.
      revert v Hv. apply ofold_refines. assumption.
    - (* backend-defined operator *)
      apply obind_refines; [assumption|]. intros s.
      apply obind_refines_l. apply aviews_vals. assumption.
  Qed.
End ApplyOp.

(* C15: queries without wrappers are untouched by both functions; and the output of extract_metadata
   contains no MetaData name-call - as long as the name MetaData is only ever used as a callee. *)
From FA.Base Require Import PyAst Induct Value Traverse.
From FA.Model Require Import ExtCalls MetaData.
From FA.Proofs Require Import TraverseFacts Refine EvalCong TraverseTFacts MetaDataProofs MetaDataRemove.
From Coq Require Import Lia.

(* no name-call of MetaData anywhere *)
Inductive md_free : expr -> Prop :=
 | MF e : is_md_call e = false -> Forall md_free (children e) -> md_free e.

Lemma map_fst_pair {A} (l : list expr) : map fst (map (fun c => (c, @nil A)) l) = l.
Proof. induction l; simpl; congruence. Qed.

Lemma concat_snd_pair {A} (l : list expr) : concat (map snd (map (fun c => (c, @nil A)) l)) = [].
Proof. induction l; simpl; auto. Qed.

Theorem extract_md_free : forall e, md_free e -> extract e = Some (e, []).
Proof.
  induction e as [e IH] using expr_size_ind. intros Hf. inversion Hf as [e0 Hm Hc]; subst.
  apply extract_generic_some; [assumption|].
  exists (map (fun c => (c, [])) (children e)). split; [|split].
  - apply omap_of_Forall2. rewrite Forall_forall in Hc.
    assert (H : forall l, (forall c, In c l -> In c (children e)) ->
                          Forall2 (fun x y => extract x = Some y) l (map (fun c => (c, [])) l)).
    { induction l as [|c l IHl]; intros Hsub; simpl; constructor.
      - apply IH; [apply size_child; apply Hsub; left; reflexivity | apply Hc; apply Hsub; left; reflexivity].
      - apply IHl. intros c0 H0. apply Hsub. right; assumption. }
    apply H. auto.
  - rewrite map_fst_pair, rebuild_children. reflexivity.
  - rewrite concat_snd_pair. reflexivity.
Qed.

Lemma is_md2_md_call e : is_md_call e = false -> is_md2 e = false.
Proof.
  intros H. destruct e; try reflexivity. destruct e; try reflexivity.
  destruct args as [|? [|? [|? ?]]]; try reflexivity. exact H.
Qed.

Theorem remove_md_free : forall e, md_free e -> remove_empty e = Some e.
Proof.
  induction e as [e IH] using expr_size_ind. intros Hf. inversion Hf as [e0 Hm Hc]; subst.
  apply remove_some. exists (children e). split.
  - apply omap_fixed. rewrite Forall_forall in *. intros c Hin. apply IH; [apply size_child; assumption | auto].
  - rewrite rebuild_children. apply clean_call_not_md2. apply is_md2_md_call. assumption.
Qed.

(* ---------- the name MetaData is only used as a callee ---------- *)

Definition value_ok (e : expr) : bool :=
  match e with Name n => negb (String.eqb n md_name) | _ => true end.

Fixpoint md_callee_only_b (e : expr) : bool :=
  match e with
  | Call f args _ kwv =>
      md_callee_only_b f
      && forallb (fun c => value_ok c && md_callee_only_b c) args
      && forallb (fun c => value_ok c && md_callee_only_b c) kwv
  | _ => all_children (fun c => value_ok c && md_callee_only_b c) e
  end.

Definition md_callee_only (e : expr) : Prop := md_callee_only_b e = true.

Lemma all_children_forallb' p e : all_children p e = forallb p (children e).
Proof.
  destruct e; cbn [all_children children forallb]; rewrite ?forallb_app, ?andb_true_r, ?andb_assoc; reflexivity.
Qed.

Lemma forallb_and_r (p q : expr -> bool) l :
  forallb (fun c => p c && q c) l = true -> Forall (fun c => q c = true) l.
Proof.
  intros H. apply Forall_forall. intros c Hin. rewrite forallb_forall in H.
  specialize (H c Hin). apply andb_true_iff in H. tauto.
Qed.

Lemma mco_children e : md_callee_only_b e = true -> Forall (fun c => md_callee_only_b c = true) (children e).
Proof.
  intros H. destruct e;
    try (cbn [md_callee_only_b] in H; rewrite all_children_forallb' in H; eapply forallb_and_r; exact H).
  cbn [md_callee_only_b] in H. apply andb_true_iff in H. destruct H as [H Hk].
  apply andb_true_iff in H. destruct H as [Hf Ha]. cbn [children].
  constructor; [assumption|]. apply Forall_app. split; eapply forallb_and_r; eassumption.
Qed.

Lemma rebuild_name' e cs fn : rebuild e cs = Name fn -> e = Name fn.
Proof.
  destruct e; simpl; intros H; try discriminate; try assumption;
    destruct cs as [|? [|? [|? [|? ?]]]]; discriminate.
Qed.

Lemma mco_wrapper_src src d rest kwn kwv :
  md_callee_only_b (Call (Name md_name) (src :: d :: rest) kwn kwv) = true ->
  value_ok src = true /\ md_callee_only_b src = true.
Proof.
  cbn [md_callee_only_b forallb]. intros H.
  apply andb_true_iff in H. destruct H as [H _]. apply andb_true_iff in H. destruct H as [_ H].
  apply andb_true_iff in H. destruct H as [H _]. apply andb_true_iff in H. exact H.
Qed.

Lemma unwrap_name : forall e, md_callee_only_b e = true -> unwrap_spec e (Name md_name) -> e = Name md_name.
Proof.
  induction e as [e IH] using expr_size_ind. intros Hm Hu.
  remember (Name md_name) as t eqn:Ht. destruct Hu as [src d rest kwn kwv src' Hs | e cs' Hn HF].
  - subst src'. apply mco_wrapper_src in Hm. destruct Hm as [Hv Hs'].
    assert (src = Name md_name).
    { apply IH; [rewrite size_call; cbn [sizes]; lia | assumption | assumption]. }
    subst src. vm_compute in Hv. discriminate.
  - apply rebuild_name' in Ht. subst e. reflexivity.
Qed.

Theorem unwrap_no_md : forall e e', md_callee_only_b e = true -> unwrap_spec e e' -> md_free e'.
Proof.
  induction e as [e IH] using expr_size_ind. intros e' Hm Hu. inversion Hu; subst.
  - apply mco_wrapper_src in Hm. destruct Hm as [_ Hs].
    eapply IH; [|exact Hs|eassumption]. rewrite size_call. cbn [sizes]. lia.
  - match goal with HF : Forall2 unwrap_spec (children e) cs' |- _ => rename HF into HF2 end.
    pose proof (Forall2_length' _ _ _ HF2) as Hlen.
    constructor.
    + destruct (is_call e) eqn:Hc.
      * destruct e; try discriminate. cbn [children] in HF2.
        inversion HF2 as [|f f' l r Hf Hr]; subst. cbn [rebuild is_md_call].
        destruct f'; try reflexivity.
        destruct (String.eqb id md_name) eqn:Hid; [|reflexivity].
        apply String.eqb_eq in Hid. subst id.
        assert (e = Name md_name).
        { apply unwrap_name; [|assumption]. apply mco_children in Hm. inversion Hm; assumption. }
        subst e. match goal with H : is_md_call _ = false |- _ => vm_compute in H; discriminate end.
      * assert (Hr : is_call (rebuild e cs') = false) by (rewrite is_call_rebuild; assumption).
        destruct (rebuild e cs'); try reflexivity; discriminate.
    + rewrite children_rebuild by assumption.
      eapply Forall2_right; [|exact HF2].
      pose proof (mco_children _ Hm) as Hch. rewrite Forall_forall in *.
      intros c Hin y Hy. apply (IH c (size_child _ _ Hin) y (Hch c Hin) Hy).
Qed.

Theorem extract_no_md : forall e e' ms, md_callee_only e -> extract e = Some (e', ms) -> md_free e'.
Proof.
  intros e e' ms Hm He. eapply unwrap_no_md; [exact Hm|]. eapply extract_only_unwraps; eassumption.
Qed.

(* Parametricity of the visitors in the node annotation: the cleaner, the literal test and the executor walk
   commute with any re-annotation of the nodes ([gmap]).  Used for "what the executor receives is
   remove_empty of the dump" (C12) and "query metadata is invisible" (C16). *)
From Coq Require Import String List Arith Bool Lia.
From FA.Gen Require Import TablesStream.
From FA.Model Require Import Heap Stream.
From FA.Proofs Require Import HeapFacts StreamFrame StreamWalk.
Import ListNotations.
Open Scope list_scope.
Open Scope nat_scope.

Section GMap.
  Context {X Y : Type} (f : X -> Y).

  Definition fmapF (fl : string * fkind * list (gtree X)) : string * fkind * list (gtree Y) :=
    (fst fl, map (gmap f) (snd fl)).

  Lemma gmap_G : forall x cls fs, gmap f (G x cls fs) = G (f x) cls (map fmapF fs).
  Proof. reflexivity. Qed.

  Lemma get_field_map : forall n (fs : list (string * fkind * list (gtree X))),
    get_field n (map fmapF fs) =
    match get_field n fs with Some (k, ks) => Some (k, map (gmap f) ks) | None => None end.
  Proof.
    intros n fs. unfold get_field. induction fs as [|[[fn k] ks] r IH]; [reflexivity|].
    cbn [map find fmapF fst snd]. destruct (String.eqb n fn); [reflexivity|exact IH].
  Qed.

  Lemma is_name_gmap : forall (t : gtree X) id, is_name (gmap f t) id = is_name t id.
  Proof.
    intros [a|x cls fs] id; [reflexivity|]. rewrite gmap_G. cbn [is_name]. rewrite get_field_map.
    destruct (get_field "id" fs) as [[k ks]|]; [|reflexivity].
    destruct k; [|reflexivity]. destruct ks as [|[a|x1 c1 f1] [|k2 r]]; reflexivity.
  Qed.

  Lemma func_is_gmap : forall (fs : list (string * fkind * list (gtree X))) id,
    func_is (map fmapF fs) id = func_is fs id.
  Proof.
    intros fs id. unfold func_is. rewrite get_field_map.
    destruct (get_field "func" fs) as [[k ks]|]; [|reflexivity].
    destruct k; [|reflexivity]. destruct ks as [|t [|k2 r]]; try reflexivity. cbn [map]. apply is_name_gmap.
  Qed.

  Lemma is_node_gmap : forall (t : gtree X), is_node (gmap f t) = is_node t.
  Proof. intros [a|x cls fs]; reflexivity. Qed.

  Lemma forallb_map_ext : forall A B (g : A -> B) (p : B -> bool) (q : A -> bool) l,
    Forall (fun x => p (g x) = q x) l -> forallb p (map g l) = forallb q l.
  Proof. intros A B g p q l H. induction H as [|x l Hx _ IH]; [reflexivity|]. cbn [map forallb]. now rewrite Hx, IH. Qed.

  Lemma lit_ok_gmap : forall (t : gtree X), lit_ok (gmap f t) = lit_ok t.
  Proof.
    induction t as [a|x cls fs IH] using gtree_ind'; [reflexivity|]. rewrite gmap_G. cbn [lit_ok].
    assert (H1 : forall sel : string -> bool,
               forallb (fun fl : string * fkind * list (gtree Y) => if sel (fst (fst fl)) then forallb lit_ok (snd fl) else true) (map fmapF fs)
               = forallb (fun fl : string * fkind * list (gtree X) => if sel (fst (fst fl)) then forallb lit_ok (snd fl) else true) fs).
    { intros sel. apply forallb_map_ext. eapply Forall_impl; [|exact IH]. intros [[fn k] ks] Hks. cbn [fmapF fst snd].
      destruct (sel fn); [|reflexivity]. apply forallb_map_ext. exact Hks. }
    rewrite !get_field_map.
    rewrite (H1 (fun n => String.eqb n "elts")), (H1 (fun n => String.eqb n "keys" || String.eqb n "values")).
    destruct (String.eqb cls "Constant"); [reflexivity|].
    destruct (String.eqb cls "Tuple" || String.eqb cls "List"); [reflexivity|].
    destruct (String.eqb cls "Dict").
    { f_equal. destruct (get_field "keys" fs) as [[[|] ks]|]; try reflexivity.
      destruct (get_field "values" fs) as [[[|] vs]|]; try reflexivity. now rewrite !map_length. }
    destruct (String.eqb cls "UnaryOp"); [|reflexivity].
    destruct (get_field "op" fs) as [[[|] [|[[s|s]|x1 c1 f1] [|o2 r]]]|]; try reflexivity.
    destruct (get_field "operand" fs) as [[[|] [|[a|x1 c1 f1] [|o2 r]]]|]; try reflexivity.
    cbn [map]. rewrite gmap_G. rewrite get_field_map.
    destruct (get_field "value" f1) as [[[|] [|[a|x2 c2 f2] [|o2 r]]]|]; reflexivity.
  Qed.

  Lemma lit_class_gmap : forall (t : gtree X), lit_class (gmap f t) = lit_class t.
  Proof.
    intros t. destruct t as [a|x cls fs]; [reflexivity|].
    unfold lit_class. rewrite (lit_ok_gmap (G x cls fs)). rewrite gmap_G. rewrite !get_field_map.
    destruct (String.eqb cls "Dict"); [|reflexivity].
    destruct (get_field "keys" fs) as [[[|] [|k1 ks]]|]; try reflexivity.
    destruct (get_field "values" fs) as [[[|] [|v1 vs]]|]; reflexivity.
  Qed.

  Lemma md_wrapper_gmap : forall (fs : list (string * fkind * list (gtree X))),
    md_wrapper (map fmapF fs) =
    match md_wrapper fs with Some (a0, a1) => Some (gmap f a0, gmap f a1) | None => None end.
  Proof.
    intros fs. unfold md_wrapper. rewrite func_is_gmap, get_field_map.
    destruct (func_is fs "MetaData"); [|reflexivity].
    destruct (get_field "args" fs) as [[[|] [|a0 [|a1 [|a2 r]]]]|]; reflexivity.
  Qed.

  Definition res_map {A B} (g : A -> B) (r : res A) : res B := match r with Ok a => Ok (g a) | Err e => Err e end.

  Lemma seq_res_map : forall A B A' B' (c : A -> res B) (c' : A' -> res B') (g : A -> A') (g' : B -> B') l,
    Forall (fun x => c' (g x) = res_map g' (c x)) l ->
    seq_res (map c' (map g l)) = res_map (map g') (seq_res (map c l)).
  Proof.
    intros A B A' B' c c' g g' l H. induction H as [|x l Hx _ IH]; [reflexivity|].
    cbn [map seq_res]. rewrite Hx. destruct (c x) as [y|e]; [|reflexivity]. cbn [res_map].
    rewrite IH. destruct (seq_res (map c l)); reflexivity.
  Qed.

  (* the cleaner does not look at annotations *)
  Lemma clean_gmap : forall (t : gtree X), clean (gmap f t) = res_map (gmap f) (clean t).
  Proof.
    induction t as [a|x cls fs IH] using gtree_ind'; [reflexivity|]. rewrite gmap_G. cbn [clean].
    rewrite (seq_res_map _ _ _ _
               (fun fl : string * fkind * list (gtree X) =>
                  match seq_res (map clean (snd fl)) with Ok ks => Ok (fst fl, ks) | Err e => Err e end)
               _ fmapF fmapF).
    2:{ eapply Forall_impl; [|exact IH]. intros [[fn k] ks] Hks. cbn [fmapF fst snd].
        rewrite (seq_res_map _ _ _ _ clean clean (gmap f) (gmap f) ks Hks).
        destruct (seq_res (map clean ks)); reflexivity. }
    destruct (seq_res (map _ fs)) as [fs'|e]; [|reflexivity]. cbn [res_map].
    destruct (String.eqb cls "Call"); [|reflexivity].
    rewrite md_wrapper_gmap. destruct (md_wrapper fs') as [[a0 a1]|]; [|reflexivity].
    rewrite lit_class_gmap. destruct (lit_class a1); reflexivity.
  Qed.
End GMap.

Lemma gmap_gmap : forall X Y Z (f : X -> Y) (g : Y -> Z) (t : gtree X), gmap g (gmap f t) = gmap (fun x => g (f x)) t.
Proof.
  intros X Y Z f g. induction t as [a|x cls fs IH] using gtree_ind'; [reflexivity|].
  cbn [gmap]. f_equal. rewrite map_map. apply map_ext_in. intros [[fn k] ks] Hin. cbn [fst snd]. f_equal.
  rewrite map_map. apply map_ext_in. intros t Ht. rewrite Forall_forall in IH. specialize (IH _ Hin). cbn [snd] in IH.
  rewrite Forall_forall in IH. now apply IH.
Qed.

Lemma erase_gmap : forall X Y (f : X -> Y) (t : gtree X), erase (gmap f t) = erase t.
Proof. intros. unfold erase. now rewrite gmap_gmap. Qed.

(* remove_empty on the dump = dump of remove_empty on the annotated tree *)
Lemma clean_erase : forall X (t : gtree X), clean (erase t) = res_map erase (clean t).
Proof. intros. unfold erase. apply clean_gmap. Qed.

(* ---------------------------------------------------------------- forgetting the query metadata *)
Definition strip_attrs (a : attrs) : attrs := filter (fun kv => negb (String.eqb (fst kv) "_q_metadata")) a.
Definition strip (t : atree) : atree := gmap strip_attrs t.

Lemma erase_strip : forall t, erase (strip t) = erase t.
Proof. intros. apply erase_gmap. Qed.

Lemma strip_attrs_set : forall v a, strip_attrs (assoc_set "_q_metadata" v a) = strip_attrs a.
Proof.
  intros v a. induction a as [|[k w] r IH]; [reflexivity|]. cbn [assoc_set].
  destruct (String.eqb "_q_metadata" k) eqn:E.
  - apply String.eqb_eq in E. subst k. reflexivity.
  - unfold strip_attrs in *. cbn [filter fst]. rewrite IH. reflexivity.
Qed.

Lemma assoc_strip : forall k (a : attrs), String.eqb k "_q_metadata" = false -> assoc k (strip_attrs a) = assoc k a.
Proof.
  intros k a Hk. induction a as [|[k' w] r IH]; [reflexivity|]. unfold strip_attrs in *. cbn [filter fst assoc].
  destruct (String.eqb k' "_q_metadata") eqn:E; cbn [negb].
  - apply String.eqb_eq in E. subst k'. rewrite Hk. exact IH.
  - cbn [assoc]. now rewrite IH.
Qed.

Lemma exec_of_strip : forall a, exec_of (strip_attrs a) = exec_of a.
Proof. intros a. unfold exec_of. rewrite assoc_strip; reflexivity. Qed.

Lemma exec_walk_strip : forall t, exec_walk (strip t) = exec_walk t.
Proof.
  induction t as [a|x cls fs IH] using gtree_ind'; [reflexivity|].
  unfold strip. rewrite gmap_G. cbn [exec_walk]. rewrite exec_of_strip. destruct (exec_of x); [reflexivity|].
  induction fs as [|[[fn k] ks] r IHr]; [reflexivity|].
  inversion IH as [|? ? Hks Hr]; subst. cbn [map fmapF fst snd].
  destruct (String.eqb "args" fn).
  - destruct k; [reflexivity|]. destruct ks as [|kid kr]; [reflexivity|]. cbn [map]. inversion Hks; subst. assumption.
  - apply IHr. exact Hr.
Qed.

Lemma eds_of_strip : forall a, assoc "_eds_object" (strip_attrs a) = assoc "_eds_object" a.
Proof. intros. apply assoc_strip. reflexivity. Qed.

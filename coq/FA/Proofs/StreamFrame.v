(* C11: the frame invariant of the stream state machine.  Every step only EXTENDS the heap of node objects
   (it writes no field and no attribute of an object allocated by an earlier step) and only APPENDS to the
   stream table; the unfolding of an old object depends on older objects only.  Hence every observation
   of an existing stream is unchanged by any later operation. *)
From Coq Require Import String List Arith Bool Lia.
From FA.Gen Require Import TablesStream.
From FA.Model Require Import Heap Stream.
From FA.Proofs Require Import HeapFacts.
Import ListNotations.
Open Scope list_scope.
Open Scope nat_scope.

Definition wf (st : state) : Prop := Forall (fun s => root s < length (heap_ st)) (streams st).

Definition state_ext (st st' : state) : Prop :=
  heap_ext (heap_ st) (heap_ st') /\ (exists new, streams st' = streams st ++ new).

Lemma state_ext_refl : forall st, state_ext st st.
Proof. intros st. split; [apply heap_ext_refl|]. exists []. now rewrite app_nil_r. Qed.

Lemma state_ext_trans : forall a b c, state_ext a b -> state_ext b c -> state_ext a c.
Proof.
  intros a b c [H1 [n1 S1]] [H2 [n2 S2]]. split; [eapply heap_ext_trans; eassumption|].
  exists (n1 ++ n2). rewrite S2, S1. now rewrite app_assoc.
Qed.

Lemma wf_init : wf init.
Proof. constructor. Qed.

Lemma wf_rs_ok : forall st, wf st -> rs_ok (map root (streams st)) (heap_ st).
Proof.
  intros st H. unfold rs_ok, wf in *. rewrite Forall_forall in *. intros r Hr.
  apply in_map_iff in Hr. destruct Hr as [s [<- Hs]]. now apply H.
Qed.

Lemma wf_nth : forall st s ps, wf st -> nth_error (streams st) s = Some ps -> root ps < length (heap_ st).
Proof. intros st s ps H E. unfold wf in H. rewrite Forall_forall in H. apply H. eapply nth_error_In; eassumption. Qed.

Lemma add_stream_frame : forall st h s n st' o,
  wf st -> heap_ext (heap_ st) h -> root s < length h ->
  add_stream st h s n = (st', o) -> state_ext st st' /\ wf st'.
Proof.
  intros st h s n st' o Hwf Hx Hr H. unfold add_stream in H. inversion H; subst st' o; clear H.
  split.
  - split; [exact Hx|]. now exists [s].
  - unfold wf. cbn [streams heap_]. apply Forall_app. split.
    + eapply Forall_impl; [|exact Hwf]. intros x Hxr. cbn beta in Hxr.
      apply heap_ext_length in Hx. lia.
    + constructor; [exact Hr|constructor].
Qed.

(* remove_empty_metadata leaves every object that existed before the call exactly as it was *)
Lemma remove_empty_h_ext : forall h a h' v, remove_empty_h h a = Ok (h', v) -> heap_ext h h'.
Proof.
  intros h a h' v H. unfold remove_empty_h in H.
  destruct (unfold h a) as [t|]; [|discriminate].
  destruct (clean t) as [t'|e]; [|discriminate].
  apply alloc_spec in H; [tauto|constructor].
Qed.

Theorem remove_preserves_input : forall h a h' v, remove_empty_h h a = Ok (h', v) ->
  forall b, b < length h -> hget h' b = hget h b /\ unfold h' b = unfold h b /\ abs h' b = abs h b.
Proof.
  intros h a h' v H b Hb. apply remove_empty_h_ext in H.
  split; [now apply hget_ext|]. split; [now apply unfold_ext|now apply abs_ext].
Qed.

Theorem step_frame : forall st o st' out, wf st -> step st o = (st', out) -> state_ext st st' /\ wf st'.
Proof.
  intros st o st' out Hwf H.
  assert (Hsame : forall x, (st, x) = (st', out) -> state_ext st st' /\ wf st').
  { intros x Hx. inversion Hx; subst. split; [apply state_ext_refl|assumption]. }
  assert (Hbuild : (match build st o with
                    | Err e => (st, OErr e)
                    | Ok (it, ty) =>
                        match alloc (map root (streams st)) it (heap_ st) with
                        | Ok (h', HA a) =>
                            add_stream st h' (mkstream a ty) (match o with NewDataset _ => S (nds st) | _ => nds st end)
                        | Ok (_, HL _) => (st, OErr EBadTree)
                        | Err e => (st, OErr e)
                        end
                    end) = (st', out) -> state_ext st st' /\ wf st').
  { intros Hb. destruct (build st o) as [[it ty]|e]; [|now apply (Hsame _ Hb)].
    destruct (alloc (map root (streams st)) it (heap_ st)) as [[h' [a|a]]|e] eqn:Ea; try now apply (Hsame _ Hb).
    apply alloc_spec in Ea; [|now apply wf_rs_ok]. destruct Ea as (Hx & Hv & _).
    eapply add_stream_frame; [exact Hwf| | |exact Hb]; [exact Hx|exact Hv]. }
  destruct o as [ty|t ty|s k lam cb rty|s lit|s kvs|s m lits|s ov title|c r]; try exact (Hbuild H).
  - (* QMetaData *)
    cbn [step] in H. destruct (nth_error (streams st) s) as [ps|] eqn:Es; [|now apply (Hsame _ H)].
    pose proof (wf_nth st s ps Hwf Es) as Hr.
    destruct (unfold (heap_ st) (root ps)) as [t|]; [|now apply (Hsame _ H)].
    destruct (hget (heap_ st) (root ps)) as [base|] eqn:Eb; [|now apply (Hsame _ H)].
    destruct (qmd_added t kvs) as [|kv added].
    + eapply add_stream_frame; [exact Hwf| | |exact H]; [apply heap_ext_refl|exact Hr].
    + destruct (hcopy (heap_ st) (root ps)) as [[h1 c]|] eqn:Ec; [|now apply (Hsame _ H)].
      apply hcopy_spec in Ec. destruct Ec as (n & _ & -> & ->).
      unfold set_attr in H. rewrite hupd_new in H.
      eapply add_stream_frame; [exact Hwf| | |exact H]; [apply heap_ext_cons|cbn; lia].
  - (* ValueStart *)
    cbn [step] in H. destruct (nth_error (streams st) s) as [ps|] eqn:Es; [|now apply (Hsame _ H)].
    destruct (unfold (heap_ st) (root ps)) as [t|]; [|now apply (Hsame _ H)].
    destruct (match ov with Some k => Ok (EOv k) | None => exec_walk t end) as [exe|e]; [|now apply (Hsame _ H)].
    destruct (remove_empty_h (heap_ st) (root ps)) as [[h' v]|e] eqn:Er; [|now apply (Hsame _ H)].
    inversion H; subst st' out; clear H. apply remove_empty_h_ext in Er.
    split.
    + split; [exact Er|]. exists []. cbn [streams]. now rewrite app_nil_r.
    + unfold wf. cbn [streams heap_]. eapply Forall_impl; [|exact Hwf]. intros x Hxr. cbn beta in Hxr.
      apply heap_ext_length in Er. lia.
  - (* ValueFinish *)
    cbn [step] in H. destruct (nth_error (calls st) c) as [[r0|]|]; try now apply (Hsame _ H).
    inversion H; subst st' out; clear H. split; [|exact Hwf].
    split; [apply heap_ext_refl|]. exists []. cbn [streams]. now rewrite app_nil_r.
Qed.

Lemma run_from_frame : forall ops st st' os, wf st -> run_from st ops = (st', os) -> state_ext st st' /\ wf st'.
Proof.
  induction ops as [|o r IH]; intros st st' os Hwf H.
  - cbn in H. inversion H; subst. split; [apply state_ext_refl|assumption].
  - cbn [run_from] in H. destruct (step st o) as [st1 o1] eqn:E1.
    destruct (run_from st1 r) as [st2 os2] eqn:E2. inversion H; subst st' os; clear H.
    destruct (step_frame st o st1 o1 Hwf E1) as [X1 W1].
    destruct (IH st1 st2 os2 W1 E2) as [X2 W2].
    split; [eapply state_ext_trans; eassumption|assumption].
Qed.

Lemma run_from_app : forall a b st,
  run_from st (a ++ b) =
  (fst (run_from (fst (run_from st a)) b), snd (run_from st a) ++ snd (run_from (fst (run_from st a)) b)).
Proof.
  induction a as [|o a IH]; intros b st.
  - cbn. now destruct (run_from st b).
  - cbn [app run_from]. destruct (step st o) as [st1 o1]. rewrite IH.
    destruct (run_from st1 a) as [st2 os2]. cbn [fst snd].
    destruct (run_from st2 b) as [st3 os3]. reflexivity.
Qed.

Lemma run_wf : forall ops, wf (run ops).
Proof.
  intros ops. unfold run. destruct (run_from init ops) as [st os] eqn:E.
  exact (proj2 (run_from_frame ops init st os wf_init E)).
Qed.

Lemma run_prefix_ext : forall ops i j, i <= j -> state_ext (run_prefix ops i) (run_prefix ops j).
Proof.
  intros ops i j Hij. unfold run_prefix.
  assert (Hsplit : firstn j ops = firstn i ops ++ skipn i (firstn j ops)).
  { rewrite <- (firstn_skipn i (firstn j ops)) at 1. rewrite firstn_firstn.
    now replace (Nat.min i j) with i by lia. }
  rewrite Hsplit. unfold run. rewrite run_from_app. cbn [fst].
  destruct (run_from (fst (run_from init (firstn i ops))) (skipn i (firstn j ops))) as [st2 os2] eqn:E.
  cbn [fst]. exact (proj1 (run_from_frame _ _ _ _ (run_wf (firstn i ops)) E)).
Qed.

Lemma obs_full_ext : forall st st' s, wf st -> state_ext st st' -> live st s -> obs_full st' s = obs_full st s.
Proof.
  intros st st' s Hwf [Hx [new Hs]] Hl. unfold live in Hl. unfold obs_full.
  rewrite Hs, nth_error_app1 by exact Hl.
  destruct (nth_error (streams st) s) as [x|] eqn:E; [|reflexivity].
  rewrite (unfold_ext _ _ _ Hx (wf_nth st s x Hwf E)). reflexivity.
Qed.

Lemma obs_of_full : forall st s,
  obs st s = option_map (fun p => (option_map erase (fst p), snd p)) (obs_full st s).
Proof. intros st s. unfold obs, obs_full, abs. destruct (nth_error (streams st) s); reflexivity. Qed.

Lemma lookup_of_full : forall st s k,
  lookup st s k = match obs_full st s with Some (Some t, _) => lookup_t k t | _ => None end.
Proof.
  intros st s k. unfold lookup, obs_full. destruct (nth_error (streams st) s) as [x|]; [|reflexivity].
  destruct (unfold (heap_ st) (root x)); reflexivity.
Qed.

(* the headline statement, in its strongest form: nothing observable of a live stream ever changes,
   including the non-field attributes of every node (executor, dataset object, query metadata) *)
Theorem streams_immutable_full : forall ops i j s, i <= j -> live (run_prefix ops i) s ->
  obs_full (run_prefix ops j) s = obs_full (run_prefix ops i) s.
Proof.
  intros ops i j s Hij Hl. apply obs_full_ext; [apply run_wf|now apply run_prefix_ext|exact Hl].
Qed.

Theorem streams_immutable : forall ops i j s, i <= j -> live (run_prefix ops i) s ->
  obs (run_prefix ops j) s = obs (run_prefix ops i) s.
Proof. intros. rewrite !obs_of_full. now rewrite (streams_immutable_full ops i j s). Qed.

Theorem lookups_immutable : forall ops i j s k, i <= j -> live (run_prefix ops i) s ->
  lookup (run_prefix ops j) s k = lookup (run_prefix ops i) s k.
Proof. intros. rewrite !lookup_of_full. now rewrite (streams_immutable_full ops i j s). Qed.

(* a step never un-creates a stream *)
Theorem live_mono : forall ops i j s, i <= j -> live (run_prefix ops i) s -> live (run_prefix ops j) s.
Proof.
  intros ops i j s Hij Hl. destruct (run_prefix_ext ops i j Hij) as [_ [new Hs]].
  unfold live in *. rewrite Hs, app_length. lia.
Qed.

(* Lemmas shared by the C12 and C16 proofs: the query-metadata walk, instances of plain trees, the shape of
   the trees the building operations allocate, unfolding of a copied node. *)
From Coq Require Import String List Arith Bool Lia.
From FA.Gen Require Import TablesStream.
From FA.Model Require Import Heap Stream.
From FA.Proofs Require Import HeapFacts StreamFrame.
Import ListNotations.
Open Scope list_scope.
Open Scope nat_scope.

(* ---------------------------------------------------------------- small list facts *)
Lemma sequence_Forall2 : forall A B (f : A -> option B) l l',
  sequence (map f l) = Some l' -> Forall2 (fun x y => f x = Some y) l l'.
Proof.
  intros A B f. induction l as [|x l IH]; intros l' H.
  - cbn in H. inversion H. constructor.
  - cbn [map sequence] in H. destruct (f x) as [y|] eqn:E; [|discriminate].
    destruct (sequence (map f l)) as [r|] eqn:E2; [|discriminate]. inversion H; subst.
    constructor; [exact E|now apply IH].
Qed.

Lemma Forall2_sequence : forall A B (f : A -> option B) l l',
  Forall2 (fun x y => f x = Some y) l l' -> sequence (map f l) = Some l'.
Proof.
  intros A B f l l' H. induction H as [|x y l l' Hxy _ IH]; [reflexivity|].
  cbn [map sequence]. now rewrite Hxy, IH.
Qed.

Lemma Forall2_impl' : forall A B (P Q : A -> B -> Prop) l l',
  (forall x y, P x y -> Q x y) -> Forall2 P l l' -> Forall2 Q l l'.
Proof. intros A B P Q l l' HPQ H. induction H; constructor; auto. Qed.

Definition orelse {A} (a b : option A) : option A := match a with Some _ => a | None => b end.

(* ---------------------------------------------------------------- the walk of lookup_query_metadata *)
Definition walk_kids (k : string) (ks : list atree) (acc : option atom) : option atom :=
  fold_left (fun acc kid => lookup_walk k kid acc) ks acc.
Definition walk_fields (k : string) (fs : list (string * fkind * list atree)) (acc : option atom) : option atom :=
  fold_left (fun acc fl => walk_kids k (snd fl) acc) fs acc.

Lemma lookup_walk_G : forall k at_ cls fs acc,
  lookup_walk k (G at_ cls fs) acc =
  match assoc k (qmd_of at_) with Some v => Some v | None => walk_fields k fs acc end.
Proof. reflexivity. Qed.

Lemma walk_kids_acc : forall k ks,
  Forall (fun t => forall acc, lookup_walk k t acc = orelse (lookup_walk k t None) acc) ks ->
  forall acc, walk_kids k ks acc = orelse (walk_kids k ks None) acc.
Proof.
  intros k ks H. induction H as [|x l Hx _ IH]; intros acc; [reflexivity|].
  unfold walk_kids in *. cbn [fold_left]. rewrite (IH (lookup_walk k x acc)), (IH (lookup_walk k x None)), (Hx acc).
  destruct (fold_left _ l None); [reflexivity|]. cbn. reflexivity.
Qed.

Lemma walk_fields_acc : forall k fs,
  Forall (fun fl => Forall (fun t => forall acc, lookup_walk k t acc = orelse (lookup_walk k t None) acc) (snd fl)) fs ->
  forall acc, walk_fields k fs acc = orelse (walk_fields k fs None) acc.
Proof.
  intros k fs H. induction H as [|x l Hx _ IH]; intros acc; [reflexivity|].
  unfold walk_fields in *. cbn [fold_left].
  rewrite (IH (walk_kids k (snd x) acc)), (IH (walk_kids k (snd x) None)), (walk_kids_acc k _ Hx acc).
  destruct (fold_left _ l None); [reflexivity|]. cbn. reflexivity.
Qed.

(* the accumulator only matters when the tree has no hit *)
Lemma lookup_walk_acc : forall k t acc, lookup_walk k t acc = orelse (lookup_walk k t None) acc.
Proof.
  intros k t. induction t as [a|x cls fs IH] using gtree_ind'; intros acc; [reflexivity|].
  rewrite !lookup_walk_G. destruct (assoc k (qmd_of x)); [reflexivity|].
  now apply walk_fields_acc.
Qed.

Definition quiet (t : atree) : Prop := forall k acc, lookup_walk k t acc = acc.

Lemma walk_kids_quiet : forall k ks acc, Forall quiet ks -> walk_kids k ks acc = acc.
Proof.
  intros k ks acc H. revert acc. induction H as [|x l Hx _ IH]; intros acc; [reflexivity|].
  unfold walk_kids in *. cbn [fold_left]. rewrite (Hx k acc). apply IH.
Qed.

Lemma walk_fields_quiet : forall k fs acc, Forall (fun fl => Forall quiet (snd fl)) fs -> walk_fields k fs acc = acc.
Proof.
  intros k fs acc H. revert acc. induction H as [|x l Hx _ IH]; intros acc; [reflexivity|].
  unfold walk_fields in *. cbn [fold_left]. rewrite (walk_kids_quiet k _ acc Hx). apply IH.
Qed.

(* ---------------------------------------------------------------- instances *)
(* every reference of the tree is to a stream below n *)
Fixpoint refs_below (n : nat) (it : itree) : bool :=
  match it with
  | Leaf _ => true
  | G (IRef s) _ _ => Nat.ltb s n
  | G (INew _) _ fs => forallb (fun fl => forallb (refs_below n) (snd fl)) fs
  end.

Lemma ref_free_below : forall n it, ref_free it = true -> refs_below n it = true.
Proof.
  intros n it. induction it as [a|x cls fs IH] using gtree_ind'; intros H; [reflexivity|].
  destruct x as [s|at_]; [discriminate|]. cbn [ref_free refs_below] in *.
  rewrite forallb_forall in *. intros fl Hin. specialize (H fl Hin). rewrite Forall_forall in IH.
  specialize (IH fl Hin). rewrite forallb_forall in *. intros k Hk. rewrite Forall_forall in IH. apply IH; auto.
Qed.

Lemma inst_kids_some : forall rho ks,
  Forall (fun k => exists t, inst rho k = Some t) ks -> exists ts, inst_kids rho ks = Some ts.
Proof.
  intros rho ks H. induction H as [|k l [t Ht] _ [ts IH]]; [now exists []|].
  exists (t :: ts). unfold inst_kids in *. cbn [map sequence]. now rewrite Ht, IH.
Qed.

Lemma inst_some : forall n rho it, (forall s, s < n -> exists t, rho s = Some t) ->
  refs_below n it = true -> exists t, inst rho it = Some t.
Proof.
  intros n rho it Hrho. induction it as [a|x cls fs IH] using gtree_ind'; intros H.
  - now exists (Leaf a).
  - destruct x as [s|at_].
    + cbn in H. apply Nat.ltb_lt in H. cbn [inst]. now apply Hrho.
    + cbn [refs_below] in H. rewrite forallb_forall in H. rewrite inst_G.
      assert (Hf : exists fs', sequence (map (inst_field rho) fs) = Some fs').
      { clear cls at_. induction fs as [|fl r IHr]; [now exists []|].
        inversion IH as [|? ? Hfl Hr]; subst.
        destruct IHr as [fs' Hfs']; [exact Hr|intros; apply H; now right|].
        assert (Hks : exists ts, inst_kids rho (snd fl) = Some ts).
        { apply inst_kids_some. specialize (H fl (or_introl eq_refl)). rewrite forallb_forall in H.
          rewrite Forall_forall in *. intros k Hk. apply Hfl; auto. }
        destruct Hks as [ts Hts]. exists ((fst fl, ts) :: fs'). cbn [map sequence].
        assert (Hfl1 : inst_field rho fl = Some (fst fl, ts)). { unfold inst_field. unfold itree in *. rewrite Hts. reflexivity. }
        now rewrite Hfl1, Hfs'. }
      destruct Hf as [fs' Hfs']. rewrite Hfs'. eauto.
Qed.

Lemma kids_quiet : forall rho (kl : list itree) ks,
  (forall x, In x kl -> forall t, plain x = true -> ref_free x = true -> inst rho x = Some t -> quiet t) ->
  (forall x, In x kl -> plain x = true) -> (forall x, In x kl -> ref_free x = true) ->
  Forall2 (fun x y => inst rho x = Some y) kl ks -> Forall quiet ks.
Proof.
  intros rho kl ks IH Hp Hr E. induction E as [|k t l l' Hk _ IHk]; [constructor|].
  constructor.
  - apply (IH k (or_introl eq_refl)); [apply Hp|apply Hr|exact Hk]; now left.
  - apply IHk; intros; [eapply IH|apply Hp|apply Hr]; try eassumption; now right.
Qed.

(* a tree written down by the user (no references, no attributes) has no query metadata anywhere *)
Lemma inst_plain_quiet : forall rho it t, plain it = true -> ref_free it = true -> inst rho it = Some t -> quiet t.
Proof.
  intros rho it. induction it as [a|x cls fs IH] using gtree_ind'; intros t Hp Hr Hi.
  - cbn in Hi. inversion Hi; subst. intros k acc. reflexivity.
  - destruct x as [s|at_]; [discriminate|]. cbn [plain] in Hp. destruct at_; [|discriminate].
    cbn [ref_free] in Hr. rewrite inst_G in Hi.
    destruct (sequence (map (inst_field rho) fs)) as [fs'|] eqn:E; [|discriminate]. inversion Hi; subst t; clear Hi.
    intros k acc. rewrite lookup_walk_G. cbn [qmd_of assoc]. apply walk_fields_quiet.
    apply sequence_Forall2 in E. rewrite forallb_forall in Hp, Hr. rewrite Forall_forall in IH.
    induction E as [|fl fl' l l' Hfl _ IHE]; [constructor|].
    constructor.
    + unfold inst_field in Hfl. destruct (inst_kids rho (snd fl)) as [ks|] eqn:Ek; [|discriminate].
      inversion Hfl; subst fl'. cbn [snd]. apply sequence_Forall2 in Ek.
      specialize (IH fl (or_introl eq_refl)). specialize (Hp fl (or_introl eq_refl)). specialize (Hr fl (or_introl eq_refl)).
      rewrite forallb_forall in Hp, Hr. rewrite Forall_forall in IH.
      eapply kids_quiet; eassumption.
    + apply IHE; intros; [apply IH|apply Hp|apply Hr]; now right.
Qed.

(* ---------------------------------------------------------------- function_call(name, args) *)
Definition call_tree (at_ : attrs) (name : string) (ts : list atree) : atree :=
  G at_ "Call"
    [("func", KOne, [G [] "Name" [("id", KOne, [Leaf (AStr name)]); ("ctx", KOne, [Leaf (ARaw "c:Load")])]]);
     ("args", KList, ts); ("keywords", KList, [])]%string.

Lemma inst_fcall : forall rho at_ name args,
  inst rho (fcall at_ name args) =
  match inst_kids rho args with Some ts => Some (call_tree at_ name ts) | None => None end.
Proof.
  intros. unfold fcall. rewrite inst_G. cbn [map sequence]. unfold inst_field at 2. cbn [snd fst].
  destruct (inst_kids rho args) as [ts|]; reflexivity.
Qed.

Lemma lookup_call_tree : forall k at_ name ts acc,
  lookup_walk k (call_tree at_ name ts) acc =
  match assoc k (qmd_of at_) with Some v => Some v | None => walk_kids k ts acc end.
Proof. intros. unfold call_tree. rewrite lookup_walk_G. reflexivity. Qed.

(* ---------------------------------------------------------------- the node behind an unfolding *)
Lemma hget_split : forall h a n, hget h a = Some n -> exists e h0, h = e ++ n :: h0 /\ length h0 = a.
Proof.
  induction h as [|x h IH]; intros a n H.
  - unfold hget, tget in H. cbn in H. destruct a; discriminate.
  - destruct (Nat.eq_dec a (length h)) as [->|Hne].
    + unfold hget in H. rewrite tget_new in H. inversion H; subst. now exists [], h.
    + assert (Ha : a < length h).
      { apply tget_lt in H. cbn [length] in H. lia. }
      unfold hget in H. change (x :: h) with ([x] ++ h) in H. rewrite tget_app in H by exact Ha.
      destruct (IH a n H) as (e & h0 & -> & Hl). now exists (x :: e), h0.
Qed.

Lemma unfold_hv_stable : forall h0 h v t, heap_ext h0 h ->
  unfold_hv (unfold_tbl h0) v = Some t -> unfold_hv (unfold_tbl h) v = Some t.
Proof.
  intros h0 h v t Hx H. destruct v as [a|a]; [|exact H].
  change (unfold h0 a = Some t) in H. change (unfold h a = Some t).
  rewrite (unfold_ext h0 h a Hx); [exact H|]. eapply unfold_lt; eassumption.
Qed.

Lemma unfold_node_stable : forall h0 h n t, heap_ext h0 h ->
  unfold_node (unfold_tbl h0) n = Some t -> unfold_node (unfold_tbl h) n = Some t.
Proof.
  intros h0 h n t Hx H. unfold unfold_node in *.
  destruct (sequence (map (unfold_field (unfold_tbl h0)) (nfields n))) as [fs|] eqn:E; [|discriminate].
  assert (E' : sequence (map (unfold_field (unfold_tbl h)) (nfields n)) = Some fs).
  { apply Forall2_sequence. apply sequence_Forall2 in E.
    eapply Forall2_impl'; [|exact E]. intros fl fl' Hfl. unfold unfold_field in *.
    destruct (sequence (map (unfold_hv (unfold_tbl h0)) (snd fl))) as [ks|] eqn:Ek; [|discriminate].
    assert (Ek' : sequence (map (unfold_hv (unfold_tbl h)) (snd fl)) = Some ks).
    { apply Forall2_sequence. apply sequence_Forall2 in Ek. eapply Forall2_impl'; [|exact Ek].
      intros v t0 Hv. eapply unfold_hv_stable; eassumption. }
    now rewrite Ek'. }
  now rewrite E'.
Qed.

(* copy.copy(node) followed by setting non-field attributes: the copy unfolds to the same children *)
Lemma copy_unfold : forall h a n t, hget h a = Some n -> unfold h a = Some t ->
  exists fs', t = G (nattrs n) (ncls n) fs' /\
    forall at', unfold (mknode (ncls n) (nfields n) at' :: h) (length h) = Some (G at' (ncls n) fs').
Proof.
  intros h a n t Hg Hu. destruct (hget_split h a n Hg) as (e & h0 & -> & Hl).
  assert (Hx : heap_ext (n :: h0) (e ++ n :: h0)) by now exists e.
  rewrite (unfold_ext (n :: h0) _ a Hx) in Hu by (cbn; lia).
  subst a. rewrite unfold_new in Hu.
  assert (Hx0 : heap_ext h0 (e ++ n :: h0)).
  { eapply heap_ext_trans; [apply heap_ext_cons|exact Hx]. }
  pose proof (unfold_node_stable h0 _ n t Hx0 Hu) as Hu'.
  unfold unfold_node in Hu'.
  destruct (sequence (map (unfold_field (unfold_tbl (e ++ n :: h0))) (nfields n))) as [fs'|] eqn:E; [|discriminate].
  inversion Hu'; subst t. exists fs'. split; [reflexivity|].
  intros at'. rewrite unfold_new. unfold unfold_node. cbn [nfields nattrs ncls]. now rewrite E.
Qed.

Lemma unfold_hget : forall h a t, unfold h a = Some t -> exists n, hget h a = Some n.
Proof.
  intros h a t H. apply unfold_lt in H. unfold hget, tget.
  destruct (Nat.ltb_spec a (length h)) as [_|]; [|lia].
  destruct (nth_error h (length h - S a)) eqn:E; [eauto|].
  apply nth_error_None in E. lia.
Qed.

(* ---------------------------------------------------------------- dictionaries *)
Lemma assoc_set_same : forall A k (v : A) l, assoc k (assoc_set k v l) = Some v.
Proof.
  intros A k v l. induction l as [|[k' v'] r IH]; cbn [assoc_set assoc].
  - now rewrite String.eqb_refl.
  - destruct (String.eqb k k') eqn:E; cbn [assoc]; rewrite ?E; [now rewrite String.eqb_refl|exact IH].
Qed.

Lemma assoc_set_other : forall A k k' (v : A) l, k <> k' -> assoc k (assoc_set k' v l) = assoc k l.
Proof.
  intros A k k' v l Hne. induction l as [|[k2 v2] r IH]; cbn [assoc_set assoc].
  - apply String.eqb_neq in Hne. now rewrite Hne.
  - destruct (String.eqb k' k2) eqn:E; cbn [assoc].
    + apply String.eqb_eq in E. subst k2. apply String.eqb_neq in Hne. now rewrite Hne.
    + now rewrite IH.
Qed.

Lemma nodup_keys_cons : forall A k (v : A) r, nodup_keys ((k, v) :: r) = true ->
  assoc k r = None /\ nodup_keys r = true.
Proof.
  intros A k v r H. cbn [nodup_keys fst] in H. apply andb_true_iff in H. destruct H as [H1 H2].
  split; [|exact H2]. apply negb_true_iff in H1. clear H2.
  induction r as [|[k2 v2] r IH]; [reflexivity|]. cbn [map existsb fst] in H1. apply orb_false_iff in H1.
  destruct H1 as [H1 H2]. cbn [assoc]. rewrite H1. now apply IH.
Qed.

Lemma assoc_dict_merge : forall new base k, nodup_keys new = true ->
  assoc k (dict_merge base new) = match assoc k new with Some v => Some v | None => assoc k base end.
Proof.
  induction new as [|[k1 v1] r IH]; intros base k Hn; [reflexivity|].
  apply nodup_keys_cons in Hn. destruct Hn as [Hk1 Hr].
  unfold dict_merge in *. cbn [fold_left fst snd]. rewrite (IH _ k Hr). cbn [assoc].
  destruct (String.eqb k k1) eqn:E.
  - apply String.eqb_eq in E. subst k1. rewrite Hk1. apply assoc_set_same.
  - destruct (assoc k r); [reflexivity|]. apply assoc_set_other. now apply String.eqb_neq.
Qed.

Lemma assoc_filter : forall (P : string * atom -> bool) kvs k, nodup_keys kvs = true ->
  assoc k (filter P kvs) = match assoc k kvs with Some v => if P (k, v) then Some v else None | None => None end.
Proof.
  intros P. induction kvs as [|[k1 v1] r IH]; intros k Hn; [reflexivity|].
  apply nodup_keys_cons in Hn. destruct Hn as [Hk1 Hr]. cbn [filter assoc].
  destruct (String.eqb k k1) eqn:E.
  - apply String.eqb_eq in E. subst k1. destruct (P (k, v1)) eqn:EP.
    + cbn [assoc]. now rewrite String.eqb_refl.
    + rewrite (IH k Hr), Hk1. reflexivity.
  - destruct (P (k1, v1)); [cbn [assoc]; rewrite E|]; apply (IH k Hr).
Qed.

Lemma atom_eqb_eq : forall a b, atom_eqb a b = true -> a = b.
Proof.
  intros [s|s] [t|t] H; cbn in H; try discriminate; apply String.eqb_eq in H; now subst.
Qed.

Lemma filter_nodup_keys : forall (P : string * atom -> bool) kvs, nodup_keys kvs = true -> nodup_keys (filter P kvs) = true.
Proof.
  intros P. induction kvs as [|[k1 v1] r IH]; intros Hn; [reflexivity|].
  pose proof (nodup_keys_cons _ _ _ _ Hn) as [Hk1 Hr]. cbn [filter].
  destruct (P (k1, v1)); [|now apply IH].
  cbn [nodup_keys fst]. rewrite (IH Hr), andb_true_r. apply negb_true_iff.
  assert (Hnone : assoc k1 (filter P r) = None) by (rewrite (assoc_filter P r k1 Hr), Hk1; reflexivity).
  clear -Hnone. induction (filter P r) as [|[k2 v2] l IHl]; [reflexivity|].
  cbn [assoc] in Hnone. cbn [map existsb fst]. destruct (String.eqb k1 k2); [discriminate|]. now apply IHl.
Qed.

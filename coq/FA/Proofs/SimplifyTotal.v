(* C18: the simplifier model never crashes on well-formed queries, and its outputs are well-formed.

   [wfq] is the well-formedness of queries: the three fusing operators are called in function form
   with exactly a source and a lambda (SelectMany's lambda has a parameter), First() has an
   argument, operator names are not used as values, dictionary literals pair keys with values,
   no raw Python value sits in a node slot.  It is what harness/props/c18.py:wellformed decides on
   Python trees.

   Theorem [simp_no_crash]: for every fuel, every well-formed stack, every counter and every
   well-formed query, [simp] does not return [Crash], and an [Ok] result is again well-formed
   (hence contains no [Raw] slot).  [IndexErr] and [OutOfFuel] are the only other outcomes. *)
From FA.Base Require Import PyAst Induct Value Traverse Names.
From FA.Gen Require Import TablesSimp.
From FA.Model Require Import Simplify.
From FA.Proofs Require Import TraverseFacts SimplifyFacts.
From Coq Require Import Lia.

Definition opname (n : string) : bool := is_call_handler n || String.eqb n "First".

Definition is_nil {A} (l : list A) : bool := match l with [] => true | _ => false end.

Fixpoint wfq (e : expr) {struct e} : bool :=
  let all := forallb wfq in
  match e with
  | Name n => negb (opname n)
  | Const _ => true
  | Raw _ => false
  | Attr v _ => wfq v
  | Call (Name n) args kwn kwv =>
      if is_call_handler n then
        match args, kwn, kwv with
        | [s; Lambda ps b], [], [] =>
            wfq s && (negb (has_dup ps) && wfq b) && (negb (String.eqb n "SelectMany") || negb (is_nil ps))
        | _, _, _ => false
        end
      else if String.eqb n "First" then negb (is_nil args) && all args && all kwv
      else all args && all kwv
  | Call f args _ kwv => wfq f && all args && all kwv
  | Lambda ps b => negb (has_dup ps) && wfq b
  | UnaryOp _ a => wfq a
  | BinOp _ l r => wfq l && wfq r
  | BoolOp _ es => all es
  | Compare l _ rs => wfq l && all rs
  | IfExp c t f => wfq c && wfq t && wfq f
  | Tuple es | List es => all es
  | Dict ks vs => Nat.eqb (length ks) (length vs) && all ks && all vs
  | Subscript v i => wfq v && wfq i
  | ListComp _ _ | GenExp _ _ | CompFor _ _ _ _ => false      (* sugar is lowered before the simplifier runs *)
  | Other _ _ cs => all cs
  end.

Notation wfq_all := (forallb wfq).

Lemma wfq_all_fix l : forallb wfq l = wfq_all l.
Proof. reflexivity. Qed.

Lemma wfq_all_app l1 l2 : wfq_all (l1 ++ l2) = wfq_all l1 && wfq_all l2.
Proof. apply forallb_app. Qed.

Lemma wfq_all_Forall l : wfq_all l = true <-> Forall (fun x => wfq x = true) l.
Proof.
  induction l as [|a l IH]; simpl; split; intros H; try constructor; try reflexivity.
  - apply andb_true_iff in H; tauto.
  - apply IH. apply andb_true_iff in H; tauto.
  - inversion H; subst. apply andb_true_iff; split; [assumption | apply IH; assumption].
Qed.

Lemma wfq_all_rev l : wfq_all (rev l) = wfq_all l.
Proof.
  induction l as [|a l IH]; simpl; [reflexivity|]. rewrite wfq_all_app, IH. simpl. rewrite andb_true_r, andb_comm. reflexivity.
Qed.

Definition wfst (st : stack) : Prop := forall x v, stack_lookup x st = Some v -> wfq v = true.

(* ---------- the result predicate and its monadic rules ---------- *)

Definition post (r : sres (expr * nat)) : Prop :=
  match r with Ok (e', _) => wfq e' = true | Crash _ => False | _ => True end.
Definition postL (r : sres (list expr * nat)) : Prop :=
  match r with Ok (es, _) => wfq_all es = true | Crash _ => False | _ => True end.
Definition postP {A} (P : A -> Prop) (r : sres A) : Prop :=
  match r with Ok a => P a | Crash _ => False | _ => True end.

Lemma post_bind {A} (P : A -> Prop) (m : sres A) (k : A -> sres (expr * nat)) :
  postP P m -> (forall a, P a -> post (k a)) -> post (sbind m k).
Proof. destruct m; simpl; auto. Qed.

Lemma post_bind1 (m : sres (expr * nat)) (k : expr * nat -> sres (expr * nat)) :
  post m -> (forall e c, wfq e = true -> post (k (e, c))) -> post (sbind m k).
Proof. destruct m as [[e c]| | |]; simpl; auto. Qed.

Lemma post_bindL (m : sres (list expr * nat)) (k : list expr * nat -> sres (expr * nat)) :
  postL m -> (forall es c, wfq_all es = true -> post (k (es, c))) -> post (sbind m k).
Proof. destruct m as [[e c]| | |]; simpl; auto. Qed.

Lemma postL_mapM (visit : nat -> expr -> sres (expr * nat)) l :
  (forall c x, wfq x = true -> post (visit c x)) -> wfq_all l = true ->
  forall c, postL (mapM visit c l).
Proof.
  intros Hv. induction l as [|x xs IH]; intros Hl c; [reflexivity|].
  simpl in Hl. apply andb_true_iff in Hl. destruct Hl as [Hx Hxs].
  cbn [mapM]. specialize (Hv c x Hx).
  destruct (visit c x) as [[x' c1]| | |]; simpl in *; auto.
  specialize (IH Hxs c1). fold (mapM visit c1 xs).
  destruct (mapM visit c1 xs) as [[xs' c2]| | |]; simpl in *; auto.
  rewrite Hv, IH. reflexivity.
Qed.

Lemma mapM_length (visit : nat -> expr -> sres (expr * nat)) l : forall c es c',
  mapM visit c l = Ok (es, c') -> length es = length l.
Proof.
  induction l as [|x xs IH]; intros c es c' H; cbn [mapM] in H.
  - inversion H; reflexivity.
  - destruct (visit c x) as [[x' c1]| | |]; simpl in H; try discriminate.
    fold (mapM visit c1 xs) in H.
    destruct (mapM visit c1 xs) as [[xs' c2]| | |] eqn:E; simpl in H; try discriminate.
    inversion H; subst. simpl. f_equal. eapply IH; eassumption.
Qed.

(* ---------- well-formedness of the terms the rules build ---------- *)

Lemma opname_handler n : is_call_handler n = true -> opname n = true.
Proof. intros H; unfold opname; rewrite H; reflexivity. Qed.

Lemma wfq_call f args kwn kwv :
  wfq f = true -> wfq_all args = true -> wfq_all kwv = true -> wfq (Call f args kwn kwv) = true.
Proof.
  intros Hf Ha Hk. destruct f; cbn [wfq]; idtac; cbn [wfq] in Hf; idtac;
    try (rewrite ?Hf, Ha, Hk; reflexivity).
  (* Name *)
  apply negb_true_iff in Hf. unfold opname in Hf. apply orb_false_iff in Hf. destruct Hf as [H1 H2].
  rewrite H1, H2, Ha, Hk. reflexivity.
Qed.

Lemma arg_name_not_op c : opname (arg_name c) = false.
Proof.
  unfold opname, is_call_handler. rewrite handlers_pinned. unfold arg_name.
  cbn [existsb]. destruct (nat_to_string c); reflexivity.
Qed.

Lemma wfq_arg c : wfq (Name (arg_name c)) = true.
Proof. cbn [wfq]. rewrite arg_name_not_op. reflexivity. Qed.

Lemma handler_cases n : is_call_handler n = true -> n = "Select" \/ n = "SelectMany" \/ n = "Where".
Proof. apply is_call_handler_spec. Qed.

Lemma wfq_lam_iff ps b : wfq (Lambda ps b) = true <-> has_dup ps = false /\ wfq b = true.
Proof.
  cbn [wfq]. rewrite andb_true_iff, negb_true_iff. tauto.
Qed.

Lemma wfq_op n s ps b :
  is_call_handler n = true -> wfq s = true -> has_dup ps = false -> wfq b = true -> (n = "SelectMany" -> ps <> []) ->
  wfq (function_call n [s; Lambda ps b]) = true.
Proof.
  intros Hn Hs Hd Hb Hp. unfold function_call. cbn [wfq]. rewrite Hn, Hs, Hd, Hb. cbn [andb negb].
  destruct (String.eqb n "SelectMany") eqn:E; [|reflexivity].
  apply String.eqb_eq in E. specialize (Hp E). destruct ps; [contradiction | reflexivity].
Qed.

Lemma wfq_First s : wfq s = true -> wfq (function_call "First" [s]) = true.
Proof. intros H. unfold function_call. cbn [wfq]. unfold is_call_handler. rewrite handlers_pinned. cbn. rewrite H. reflexivity. Qed.

Lemma wfq_make_Select s sel ps b :
  sel = Lambda ps b -> wfq s = true -> has_dup ps = false -> wfq b = true -> wfq (make_Select s sel) = true.
Proof.
  intros -> Hs Hd Hb. unfold make_Select. destruct (lambda_is_identity (Lambda ps b)); [assumption|].
  apply wfq_op; try assumption; [reflexivity | discriminate].
Qed.

(* a well-formed term that is a call of a handler has the canonical shape *)
Lemma wfq_handler_shape p n :
  wfq p = true -> is_call_of p n = true -> is_call_handler n = true ->
  exists s ps b, p = Call (Name n) [s; Lambda ps b] [] [] /\ wfq s = true /\ has_dup ps = false /\ wfq b = true /\ (n = "SelectMany" -> ps <> []).
Proof.
  intros Hw Hc Hn. destruct p; try discriminate. destruct p; try discriminate.
  simpl in Hc. apply String.eqb_eq in Hc; subst id.
  cbn [wfq] in Hw. rewrite Hn in Hw.
  destruct args as [|s [|l rest]]; try discriminate. destruct l; try discriminate. destruct rest; try discriminate.
  destruct kwn; try discriminate. destruct kwv; try discriminate.
  apply andb_true_iff in Hw. destruct Hw as [Hw Hp]. apply andb_true_iff in Hw. destruct Hw as [Hs Hb].
  apply andb_true_iff in Hb. destruct Hb as [Hd Hb]. apply negb_true_iff in Hd.
  exists s, ps, l. repeat split; try assumption.
  intros -> ->. simpl in Hp. discriminate.
Qed.

Lemma wfq_First_shape p :
  wfq p = true -> is_call_of p "First" = true ->
  exists a args kwn kwv, p = Call (Name "First") (a :: args) kwn kwv /\ wfq a = true.
Proof.
  intros Hw Hc. destruct p; try discriminate. destruct p; try discriminate.
  simpl in Hc. apply String.eqb_eq in Hc; subst id.
  cbn [wfq] in Hw. unfold is_call_handler in Hw. rewrite handlers_pinned in Hw. cbn in Hw.
  idtac. destruct args as [|a args]; [discriminate|].
  simpl in Hw. apply andb_true_iff in Hw. destruct Hw as [Hw _]. apply andb_true_iff in Hw. destruct Hw as [Ha _].
  eauto 6.
Qed.

(* renaming to fresh argument names keeps well-formedness *)
Definition ren_ok (m : list (string * string)) : Prop :=
  forall x y, ren_lookup x m = Some y -> y = x \/ opname y = false.

Lemma ren_ok_app_id ps m : ren_ok m -> ren_ok (rev (map (fun p : string => (p, p)) ps) ++ m).
Proof.
  intros Hm x y H.
  assert (Hl : forall l, ren_lookup x (l ++ m) = match ren_lookup x l with Some z => Some z | None => ren_lookup x m end).
  { induction l as [|[a b] l IH]; simpl; [reflexivity|]. destruct (String.eqb x a); [reflexivity | apply IH]. }
  rewrite Hl in H.
  destruct (ren_lookup x (rev (map (fun p : string => (p, p)) ps))) as [z|] eqn:E.
  - inversion H; subst. left.
    assert (Hid : forall l : list (string * string), (forall a b, In (a, b) l -> a = b) -> forall z0, ren_lookup x l = Some z0 -> z0 = x).
    { induction l as [|[a b] l IH]; simpl; intros Hall z0 Hz; [discriminate|].
      destruct (String.eqb x a) eqn:Ex.
      - inversion Hz; subst. apply String.eqb_eq in Ex; subst. symmetry. apply Hall. left; reflexivity.
      - apply IH; [intros; apply Hall; right; assumption | assumption]. }
    eapply Hid; [|exact E]. intros a b Hin. apply in_rev in Hin. apply in_map_iff in Hin. destruct Hin as [p [Hp _]]. inversion Hp; reflexivity.
  - apply Hm; assumption.
Qed.

Lemma wfq_all_map_rename m l :
  Forall (fun e0 => forall m0, ren_ok m0 -> wfq e0 = true -> wfq (rename m0 e0) = true) l ->
  ren_ok m -> wfq_all l = true -> wfq_all (map (rename m) l) = true.
Proof.
  intros H Hm. induction H as [|x0 l0 Hx0 _ IHl0]; simpl; intros Hl; [reflexivity|].
  apply andb_true_iff in Hl. destruct Hl. rewrite Hx0, IHl0 by assumption. reflexivity.
Qed.

Lemma wfq_rename : forall e m, ren_ok m -> wfq e = true -> wfq (rename m e) = true.
Proof.
  induction e using expr_ind'; intros m Hm Hw; cbn [rename map_children_t]; try exact Hw.
  - (* Name *)
    destruct (ren_lookup id m) as [y|] eqn:E; [|exact Hw].
    destruct (Hm _ _ E) as [->|Hy]; [exact Hw|]. cbn [wfq]. rewrite Hy. reflexivity.
  - (* Attr *) cbn [wfq] in *. apply IHe; assumption.
  - (* Call *)
    assert (Hargs : forall l, Forall (fun e0 => forall m0, ren_ok m0 -> wfq e0 = true -> wfq (rename m0 e0) = true) l ->
                              wfq_all l = true -> wfq_all (map (rename m) l) = true).
    { induction 1 as [|x0 l0 Hx0 _ IHl0]; simpl; intros Hl; [reflexivity|].
      apply andb_true_iff in Hl. destruct Hl. rewrite Hx0, IHl0 by assumption. reflexivity. }
    cbn [rename map_children_t].
    destruct e;
      try (cbn [wfq] in Hw; apply andb_true_iff in Hw; destruct Hw as [Hw Hk]; apply andb_true_iff in Hw; destruct Hw as [Hf Ha];
           apply wfq_call; [apply IHe; [assumption | exact Hf] | apply Hargs; assumption | apply Hargs; assumption]).
    all: cbn [wfq] in Hw.
    + (* callee is a Name *)
      cbn [rename].
      destruct (is_call_handler id) eqn:Hh.
      * destruct args as [|s [|l rest]]; try discriminate. destruct l; try discriminate. destruct rest; try discriminate.
        destruct kwn; try discriminate. destruct kwv; try discriminate.
        apply andb_true_iff in Hw. destruct Hw as [Hw Hp]. apply andb_true_iff in Hw. destruct Hw as [Hs Hb].
        assert (Hs' : wfq (rename m s) = true) by (apply (Forall_inv H); assumption).
        assert (Hb' : wfq (rename m (Lambda ps l)) = true).
        { apply (Forall_inv (Forall_inv_tail H)); [assumption | cbn [wfq]; exact Hb]. }
        cbn [rename wfq] in Hb'.
        destruct (ren_lookup id m) as [y|] eqn:E.
        -- destruct (Hm _ _ E) as [->|Hy].
           ++ cbn [map rename wfq]. rewrite Hh, Hs', Hb', Hp. reflexivity.
           ++ (* renamed to a non-operator name: an ordinary call *)
              unfold opname in Hy. apply orb_false_iff in Hy. destruct Hy as [Hy1 Hy2].
              cbn [map forallb rename wfq]. rewrite Hy1, Hy2, Hs', Hb'. reflexivity.
        -- cbn [map rename wfq]. rewrite Hh, Hs', Hb', Hp. reflexivity.
      * destruct (String.eqb id "First") eqn:Hf.
        -- apply andb_true_iff in Hw. destruct Hw as [Hw Hk]. apply andb_true_iff in Hw. destruct Hw as [Hn Ha].
           destruct (ren_lookup id m) as [y|] eqn:E.
           ++ destruct (Hm _ _ E) as [->|Hy].
              ** cbn [wfq]. rewrite Hh, Hf. rewrite !Hargs by assumption.
                 destruct args; [discriminate | reflexivity].
              ** unfold opname in Hy. apply orb_false_iff in Hy. destruct Hy as [Hy1 Hy2]. cbn [wfq]. rewrite Hy1, Hy2. rewrite !Hargs by assumption. reflexivity.
           ++ cbn [wfq]. rewrite Hh, Hf. rewrite !Hargs by assumption.
              destruct args; [discriminate | reflexivity].
        -- apply andb_true_iff in Hw. destruct Hw as [Ha Hk].
           destruct (ren_lookup id m) as [y|] eqn:E.
           ++ destruct (Hm _ _ E) as [->|Hy].
              ** cbn [wfq]. rewrite Hh, Hf. rewrite !Hargs by assumption. reflexivity.
              ** unfold opname in Hy. apply orb_false_iff in Hy. destruct Hy as [Hy1 Hy2]. cbn [wfq]. rewrite Hy1, Hy2. rewrite !Hargs by assumption. reflexivity.
           ++ cbn [wfq]. rewrite Hh, Hf. rewrite !Hargs by assumption. reflexivity.
  - (* Lambda *) cbn [wfq] in *. apply andb_true_iff in Hw. destruct Hw as [Hd Hb]. rewrite Hd. cbn [andb].
    apply IHe; [apply ren_ok_app_id; assumption | assumption].
  - (* UnaryOp *) cbn [wfq] in *. apply IHe; assumption.
  - (* BinOp *) cbn [wfq] in *. apply andb_true_iff in Hw. destruct Hw. rewrite IHe1, IHe2 by assumption. reflexivity.
  - (* BoolOp *) cbn [wfq] in *. apply wfq_all_map_rename; assumption.
  - (* Compare *) cbn [wfq] in *. apply andb_true_iff in Hw. destruct Hw as [Hl Hr]. rewrite IHe by assumption.
    rewrite (wfq_all_map_rename m _ H Hm Hr). reflexivity.
  - (* IfExp *) cbn [wfq] in *. apply andb_true_iff in Hw. destruct Hw as [Hw H3]. apply andb_true_iff in Hw. destruct Hw.
    rewrite IHe1, IHe2, IHe3 by assumption. reflexivity.
  - (* Tuple *) cbn [wfq] in *. apply wfq_all_map_rename; assumption.
  - (* List *) cbn [wfq] in *. apply wfq_all_map_rename; assumption.
  - (* Dict *)
    cbn [wfq] in *. rewrite !map_length.
    apply andb_true_iff in Hw. destruct Hw as [Hw Hv]. apply andb_true_iff in Hw. destruct Hw as [Hl Hk]. rewrite Hl. cbn [andb].
    rewrite (wfq_all_map_rename m _ H Hm Hk), (wfq_all_map_rename m _ H0 Hm Hv). reflexivity.
  - (* Subscript *) cbn [wfq] in *. apply andb_true_iff in Hw. destruct Hw. rewrite IHe1, IHe2 by assumption. reflexivity.
  - (* Other *) cbn [wfq] in *. apply wfq_all_map_rename; assumption.
Qed.

(* ---------- helper facts for the main induction ---------- *)

Lemma ren_lookup_combine_in x ps fs y :
  ren_lookup x (rev (combine ps fs)) = Some y -> In y fs.
Proof.
  intros H.
  assert (Hin : forall l : list (string * string), ren_lookup x l = Some y -> In (x, y) l).
  { induction l as [|[a b] l IH]; simpl; intros Hl; [discriminate|].
    destruct (String.eqb x a) eqn:E; [apply String.eqb_eq in E; inversion Hl; subst; left; reflexivity | right; auto]. }
  apply Hin in H. apply in_rev in H. eapply in_combine_r; eassumption.
Qed.

Lemma fresh_names_not_op n c y : In y (fresh_names n c) -> opname y = false.
Proof.
  revert c; induction n as [|n IH]; simpl; intros c H; [contradiction|].
  destruct H as [<-|H]; [apply arg_name_not_op | eapply IH; eassumption].
Qed.

Lemma ren_ok_fresh ps n c : ren_ok (rev (combine ps (fresh_names n c))).
Proof. intros x y H. right. eapply fresh_names_not_op. eapply ren_lookup_combine_in; eassumption. Qed.

Lemma fresh_names_in n c y : In y (fresh_names n c) -> exists k, c <= k /\ y = arg_name k.
Proof.
  revert c; induction n as [|n IH]; simpl; intros c H; [contradiction|].
  destruct H as [<-|H]; [exists c; split; [lia | reflexivity]|].
  destruct (IH _ H) as (k & Hk & ->). exists k; split; [lia | reflexivity].
Qed.

Lemma fresh_names_nodup n c : has_dup (fresh_names n c) = false.
Proof.
  revert c; induction n as [|n IH]; intros c; cbn [fresh_names has_dup]; [reflexivity|].
  rewrite IH, orb_false_r.
  destruct (existsb (String.eqb (arg_name c)) (fresh_names n (S c))) eqn:E; [|reflexivity].
  apply existsb_exists in E. destruct E as (y & Hy & Heq). apply String.eqb_eq in Heq; subst y.
  destruct (fresh_names_in _ _ _ Hy) as (k & Hk & Heq). apply arg_name_inj in Heq. lia.
Qed.

Lemma wfq_make_args_unique ps b c :
  wfq b = true ->
  exists fs b', make_args_unique ps b c = (Lambda fs b', c + length ps) /\ wfq b' = true /\ length fs = length ps
                /\ has_dup fs = false.
Proof.
  intros Hb. unfold make_args_unique. eexists; eexists; split; [reflexivity|]. split; [|split].
  - apply wfq_rename; [apply ren_ok_fresh | assumption].
  - apply fresh_names_length.
  - apply fresh_names_nodup.
Qed.

Lemma wfq_convolute gps gb fps fb c :
  wfq gb = true -> wfq fb = true ->
  exists cv c', convolute (Lambda gps gb) (Lambda fps fb) c = Ok (cv, c') /\ wfq cv = true.
Proof.
  intros Hg Hf. unfold convolute.
  destruct (wfq_make_args_unique gps gb c Hg) as (gs & gb' & Eg & Hgb' & _ & Hdg). rewrite Eg.
  destruct (wfq_make_args_unique fps fb (c + length gps) Hf) as (fs & fb' & Ef & Hfb' & _ & Hdf). rewrite Ef.
  eexists; eexists; split; [reflexivity|].
  cbn [wfq forallb has_dup existsb orb negb andb]. rewrite Hgb', Hfb', Hdg, Hdf. rewrite arg_name_not_op. reflexivity.
Qed.

Lemma frame_lookup_in x ps (vs : list expr) v :
  frame_lookup x (rev (combine ps vs)) = Some v -> In v vs.
Proof.
  intros H.
  assert (Hin : forall l : list (string * expr), frame_lookup x l = Some v -> In (x, v) l).
  { induction l as [|[a b] l IH]; simpl; intros Hl; [discriminate|].
    destruct (String.eqb x a) eqn:E; [apply String.eqb_eq in E; inversion Hl; subst; left; reflexivity | right; auto]. }
  apply Hin in H. apply in_rev in H. eapply in_combine_r; eassumption.
Qed.

Lemma wfst_push ps vs st : wfq_all vs = true -> wfst st -> wfst (rev (combine ps vs) :: st).
Proof.
  intros Hv Hst x v H. cbn [stack_lookup] in H.
  destruct (frame_lookup x (rev (combine ps vs))) as [w|] eqn:E.
  - inversion H; subst. apply frame_lookup_in in E. rewrite forallb_forall in Hv. apply Hv; assumption.
  - eapply Hst; eassumption.
Qed.

Lemma wfst_empty : wfst [[]].
Proof. intros x v H. discriminate. Qed.

Lemma forallb_firstn {A} (p : A -> bool) n l : forallb p l = true -> forallb p (firstn n l) = true.
Proof.
  revert n; induction l as [|a l IH]; intros [|n] H; simpl in *; try reflexivity.
  apply andb_true_iff in H. destruct H as [Ha Hl]. rewrite Ha, IH by assumption. reflexivity.
Qed.

Lemma forallb_skipn {A} (p : A -> bool) n l : forallb p l = true -> forallb p (skipn n l) = true.
Proof.
  revert n; induction l as [|a l IH]; intros [|n] H; simpl in *; try reflexivity; try assumption.
  apply andb_true_iff in H. destruct H as [Ha Hl]. apply IH; assumption.
Qed.

Lemma bind_lambda_call_wfq ps args kwn kwv given :
  bind_lambda_call ps args kwn kwv = Some given -> wfq_all args = true -> wfq_all kwv = true -> wfq_all given = true.
Proof.
  unfold bind_lambda_call. destruct (has_dup ps); [discriminate|].
  destruct (Nat.ltb (length ps) (length args)); [discriminate|].
  destruct (bind_keywords ps (combine ps args) kwn kwv) as [g|] eqn:Eg; [|discriminate].
  destruct (negb (Nat.eqb (length g) (length ps))); [discriminate|].
  intros Hseq Ha Hk.
  assert (Hg : forall x v, assoc_expr x g = Some v -> wfq v = true).
  { assert (Hgen : forall kwn kwv given0 g0,
               bind_keywords ps given0 kwn kwv = Some g0 -> wfq_all kwv = true ->
               (forall x v, In (x, v) given0 -> wfq v = true) -> forall x v, In (x, v) g0 -> wfq v = true).
    { clear. induction kwn as [|[k|] kwn IH]; intros kwv given0 g0 Hb Hk Hgiv x v Hin; simpl in Hb.
      - inversion Hb; subst. eapply Hgiv; eassumption.
      - destruct kwv as [|v0 kwv]; [discriminate|].
        destruct (negb (existsb (String.eqb k) ps)); [discriminate|].
        destruct (existsb (fun kv => String.eqb k (fst kv)) given0); [discriminate|].
        simpl in Hk. apply andb_true_iff in Hk. destruct Hk as [Hv0 Hk].
        eapply (IH kwv (given0 ++ [(k, v0)]) g0 Hb Hk); [|exact Hin].
        intros x' v' Hin'. apply in_app_or in Hin'. destruct Hin' as [Hin'|[Heq|[]]]; [eapply Hgiv; eassumption|].
        inversion Heq; subst; assumption.
      - discriminate. }
    intros x v Hx.
    assert (Hin : In (x, v) g).
    { clear - Hx. induction g as [|[a b] g IH]; simpl in *; [discriminate|].
      destruct (String.eqb x a) eqn:E; [apply String.eqb_eq in E; inversion Hx; subst; left; reflexivity | right; auto]. }
    eapply (Hgen kwn kwv (combine ps args) g Eg Hk); [|exact Hin].
    intros x' v' Hin'. apply in_combine_r in Hin'. rewrite forallb_forall in Ha. apply Ha; assumption. }
  clear - Hseq Hg. revert given Hseq. induction ps as [|p ps IH]; intros given Hseq; simpl in Hseq.
  - inversion Hseq; reflexivity.
  - destruct (assoc_expr p g) as [v|] eqn:Ev; [|discriminate]. simpl in Hseq.
    destruct (sequence (map (fun p0 => assoc_expr p0 g) ps)) as [r|] eqn:Er; [|discriminate].
    inversion Hseq; subst. simpl. rewrite (Hg _ _ Ev). rewrite (IH r eq_refl). reflexivity.
Qed.

Lemma dict_scan_wfq rks rvs s v : dict_scan rks rvs s = Some v -> wfq_all rvs = true -> wfq v = true.
Proof. intros H Hv. apply dict_scan_In in H. rewrite forallb_forall in Hv. apply Hv; assumption. Qed.

(* what one visit of a Name does *)
Lemma simp_Name f st bd c x :
  simp f st bd c (Name x) = OutOfFuel
  \/ (stack_lookup x st = None /\ simp f st bd c (Name x) = Ok (Name x, c))
  \/ (exists v, stack_lookup x st = Some v /\ simp f st bd c (Name x) = Ok (v, c)).
Proof.
  destruct f; [left; reflexivity|]. cbn [simp].
  destruct (stack_lookup x st) as [v|] eqn:E; [right; right; eauto | right; left; auto].
Qed.

(* ---------- nodes handled by generic_visit ---------- *)

Definition simple (e : expr) : bool :=
  match e with
  | Const _ | UnaryOp _ _ | BinOp _ _ _ | BoolOp _ _ | Compare _ _ _ | IfExp _ _ _ | Tuple _ | List _
  | Other _ _ _ => true
  | _ => false
  end.

Lemma simple_children e : simple e = true -> wfq e = wfq_all (children e).
Proof.
  destruct e; try discriminate; intros _; cbn [wfq children forallb]; rewrite ?andb_true_r, ?andb_assoc; reflexivity.
Qed.

Lemma simple_rebuild e cs :
  simple e = true -> length cs = length (children e) -> wfq (rebuild e cs) = wfq_all cs.
Proof.
  destruct e; try discriminate; intros _ Hl; cbn [children length] in Hl; cbn [rebuild].
  - destruct cs; [reflexivity | discriminate].
  - destruct cs as [|a [|? ?]]; try discriminate. cbn [wfq forallb]. rewrite andb_true_r; reflexivity.
  - destruct cs as [|a [|b [|? ?]]]; try discriminate. cbn [wfq forallb]. rewrite andb_true_r; reflexivity.
  - reflexivity.
  - destruct cs as [|a cs]; [discriminate|]. reflexivity.
  - destruct cs as [|a [|b [|d [|? ?]]]]; try discriminate. cbn [wfq forallb]. rewrite andb_true_r, andb_assoc; reflexivity.
  - reflexivity.
  - reflexivity.
  - reflexivity.
Qed.

Definition IHf (f : nat) : Prop :=
  forall st bd c e, wfq e = true -> wfst st -> post (simp f st bd c e).

Section Step.
  Variable f : nat.
  Hypothesis IH : IHf f.

  Lemma mapM_post st bd l c :
    wfst st -> wfq_all l = true ->
    match mapM (simp f st bd) c l with
    | Ok (es, _) => wfq_all es = true /\ length es = length l
    | Crash _ => False
    | _ => True
    end.
  Proof.
    intros Hst Hl.
    pose proof (postL_mapM (simp f st bd) l (fun c0 x Hx => IH st bd c0 x Hx Hst) Hl c) as H.
    destruct (mapM (simp f st bd) c l) as [[es c']| | |] eqn:E; simpl in H; auto.
    split; [assumption | eapply mapM_length; eassumption].
  Qed.

  Lemma post_generic st bd c e :
    wfst st -> wfq_all (children e) = true ->
    (forall cs, wfq_all cs = true -> length cs = length (children e) -> wfq (rebuild e cs) = true) ->
    post (let* (cs, c1) := mapM (simp f st bd) c (children e) in Ok (rebuild e cs, c1)).
  Proof.
    intros Hst Hch Hre. pose proof (mapM_post st bd (children e) c Hst Hch) as H.
    destruct (mapM (simp f st bd) c (children e)) as [[es c']| | |]; simpl in *; auto.
    destruct H. apply Hre; assumption.
  Qed.

  Lemma post_simple st bd c e :
    simple e = true -> wfq e = true -> wfst st ->
    post (let* (cs, c1) := mapM (simp f st bd) c (children e) in Ok (rebuild e cs, c1)).
  Proof.
    intros Hs Hw Hst. apply post_generic; [assumption | rewrite <- simple_children; assumption |].
    intros cs Hcs Hl. rewrite simple_rebuild; assumption.
  Qed.

  (* a call whose callee is visited like any other child *)
  Lemma post_call_generic st bd c g args kwn kwv :
    wfst st -> wfq g = true -> wfq_all args = true -> wfq_all kwv = true ->
    post (let* (cs, c1) := mapM (simp f st bd) c (children (Call g args kwn kwv)) in
          Ok (rebuild (Call g args kwn kwv) cs, c1)).
  Proof.
    intros Hst Hg Ha Hk. apply post_generic; [assumption | |].
    - cbn [children forallb]. rewrite Hg, forallb_app, Ha, Hk. reflexivity.
    - intros cs Hcs Hl. cbn [rebuild]. destruct cs as [|g' r]; [discriminate|].
      cbn [forallb] in Hcs. apply andb_true_iff in Hcs. destruct Hcs as [Hg' Hr].
      apply wfq_call; [assumption | apply forallb_firstn; assumption | apply forallb_skipn; assumption].
  Qed.

  (* ... and one whose callee is a plain, non-handler name (First included) *)
  Lemma post_call_name st bd c fn args kwn kwv :
    wfst st -> is_call_handler fn = false -> wfq (Call (Name fn) args kwn kwv) = true ->
    post (let* (cs, c1) := mapM (simp f st bd) c (children (Call (Name fn) args kwn kwv)) in
          Ok (rebuild (Call (Name fn) args kwn kwv) cs, c1)).
  Proof.
    intros Hst Hh Hw. cbn [children mapM].
    assert (Hrest : wfq_all (args ++ kwv) = true).
    { cbn [wfq] in Hw. rewrite Hh in Hw. rewrite forallb_app.
      destruct (String.eqb fn "First"); [|exact Hw].
      apply andb_true_iff in Hw. destruct Hw as [Hw Hk]. apply andb_true_iff in Hw. destruct Hw as [_ Ha].
      rewrite Ha, Hk; reflexivity. }
    destruct (simp_Name f st bd c fn) as [E|[[Hn E]|[v [Hv E]]]]; rewrite E; cbn [sbind]; [exact I| |].
    - (* callee unchanged *)
      pose proof (mapM_post st bd (args ++ kwv) c Hst Hrest) as H.
      fold (mapM (simp f st bd) c (args ++ kwv)).
      destruct (mapM (simp f st bd) c (args ++ kwv)) as [[es c']| | |]; simpl in *; auto.
      destruct H as [Hes Hlen]. cbn [rebuild]. cbn [wfq]. rewrite Hh.
      cbn [wfq] in Hw. rewrite Hh in Hw.
      destruct (String.eqb fn "First").
      + apply andb_true_iff in Hw. destruct Hw as [Hw _]. apply andb_true_iff in Hw. destruct Hw as [Hne _].
        rewrite (forallb_firstn _ _ _ Hes), (forallb_skipn _ _ _ Hes). rewrite andb_true_r.
        destruct args as [|a args]; [discriminate|]. rewrite app_length in Hlen.
        destruct es; [simpl in Hlen; discriminate | reflexivity].
      + rewrite (forallb_firstn _ _ _ Hes), (forallb_skipn _ _ _ Hes). reflexivity.
    - (* callee replaced by its pending definition *)
      pose proof (mapM_post st bd (args ++ kwv) c Hst Hrest) as H.
      fold (mapM (simp f st bd) c (args ++ kwv)).
      destruct (mapM (simp f st bd) c (args ++ kwv)) as [[es c']| | |]; simpl in *; auto.
      destruct H as [Hes Hlen]. apply wfq_call; [eapply Hst; eassumption | apply forallb_firstn; assumption | apply forallb_skipn; assumption].
  Qed.
End Step.

(* ---------- the rules ---------- *)

Section Step2.
  Variable f : nat.
  Hypothesis IH : IHf f.

  (* First(Select(seq, lambda a: body)) re-visited *)
  Lemma post_first_of st bd c seq a body :
    wfst st -> wfq seq = true -> wfq body = true ->
    post (simp f st bd c (function_call "First" [make_Select seq (Lambda [a] body)])).
  Proof.
    intros Hst Hs Hb. apply IH; [|assumption]. apply wfq_First. eapply wfq_make_Select; [reflexivity | assumption | reflexivity | assumption].
  Qed.

  Lemma dict_with_value_post ks vs k (K : option expr -> sres (expr * nat)) :
    wfq (Dict ks vs) = true -> (forall x, wfq x = true -> post (K (Some x))) -> post (K None) ->
    post (sbind (dict_with_value ks vs k) K).
  Proof.
    intros Hw HS HN. cbn [wfq] in Hw. apply andb_true_iff in Hw. destruct Hw as [Hw Hv]. apply andb_true_iff in Hw. destruct Hw as [Hl Hk].
    unfold dict_with_value. rewrite Hl. cbn [sbind].
    destruct (dict_scan (rev ks) (rev vs) k) as [x|] eqn:E; [|exact HN].
    apply HS. eapply dict_scan_wfq; [eassumption|]. rewrite forallb_forall in *. intros y Hy. apply Hv. apply in_rev; assumption.
  Qed.

  Lemma post_Attr st bd c v a :
    wfst st -> wfq (Attr v a) = true -> post (simp (S f) st bd c (Attr v a)).
  Proof.
    intros Hst Hw. cbn [wfq] in Hw. cbn [simp].
    destruct (is_call_of v "First") eqn:Hf.
    - destruct (wfq_First_shape v Hw Hf) as (x & args & kwn & kwv & -> & Hx).
      apply post_first_of; [assumption | assumption |]. cbn [wfq]. rewrite arg_name_not_op. reflexivity.
    - apply post_bind1; [apply IH; assumption|]. intros v' c1 Hv'.
      destruct v'; try (cbn [post wfq]; exact Hv').
      apply dict_with_value_post; [assumption | intros x Hx; exact Hx | cbn [post wfq]; exact Hv'].
  Qed.

  Lemma post_Subscript st bd c v s :
    wfst st -> wfq (Subscript v s) = true -> post (simp (S f) st bd c (Subscript v s)).
  Proof.
    intros Hst Hw. cbn [wfq] in Hw. apply andb_true_iff in Hw. destruct Hw as [Hv Hs]. cbn [simp].
    apply post_bind1; [apply IH; assumption|]. intros v' c1 Hv'.
    apply post_bind1; [apply IH; assumption|]. intros s0 c2 Hs0.
    assert (Hs' : wfq (norm_index s0) = true).
    { destruct s0 as [ | | | | |o a| | | | | | | | | | | | | ]; try exact Hs0.
      destruct o; try exact Hs0. destruct a; try exact Hs0.
      match goal with |- context[Const ?k] => destruct k end; try exact Hs0; reflexivity. }
    cbv zeta. generalize dependent (norm_index s0). intros s' Hs'.
    assert (Hdef : post (if is_call_of v' "First"
                         then match v' with
                              | Call _ (first :: _) _ _ =>
                                  simp f st bd (S c2) (function_call "First" [make_Select first (Lambda [arg_name c2] (Subscript (Name (arg_name c2)) s'))])
                              | _ => Crash "First() without arguments"
                              end
                         else Ok (Subscript v' s', c2))).
    { destruct (is_call_of v' "First") eqn:Hf.
      - destruct (wfq_First_shape v' Hv' Hf) as (x & args & kwn & kwv & -> & Hx).
        apply post_first_of; [assumption | assumption |]. cbn [wfq]. rewrite arg_name_not_op, Hs'. reflexivity.
      - cbn [post wfq]. rewrite Hv', Hs'. reflexivity. }
    destruct s'; try exact Hdef.
    destruct v'; try exact Hdef.
    - (* Tuple *)
      destruct (const_index c0) as [n|]; [|exact Hdef]. destruct (existsb is_starred es); [exact Hdef|].
      pose proof (seq_project_spec es n) as Hp. destruct (seq_project es n) as [x| | |]; cbn [sbind post]; auto.
      destruct Hp as [Hin _]. cbn [wfq] in Hv'. rewrite forallb_forall in Hv'. apply Hv'; assumption.
    - (* List *)
      destruct (const_index c0) as [n|]; [|exact Hdef]. destruct (existsb is_starred es); [exact Hdef|].
      pose proof (seq_project_spec es n) as Hp. destruct (seq_project es n) as [x| | |]; cbn [sbind post]; auto.
      destruct Hp as [Hin _]. cbn [wfq] in Hv'. rewrite forallb_forall in Hv'. apply Hv'; assumption.
    - (* Dict *)
      destruct (const_key c0); [|exact Hdef].
      apply dict_with_value_post; [assumption | intros x Hx; exact Hx | cbn [post wfq]; cbn [wfq] in Hv'; rewrite Hv'; reflexivity].
  Qed.

  Lemma post_Lambda st bd c ps b :
    wfst st -> wfq (Lambda ps b) = true -> post (simp (S f) st bd c (Lambda ps b)).
  Proof.
    intros Hst Hw. apply wfq_lam_iff in Hw. destruct Hw as [Hd Hw]. cbn [simp].
    destruct (existsb (fun n => existsb (String.eqb n) bd || stack_mentions st n) ps).
    - destruct (wfq_make_args_unique ps b c Hw) as (fs & b' & E & Hb' & _ & Hdf). rewrite E.
      apply post_bind1; [apply IH; assumption|]. intros b'' c1 Hb''. cbn [post]. apply wfq_lam_iff; split; assumption.
    - apply post_bind1; [apply IH; assumption|]. intros b'' c1 Hb''. cbn [post]. apply wfq_lam_iff; split; assumption.
  Qed.

  Lemma post_called_lambda st bd c ps body args kwn kwv :
    wfst st -> wfq (Call (Lambda ps body) args kwn kwv) = true ->
    post (simp (S f) st bd c (Call (Lambda ps body) args kwn kwv)).
  Proof.
    intros Hst Hw. cbn [simp].
    assert (Hparts : wfq (Lambda ps body) = true /\ wfq_all args = true /\ wfq_all kwv = true).
    { cbn [wfq] in Hw |- *. apply andb_true_iff in Hw. destruct Hw as [Hw Hk]. apply andb_true_iff in Hw. tauto. }
    destruct Hparts as (Hl & Ha & Hk). pose proof (proj2 (proj1 (wfq_lam_iff ps body) Hl)) as Hb.
    destruct (if existsb is_starred args then None else bind_lambda_call ps args kwn kwv) as [given|] eqn:Eb0.
    - assert (Eb : bind_lambda_call ps args kwn kwv = Some given) by (destruct (existsb is_starred args); [discriminate | exact Eb0]).
      pose proof (bind_lambda_call_wfq _ _ _ _ _ Eb Ha Hk) as Hg.
      pose proof (mapM_post f IH st bd given c Hst Hg) as H.
      destruct (mapM (simp f st bd) c given) as [[args' c1]| | |]; cbn [sbind] in *; auto.
      destruct H as [Hargs' _].
      destruct (wfq_make_args_unique ps body c1 Hb) as (fs & b' & E & Hb' & _ & _). rewrite E.
      apply IH; [assumption | apply wfst_push; assumption].
    - apply (post_call_generic f IH); [assumption | exact Hl | assumption | assumption].
  Qed.

  Lemma simp_Lambda_shape n st bd c ps b e' c' :
    simp n st bd c (Lambda ps b) = Ok (e', c') ->
    exists ps' b', e' = Lambda ps' b' /\ length ps' = length ps /\ (has_dup ps = false -> has_dup ps' = false).
  Proof.
    destruct n; [discriminate|]. cbn [simp].
    destruct (existsb (fun n0 => existsb (String.eqb n0) bd || stack_mentions st n0) ps).
    - unfold make_args_unique.
      destruct (simp n st (bd ++ _) _ _) as [[b2 c2]| | |]; cbn [sbind]; intros H; inversion H.
      eexists; eexists; split; [reflexivity | split; [apply fresh_names_length | intros _; apply fresh_names_nodup]].
    - destruct (simp n st (bd ++ ps) c b) as [[b2 c2]| | |]; cbn [sbind]; intros H; inversion H; eauto.
  Qed.

  Lemma post_lambda_visit st bd c ps b (K : expr * nat -> sres (expr * nat)) :
    wfst st -> has_dup ps = false -> wfq b = true ->
    (forall ps' b' c', wfq b' = true -> length ps' = length ps -> has_dup ps' = false -> post (K (Lambda ps' b', c'))) ->
    post (sbind (simp f st bd c (Lambda ps b)) K).
  Proof.
    intros Hst Hd Hb HK. pose proof (IH st bd c (Lambda ps b) (proj2 (wfq_lam_iff ps b) (conj Hd Hb)) Hst) as H.
    destruct (simp f st bd c (Lambda ps b)) as [[e' c']| | |] eqn:E; cbn [sbind post] in *; auto.
    destruct (simp_Lambda_shape _ _ _ _ _ _ _ _ E) as (ps' & b' & -> & Hlen & Hd').
    apply HK; [exact (proj2 (proj1 (wfq_lam_iff ps' b') H)) | exact Hlen | exact (Hd' Hd)].
  Qed.

  Lemma convolute_shape gps gb fps fb c :
    wfq gb = true -> wfq fb = true ->
    exists x body c', convolute (Lambda gps gb) (Lambda fps fb) c = Ok (Lambda [x] body, c') /\ wfq body = true.
  Proof.
    intros Hg Hf. unfold convolute.
    destruct (wfq_make_args_unique gps gb c Hg) as (gs & gb' & Eg & Hgb' & _ & Hdg). rewrite Eg.
    destruct (wfq_make_args_unique fps fb (c + length gps) Hf) as (fs & fb' & Ef & Hfb' & _ & Hdf). rewrite Ef.
    eexists; eexists; eexists; split; [reflexivity|].
    cbn [wfq forallb]. rewrite Hgb', Hfb', Hdg, Hdf. rewrite arg_name_not_op. reflexivity.
  Qed.

  Ltac strs := cbn [is_call_handler existsb simp_call_handlers String.eqb Ascii.eqb Bool.eqb orb andb negb is_lambda is_call_of unpack2].

  Lemma post_Select st bd c s ps b :
    wfst st -> wfq s = true -> has_dup ps = false -> wfq b = true ->
    post (simp (S f) st bd c (Call (Name "Select") [s; Lambda ps b] [] [])).
  Proof.
    intros Hst Hs Hd Hb. cbn [simp]. strs.
    apply post_bind1; [apply IH; assumption|]. intros parent c1 Hp.
    destruct (is_call_of parent "Select") eqn:E1.
    - destruct (wfq_handler_shape parent "Select" Hp E1 eq_refl) as (src & fps & fb & -> & Hsrc & Hdf & Hfb & _). strs.
      destruct (convolute_shape ps b fps fb c1 Hb Hfb) as (x & body & c2 & Ecv & Hbody). rewrite Ecv. cbn [sbind].
      apply post_lambda_visit; [assumption | reflexivity | assumption|]. intros ps' b' c3 Hb' Hlen' Hd'.
      cbn [post]. eapply wfq_make_Select; [reflexivity | assumption | assumption | assumption].
    - destruct (is_call_of parent "SelectMany") eqn:E2.
      + destruct (wfq_handler_shape parent "SelectMany" Hp E2 eq_refl) as (src & fps & fb & -> & Hsrc & Hdf & Hfb & Hne). strs.
        destruct (wfq_make_args_unique fps fb c1 Hfb) as (fs & fb' & E & Hfb' & Hlen & Hdfs). rewrite E.
        apply IH; [|assumption]. apply wfq_op; [reflexivity | assumption | assumption | | ].
        * eapply wfq_make_Select; [reflexivity | assumption | assumption | assumption].
        * intros _ ->. destruct fps; [apply Hne; reflexivity | discriminate].
      + apply post_lambda_visit; [assumption | assumption | assumption|]. intros ps' b' c2 Hb' Hlen' Hd'.
        cbn [post]. eapply wfq_make_Select; [reflexivity | assumption | assumption | assumption].
  Qed.

  Lemma post_SelectMany st bd c s ps b :
    wfst st -> wfq s = true -> has_dup ps = false -> wfq b = true -> ps <> [] ->
    post (simp (S f) st bd c (Call (Name "SelectMany") [s; Lambda ps b] [] [])).
  Proof.
    intros Hst Hs Hd Hb Hps. cbn [simp]. strs.
    apply post_bind1; [apply IH; assumption|]. intros parent c1 Hp.
    destruct (is_call_of parent "SelectMany") eqn:E1.
    - destruct (wfq_handler_shape parent "SelectMany" Hp E1 eq_refl) as (src & fps & fb & -> & Hsrc & Hdf & Hfb & Hne).
      destruct (wfq_make_args_unique fps fb c1 Hfb) as (fs & fb' & E & Hfb' & Hlen & Hdfs). rewrite E.
      destruct fs as [|fp fs]; [destruct fps; [exfalso; apply Hne; reflexivity | discriminate]|].
      apply IH; [|assumption]. apply wfq_op; [reflexivity | assumption | reflexivity | | intros _; discriminate].
      apply wfq_op; [reflexivity | assumption | assumption | assumption | intros _; assumption].
    - destruct (is_call_of parent "Select") eqn:E2.
      + destruct (wfq_handler_shape parent "Select" Hp E2 eq_refl) as (src & fps & fb & -> & Hsrc & Hdf & Hfb & _). strs.
        destruct (convolute_shape ps b fps fb c1 Hb Hfb) as (x & body & c2 & Ecv & Hbody). rewrite Ecv. cbn [sbind].
        apply post_lambda_visit; [assumption | reflexivity | assumption|]. intros ps' b' c3 Hb' Hlen' Hd'.
        cbn [post]. apply wfq_op; [reflexivity | assumption | assumption | assumption |].
        intros _ ->. discriminate.
      + apply post_lambda_visit; [assumption | assumption | assumption|]. intros ps' b' c2 Hb' Hlen' Hd'.
        cbn [post]. apply wfq_op; [reflexivity | assumption | assumption | assumption |].
        intros _ ->. destruct ps; [apply Hps; reflexivity | discriminate].
  Qed.

  Lemma post_Where st bd c s ps b :
    wfst st -> wfq s = true -> has_dup ps = false -> wfq b = true ->
    post (simp (S f) st bd c (Call (Name "Where") [s; Lambda ps b] [] [])).
  Proof.
    intros Hst Hs Hd Hb. cbn [simp]. strs.
    apply post_bind1; [apply IH; assumption|]. intros parent c1 Hp.
    destruct (is_call_of parent "Where") eqn:E1.
    - destruct (wfq_handler_shape parent "Where" Hp E1 eq_refl) as (src & fps & fb & -> & Hsrc & Hdf & Hfb & _). strs.
      apply IH; [|assumption]. apply wfq_op; [reflexivity | assumption | reflexivity | | intros; discriminate].
      cbn [wfq forallb]. rewrite Hfb, Hb, Hdf, Hd, arg_name_not_op. reflexivity.
    - destruct (is_call_of parent "Select") eqn:E2.
      + destruct (wfq_handler_shape parent "Select" Hp E2 eq_refl) as (src & fps & fb & -> & Hsrc & Hdf & Hfb & _). strs.
        destruct (convolute_shape ps b fps fb c1 Hb Hfb) as (x & body & c2 & Ecv & Hbody). rewrite Ecv. cbn [sbind].
        apply post_lambda_visit; [assumption | reflexivity | assumption|]. intros ps' b' c3 Hb' Hlen' Hd'.
        apply IH; [|assumption]. eapply wfq_make_Select; [reflexivity | | assumption | assumption].
        apply wfq_op; [reflexivity | assumption | assumption | assumption | intros; discriminate].
      + destruct (is_call_of parent "SelectMany") eqn:E3.
        * destruct (wfq_handler_shape parent "SelectMany" Hp E3 eq_refl) as (src & fps & fb & -> & Hsrc & Hdf & Hfb & Hne). strs.
          destruct (wfq_make_args_unique fps fb c1 Hfb) as (fs & fb' & E & Hfb' & Hlen & Hdfs). rewrite E.
          apply IH; [|assumption]. apply wfq_op; [reflexivity | assumption | assumption | | ].
          -- apply wfq_op; [reflexivity | assumption | assumption | assumption | intros; discriminate].
          -- intros _ ->. destruct fps; [apply Hne; reflexivity | discriminate].
        * apply post_lambda_visit; [assumption | assumption | assumption|]. intros ps' b' c2 Hb' Hlen' Hd'.
          destruct (lambda_is_true (Lambda ps' b')); cbn [post]; [assumption|].
          apply wfq_op; [reflexivity | assumption | assumption | assumption | intros; discriminate].
  Qed.

  Lemma post_method_on_First st bd c fn fargs k1 k2 m margs kwn kwv :
    wfst st -> wfq (Call (Attr (Call (Name fn) fargs k1 k2) m) margs kwn kwv) = true ->
    post (simp (S f) st bd c (Call (Attr (Call (Name fn) fargs k1 k2) m) margs kwn kwv)).
  Proof.
    intros Hst Hw. cbn [simp].
    assert (Hparts : wfq (Call (Name fn) fargs k1 k2) = true /\ wfq_all margs = true /\ wfq_all kwv = true).
    { cbn [wfq] in Hw. apply andb_true_iff in Hw. destruct Hw as [Hw Hk]. apply andb_true_iff in Hw. destruct Hw as [Hf Ha].
      cbn [wfq]. tauto. }
    destruct Hparts as (Hf & Ha & Hk).
    destruct (String.eqb fn "First") eqn:E.
    - apply String.eqb_eq in E; subst fn.
      destruct (wfq_First_shape _ Hf eq_refl) as (x & args & kwn' & kwv' & Heq & Hx). inversion Heq; subst.
      apply post_first_of; [assumption | assumption |].
      apply wfq_call; [cbn [wfq]; rewrite arg_name_not_op; reflexivity | assumption | assumption].
    - apply (post_call_generic f IH); [assumption | cbn [wfq]; exact Hf | assumption | assumption].
  Qed.
End Step2.

Lemma post_Dict f (IH : IHf f) st bd c ks vs :
  wfst st -> wfq (Dict ks vs) = true ->
  post (let* (cs, c1) := mapM (simp f st bd) c (children (Dict ks vs)) in Ok (rebuild (Dict ks vs) cs, c1)).
Proof.
  intros Hst Hw. cbn [wfq] in Hw. apply andb_true_iff in Hw. destruct Hw as [Hw Hv]. apply andb_true_iff in Hw. destruct Hw as [Hl Hk].
  apply Nat.eqb_eq in Hl.
  apply (post_generic f IH); [assumption | cbn [children]; rewrite forallb_app, Hk, Hv; reflexivity |].
  intros cs Hcs Hlen. cbn [children] in Hlen. rewrite app_length in Hlen. cbn [rebuild wfq].
  rewrite (forallb_firstn _ _ _ Hcs), (forallb_skipn _ _ _ Hcs), andb_true_r, andb_true_r.
  apply Nat.eqb_eq. rewrite firstn_length, skipn_length. lia.
Qed.

Lemma wfq_call_parts g args kwn kwv :
  (forall n, g <> Name n) -> wfq (Call g args kwn kwv) = true ->
  wfq g = true /\ wfq_all args = true /\ wfq_all kwv = true.
Proof.
  intros Hn Hw. destruct g; try (exfalso; eapply Hn; reflexivity);
    cbn [wfq] in Hw; apply andb_true_iff in Hw; destruct Hw as [Hw Hk]; apply andb_true_iff in Hw; destruct Hw as [Hg Ha];
    cbn [wfq]; auto.
Qed.

Theorem simp_no_crash : forall f, IHf f.
Proof.
  induction f as [|f IH]; intros st bd c e Hw Hst; [exact I|].
  destruct e; try (apply (post_simple f IH st bd c); [reflexivity | assumption | assumption]).
  - (* Name *)
    cbn [simp]. destruct (stack_lookup id st) as [v|] eqn:E; cbn [post]; [eapply Hst; eassumption | exact Hw].
  - (* Attr *) apply post_Attr; assumption.
  - (* Call *)
    destruct e;
      try (match type of Hw with wfq (Call ?g _ _ _) = true => destruct (wfq_call_parts g _ _ _ ltac:(intros; discriminate) Hw) as (Hg & Ha & Hk) end;
           apply (post_call_generic f IH st bd c); assumption).
    + (* callee is a name *)
      destruct (is_call_handler id) eqn:Hh.
      * destruct (wfq_handler_shape (Call (Name id) args kwn kwv) id Hw) as (s & ps & b & Heq & Hs & Hd & Hb & Hne);
          [cbn [is_call_of]; apply String.eqb_refl | assumption |].
        inversion Heq; subst.
        destruct (handler_cases id Hh) as [-> | [-> | ->]].
        -- apply post_Select; assumption.
        -- apply post_SelectMany; try assumption. apply Hne; reflexivity.
        -- apply post_Where; assumption.
      * cbn [simp]. rewrite Hh. apply (post_call_name f IH); assumption.
    + (* method call *)
      match goal with |- context[Call (Attr ?v _) _ _ _] => destruct v end;
        try (match type of Hw with wfq (Call ?g _ _ _) = true => destruct (wfq_call_parts g _ _ _ ltac:(intros; discriminate) Hw) as (Hg & Ha & Hk) end;
             apply (post_call_generic f IH st bd c); assumption).
      match goal with |- context[Call (Attr (Call ?v _ _ _) _) _ _ _] => destruct v end;
        try (match type of Hw with wfq (Call ?g _ _ _) = true => destruct (wfq_call_parts g _ _ _ ltac:(intros; discriminate) Hw) as (Hg & Ha & Hk) end;
             apply (post_call_generic f IH st bd c); assumption).
      apply post_method_on_First; assumption.
    + (* called lambda *) apply post_called_lambda; assumption.
  - (* Lambda *) apply post_Lambda; assumption.
  - (* Dict *) apply (post_Dict f IH); assumption.
  - (* Subscript *) apply post_Subscript; assumption.
  - discriminate.       (* comprehensions and raw slots are not well-formed *)
  - discriminate.
  - discriminate.
  - discriminate.
Qed.

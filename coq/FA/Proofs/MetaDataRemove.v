(* C15, second half: remove_empty_metadata removes exactly the two-argument MetaData wrappers
   whose (visited) second argument evaluates to an empty dictionary; keeps everything else in place;
   is idempotent; and raises exactly when a visited two-argument wrapper has a non-literal second
   argument. *)
From FA.Base Require Import PyAst Induct Value Traverse.
From FA.Model Require Import MetaData.
From FA.Proofs Require Import TraverseFacts Refine EvalCong TraverseTFacts MetaDataProofs.
From Coq Require Import Lia.

(* a call [MetaData(a0, a1, k=...)] by name with exactly two positional arguments *)
Definition is_md2 (n : expr) : bool :=
  match n with
  | Call (Name fn) [_; _] _ _ => String.eqb fn md_name
  | _ => false
  end.

(* The pass as a relation.  [rebuild e cs'] is the node [e] around its processed children (what
   generic_visit returns); the test is made on that node:
   - not a two-argument wrapper: kept;
   - a two-argument wrapper whose dictionary is a non-empty literal (or a literal that is not a
     dictionary): kept, in place, with its processed children;
   - a two-argument wrapper whose dictionary evaluates to {}: replaced by its processed source;
   - (no clause when the second argument is not a literal: the function raises). *)
Inductive remove_spec : expr -> expr -> Prop :=
 | RS_keep e cs' :
     Forall2 remove_spec (children e) cs' -> is_md2 (rebuild e cs') = false ->
     remove_spec e (rebuild e cs')
 | RS_nonempty e cs' a0 a1 kwn kwv d :
     Forall2 remove_spec (children e) cs' ->
     rebuild e cs' = Call (Name md_name) [a0; a1] kwn kwv ->
     literal_eval a1 = Some d -> is_empty_dict d = false ->
     remove_spec e (rebuild e cs')
 | RS_empty e cs' a0 a1 kwn kwv d :
     Forall2 remove_spec (children e) cs' ->
     rebuild e cs' = Call (Name md_name) [a0; a1] kwn kwv ->
     literal_eval a1 = Some d -> is_empty_dict d = true ->
     remove_spec e a0.

Lemma is_call_rebuild e cs : is_call (rebuild e cs) = is_call e.
Proof. destruct e; try reflexivity; destruct cs as [|? [|? [|? [|? ?]]]]; reflexivity. Qed.

Lemma is_md2_call n : is_md2 n = true -> is_call n = true.
Proof. destruct n; try discriminate; reflexivity. Qed.

Lemma is_md2_inv n : is_md2 n = true -> exists a0 a1 kwn kwv, n = Call (Name md_name) [a0; a1] kwn kwv.
Proof.
  destruct n; try discriminate. destruct n; try discriminate.
  destruct args as [|a0 [|a1 [|? ?]]]; try discriminate. simpl. intros H.
  apply String.eqb_eq in H. subst. eauto.
Qed.

Lemma clean_call_noncall n : is_call n = false -> clean_call n = Some n.
Proof. destruct n; try reflexivity; discriminate. Qed.

Lemma clean_call_not_md2 n : is_md2 n = false -> clean_call n = Some n.
Proof.
  intros H. destruct n; try reflexivity. destruct n; try reflexivity.
  destruct args as [|a0 [|a1 [|? ?]]]; try reflexivity. simpl in H. cbn [clean_call]. rewrite H. reflexivity.
Qed.

Lemma clean_call_md2 a0 a1 kwn kwv :
  clean_call (Call (Name md_name) [a0; a1] kwn kwv) =
  obind (literal_eval a1) (fun d => Some (if is_empty_dict d then a0 else Call (Name md_name) [a0; a1] kwn kwv)).
Proof. cbn [clean_call]. rewrite String.eqb_refl. reflexivity. Qed.

(* the code's own shape: generic_visit, then the test on the visited node *)
Lemma remove_unfold e : remove_empty e = obind (map_children remove_empty e) clean_call.
Proof.
  destruct (is_call e) eqn:Hc.
  - destruct e; try discriminate. reflexivity.
  - assert (H : remove_empty e = map_children remove_empty e) by (destruct e; try reflexivity; discriminate).
    rewrite H. destruct (map_children remove_empty e) as [n|] eqn:Hn; [|reflexivity].
    cbn [obind]. apply map_children_rebuild in Hn. destruct Hn as [cs' [_ ->]].
    rewrite clean_call_noncall; [reflexivity|]. rewrite is_call_rebuild. assumption.
Qed.

Lemma remove_some e e' :
  remove_empty e = Some e' <->
  exists cs', omap remove_empty (children e) = Some cs' /\ clean_call (rebuild e cs') = Some e'.
Proof.
  rewrite remove_unfold. split.
  - intros H. apply obind_some in H. destruct H as [n [Hn Hc]].
    apply map_children_rebuild in Hn. destruct Hn as [cs' [Hcs ->]]. eauto.
  - intros (cs' & Hcs & Hc). rewrite (map_children_of_omap _ _ _ Hcs). exact Hc.
Qed.

Theorem remove_sound : forall e e', remove_empty e = Some e' -> remove_spec e e'.
Proof.
  induction e as [e IH] using expr_size_ind. intros e' He.
  apply remove_some in He. destruct He as (cs' & Hcs & Hc).
  assert (HF : Forall2 remove_spec (children e) cs').
  { eapply omap_Forall2; [|eassumption]. apply Forall_children_size. exact IH. }
  destruct (is_md2 (rebuild e cs')) eqn:Hm.
  - destruct (is_md2_inv _ Hm) as (a0 & a1 & kwn & kwv & Hn).
    rewrite Hn, clean_call_md2 in Hc. apply obind_some in Hc. destruct Hc as [d [Hd Hc]].
    destruct (is_empty_dict d) eqn:Hemp; inversion Hc; subst e'; clear Hc.
    + eapply RS_empty; eassumption.
    + rewrite <- Hn. eapply RS_nonempty; eassumption.
  - rewrite clean_call_not_md2 in Hc by assumption. inversion Hc; subst. apply RS_keep; assumption.
Qed.

Lemma remove_spec_children e cs' :
  (forall e0, size e0 < size e -> forall e0', remove_spec e0 e0' -> remove_empty e0 = Some e0') ->
  Forall2 remove_spec (children e) cs' -> omap remove_empty (children e) = Some cs'.
Proof.
  intros IH HF. apply omap_of_Forall2.
  eapply Forall_Forall2_impl; [|eassumption]. apply Forall_children_size. exact IH.
Qed.

Theorem remove_spec_fun : forall e e', remove_spec e e' -> remove_empty e = Some e'.
Proof.
  induction e as [e IH] using expr_size_ind. intros e' Hs.
  inversion Hs; subst; apply remove_some; exists cs'; (split; [apply remove_spec_children; assumption|]).
  - apply clean_call_not_md2. assumption.
  - match goal with H : rebuild e cs' = _ |- _ => rewrite H end. rewrite clean_call_md2.
    match goal with H : literal_eval _ = _ |- _ => rewrite H end. cbn [obind].
    match goal with H : is_empty_dict _ = _ |- _ => rewrite H end. reflexivity.
  - match goal with H : rebuild e cs' = _ |- _ => rewrite H end. rewrite clean_call_md2.
    match goal with H : literal_eval _ = _ |- _ => rewrite H end. cbn [obind].
    match goal with H : is_empty_dict _ = _ |- _ => rewrite H end. reflexivity.
Qed.

Theorem remove_exact : forall e e', remove_empty e = Some e' <-> remove_spec e e'.
Proof. intros; split; [apply remove_sound | apply remove_spec_fun]. Qed.

(* ---------- idempotence ---------- *)

Lemma omap_fixed (l : list expr) : Forall (fun c => remove_empty c = Some c) l -> omap remove_empty l = Some l.
Proof. intros H. apply omap_of_Forall2. induction H; constructor; assumption. Qed.

Lemma Forall2_right {A B} (P : B -> Prop) (R : A -> B -> Prop) l r :
  Forall (fun x => forall y, R x y -> P y) l -> Forall2 R l r -> Forall P r.
Proof.
  intros HF H2. revert HF. induction H2; intros HF; inversion HF; subst; constructor; auto.
Qed.

Theorem remove_idem : forall e e', remove_empty e = Some e' -> remove_empty e' = Some e'.
Proof.
  induction e as [e IH] using expr_size_ind. intros e' He.
  apply remove_some in He. destruct He as (cs' & Hcs & Hc).
  assert (HF : Forall (fun c => remove_empty c = Some c) cs').
  { eapply Forall2_right; [|eapply omap_Forall2; [|eassumption]].
    - apply Forall_children_size. intros c Hc0 y Hy. exact (IH c Hc0 y Hy).
    - apply Forall_forall. intros x _ y Hy. exact Hy. }
  assert (Hlen : length cs' = length (children e)) by (eapply omap_length; eassumption).
  assert (Hn : map_children remove_empty (rebuild e cs') = Some (rebuild e cs')).
  { rewrite <- (rebuild_children (rebuild e cs')) at 2.
    apply map_children_of_omap. rewrite children_rebuild by assumption. apply omap_fixed. assumption. }
  destruct (is_md2 (rebuild e cs')) eqn:Hm.
  - destruct (is_md2_inv _ Hm) as (a0 & a1 & kwn & kwv & Hr).
    rewrite Hr, clean_call_md2 in Hc. apply obind_some in Hc. destruct Hc as [d [Hd Hc]].
    destruct (is_empty_dict d) eqn:Hemp; inversion Hc; subst e'; clear Hc.
    + (* the source, a processed child *)
      assert (Hin : In a0 cs').
      { rewrite <- (children_rebuild e cs' Hlen), Hr. cbn [children]. right; left; reflexivity. }
      rewrite Forall_forall in HF. apply HF; assumption.
    + rewrite remove_unfold, <- Hr, Hn. cbn [obind]. rewrite Hr, clean_call_md2, Hd. cbn [obind].
      rewrite Hemp. reflexivity.
  - rewrite clean_call_not_md2 in Hc by assumption. inversion Hc; subst e'.
    rewrite remove_unfold, Hn. cbn [obind]. apply clean_call_not_md2. assumption.
Qed.

(* ---------- when does it raise ---------- *)

(* exactly when, somewhere, the visited form of a call is a two-argument wrapper whose second
   argument is not a literal *)
Inductive remove_raises : expr -> Prop :=
 | RR_child e c : In c (children e) -> remove_raises c -> remove_raises e
 | RR_here e cs' a0 a1 kwn kwv :
     omap remove_empty (children e) = Some cs' ->
     rebuild e cs' = Call (Name md_name) [a0; a1] kwn kwv -> literal_eval a1 = None ->
     remove_raises e.

Lemma omap_none_in {A B} (f : A -> option B) l : omap f l = None -> exists x, In x l /\ f x = None.
Proof.
  induction l as [|x xs IH]; [discriminate|]. rewrite omap_cons.
  destruct (f x) eqn:Hx; [|intros _; exists x; split; [left; reflexivity | assumption]].
  cbn [obind]. destruct (omap f xs) eqn:Hxs; [discriminate|]. intros _.
  destruct (IH eq_refl) as (y & Hy & Hf). exists y. split; [right; assumption | assumption].
Qed.

Theorem remove_none_iff : forall e, remove_empty e = None <-> remove_raises e.
Proof.
  induction e as [e IH] using expr_size_ind. split.
  - intros He. destruct (omap remove_empty (children e)) as [cs'|] eqn:Hcs.
    + rewrite remove_unfold, (map_children_of_omap _ _ _ Hcs) in He. cbn [obind] in He.
      destruct (is_md2 (rebuild e cs')) eqn:Hm.
      * destruct (is_md2_inv _ Hm) as (a0 & a1 & kwn & kwv & Hr).
        rewrite Hr, clean_call_md2 in He. destruct (literal_eval a1) eqn:Hd; [discriminate|].
        eapply RR_here; eassumption.
      * rewrite clean_call_not_md2 in He by assumption. discriminate.
    + apply omap_none_in in Hcs. destruct Hcs as (c & Hin & Hc).
      eapply RR_child; [eassumption|]. apply (proj1 (IH c (size_child _ _ Hin))). assumption.
  - intros Hr. inversion Hr; subst.
    + match goal with Hin : In ?c (children e), Hrc : remove_raises ?c |- _ =>
        apply (proj2 (IH c (size_child _ _ Hin))) in Hrc; rename Hrc into Hnone; rename Hin into Hin0 end.
      destruct (remove_empty e) as [e'|] eqn:He; [|reflexivity].
      apply remove_some in He. destruct He as (cs' & Hcs & _).
      apply in_split in Hin0. destruct Hin0 as (l1 & l2 & Hl). rewrite Hl in Hcs.
      apply omap_app_some in Hcs. destruct Hcs as (r1 & r2 & _ & H2 & _).
      apply omap_cons_some in H2. destruct H2 as (y & ? & Hy & _). congruence.
    + rewrite remove_unfold.
      match goal with H : omap remove_empty _ = Some _ |- _ => rewrite (map_children_of_omap _ _ _ H) end.
      cbn [obind].
      match goal with H : rebuild e _ = _ |- _ => rewrite H end. rewrite clean_call_md2.
      match goal with H : literal_eval _ = None |- _ => rewrite H end. reflexivity.
Qed.


(* The fusion rules of the simplifier in the exact form the model [simp] applies them (C02).

   Proofs/SimplifySem.v proves the seven rules for un-renamed one-parameter lambdas.  [simp] applies
   them to the lambdas produced by [make_args_unique] / [convolute] (parameters renamed to fresh
   names drawn from the counter) and to lambdas of any number of parameters.  Here:

   - the seven rules on the terms [simp] builds, for lambdas of ANY arity (an operator whose lambda
     does not have exactly one parameter has no value, so the refinement is trivial there; with one
     parameter: [rename_param_sound] + the combinator laws of SimplifySem + monotonicity of the
     combinators under pointwise refinement);
   - [mau_sound_gen]: [make_args_unique] on a lambda of any number of parameters gives a lambda
     that refines the original pointwise (generalises [make_args_unique_sound1]).

   [refines o o'] reads "whatever [o] evaluates to, [o'] evaluates to". *)
From FA.Base Require Import PyAst Induct Value Eval Traverse Names.
From FA.Gen Require Import TablesSimp.
From FA.Model Require Import Simplify.
From FA.Proofs Require Import TraverseFacts Refine EvalCong EvalAgree RenameSem EvalRel SimplifyFacts SimplifySem SimplifyTotal SimplifyInv.
From Coq Require Import Lia.

(* ------------------------------------------------------------------ combinators are monotone *)

Lemma Sel_mono S S' f f' : refines S S' -> frefines f f' -> refines (Sel S f) (Sel S' f').
Proof.
  intros HS Hf. unfold Sel. apply obind_refines; [exact HS|]. intros s. apply obind_refines_r. intros l.
  apply option_map_refines. apply omap_refines. exact Hf.
Qed.

Lemma Whr_mono S S' f f' : refines S S' -> frefines f f' -> refines (Whr S f) (Whr S' f').
Proof.
  intros HS Hf. unfold Whr. apply obind_refines; [exact HS|]. intros s. apply obind_refines_r. intros l.
  apply option_map_refines. apply ofilter_refines. intros x. apply option_map_refines. apply Hf.
Qed.

Lemma Many_mono S S' f f' : refines S S' -> frefines f f' -> refines (Many S f) (Many S' f').
Proof.
  intros HS Hf. unfold Many. apply obind_refines; [exact HS|]. intros s. apply obind_refines_r. intros l.
  apply obind_refines_l. apply omap_refines. intros x. apply obind_refines_l. apply Hf.
Qed.

(* ------------------------------------------------------------------ association lists built by rev/combine *)

Lemma lookup_rev_combine_notin z ps (vs : list value) E :
  existsb (String.eqb z) ps = false -> lookup z (rev (combine ps vs) ++ E) = lookup z E.
Proof.
  revert vs E; induction ps as [|p ps IH]; intros vs E Hz; [reflexivity|].
  destruct vs as [|v vs]; [reflexivity|].
  cbn [combine rev]. rewrite <- app_assoc. cbn [app existsb] in *.
  apply orb_false_iff in Hz. destruct Hz as [Hzp Hz].
  rewrite (IH vs _ Hz). cbn [lookup]. rewrite Hzp. reflexivity.
Qed.

Lemma ren_lookup_rev_combine_notin z ps fs :
  existsb (String.eqb z) ps = false -> ren_lookup z (rev (combine ps fs)) = None.
Proof.
  revert fs; induction ps as [|p ps IH]; intros fs Hz; [reflexivity|].
  destruct fs as [|f fs]; [reflexivity|].
  cbn [combine rev existsb] in *. apply orb_false_iff in Hz. destruct Hz as [Hzp Hz].
  rewrite ren_lookup_app, (IH fs Hz). cbn [ren_lookup]. rewrite Hzp. reflexivity.
Qed.

(* a parameter, its fresh name and its value sit at the same (last) position *)
Lemma lookup_rev_combine_in ps : forall fs (vs : list value) E E' z,
  length fs = length ps -> length vs = length ps -> has_dup fs = false ->
  existsb (String.eqb z) ps = true ->
  exists f v, ren_lookup z (rev (combine ps fs)) = Some f /\
              lookup z (rev (combine ps vs) ++ E) = Some v /\
              lookup f (rev (combine fs vs) ++ E') = Some v.
Proof.
  induction ps as [|p ps IH]; intros fs vs E E' z Hlf Hlv Hdf Hz; [discriminate|].
  destruct fs as [|f0 fs]; [discriminate|]. destruct vs as [|v0 vs]; [discriminate|].
  cbn [length] in Hlf, Hlv. injection Hlf as Hlf. injection Hlv as Hlv.
  cbn [has_dup] in Hdf. apply orb_false_iff in Hdf. destruct Hdf as [Hf0 Hdf].
  cbn [combine rev]. rewrite <- !app_assoc. cbn [app].
  destruct (existsb (String.eqb z) ps) eqn:Hzps.
  - destruct (IH fs vs ((p, v0) :: E) ((f0, v0) :: E') z Hlf Hlv Hdf Hzps) as (f & v & H1 & H2 & H3).
    exists f, v. split; [|split; assumption].
    rewrite ren_lookup_app, H1. reflexivity.
  - cbn [existsb] in Hz. rewrite Hzps, orb_false_r in Hz.
    exists f0, v0. split; [|split].
    + rewrite ren_lookup_app, (ren_lookup_rev_combine_notin _ _ _ Hzps). cbn [ren_lookup]. rewrite Hz. reflexivity.
    + rewrite (lookup_rev_combine_notin _ _ _ _ Hzps). cbn [lookup]. rewrite Hz. reflexivity.
    + rewrite (lookup_rev_combine_notin _ _ _ _ Hf0). cbn [lookup]. rewrite String.eqb_refl. reflexivity.
Qed.

Lemma existsb_eqb_in z (l : list string) : existsb (String.eqb z) l = true <-> In z l.
Proof.
  rewrite existsb_exists. split.
  - intros (y & Hy & Heq). apply String.eqb_eq in Heq; subst; assumption.
  - intros H. exists z. split; [assumption | apply String.eqb_refl].
Qed.

Lemma ren_lookup_in x y (l : list (string * string)) : ren_lookup x l = Some y -> In (x, y) l.
Proof.
  induction l as [|[a b] l IH]; simpl; intros Hl; [discriminate|].
  destruct (String.eqb x a) eqn:E; [apply String.eqb_eq in E; inversion Hl; subst; left; reflexivity | right; auto].
Qed.

Lemma combine_inj_r (l1 l2 : list string) a b y :
  has_dup l2 = false -> In (a, y) (combine l1 l2) -> In (b, y) (combine l1 l2) -> a = b.
Proof.
  revert l2; induction l1 as [|p l1 IH]; intros l2 Hd Ha Hb; [contradiction|].
  destruct l2 as [|f l2]; [contradiction|].
  cbn [has_dup] in Hd. apply orb_false_iff in Hd. destruct Hd as [Hf Hd].
  assert (Hnot : forall q, In (q, f) (combine l1 l2) -> False).
  { intros q Hq. apply in_combine_r in Hq. apply existsb_eqb_in in Hq. congruence. }
  cbn [combine] in Ha, Hb. destruct Ha as [Ha|Ha]; destruct Hb as [Hb|Hb].
  - congruence.
  - inversion Ha; subst. exfalso. eapply Hnot; eassumption.
  - inversion Hb; subst. exfalso. eapply Hnot; eassumption.
  - eapply IH; eassumption.
Qed.

Section Rules.
  Variable B : backend.
  Variable ops : list string.
  Notation ev := (eval B ops).
  Notation FC := function_call.
  Notation lam := (lam1 B ops).

  (* ---------------------------------------------------------------- operators in general form *)

  Lemma eval_Select_gen E s t :
    ev E (FC "Select" [s; t])
    = obind (ev E s) (fun s0 => obind (as_list s0) (fun l => obind (av_f1 (view B ops E t)) (fun f =>
        option_map VList (omap f l)))).
  Proof. reflexivity. Qed.

  Lemma eval_Where_gen E s t :
    ev E (FC "Where" [s; t])
    = obind (ev E s) (fun s0 => obind (as_list s0) (fun l => obind (av_f1 (view B ops E t)) (fun f =>
        option_map VList (ofilter (fun v => option_map truthy (f v)) l)))).
  Proof. reflexivity. Qed.

  Lemma eval_SelectMany_gen E s t :
    ev E (FC "SelectMany" [s; t])
    = obind (ev E s) (fun s0 => obind (as_list s0) (fun l => obind (av_f1 (view B ops E t)) (fun f =>
        obind (omap (fun v => obind (f v) as_list) l) (fun ls => Some (VList (concat ls)))))).
  Proof. reflexivity. Qed.

  Definition seqop (op : string) : Prop := op = "Select"%string \/ op = "Where"%string \/ op = "SelectMany"%string.

  Lemma seqop_Select : seqop "Select". Proof. left; reflexivity. Qed.
  Lemma seqop_Where : seqop "Where". Proof. right; left; reflexivity. Qed.
  Lemma seqop_SelectMany : seqop "SelectMany". Proof. right; right; reflexivity. Qed.

  (* no value without a source *)
  Lemma op_src_none op E s t : seqop op -> ev E s = None -> ev E (FC op [s; t]) = None.
  Proof.
    intros [-> | [-> | ->]] Hs; [rewrite eval_Select_gen | rewrite eval_Where_gen | rewrite eval_SelectMany_gen];
      rewrite Hs; reflexivity.
  Qed.

  (* no value when the argument is not a one-parameter lambda *)
  Lemma op_nolam op E s t : seqop op -> av_f1 (view B ops E t) = None -> ev E (FC op [s; t]) = None.
  Proof.
    intros [-> | [-> | ->]] Hn; [rewrite eval_Select_gen | rewrite eval_Where_gen | rewrite eval_SelectMany_gen];
      rewrite Hn; (destruct (ev E s) as [sv|]; [|reflexivity]); cbn [obind]; destruct (as_list sv); reflexivity.
  Qed.

  Lemma f1_cases t : (exists x b, t = Lambda [x] b) \/ (forall E, av_f1 (view B ops E t) = None).
  Proof.
    destruct t; try (right; intros E; reflexivity).
    destruct ps as [|x [|y ps]]; [right; intros E; reflexivity | left; eauto | right; intros E; reflexivity].
  Qed.

  Lemma nolam_nil E b : av_f1 (view B ops E (Lambda [] b)) = None.
  Proof. reflexivity. Qed.
  Lemma nolam_two E x y ps b : av_f1 (view B ops E (Lambda (x :: y :: ps) b)) = None.
  Proof. reflexivity. Qed.

  (* op2(op1(src, f), t) has no value when f or t is not a one-parameter lambda *)
  Lemma op2_none op1 op2 E src f t :
    seqop op1 -> seqop op2 ->
    av_f1 (view B ops E f) = None \/ av_f1 (view B ops E t) = None ->
    ev E (FC op2 [FC op1 [src; f]; t]) = None.
  Proof.
    intros H1 H2 [Hn|Hn].
    - apply op_src_none; [assumption|]. apply op_nolam; assumption.
    - apply op_nolam; assumption.
  Qed.

  (* ---------------------------------------------------------------- make_args_unique, one parameter *)

  Lemma below_lambda c ps b : below c (Lambda ps b) -> below c b.
  Proof. intros H n Hn. specialize (H n Hn). cbn [mentions] in H. apply orb_false_iff in H. tauto. Qed.

  Lemma mau1_eq x b c :
    make_args_unique [x] b c = (Lambda [arg_name c] (rename [(x, arg_name c)] b), c + 1).
  Proof. reflexivity. Qed.

  Lemma mau1_refines x b c E v :
    below c (Lambda [x] b) -> bok B (Lambda [x] b) ->
    refines (lam E x b v) (lam E (arg_name c) (rename [(x, arg_name c)] b) v).
  Proof.
    intros Hb Hok. unfold lam1. apply rename_param_sound. intros _. split.
    - apply (below_lambda _ _ _ Hb). apply le_n.
    - right. apply (proj1 (bok_lambda _ _ _ Hok)). left; reflexivity.
  Qed.

  Lemma mau1_fresh x b c k :
    below c (Lambda [x] b) -> c + 1 <= k -> occurs (arg_name k) (rename [(x, arg_name c)] b) = false.
  Proof.
    intros Hb Hk. apply not_mentions_not_occurs.
    pose proof (below_mau [x] b c Hb) as Hm. rewrite mau1_eq in Hm. cbn [fst length] in Hm.
    apply (below_lambda _ _ _ Hm). exact Hk.
  Qed.

  Lemma below_occurs c e k : below c e -> c <= k -> occurs (arg_name k) e = false.
  Proof. intros Hb Hk. apply not_mentions_not_occurs. apply Hb. exact Hk. Qed.

  (* ---------------------------------------------------------------- convolute, one parameter each *)

  Lemma conv1 x fb y tb c cv c' :
    below c (Lambda [x] fb) -> below c (Lambda [y] tb) -> bok B (Lambda [x] fb) -> bok B (Lambda [y] tb) ->
    convolute (Lambda [y] tb) (Lambda [x] fb) c = Ok (cv, c') ->
    exists z body, cv = Lambda [z] body /\
      forall E, frefines (kleisli (lam E x fb) (lam E y tb)) (lam E z body).
  Proof.
    intros Hbf Hbt Hokf Hokt Hc. unfold convolute in Hc. rewrite !mau1_eq in Hc. inversion Hc; subst; clear Hc.
    eexists; eexists; split; [reflexivity|]. intros E v.
    assert (Hbf1 : below (c + 1) (Lambda [x] fb)) by (eapply below_mono; [|exact Hbf]; lia).
    unfold lam1 at 3. rewrite eval_convolute_body.
    - unfold kleisli. apply obind_refines; [apply mau1_refines; assumption|].
      intros w. apply mau1_refines; assumption.
    - apply mau1_fresh; [assumption | lia].
    - apply mau1_fresh; [assumption | lia].
  Qed.

  (* ---------------------------------------------------------------- the rules, as [simp] applies them *)

  (* R1  Select(Select(src, f), t)  ->  Select(src, convolute(t, f)) *)
  Lemma conv_Select_of_Select E src fps fb tps tb c cv c' :
    below c (Lambda fps fb) -> below c (Lambda tps tb) -> bok B (Lambda fps fb) -> bok B (Lambda tps tb) ->
    convolute (Lambda tps tb) (Lambda fps fb) c = Ok (cv, c') ->
    refines (ev E (FC "Select" [FC "Select" [src; Lambda fps fb]; Lambda tps tb]))
            (ev E (FC "Select" [src; cv])).
  Proof.
    intros Hbf Hbt Hokf Hokt Hc.
    destruct fps as [|x [|x2 fps]];
      try (rewrite (op2_none "Select" "Select"); [apply refines_none | apply seqop_Select | apply seqop_Select | left; reflexivity]).
    destruct tps as [|y [|y2 tps]];
      try (rewrite (op2_none "Select" "Select"); [apply refines_none | apply seqop_Select | apply seqop_Select | right; reflexivity]).
    destruct (conv1 _ _ _ _ _ _ _ Hbf Hbt Hokf Hokt Hc) as (z & body & -> & Hk).
    rewrite !eval_Select.
    eapply refines_trans; [apply Sel_Sel|]. apply Sel_mono; [apply refines_refl | apply Hk].
  Qed.

  (* R4  SelectMany(Select(src, f), t)  ->  SelectMany(src, convolute(t, f)) *)
  Lemma conv_SelectMany_of_Select E src fps fb tps tb c cv c' :
    below c (Lambda fps fb) -> below c (Lambda tps tb) -> bok B (Lambda fps fb) -> bok B (Lambda tps tb) ->
    convolute (Lambda tps tb) (Lambda fps fb) c = Ok (cv, c') ->
    refines (ev E (FC "SelectMany" [FC "Select" [src; Lambda fps fb]; Lambda tps tb]))
            (ev E (FC "SelectMany" [src; cv])).
  Proof.
    intros Hbf Hbt Hokf Hokt Hc.
    destruct fps as [|x [|x2 fps]];
      try (rewrite (op2_none "Select" "SelectMany"); [apply refines_none | apply seqop_Select | apply seqop_SelectMany | left; reflexivity]).
    destruct tps as [|y [|y2 tps]];
      try (rewrite (op2_none "Select" "SelectMany"); [apply refines_none | apply seqop_Select | apply seqop_SelectMany | right; reflexivity]).
    destruct (conv1 _ _ _ _ _ _ _ Hbf Hbt Hokf Hokt Hc) as (z & body & -> & Hk).
    rewrite !eval_SelectMany, eval_Select.
    eapply refines_trans; [apply Many_Sel|]. apply Many_mono; [apply refines_refl | apply Hk].
  Qed.

  (* R6  Where(Select(src, f), t)  ->  Select(Where(src, convolute(t, f)), f) *)
  Lemma conv_Where_of_Select E src fps fb tps tb c cv c' :
    below c (Lambda fps fb) -> below c (Lambda tps tb) -> bok B (Lambda fps fb) -> bok B (Lambda tps tb) ->
    convolute (Lambda tps tb) (Lambda fps fb) c = Ok (cv, c') ->
    refines (ev E (FC "Where" [FC "Select" [src; Lambda fps fb]; Lambda tps tb]))
            (ev E (FC "Select" [FC "Where" [src; cv]; Lambda fps fb])).
  Proof.
    intros Hbf Hbt Hokf Hokt Hc.
    destruct fps as [|x [|x2 fps]];
      try (rewrite (op2_none "Select" "Where"); [apply refines_none | apply seqop_Select | apply seqop_Where | left; reflexivity]).
    destruct tps as [|y [|y2 tps]];
      try (rewrite (op2_none "Select" "Where"); [apply refines_none | apply seqop_Select | apply seqop_Where | right; reflexivity]).
    destruct (conv1 _ _ _ _ _ _ _ Hbf Hbt Hokf Hokt Hc) as (z & body & -> & Hk).
    rewrite eval_Where, !eval_Select, eval_Where.
    eapply refines_trans; [apply Whr_Sel|].
    apply Sel_mono; [|intros v; apply refines_refl].
    apply Whr_mono; [apply refines_refl | apply Hk].
  Qed.

  (* R2  Select(SelectMany(src, f), t)  ->  SelectMany(src, lambda fresh: make_Select(f'(fresh), t)) *)
  Lemma mau_Select_of_SelectMany E src fps fb t c fps' fb' c' :
    below c (Lambda fps fb) -> below c t -> bok B (Lambda fps fb) ->
    make_args_unique fps fb c = (Lambda fps' fb', c') ->
    refines (ev E (FC "Select" [FC "SelectMany" [src; Lambda fps fb]; t]))
            (ev E (FC "SelectMany" [src; Lambda fps' (make_Select fb' t)])).
  Proof.
    intros Hbf Hbt Hokf Hm.
    destruct fps as [|x [|x2 fps]];
      try (rewrite (op2_none "SelectMany" "Select"); [apply refines_none | apply seqop_SelectMany | apply seqop_Select | left; reflexivity]).
    destruct (f1_cases t) as [(y & gb & ->)|Hn];
      [|rewrite (op2_none "SelectMany" "Select"); [apply refines_none | apply seqop_SelectMany | apply seqop_Select | right; apply Hn]].
    rewrite mau1_eq in Hm. inversion Hm; subst; clear Hm.
    rewrite eval_Select, !eval_SelectMany.
    eapply refines_trans; [apply Sel_Many|]. apply Many_mono; [apply refines_refl|]. intros v.
    change (lam E (arg_name c) (make_Select (rename [(x, arg_name c)] fb) (Lambda [y] gb)) v)
      with (ev ((arg_name c, v) :: E) (make_Select (rename [(x, arg_name c)] fb) (Lambda [y] gb))).
    eapply refines_trans; [|apply make_Select_sound]. rewrite eval_Select.
    apply Sel_mono; [apply mau1_refines; assumption|].
    intros w. apply refines_eq. symmetry. apply lam1_under.
    apply (below_occurs c); [apply (below_lambda _ _ _ Hbt) | apply le_n].
  Qed.

  (* R3  SelectMany(SelectMany(src, f), t)  ->  SelectMany(src, lambda fresh: SelectMany(f'(fresh), t)) *)
  Lemma mau_SelectMany_of_SelectMany E src fps fb t c fp rest fb' c' :
    below c (Lambda fps fb) -> below c t -> bok B (Lambda fps fb) ->
    make_args_unique fps fb c = (Lambda (fp :: rest) fb', c') ->
    refines (ev E (FC "SelectMany" [FC "SelectMany" [src; Lambda fps fb]; t]))
            (ev E (FC "SelectMany" [src; Lambda [fp] (FC "SelectMany" [fb'; t])])).
  Proof.
    intros Hbf Hbt Hokf Hm.
    destruct fps as [|x [|x2 fps]];
      try (rewrite (op2_none "SelectMany" "SelectMany"); [apply refines_none | apply seqop_SelectMany | apply seqop_SelectMany | left; reflexivity]).
    destruct (f1_cases t) as [(y & gb & ->)|Hn];
      [|rewrite (op2_none "SelectMany" "SelectMany"); [apply refines_none | apply seqop_SelectMany | apply seqop_SelectMany | right; apply Hn]].
    rewrite mau1_eq in Hm. inversion Hm; subst; clear Hm.
    rewrite !eval_SelectMany.
    eapply refines_trans; [apply Many_Many|]. apply Many_mono; [apply refines_refl|]. intros v.
    change (lam E (arg_name c) (FC "SelectMany" [rename [(x, arg_name c)] fb; Lambda [y] gb]) v)
      with (ev ((arg_name c, v) :: E) (FC "SelectMany" [rename [(x, arg_name c)] fb; Lambda [y] gb])).
    rewrite eval_SelectMany.
    apply Many_mono; [apply mau1_refines; assumption|].
    intros w. apply refines_eq. symmetry. apply lam1_under.
    apply (below_occurs c); [apply (below_lambda _ _ _ Hbt) | apply le_n].
  Qed.

  (* R7  Where(SelectMany(src, f), t)  ->  SelectMany(src, lambda fresh: Where(f'(fresh), t)) *)
  Lemma mau_Where_of_SelectMany E src fps fb t c fps' fb' c' :
    below c (Lambda fps fb) -> below c t -> bok B (Lambda fps fb) ->
    make_args_unique fps fb c = (Lambda fps' fb', c') ->
    refines (ev E (FC "Where" [FC "SelectMany" [src; Lambda fps fb]; t]))
            (ev E (FC "SelectMany" [src; Lambda fps' (FC "Where" [fb'; t])])).
  Proof.
    intros Hbf Hbt Hokf Hm.
    destruct fps as [|x [|x2 fps]];
      try (rewrite (op2_none "SelectMany" "Where"); [apply refines_none | apply seqop_SelectMany | apply seqop_Where | left; reflexivity]).
    destruct (f1_cases t) as [(y & gb & ->)|Hn];
      [|rewrite (op2_none "SelectMany" "Where"); [apply refines_none | apply seqop_SelectMany | apply seqop_Where | right; apply Hn]].
    rewrite mau1_eq in Hm. inversion Hm; subst; clear Hm.
    rewrite eval_Where, !eval_SelectMany.
    eapply refines_trans; [apply Whr_Many|]. apply Many_mono; [apply refines_refl|]. intros v.
    change (lam E (arg_name c) (FC "Where" [rename [(x, arg_name c)] fb; Lambda [y] gb]) v)
      with (ev ((arg_name c, v) :: E) (FC "Where" [rename [(x, arg_name c)] fb; Lambda [y] gb])).
    rewrite eval_Where.
    apply Whr_mono; [apply mau1_refines; assumption|].
    intros w. apply refines_eq. symmetry. apply lam1_under.
    apply (below_occurs c); [apply (below_lambda _ _ _ Hbt) | apply le_n].
  Qed.

  (* R5  Where(Where(src, f), t)  ->  Where(src, lambda fresh: f(fresh) and t(fresh)) *)
  Lemma conv_Where_of_Where E src fps fb tps tb c :
    below c (Lambda fps fb) -> below c (Lambda tps tb) ->
    refines (ev E (FC "Where" [FC "Where" [src; Lambda fps fb]; Lambda tps tb]))
            (ev E (FC "Where" [src; Lambda [arg_name c]
                     (BoolOp And [Call (Lambda fps fb) [Name (arg_name c)] [] []; Call (Lambda tps tb) [Name (arg_name c)] [] []])])).
  Proof.
    intros Hbf Hbt.
    destruct fps as [|x [|x2 fps]];
      try (rewrite (op2_none "Where" "Where"); [apply refines_none | apply seqop_Where | apply seqop_Where | left; reflexivity]).
    destruct tps as [|y [|y2 tps]];
      try (rewrite (op2_none "Where" "Where"); [apply refines_none | apply seqop_Where | apply seqop_Where | right; reflexivity]).
    apply rule_Where_of_Where.
    - apply (below_occurs c); [apply (below_lambda _ _ _ Hbf) | apply le_n].
    - apply (below_occurs c); [apply (below_lambda _ _ _ Hbt) | apply le_n].
  Qed.

  (* ---------------------------------------------------------------- make_args_unique, any number of parameters *)

  Lemma mau_good ps b c :
    below c (Lambda ps b) -> bok B (Lambda ps b) ->
    good B (rev (combine ps (fresh_names (length ps) c))) b.
  Proof.
    intros Hb Hok. split; [|split].
    - intros x y Hx _. apply ren_lookup_combine_in in Hx. apply in_fresh_names in Hx.
      destruct Hx as (k & Hk & ->). apply (below_lambda _ _ _ Hb). lia.
    - intros x1 x2 y H1 H2 _ _. apply ren_lookup_in in H1, H2. apply in_rev in H1, H2.
      eapply combine_inj_r; [apply fresh_names_nodup | exact H1 | exact H2].
    - intros x y Hx _. right. apply ren_lookup_in in Hx. apply in_rev in Hx. apply in_combine_l in Hx.
      apply (proj1 (bok_lambda _ _ _ Hok)). exact Hx.
  Qed.

  Lemma mau_rel ps b c vs E :
    length vs = length ps -> below c (Lambda ps b) ->
    rel (rev (combine ps (fresh_names (length ps) c))) b
        (rev (combine ps vs) ++ E) (rev (combine (fresh_names (length ps) c) vs) ++ E).
  Proof.
    intros Hl Hb z Hz. unfold ren.
    destruct (existsb (String.eqb z) ps) eqn:Hzps.
    - destruct (lookup_rev_combine_in ps (fresh_names (length ps) c) vs E E z) as (f & v & H1 & H2 & H3);
        [apply fresh_names_length | exact Hl | apply fresh_names_nodup | exact Hzps|].
      rewrite H1, H2, H3. reflexivity.
    - rewrite (ren_lookup_rev_combine_notin _ _ _ Hzps), (lookup_rev_combine_notin _ _ _ _ Hzps).
      rewrite lookup_rev_combine_notin; [reflexivity|].
      destruct (existsb (String.eqb z) (fresh_names (length ps) c)) eqn:Hzf; [|reflexivity].
      apply existsb_eqb_in in Hzf. apply in_fresh_names in Hzf. destruct Hzf as (k & Hk & ->).
      rewrite (below_occurs c b k) in Hz; [discriminate | apply (below_lambda _ _ _ Hb) | lia].
  Qed.

  (* the renamed body under the fresh parameters refines the original body under the original ones *)
  Lemma mau_sound_gen0 E ps b c vs :
    length vs = length ps ->
    below c (Lambda ps b) -> bok B (Lambda ps b) ->
    refines (ev (rev (combine ps vs) ++ E) b)
            (ev (rev (combine (fresh_names (length ps) c) vs) ++ E) (rename (rev (combine ps (fresh_names (length ps) c))) b)).
  Proof.
    intros Hl Hb Hok. apply rename_refines; [apply mau_good; assumption | apply mau_rel; assumption].
  Qed.

  Lemma mau_sound_gen E ps b c vs :
    has_dup ps = false -> length vs = length ps ->
    below c (Lambda ps b) -> bok B (Lambda ps b) ->
    refines (ev (rev (combine ps vs) ++ E) b)
            (ev (rev (combine (fresh_names (length ps) c) vs) ++ E) (rename (rev (combine ps (fresh_names (length ps) c))) b)).
  Proof. intros _. apply mau_sound_gen0. Qed.
End Rules.

(* ------------------------------------------------------------------ non-vacuity *)
(* concrete lambdas meet the hypotheses of the rules, [convolute]/[make_args_unique] produce the
   renamed terms, and both sides of the rules have the same (non-error) value *)
Module RulesExamples.
  Definition B0 : backend :=
    {| attr_sem := fun _ _ => None; meth_sem := fun _ _ _ _ => None; fun_sem := fun _ _ _ => None |}.
  Definition exF : expr := Lambda ["x"] (BinOp BAdd (Name "x") (Const (CInt 1))).
  Definition exT : expr := Lambda ["y"] (BinOp BMult (Name "y") (Const (CInt 2))).
  Definition exM : expr := Lambda ["x"] (List [Name "x"; BinOp BAdd (Name "x") (Const (CInt 10))]).
  Definition exP : expr := Lambda ["y"] (Compare (Name "y") [CGt] [Const (CInt 1)]).
  Definition exE : env := [("ds", VList [VInt 1; VInt 2])].

  Lemma arg_name_head n : exists s, arg_name n = String (Ascii.Ascii true false false false false true true false) s.
  Proof. unfold arg_name. eexists. reflexivity. Qed.

  Ltac below_tac :=
    let n := fresh "n" in let s := fresh "s" in let Hs := fresh "Hs" in
    intros n _; destruct (arg_name_head n) as [s Hs]; rewrite Hs; reflexivity.
  Ltac bok_tac :=
    let y := fresh "y" in let Hy := fresh "Hy" in
    intros y Hy; cbv [exF exT exM exP] in Hy; simpl in Hy; rewrite ?orb_false_r in Hy; apply String.eqb_eq in Hy; subst y;
    split; [reflexivity | intros; reflexivity].

  Example exF_below : below 0 exF. Proof. below_tac. Qed.
  Example exT_below : below 0 exT. Proof. below_tac. Qed.
  Example exM_below : below 0 exM. Proof. below_tac. Qed.
  Example exP_below : below 0 exP. Proof. below_tac. Qed.
  Example exF_bok : bok B0 exF. Proof. bok_tac. Qed.
  Example exT_bok : bok B0 exT. Proof. bok_tac. Qed.
  Example exM_bok : bok B0 exM. Proof. bok_tac. Qed.
  Example exP_bok : bok B0 exP. Proof. bok_tac. Qed.

  (* R1, R4 (with a list-valued second lambda), R6 *)
  Example ex_conv :
    exists cv c', convolute exT exF 0 = Ok (cv, c')
      /\ eval B0 [] exE (function_call "Select" [function_call "Select" [Name "ds"; exF]; exT]) = Some (VList [VInt 4; VInt 6])
      /\ eval B0 [] exE (function_call "Select" [Name "ds"; cv]) = Some (VList [VInt 4; VInt 6]).
  Proof. eexists; eexists; split; [vm_compute; reflexivity | split; vm_compute; reflexivity]. Qed.

  Example ex_conv_many :
    exists cv c', convolute exM exF 0 = Ok (cv, c')
      /\ eval B0 [] exE (function_call "SelectMany" [function_call "Select" [Name "ds"; exF]; exM])
         = Some (VList [VInt 2; VInt 12; VInt 3; VInt 13])
      /\ eval B0 [] exE (function_call "SelectMany" [Name "ds"; cv]) = Some (VList [VInt 2; VInt 12; VInt 3; VInt 13]).
  Proof. eexists; eexists; split; [vm_compute; reflexivity | split; vm_compute; reflexivity]. Qed.

  Example ex_conv_where :
    exists cv c', convolute exP exF 0 = Ok (cv, c')
      /\ eval B0 [] exE (function_call "Where" [function_call "Select" [Name "ds"; exF]; exP]) = Some (VList [VInt 2; VInt 3])
      /\ eval B0 [] exE (function_call "Select" [function_call "Where" [Name "ds"; cv]; exF]) = Some (VList [VInt 2; VInt 3]).
  Proof. eexists; eexists; split; [vm_compute; reflexivity | split; vm_compute; reflexivity]. Qed.

  (* R2, R3, R7 *)
  Example ex_mau :
    exists fp fb' c', make_args_unique ["x"] (List [Name "x"; BinOp BAdd (Name "x") (Const (CInt 10))]) 0 = (Lambda [fp] fb', c')
      /\ eval B0 [] exE (function_call "Select" [function_call "SelectMany" [Name "ds"; exM]; exT])
         = Some (VList [VInt 2; VInt 22; VInt 4; VInt 24])
      /\ eval B0 [] exE (function_call "SelectMany" [Name "ds"; Lambda [fp] (make_Select fb' exT)])
         = Some (VList [VInt 2; VInt 22; VInt 4; VInt 24])
      /\ eval B0 [] exE (function_call "SelectMany" [function_call "SelectMany" [Name "ds"; exM]; exM])
         = Some (VList [VInt 1; VInt 11; VInt 11; VInt 21; VInt 2; VInt 12; VInt 12; VInt 22])
      /\ eval B0 [] exE (function_call "SelectMany" [Name "ds"; Lambda [fp] (function_call "SelectMany" [fb'; exM])])
         = Some (VList [VInt 1; VInt 11; VInt 11; VInt 21; VInt 2; VInt 12; VInt 12; VInt 22])
      /\ eval B0 [] exE (function_call "Where" [function_call "SelectMany" [Name "ds"; exM]; exP])
         = Some (VList [VInt 11; VInt 2; VInt 12])
      /\ eval B0 [] exE (function_call "SelectMany" [Name "ds"; Lambda [fp] (function_call "Where" [fb'; exP])])
         = Some (VList [VInt 11; VInt 2; VInt 12]).
  Proof. eexists; eexists; eexists; split; [vm_compute; reflexivity | repeat split; vm_compute; reflexivity]. Qed.

  (* R5 *)
  Example ex_where_where :
    eval B0 [] exE (function_call "Where" [function_call "Where" [Name "ds"; exP]; exP]) = Some (VList [VInt 2])
    /\ eval B0 [] exE (function_call "Where" [Name "ds"; Lambda [arg_name 0]
           (BoolOp And [Call exP [Name (arg_name 0)] [] []; Call exP [Name (arg_name 0)] [] []])]) = Some (VList [VInt 2]).
  Proof. split; vm_compute; reflexivity. Qed.

  (* mau_sound_gen on a two-parameter lambda *)
  Definition exG : expr := Lambda ["p"; "q"] (BinOp BSub (Name "p") (Name "q")).
  Example exG_below : below 0 exG. Proof. below_tac. Qed.
  Example exG_bok : bok B0 exG.
  Proof.
    intros y Hy. cbv [exG] in Hy. simpl in Hy. rewrite ?orb_false_r in Hy. apply orb_true_iff in Hy.
    destruct Hy as [Hy|Hy]; apply String.eqb_eq in Hy; subst y; (split; [reflexivity | intros; reflexivity]).
  Qed.
  Example ex_mau_gen :
    has_dup ["p"; "q"] = false
    /\ eval B0 [] (rev (combine ["p"; "q"] [VInt 5; VInt 3]) ++ exE) (BinOp BSub (Name "p") (Name "q")) = Some (VInt 2)
    /\ eval B0 [] (rev (combine (fresh_names 2 0) [VInt 5; VInt 3]) ++ exE)
         (rename (rev (combine ["p"; "q"] (fresh_names 2 0))) (BinOp BSub (Name "p") (Name "q"))) = Some (VInt 2).
  Proof. repeat split; vm_compute; reflexivity. Qed.
End RulesExamples.

Print Assumptions conv_Select_of_Select.
Print Assumptions conv_SelectMany_of_Select.
Print Assumptions conv_Where_of_Select.
Print Assumptions mau_Select_of_SelectMany.
Print Assumptions mau_SelectMany_of_SelectMany.
Print Assumptions mau_Where_of_SelectMany.
Print Assumptions conv_Where_of_Where.
Print Assumptions mau_sound_gen0.
Print Assumptions mau_sound_gen.

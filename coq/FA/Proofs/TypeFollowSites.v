(* C09, whole queries: the events [follow] returns are exactly those of [callback_sites], a separately written
   traversal of the query that lists, in evaluation order (children left to right, then the node itself; the body of
   the lambda of a collection operator right before the operator's own site), every call site that resolves to

     - a method of a class (the class the call resolves to: [resolve], Proofs/TypeFollowResolve.v) - the class callback
       first, on the normalised call, then the method callback on what the class callback returned;
     - a registered function - its processor;
     - a parameterized property - its callback, with the subscript removed and the parameters by value;

   each followed by the metadata it attaches - and nothing else.  Each record also carries the call the last callback
   returned, which is what the emitted tree contains at that site ([rewrite_is_emitted]). *)
From FA.Base Require Import PyAst Value Induct Traverse.
From FA.Gen Require Import TablesUtil TablesTypes.
From FA.Model Require Import TypeDefs TypeFollow.
From FA.Proofs Require Import TraverseFacts EvalCong TypeFollowFacts TypeFollowFill TypeFollowNormalised TypeFollowResolve
     TypeFollowUntyped TypeFollowCallbacks.
From Coq Require Import Lia.

Section Spec.
  Variable W : world.
  Let ct := w_ct W.

  (* one callback at work: log entry, its metadata, the call site it returns *)
  Definition fire (cb : option string) (site : expr) : list event * expr :=
    match cb with
    | None => ([], site)
    | Some id =>
        let s := cb_spec (w_cb W) id in
        (EvCall id site :: match cb_md s with Some md => [EvMeta md] | None => [] end, apply_rw (cb_rw s) site)
    end.

  (* a method call site: class-level callback before method-level callback *)
  Definition method_site1 (bo : ty) (m : method) (site0 : expr) : list event * expr :=
    let '(e1, s1) := fire (class_cb ct bo) site0 in
    let '(e2, s2) := fire (m_cb m) s1 in
    (e1 ++ e2, s2).

  (* the callbacks are those of the first class among the receiver's candidates that has the method - the class
     the call is written against -, whichever class typed the call *)
  Definition method_site_at (tv : ty) (a : string) (bo : ty) (m : method) (site0 : expr) : list event * expr :=
    let '(cbo, cm) := callbacks_of W tv a (bo, m) in method_site1 cbo cm site0.

  Definition param_site (id : string) (site0 params : expr) : list event * expr :=
    let s := cb_spec (w_cb W) id in
    (EvParam id site0 params :: match cb_md s with Some md => [EvMeta md] | None => [] end, apply_rw (cb_rw s) site0).

  (* the follower as an oracle for the emitted form and the type of a sub-expression *)
  Definition out_of (G : tenv) (x : expr) : expr := match follow W G x with Ok (x', _, _) => x' | _ => x end.
  Definition type_of (G : tenv) (x : expr) : ty := match follow W G x with Ok (_, t, _) => t | _ => TAny end.

  Definition site_rec := (list event * expr)%type.

  (* the call sites of the node [e] itself, its children being done *)
  Definition own_sites (rec : tenv -> expr -> list site_rec) (G : tenv) (e : expr) : list site_rec :=
    match e with
    | Call (Attr v a) args kwn kwv =>
        let v' := out_of G v in
        match resolve Const is_lambda ct (candidates W (type_of G v)) a
                      (map (out_of G) args) (combine kwn (map (out_of G) kwv)) PNone with
        | Ok (PStatic bo m a2 k2 _ _) => [method_site_at (type_of G v) a bo m (Call (Attr v' a) a2 (map fst k2) (map snd k2))]
        | Ok (PStream bo m [] k2 _) => [method_site_at (type_of G v) a bo m (Call (Attr v' a) [] (map fst k2) (map snd k2))]
        | Ok (PStream bo m [Lambda [p] b] k2 item) =>
            (* the lambda of a collection operator: its body first, under the element type *)
            rec ((p, item) :: G) b ++
            [method_site_at (type_of G v) a bo m (Call (Attr v' a) [Lambda [p] (out_of ((p, item) :: G) b)] (map fst k2) (map snd k2))]
        | _ => []
        end
    | Call (Subscript (Attr v a) s) args kwn kwv =>
        if is_any (type_of G v) then []
        else match get_method_and_class ct (type_of G v) a with
             | Some (_, MProp (Some id)) =>
                 [param_site id (Call (Attr (out_of G v) a) (map (out_of G) args) kwn (map (out_of G) kwv)) (out_of G s)]
             | _ => []
             end
    | Call (Lambda ps b) args kwn kwv =>
        (* an immediately called lambda that binds its parameters positionally: the call sites of its body, the
           parameters typed by the arguments *)
        if called_ok ps args kwn kwv then rec (bind_params ps (map (type_of G) args) G) b else []
    | Call (Name x) args kwn kwv =>
        match find_func (w_ft W) x with
        | Some fn =>
            match fill Const (f_params fn) (map (out_of G) args) (combine kwn (map (out_of G) kwv)) with
            | inl (a2, k2) => [fire (f_proc fn) (Call (Name x) a2 (map fst k2) (map snd k2))]
            | inr _ => []
            end
        | None => []
        end
    | _ => []
    end.

  Fixpoint sites_n (n : nat) (G : tenv) (e : expr) : list site_rec :=
    match n with
    | O => []
    | S n' =>
        match e with
        | Lambda _ _ => []                         (* not entered unless it is an operator's lambda (see [own_sites]) *)
        | _ => flat_map (sites_n n' G) (children e) ++ own_sites (sites_n n') G e
        end
    end.

  Definition call_sites (G : tenv) (e : expr) : list site_rec := sites_n (size e) G e.
  Definition events_of (l : list site_rec) : list event := flat_map fst l.
  Definition callback_sites (G : tenv) (e : expr) : list event := events_of (call_sites G e).
End Spec.

Lemma events_of_app l1 l2 : events_of (l1 ++ l2) = events_of l1 ++ events_of l2.
Proof. unfold events_of. apply flat_map_app. Qed.

Section Exact.
  Variable W : world.
  Let ct := w_ct W.

  Lemma method_site1_eq bo m site :
    method_site1 W bo m site = (snd (method_callbacks W bo m site), fst (method_callbacks W bo m site)).
  Proof.
    unfold method_site1, method_callbacks, fire, run_cb, md_events. fold ct.
    destruct (class_cb ct bo); destruct (m_cb m); reflexivity.
  Qed.

  Lemma method_site_eq tv a bo m site :
    method_site_at W tv a bo m site =
      (let '(cbo, cm) := callbacks_of W tv a (bo, m) in
       (snd (method_callbacks W cbo cm site), fst (method_callbacks W cbo cm site))).
  Proof. unfold method_site_at. destruct (callbacks_of W tv a (bo, m)) as [cbo cm]. apply method_site1_eq. Qed.

  Lemma fire_eq cb site : fire W cb site = (snd (run_cb W cb site), fst (run_cb W cb site)).
  Proof. destruct cb; reflexivity. Qed.

  (* the statement for one expression, every fuel that covers it *)
  Definition Q (e : expr) : Prop :=
    forall n G e' t aux ev, size e <= n -> follow_x W G e = Ok (e', t, aux, ev) -> ev = events_of (sites_n W n G e).

  Definition sub (e : expr) : Prop :=
    match e with
    | Lambda _ b => Q b
    | Attr v _ => Q v
    | Subscript v s => Q s /\ match v with Attr u _ => Q u | _ => True end
    | _ => True
    end.
  Definition P (e : expr) : Prop := Q e /\ sub e.

  Lemma out_of_fx G e e' t aux ev : follow_x W G e = Ok (e', t, aux, ev) -> out_of W G e = e' /\ type_of W G e = t.
  Proof. intros H. unfold out_of, type_of, follow. rewrite H. cbn. auto. Qed.

  Lemma fl_outs G es es' ts ev :
    follow_list_with (follow_x W G) es = Ok (es', ts, ev) -> map (out_of W G) es = es'.
  Proof.
    revert es' ts ev. induction es as [|x xs IH]; intros es' ts ev H.
    - cbn in H. inversion H; reflexivity.
    - rewrite fl_cons in H. apply bind_ok in H. destruct H as ([[[x' t] aux] ev1] & H1 & H).
      apply bind_ok in H. destruct H as ([[xs' ts'] evs] & H2 & H). inversion H; subst.
      cbn. rewrite (proj1 (out_of_fx _ _ _ _ _ _ H1)). f_equal. eauto.
  Qed.

  Lemma fl_types G es es' ts ev :
    follow_list_with (follow_x W G) es = Ok (es', ts, ev) -> map (type_of W G) es = ts.
  Proof.
    revert es' ts ev. induction es as [|x xs IH]; intros es' ts ev H.
    - cbn in H. inversion H; reflexivity.
    - rewrite fl_cons in H. apply bind_ok in H. destruct H as ([[[x' t] aux] ev1] & H1 & H).
      apply bind_ok in H. destruct H as ([[xs' ts'] evs] & H2 & H). inversion H; subst.
      cbn. rewrite (proj2 (out_of_fx _ _ _ _ _ _ H1)). f_equal. eauto.
  Qed.

  Lemma fl_events n G es : Forall Q es -> (forall x, In x es -> size x <= n) -> forall es' ts ev,
    follow_list_with (follow_x W G) es = Ok (es', ts, ev) -> ev = events_of (flat_map (sites_n W n G) es).
  Proof.
    induction 1 as [|x xs Hx _ IH]; intros Hs es' ts ev H.
    - cbn in H. inversion H; reflexivity.
    - rewrite fl_cons in H. apply bind_ok in H. destruct H as ([[[x' t] aux] ev1] & H1 & H).
      apply bind_ok in H. destruct H as ([[xs' ts'] evs] & H2 & H). inversion H; subst.
      cbn [flat_map]. rewrite events_of_app. f_equal.
      + eapply Hx; eauto. apply Hs. left; reflexivity.
      + eapply IH; eauto. intros y Hy. apply Hs. right; exact Hy.
  Qed.

  (* annotated arguments: the thunk of a lambda argument follows its body, whose events are those of the traversal *)
  Definition nlam_inv (n : nat) (G : tenv) (x : aarg) : Prop :=
    match snd x with
    | NLam p k => exists b, fst x = Lambda [p] b /\ size b <= n /\
                            forall item b' t ev, k item = Ok (b', t, ev) ->
                              out_of W ((p, item) :: G) b = b' /\ ev = events_of (sites_n W n ((p, item) :: G) b)
    | _ => True
    end.

  Lemma nl_inv n G es : Forall P es -> (forall x, In x es -> size x <= n) -> forall es' ts ev,
    follow_list_with (follow_x W G) es = Ok (es', ts, ev) ->
    Forall (nlam_inv n G) (nested_args_with (follow_x W) G es es').
  Proof.
    induction 1 as [|x xs Hx _ IH]; intros Hs es' ts ev H.
    - cbn in H. inversion H; subst. constructor.
    - rewrite fl_cons in H. apply bind_ok in H. destruct H as ([[[x' t] aux] ev1] & H1 & H).
      apply bind_ok in H. destruct H as ([[xs' ts'] evs] & H2 & H). inversion H; subst.
      cbn [nested_args_with]. constructor; [|eapply IH; eauto; intros y Hy; apply Hs; right; exact Hy].
      unfold nlam_inv. cbn [snd fst].
      destruct x; try exact I. destruct ps as [|p [|q r]]; try exact I.
      rewrite fx_Lambda in H1. inversion H1; subst. exists x. split; [reflexivity|].
      assert (Hsz : size x <= n).
      { assert (size (Lambda [p] x) <= n) by (apply Hs; left; reflexivity). cbn in H0. lia. }
      split; [exact Hsz|].
      intros item b' t0 ev0 Hk. apply bind_ok in Hk. destruct Hk as ([[[b1 t1] aux1] ev2] & Hb & Hk).
      inversion Hk; subst. split.
      + exact (proj1 (out_of_fx _ _ _ _ _ _ Hb)).
      + destruct Hx as [_ Hsub]. cbn in Hsub. eapply Hsub; eauto.
  Qed.

  Lemma sizes_in_le l x : In x l -> size x <= sizes l.
  Proof. apply sizes_in. Qed.

  Lemma hk_node (f : expr) (l : list expr) (k2 : list (option string * aarg)) :
    Call f l (map fst (map (hk aexpr) k2)) (map snd (map (hk aexpr) k2)) =
    Call f l (map fst k2) (map (fun kv => aexpr (snd kv)) k2).
  Proof. rewrite !map_map. reflexivity. Qed.

  (* the method call's own sites *)
  Lemma pmc_sites n G v v' tv a args kwn kwv args' kwv' aargs akwv out t ev :
    out_of W G v = v' -> type_of W G v = tv ->
    map (out_of W G) args = args' -> map (out_of W G) kwv = kwv' ->
    map aexpr aargs = args' -> map aexpr akwv = kwv' ->
    Forall (nlam_inv n G) aargs -> Forall (nlam_inv n G) akwv ->
    process_method_call W v' tv a aargs kwn akwv = Ok (out, t, ev) ->
    ev = events_of (own_sites W (sites_n W n) G (Call (Attr v a) args kwn kwv)).
  Proof.
    intros Ev Et Ea Ek Eaa Eak Hna Hnk H. unfold process_method_call in H.
    rewrite method_loop_resolve in H.
    cbn [own_sites]. rewrite Ev, Et, Ea, Ek.
    pose proof (resolve_map aexpr mk_const_arg Const is_lam_arg is_lambda (w_ct W) (fun c => eq_refl) (fun x => eq_refl)
                            (candidates W tv) a aargs (zip_kw kwn akwv) PNone) as Hmap.
    assert (Hkws : map (hk aexpr) (zip_kw kwn akwv) = combine kwn kwv').
    { rewrite zip_kw_combine. unfold hk. rewrite combine_map_snd. rewrite Eak. reflexivity. }
    rewrite Eaa, Hkws in Hmap. cbn [plan_map] in Hmap. rewrite Hmap. clear Hmap.
    assert (Hnkws : Forall (fun kv => nlam_inv n G (snd kv)) (zip_kw kwn akwv)).
    { clear -Hnk. revert kwn. induction Hnk as [|x xs Hx _ IH]; intros [|k ks]; cbn; constructor; auto. }
    destruct (resolve mk_const_arg is_lam_arg (w_ct W) (candidates W tv) a aargs (zip_kw kwn akwv) PNone) as [pl|?|?] eqn:Er;
      cbn [bind] in H; try discriminate.
    apply bind_ok in H. destruct H as (best & Hex & H).
    destruct pl as [|bo m a2 k2 t0 full|bo m a2 k2 item]; cbn [exec mres_of plan_map] in *.
    - inversion Hex; subst best. inversion H; subst. reflexivity.
    - inversion Hex; subst best. cbn [mr_obj mr_node mr_ev mr_ty] in H.
      unfold node_of_plan in H.
      destruct (callbacks_of W tv a (bo, m)) as [cbo cm] eqn:Ecb.
      destruct (method_callbacks W cbo cm _) as [site evs] eqn:Emc. inversion H; subst out t ev.
      cbn [events_of flat_map]. rewrite method_site_eq, hk_node, Ecb.
      rewrite Emc. cbn. rewrite app_nil_r. reflexivity.
    - (* really calling the collection object's method *)
      assert (Hns : forall bo' m' a' k' it', PNone (A:=aarg) <> PStream bo' m' a' k' it') by discriminate.
      destruct (resolve_stream_inv _ _ _ _ _ _ _ _ _ _ _ _ _ Hns Er) as (Hst & mcls & Hm & Hfill).
      destruct (fill_go_Forall mk_const_arg (nlam_inv n G) (m_params m) (fun c => I) 0 aargs (zip_kw kwn akwv) a2 k2 Hna Hnkws Hfill)
        as [Ha2 _].
      unfold stream_target_of in Hst. unfold follow_on_stream_obj in Hex.
      destruct bo as [| | | | | | | | | | | |c targs| |]; try discriminate.
      destruct (is_collection (w_ct W) c); [|discriminate].
      destruct targs as [|item' targs]; [discriminate|].
      destruct a2 as [|x [|y r]]; [| |discriminate]; inversion Hst; subst item'.
      + inversion Hex; subst best. cbn [mr_obj mr_node mr_ev mr_ty] in H.
        destruct (callbacks_of W tv a (TCls c (item :: targs), m)) as [cbo cm] eqn:Ecb.
        destruct (method_callbacks W cbo cm _) as [site evs] eqn:Emc. inversion H; subst out t ev.
        cbn [map events_of flat_map]. rewrite method_site_eq, hk_node, Ecb.
        rewrite Emc. cbn. rewrite app_nil_r. reflexivity.
      + pose proof (Forall_inv Ha2) as Hx.
        assert (Hxk : exists p k, snd x = NLam p k /\
                  bind (k item) (fun r0 => bind (finish_op W (m_op m) item p r0) (fun '(lam, t1, ev1) =>
                    Ok (Some {| mr_node := Call (Attr v' a) [lam] (map fst k2) (map (fun kv => aexpr (snd kv)) k2);
                                mr_ty := TIter t1; mr_full := true; mr_obj := Some (TCls c (item :: targs), m);
                                mr_ev := ev1 |}))) = Ok best).
        { destruct (m_op m); try discriminate; destruct (snd x) as [| |p k]; try discriminate; eauto. }
        destruct Hxk as (p & k & Hsx & Hb).
        apply bind_ok in Hb. destruct Hb as ([[b' tb] evb] & Hk & Hb).
        apply bind_ok in Hb. destruct Hb as ([[lam t1] ev1] & Hfin & Hb).
        apply finish_op_events_x in Hfin. destruct Hfin as [-> ->].
        inversion Hb; subst best. cbn [mr_obj mr_node mr_ev mr_ty] in H.
        unfold nlam_inv in Hx. rewrite Hsx in Hx. destruct Hx as (b & Hfx & _ & Hbody).
        destruct (Hbody _ _ _ _ Hk) as [Hout Hevs].
        destruct (callbacks_of W tv a (TCls c (item :: targs), m)) as [cbo cm] eqn:Ecb.
        destruct (method_callbacks W cbo cm _) as [site evs] eqn:Emc. inversion H; subst out t ev.
        cbn [map]. change (aexpr x) with (fst x). rewrite Hfx.
        rewrite events_of_app. rewrite <- Hevs. f_equal.
        cbn [events_of flat_map]. rewrite method_site_eq, hk_node, Ecb.
        rewrite Hout. rewrite Emc. cbn. rewrite app_nil_r. reflexivity.
  Qed.

  Lemma sites_unfold n G e :
    (match e with Lambda _ _ => False | _ => True end) ->
    sites_n W (S n) G e = flat_map (sites_n W n G) (children e) ++ own_sites W (sites_n W n) G e.
  Proof. destruct e; intros H; try contradiction; reflexivity. Qed.

  Lemma child_fuel n e c : size e <= S n -> In c (children e) -> size c <= n.
  Proof. intros H Hin. pose proof (size_child e c Hin). lia. Qed.

  Ltac inv_bind H x H1 := apply bind_ok in H; destruct H as (x & H1 & H).
  Ltac crush1 H :=
    let y := fresh "y" in let Hy := fresh "Hy" in
    apply bind_ok in H; destruct H as (y & Hy & H);
    try (first [destruct y as [[[? ?] ?] ?] | destruct y as [[? ?] ?]]); cbv beta iota in H.
  Ltac crush H := repeat crush1 H.

  Ltac fuel n Hn :=
    destruct n as [|n]; [exfalso; match type of Hn with size ?e <= 0 => pose proof (size_pos e); lia end|].

  (* events of one child, from its induction hypothesis *)
  Ltac child IH := eapply IH; [|eassumption]; eapply child_fuel; [eassumption | cbn; auto 10 using in_or_app, in_eq, in_cons].

  Theorem follow_sites : forall e, P e.
  Proof.
    induction e using expr_ind'; (split; [intros n G e' t aux ev Hn HE | try exact I]).
    - (* Name *) rewrite fx_Name in HE. inversion HE; subst. fuel n Hn. reflexivity.
    - (* Const *) rewrite fx_Const in HE. inversion HE; subst. fuel n Hn. reflexivity.
    - (* Attr *)
      rewrite fx_Attr in HE. crush HE. inversion HE; subst. fuel n Hn.
      rewrite sites_unfold by exact I. cbn [children flat_map own_sites]. rewrite !app_nil_r.
      child (proj1 IHe).
    - cbn. apply IHe.
    - (* Call *)
      fuel n Hn.
      assert (Hargs_fuel : forall x, In x args -> size x <= n).
      { intros x Hx. eapply child_fuel; [exact Hn|]. cbn. right. apply in_or_app. left; exact Hx. }
      assert (Hkwv_fuel : forall x, In x kwv -> size x <= n).
      { intros x Hx. eapply child_fuel; [exact Hn|]. cbn. right. apply in_or_app. right; exact Hx. }
      assert (HQa : Forall Q args) by (eapply Forall_impl; [|exact H]; intros x Hx; exact (proj1 Hx)).
      assert (HQk : Forall Q kwv) by (eapply Forall_impl; [|exact H0]; intros x Hx; exact (proj1 Hx)).
      assert (Hf_fuel : size e <= n) by (eapply child_fuel; [exact Hn | cbn; auto]).
      rewrite sites_unfold by exact I. cbn [children flat_map]. rewrite flat_map_app, !events_of_app, <- ?app_assoc.
      destruct (callee_cases e) as [(v & a & ->)|[(v & a & s & ->)|[(ps & b & ->)|Hplain]]].
      + rewrite fx_Call_method in HE.
        inv_bind HE x Hv. destruct x as [[[v' tv] auxv] ev0].
        inv_bind HE ta Hat. inv_bind HE x Hargs. destruct x as [[args' ts1] ev1].
        inv_bind HE x Hkwv. destruct x as [[kwv' ts2] ev2].
        inv_bind HE x Hp. destruct x as [[node tn] ev3]. inversion HE; subst.
        destruct IHe as [_ Hsub]. cbn in Hsub.
        destruct (out_of_fx _ _ _ _ _ _ Hv) as [Eo Et].
        f_equal; [|f_equal; [|f_equal]].
        * cbn in Hf_fuel. destruct n as [|n']; [lia|].
          rewrite sites_unfold by exact I. cbn [children flat_map own_sites]. rewrite !app_nil_r.
          eapply Hsub; [|exact Hv]. lia.
        * eapply fl_events; eauto.
        * eapply fl_events; eauto.
        * eapply (pmc_sites n G v v' tv a args kwn kwv args' kwv'); try exact Hp; auto.
          -- eapply fl_outs; eauto.
          -- eapply fl_outs; eauto.
          -- apply nested_args_exprs. symmetry. eapply fl_length; eauto.
          -- apply nested_args_exprs. symmetry. eapply fl_length; eauto.
          -- eapply nl_inv; eauto.
          -- eapply nl_inv; eauto.
      + rewrite fx_Call_param in HE.
        inv_bind HE x Hv. destruct x as [[[v' tv] auxv] ev0].
        inv_bind HE ta Hat. inv_bind HE x Hs. destruct x as [[[s' ts] auxs] evs].
        inv_bind HE tsub Hst. inv_bind HE x Hargs. destruct x as [[args' ts1] ev1].
        inv_bind HE x Hkwv. destruct x as [[kwv' ts2] ev2].
        destruct IHe as [_ [Hqs Hqv]].
        destruct (out_of_fx _ _ _ _ _ _ Hv) as [Eo Et]. destruct (out_of_fx _ _ _ _ _ _ Hs) as [Eos _].
        assert (Hchild : ev0 ++ evs = events_of (sites_n W n G (Subscript (Attr v a) s))).
        { cbn in Hf_fuel. destruct n as [|n']; [lia|]. rewrite sites_unfold by exact I.
          cbn [children flat_map own_sites]. rewrite !app_nil_r, events_of_app. f_equal.
          - destruct n' as [|n'']; [lia|]. rewrite sites_unfold by exact I.
            cbn [children flat_map own_sites]. rewrite !app_nil_r. eapply Hqv; [|exact Hv]. lia.
          - eapply Hqs; [|exact Hs]. lia. }
        pose proof (fl_events n G _ HQa Hargs_fuel _ _ _ Hargs) as Ha.
        pose proof (fl_events n G _ HQk Hkwv_fuel _ _ _ Hkwv) as Hk.
        cbn [own_sites]. rewrite Et.
        destruct (is_any tv) eqn:Eany.
        * rewrite param_call_guarded_on in HE. cbn in HE. inversion HE; subst.
          cbn. rewrite app_nil_r, <- Hchild, <- ?app_assoc. reflexivity.
        * cbn [andb] in HE. inv_bind HE x Hp. destruct x as [[node tn] ev3]. inversion HE; subst.
          rewrite <- Hchild, <- ?app_assoc. do 4 f_equal.
          unfold process_parameterized in Hp.
          destruct (get_method_and_class (w_ct W) _ a) as [[c0 [m0|[id|]]]|]; try discriminate.
          destruct (literal_eval _); [|discriminate]. inversion Hp; subst.
          rewrite ?Eo, ?Eos, (fl_outs _ _ _ _ _ Hargs), (fl_outs _ _ _ _ _ Hkwv).
          cbn. rewrite app_nil_r. unfold md_events. reflexivity.
      + (* an immediately called lambda *)
        rewrite fx_Call_lambda in HE.
        inv_bind HE x Hargs. destruct x as [[args' ts1] ev1].
        inv_bind HE x Hkwv. destruct x as [[kwv' ts2] ev2].
        pose proof (fl_events n G _ HQa Hargs_fuel _ _ _ Hargs) as Ha.
        pose proof (fl_events n G _ HQk Hkwv_fuel _ _ _ Hkwv) as Hk.
        assert (Hlam : events_of (sites_n W n G (Lambda ps b)) = []) by (destruct n; reflexivity).
        rewrite Hlam. cbn [app own_sites]. rewrite (fl_types _ _ _ _ _ Hargs).
        destruct (called_ok ps args kwn kwv).
        * inv_bind HE x Hb. destruct x as [[[b' tb] auxb] ev3]. inversion HE; subst. do 2 f_equal.
          destruct IHe as [_ Hsub]. cbn in Hsub. eapply Hsub; [|exact Hb]. cbn in Hf_fuel. lia.
        * inversion HE; subst. cbn. rewrite app_nil_r. reflexivity.
      + rewrite fx_Call_plain in HE by exact Hplain.
        inv_bind HE x Hf. destruct x as [[[f' tf] auxf] ev0].
        inv_bind HE x Hargs. destruct x as [[args' ts1] ev1].
        inv_bind HE x Hkwv. destruct x as [[kwv' ts2] ev2].
        pose proof (proj1 IHe _ _ _ _ _ _ Hf_fuel Hf) as Hef.
        pose proof (fl_events n G _ HQa Hargs_fuel _ _ _ Hargs) as Ha.
        pose proof (fl_events n G _ HQk Hkwv_fuel _ _ _ Hkwv) as Hk.
        pose proof (fx_is_name W G e f' tf auxf ev0) as Hname.
        rewrite <- Hef, <- Ha, <- Hk.
        assert (Hown_nil : (forall x, f' <> Name x) -> own_sites W (sites_n W n) G (Call e args kwn kwv) = []).
        { intros Hnn. destruct e; try reflexivity; try contradiction.
          - exfalso. rewrite fx_Name in Hf. inversion Hf; subst. eapply Hnn; reflexivity.
          - destruct e1; try reflexivity. contradiction. }
        destruct f'; try (inversion HE; subst; rewrite Hown_nil by discriminate; cbn; rewrite app_nil_r, <- ?app_assoc; reflexivity).
        pose proof (Hname id Hf eq_refl) as ->.
        cbn [own_sites]. rewrite (fl_outs _ _ _ _ _ Hargs), (fl_outs _ _ _ _ _ Hkwv).
        destruct (find_func (w_ft W) id) as [fn|] eqn:Eff.
        * inv_bind HE x Hp. destruct x as [[node tn] ev3]. inversion HE; subst.
          rewrite <- ?app_assoc. do 3 f_equal.
          unfold process_function_call in Hp. rewrite zfix_combine in Hp.
          destruct (fill Const (f_params fn) args' (combine kwn kwv')) as [[a2 k2]|pn]; [|discriminate].
          rewrite (find_func_name _ _ _ Eff) in Hp.
          cbn [events_of flat_map]. rewrite fire_eq.
          destruct (run_cb W (f_proc fn) (Call (Name id) a2 (map fst k2) (map snd k2))) as [site evs].
          inversion Hp; subst. cbn. rewrite app_nil_r. reflexivity.
        * inversion HE; subst. cbn. rewrite app_nil_r, <- ?app_assoc. reflexivity.
    - (* Lambda *) rewrite fx_Lambda in HE. inversion HE; subst. fuel n Hn. reflexivity.
    - cbn. apply IHe.
    - (* UnaryOp *)
      rewrite fx_UnaryOp in HE. crush HE. destruct (unary_uses_lookup || _); inversion HE; subst. fuel n Hn.
      rewrite sites_unfold by exact I. cbn [children flat_map own_sites]. rewrite !app_nil_r.
      child (proj1 IHe).
    - (* BinOp *)
      rewrite fx_BinOp in HE. crush HE. inversion HE; subst. fuel n Hn.
      rewrite sites_unfold by exact I. cbn [children flat_map own_sites]. rewrite !app_nil_r, events_of_app.
      f_equal; [child (proj1 IHe1) | child (proj1 IHe2)].
    - (* BoolOp *)
      rewrite fx_BoolOp in HE. crush HE. inversion HE; subst. fuel n Hn.
      rewrite sites_unfold by exact I. cbn [children own_sites]. rewrite !app_nil_r.
      eapply fl_events; [eapply Forall_impl; [|exact H]; intros x Hx; exact (proj1 Hx) | | eassumption].
      intros x Hx. eapply child_fuel; [exact Hn | exact Hx].
    - (* Compare *)
      rewrite fx_Compare in HE. crush HE. inversion HE; subst. fuel n Hn.
      rewrite sites_unfold by exact I. cbn [children flat_map own_sites]. rewrite !app_nil_r, events_of_app.
      f_equal; [child (proj1 IHe)|].
      eapply fl_events; [eapply Forall_impl; [|exact H]; intros x Hx; exact (proj1 Hx) | | eassumption].
      intros x Hx. eapply child_fuel; [exact Hn | cbn; right; exact Hx].
    - (* IfExp *)
      rewrite fx_IfExp in HE. crush HE. inversion HE; subst. fuel n Hn.
      rewrite sites_unfold by exact I. cbn [children flat_map own_sites]. rewrite !app_nil_r, !events_of_app.
      f_equal; [child (proj1 IHe1) | f_equal; [child (proj1 IHe2) | child (proj1 IHe3)]].
    - (* Tuple *)
      rewrite fx_Tuple in HE. crush HE. inversion HE; subst. fuel n Hn.
      rewrite sites_unfold by exact I. cbn [children own_sites]. rewrite !app_nil_r.
      eapply fl_events; [eapply Forall_impl; [|exact H]; intros x Hx; exact (proj1 Hx) | | eassumption].
      intros x Hx. eapply child_fuel; [exact Hn | exact Hx].
    - (* List *)
      rewrite fx_List in HE. crush HE. inversion HE; subst. fuel n Hn.
      rewrite sites_unfold by exact I. cbn [children own_sites]. rewrite !app_nil_r.
      eapply fl_events; [eapply Forall_impl; [|exact H]; intros x Hx; exact (proj1 Hx) | | eassumption].
      intros x Hx. eapply child_fuel; [exact Hn | exact Hx].
    - (* Dict *)
      rewrite fx_Dict in HE. crush HE. inversion HE; subst. fuel n Hn.
      rewrite sites_unfold by exact I. cbn [children own_sites]. rewrite !app_nil_r, flat_map_app, events_of_app.
      f_equal.
      + eapply fl_events; [eapply Forall_impl; [|exact H]; intros x Hx; exact (proj1 Hx) | | eassumption].
        intros x Hx. eapply child_fuel; [exact Hn | cbn; apply in_or_app; left; exact Hx].
      + eapply fl_events; [eapply Forall_impl; [|exact H0]; intros x Hx; exact (proj1 Hx) | | eassumption].
        intros x Hx. eapply child_fuel; [exact Hn | cbn; apply in_or_app; right; exact Hx].
    - (* Subscript *)
      rewrite fx_Subscript in HE. crush HE. inversion HE; subst. fuel n Hn.
      rewrite sites_unfold by exact I. cbn [children flat_map own_sites]. rewrite !app_nil_r, events_of_app.
      f_equal; [child (proj1 IHe1) | child (proj1 IHe2)].
    - cbn. split; [apply IHe2|]. destruct e1; try exact I. apply (proj2 IHe1).
    - (* ListComp *)
      rewrite fx_ListComp in HE. crush HE. inversion HE; subst. fuel n Hn.
      rewrite sites_unfold by exact I. cbn [children flat_map own_sites]. rewrite !app_nil_r, events_of_app.
      f_equal; [child (proj1 IHe)|].
      eapply fl_events; [eapply Forall_impl; [|exact H]; intros x Hx; exact (proj1 Hx) | | eassumption].
      intros x Hx. eapply child_fuel; [exact Hn | cbn; right; exact Hx].
    - (* GenExp *)
      rewrite fx_GenExp in HE. crush HE. inversion HE; subst. fuel n Hn.
      rewrite sites_unfold by exact I. cbn [children flat_map own_sites]. rewrite !app_nil_r, events_of_app.
      f_equal; [child (proj1 IHe)|].
      eapply fl_events; [eapply Forall_impl; [|exact H]; intros x Hx; exact (proj1 Hx) | | eassumption].
      intros x Hx. eapply child_fuel; [exact Hn | cbn; right; exact Hx].
    - (* CompFor *)
      rewrite fx_CompFor in HE. crush HE. inversion HE; subst. fuel n Hn.
      rewrite sites_unfold by exact I. cbn [children flat_map own_sites]. rewrite !app_nil_r, !events_of_app.
      f_equal; [child (proj1 IHe1) | f_equal; [child (proj1 IHe2)|]].
      eapply fl_events; [eapply Forall_impl; [|exact H]; intros x Hx; exact (proj1 Hx) | | eassumption].
      intros x Hx. eapply child_fuel; [exact Hn | cbn; right; right; exact Hx].
    - (* Raw *) rewrite fx_Raw in HE. inversion HE; subst. fuel n Hn. reflexivity.
    - (* Other *)
      rewrite fx_Other in HE. crush HE. inversion HE; subst. fuel n Hn.
      rewrite sites_unfold by exact I. cbn [children own_sites]. rewrite !app_nil_r.
      eapply fl_events; [eapply Forall_impl; [|exact H]; intros x Hx; exact (proj1 Hx) | | eassumption].
      intros x Hx. eapply child_fuel; [exact Hn | exact Hx].
  Qed.
End Exact.

(* ---------- exported: callbacks_exact ---------- *)

Theorem callbacks_exact_x W G e e' t ev :
  follow W G e = Ok (e', t, ev) -> ev = callback_sites W G e.
Proof.
  intros H. unfold follow in H. apply bind_ok in H. destruct H as ([[[e1 t1] aux1] ev1] & H1 & H).
  inversion H; subst. unfold callback_sites, call_sites.
  exact (proj1 (follow_sites W e) (size e) G _ _ _ _ (le_n _) H1).
Qed.

(* the traversal does not depend on the fuel once it covers the expression *)
Lemma sites_fuel_events W G e e' t ev n :
  size e <= n -> follow W G e = Ok (e', t, ev) -> events_of (sites_n W n G e) = callback_sites W G e.
Proof.
  intros Hn H. rewrite <- (callbacks_exact_x W G e e' t ev H).
  unfold follow in H. apply bind_ok in H. destruct H as ([[[e1 t1] aux1] ev1] & H1 & H). inversion H; subst.
  symmetry. exact (proj1 (follow_sites W e) n G _ _ _ _ Hn H1).
Qed.

(* ---------- exported: metadata_upstream ---------- *)

(* What ObjectStream.Select / SelectMany / Where return for a stream whose query is [src]
   (object_stream.py: function_call(op, [n_stream.query_ast, n_ast]), n_stream = the stream after every
   stream.MetaData(md) the callbacks applied, in order): *)
Definition op_name (op : opkind) : string :=
  match op with OpSelect => "Select" | OpSelectMany => "SelectMany" | OpWhere => "Where" | _ => "" end.
Definition metas (ev : list event) : list expr :=
  flat_map (fun e => match e with EvMeta md => [md] | _ => [] end) ev.
Definition metadata_call (s md : expr) : expr := Call (Name "MetaData") [s; md] [] [].
Definition with_metadata (src : expr) (mds : list expr) : expr := fold_left metadata_call mds src.
Definition stream_query (op : opkind) (src lam : expr) (ev : list event) : expr :=
  Call (Name (op_name op)) [with_metadata src (metas ev); lam] [] [].

(* reading a source chain back: the MetaData wrappers around the source, innermost first *)
Fixpoint peel (e : expr) : expr * list expr :=
  match e with
  | Call (Name "MetaData") [s; md] [] [] => let '(r, l) := peel s in (r, l ++ [md])
  | _ => (e, [])
  end.

Definition is_metadata_call (e : expr) : bool :=
  match e with Call (Name "MetaData") [_; _] [] [] => true | _ => false end.

Lemma peel_with_metadata src mds :
  is_metadata_call src = false -> peel (with_metadata src mds) = (src, mds).
Proof.
  intros Hs. unfold with_metadata. induction mds as [|md mds IH] using rev_ind.
  - cbn. destruct src; try reflexivity. cbn in Hs.
    destruct src; try reflexivity. destruct (String.eqb id "MetaData") eqn:E.
    + apply String.eqb_eq in E. subst.
      destruct args as [|? [|? [|? ?]]]; try reflexivity. destruct kwn; try reflexivity. destruct kwv; try reflexivity.
      discriminate.
    + assert (id <> "MetaData") by (intros ->; rewrite String.eqb_refl in E; discriminate).
      cbn. repeat (match goal with |- context [match ?x with _ => _ end] => destruct x; try reflexivity; try congruence end).
  - rewrite fold_left_app. cbn [fold_left]. unfold metadata_call at 1. cbn [peel]. rewrite IH. reflexivity.
Qed.

(* the MetaData of every callback site of the lambda - at whatever nesting depth - is attached to the source chain,
   upstream of the operator node, in firing order; the operator's lambda is the followed lambda *)
Theorem metadata_upstream_x W op G0 item p b lam t ev src :
  stream_op W op G0 item (Lambda [p] b) = Ok (lam, t, ev) ->
  ev = callback_sites W ((p, item) :: G0) b /\
  exists b', lam = Lambda [p] b' /\ follow W ((p, item) :: G0) b = Ok (b', type_of W ((p, item) :: G0) b, ev) /\
    stream_query op src lam ev =
      Call (Name (op_name op)) [with_metadata src (metas (callback_sites W ((p, item) :: G0) b)); Lambda [p] b'] [] [] /\
    (is_metadata_call src = false ->
     peel (with_metadata src (metas ev)) = (src, metas (callback_sites W ((p, item) :: G0) b))).
Proof.
  intros H. cbn [stream_op] in H. apply bind_ok in H. destruct H as ([[b' tb] ev'] & Hf & H).
  pose proof (callbacks_exact_x _ _ _ _ _ _ Hf) as Hev.
  assert (Hl : lam = Lambda [p] b' /\ ev = ev').
  { unfold finish_op in H. destruct (negb (check_ast (Lambda [p] b'))); [discriminate|].
    destruct op; try discriminate; try (inversion H; auto; fail).
    destruct (ty_eqb tb TBool); inversion H; auto. }
  destruct Hl as [-> ->]. split; [exact Hev|]. exists b'. split; [reflexivity|]. split.
  - unfold type_of. rewrite Hf. reflexivity.
  - split.
    + unfold stream_query. rewrite <- Hev. reflexivity.
    + intros Hs. rewrite <- Hev. apply peel_with_metadata. exact Hs.
Qed.

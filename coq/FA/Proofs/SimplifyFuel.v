(* C18 / C02: the fuel of the simplifier model is only a recursion budget.

   [simp_fuel_step]: any outcome other than [OutOfFuel] (a result, the dedicated index error, a crash)
   obtained with fuel [f] is obtained with fuel [S f]; hence [simp_fuel_mono] for any larger fuel and
   [simp_fuel_irrelevant]: two runs that both have enough fuel return the same outcome - the theorems
   that exclude [OutOfFuel] in their statement speak about one well-defined result.  Termination
   itself (existence of a sufficient fuel for every well-formed query) is not proved. *)
From FA.Base Require Import PyAst Induct Value Traverse Names.
From FA.Gen Require Import TablesSimp.
From FA.Model Require Import Simplify.
From Coq Require Import Lia.

(* [r'] is [r], unless [r] ran out of fuel *)
Definition R {A} (r r' : sres A) : Prop := r = OutOfFuel \/ r = r'.

Lemma R_refl {A} (r : sres A) : R r r.
Proof. right. reflexivity. Qed.

Lemma sbind_R {A C} (m m' : sres A) (k k' : A -> sres C) :
  R m m' -> (forall a, R (k a) (k' a)) -> R (sbind m k) (sbind m' k').
Proof.
  intros [ -> | -> ] Hk; [left; reflexivity|]. destruct m' as [a| | |]; cbn [sbind]; [apply Hk | | |]; apply R_refl.
Qed.

Lemma mapM_R v v' : (forall c e, R (v c e) (v' c e)) -> forall l c, R (mapM v c l) (mapM v' c l).
Proof.
  intros Hv. induction l as [|x xs IH]; intros c; cbn [mapM]; [apply R_refl|].
  apply sbind_R; [apply Hv|]. intros [x' c1].
  fold (mapM v c1 xs). fold (mapM v' c1 xs).
  apply sbind_R; [apply IH|]. intros [xs' c2]. apply R_refl.
Qed.

Ltac rstep f f1 IH :=
  match goal with
  | |- R ?a ?b => constr_eq a b; apply R_refl
  | |- R (simp f _ _ _ _) (simp f1 _ _ _ _) => apply IH
  | |- R (mapM (simp f _ _) _ _) (mapM (simp f1 _ _) _ _) => apply mapM_R; intros; apply IH
  | |- R (sbind _ _) (sbind _ _) => apply sbind_R; [ | intros ? ]
  | |- R (match ?X with _ => _ end) (match ?X with _ => _ end) => destruct X; cbv beta iota
  end.

Section Step.
  Variables f f1 : nat.
  Hypothesis IH : forall st bd c e, R (simp f st bd c e) (simp f1 st bd c e).

  Lemma step_Subscript st bd c e1 e2 : R (simp (S f) st bd c (Subscript e1 e2)) (simp (S f1) st bd c (Subscript e1 e2)).
  Proof.
    cbn [simp]. apply sbind_R; [apply IH|]. intros [v' c1]. apply sbind_R; [apply IH|]. intros [s0 c2]. cbv beta iota.
    match goal with |- R ?L ?Rr =>
      match L with context [if is_call_of v' "First" then ?A else ?B] =>
        match Rr with context [if is_call_of v' "First" then ?A' else ?B'] =>
          assert (Hd : R (if is_call_of v' "First" then A else B) (if is_call_of v' "First" then A' else B'));
          [| set (d := if is_call_of v' "First" then A else B) in *;
             set (d' := if is_call_of v' "First" then A' else B') in *; clearbody d d' ]
        end end end.
    - repeat rstep f f1 IH.
    - repeat first [ exact Hd | rstep f f1 IH ].
  Qed.

  Lemma step_Call st bd c g args kwn kwv : R (simp (S f) st bd c (Call g args kwn kwv)) (simp (S f1) st bd c (Call g args kwn kwv)).
  Proof. cbn [simp]. repeat rstep f f1 IH. Qed.

  Lemma step_all st bd c e : R (simp (S f) st bd c e) (simp (S f1) st bd c e).
  Proof.
    destruct e; try apply step_Subscript; try apply step_Call.
    all: cbn [simp]; repeat rstep f f1 IH.
  Qed.
End Step.

Theorem simp_fuel_R : forall f st bd c e, R (simp f st bd c e) (simp (S f) st bd c e).
Proof.
  induction f as [|f IH]; intros st bd c e; [left; reflexivity|]. apply step_all. exact IH.
Qed.

Definition done {A} (r : sres A) : Prop := r <> OutOfFuel.

Theorem simp_fuel_step : forall f st bd c e r, simp f st bd c e = r -> done r -> simp (S f) st bd c e = r.
Proof.
  intros f st bd c e r H Hr. destruct (simp_fuel_R f st bd c e) as [E|E]; [rewrite E in H; subst r; exfalso; apply Hr; reflexivity|].
  rewrite <- E. exact H.
Qed.

Theorem simp_fuel_mono : forall k f st bd c e r, simp f st bd c e = r -> done r -> simp (f + k) st bd c e = r.
Proof.
  induction k as [|k IH]; intros f st bd c e r H Hr; [rewrite Nat.add_0_r; exact H|].
  rewrite Nat.add_succ_r. apply simp_fuel_step; [apply IH; assumption | assumption].
Qed.

(* the outcome does not depend on the fuel, once there is enough of it *)
Theorem simp_fuel_irrelevant : forall f1 f2 st bd c e r1 r2,
  simp f1 st bd c e = r1 -> simp f2 st bd c e = r2 -> done r1 -> done r2 -> r1 = r2.
Proof.
  intros f1 f2 st bd c e r1 r2 H1 H2 D1 D2.
  pose proof (simp_fuel_mono f2 f1 st bd c e r1 H1 D1) as A.
  pose proof (simp_fuel_mono f1 f2 st bd c e r2 H2 D2) as Bq.
  rewrite Nat.add_comm in Bq. congruence.
Qed.

Print Assumptions simp_fuel_irrelevant.

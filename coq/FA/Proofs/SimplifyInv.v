(* Name bookkeeping of the simplifier model: what [simp] does to the names that occur in a query.

   - [binds y e]: [y] is a lambda parameter somewhere in [e]; [mentions y e = occurs y e || binds y e];
   - [below c e]: no fresh name [arg_N] with [N >= c] is mentioned in [e] (as a name or as a lambda
     parameter) - the library's reserved name space, relative to the counter;
   - [bok B e]: the backend gives no meaning, as a function name, to any lambda parameter of [e];
   - what [rename] and [make_args_unique] do to [binds], [mentions] and [below].

   Used by Proofs/SimplifySound.v (whole-algorithm semantic preservation, DESIGN.md section 4, C02:
   invariants I1-I4 for the repaired algorithm). *)
From FA.Base Require Import PyAst Induct Value Eval Traverse Names.
From FA.Gen Require Import TablesSimp.
From FA.Model Require Import Simplify.
From FA.Proofs Require Import TraverseFacts SimplifyFacts EvalAgree RenameSem SimplifyTotal.
From Coq Require Import Lia.

(* ---------- binders ---------- *)

Fixpoint binds (y : string) (e : expr) {struct e} : bool :=
  let any := fix any (l : list expr) : bool :=
               match l with [] => false | x :: xs => binds y x || any xs end in
  match e with
  | Name _ | Const _ | Raw _ => false
  | Attr v _ => binds y v
  | Call f args _ kwv => binds y f || any args || any kwv
  | Lambda ps b => existsb (String.eqb y) ps || binds y b
  | UnaryOp _ a => binds y a
  | BinOp _ l r => binds y l || binds y r
  | BoolOp _ es => any es
  | Compare l _ rs => binds y l || any rs
  | IfExp c t f => binds y c || binds y t || binds y f
  | Tuple es | List es => any es
  | Dict ks vs => any ks || any vs
  | Subscript v i => binds y v || binds y i
  | ListComp a gs | GenExp a gs => binds y a || any gs
  | CompFor t i ifs _ => binds y t || binds y i || any ifs
  | Other _ _ cs => any cs
  end.

Fixpoint binds_any (y : string) (l : list expr) : bool :=
  match l with [] => false | x :: xs => binds y x || binds_any y xs end.

Lemma binds_any_fix y l :
  (fix any (l : list expr) : bool := match l with [] => false | x :: xs => binds y x || any xs end) l = binds_any y l.
Proof. induction l; simpl; congruence. Qed.

(* [mentions] = occurs as a name, or is bound *)
Lemma mentions_split y e : mentions y e = occurs y e || binds y e.
Proof.
  induction e using expr_ind'; cbn [mentions occurs binds];
    rewrite ?mentions_any_fix, ?occurs_any_fix, ?binds_any_fix; try reflexivity; try (rewrite orb_false_r; reflexivity).
  all: assert (Hall : forall l, Forall (fun e0 => mentions y e0 = occurs y e0 || binds y e0) l ->
                                mentions_any y l = occurs_any y l || binds_any y l)
         by (induction 1 as [|x0 l0 Hx0 _ IHl0]; simpl; [reflexivity|]; rewrite Hx0, IHl0;
             destruct (occurs y x0), (binds y x0), (occurs_any y l0), (binds_any y l0); reflexivity).
  all: repeat match goal with
              | IH : mentions _ ?a = _ |- _ => rewrite IH; clear IH
              | F : Forall _ ?l |- _ => rewrite (Hall l F); clear F
              end.
  all: repeat match goal with |- context[occurs ?v ?a] => destruct (occurs v a) end;
       repeat match goal with |- context[binds ?v ?a] => destruct (binds v a) end;
       repeat match goal with |- context[occurs_any ?v ?a] => destruct (occurs_any v a) end;
       repeat match goal with |- context[binds_any ?v ?a] => destruct (binds_any v a) end;
       repeat match goal with |- context[existsb ?p ?l] => destruct (existsb p l) end;
       reflexivity.
Qed.

Lemma binds_mentions y e : binds y e = true -> mentions y e = true.
Proof. intros H. rewrite mentions_split, H. apply orb_true_r. Qed.

Lemma not_mentions_not_binds y e : mentions y e = false -> binds y e = false.
Proof. rewrite mentions_split. intros H. apply orb_false_iff in H. tauto. Qed.

Lemma not_mentions_not_occurs y e : mentions y e = false -> occurs y e = false.
Proof. rewrite mentions_split. intros H. apply orb_false_iff in H. tauto. Qed.

(* ---------- below ---------- *)

Definition below (c : nat) (e : expr) : Prop := forall n, c <= n -> mentions (arg_name n) e = false.
Definition below_all (c : nat) (l : list expr) : Prop := forall e, In e l -> below c e.

Lemma below_mono c c' e : c <= c' -> below c e -> below c' e.
Proof. intros Hc H n Hn. apply H. lia. Qed.

Lemma below_child c e x : In x (children e) -> below c e -> below c x.
Proof.
  intros Hin H n Hn. specialize (H n Hn).
  destruct (mentions (arg_name n) x) eqn:E; [|reflexivity].
  rewrite (mentions_child _ _ _ Hin E) in H. discriminate.
Qed.

Lemma below_name c x : below c (Name x) <-> (forall n, c <= n -> x <> arg_name n).
Proof.
  unfold below. cbn [mentions]. split; intros H n Hn; specialize (H n Hn).
  - intros ->. rewrite String.eqb_refl in H. discriminate.
  - destruct (String.eqb (arg_name n) x) eqn:E; [|reflexivity]. apply String.eqb_eq in E. symmetry in E. contradiction.
Qed.

Lemma below_arg c n : n < c -> below c (Name (arg_name n)).
Proof. intros Hn. apply below_name. intros k Hk Heq. apply arg_name_inj in Heq. lia. Qed.

(* ---------- renaming and names ---------- *)

Lemma binds_rename y : forall e m, binds y (rename m e) = binds y e.
Proof.
  induction e using expr_ind'; intros m; cbn [rename map_children_t binds]; rewrite ?binds_any_fix; try reflexivity.
  all: assert (Hall : forall l, Forall (fun e0 => forall m0, binds y (rename m0 e0) = binds y e0) l ->
                                binds_any y (map (rename m) l) = binds_any y l)
         by (induction 1 as [|x0 l0 Hx0 _ IHl0]; simpl; [reflexivity|]; rewrite Hx0, IHl0; reflexivity).
  all: repeat match goal with
              | IH : forall m0, binds _ (rename m0 ?a) = _ |- _ => rewrite IH; clear IH
              | F : Forall _ ?l |- _ => rewrite (Hall l F); clear F
              end; try reflexivity.
  - destruct (ren_lookup id m); reflexivity.
Qed.

Lemma mentions_rename y : forall e m,
  mentions y (rename m e) = true -> mentions y e = true \/ In y (map snd m).
Proof.
  induction e using expr_ind'; intros m; cbn [rename map_children_t mentions]; rewrite ?mentions_any_fix; intros Hm;
    try (left; exact Hm).
  all: assert (Hall : forall l, Forall (fun e0 => forall m0, mentions y (rename m0 e0) = true ->
                                          mentions y e0 = true \/ In y (map snd m0)) l ->
                                mentions_any y (map (rename m) l) = true -> mentions_any y l = true \/ In y (map snd m))
         by (induction 1 as [|x0 l0 Hx0 _ IHl0]; simpl; intros Hx; [discriminate|];
             apply orb_true_iff in Hx; destruct Hx as [Hx|Hx];
             [destruct (Hx0 _ Hx) as [H1|H1]; [left; rewrite H1; reflexivity | right; exact H1]
             |destruct (IHl0 Hx) as [H1|H1]; [left; rewrite H1; apply orb_true_r | right; exact H1]]).
  - (* Name *)
    destruct (ren_lookup id m) as [z|] eqn:E; [|left; exact Hm].
    cbn [mentions] in Hm. apply String.eqb_eq in Hm; subst z. right.
    clear - E. induction m as [|[a b] m IH]; simpl in *; [discriminate|].
    destruct (String.eqb id a); [inversion E; left; reflexivity | right; auto].
  - destruct (IHe _ Hm); auto.
  - (* Call *)
    apply orb_true_iff in Hm. destruct Hm as [Hm|Hm]; [apply orb_true_iff in Hm; destruct Hm as [Hm|Hm]|].
    + destruct (IHe _ Hm) as [H1|H1]; [left; rewrite H1; reflexivity | right; exact H1].
    + destruct (Hall _ H Hm) as [H1|H1]; [left; rewrite H1, orb_true_r; reflexivity | right; exact H1].
    + destruct (Hall _ H0 Hm) as [H1|H1]; [left; rewrite H1, !orb_true_r; reflexivity | right; exact H1].
  - (* Lambda *)
    apply orb_true_iff in Hm. destruct Hm as [Hm|Hm]; [left; rewrite Hm; reflexivity|].
    destruct (IHe _ Hm) as [H1|H1]; [left; rewrite H1; apply orb_true_r|].
    rewrite map_app in H1. apply in_app_or in H1. destruct H1 as [H1|H1]; [|right; exact H1].
    left. rewrite map_rev, map_map in H1. apply in_rev in H1. cbn [snd] in H1. rewrite map_id in H1.
    assert (Hx : existsb (String.eqb y) ps = true) by (apply existsb_exists; exists y; split; [assumption | apply String.eqb_refl]).
    rewrite Hx. reflexivity.
  - destruct (IHe _ Hm); auto.
  - apply orb_true_iff in Hm. destruct Hm as [Hm|Hm].
    + destruct (IHe1 _ Hm) as [H1|H1]; [left; rewrite H1; reflexivity | right; exact H1].
    + destruct (IHe2 _ Hm) as [H1|H1]; [left; rewrite H1; apply orb_true_r | right; exact H1].
  - apply (Hall _ H Hm).
  - apply orb_true_iff in Hm. destruct Hm as [Hm|Hm].
    + destruct (IHe _ Hm) as [H1|H1]; [left; rewrite H1; reflexivity | right; exact H1].
    + destruct (Hall _ H Hm) as [H1|H1]; [left; rewrite H1; apply orb_true_r | right; exact H1].
  - apply orb_true_iff in Hm. destruct Hm as [Hm|Hm]; [apply orb_true_iff in Hm; destruct Hm as [Hm|Hm]|].
    + destruct (IHe1 _ Hm) as [H1|H1]; [left; rewrite H1; reflexivity | right; exact H1].
    + destruct (IHe2 _ Hm) as [H1|H1]; [left; rewrite H1, orb_true_r; reflexivity | right; exact H1].
    + destruct (IHe3 _ Hm) as [H1|H1]; [left; rewrite H1, !orb_true_r; reflexivity | right; exact H1].
  - apply (Hall _ H Hm).
  - apply (Hall _ H Hm).
  - apply orb_true_iff in Hm. destruct Hm as [Hm|Hm].
    + destruct (Hall _ H Hm) as [H1|H1]; [left; rewrite H1; reflexivity | right; exact H1].
    + destruct (Hall _ H0 Hm) as [H1|H1]; [left; rewrite H1; apply orb_true_r | right; exact H1].
  - apply orb_true_iff in Hm. destruct Hm as [Hm|Hm].
    + destruct (IHe1 _ Hm) as [H1|H1]; [left; rewrite H1; reflexivity | right; exact H1].
    + destruct (IHe2 _ Hm) as [H1|H1]; [left; rewrite H1; apply orb_true_r | right; exact H1].
  - apply orb_true_iff in Hm. destruct Hm as [Hm|Hm].
    + destruct (IHe _ Hm) as [H1|H1]; [left; rewrite H1; reflexivity | right; exact H1].
    + destruct (Hall _ H Hm) as [H1|H1]; [left; rewrite H1; apply orb_true_r | right; exact H1].
  - apply orb_true_iff in Hm. destruct Hm as [Hm|Hm].
    + destruct (IHe _ Hm) as [H1|H1]; [left; rewrite H1; reflexivity | right; exact H1].
    + destruct (Hall _ H Hm) as [H1|H1]; [left; rewrite H1; apply orb_true_r | right; exact H1].
  - apply orb_true_iff in Hm. destruct Hm as [Hm|Hm]; [apply orb_true_iff in Hm; destruct Hm as [Hm|Hm]|].
    + destruct (IHe1 _ Hm) as [H1|H1]; [left; rewrite H1; reflexivity | right; exact H1].
    + destruct (IHe2 _ Hm) as [H1|H1]; [left; rewrite H1, orb_true_r; reflexivity | right; exact H1].
    + destruct (Hall _ H Hm) as [H1|H1]; [left; rewrite H1, !orb_true_r; reflexivity | right; exact H1].
  - apply (Hall _ H Hm).
Qed.

Lemma binds_any_in y l x : In x l -> binds y x = true -> binds_any y l = true.
Proof.
  induction l as [|a l IH]; simpl; intros Hi Hx; [contradiction|].
  apply orb_true_iff. destruct Hi as [->|Hi]; [left | right]; auto.
Qed.

Lemma binds_any_app y l1 l2 : binds_any y (l1 ++ l2) = binds_any y l1 || binds_any y l2.
Proof. induction l1; simpl; [reflexivity|]. rewrite IHl1, orb_assoc; reflexivity. Qed.

Lemma binds_children y e :
  binds y e = match e with Lambda ps b => existsb (String.eqb y) ps || binds y b | _ => binds_any y (children e) end.
Proof.
  destruct e; cbn [binds children]; rewrite ?binds_any_fix; cbn [binds_any];
    rewrite ?binds_any_app, ?orb_false_r, ?orb_assoc; reflexivity.
Qed.

Lemma binds_child y e x : In x (children e) -> binds y x = true -> binds y e = true.
Proof.
  intros Hin Hb. rewrite binds_children. destruct e; try (eapply binds_any_in; eassumption).
  cbn [children] in Hin. destruct Hin as [<-|[]]. rewrite Hb. apply orb_true_r.
Qed.

Lemma mentions_children y e :
  mentions y e = match e with
                 | Name x => String.eqb y x
                 | Lambda ps b => existsb (String.eqb y) ps || mentions y b
                 | _ => mentions_any y (children e)
                 end.
Proof.
  destruct e; cbn [mentions children]; rewrite ?mentions_any_fix; cbn [mentions_any];
    rewrite ?mentions_any_app, ?orb_false_r, ?orb_assoc; reflexivity.
Qed.

Lemma mentions_any_false y l : (forall x, In x l -> mentions y x = false) -> mentions_any y l = false.
Proof.
  induction l as [|a l IH]; simpl; intros H; [reflexivity|].
  rewrite (H a (or_introl eq_refl)), IH; [reflexivity | intros x Hx; apply H; right; assumption].
Qed.

Lemma binds_any_false y l : (forall x, In x l -> binds y x = false) -> binds_any y l = false.
Proof.
  induction l as [|a l IH]; simpl; intros H; [reflexivity|].
  rewrite (H a (or_introl eq_refl)), IH; [reflexivity | intros x Hx; apply H; right; assumption].
Qed.

Lemma mentions_any_true_in y l : mentions_any y l = true -> exists x, In x l /\ mentions y x = true.
Proof.
  induction l as [|a l IH]; simpl; intros H; [discriminate|].
  apply orb_true_iff in H. destruct H as [H|H]; [exists a; auto|].
  destruct (IH H) as (x & Hx & Hm). exists x; auto.
Qed.

Lemma binds_any_true_in y l : binds_any y l = true -> exists x, In x l /\ binds y x = true.
Proof.
  induction l as [|a l IH]; simpl; intros H; [discriminate|].
  apply orb_true_iff in H. destruct H as [H|H]; [exists a; auto|].
  destruct (IH H) as (x & Hx & Hm). exists x; auto.
Qed.

(* make_args_unique and names *)
Lemma mau_eq ps b c :
  make_args_unique ps b c
  = (Lambda (fresh_names (length ps) c) (rename (rev (combine ps (fresh_names (length ps) c))) b), c + length ps).
Proof. reflexivity. Qed.

Lemma in_fresh_names y n c : In y (fresh_names n c) <-> exists k, c <= k < c + n /\ y = arg_name k.
Proof.
  revert c; induction n as [|n IH]; intros c; simpl.
  - split; [contradiction | intros (k & Hk & _); lia].
  - rewrite IH. split.
    + intros [<-|(k & Hk & ->)]; [exists c; split; [lia | reflexivity] | exists k; split; [lia | reflexivity]].
    + intros (k & Hk & ->). destruct (Nat.eq_dec k c) as [->|Hne]; [left; reflexivity | right; exists k; split; [lia | reflexivity]].
Qed.

Lemma snd_rev_combine (ps fs : list string) y : In y (map snd (rev (combine ps fs))) -> In y fs.
Proof.
  rewrite map_rev. intros H. apply in_rev in H. apply in_map_iff in H. destruct H as ([a b] & <- & Hin).
  eapply in_combine_r; eassumption.
Qed.

(* what the renamed lambda mentions: what the original mentioned, or one of the fresh names *)
Lemma mentions_mau y ps b c :
  mentions y (fst (make_args_unique ps b c)) = true ->
  mentions y (Lambda ps b) = true \/ exists k, c <= k < c + length ps /\ y = arg_name k.
Proof.
  rewrite mau_eq. cbn [fst mentions]. intros H. apply orb_true_iff in H. destruct H as [H|H].
  - right. apply existsb_exists in H. destruct H as (z & Hz & Heq). apply String.eqb_eq in Heq; subst z.
    apply in_fresh_names in Hz. exact Hz.
  - destruct (mentions_rename _ _ _ H) as [H1|H1]; [left; rewrite H1; apply orb_true_r|].
    right. apply snd_rev_combine in H1. apply in_fresh_names in H1. exact H1.
Qed.

Lemma below_mau ps b c :
  below c (Lambda ps b) -> below (c + length ps) (fst (make_args_unique ps b c)).
Proof.
  intros Hb n Hn. destruct (mentions (arg_name n) (fst (make_args_unique ps b c))) eqn:E; [|reflexivity].
  destruct (mentions_mau _ _ _ _ E) as [H1|(k & Hk & Heq)].
  - rewrite (Hb n) in H1 by lia. discriminate.
  - apply arg_name_inj in Heq. lia.
Qed.

Lemma binds_mau y ps b c :
  binds y (fst (make_args_unique ps b c)) = true ->
  binds y b = true \/ exists k, c <= k < c + length ps /\ y = arg_name k.
Proof.
  rewrite mau_eq. cbn [fst binds]. rewrite binds_rename. intros H. apply orb_true_iff in H. destruct H as [H|H]; [|left; exact H].
  right. apply existsb_exists in H. destruct H as (z & Hz & Heq). apply String.eqb_eq in Heq; subst z.
  apply in_fresh_names in Hz. exact Hz.
Qed.

(* ---------- binders the backend knows nothing about ---------- *)

Definition bok (B : backend) (e : expr) : Prop := forall y, binds y e = true -> nofun B y.

Lemma bok_child B e x : In x (children e) -> bok B e -> bok B x.
Proof. intros Hin H y Hy. apply H. eapply binds_child; eassumption. Qed.

Lemma bok_lambda B ps b : bok B (Lambda ps b) -> (forall p, In p ps -> nofun B p) /\ bok B b.
Proof.
  intros H. split.
  - intros p Hp. apply H. cbn [binds]. apply orb_true_iff. left. apply existsb_exists. exists p. split; [assumption | apply String.eqb_refl].
  - intros y Hy. apply H. cbn [binds]. rewrite Hy. apply orb_true_r.
Qed.

(* Facts about the total traversal combinator [map_children_t], size induction, and the
   "guarded" embedding of a total pass into the option-valued passes EvalCong.v speaks about.
   (Extension of Proofs/TraverseFacts.v written for the C17/C15 work package.) *)
From FA.Base Require Import PyAst Induct Value Eval Traverse.
From FA.Proofs Require Import TraverseFacts Refine EvalCong.
From Coq Require Import Lia.

Lemma children_map_children_t f e : children (map_children_t f e) = map f (children e).
Proof. destruct e; simpl; rewrite ?map_app; reflexivity. Qed.

Lemma map_children_t_rebuild f e : map_children_t f e = rebuild e (map f (children e)).
Proof.
  destruct e; simpl; try reflexivity.
  - rewrite map_app, firstn_app_len, skipn_app_len by (rewrite map_length; reflexivity). reflexivity.
  - rewrite map_app, firstn_app_len, skipn_app_len by (rewrite map_length; reflexivity). reflexivity.
Qed.

Lemma map_ext_in_eq {A B} (f g : A -> B) l : Forall (fun x => f x = g x) l -> map f l = map g l.
Proof. induction 1; simpl; congruence. Qed.

Lemma map_fix_id {A} (f : A -> A) l : Forall (fun x => f x = x) l -> map f l = l.
Proof. induction 1; simpl; congruence. Qed.

Lemma map_children_t_ext f g e :
  Forall (fun c => f c = g c) (children e) -> map_children_t f e = map_children_t g e.
Proof.
  intros H. rewrite !map_children_t_rebuild. f_equal. apply map_ext_in_eq; assumption.
Qed.

Lemma map_children_t_id f e :
  Forall (fun c => f c = c) (children e) -> map_children_t f e = e.
Proof.
  intros H. rewrite map_children_t_rebuild, (map_fix_id _ _ H). apply rebuild_children.
Qed.

Lemma is_call_map_children_t f e : is_call (map_children_t f e) = is_call e.
Proof. destruct e; reflexivity. Qed.

(* strong induction on the size of an expression *)
Lemma expr_size_ind (P : expr -> Prop) :
  (forall e, (forall e0, size e0 < size e -> P e0) -> P e) -> forall e, P e.
Proof.
  intros H e. remember (size e) as n eqn:Hn. revert e Hn.
  induction n as [n IHn] using (well_founded_induction Wf_nat.lt_wf). intros e ->.
  apply H. intros e0 H0. eapply IHn; [exact H0 | reflexivity].
Qed.

Lemma Forall_children_size (P : expr -> Prop) e :
  (forall e0, size e0 < size e -> P e0) -> Forall P (children e).
Proof. intros H. apply Forall_forall. intros c Hc. apply H. apply size_child; assumption. Qed.

(* sizes of the parts of a call *)
Lemma sizes_app l1 l2 : sizes (l1 ++ l2) = sizes l1 + sizes l2.
Proof. induction l1; simpl; auto. rewrite IHl1; lia. Qed.

Lemma size_call f args kwn kwv : size (Call f args kwn kwv) = S (size f + sizes args + sizes kwv).
Proof. rewrite size_sizes. cbn [children sizes]. rewrite sizes_app. lia. Qed.

Lemma size_attr v a : size (Attr v a) = S (size v).
Proof. reflexivity. Qed.

(* ---------- a total pass seen as an option-valued pass ---------- *)

Lemma omap_some_map {A B} (f : A -> B) l : omap (fun x => Some (f x)) l = Some (map f l).
Proof.
  induction l as [|x xs IH]; [reflexivity|]. rewrite omap_cons. simpl. rewrite IH. reflexivity.
Qed.

Lemma omap_guard {A B} (p : A -> bool) (f : A -> B) l :
  omap (fun x => if p x then Some (f x) else None) l = if forallb p l then Some (map f l) else None.
Proof.
  induction l as [|x xs IH]; [reflexivity|]. rewrite omap_cons. simpl.
  destruct (p x); simpl; [|reflexivity]. rewrite IH. destruct (forallb p xs); reflexivity.
Qed.

(* generic_visit of a pass that is defined exactly on the trees satisfying [p] *)
Lemma map_children_guard (p : expr -> bool) (f : expr -> expr) e :
  map_children (fun c => if p c then Some (f c) else None) e =
  if forallb p (children e) then Some (map_children_t f e) else None.
Proof.
  destruct e; cbn [map_children children map_children_t forallb];
    rewrite ?omap_guard, ?forallb_app;
    repeat match goal with
           | |- context [p ?x] => destruct (p x); cbn [obind andb]
           | |- context [forallb p ?l] => destruct (forallb p l); cbn [obind andb]
           end; reflexivity.
Qed.

(* Facts about the option monad helpers and the generic traversal combinators. *)
From FA.Base Require Import PyAst Induct Value Traverse.
From Coq Require Import Lia.

Lemma obind_some {A B} (o : option A) (f : A -> option B) r :
  obind o f = Some r -> exists a, o = Some a /\ f a = Some r.
Proof. destruct o; simpl; intros H; [eauto | discriminate]. Qed.

Lemma sequence_app {A} (l1 l2 : list (option A)) :
  sequence (l1 ++ l2) = obind (sequence l1) (fun a => obind (sequence l2) (fun b => Some (a ++ b))).
Proof.
  induction l1 as [|x xs IH]; simpl.
  - destruct (sequence l2); reflexivity.
  - destruct x; simpl; [|reflexivity]. rewrite IH.
    destruct (sequence xs); simpl; [|reflexivity]. destruct (sequence l2); reflexivity.
Qed.

Lemma omap_app {A B} (f : A -> option B) l1 l2 :
  omap f (l1 ++ l2) = obind (omap f l1) (fun a => obind (omap f l2) (fun b => Some (a ++ b))).
Proof. unfold omap; rewrite map_app; apply sequence_app. Qed.

Lemma omap_cons {A B} (f : A -> option B) x l :
  omap f (x :: l) = obind (f x) (fun a => obind (omap f l) (fun r => Some (a :: r))).
Proof. reflexivity. Qed.

Lemma omap_length {A B} (f : A -> option B) l r : omap f l = Some r -> length r = length l.
Proof.
  revert r; induction l as [|x xs IH]; intros r H.
  - inversion H; reflexivity.
  - rewrite omap_cons in H. apply obind_some in H; destruct H as [a [_ H]].
    apply obind_some in H; destruct H as [r' [Hr H]]. inversion H; subst; simpl.
    f_equal; apply IH; assumption.
Qed.

Lemma omap_Forall2 {A B} (f : A -> option B) (R : A -> B -> Prop) l r :
  Forall (fun x => forall y, f x = Some y -> R x y) l -> omap f l = Some r -> Forall2 R l r.
Proof.
  intros HF; revert r; induction HF as [|x xs Hx _ IH]; intros r H.
  - inversion H; constructor.
  - rewrite omap_cons in H. apply obind_some in H; destruct H as [a [Ha H]].
    apply obind_some in H; destruct H as [r' [Hr H]]. inversion H; subst.
    constructor; auto.
Qed.

Lemma omap_total {A B} (f : A -> option B) l :
  Forall (fun x => exists y, f x = Some y) l -> exists r, omap f l = Some r.
Proof.
  induction 1 as [|x xs [y Hy] _ [r IH]].
  - exists []; reflexivity.
  - exists (y :: r). rewrite omap_cons, Hy; simpl. rewrite IH; reflexivity.
Qed.

Lemma firstn_app_len {A} (l1 l2 : list A) n : n = length l1 -> firstn n (l1 ++ l2) = l1.
Proof. intros ->. rewrite firstn_app, Nat.sub_diag, firstn_all; simpl. apply app_nil_r. Qed.

Lemma skipn_app_len {A} (l1 l2 : list A) n : n = length l1 -> skipn n (l1 ++ l2) = l2.
Proof. intros ->. rewrite skipn_app, Nat.sub_diag, skipn_all; reflexivity. Qed.

(* generic_visit rebuilds the same node around the visited children *)
Lemma map_children_rebuild f e e' :
  map_children f e = Some e' ->
  exists cs', omap f (children e) = Some cs' /\ e' = rebuild e cs'.
Proof.
  destruct e; simpl; intros H;
    repeat match goal with
           | H : obind _ _ = Some _ |- _ =>
               apply obind_some in H; let a := fresh "a" in let Ha := fresh "Ha" in
                                       destruct H as [a [Ha H]]
           end;
    try (inversion H; subst; clear H).
  - exists []; split; reflexivity.
  - exists []; split; reflexivity.
  - exists [a0]; rewrite omap_cons, Ha; simpl; split; reflexivity.
  - exists (a :: a0 ++ a1). rewrite omap_cons, Ha; simpl. rewrite omap_app, Ha0; simpl. rewrite Ha1; simpl.
    split; [reflexivity|].
    rewrite firstn_app_len, skipn_app_len by (symmetry; eapply omap_length; eassumption). reflexivity.
  - exists [a]; rewrite omap_cons, Ha; simpl; split; reflexivity.
  - exists [a]; rewrite omap_cons, Ha; simpl; split; reflexivity.
  - exists [a; a0]; rewrite !omap_cons, Ha, Ha0; simpl; split; reflexivity.
  - exists a; split; [assumption | reflexivity].
  - exists (a :: a0); rewrite omap_cons, Ha; simpl; rewrite Ha0; simpl; split; reflexivity.
  - exists [a; a0; a1]; rewrite !omap_cons, Ha, Ha0, Ha1; simpl; split; reflexivity.
  - exists a; split; [assumption | reflexivity].
  - exists a; split; [assumption | reflexivity].
  - exists (a ++ a0). rewrite omap_app, Ha; simpl; rewrite Ha0; simpl. split; [reflexivity|].
    rewrite firstn_app_len, skipn_app_len by (symmetry; eapply omap_length; eassumption). reflexivity.
  - exists [a; a0]; rewrite !omap_cons, Ha, Ha0; simpl; split; reflexivity.
  - exists (a :: a0); rewrite omap_cons, Ha; simpl; rewrite Ha0; simpl; split; reflexivity.
  - exists (a :: a0); rewrite omap_cons, Ha; simpl; rewrite Ha0; simpl; split; reflexivity.
  - exists (a :: a0 :: a1); rewrite !omap_cons, Ha, Ha0; simpl; rewrite Ha1; simpl; split; reflexivity.
  - exists []; split; reflexivity.
  - exists a; split; [assumption | reflexivity].
Qed.

Lemma map_children_total f e :
  Forall (fun c => exists c', f c = Some c') (children e) -> exists e', map_children f e = Some e'.
Proof.
  intros HF. destruct e; simpl in *;
    repeat match goal with
           | H : Forall _ (_ :: _) |- _ => inversion H; subst; clear H
           end;
    repeat match goal with
           | H : Forall _ (_ ++ _) |- _ => apply Forall_app in H; destruct H
           end;
    repeat match goal with
           | H : exists _, _ |- _ => destruct H
           end;
    repeat match goal with
           | H : Forall _ ?l |- _ => apply omap_total in H; destruct H
           end;
    repeat match goal with
           | H : _ = Some _ |- _ => rewrite H; clear H
           end; simpl; eexists; reflexivity.
Qed.

(* induction over expressions with the hypothesis stated on [children] *)
Lemma Forall_app_intro {A} (P : A -> Prop) l1 l2 : Forall P l1 -> Forall P l2 -> Forall P (l1 ++ l2).
Proof. intros; apply Forall_app; split; assumption. Qed.

Lemma expr_ind_children (P : expr -> Prop) :
  (forall e, Forall P (children e) -> P e) -> forall e, P e.
Proof.
  intros H. induction e using expr_ind'; apply H; simpl;
    repeat first [apply Forall_nil | apply Forall_cons | apply Forall_app_intro | assumption].
Qed.

Lemma rebuild_children e : rebuild e (children e) = e.
Proof.
  destruct e; simpl; try reflexivity.
  - rewrite firstn_app_len, skipn_app_len by reflexivity; reflexivity.
  - rewrite firstn_app_len, skipn_app_len by reflexivity; reflexivity.
Qed.

Lemma omap_app_some {A B} (f : A -> option B) l1 l2 r :
  omap f (l1 ++ l2) = Some r ->
  exists r1 r2, omap f l1 = Some r1 /\ omap f l2 = Some r2 /\ r = r1 ++ r2.
Proof.
  rewrite omap_app. intros H. apply obind_some in H. destruct H as [r1 [H1 H]].
  apply obind_some in H. destruct H as [r2 [H2 H]]. inversion H; subst. eauto.
Qed.

Lemma omap_cons_some {A B} (f : A -> option B) x l r :
  omap f (x :: l) = Some r -> exists y r', f x = Some y /\ omap f l = Some r' /\ r = y :: r'.
Proof.
  rewrite omap_cons. intros H. apply obind_some in H. destruct H as [y [H1 H]].
  apply obind_some in H. destruct H as [r2 [H2 H]]. inversion H; subst. eauto.
Qed.

Lemma omap_nil_some {A B} (f : A -> option B) r : omap f [] = Some r -> r = [].
Proof. intros H; inversion H; reflexivity. Qed.

Lemma omap_of_Forall2 {A B} (f : A -> option B) l r :
  Forall2 (fun x y => f x = Some y) l r -> omap f l = Some r.
Proof.
  induction 1 as [|x y l r Hxy _ IH]; [reflexivity|].
  rewrite omap_cons, Hxy; simpl. rewrite IH; reflexivity.
Qed.

(* converse of [map_children_rebuild] *)
Lemma map_children_of_omap f e cs' :
  omap f (children e) = Some cs' -> map_children f e = Some (rebuild e cs').
Proof.
  destruct e; simpl; intros H;
    repeat match goal with
           | H : omap _ (_ :: _) = Some _ |- _ =>
               apply omap_cons_some in H; destruct H as (? & ? & ? & H & ?); subst
           | H : omap _ (_ ++ _) = Some _ |- _ =>
               apply omap_app_some in H; destruct H as (? & ? & ? & H & ?); subst
           | H : omap _ [] = Some _ |- _ => apply omap_nil_some in H; subst
           end;
    repeat match goal with
           | H : omap _ _ = Some _ |- _ =>
               let HL := fresh "HL" in pose proof (omap_length _ _ _ H) as HL; rewrite H; clear H
           | H : _ = Some _ |- _ => rewrite H; clear H
           end; simpl; try reflexivity.
  - rewrite firstn_app_len, skipn_app_len by (symmetry; assumption). reflexivity.
  - rewrite firstn_app_len, skipn_app_len by (symmetry; assumption). reflexivity.
Qed.

Lemma Forall_Forall2_impl {A B} (P Q : A -> B -> Prop) l r :
  Forall (fun x => forall y, P x y -> Q x y) l -> Forall2 P l r -> Forall2 Q l r.
Proof.
  intros HF H2; revert HF. induction H2 as [|x y l r Hxy _ IH]; intros HF; constructor;
    inversion HF; subst; auto.
Qed.

Lemma children_rebuild e cs' :
  length cs' = length (children e) -> children (rebuild e cs') = cs'.
Proof.
  destruct e; simpl; intros HL; try reflexivity;
    try (destruct cs' as [|c1 cs']; simpl in HL; try discriminate; try reflexivity;
         try (destruct cs' as [|c2 cs']; simpl in HL; try discriminate; try reflexivity;
              try (destruct cs' as [|c3 cs']; simpl in HL; try discriminate; try reflexivity;
                   try (destruct cs' as [|c4 cs']; simpl in HL; try discriminate; try reflexivity)))).
  all: try (simpl; rewrite firstn_skipn; reflexivity).
  all: try apply firstn_skipn.
Qed.

Lemma Forall2_length' {A B} (R : A -> B -> Prop) l r : Forall2 R l r -> length r = length l.
Proof. induction 1; simpl; congruence. Qed.

(* C20, character level: the text printed for a sequence of lexemes (identifiers / number words,
   repr'd str and bytes literals, punctuation) determines the sequence.

   The argument is "prefix code by one-step decoder": for each encoder a non-recursive decoder of one
   unit is defined and proved to invert the encoder in front of an arbitrary rest; injectivity of the
   concatenations follows by induction on the encoded list (no fuel, no parser). *)
From Coq Require Import Lia.
From FA.Base Require Import Names.
From FA.Model Require Import GTree Hash.
Local Open Scope N_scope.

Ltac nb :=
  repeat (rewrite ?Bool.andb_true_iff, ?Bool.orb_true_iff, ?Bool.andb_false_iff, ?Bool.orb_false_iff,
                  ?Bool.negb_true_iff, ?Bool.negb_false_iff,
                  ?N.eqb_eq, ?N.eqb_neq, ?N.leb_le, ?N.leb_gt, ?N.ltb_lt, ?N.ltb_ge in *).

(* ---------- hexadecimal digits ---------- *)

Definition unhexdigit (d : N) : option N :=
  if (48 <=? d) && (d <=? 57) then Some (d - 48)
  else if (97 <=? d) && (d <=? 102) then Some (d - 87)
  else None.

Lemma unhexdigit_hexdigit v : v < 16 -> unhexdigit (hexdigit v) = Some v.
Proof.
  intros Hv. unfold unhexdigit, hexdigit.
  destruct (v <? 10) eqn:E; nb.
  - replace ((48 <=? 48 + v) && (48 + v <=? 57)) with true by (symmetry; nb; lia).
    f_equal. lia.
  - replace ((48 <=? 87 + v) && (87 + v <=? 57)) with false by (symmetry; nb; lia).
    replace ((97 <=? 87 + v) && (87 + v <=? 102)) with true by (symmetry; nb; lia).
    f_equal. lia.
Qed.

Fixpoint unhex_acc (k : nat) (acc : N) (t : text) : option (N * text) :=
  match k with
  | O => Some (acc, t)
  | S k' =>
      match t with
      | [] => None
      | d :: r =>
          match unhexdigit d with
          | Some v => unhex_acc k' (16 * acc + v) r
          | None => None
          end
      end
  end.

Lemma unhex_hexn k : forall n acc rest,
  n < 16 ^ N.of_nat k ->
  unhex_acc k acc (hexn k n ++ rest) = Some (acc * 16 ^ N.of_nat k + n, rest).
Proof.
  induction k as [|k IH]; intros n acc rest Hn.
  - cbn [unhex_acc hexn app]. change (16 ^ N.of_nat 0) with 1 in *. f_equal. f_equal. lia.
  - cbn [unhex_acc hexn app].
    assert (Hp : 16 ^ N.of_nat (S k) = 16 * 16 ^ N.of_nat k).
    { rewrite Nnat.Nat2N.inj_succ, N.pow_succ_r'. reflexivity. }
    assert (Hpos : 16 ^ N.of_nat k <> 0) by (apply N.pow_nonzero; lia).
    assert (Hq : n / 16 ^ N.of_nat k < 16).
    { apply N.div_lt_upper_bound; [exact Hpos|]. rewrite Hp in Hn. lia. }
    rewrite (unhexdigit_hexdigit _ Hq).
    rewrite IH by (apply N.mod_lt; exact Hpos).
    f_equal. f_equal. rewrite Hp.
    pose proof (N.div_mod n (16 ^ N.of_nat k) Hpos) as Hdm.
    set (p := 16 ^ N.of_nat k) in *. set (qq := n / p) in *. set (m := n mod p) in *.
    rewrite Hdm. lia.
Qed.

Lemma unhex_hexn0 k n rest :
  n < 16 ^ N.of_nat k -> unhex_acc k 0 (hexn k n ++ rest) = Some (n, rest).
Proof. intros H. rewrite unhex_hexn by exact H. reflexivity. Qed.

(* ---------- one repr'd character ---------- *)

Definition is_quote (q : N) : Prop := q = SQ \/ q = DQ.

Definition decode_char (q : N) (t : text) : option (N * text) :=
  match t with
  | [] => None
  | c :: r =>
      if c =? BSL then
        match r with
        | [] => None
        | e :: r' =>
            if (e =? q) || (e =? BSL) then Some (e, r')
            else if e =? 116 then Some (9, r')
            else if e =? 110 then Some (10, r')
            else if e =? 114 then Some (13, r')
            else if e =? 120 then unhex_acc 2 0 r'
            else if e =? 117 then unhex_acc 4 0 r'
            else if e =? 85 then unhex_acc 8 0 r'
            else None
        end
      else if c =? q then None
      else Some (c, r)
  end.

Lemma decode_quote q r : is_quote q -> decode_char q (q :: r) = None.
Proof. intros [-> | ->]; reflexivity. Qed.

Lemma decode_lit q c r : c <> BSL -> c <> q -> decode_char q (c :: r) = Some (c, r).
Proof.
  intros H1 H2. unfold decode_char.
  apply N.eqb_neq in H1. apply N.eqb_neq in H2. rewrite H1, H2. reflexivity.
Qed.

Lemma decode_hex2 q c r : is_quote q -> c < 256 ->
  decode_char q (BSL :: 120 :: hexn 2 c ++ r) = Some (c, r).
Proof.
  intros Hq Hc.
  assert (E : decode_char q (BSL :: 120 :: hexn 2 c ++ r) = unhex_acc 2 0 (hexn 2 c ++ r)).
  { destruct Hq as [-> | ->]; reflexivity. }
  rewrite E. apply unhex_hexn0. change (16 ^ N.of_nat 2) with 256. exact Hc.
Qed.

Lemma decode_hex4 q c r : is_quote q -> c < 65536 ->
  decode_char q (BSL :: 117 :: hexn 4 c ++ r) = Some (c, r).
Proof.
  intros Hq Hc.
  assert (E : decode_char q (BSL :: 117 :: hexn 4 c ++ r) = unhex_acc 4 0 (hexn 4 c ++ r)).
  { destruct Hq as [-> | ->]; reflexivity. }
  rewrite E. apply unhex_hexn0. change (16 ^ N.of_nat 4) with 65536. exact Hc.
Qed.

Lemma decode_hex8 q c r : is_quote q -> c < 4294967296 ->
  decode_char q (BSL :: 85 :: hexn 8 c ++ r) = Some (c, r).
Proof.
  intros Hq Hc.
  assert (E : decode_char q (BSL :: 85 :: hexn 8 c ++ r) = unhex_acc 8 0 (hexn 8 c ++ r)).
  { destruct Hq as [-> | ->]; reflexivity. }
  rewrite E. apply unhex_hexn0. change (16 ^ N.of_nat 8) with 4294967296. exact Hc.
Qed.

(* the escapes shared by str and bytes *)
Lemma decode_esc q c t r : is_quote q -> esc_common q c = Some t -> decode_char q (t ++ r) = Some (c, r).
Proof.
  intros Hq. unfold esc_common.
  destruct ((c =? q) || (c =? BSL)) eqn:E1.
  - intros H; inversion H; subst t; clear H. cbn [app]. unfold decode_char.
    rewrite N.eqb_refl, E1. reflexivity.
  - destruct (c =? 9) eqn:E2.
    { intros H; inversion H; subst t. apply N.eqb_eq in E2; subst c.
      destruct Hq as [-> | ->]; reflexivity. }
    destruct (c =? 10) eqn:E3.
    { intros H; inversion H; subst t. apply N.eqb_eq in E3; subst c.
      destruct Hq as [-> | ->]; reflexivity. }
    destruct (c =? 13) eqn:E4.
    { intros H; inversion H; subst t. apply N.eqb_eq in E4; subst c.
      destruct Hq as [-> | ->]; reflexivity. }
    discriminate.
Qed.

Lemma esc_none q c : esc_common q c = None -> c <> q /\ c <> BSL.
Proof.
  unfold esc_common. destruct ((c =? q) || (c =? BSL)) eqn:E1; [discriminate|].
  intros _. nb. exact E1.
Qed.

Section Lex.
  Variable printable : N -> bool.

  Lemma decode_repr_char q c r : is_quote q -> c < 1114112 ->
    decode_char q (repr_char printable q c ++ r) = Some (c, r).
  Proof.
    intros Hq Hc. unfold repr_char.
    destruct (esc_common q c) as [t|] eqn:E.
    - eapply decode_esc; eassumption.
    - destruct (esc_none _ _ E) as [Hnq Hnb].
      destruct ((c <? 32) || (c =? 127)) eqn:E1.
      { cbn [app]. apply decode_hex2; [exact Hq|]. nb. lia. }
      destruct (c <? 127) eqn:E2.
      { cbn [app]. apply decode_lit; assumption. }
      destruct (printable c).
      { cbn [app]. apply decode_lit; assumption. }
      destruct (c <? 256) eqn:E3.
      { cbn [app]. apply decode_hex2; [exact Hq|]. nb. lia. }
      destruct (c <? 65536) eqn:E4.
      { cbn [app]. apply decode_hex4; [exact Hq|]. nb. lia. }
      cbn [app]. apply decode_hex8; [exact Hq|]. lia.
  Qed.

  Lemma decode_repr_byte q c r : is_quote q -> c < 256 ->
    decode_char q (repr_byte q c ++ r) = Some (c, r).
  Proof.
    intros Hq Hc. unfold repr_byte.
    destruct (esc_common q c) as [t|] eqn:E.
    - eapply decode_esc; eassumption.
    - destruct (esc_none _ _ E) as [Hnq Hnb].
      destruct ((c <? 32) || (127 <=? c)) eqn:E1.
      { cbn [app]. apply decode_hex2; assumption. }
      cbn [app]. apply decode_lit; assumption.
  Qed.

  (* a body of encoded units, closed by the quote, determines the units and the rest *)
  Lemma body_inj (enc : N -> text) (ok : N -> Prop) q :
    is_quote q ->
    (forall c r, ok c -> decode_char q (enc c ++ r) = Some (c, r)) ->
    forall s1 s2 r1 r2, Forall ok s1 -> Forall ok s2 ->
      flat_map enc s1 ++ q :: r1 = flat_map enc s2 ++ q :: r2 -> s1 = s2 /\ r1 = r2.
  Proof.
    intros Hq Hdec. induction s1 as [|c1 s1 IH]; intros [|c2 s2] r1 r2 H1 H2 H; cbn [flat_map app] in H.
    - inversion H. split; reflexivity.
    - apply (f_equal (decode_char q)) in H. rewrite <- app_assoc in H.
      rewrite decode_quote in H by exact Hq. rewrite Hdec in H by (inversion H2; assumption). discriminate.
    - apply (f_equal (decode_char q)) in H. rewrite <- app_assoc in H.
      rewrite decode_quote in H by exact Hq. rewrite Hdec in H by (inversion H1; assumption). discriminate.
    - inversion H1 as [|? ? Hc1 Hs1]; inversion H2 as [|? ? Hc2 Hs2]; subst.
      apply (f_equal (decode_char q)) in H. rewrite <- !app_assoc in H.
      rewrite !Hdec in H by assumption. inversion H as [[Hc Hr]]. subst c2.
      destruct (IH s2 r1 r2 Hs1 Hs2 Hr) as [-> ->]. split; reflexivity.
  Qed.

  (* ---------- lexemes ---------- *)

  Inductive lexeme :=
   | LWord (w : text) | LStr (s : text) | LBytes (s : text)
   | LLPar | LRPar | LLBr | LRBr | LEq | LComma.

  (* letters, digits, underscore, and the characters of number reprs:  .  +  - *)
  Definition is_wchar (c : N) : bool := is_alpha_ c || is_digit c || (c =? 46) || (c =? 43) || (c =? 45).

  Definition render_lex (x : lexeme) : text :=
    match x with
    | LWord w => w
    | LStr s => py_repr_str printable s
    | LBytes s => py_repr_bytes s
    | LLPar => [LP] | LRPar => [RP] | LLBr => [LB] | LRBr => [RB] | LEq => [EQ]
    | LComma => [44; 32]
    end.

  Definition render_all (l : list lexeme) : text := flat_map render_lex l.

  Definition wf_lex (x : lexeme) : Prop :=
    match x with
    | LWord w => w <> [] /\ forallb is_wchar w = true
    | LStr s => Forall (fun c => c < 1114112) s
    | LBytes s => Forall (fun c => c < 256) s
    | _ => True
    end.

  (* a rest that cannot be confused with the continuation of a word *)
  Definition nwstart (r : text) : Prop :=
    match r with
    | [] => True
    | c :: _ => is_wchar c = false /\ c <> SQ /\ c <> DQ
    end.

  Definition follow_ok (x : lexeme) (r : text) : Prop :=
    match x with LWord _ => nwstart r | _ => True end.

  Lemma pick_quote_is s : is_quote (pick_quote s).
  Proof. unfold pick_quote, is_quote. destruct (mem_cp SQ s && negb (mem_cp DQ s)); auto. Qed.

  Lemma word_inj : forall w1 w2 r1 r2,
    forallb is_wchar w1 = true -> forallb is_wchar w2 = true -> nwstart r1 -> nwstart r2 ->
    w1 ++ r1 = w2 ++ r2 -> w1 = w2 /\ r1 = r2.
  Proof.
    induction w1 as [|c1 w1 IH]; intros [|c2 w2] r1 r2 H1 H2 N1 N2 H; cbn [app] in H.
    - auto.
    - subst r1. cbn [forallb] in H2. apply Bool.andb_true_iff in H2. destruct H2 as [Hc _].
      cbn [nwstart] in N1. destruct N1 as [Hf _]. congruence.
    - subst r2. cbn [forallb] in H1. apply Bool.andb_true_iff in H1. destruct H1 as [Hc _].
      cbn [nwstart] in N2. destruct N2 as [Hf _]. congruence.
    - inversion H; subst. cbn [forallb] in H1, H2.
      apply Bool.andb_true_iff in H1. apply Bool.andb_true_iff in H2.
      destruct (IH w2 r1 r2 (proj2 H1) (proj2 H2) N1 N2 H4) as [-> ->]. auto.
  Qed.

  (* kind of the lexeme a text starts with, read off its first one or two characters *)
  Definition lkind (x : lexeme) : N :=
    match x with
    | LWord _ => 1 | LStr _ => 2 | LBytes _ => 3 | LLPar => 4 | LRPar => 5 | LLBr => 6 | LRBr => 7 | LEq => 8 | LComma => 9
    end.

  Definition tkind (t : text) : N :=
    match t with
    | [] => 0
    | c :: r =>
        if c =? 40 then 4 else if c =? 41 then 5 else if c =? 91 then 6 else if c =? 93 then 7
        else if c =? 61 then 8 else if c =? 44 then 9
        else if (c =? 39) || (c =? 34) then 2
        else if (c =? 98) && (match r with d :: _ => (d =? 39) || (d =? 34) | [] => false end) then 3
        else if is_wchar c then 1 else 0
    end.

  Lemma wchar_not c : is_wchar c = true ->
    c <> 40 /\ c <> 41 /\ c <> 91 /\ c <> 93 /\ c <> 61 /\ c <> 44 /\ c <> 39 /\ c <> 34.
  Proof.
    intros H. repeat split; intros ->; vm_compute in H; discriminate.
  Qed.

  Lemma tkind_render x r : wf_lex x -> follow_ok x r -> tkind (render_lex x ++ r) = lkind x.
  Proof.
    destruct x; cbn [wf_lex follow_ok render_lex lkind]; intros Hw Hf; try reflexivity.
    - destruct Hw as [Hne Hall]. destruct w as [|c w]; [congruence|]. cbn [app forallb] in *.
      apply Bool.andb_true_iff in Hall. destruct Hall as [Hc Hall].
      destruct (wchar_not c Hc) as (A1 & A2 & A3 & A4 & A5 & A6 & A7 & A8).
      unfold tkind.
      apply N.eqb_neq in A1, A2, A3, A4, A5, A6, A7, A8.
      rewrite A1, A2, A3, A4, A5, A6, A7, A8. cbn [orb].
      replace ((c =? 98) && match w ++ r with d :: _ => (d =? 39) || (d =? 34) | [] => false end) with false.
      { rewrite Hc. reflexivity. }
      symmetry. apply Bool.andb_false_iff. right.
      destruct w as [|d w]; cbn [app].
      + destruct r as [|d r]; [reflexivity|]. cbn [nwstart] in Hf. destruct Hf as (_ & B1 & B2).
        unfold SQ, DQ in *. apply N.eqb_neq in B1, B2. rewrite B1, B2. reflexivity.
      + cbn [forallb] in Hall. apply Bool.andb_true_iff in Hall. destruct Hall as [Hd _].
        destruct (wchar_not d Hd) as (_ & _ & _ & _ & _ & _ & B1 & B2).
        apply N.eqb_neq in B1, B2. rewrite B1, B2. reflexivity.
    - unfold py_repr_str. destruct (pick_quote_is s) as [-> | ->]; reflexivity.
    - unfold py_repr_bytes. destruct (pick_quote_is s) as [-> | ->]; reflexivity.
  Qed.

  Lemma render_lex_inj x1 x2 r1 r2 :
    wf_lex x1 -> wf_lex x2 -> follow_ok x1 r1 -> follow_ok x2 r2 ->
    render_lex x1 ++ r1 = render_lex x2 ++ r2 -> x1 = x2 /\ r1 = r2.
  Proof.
    intros W1 W2 F1 F2 H.
    assert (K : lkind x1 = lkind x2).
    { rewrite <- (tkind_render x1 r1 W1 F1), <- (tkind_render x2 r2 W2 F2), H. reflexivity. }
    destruct x1, x2; cbn [lkind] in K; try discriminate K; cbn [render_lex] in H.
    - destruct W1 as [_ W1]. destruct W2 as [_ W2].
      destruct (word_inj _ _ _ _ W1 W2 F1 F2 H) as [-> ->]. auto.
    - unfold py_repr_str in H. cbn [app] in H. rewrite <- !app_assoc in H. cbn [app] in H.
      pose proof (pick_quote_is s) as Q1.
      set (q1 := pick_quote s) in *. set (q2 := pick_quote s0) in *.
      injection H as Hq Hb. subst q2. rewrite <- Hq in Hb.
      unfold repr_body in Hb.
      destruct (body_inj (repr_char printable q1) (fun c => c < 1114112) q1 Q1
                  (fun c r Hc => decode_repr_char _ c r Q1 Hc)
                  s s0 r1 r2 W1 W2 Hb) as [-> ->]. auto.
    - unfold py_repr_bytes in H. cbn [app] in H. rewrite <- !app_assoc in H. cbn [app] in H.
      pose proof (pick_quote_is s) as Q1.
      set (q1 := pick_quote s) in *. set (q2 := pick_quote s0) in *.
      injection H as Hq Hb. subst q2. rewrite <- Hq in Hb.
      destruct (body_inj (repr_byte q1) (fun c => c < 256) q1 Q1
                  (fun c r Hc => decode_repr_byte _ c r Q1 Hc)
                  s s0 r1 r2 W1 W2 Hb) as [-> ->]. auto.
    - inversion H; auto.
    - inversion H; auto.
    - inversion H; auto.
    - inversion H; auto.
    - inversion H; auto.
    - inversion H; auto.
  Qed.

  (* ---------- sequences of lexemes ---------- *)

  Definition is_punct (x : lexeme) : bool :=
    match x with LWord _ | LStr _ | LBytes _ => false | _ => true end.

  (* a word is followed by punctuation or by nothing *)
  Definition adj_ok (x : lexeme) (r : list lexeme) : Prop :=
    match x with
    | LWord _ => match r with [] => True | y :: _ => is_punct y = true end
    | _ => True
    end.

  Fixpoint chain_ok (l : list lexeme) : Prop :=
    match l with
    | [] => True
    | x :: r => wf_lex x /\ adj_ok x r /\ chain_ok r
    end.

  Lemma render_nonempty x : wf_lex x -> render_lex x <> [].
  Proof.
    destruct x; cbn [wf_lex render_lex]; try discriminate.
    intros [H _]; exact H.
  Qed.

  Lemma punct_nwstart y r : is_punct y = true -> nwstart (render_lex y ++ r).
  Proof.
    destruct y; cbn [is_punct]; try discriminate; intros _; cbn [render_lex app nwstart];
      (split; [reflexivity | split; discriminate]).
  Qed.

  Lemma adj_follow x r : adj_ok x r -> follow_ok x (render_all r).
  Proof.
    destruct x; cbn [adj_ok follow_ok]; auto.
    destruct r as [|y r]; [intros _; exact I|]. intros Hp. cbn [render_all flat_map].
    apply punct_nwstart. exact Hp.
  Qed.

  Theorem render_all_inj : forall xs ys,
    chain_ok xs -> chain_ok ys -> render_all xs = render_all ys -> xs = ys.
  Proof.
    induction xs as [|x xs IH]; intros [|y ys] Cx Cy H.
    - reflexivity.
    - destruct Cy as (Wy & _ & _). cbn [render_all flat_map] in H. symmetry in H.
      apply app_eq_nil in H. destruct H as [H _]. exfalso. exact (render_nonempty y Wy H).
    - destruct Cx as (Wx & _ & _). cbn [render_all flat_map] in H.
      apply app_eq_nil in H. destruct H as [H _]. exfalso. exact (render_nonempty x Wx H).
    - destruct Cx as (Wx & Ax & Cx). destruct Cy as (Wy & Ay & Cy).
      cbn [render_all flat_map] in H.
      destruct (render_lex_inj x y _ _ Wx Wy (adj_follow _ _ Ax) (adj_follow _ _ Ay) H) as [-> Hr].
      f_equal. apply IH; assumption.
  Qed.

  Definition pstart (l : list lexeme) : Prop :=
    match l with [] => True | y :: _ => is_punct y = true end.

  Lemma chain_app a b : chain_ok a -> chain_ok b -> pstart b -> chain_ok (a ++ b).
  Proof.
    induction a as [|x a IH]; intros Ca Cb Pb; cbn [app]; [exact Cb|].
    destruct Ca as (Wx & Ax & Ca). cbn [chain_ok]. split; [exact Wx|]. split; [|apply IH; assumption].
    destruct x; cbn [adj_ok] in *; auto.
    destruct a as [|y a]; cbn [app]; [|exact Ax].
    destruct b as [|y b]; [exact I|exact Pb].
  Qed.
End Lex.

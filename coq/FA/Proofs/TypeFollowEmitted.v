(* C09, whole queries: the tree [follow] emits contains, for every call site of [call_sites] (every resolved method
   call, registered-function call and parameterized-property call, at any lambda depth), the call the LAST callback
   of that site returned ([snd] of the site record; the call as normalised when the site has no callback). *)
From FA.Base Require Import PyAst Value Induct Traverse.
From FA.Gen Require Import TablesUtil TablesTypes.
From FA.Model Require Import TypeDefs TypeFollow.
From FA.Proofs Require Import TraverseFacts EvalCong TypeFollowFacts TypeFollowFill TypeFollowNormalised TypeFollowResolve
     TypeFollowUntyped TypeFollowCallbacks TypeFollowSites.
From Coq Require Import Lia.

(* a literal is not a call and its children are literals *)
Lemma literal_list_children es :
  literal_eval (List es) <> None -> forall ch, In ch es -> literal_eval ch <> None.
Proof.
  induction es as [|x xs IH]; intros Hl ch Hin; [contradiction|].
  cbn [literal_eval] in Hl. cbn in Hl.
  destruct (literal_eval x) eqn:Ex; [|exfalso; apply Hl; reflexivity].
  destruct Hin as [<-|Hin]; [congruence|].
  apply IH; [|exact Hin]. cbn [literal_eval]. intros Hn. apply Hl. cbn in *.
  match type of Hn with obind ?a _ = None => destruct a; [discriminate|reflexivity] end.
Qed.

Lemma literal_children e :
  literal_eval e <> None -> is_call e = false /\ forall ch, In ch (children e) -> literal_eval ch <> None.
Proof.
  intros Hl. destruct e; try (exfalso; apply Hl; reflexivity); (split; [reflexivity|]); cbn [children].
  - intros ch [].
  - (* UnaryOp *)
    intros ch [<-|[]]. destruct o; try (exfalso; apply Hl; reflexivity);
      destruct e; try (exfalso; apply Hl; reflexivity); cbn;
      match goal with |- context [match ?k with _ => _ end] => destruct k end; discriminate.
  - (* BinOp *)
    assert (Hnum : forall x, signed_num x = true -> literal_eval x <> None).
    { intros x Hx. destruct x; try discriminate.
      - cbn. destruct c; discriminate.
      - destruct o0; try discriminate; destruct x; try discriminate; cbn in *; rewrite Hx; discriminate. }
    destruct o; try (exfalso; apply Hl; reflexivity); destruct e2; try (exfalso; apply Hl; reflexivity);
      destruct c; try (exfalso; apply Hl; reflexivity); cbn [literal_eval] in Hl;
      (destruct (signed_num e1) eqn:Es; [|exfalso; apply Hl; reflexivity]);
      intros ch [<-|[<-|[]]]; try (apply Hnum; exact Es); cbn; discriminate.
  - (* Tuple *)
    apply literal_list_children. cbn [literal_eval] in *.
    match type of Hl with obind ?a _ <> None => destruct a; [discriminate | exfalso; apply Hl; reflexivity] end.
  - (* List *) apply literal_list_children. exact Hl.
  - (* Dict *)
    intros ch Hin. apply in_app_or in Hin. cbn [literal_eval] in Hl.
    destruct Hin as [Hin|Hin]; [apply (literal_list_children ks) | apply (literal_list_children vs)]; auto;
      cbn [literal_eval];
      repeat match type of Hl with context [obind ?a _] =>
               match a with obind _ _ => fail 1 | _ => destruct a eqn:?; cbn [obind] in Hl end end;
      try discriminate; try (exfalso; apply Hl; reflexivity).
Qed.

(* strictly inside: in one of the children *)
Definition swithin (P : expr -> Prop) (s : expr) : Prop := exists c, In c (children s) /\ within P c.

Lemma swithin_within P s : swithin P s -> within P s.
Proof. intros (c & Hin & Hw). eapply within_child; eauto. Qed.

Section CallOnly.
  Variable P : expr -> Prop.
  Hypothesis Pcall : forall x, P x -> is_call x = true.

  Lemma within_attr v a n : within P (Attr v a) -> within P (Attr v n).
  Proof.
    intros H. inversion H as [e Hp|e c Hin Hw]; subst.
    - apply Pcall in Hp. discriminate.
    - cbn in Hin. destruct Hin as [->|[]]. eapply within_child; [|exact Hw]. cbn. auto.
  Qed.

  (* a callback's rewrite keeps everything that was strictly inside the site *)
  Lemma rw_swithin rw s : swithin P s -> swithin P (apply_rw rw s).
  Proof.
    intros Hs. destruct rw as [|n|f]; cbn.
    - exact Hs.
    - destruct s as [| | |f0 args kwn kwv| | | | | | | | | | | | | | |]; try exact Hs.
      destruct f0; try exact Hs.
      + (* Name *) destruct Hs as (c & Hin & Hw). cbn in Hin. destruct Hin as [<-|Hin].
        * inversion Hw as [e Hp|e c0 Hin0 _]; subst; [apply Pcall in Hp; discriminate | contradiction].
        * exists c. split; [cbn; right; exact Hin | exact Hw].
      + (* Attr *) destruct Hs as (c & Hin & Hw). cbn in Hin. destruct Hin as [<-|Hin].
        * exists (Attr f0 n). split; [cbn; left; reflexivity | eapply within_attr; eauto].
        * exists c. split; [cbn; right; exact Hin | exact Hw].
    - exists s. split; [cbn; auto | apply swithin_within; exact Hs].
  Qed.

  Lemma rewritten_swithin s out : rewritten s out -> swithin P s -> swithin P out.
  Proof. induction 1; intros Hs; [exact Hs | apply rw_swithin; auto]. Qed.

  (* literals contain no call *)
  Lemma literal_no_call s : literal_eval s <> None -> within P s -> False.
  Proof.
    intros Hl Hw. induction Hw as [e Hp|e c Hin _ IH].
    - apply Pcall in Hp. destruct (literal_children e Hl) as [Hc _]. congruence.
    - apply IH. apply (proj2 (literal_children e Hl)). exact Hin.
  Qed.
End CallOnly.

(* the walk only moves arguments around: every given value is still there *)
Lemma find_keyword_conserve {A} (kws : list (option string * A)) n a r y :
  find_keyword kws n = Some (a, r) -> In y (map snd kws) -> y = a \/ In y (map snd r).
Proof.
  revert a r. induction kws as [|[k v] t IH]; cbn; intros a r H Hin; [discriminate|].
  destruct (ostr_eqb k (Some n)).
  - inversion H; subst. destruct Hin; auto.
  - destruct (find_keyword t n) as [[a' r']|]; [|discriminate]. inversion H; subst. cbn.
    destruct Hin as [<-|Hin]; [right; left; reflexivity|].
    destruct (IH _ _ eq_refl Hin); auto.
Qed.

Lemma fill_go_conserve {A} (mk : const -> A) ps : forall i args kws a2 k2 y,
  fill_go mk ps i args kws = inl (a2, k2) -> In y args \/ In y (map snd kws) -> In y a2 \/ In y (map snd k2).
Proof.
  induction ps as [|p r IH]; intros i args kws a2 k2 y H Hin; cbn [fill_go] in H.
  - inversion H; subst. exact Hin.
  - destruct (skipped (p_name p)); [eapply IH; eauto|].
    destruct (Nat.leb (length args) i); [|eapply IH; eauto].
    destruct (find_keyword kws (p_name p)) as [[a kws']|] eqn:Ef.
    + eapply IH; [exact H|]. destruct Hin as [Hin|Hin].
      * left. apply in_or_app. left; exact Hin.
      * destruct (find_keyword_conserve _ _ _ _ _ Ef Hin) as [->|Hr]; [left; apply in_or_app; right; left; reflexivity | right; exact Hr].
    + destruct (p_default p); [|discriminate]. eapply IH; [exact H|]. destruct Hin; [left; apply in_or_app; left; assumption | right; assumption].
Qed.

Section Emitted.
  Variable W : world.

  Definition okrec (e' : expr) (r : site_rec) : Prop := is_call (snd r) = true /\ within (eq (snd r)) e'.
  (* a record of one of the children of a list of outputs, none of which is a lambda *)
  Definition okrec_in (es' : list expr) (r : site_rec) : Prop :=
    is_call (snd r) = true /\ exists x', In x' es' /\ is_lambda x' = false /\ within (eq (snd r)) x'.

  Lemma okrec_child e' c' r : In c' (children e') -> okrec c' r -> okrec e' r.
  Proof. intros Hin [H1 H2]. split; [exact H1 | eapply within_child; eauto]. Qed.

  Lemma okrec_in_children e' es' r : incl es' (children e') -> okrec_in es' r -> okrec e' r.
  Proof. intros Hincl (H1 & x' & Hin & _ & Hw). split; [exact H1 | eapply within_child; eauto]. Qed.

  Definition R (e : expr) : Prop :=
    forall n G e' t aux ev, size e <= n -> follow_x W G e = Ok (e', t, aux, ev) -> Forall (okrec e') (sites_n W n G e).

  Definition sub (e : expr) : Prop :=
    match e with
    | Lambda _ b => R b
    | Attr v _ => R v
    | Subscript v s => R s /\ match v with Attr u _ => R u | _ => True end
    | _ => True
    end.
  Definition PP (e : expr) : Prop := R e /\ sub e.

  Ltac crush1 H :=
    let y := fresh "y" in let Hy := fresh "Hy" in
    apply bind_ok in H; destruct H as (y & Hy & H);
    try (first [destruct y as [[[? ?] ?] ?] | destruct y as [[? ?] ?]]); cbv beta iota in H.
  Ltac crush H := repeat crush1 H.

  (* a lambda comes out only where a lambda went in *)
  Lemma fx_is_lambda G e e' t aux ev :
    follow_x W G e = Ok (e', t, aux, ev) -> is_lambda e' = true -> is_lambda e = true.
  Proof.
    intros H Hl. destruct e; try reflexivity; exfalso.
    - rewrite fx_Name in H. inversion H; subst; discriminate.
    - rewrite fx_Const in H. inversion H; subst; discriminate.
    - rewrite fx_Attr in H. crush H. inversion H; subst; discriminate.
    - pose proof (callee_cases e) as Hcases.
      assert (Hcall : is_call e' = true -> False) by (intros Hc; destruct e'; discriminate).
      apply Hcall.
      destruct Hcases as [(v & a & ->)|[(v & a & s & ->)|[(ps0 & b0 & ->)|Hplain]]].
      + rewrite fx_Call_method in H. crush H. inversion H; subst.
        match goal with Hp : process_method_call _ _ _ _ _ _ _ = _ |- _ => eapply pmc_is_call; exact Hp end.
      + rewrite fx_Call_param in H. crush H.
        destruct (is_any _ && param_call_guarded); [inversion H; reflexivity|].
        crush H. inversion H; subst.
        match goal with Hp : process_parameterized _ _ _ _ _ _ _ _ = _ |- _ => unfold process_parameterized in Hp;
          destruct (get_method_and_class _ _ _) as [[? [?|[?|]]]|]; try discriminate;
          destruct (literal_eval _); try discriminate; inversion Hp as [[Hn Ht He]] end.
        destruct (cb_rw _); reflexivity.
      + rewrite fx_Call_lambda in H. crush H. destruct (called_ok ps0 args kwn kwv); [crush H|]; inversion H; reflexivity.
      + rewrite fx_Call_plain in H by exact Hplain. crush H.
        match type of H with context [match ?f with _ => _ end] => destruct f end; try (inversion H; reflexivity).
        destruct (find_func (w_ft W) id) as [fn|]; [|inversion H; reflexivity].
        crush H. inversion H; subst.
        match goal with Hp : process_function_call _ _ _ _ _ = _ |- _ => unfold process_function_call in Hp;
          destruct (fill Const _ _ _) as [[? ?]|]; try discriminate;
          destruct (f_proc fn) as [id'|]; cbn in Hp; inversion Hp as [[Hn Ht He]] end.
        * destruct (cb_rw _); reflexivity.
        * reflexivity.
    - rewrite fx_UnaryOp in H. crush H. destruct (unary_uses_lookup || _); inversion H; subst; discriminate.
    - rewrite fx_BinOp in H. crush H. inversion H; subst; discriminate.
    - rewrite fx_BoolOp in H. crush H. inversion H; subst; discriminate.
    - rewrite fx_Compare in H. crush H. inversion H; subst; discriminate.
    - rewrite fx_IfExp in H. crush H. inversion H; subst; discriminate.
    - rewrite fx_Tuple in H. crush H. inversion H; subst; discriminate.
    - rewrite fx_List in H. crush H. inversion H; subst; discriminate.
    - rewrite fx_Dict in H. crush H. inversion H; subst; discriminate.
    - rewrite fx_Subscript in H. crush H. inversion H; subst; discriminate.
    - rewrite fx_ListComp in H. crush H. inversion H; subst; discriminate.
    - rewrite fx_GenExp in H. crush H. inversion H; subst; discriminate.
    - rewrite fx_CompFor in H. crush H. inversion H; subst; discriminate.
    - rewrite fx_Raw in H. inversion H; subst; discriminate.
    - rewrite fx_Other in H. crush H. inversion H; subst; discriminate.
  Qed.

  Lemma sites_lambda n G e : is_lambda e = true -> sites_n W n G e = [].
  Proof. destruct e; try discriminate. destruct n; reflexivity. Qed.

  Lemma fl_recs n G es : Forall R es -> (forall x, In x es -> size x <= n) -> forall es' ts ev,
    follow_list_with (follow_x W G) es = Ok (es', ts, ev) ->
    Forall (okrec_in es') (flat_map (sites_n W n G) es).
  Proof.
    induction 1 as [|x xs Hx _ IH]; intros Hs es' ts ev H.
    - cbn in H. inversion H; subst. constructor.
    - rewrite fl_cons in H. apply bind_ok in H. destruct H as ([[[x' t] aux] ev1] & H1 & H).
      apply bind_ok in H. destruct H as ([[xs' ts'] evs] & H2 & H). inversion H; subst.
      cbn [flat_map]. apply Forall_app. split.
      + destruct (is_lambda x') eqn:El.
        * rewrite sites_lambda; [constructor|]. eapply fx_is_lambda; eauto.
        * eapply Forall_impl; [|eapply Hx; [|exact H1]; apply Hs; left; reflexivity].
          intros r [Hc Hw]. split; [exact Hc|]. exists x'. repeat split; auto. left; reflexivity.
      + eapply Forall_impl; [|eapply IH; eauto; intros y Hy; apply Hs; right; exact Hy].
        intros r (Hc & y & Hy & Hl & Hw). split; [exact Hc|]. exists y. repeat split; auto. right; exact Hy.
  Qed.
End Emitted.

Section Emitted2.
  Variable W : world.

  Definition nlam_rec (n : nat) (G : tenv) (x : aarg) : Prop :=
    match snd x with
    | NLam p k => exists b, fst x = Lambda [p] b /\
                            forall item b' t ev, k item = Ok (b', t, ev) ->
                              out_of W ((p, item) :: G) b = b' /\ Forall (okrec b') (sites_n W n ((p, item) :: G) b)
    | _ => True
    end.

  (* everything strictly inside the site before the callbacks is inside what they return *)
  Lemma through_callbacks node out (r : site_rec) :
    is_call (snd r) = true -> rewritten node out -> swithin (eq (snd r)) node -> okrec out r.
  Proof.
    intros Hc Hrw Hs. split; [exact Hc|]. apply swithin_within.
    eapply rewritten_swithin; [|exact Hrw|exact Hs]. intros x <-. exact Hc.
  Qed.

  Lemma combine_snd_length {A} (kwn : list (option string)) (l : list A) :
    length kwn = length l -> map snd (combine kwn l) = l.
  Proof. revert l. induction kwn as [|k ks IH]; intros [|x xs] H; cbn in *; try discriminate; [reflexivity|]. f_equal. apply IH. lia. Qed.

  Lemma pmc_emitted n G v v' tv a args kwn kwv args' kwv' aargs akwv out t ev Rv Ra Rk :
    out_of W G v = v' -> type_of W G v = tv ->
    map (out_of W G) args = args' -> map (out_of W G) kwv = kwv' ->
    map aexpr aargs = args' -> map aexpr akwv = kwv' -> length kwn = length akwv ->
    Forall (nlam_rec n G) aargs -> Forall (nlam_rec n G) akwv ->
    Forall (okrec v') Rv -> Forall (okrec_in args') Ra -> Forall (okrec_in kwv') Rk ->
    process_method_call W v' tv a aargs kwn akwv = Ok (out, t, ev) ->
    Forall (okrec out) (Rv ++ Ra ++ Rk ++ own_sites W (sites_n W n) G (Call (Attr v a) args kwn kwv)).
  Proof.
    intros Ev Et Ea Ek Eaa Eak Hlen Hna Hnk HRv HRa HRk H. unfold process_method_call in H.
    rewrite method_loop_resolve in H.
    cbn [own_sites]. rewrite Ev, Et, Ea, Ek.
    pose proof (resolve_map aexpr mk_const_arg Const is_lam_arg is_lambda (w_ct W) (fun c => eq_refl) (fun x => eq_refl)
                            (candidates W tv) a aargs (zip_kw kwn akwv) PNone) as Hmap.
    assert (Hkws : map (hk aexpr) (zip_kw kwn akwv) = combine kwn kwv').
    { rewrite zip_kw_combine. unfold hk. rewrite combine_map_snd. rewrite Eak. reflexivity. }
    rewrite Eaa, Hkws in Hmap. cbn [plan_map] in Hmap. rewrite Hmap. clear Hmap.
    assert (Hnkws : Forall (fun kv => nlam_rec n G (snd kv)) (zip_kw kwn akwv)).
    { clear -Hnk. revert kwn. induction Hnk as [|x xs Hx _ IH]; intros [|k ks]; cbn; constructor; auto. }
    (* every record of the children is strictly inside a call of Attr v' a whose arguments contain all the
       non-lambda values that were given *)
    assert (Hinside : forall A KN KV,
              (forall x', is_lambda x' = false -> In x' args' \/ In x' kwv' -> In x' (A ++ KV)) ->
              forall r, In r (Rv ++ Ra ++ Rk) ->
                is_call (snd r) = true /\ swithin (eq (snd r)) (Call (Attr v' a) A KN KV)).
    { intros A KN KV Hall r Hr. apply in_app_or in Hr. destruct Hr as [Hr|Hr].
      - rewrite Forall_forall in HRv. destruct (HRv r Hr) as [Hc Hw]. split; [exact Hc|].
        exists (Attr v' a). split; [cbn; auto|]. eapply within_child; [|exact Hw]. cbn; auto.
      - assert (Hx : okrec_in args' r \/ okrec_in kwv' r).
        { apply in_app_or in Hr. rewrite Forall_forall in HRa, HRk. destruct Hr; [left | right]; auto. }
        assert (Hx' : is_call (snd r) = true /\ exists x', (In x' args' \/ In x' kwv') /\ is_lambda x' = false /\ within (eq (snd r)) x').
        { destruct Hx as [(Hc & x' & Hi & Hl & Hw)|(Hc & x' & Hi & Hl & Hw)]; (split; [exact Hc|]); exists x'; auto. }
        destruct Hx' as (Hc & x' & Hi & Hl & Hw). split; [exact Hc|].
        exists x'. split; [cbn; right; apply Hall; auto | exact Hw]. }
    assert (Hconserve : forall m a2 k2, fill mk_const_arg (m_params m) aargs (zip_kw kwn akwv) = inl (a2, k2) ->
              forall x', In x' args' \/ In x' kwv' ->
                In x' (map aexpr a2 ++ map (fun kv => aexpr (snd kv)) k2)).
    { intros m a2 k2 Hf x' Hx'.
      assert (Hy : exists y, aexpr y = x' /\ (In y aargs \/ In y (map snd (zip_kw kwn akwv)))).
      { rewrite zip_kw_combine, combine_snd_length by exact Hlen.
        destruct Hx' as [Hx'|Hx']; [rewrite <- Eaa in Hx' | rewrite <- Eak in Hx']; apply in_map_iff in Hx';
          destruct Hx' as (y & Hy1 & Hy2); exists y; auto. }
      destruct Hy as (y & <- & Hy).
      destruct (fill_go_conserve _ _ _ _ _ _ _ y Hf Hy) as [Hin|Hin]; apply in_or_app; [left | right].
      - apply in_map. exact Hin.
      - apply in_map_iff in Hin. destruct Hin as (kv & <- & Hkv). apply in_map_iff. exists kv. auto. }
    destruct (resolve mk_const_arg is_lam_arg (w_ct W) (candidates W tv) a aargs (zip_kw kwn akwv) PNone) as [pl|?|?] eqn:Er;
      cbn [bind] in H; try discriminate.
    apply bind_ok in H. destruct H as (best & Hex & H).
    destruct pl as [|bo m a2 k2 t0 full|bo m a2 k2 item]; cbn [exec mres_of plan_map] in *.
    - (* left alone *)
      inversion Hex; subst best. inversion H; subst out t ev. rewrite !app_nil_r.
      apply Forall_forall. intros r Hr. rewrite Eaa, Eak.
      destruct (Hinside args' kwn kwv' (fun x' _ Hx => match Hx with or_introl h => in_or_app _ _ _ (or_introl h) | or_intror h => in_or_app _ _ _ (or_intror h) end) r Hr) as [Hc Hs].
      split; [exact Hc | apply swithin_within; exact Hs].
    - inversion Hex; subst best. cbn [mr_obj mr_node mr_ev mr_ty] in H.
      unfold node_of_plan in H.
      destruct (callbacks_of W tv a (bo, m)) as [cbo cm] eqn:Ecb.
      pose proof (method_callbacks_rewritten W cbo cm (Call (Attr v' a) (map aexpr a2) (map fst k2) (map (fun kv => aexpr (snd kv)) k2))) as Hrw.
      destruct (method_callbacks W cbo cm _) as [site evs] eqn:Emc. cbn [fst] in Hrw. inversion H; subst out t ev.
      assert (Hnsn : forall bo' m' a' k' t' f', PNone (A:=aarg) = PStatic bo' m' a' k' t' f' -> False) by discriminate.
      destruct (resolve_static_inv _ _ _ _ _ _ _ _ _ _ _ _ _ _ (fun _ _ _ _ _ _ E => match Hnsn _ _ _ _ _ _ E with end) Er)
        as (mcls & Hm & Hfill & _).
      rewrite !app_assoc. apply Forall_app. split.
      + rewrite <- !app_assoc. apply Forall_forall. intros r Hr.
        destruct (Hinside (map aexpr a2) (map fst k2) (map (fun kv => aexpr (snd kv)) k2)
                          (fun x' _ Hx => Hconserve m a2 k2 Hfill x' Hx) r Hr) as [Hc Hs].
        eapply through_callbacks; eauto.
      + constructor; [|constructor]. rewrite method_site_eq, hk_node, Ecb, Emc. cbn [snd fst].
        split; [|apply within_here; reflexivity]. eapply rewritten_is_call; [exact Hrw | reflexivity].
    - (* really calling the collection object's method *)
      assert (Hns : forall bo' m' a' k' it', PNone (A:=aarg) <> PStream bo' m' a' k' it') by discriminate.
      destruct (resolve_stream_inv _ _ _ _ _ _ _ _ _ _ _ _ _ Hns Er) as (Hst & mcls & Hm & Hfill).
      destruct (fill_go_Forall mk_const_arg (nlam_rec n G) (m_params m) (fun c => I) 0 aargs (zip_kw kwn akwv) a2 k2 Hna Hnkws Hfill)
        as [Ha2 _].
      unfold stream_target_of in Hst. unfold follow_on_stream_obj in Hex.
      destruct bo as [| | | | | | | | | | | |c targs| |]; try discriminate.
      destruct (is_collection (w_ct W) c); [|discriminate].
      destruct targs as [|item' targs]; [discriminate|].
      destruct a2 as [|x [|y r0]]; [| |discriminate]; inversion Hst; subst item'.
      + inversion Hex; subst best. cbn [mr_obj mr_node mr_ev mr_ty] in H.
        destruct (callbacks_of W tv a (TCls c (item :: targs), m)) as [cbo cm] eqn:Ecb.
        pose proof (method_callbacks_rewritten W cbo cm (Call (Attr v' a) [] (map fst k2) (map (fun kv => aexpr (snd kv)) k2))) as Hrw.
        destruct (method_callbacks W cbo cm _) as [site evs] eqn:Emc. cbn [fst] in Hrw.
        inversion H; subst out t ev.
        rewrite !app_assoc. apply Forall_app. split.
        * rewrite <- !app_assoc. apply Forall_forall. intros r Hr.
          destruct (Hinside [] (map fst k2) (map (fun kv => aexpr (snd kv)) k2)
                            (fun x' _ Hx => Hconserve m [] k2 Hfill x' Hx) r Hr) as [Hc Hs].
          eapply through_callbacks; eauto.
        * cbn [map]. constructor; [|constructor]. rewrite method_site_eq, hk_node, Ecb, Emc. cbn [snd fst].
          split; [|apply within_here; reflexivity]. eapply rewritten_is_call; [exact Hrw | reflexivity].
      + pose proof (Forall_inv Ha2) as Hx.
        assert (Hxk : exists p k, snd x = NLam p k /\
                  bind (k item) (fun r0 => bind (finish_op W (m_op m) item p r0) (fun '(lam, t1, ev1) =>
                    Ok (Some {| mr_node := Call (Attr v' a) [lam] (map fst k2) (map (fun kv => aexpr (snd kv)) k2);
                                mr_ty := TIter t1; mr_full := true; mr_obj := Some (TCls c (item :: targs), m);
                                mr_ev := ev1 |}))) = Ok best).
        { destruct (m_op m); try discriminate; destruct (snd x) as [| |p k]; try discriminate; eauto. }
        destruct Hxk as (p & k & Hsx & Hb).
        apply bind_ok in Hb. destruct Hb as ([[b' tb] evb] & Hk & Hb).
        apply bind_ok in Hb. destruct Hb as ([[lam t1] ev1] & Hfin & Hb).
        apply finish_op_events_x in Hfin. destruct Hfin as [-> ->].
        inversion Hb; subst best. cbn [mr_obj mr_node mr_ev mr_ty] in H.
        unfold nlam_rec in Hx. rewrite Hsx in Hx. destruct Hx as (b & Hfx & Hbody).
        destruct (Hbody _ _ _ _ Hk) as [Hout Hrecs].
        set (node := Call (Attr v' a) [Lambda [p] b'] (map fst k2) (map (fun kv => aexpr (snd kv)) k2)) in *.
        destruct (callbacks_of W tv a (TCls c (item :: targs), m)) as [cbo cm] eqn:Ecb.
        pose proof (method_callbacks_rewritten W cbo cm node) as Hrw.
        destruct (method_callbacks W cbo cm node) as [site evs] eqn:Emc. cbn [fst] in Hrw.
        inversion H; subst out t ev.
        cbn [map]. change (aexpr x) with (fst x). rewrite Hfx.
        rewrite !app_assoc. apply Forall_app. split; [apply Forall_app; split|].
        * rewrite <- !app_assoc. apply Forall_forall. intros r Hr.
          assert (Hall : forall x', is_lambda x' = false -> In x' args' \/ In x' kwv' ->
                                    In x' ([Lambda [p] b'] ++ map (fun kv => aexpr (snd kv)) k2)).
          { intros x' Hl Hx'. pose proof (Hconserve m [x] k2 Hfill x' Hx') as Hin. cbn [map app] in Hin.
            destruct Hin as [Hin|Hin]; [|right; exact Hin].
            change (aexpr x) with (fst x) in Hin. rewrite Hfx in Hin. subst x'. discriminate. }
          destruct (Hinside [Lambda [p] b'] (map fst k2) (map (fun kv => aexpr (snd kv)) k2) Hall r Hr) as [Hc Hs].
          eapply through_callbacks; eauto.
        * (* the records of the lambda body *)
          eapply Forall_impl; [|exact Hrecs]. intros r [Hc Hw].
          eapply through_callbacks; eauto.
          exists (Lambda [p] b'). split; [cbn; auto|]. eapply within_child; [|exact Hw]. cbn; auto.
        * constructor; [|constructor]. rewrite method_site_eq, hk_node, Hout, Ecb. fold node. rewrite Emc. cbn [snd fst].
          split; [|apply within_here; reflexivity]. eapply rewritten_is_call; [exact Hrw | reflexivity].
  Qed.
End Emitted2.

Section Emitted3.
  Variable W : world.

  (* calls come with as many keyword names as keyword values (what Python's parser and the bridge produce) *)
  Definition kw_wf (e : expr) : Prop :=
    forall f args kwn kwv, within (eq (Call f args kwn kwv)) e -> length kwn = length kwv.

  Lemma kw_wf_child e c : kw_wf e -> In c (children e) -> kw_wf c.
  Proof. intros H Hin f args kwn kwv Hw. eapply H. eapply within_child; eauto. Qed.

  Definition R' (e : expr) : Prop :=
    forall n G e' t aux ev, kw_wf e -> size e <= n -> follow_x W G e = Ok (e', t, aux, ev) ->
      Forall (okrec e') (sites_n W n G e).
  Definition sub' (e : expr) : Prop :=
    match e with
    | Lambda _ b => R' b
    | Attr v _ => R' v
    | Subscript v s => R' s /\ match v with Attr u _ => R' u | _ => True end
    | _ => True
    end.
  Definition PP' (e : expr) : Prop := R' e /\ sub' e.

  Lemma fl_recs' n G es : Forall R' es -> (forall x, In x es -> size x <= n) -> (forall x, In x es -> kw_wf x) ->
    forall es' ts ev,
    follow_list_with (follow_x W G) es = Ok (es', ts, ev) ->
    Forall (okrec_in es') (flat_map (sites_n W n G) es).
  Proof.
    induction 1 as [|x xs Hx _ IH]; intros Hs Hk es' ts ev H.
    - cbn in H. inversion H; subst. constructor.
    - rewrite fl_cons in H. apply bind_ok in H. destruct H as ([[[x' t] aux] ev1] & H1 & H).
      apply bind_ok in H. destruct H as ([[xs' ts'] evs] & H2 & H). inversion H; subst.
      cbn [flat_map]. apply Forall_app. split.
      + destruct (is_lambda x') eqn:El.
        * rewrite sites_lambda; [constructor|]. eapply fx_is_lambda; eauto.
        * eapply Forall_impl; [|eapply Hx; [apply Hk; left; reflexivity | apply Hs; left; reflexivity | exact H1]].
          intros r [Hc Hw]. split; [exact Hc|]. exists x'. repeat split; auto. left; reflexivity.
      + eapply Forall_impl; [|eapply IH; eauto; intros y Hy; [apply Hs | apply Hk]; right; exact Hy].
        intros r (Hc & y & Hy & Hl & Hw). split; [exact Hc|]. exists y. repeat split; auto. right; exact Hy.
  Qed.

  Lemma nl_rec n G es : Forall PP' es -> (forall x, In x es -> size x <= n) -> (forall x, In x es -> kw_wf x) ->
    forall es' ts ev,
    follow_list_with (follow_x W G) es = Ok (es', ts, ev) ->
    Forall (nlam_rec W n G) (nested_args_with (follow_x W) G es es').
  Proof.
    induction 1 as [|x xs Hx _ IH]; intros Hs Hkw es' ts ev H.
    - cbn in H. inversion H; subst. constructor.
    - rewrite fl_cons in H. apply bind_ok in H. destruct H as ([[[x' t] aux] ev1] & H1 & H).
      apply bind_ok in H. destruct H as ([[xs' ts'] evs] & H2 & H). inversion H; subst.
      cbn [nested_args_with]. constructor; [|eapply IH; eauto; intros y Hy; [apply Hs | apply Hkw]; right; exact Hy].
      unfold nlam_rec. cbn [snd fst].
      destruct x; try exact I. destruct ps as [|p [|q r]]; try exact I.
      rewrite fx_Lambda in H1. inversion H1; subst. exists x. split; [reflexivity|].
      assert (Hsz : size x <= n).
      { assert (size (Lambda [p] x) <= n) by (apply Hs; left; reflexivity). cbn in H0. lia. }
      assert (Hkx : kw_wf x).
      { eapply kw_wf_child; [apply Hkw; left; reflexivity | cbn; auto]. }
      intros item b' t0 ev0 Hk. apply bind_ok in Hk. destruct Hk as ([[[b1 t1] aux1] ev2] & Hb & Hk).
      inversion Hk; subst. split.
      + exact (proj1 (out_of_fx _ _ _ _ _ _ _ Hb)).
      + destruct Hx as [_ Hsub]. cbn in Hsub. eapply Hsub; eauto.
  Qed.
End Emitted3.

Section Emitted4.
  Variable W : world.

  Ltac inv_bind H x H1 := apply bind_ok in H; destruct H as (x & H1 & H).
  Ltac crush1 H :=
    let y := fresh "y" in let Hy := fresh "Hy" in
    apply bind_ok in H; destruct H as (y & Hy & H);
    try (first [destruct y as [[[? ?] ?] ?] | destruct y as [[? ?] ?]]); cbv beta iota in H.
  Ltac crush H := repeat crush1 H.
  Ltac fuel n Hn :=
    destruct n as [|n]; [exfalso; match type of Hn with size ?e <= 0 => pose proof (size_pos e); lia end|].

  (* the records of one child, inside the rebuilt parent *)
  Ltac one IH Hwf Hn :=
    eapply Forall_impl;
    [| eapply (proj1 IH);
       [ eapply kw_wf_child; [exact Hwf | cbn; auto 10]
       | eapply child_fuel; [exact Hn | cbn; auto 10]
       | eassumption ] ];
    (let r := fresh "r" in let Hr := fresh "Hr" in
     intros r Hr; eapply okrec_child; [|exact Hr]; cbn; auto 10).

  Ltac many Hall Hwf Hn Hin :=
    eapply Forall_impl;
    [| eapply (fl_recs' W);
       [ eapply Forall_impl; [|exact Hall]; (let x := fresh in let Hx := fresh in intros x Hx; exact (proj1 Hx))
       | (let x := fresh in let Hx := fresh in intros x Hx; eapply child_fuel; [exact Hn | cbn; Hin Hx])
       | (let x := fresh in let Hx := fresh in intros x Hx; eapply kw_wf_child; [exact Hwf | cbn; Hin Hx])
       | eassumption ] ].

  Lemma Forall_okrec_in_children e' es' l :
    incl es' (children e') -> Forall (okrec_in es') l -> Forall (okrec e') l.
  Proof. intros Hi H. eapply Forall_impl; [|exact H]. intros r Hr. eapply okrec_in_children; eauto. Qed.

  Lemma list_recs n G e es es' ts ev :
    Forall (PP' W) es -> kw_wf e -> size e <= S n -> incl es (children e) ->
    follow_list_with (follow_x W G) es = Ok (es', ts, ev) ->
    Forall (okrec_in es') (flat_map (sites_n W n G) es).
  Proof.
    intros Hall Hwf Hn Hincl H. eapply (fl_recs' W); [| | |exact H].
    - eapply Forall_impl; [|exact Hall]. intros x Hx. exact (proj1 Hx).
    - intros x Hx. eapply child_fuel; [exact Hn | apply Hincl; exact Hx].
    - intros x Hx. eapply kw_wf_child; [exact Hwf | apply Hincl; exact Hx].
  Qed.

  Theorem follow_emitted : forall e, PP' W e.
  Proof.
    induction e using expr_ind'; (split; [intros n G e' t aux ev Hwf Hn HE | try exact I]).
    - (* Name *) fuel n Hn. constructor.
    - (* Const *) fuel n Hn. constructor.
    - (* Attr *)
      rewrite fx_Attr in HE. crush HE. inversion HE; subst. fuel n Hn.
      rewrite sites_unfold by exact I. cbn [children flat_map own_sites]. rewrite !app_nil_r.
      one IHe Hwf Hn.
    - cbn. apply IHe.
    - (* Call *)
      fuel n Hn. rewrite sites_unfold by exact I. cbn [children flat_map]. rewrite flat_map_app, <- ?app_assoc.
      assert (Hia : incl args (children (Call e args kwn kwv))) by (cbn; intros x Hx; right; apply in_or_app; auto).
      assert (Hik : incl kwv (children (Call e args kwn kwv))) by (cbn; intros x Hx; right; apply in_or_app; auto).
      assert (Hlen : length kwn = length kwv) by (eapply Hwf; apply within_here; reflexivity).
      destruct (callee_cases e) as [(v & a & ->)|[(v & a & s & ->)|[(ps & b & ->)|Hplain]]].
      + rewrite fx_Call_method in HE.
        inv_bind HE x Hv. destruct x as [[[v' tv] auxv] ev0].
        inv_bind HE ta Hat. inv_bind HE x Hargs. destruct x as [[args' ts1] ev1].
        inv_bind HE x Hkwv. destruct x as [[kwv' ts2] ev2].
        inv_bind HE x Hp. destruct x as [[node tn] ev3]. inversion HE; subst e' t aux ev.
        destruct IHe as [_ Hsub]. cbn in Hsub.
        destruct (out_of_fx _ _ _ _ _ _ _ Hv) as [Eo Et].
        assert (Hf_fuel : size (Attr v a) <= n) by (eapply child_fuel; [exact Hn | cbn; auto]).
        assert (Hfw : kw_wf (Attr v a)) by (eapply kw_wf_child; [exact Hwf | cbn; auto]).
        eapply (pmc_emitted W n G v v' tv a args kwn kwv args' kwv'); try exact Hp; auto.
        * eapply fl_outs; eauto.
        * eapply fl_outs; eauto.
        * apply nested_args_exprs. symmetry. eapply fl_length; eauto.
        * apply nested_args_exprs. symmetry. eapply fl_length; eauto.
        * rewrite Hlen. assert (length kwv' = length kwv) by (eapply fl_length; eauto).
          assert (L : forall (l l' : list expr), length l = length l' ->
                        length (nested_args_with (follow_x W) G l l') = length l).
          { induction l as [|x xs IHl]; intros [|y ys] Hl; cbn in *; try discriminate; [reflexivity|]. f_equal. apply IHl. lia. }
          rewrite L; auto.
        * eapply nl_rec; eauto.
          -- intros x Hx. eapply child_fuel; [exact Hn | apply Hia; exact Hx].
          -- intros x Hx. eapply kw_wf_child; [exact Hwf | apply Hia; exact Hx].
        * eapply nl_rec; eauto.
          -- intros x Hx. eapply child_fuel; [exact Hn | apply Hik; exact Hx].
          -- intros x Hx. eapply kw_wf_child; [exact Hwf | apply Hik; exact Hx].
        * cbn in Hf_fuel. destruct n as [|n']; [lia|].
          rewrite sites_unfold by exact I. cbn [children flat_map own_sites]. rewrite !app_nil_r.
          eapply Hsub; [|lia|exact Hv]. eapply kw_wf_child; [exact Hfw | cbn; auto].
        * eapply (list_recs n G (Call (Attr v a) args kwn kwv)); eauto.
        * eapply (list_recs n G (Call (Attr v a) args kwn kwv)); eauto.
      + rewrite fx_Call_param in HE.
        inv_bind HE x Hv. destruct x as [[[v' tv] auxv] ev0].
        inv_bind HE ta Hat. inv_bind HE x Hs. destruct x as [[[s' ts] auxs] evs].
        inv_bind HE tsub Hst. inv_bind HE x Hargs. destruct x as [[args' ts1] ev1].
        inv_bind HE x Hkwv. destruct x as [[kwv' ts2] ev2].
        destruct IHe as [IHf [Hqs Hqv]].
        assert (Hf_fuel : size (Subscript (Attr v a) s) <= n) by (eapply child_fuel; [exact Hn | cbn; auto]).
        assert (Hfw : kw_wf (Subscript (Attr v a) s)) by (eapply kw_wf_child; [exact Hwf | cbn; auto]).
        pose proof (list_recs n G _ _ _ _ _ H Hwf Hn Hia Hargs) as HRa.
        pose proof (list_recs n G _ _ _ _ _ H0 Hwf Hn Hik Hkwv) as HRk.
        assert (Hfx : follow_x W G (Subscript (Attr v a) s) = Ok (Subscript (Attr v' a) s', tsub, [], ev0 ++ evs)).
        { rewrite fx_Subscript, fx_Attr, Hv. cbn [bind]. rewrite Hat. cbn [bind]. rewrite Hs. cbn [bind].
          rewrite Hst. reflexivity. }
        pose proof (IHf _ _ _ _ _ _ Hfw Hf_fuel Hfx) as HRf.
        cbn [own_sites]. destruct (out_of_fx _ _ _ _ _ _ _ Hv) as [Eo Et]. rewrite Et.
        destruct (is_any tv) eqn:Eany.
        * rewrite param_call_guarded_on in HE. cbn in HE. inversion HE; subst e' t aux ev.
          rewrite app_nil_r. repeat (apply Forall_app; split).
          -- eapply Forall_impl; [|exact HRf]. intros r Hr. eapply okrec_child; [|exact Hr]. cbn; auto.
          -- eapply Forall_okrec_in_children; [|exact HRa]. cbn. intros x Hx. right. apply in_or_app; auto.
          -- eapply Forall_okrec_in_children; [|exact HRk]. cbn. intros x Hx. right. apply in_or_app; auto.
        * cbn [andb] in HE. inv_bind HE x Hp. destruct x as [[node tn] ev3]. inversion HE; subst e' t aux ev.
          unfold process_parameterized in Hp.
          destruct (get_method_and_class (w_ct W) tv a) as [[c0 [m0|[id|]]]|]; try discriminate.
          destruct (literal_eval s') eqn:Elit; [|discriminate]. inversion Hp; subst node tn ev3.
          destruct (out_of_fx _ _ _ _ _ _ _ Hs) as [Eos _].
          rewrite Eo, Eos, (fl_outs _ _ _ _ _ _ Hargs), (fl_outs _ _ _ _ _ _ Hkwv).
          set (node := Call (Attr v' a) args' kwn kwv').
          assert (Hrw : rewritten node (apply_rw (cb_rw (cb_spec (w_cb W) id)) node)) by (econstructor; constructor).
          (* the records of the callee: those of v are inside Attr v' a, the subscript is a literal and has none *)
          cbn in Hf_fuel. destruct n as [|n']; [lia|].
          rewrite (sites_unfold W n' G (Subscript (Attr v a) s)) by exact I. cbn [children flat_map own_sites].
          rewrite !app_nil_r. destruct n' as [|n'']; [lia|].
          rewrite (sites_unfold W n'' G (Attr v a)) by exact I. cbn [children flat_map own_sites]. rewrite !app_nil_r.
          assert (HRv : Forall (okrec v') (sites_n W n'' G v)).
          { eapply Hqv; [|lia|exact Hv]. apply (kw_wf_child (Attr v a) v); [|cbn; auto].
            apply (kw_wf_child (Subscript (Attr v a) s) (Attr v a)); [exact Hfw | cbn; auto]. }
          assert (HRs : Forall (okrec s') (sites_n W (S n'') G s)).
          { eapply Hqs; [|lia|exact Hs]. apply (kw_wf_child (Subscript (Attr v a) s) s); [exact Hfw | cbn; auto]. }
          rewrite <- ?app_assoc. repeat (apply Forall_app; split).
          -- eapply Forall_impl; [|exact HRv]. intros r [Hc Hw]. eapply through_callbacks; eauto.
             exists (Attr v' a). split; [cbn; auto|]. eapply within_child; [|exact Hw]. cbn; auto.
          -- eapply Forall_impl; [|exact HRs]. intros r [Hc Hw]. exfalso.
             eapply (literal_no_call (eq (snd r))); [intros x <-; exact Hc | | exact Hw]. congruence.
          -- eapply Forall_impl; [|exact HRa]. intros r (Hc & x' & Hin & _ & Hw). eapply through_callbacks; eauto.
             exists x'. split; [cbn; right; apply in_or_app; auto | exact Hw].
          -- eapply Forall_impl; [|exact HRk]. intros r (Hc & x' & Hin & _ & Hw). eapply through_callbacks; eauto.
             exists x'. split; [cbn; right; apply in_or_app; auto | exact Hw].
          -- constructor; [|constructor]. unfold param_site. cbn [snd]. split; [|apply within_here; reflexivity].
             eapply rewritten_is_call; [exact Hrw | reflexivity].
      + (* an immediately called lambda *)
        rewrite fx_Call_lambda in HE.
        inv_bind HE x Hargs. destruct x as [[args' ts1] ev1].
        inv_bind HE x Hkwv. destruct x as [[kwv' ts2] ev2].
        pose proof (list_recs n G _ _ _ _ _ H Hwf Hn Hia Hargs) as HRa.
        pose proof (list_recs n G _ _ _ _ _ H0 Hwf Hn Hik Hkwv) as HRk.
        assert (Hlam : sites_n W n G (Lambda ps b) = []) by (destruct n; reflexivity).
        rewrite Hlam. cbn [app own_sites]. rewrite (fl_types _ _ _ _ _ _ Hargs).
        assert (Hf_fuel : size (Lambda ps b) <= n) by (eapply child_fuel; [exact Hn | cbn; auto]).
        assert (Hfw : kw_wf (Lambda ps b)) by (eapply kw_wf_child; [exact Hwf | cbn; auto]).
        destruct (called_ok ps args kwn kwv).
        * inv_bind HE x Hb. destruct x as [[[b' tb] auxb] ev3]. inversion HE; subst e' t aux ev.
          repeat (apply Forall_app; split).
          -- eapply Forall_okrec_in_children; [|exact HRa]. cbn. intros x Hx. right. apply in_or_app; auto.
          -- eapply Forall_okrec_in_children; [|exact HRk]. cbn. intros x Hx. right. apply in_or_app; auto.
          -- destruct IHe as [_ Hsub]. cbn in Hsub.
             assert (Hrb : Forall (okrec b') (sites_n W n (bind_params ps ts1 G) b)).
             { eapply Hsub; [|cbn in Hf_fuel; lia|exact Hb]. eapply kw_wf_child; [exact Hfw | cbn; auto]. }
             eapply Forall_impl; [|exact Hrb]. intros r [Hc Hw]. split; [exact Hc|].
             apply (within_child _ _ (Lambda ps b')); [cbn; auto|].
             apply (within_child _ (Lambda ps b') b'); [cbn; auto | exact Hw].
        * inversion HE; subst e' t aux ev. rewrite app_nil_r. apply Forall_app; split.
          -- eapply Forall_okrec_in_children; [|exact HRa]. cbn. intros x Hx. right. apply in_or_app; auto.
          -- eapply Forall_okrec_in_children; [|exact HRk]. cbn. intros x Hx. right. apply in_or_app; auto.
      + rewrite fx_Call_plain in HE by exact Hplain.
        inv_bind HE x Hf. destruct x as [[[f' tf] auxf] ev0].
        inv_bind HE x Hargs. destruct x as [[args' ts1] ev1].
        inv_bind HE x Hkwv. destruct x as [[kwv' ts2] ev2].
        assert (Hf_fuel : size e <= n) by (eapply child_fuel; [exact Hn | cbn; auto]).
        assert (Hfw : kw_wf e) by (eapply kw_wf_child; [exact Hwf | cbn; auto]).
        pose proof (proj1 IHe _ _ _ _ _ _ Hfw Hf_fuel Hf) as HRf.
        pose proof (list_recs n G _ _ _ _ _ H Hwf Hn Hia Hargs) as HRa.
        pose proof (list_recs n G _ _ _ _ _ H0 Hwf Hn Hik Hkwv) as HRk.
        pose proof (fx_is_name W G e f' tf auxf ev0) as Hname.
        assert (Hcong : Forall (okrec (Call f' args' kwn kwv'))
                          (sites_n W n G e ++ flat_map (sites_n W n G) args ++ flat_map (sites_n W n G) kwv)).
        { repeat (apply Forall_app; split).
          - eapply Forall_impl; [|exact HRf]. intros r Hr. eapply okrec_child; [|exact Hr]. cbn; auto.
          - eapply Forall_okrec_in_children; [|exact HRa]. cbn. intros x Hx. right. apply in_or_app; auto.
          - eapply Forall_okrec_in_children; [|exact HRk]. cbn. intros x Hx. right. apply in_or_app; auto. }
        assert (Hown_nil : (forall x, f' <> Name x) -> own_sites W (sites_n W n) G (Call e args kwn kwv) = []).
        { intros Hnn. destruct e; try reflexivity; try contradiction.
          - exfalso. rewrite fx_Name in Hf. inversion Hf; subst. eapply Hnn; reflexivity.
          - destruct e1; try reflexivity. contradiction. }
        destruct f'; try (inversion HE; subst; rewrite Hown_nil by discriminate; rewrite app_nil_r; exact Hcong).
        pose proof (Hname id Hf eq_refl) as ->.
        cbn [own_sites]. rewrite (fl_outs _ _ _ _ _ _ Hargs), (fl_outs _ _ _ _ _ _ Hkwv).
        destruct (find_func (w_ft W) id) as [fn|] eqn:Eff; [|inversion HE; subst; rewrite app_nil_r; exact Hcong].
        inv_bind HE x Hp. destruct x as [[node tn] ev3]. inversion HE; subst e' t aux ev.
        unfold process_function_call in Hp. rewrite zfix_combine in Hp.
        destruct (fill Const (f_params fn) args' (combine kwn kwv')) as [[a2 k2]|pn] eqn:Efill; [|discriminate].
        rewrite (find_func_name _ _ _ Eff) in Hp.
        pose proof (run_cb_rewritten W (f_proc fn) (Call (Name id) a2 (map fst k2) (map snd k2))) as Hrw.
        rewrite fire_eq.
        destruct (run_cb W (f_proc fn) (Call (Name id) a2 (map fst k2) (map snd k2))) as [site evs].
        cbn [fst snd] in *. inversion Hp; subst node tn ev3.
        assert (Hall : forall x', In x' args' \/ In x' kwv' -> In x' (a2 ++ map snd k2)).
        { intros x' Hx'. apply in_or_app. eapply fill_go_conserve; [exact Efill|].
          destruct Hx' as [Hx'|Hx']; [left; exact Hx' | right].
          rewrite combine_snd_length; [exact Hx'|]. rewrite Hlen. symmetry. eapply fl_length; eauto. }
        rewrite ?app_assoc. apply Forall_app. split; [rewrite <- ?app_assoc; repeat (apply Forall_app; split)|].
        * rewrite fx_Name in Hf. inversion Hf; subst. destruct n; constructor.
        * eapply Forall_impl; [|exact HRa]. intros r (Hc & x' & Hin & _ & Hw). eapply through_callbacks; eauto.
          exists x'. split; [cbn; right; apply Hall; auto | exact Hw].
        * eapply Forall_impl; [|exact HRk]. intros r (Hc & x' & Hin & _ & Hw). eapply through_callbacks; eauto.
          exists x'. split; [cbn; right; apply Hall; auto | exact Hw].
        * constructor; [|constructor]. cbn [snd]. split; [|apply within_here; reflexivity].
          eapply rewritten_is_call; [exact Hrw | reflexivity].
    - (* Lambda *) destruct n; constructor.
    - cbn. apply IHe.
    - (* UnaryOp *)
      rewrite fx_UnaryOp in HE. crush HE. destruct (unary_uses_lookup || _); inversion HE; subst. fuel n Hn.
      rewrite sites_unfold by exact I. cbn [children flat_map own_sites]. rewrite !app_nil_r.
      one IHe Hwf Hn.
    - (* BinOp *)
      rewrite fx_BinOp in HE. crush HE. inversion HE; subst. fuel n Hn.
      rewrite sites_unfold by exact I. cbn [children flat_map own_sites]. rewrite !app_nil_r.
      apply Forall_app; split; [one IHe1 Hwf Hn | one IHe2 Hwf Hn].
    - (* BoolOp *)
      rewrite fx_BoolOp in HE. crush HE. inversion HE; subst. fuel n Hn.
      rewrite sites_unfold by exact I. cbn [children own_sites]. rewrite !app_nil_r.
      eapply Forall_okrec_in_children; [|eapply list_recs; eauto; apply incl_refl]. cbn. apply incl_refl.
    - (* Compare *)
      rewrite fx_Compare in HE. crush HE. inversion HE; subst. fuel n Hn.
      rewrite sites_unfold by exact I. cbn [children flat_map own_sites]. rewrite !app_nil_r.
      apply Forall_app; split; [one IHe Hwf Hn|].
      eapply Forall_okrec_in_children; [|eapply list_recs; eauto; cbn; apply incl_tl, incl_refl]. cbn. apply incl_tl, incl_refl.
    - (* IfExp *)
      rewrite fx_IfExp in HE. crush HE. inversion HE; subst. fuel n Hn.
      rewrite sites_unfold by exact I. cbn [children flat_map own_sites]. rewrite !app_nil_r.
      repeat (apply Forall_app; split); [one IHe1 Hwf Hn | one IHe2 Hwf Hn | one IHe3 Hwf Hn].
    - (* Tuple *)
      rewrite fx_Tuple in HE. crush HE. inversion HE; subst. fuel n Hn.
      rewrite sites_unfold by exact I. cbn [children own_sites]. rewrite !app_nil_r.
      eapply Forall_okrec_in_children; [|eapply list_recs; eauto; apply incl_refl]. cbn. apply incl_refl.
    - (* List *)
      rewrite fx_List in HE. crush HE. inversion HE; subst. fuel n Hn.
      rewrite sites_unfold by exact I. cbn [children own_sites]. rewrite !app_nil_r.
      eapply Forall_okrec_in_children; [|eapply list_recs; eauto; apply incl_refl]. cbn. apply incl_refl.
    - (* Dict *)
      rewrite fx_Dict in HE. crush HE. inversion HE; subst. fuel n Hn.
      rewrite sites_unfold by exact I. cbn [children own_sites]. rewrite !app_nil_r, flat_map_app.
      apply Forall_app; split.
      + eapply Forall_okrec_in_children; [|eapply (list_recs n G (Dict ks vs) ks); eauto; cbn; apply incl_appl, incl_refl].
        cbn. apply incl_appl, incl_refl.
      + eapply Forall_okrec_in_children; [|eapply (list_recs n G (Dict ks vs) vs); eauto; cbn; apply incl_appr, incl_refl].
        cbn. apply incl_appr, incl_refl.
    - (* Subscript *)
      rewrite fx_Subscript in HE. crush HE. inversion HE; subst. fuel n Hn.
      rewrite sites_unfold by exact I. cbn [children flat_map own_sites]. rewrite !app_nil_r.
      apply Forall_app; split; [one IHe1 Hwf Hn | one IHe2 Hwf Hn].
    - cbn. split; [apply IHe2|]. destruct e1; try exact I. apply (proj2 IHe1).
    - (* ListComp *)
      rewrite fx_ListComp in HE. crush HE. inversion HE; subst. fuel n Hn.
      rewrite sites_unfold by exact I. cbn [children flat_map own_sites]. rewrite !app_nil_r.
      apply Forall_app; split; [one IHe Hwf Hn|].
      eapply Forall_okrec_in_children; [|eapply list_recs; eauto; cbn; apply incl_tl, incl_refl]. cbn. apply incl_tl, incl_refl.
    - (* GenExp *)
      rewrite fx_GenExp in HE. crush HE. inversion HE; subst. fuel n Hn.
      rewrite sites_unfold by exact I. cbn [children flat_map own_sites]. rewrite !app_nil_r.
      apply Forall_app; split; [one IHe Hwf Hn|].
      eapply Forall_okrec_in_children; [|eapply list_recs; eauto; cbn; apply incl_tl, incl_refl]. cbn. apply incl_tl, incl_refl.
    - (* CompFor *)
      rewrite fx_CompFor in HE. crush HE. inversion HE; subst. fuel n Hn.
      rewrite sites_unfold by exact I. cbn [children flat_map own_sites]. rewrite !app_nil_r.
      repeat (apply Forall_app; split); [one IHe1 Hwf Hn | one IHe2 Hwf Hn |].
      eapply Forall_okrec_in_children; [|eapply list_recs; eauto; cbn; apply incl_tl, incl_tl, incl_refl].
      cbn. apply incl_tl, incl_tl, incl_refl.
    - (* Raw *) destruct n; [constructor|]. constructor.
    - (* Other *)
      rewrite fx_Other in HE. crush HE. inversion HE; subst. fuel n Hn.
      rewrite sites_unfold by exact I. cbn [children own_sites]. rewrite !app_nil_r.
      eapply Forall_okrec_in_children; [|eapply list_recs; eauto; apply incl_refl]. cbn. apply incl_refl.
  Qed.
End Emitted4.

(* ---------- exported ---------- *)

Theorem rewrite_is_emitted_x W G e e' t ev :
  kw_wf e -> follow W G e = Ok (e', t, ev) ->
  Forall (fun r : site_rec => within (eq (snd r)) e') (call_sites W G e).
Proof.
  intros Hwf H. unfold follow in H. apply bind_ok in H. destruct H as ([[[e1 t1] aux1] ev1] & H1 & H).
  inversion H; subst. unfold call_sites.
  eapply Forall_impl; [|exact (proj1 (follow_emitted W e) (size e) G _ _ _ _ Hwf (le_n _) H1)].
  intros r [_ Hw]. exact Hw.
Qed.

(* C01: for untyped chains of string / ast lambdas the syntactic side conditions of the end-to-end theorem through the
   three backend passes are consequences of a boolean condition on the chain itself.

   The query such a chain builds is a *spine*: Op_n(... Op_1(EventDataset(), lambda p1: b1) ..., lambda pn: bn),
   possibly under a terminal, where bi is the lowered (sugar) body of the i-th lambda - acquisition and type following
   are the identity there (C10), no MetaData wrapper is attached.  remove_empty, ext and agg are homomorphic on a
   spine; wfq, "no reserved name", "binders among bs", "no First" and ops_kw_free of a spine are the conjunction over
   its lambdas.  So the condition [simplifiable_chain] asks, stage by stage, of the lowered lambda l1 = lambda p: b1:
   remove_empty leaves it alone, its operator method calls carry no keywords, and agg (ext l1) - computed by the
   models - is well formed, uses no reserved name arg_N, binds only names of [bs], and does not mention First. *)
From Coq Require Import Ascii.
From FA.Base Require Import PyAst Induct Value Eval Traverse Names.
From FA.Gen Require Import Tables TablesStream TablesSimp.
From FA.Model Require Import TypeDefs Pipeline.
From FA.Model Require Capture Sugar TypeFollow MetaData ExtCalls Aggregate Simplify.
From FA.Proofs Require Import TraverseFacts Refine RenameSem SimplifyTotal SimplifyInv SimplifySound TypeFollowUntyped
  ExtCallsSem MetaDataRemove PipelineFacts PipelineSem PipelineCapture PipelineSimp.

(* ---------- spines ---------- *)

Definition entry := (string * string * expr)%type.          (* operator node name, lambda parameter, lambda body *)
Definition e_lam (x : entry) : expr := Lambda [snd (fst x)] (snd x).
Definition e_node (src : expr) (x : entry) : expr := function_call (fst (fst x)) [src; e_lam x].

Fixpoint spine (src : expr) (l : list entry) : expr :=
  match l with
  | [] => src
  | x :: r => spine (e_node src x) r
  end.

Definition okop (n : string) : Prop := n = "Select" \/ n = "SelectMany" \/ n = "Where".

Lemma op_name_ok op : op = OpSelect \/ op = OpSelectMany \/ op = OpWhere -> okop (op_name op).
Proof. intros [->|[->| ->]]; cbn; unfold okop; auto. Qed.

(* the entry a stage of a plain chain contributes *)
Definition stage_entry (s : stage) : entry :=
  match st_src s with
  | Lambda [p] b => match Sugar.sugar b with
                    | Sugar.Ok b1 => (op_name (st_op s), p, b1)
                    | Sugar.Err _ => (op_name (st_op s), p, b)
                    end
  | _ => (op_name (st_op s), "", Raw CNone)
  end.

Lemma plain_build_spine W : ft_plain (w_ft W) ->
  forall ch k q item q' t',
    simple item -> plain_chain W item ch = true ->
    build_from W k (q, item) ch = POk (q', t') ->
    q' = spine q (map stage_entry ch) /\ Forall (fun s => st_op s = OpSelect \/ st_op s = OpSelectMany \/ st_op s = OpWhere) ch.
Proof.
  intros Hft. induction ch as [|s rest IH]; intros k q item q' t' Hitem Hp Hb.
  - cbn in Hb. inversion Hb; subst. split; [reflexivity | constructor].
  - cbn [build_from] in Hb. destruct (step W k (q, item) s) as [[q1 t1]|] eqn:Hstep; [|discriminate].
    cbn [pbind] in Hb. cbn [plain_chain] in Hp.
    destruct (st_acq s) as [ce|] eqn:Hacq; [discriminate|].
    destruct (st_src s) as [| | | |ps b| | | | | | | | | | | | | |] eqn:Hsrc; try discriminate.
    destruct ps as [|p [|? ?]]; try discriminate.
    destruct (step_inv W k q item s q1 t1 p b Hsrc Hstep) as (Hop & b0 & b1 & b2 & evs & Ha & Hs & Hf & ->).
    rewrite Hacq in Ha. cbn [acquire_lambda] in Ha. inversion Ha; subst b0. clear Ha.
    rewrite Hs in Hp. apply andb_true_iff in Hp. destruct Hp as [Hg Hrest]. rewrite Hf in Hrest.
    destruct (plain_stream_op W _ item p b1 _ _ _ Hft Hitem Hg Hf) as (Hlam & -> & Ht1).
    inversion Hlam; subst b2.
    destruct (IH _ _ _ _ _ Ht1 Hrest Hb) as [-> Hops].
    split; [|constructor; assumption].
    cbn [map spine]. unfold stage_entry at 2. rewrite Hsrc, Hs. reflexivity.
Qed.

(* ---------- the passes on a spine ---------- *)

Definition okops (l : list entry) : Prop := Forall (fun x => okop (fst (fst x))) l.

Lemma remove_node src x :
  okop (fst (fst x)) -> MetaData.remove_empty src = Some src -> MetaData.remove_empty (e_lam x) = Some (e_lam x) ->
  MetaData.remove_empty (e_node src x) = Some (e_node src x).
Proof.
  destruct x as [[n p] b]. unfold e_node, e_lam, function_call. cbn [fst snd]. intros Hn Hs Hl.
  rewrite remove_unfold. cbn [map_children].
  change (MetaData.remove_empty (Name n)) with (Some (Name n)). cbn [obind].
  rewrite !omap_cons, Hs, Hl. cbn [obind omap map sequence].
  destruct Hn as [->|[->| ->]]; reflexivity.
Qed.

Lemma remove_spine l : okops l -> Forall (fun x => MetaData.remove_empty (e_lam x) = Some (e_lam x)) l ->
  forall src, MetaData.remove_empty src = Some src -> MetaData.remove_empty (spine src l) = Some (spine src l).
Proof.
  induction l as [|x l IH]; intros Ho Hl src Hs; [exact Hs|].
  inversion Ho; inversion Hl; subst. cbn [spine]. apply IH; try assumption. apply remove_node; assumption.
Qed.

Definition ext_entry (x : entry) : entry := (fst x, ExtCalls.ext (snd x)).

Lemma ext_node src x : okop (fst (fst x)) -> ExtCalls.ext (e_node src x) = e_node (ExtCalls.ext src) (ext_entry x).
Proof. destruct x as [[n p] b]. intros Hn. cbn in Hn. destruct Hn as [->|[->| ->]]; reflexivity. Qed.

Lemma ext_spine l : okops l -> forall src, ExtCalls.ext (spine src l) = spine (ExtCalls.ext src) (map ext_entry l).
Proof.
  induction l as [|x l IH]; intros Ho src; [reflexivity|]. inversion Ho; subst.
  cbn [spine map]. rewrite IH by assumption. rewrite ext_node by assumption. reflexivity.
Qed.

Lemma okops_ext l : okops l -> okops (map ext_entry l).
Proof. induction 1; constructor; assumption. Qed.

(* agg on an entry: the body rewritten *)
Definition agg_entry (x : entry) : option entry := option_map (fun b' => (fst x, b')) (Aggregate.agg (snd x)).

Lemma agg_node src src' x x' :
  okop (fst (fst x)) -> Aggregate.agg src = Some src' -> agg_entry x = Some x' ->
  Aggregate.agg (e_node src x) = Some (e_node src' x').
Proof.
  destruct x as [[n p] b]. unfold agg_entry. cbn [fst snd]. intros Hn Hs Hx.
  destruct (Aggregate.agg b) as [b'|] eqn:Hb; [|discriminate]. inversion Hx; subst x'. clear Hx.
  unfold e_node, e_lam, function_call. cbn [fst snd].
  destruct Hn as [->|[->| ->]];
    (change (Aggregate.agg (Call (Name _) [src; Lambda [p] b] [] [])) with
       (map_children Aggregate.agg (Call (Name _) [src; Lambda [p] b] [] [])) ||
     idtac);
    unfold Aggregate.agg; cbn [Aggregate.agg_with Aggregate.find_rule find Aggregate.rule_fires agg_rules existsb
                              String.eqb Ascii.eqb Bool.eqb andb orb negb length Nat.eqb map_children];
    fold Aggregate.agg; rewrite omap_cons, Hs; cbn [obind]; rewrite omap_cons;
    change (Aggregate.agg (Lambda [p] b)) with (obind (Aggregate.agg b) (fun b' => Some (Lambda [p] b')));
    rewrite Hb; reflexivity.
Qed.

Lemma agg_spine l l' : okops l -> Forall2 (fun x x' => agg_entry x = Some x') l l' ->
  forall src src', Aggregate.agg src = Some src' -> Aggregate.agg (spine src l) = Some (spine src' l').
Proof.
  intros Ho H. revert Ho. induction H as [|x x' l l' Hx _ IH]; intros Ho src src' Hs; [exact Hs|].
  inversion Ho; subst. cbn [spine]. apply IH; [assumption|]. apply agg_node; assumption.
Qed.

Lemma agg_entry_op x x' : agg_entry x = Some x' -> fst (fst x') = fst (fst x).
Proof. unfold agg_entry. destruct (Aggregate.agg (snd x)); cbn; intros H; inversion H; reflexivity. Qed.

Lemma okops_agg l l' : okops l -> Forall2 (fun x x' => agg_entry x = Some x') l l' -> okops l'.
Proof.
  intros Ho H. induction H as [|x x' l l' Hx _ IH]; [constructor|]. inversion Ho; subst.
  constructor; [rewrite (agg_entry_op _ _ Hx); assumption | apply IH; assumption].
Qed.

(* a boolean predicate that holds of a node as soon as it holds of its source and of its lambda holds of a spine *)
Definition node_closed (P : expr -> bool) : Prop :=
  forall src x, okop (fst (fst x)) -> P src = true -> P (e_lam x) = true -> P (e_node src x) = true.

Lemma spine_pred (P : expr -> bool) : node_closed P ->
  forall l, okops l -> Forall (fun x => P (e_lam x) = true) l -> forall src, P src = true -> P (spine src l) = true.
Proof.
  intros HP. induction l as [|x l IH]; intros Ho Hl src Hs; [exact Hs|].
  inversion Ho; inversion Hl; subst. cbn [spine]. apply IH; try assumption. apply HP; assumption.
Qed.

Definition P_kwfree (e : expr) : bool := ExtCalls.ops_kw_free ext_default_ops e.
Definition P_fresh (e : expr) : bool := forallb (fun x => negb (reserved_name x)) (idents true e).
Definition mem_str (bs : list string) (x : string) : bool := existsb (String.eqb x) bs.
Definition P_binders (bs : list string) (e : expr) : bool := forallb (mem_str bs) (idents false e).
Definition P_nofirst (e : expr) : bool := negb (mentions "First" e).

Lemma kwfree_closed : node_closed P_kwfree.
Proof.
  intros src [[n p] b] _ Hs Hl. unfold P_kwfree, e_node, e_lam, function_call in *. cbn [fst snd] in *.
  rewrite ops_kw_free_unfold. cbn [ExtCalls.kw_ok_here children app forallb]. rewrite Hs, Hl. reflexivity.
Qed.

Lemma wfq_closed : node_closed wfq.
Proof.
  intros src [[n p] b] Hn Hs Hl. unfold e_node, e_lam, function_call in *. cbn [fst snd] in *.
  cbn [wfq] in Hl. destruct Hn as [->|[->| ->]]; cbn; rewrite Hs; cbn [andb]; cbn in Hl; rewrite Hl; reflexivity.
Qed.

Lemma idents_node free src n p b :
  idents free (e_node src (n, p, b)) = (if free then [n] else []) ++ idents free src ++ p :: idents free b.
Proof.
  unfold e_node, e_lam, function_call. cbn [fst snd idents flat_map]. rewrite !app_nil_r.
  destruct free; reflexivity.
Qed.

Lemma idents_lam free p b : idents free (Lambda [p] b) = p :: idents free b.
Proof. reflexivity. Qed.

Lemma fresh_closed : node_closed P_fresh.
Proof.
  intros src [[n p] b] Hn Hs Hl. unfold P_fresh in *. unfold e_lam in Hl. cbn [fst snd] in *.
  rewrite idents_node, !forallb_app, Hs. rewrite idents_lam in Hl. rewrite Hl.
  destruct Hn as [->|[->| ->]]; reflexivity.
Qed.

Lemma binders_closed bs : node_closed (P_binders bs).
Proof.
  intros src [[n p] b] _ Hs Hl. unfold P_binders in *. unfold e_lam in Hl. cbn [fst snd] in *.
  rewrite idents_node, !forallb_app, Hs. rewrite idents_lam in Hl. rewrite Hl. reflexivity.
Qed.

Lemma nofirst_closed : node_closed P_nofirst.
Proof.
  intros src [[n p] b] Hn Hs Hl. unfold P_nofirst, e_node, e_lam, function_call in *. cbn [fst snd] in *.
  apply negb_true_iff in Hs, Hl. apply negb_true_iff. cbn [mentions]. rewrite Hs.
  cbn [mentions] in Hl. rewrite Hl. destruct Hn as [->|[->| ->]]; reflexivity.
Qed.

(* ---------- the terminal node ---------- *)

Definition tnode (node : string) (src : expr) (vs : list tval) : expr := function_call node (src :: map as_ast_tval vs).

Lemma strs_fix (T : expr -> option expr) l :
  (forall s, T (Const (CStr s)) = Some (Const (CStr s))) ->
  omap T (map (fun s => Const (CStr s)) l) = Some (map (fun s => Const (CStr s)) l).
Proof. intros H. induction l as [|s l IH]; [reflexivity|]. cbn [map]. rewrite omap_cons, H, IH. reflexivity. Qed.

Lemma tval_remove v : MetaData.remove_empty (as_ast_tval v) = Some (as_ast_tval v).
Proof.
  destruct v as [s|l]; [reflexivity|]. cbn [as_ast_tval MetaData.remove_empty map_children].
  rewrite strs_fix by reflexivity. reflexivity.
Qed.

Lemma tval_agg v : Aggregate.agg (as_ast_tval v) = Some (as_ast_tval v).
Proof.
  destruct v as [s|l]; [reflexivity|]. unfold Aggregate.agg. cbn [as_ast_tval Aggregate.agg_with map_children].
  fold Aggregate.agg. rewrite strs_fix by reflexivity. reflexivity.
Qed.

Lemma tval_ext v : ExtCalls.ext (as_ast_tval v) = as_ast_tval v.
Proof.
  destruct v as [s|l]; [reflexivity|]. unfold ExtCalls.ext. cbn [as_ast_tval ExtCalls.ext_with map_children_t].
  f_equal. induction l as [|s l IH]; [reflexivity|]. cbn [map]. rewrite IH. reflexivity.
Qed.

Lemma tvals_omap (T : expr -> option expr) vs :
  (forall v, T (as_ast_tval v) = Some (as_ast_tval v)) -> omap T (map as_ast_tval vs) = Some (map as_ast_tval vs).
Proof. intros H. induction vs as [|v vs IH]; [reflexivity|]. cbn [map]. rewrite omap_cons, H, IH. reflexivity. Qed.

Lemma tvals_ext vs : map ExtCalls.ext (map as_ast_tval vs) = map as_ast_tval vs.
Proof. induction vs as [|v vs IH]; [reflexivity|]. cbn [map]. rewrite tval_ext, IH. reflexivity. Qed.

Lemma tval_idents free v : idents free (as_ast_tval v) = [].
Proof.
  destruct v as [s|l]; [reflexivity|]. cbn [as_ast_tval idents].
  induction l as [|s l IH]; [reflexivity|]. cbn [map flat_map idents app]. exact IH.
Qed.

Lemma tvals_idents free vs : flat_map (idents free) (map as_ast_tval vs) = [].
Proof. induction vs as [|v vs IH]; [reflexivity|]. cbn [map flat_map]. rewrite tval_idents, IH. reflexivity. Qed.

Lemma tval_wfq v : wfq (as_ast_tval v) = true.
Proof. destruct v as [s|l]; [reflexivity|]. cbn [as_ast_tval wfq]. induction l; [reflexivity | exact IHl]. Qed.

Lemma tvals_wfq vs : forallb wfq (map as_ast_tval vs) = true.
Proof. induction vs as [|v vs IH]; [reflexivity|]. cbn [map forallb]. rewrite tval_wfq, IH. reflexivity. Qed.

Lemma tval_kwfree v : P_kwfree (as_ast_tval v) = true.
Proof.
  destruct v as [s|l]; [reflexivity|]. unfold P_kwfree. rewrite ops_kw_free_unfold. cbn [as_ast_tval ExtCalls.kw_ok_here children andb].
  induction l; [reflexivity | exact IHl].
Qed.

Lemma tvals_kwfree vs : forallb P_kwfree (map as_ast_tval vs) = true.
Proof. induction vs as [|v vs IH]; [reflexivity|]. cbn [map forallb]. rewrite tval_kwfree, IH. reflexivity. Qed.

Lemma tval_mentions y v : mentions y (as_ast_tval v) = false.
Proof.
  destruct v as [s|l]; [reflexivity|]. cbn [as_ast_tval mentions]. rewrite mentions_any_fix.
  induction l; [reflexivity | exact IHl].
Qed.

Lemma tvals_mentions y vs : mentions_any y (map as_ast_tval vs) = false.
Proof. induction vs as [|v vs IH]; [reflexivity|]. cbn [map mentions_any]. rewrite tval_mentions, IH. reflexivity. Qed.

Section Terminal.
  Variable node : string.
  Hypothesis Hnode : In node (terminal_nodes).
  Variable vs : list tval.

  Ltac cases := let H := fresh in pose proof Hnode as H; unfold terminal_nodes in H; cbn in H;
                repeat (destruct H as [<- | H]; [|]); [..|destruct H].

  Lemma remove_tnode src : MetaData.remove_empty src = Some src ->
    MetaData.remove_empty (tnode node src vs) = Some (tnode node src vs).
  Proof.
    intros Hs. unfold tnode, function_call. rewrite remove_unfold. cbn [map_children].
    change (MetaData.remove_empty (Name node)) with (Some (Name node)). cbn [obind].
    rewrite omap_cons, Hs. cbn [obind]. rewrite (tvals_omap _ vs tval_remove). cbn [obind omap map sequence].
    cases; destruct vs as [|? [|? ?]]; reflexivity.
  Qed.

  Lemma ext_tnode src : ExtCalls.ext (tnode node src vs) = tnode node (ExtCalls.ext src) vs.
  Proof.
    unfold tnode, function_call, ExtCalls.ext. cbn [ExtCalls.ext_with map]. fold ExtCalls.ext.
    rewrite tvals_ext. reflexivity.
  Qed.

  Lemma agg_tnode src src' : Aggregate.agg src = Some src' ->
    Aggregate.agg (tnode node src vs) = Some (tnode node src' vs).
  Proof.
    intros Hs. unfold tnode, function_call.
    assert (Hnone : Aggregate.find_rule agg_rules node (length (src :: map as_ast_tval vs)) 0 = None)
      by (cases; reflexivity).
    unfold Aggregate.agg. cbn [Aggregate.agg_with length]. cbn [length] in Hnone. rewrite Hnone.
    fold Aggregate.agg. cbn [map_children].
    change (Aggregate.agg (Name node)) with (Some (Name node)). cbn [obind].
    rewrite omap_cons, Hs. cbn [obind]. rewrite (tvals_omap _ vs tval_agg). reflexivity.
  Qed.

  Lemma kwfree_tnode src : P_kwfree src = true -> P_kwfree (tnode node src vs) = true.
  Proof.
    intros Hs. unfold P_kwfree, tnode, function_call in *. rewrite ops_kw_free_unfold.
    cbn [ExtCalls.kw_ok_here children app forallb]. rewrite Hs, app_nil_r. cbn [andb]. apply tvals_kwfree.
  Qed.

  Lemma wfq_tnode src : wfq src = true -> wfq (tnode node src vs) = true.
  Proof.
    intros Hs. unfold tnode, function_call. cases; cbn; rewrite Hs; cbn [andb]; rewrite andb_true_r; apply tvals_wfq.
  Qed.

  Lemma fresh_tnode src : P_fresh src = true -> P_fresh (tnode node src vs) = true.
  Proof.
    intros Hs. unfold P_fresh, tnode, function_call in *. cbn [idents flat_map app].
    rewrite tvals_idents, !app_nil_r. cbn [forallb]. rewrite Hs. cases; reflexivity.
  Qed.

  Lemma binders_tnode bs src : P_binders bs src = true -> P_binders bs (tnode node src vs) = true.
  Proof.
    intros Hs. unfold P_binders, tnode, function_call in *. cbn [idents flat_map app].
    rewrite tvals_idents, !app_nil_r. exact Hs.
  Qed.

  Lemma nofirst_tnode src : P_nofirst src = true -> P_nofirst (tnode node src vs) = true.
  Proof.
    intros Hs. unfold P_nofirst, tnode, function_call in *. apply negb_true_iff in Hs. apply negb_true_iff.
    cbn [mentions]. rewrite !mentions_any_fix. cbn [mentions_any]. rewrite Hs, tvals_mentions. cases; reflexivity.
  Qed.
End Terminal.

(* ---------- the condition on the chain ---------- *)

Definition lam_ok (bs : list string) (lam : expr) : bool :=
  wfq lam && P_fresh lam && P_binders bs lam && P_nofirst lam.

Definition stage_ok (bs : list string) (s : stage) : bool :=
  let x := stage_entry s in
  match MetaData.remove_empty (e_lam x) with Some l' => expr_eqb l' (e_lam x) | None => false end
  && P_kwfree (e_lam x)
  && match Aggregate.agg (ExtCalls.ext (snd x)) with
     | Some b3 => lam_ok bs (Lambda [snd (fst x)] b3)
     | None => false
     end.

Definition simplifiable_chain (W : world) (bs : list string) (ch : chain) : bool :=
  plain_chain W TAny ch && forallb (stage_ok bs) ch.

Definition agg_ext_entry (x : entry) : entry :=
  match Aggregate.agg (ExtCalls.ext (snd x)) with Some b3 => (fst x, b3) | None => x end.

Lemma root_facts bs :
  MetaData.remove_empty root = Some root /\ ExtCalls.ext root = root /\ Aggregate.agg root = Some root /\
  P_kwfree root = true /\ wfq root = true /\ P_fresh root = true /\ P_binders bs root = true /\ P_nofirst root = true.
Proof. repeat split; reflexivity. Qed.

Theorem simplifiable_facts W bs ch term q :
  ft_plain (w_ft W) -> simplifiable_chain W bs ch = true -> query W TAny ch term = POk q ->
  P_kwfree q = true /\
  exists q1, Aggregate.agg (ExtCalls.ext q) = Some q1 /\
    wfq q1 = true /\ P_fresh q1 = true /\ P_binders bs q1 = true /\ P_nofirst q1 = true.
Proof.
  intros Hft Hc Hq. unfold simplifiable_chain in Hc. apply andb_true_iff in Hc. destruct Hc as [Hp Hst].
  unfold query in Hq. destruct (build W TAny ch) as [[q0 t0]|] eqn:Hb; [|discriminate]. cbn [pbind fst] in Hq.
  destruct (plain_build_spine W Hft ch 0 root TAny q0 t0 eq_refl Hp Hb) as [-> Hops].
  set (l := map stage_entry ch) in *.
  set (l3 := map agg_ext_entry l).
  destruct (root_facts bs) as (Rr & Re & Ra & Rk & Rw & Rf & Rb & Rn).
  (* what the stage conditions say about the entries *)
  assert (Hok : okops l).
  { unfold l. clear -Hops. induction Hops as [|s ch Hs _ IH]; constructor; [|exact IH].
    unfold stage_entry. destruct (st_src s) as [| | | |ps b| | | | | | | | | | | | | |]; cbn [fst]; try (apply op_name_ok; exact Hs).
    destruct ps as [|p [|? ?]]; cbn [fst]; try (apply op_name_ok; exact Hs).
    destruct (Sugar.sugar b); cbn [fst]; apply op_name_ok; exact Hs. }
  assert (Hent : Forall (fun x => MetaData.remove_empty (e_lam x) = Some (e_lam x) /\ P_kwfree (e_lam x) = true /\
                          exists b3, Aggregate.agg (ExtCalls.ext (snd x)) = Some b3 /\ lam_ok bs (Lambda [snd (fst x)] b3) = true) l).
  { unfold l. clear -Hst. induction ch as [|s ch IH]; [constructor|].
    cbn [forallb] in Hst. apply andb_true_iff in Hst. destruct Hst as [Hs Hr]. cbn [map]. constructor; [|apply IH; exact Hr].
    unfold stage_ok in Hs. apply andb_true_iff in Hs. destruct Hs as [Hs H3]. apply andb_true_iff in Hs. destruct Hs as [H1 H2].
    split; [|split; [exact H2|]].
    - destruct (MetaData.remove_empty (e_lam (stage_entry s))) as [l'|]; [|discriminate].
      apply expr_eqb_eq in H1. subst. reflexivity.
    - destruct (Aggregate.agg (ExtCalls.ext (snd (stage_entry s)))) as [b3|]; [|discriminate]. eauto. }
  assert (Hrm : Forall (fun x => MetaData.remove_empty (e_lam x) = Some (e_lam x)) l)
    by (eapply Forall_impl; [|exact Hent]; intros x H; apply H).
  assert (Hkw : Forall (fun x => P_kwfree (e_lam x) = true) l)
    by (eapply Forall_impl; [|exact Hent]; intros x H; apply H).
  assert (Hagg : Forall2 (fun x x' => agg_entry x = Some x') (map ext_entry l) l3).
  { unfold l3. clear -Hent. induction Hent as [|x l (_ & _ & b3 & Hb3 & _) _ IH]; cbn [map]; constructor; [|exact IH].
    unfold agg_entry, ext_entry, agg_ext_entry. cbn [fst snd]. rewrite Hb3. reflexivity. }
  assert (Hok3 : okops l3) by (eapply okops_agg; [apply okops_ext; exact Hok | exact Hagg]).
  assert (Hl3 : Forall (fun x => lam_ok bs (e_lam x) = true) l3).
  { unfold l3. clear -Hent. induction Hent as [|x l (_ & _ & b3 & Hb3 & Hl) _ IH]; cbn [map]; constructor; [|exact IH].
    unfold agg_ext_entry. rewrite Hb3. exact Hl. }
  assert (Hsplit : forall x, lam_ok bs (e_lam x) = true ->
            wfq (e_lam x) = true /\ P_fresh (e_lam x) = true /\ P_binders bs (e_lam x) = true /\ P_nofirst (e_lam x) = true).
  { intros x H. unfold lam_ok in H. repeat (apply andb_true_iff in H; destruct H as [H ?]). auto. }
  assert (S_rm : MetaData.remove_empty (spine root l) = Some (spine root l)) by (apply remove_spine; assumption).
  assert (S_kw : P_kwfree (spine root l) = true) by (apply (spine_pred _ kwfree_closed); assumption).
  assert (S_ext : ExtCalls.ext (spine root l) = spine root (map ext_entry l)) by (rewrite ext_spine, Re by assumption; reflexivity).
  assert (S_agg : Aggregate.agg (spine root (map ext_entry l)) = Some (spine root l3))
    by (apply agg_spine; [apply okops_ext; exact Hok | exact Hagg | exact Ra]).
  assert (S_w : wfq (spine root l3) = true).
  { apply (spine_pred _ wfq_closed); try assumption. eapply Forall_impl; [|exact Hl3]. intros x H; apply (Hsplit x H). }
  assert (S_f : P_fresh (spine root l3) = true).
  { apply (spine_pred _ fresh_closed); try assumption. eapply Forall_impl; [|exact Hl3]. intros x H; apply (Hsplit x H). }
  assert (S_b : P_binders bs (spine root l3) = true).
  { apply (spine_pred _ (binders_closed bs)); try assumption. eapply Forall_impl; [|exact Hl3]. intros x H; apply (Hsplit x H). }
  assert (S_n : P_nofirst (spine root l3) = true).
  { apply (spine_pred _ nofirst_closed); try assumption. eapply Forall_impl; [|exact Hl3]. intros x H; apply (Hsplit x H). }
  destruct term as [t|].
  - destruct (terminal_node t (spine root l)) as [qt|] eqn:Ht; [|discriminate].
    destruct (terminal_node_inv _ _ _ Ht) as (node & vs & -> & Hin).
    change (function_call node (spine root l :: map as_ast_tval vs)) with (tnode node (spine root l) vs) in *.
    rewrite (remove_tnode node Hin vs _ S_rm) in Hq. inversion Hq; subst q. clear Hq.
    split; [apply kwfree_tnode; assumption|].
    exists (tnode node (spine root l3) vs). rewrite (ext_tnode node vs), S_ext.
    split; [apply agg_tnode; assumption|].
    split; [apply wfq_tnode; assumption|]. split; [apply fresh_tnode; assumption|].
    split; [apply binders_tnode; assumption | apply nofirst_tnode; assumption].
  - rewrite S_rm in Hq. inversion Hq; subst q. clear Hq.
    split; [exact S_kw|]. exists (spine root l3). rewrite S_ext. auto.
Qed.

Lemma binders_nofun (B : backend) bs e :
  Forall (nofun B) bs -> P_binders bs e = true -> Forall (nofun B) (idents false e).
Proof.
  intros Hb H. unfold P_binders in H. rewrite forallb_forall in H. apply Forall_forall. intros y Hy.
  specialize (H y Hy). unfold mem_str in H. apply existsb_exists in H. destruct H as (z & Hz & He).
  apply String.eqb_eq in He. subst z. rewrite Forall_forall in Hb. apply Hb. exact Hz.
Qed.

Theorem end_to_end_plain_x (B : backend) (W : world) (fuel : nat) (bs : list string) :
  backend_ok B -> md_identity B -> terminals_ok B -> ft_plain (w_ft W) -> Forall (nofun B) bs ->
  forall ch term q q' data r,
    dataset B data ->
    simplifiable_chain W bs ch = true ->
    query W TAny ch term = POk q ->
    backend_passes fuel q = Some q' ->
    direct B ext_default_ops ch data = Some r ->
    eval B ext_default_ops [] q' = Some (VList r).
Proof.
  intros HB Hmd Ht Hft Hbs ch term q q' data r Hds Hc Hq Hp Hd.
  destruct (simplifiable_facts W bs ch term q Hft Hc Hq) as (Hk & q1 & Ha & Hw & Hf & Hb & Hn).
  pose proof Hc as Hc'. unfold simplifiable_chain in Hc'. apply andb_true_iff in Hc'. destruct Hc' as [Hpl _].
  eapply (end_to_end_no_first_x B W fuel HB Hmd Ht Hft ch term q q1 q' data r); try eassumption.
  apply admissible_decided; [|eapply binders_nofun; eassumption].
  unfold admissible_b. unfold P_fresh in Hf. unfold P_nofirst in Hn. rewrite Hw, Hf, Hn. reflexivity.
Qed.

(* C13: printer/lexer round trips at the token level (string and bytes literals, numbers, words). *)
From Coq Require Import Ascii String List ZArith Bool Lia Decimal DecimalN DecimalFacts.
From FA.Base Require Import PyAst Value.
From FA.Model Require Import Literal.
Import ListNotations.

(* ------------------------------------------------------------------ string / bytes literals *)

Lemma is_quote_cases q : is_quote q = true -> q = c_sq \/ q = c_dq.
Proof.
  unfold is_quote, ceq. rewrite orb_true_iff, !Ascii.eqb_eq. tauto.
Qed.

(* one payload byte: whatever repr writes for it is read back as exactly that byte (all 256 byte
   values, both literal kinds, both quote styles) *)
Lemma lex_char m q c rest :
  is_quote q = true ->
  lex_str m q (repr_char m q c ++ rest) = push [c] (lex_str m q rest).
Proof.
  intros Hq. destruct (is_quote_cases q Hq) as [-> | ->];
    destruct m; destruct c as [[|] [|] [|] [|] [|] [|] [|] [|]]; reflexivity.
Qed.

Lemma lex_body m q s rest :
  is_quote q = true ->
  lex_str m q (repr_body m q s ++ q :: rest) = Some (s, rest).
Proof.
  intros Hq. induction s as [| c s IH]; cbn [repr_body app].
  - cbn [lex_str]. unfold ceq. rewrite Ascii.eqb_refl. reflexivity.
  - rewrite <- app_assoc, lex_char by assumption. rewrite IH. reflexivity.
Qed.

Lemma choose_quote_is_quote s : is_quote (choose_quote s) = true.
Proof. unfold choose_quote. destruct (_ && _); reflexivity. Qed.

(* lex_string (repr_str s ++ rest) = Some (s, rest) *)
Theorem lex_strlit m s rest :
  exists q t1, repr_strlit m s ++ rest = q :: t1 /\ is_quote q = true /\ lex_str m q t1 = Some (s, rest).
Proof.
  unfold repr_strlit. exists (choose_quote s), (repr_body m (choose_quote s) s ++ choose_quote s :: rest).
  split; [| split].
  - cbn [app]. rewrite <- app_assoc. reflexivity.
  - apply choose_quote_is_quote.
  - apply lex_body, choose_quote_is_quote.
Qed.

(* ------------------------------------------------------------------ what may follow a value *)

(* inside the text of a value, a sub-value is followed by one of  , ] ) } :  or by the end *)
Definition follow (rest : text) : Prop :=
  match rest with
  | [] => True
  | c :: _ => In c [","%char; "]"%char; ")"%char; "}"%char; ":"%char]
  end.

Ltac follow_cases H :=
  cbn [follow In] in H;
  repeat (destruct H as [H | H]; [subst | ]); try contradiction.

Lemma follow_not_ident rest : follow rest -> starts_ident rest = false.
Proof. destruct rest as [| c r]; intros H; [reflexivity |]. follow_cases H; reflexivity. Qed.

Lemma follow_not_quote rest : follow rest -> starts_quote rest = false.
Proof. destruct rest as [| c r]; intros H; [reflexivity |]. follow_cases H; reflexivity. Qed.

Lemma take_num_follow b rest : follow rest -> take_num b rest = ([], rest).
Proof. destruct rest as [| c r]; intros H; [reflexivity |]. follow_cases H; destruct b; reflexivity. Qed.

Lemma take_ident_follow rest : follow rest -> take_ident rest = ([], rest).
Proof. destruct rest as [| c r]; intros H; [reflexivity |]. follow_cases H; reflexivity. Qed.

(* ------------------------------------------------------------------ integers *)

Lemma uint_of_text_text d : uint_of_text (uint_text d) = Some d.
Proof. induction d; cbn [uint_text uint_of_text]; try reflexivity; rewrite IHd; reflexivity. Qed.

Lemma uint_text_digits d : forallb is_digit (uint_text d) = true.
Proof. induction d; cbn [uint_text forallb]; try reflexivity; rewrite IHd; reflexivity. Qed.

Lemma take_num_uint b d rest : follow rest -> take_num b (uint_text d ++ rest) = (uint_text d, rest).
Proof.
  intros Hf. revert b. induction d; intros b; cbn [uint_text app];
    try (apply take_num_follow; assumption);
    cbn [take_num]; cbn; rewrite IHd; reflexivity.
Qed.

Lemma to_uint_norm n : unorm (N.to_uint n) = N.to_uint n.
Proof. rewrite <- Unsigned.to_of, Unsigned.of_to. reflexivity. Qed.

Lemma uint_beq_refl d : uint_beq d d = true.
Proof. apply internal_uint_dec_lb. reflexivity. Qed.

Lemma pnum_nat n rest :
  follow rest -> pnum (repr_nat n ++ rest) = Some (Const (CInt (Z.of_N n)), rest).
Proof.
  intros Hf. unfold pnum, repr_nat.
  rewrite take_num_uint by assumption.
  rewrite follow_not_ident by assumption.
  rewrite uint_text_digits, uint_of_text_text, to_uint_norm, uint_beq_refl.
  cbn [orb]. rewrite Unsigned.of_to. reflexivity.
Qed.

Lemma repr_nat_head n : exists c r, repr_nat n = c :: r /\ is_digit c = true.
Proof.
  unfold repr_nat. pose proof (to_uint_norm n) as Hn.
  destruct (N.to_uint n) eqn:E; cbn [uint_text]; try (eexists; eexists; split; [reflexivity | reflexivity]).
  exfalso. cbn in Hn. discriminate Hn.
Qed.

(* ------------------------------------------------------------------ float tokens *)

Lemma take_num_all b t a : take_num b t = (a, []) -> a = t.
Proof.
  revert b a. induction t as [| c t IH]; intros b a; cbn [take_num].
  - intros H; inversion H; reflexivity.
  - destruct (is_digit c || ceq c "."%char).
    { destruct (take_num false t) as [a' r'] eqn:E. intros H; inversion H; subst. f_equal. eapply IH; eassumption. }
    destruct (ceq c "e"%char || ceq c "E"%char).
    { destruct (take_num true t) as [a' r'] eqn:E. intros H; inversion H; subst. f_equal. eapply IH; eassumption. }
    destruct (b && (ceq c "+"%char || ceq c "-"%char)).
    { destruct (take_num false t) as [a' r'] eqn:E. intros H; inversion H; subst. f_equal. eapply IH; eassumption. }
    intros H; inversion H.
Qed.

Lemma take_num_app b t a rest :
  take_num b t = (a, []) -> follow rest -> take_num b (t ++ rest) = (t, rest).
Proof.
  intros H Hf. revert b a H. induction t as [| c t IH]; intros b a; cbn [take_num app].
  - intros _. apply take_num_follow; assumption.
  - destruct (is_digit c || ceq c "."%char).
    { destruct (take_num false t) as [a' r'] eqn:E. intros H; inversion H; subst. erewrite IH by eassumption. reflexivity. }
    destruct (ceq c "e"%char || ceq c "E"%char).
    { destruct (take_num true t) as [a' r'] eqn:E. intros H; inversion H; subst. erewrite IH by eassumption. reflexivity. }
    destruct (b && (ceq c "+"%char || ceq c "-"%char)).
    { destruct (take_num false t) as [a' r'] eqn:E. intros H; inversion H; subst. erewrite IH by eassumption. reflexivity. }
    intros H; inversion H.
Qed.

Lemma span_digits_spec t : forall ip r, span_digits t = (ip, r) ->
  t = ip ++ r /\ match r with [] => True | c :: _ => is_digit c = false end.
Proof.
  induction t as [| c t IH]; intros ip r; cbn [span_digits].
  - intros H; inversion H; split; [reflexivity | exact I].
  - destruct (is_digit c) eqn:Ec.
    + destruct (span_digits t) as [a' r'] eqn:E. intros H; inversion H; subst.
      destruct (IH _ _ eq_refl) as [-> Hr]. split; [reflexivity | assumption].
    + intros H; inversion H; subst. split; [reflexivity | assumption].
Qed.

Lemma valid_float_not_int t : valid_float t = true -> forallb is_digit t = false.
Proof.
  unfold valid_float. destruct (span_digits t) as [ip r1] eqn:E.
  destruct (span_digits_spec _ _ _ E) as [-> Hr].
  destruct r1 as [| c r2].
  - rewrite andb_false_r. discriminate.
  - intros _. rewrite forallb_app. cbn [forallb]. rewrite Hr. cbn [andb]. apply andb_false_r.
Qed.

Lemma pnum_float t rest :
  (let (_, r) := take_num false t in match r with [] => true | _ :: _ => false end) = true ->
  valid_float t = true -> follow rest ->
  pnum (t ++ rest) = Some (Const (CFloat (string_of_list_ascii t)), rest).
Proof.
  intros Ht Hv Hf. unfold pnum.
  destruct (take_num false t) as [a r] eqn:E. destruct r; [| discriminate].
  erewrite take_num_app by eassumption.
  rewrite follow_not_ident by assumption.
  rewrite valid_float_not_int by assumption. rewrite Hv. reflexivity.
Qed.

(* ------------------------------------------------------------------ dispatch on the first character *)

Lemma digit_dispatch c :
  is_digit c = true ->
  is_ws c = false /\ is_quote c = false /\ ceq c "b"%char = false /\ ceq c "-"%char = false.
Proof.
  destruct c as [[|] [|] [|] [|] [|] [|] [|] [|]]; cbn; intros H; try discriminate H; repeat split.
Qed.

Lemma pval_step_digit pv pi pd c t1 :
  is_digit c = true -> pval_step pv pi pd (c :: t1) = pnum (c :: t1).
Proof.
  intros H. destruct (digit_dispatch c H) as (Hw & Hq & Hb & Hm).
  unfold pval_step. cbn [skip_ws]. rewrite Hw, Hq, Hb, Hm, H. reflexivity.
Qed.

Lemma pval_step_word pv pi pd rest :
  follow rest ->
  pval_step pv pi pd (t_true ++ rest) = Some (Const (CBool true), rest) /\
  pval_step pv pi pd (t_false ++ rest) = Some (Const (CBool false), rest) /\
  pval_step pv pi pd (t_none ++ rest) = Some (Const CNone, rest).
Proof.
  intros Hf. unfold pval_step, pword; cbn; rewrite !take_ident_follow by assumption. repeat split.
Qed.

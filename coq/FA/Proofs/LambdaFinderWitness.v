(* Concrete token streams (as CPython 3.12 tokenize yields them; produced by the harness codec from
   the source texts quoted below) used as witnesses and non-vacuity examples of the C03 theorems. *)
From Coq Require Import List String ZArith Bool Arith.
From FA.Model Require Import LambdaFinder LambdaFinderSpec.
Import ListNotations.
Open Scope string_scope.
Open Scope list_scope.

Definition T := mkTok.

(* a stand-in for CPython's parse of a simple lambda extent: the NAMEs between `lambda` and `:` *)
Fixpoint param_names (ts : list tok) : list string :=
  match ts with
  | [] => []
  | t :: r => if is_op ":" t then [] else if is_kind KName t then ttext t :: param_names r else param_names r
  end.
Definition P_names : parse_fn := fun ext => PArgs (param_names (tl ext)).

(* F15:   ds.Select(lambda j: j.jets.Select(
              lambda j: j.pt)).Select(lambda j: j + 1)
   w15_s0 = tokens from row 2, w15_s1 = tokens from row 1; `lambda` tokens of w15_s1: 4, 14, 25 *)
(* F15b:  def get(d): return d.Select(lambda e: e.pt)          `lambda` token: 11 *)
(* black: r = (
              ds.Select(lambda e: e.a)
              .Where(lambda e: e.a > 1)  # lambda e: (
              .Select(lambda e: e.a + 1)
          )                                 black_s0 = tokens from row 3; `lambda` tokens: 4, 18 *)
(* wrap:  r = ds.Select(lambda e: e.y).Select(
              lambda e: e.x
          )                                 wrap_s0 from row 2, wrap_s1 from row 1; `lambda` tokens of wrap_s1: 6, 17 *)
(* amb:   r = ds.Select(lambda e: e.a).Where(lambda e: e.c > 0).Select(lambda e: e.b)   `lambda` tokens: 6, 16, 28 *)
Definition w15_s0 : list tok :=
  [T 2 KOther "    ";
   T 2 KName "lambda";
   T 2 KName "j";
   T 2 KOp ":";
   T 2 KName "j";
   T 2 KOp ".";
   T 2 KName "pt";
   T 2 KOp ")";
   T 2 KOp ")";
   T 2 KOp ".";
   T 2 KName "Select";
   T 2 KOp "(";
   T 2 KName "lambda";
   T 2 KName "j";
   T 2 KOp ":";
   T 2 KName "j";
   T 2 KOp "+";
   T 2 KOther "1";
   T 2 KOp ")";
   T 2 KNewline nl_text;
   T 3 KOther "";
   T 3 KOther ""].

Definition w15_s1 : list tok :=
  [T 1 KName "ds";
   T 1 KOp ".";
   T 1 KName "Select";
   T 1 KOp "(";
   T 1 KName "lambda";
   T 1 KName "j";
   T 1 KOp ":";
   T 1 KName "j";
   T 1 KOp ".";
   T 1 KName "jets";
   T 1 KOp ".";
   T 1 KName "Select";
   T 1 KOp "(";
   T 1 KNl nl_text;
   T 2 KName "lambda";
   T 2 KName "j";
   T 2 KOp ":";
   T 2 KName "j";
   T 2 KOp ".";
   T 2 KName "pt";
   T 2 KOp ")";
   T 2 KOp ")";
   T 2 KOp ".";
   T 2 KName "Select";
   T 2 KOp "(";
   T 2 KName "lambda";
   T 2 KName "j";
   T 2 KOp ":";
   T 2 KName "j";
   T 2 KOp "+";
   T 2 KOther "1";
   T 2 KOp ")";
   T 2 KNewline nl_text;
   T 3 KOther ""].

Definition w15b_s0 : list tok :=
  [T 1 KName "def";
   T 1 KName "get";
   T 1 KOp "(";
   T 1 KName "d";
   T 1 KOp ")";
   T 1 KOp ":";
   T 1 KName "return";
   T 1 KName "d";
   T 1 KOp ".";
   T 1 KName "Select";
   T 1 KOp "(";
   T 1 KName "lambda";
   T 1 KName "e";
   T 1 KOp ":";
   T 1 KName "e";
   T 1 KOp ".";
   T 1 KName "pt";
   T 1 KOp ")";
   T 1 KNewline nl_text;
   T 2 KOther ""].

Definition black_s0 : list tok :=
  [T 3 KOther "    ";
   T 3 KOp ".";
   T 3 KName "Where";
   T 3 KOp "(";
   T 3 KName "lambda";
   T 3 KName "e";
   T 3 KOp ":";
   T 3 KName "e";
   T 3 KOp ".";
   T 3 KName "a";
   T 3 KOp ">";
   T 3 KOther "1";
   T 3 KOp ")";
   T 3 KComment "# lambda e: (";
   T 3 KNewline nl_text;
   T 4 KOp ".";
   T 4 KName "Select";
   T 4 KOp "(";
   T 4 KName "lambda";
   T 4 KName "e";
   T 4 KOp ":";
   T 4 KName "e";
   T 4 KOp ".";
   T 4 KName "a";
   T 4 KOp "+";
   T 4 KOther "1";
   T 4 KOp ")";
   T 4 KNewline nl_text;
   T 5 KOther "";
   T 5 KOp ")";
   T 5 KNewline nl_text;
   T 6 KOther ""].

Definition wrap_s0 : list tok :=
  [T 2 KOther "    ";
   T 2 KName "lambda";
   T 2 KName "e";
   T 2 KOp ":";
   T 2 KName "e";
   T 2 KOp ".";
   T 2 KName "x";
   T 2 KNewline nl_text;
   T 3 KOther "";
   T 3 KOp ")";
   T 3 KNewline nl_text;
   T 4 KOther ""].

Definition wrap_s1 : list tok :=
  [T 1 KName "r";
   T 1 KOp "=";
   T 1 KName "ds";
   T 1 KOp ".";
   T 1 KName "Select";
   T 1 KOp "(";
   T 1 KName "lambda";
   T 1 KName "e";
   T 1 KOp ":";
   T 1 KName "e";
   T 1 KOp ".";
   T 1 KName "y";
   T 1 KOp ")";
   T 1 KOp ".";
   T 1 KName "Select";
   T 1 KOp "(";
   T 1 KNl nl_text;
   T 2 KName "lambda";
   T 2 KName "e";
   T 2 KOp ":";
   T 2 KName "e";
   T 2 KOp ".";
   T 2 KName "x";
   T 2 KNl nl_text;
   T 3 KOp ")";
   T 3 KNewline nl_text;
   T 4 KOther ""].

Definition amb_s0 : list tok :=
  [T 1 KName "r";
   T 1 KOp "=";
   T 1 KName "ds";
   T 1 KOp ".";
   T 1 KName "Select";
   T 1 KOp "(";
   T 1 KName "lambda";
   T 1 KName "e";
   T 1 KOp ":";
   T 1 KName "e";
   T 1 KOp ".";
   T 1 KName "a";
   T 1 KOp ")";
   T 1 KOp ".";
   T 1 KName "Where";
   T 1 KOp "(";
   T 1 KName "lambda";
   T 1 KName "e";
   T 1 KOp ":";
   T 1 KName "e";
   T 1 KOp ".";
   T 1 KName "c";
   T 1 KOp ">";
   T 1 KOther "0";
   T 1 KOp ")";
   T 1 KOp ".";
   T 1 KName "Select";
   T 1 KOp "(";
   T 1 KName "lambda";
   T 1 KName "e";
   T 1 KOp ":";
   T 1 KName "e";
   T 1 KOp ".";
   T 1 KName "b";
   T 1 KOp ")";
   T 1 KNewline nl_text;
   T 2 KOther ""].



(* ---- segment decompositions of three of the streams (produced by the same codec) ---- *)
Definition amb_g1 : segment :=
  mkSeg [T 1 KName "r"; T 1 KOp "="; T 1 KName "ds"; T 1 KOp "."] "Select" 1 [T 1 KOp "("]
        1 [T 1 KName "e"; T 1 KOp ":"; T 1 KName "e"; T 1 KOp "."; T 1 KName "a"] (T 1 KOp ")").
Definition amb_g2 : segment :=
  mkSeg [T 1 KOp "."] "Where" 1 [T 1 KOp "("]
        1 [T 1 KName "e"; T 1 KOp ":"; T 1 KName "e"; T 1 KOp "."; T 1 KName "c"; T 1 KOp ">"; T 1 KOther "0"] (T 1 KOp ")").
Definition amb_g3 : segment :=
  mkSeg [T 1 KOp "."] "Select" 1 [T 1 KOp "("]
        1 [T 1 KName "e"; T 1 KOp ":"; T 1 KName "e"; T 1 KOp "."; T 1 KName "b"] (T 1 KOp ")").
Definition amb_tail : list tok := [T 1 KNewline nl_text; T 2 KOther ""].

Definition black_g1 : segment :=
  mkSeg [T 3 KOther "    "; T 3 KOp "."] "Where" 3 [T 3 KOp "("]
        3 [T 3 KName "e"; T 3 KOp ":"; T 3 KName "e"; T 3 KOp "."; T 3 KName "a"; T 3 KOp ">"; T 3 KOther "1"] (T 3 KOp ")").
Definition black_tail : list tok := [T 3 KComment "# lambda e: ("; T 3 KNewline nl_text; T 4 KOp "."; T 4 KName "Select"; T 4 KOp "("; T 4 KName "lambda"; T 4 KName "e"; T 4 KOp ":"; T 4 KName "e"; T 4 KOp "."; T 4 KName "a"; T 4 KOp "+"; T 4 KOther "1"; T 4 KOp ")"; T 4 KNewline nl_text; T 5 KOther ""; T 5 KOp ")"; T 5 KNewline nl_text; T 6 KOther ""].

Definition wrap_g1 : segment :=
  mkSeg [T 1 KName "r"; T 1 KOp "="; T 1 KName "ds"; T 1 KOp "."] "Select" 1 [T 1 KOp "("]
        1 [T 1 KName "e"; T 1 KOp ":"; T 1 KName "e"; T 1 KOp "."; T 1 KName "y"] (T 1 KOp ")").
Definition wrap_g2 : segment :=
  mkSeg [T 1 KOp "."] "Select" 1 [T 1 KOp "("; T 1 KNl nl_text]
        2 [T 2 KName "e"; T 2 KOp ":"; T 2 KName "e"; T 2 KOp "."; T 2 KName "x"; T 2 KNl nl_text] (T 3 KOp ")").
Definition wrap_tail : list tok := [T 3 KNewline nl_text; T 4 KOther ""].


Lemma amb_is_layout : layout_toks [amb_g1; amb_g2; amb_g3] amb_tail = amb_s0.
Proof. vm_compute. reflexivity. Qed.
Lemma black_is_layout : layout_toks [black_g1] black_tail = black_s0.
Proof. vm_compute. reflexivity. Qed.
Lemma wrap_is_layout : layout_toks [wrap_g1; wrap_g2] wrap_tail = wrap_s1.
Proof. vm_compute. reflexivity. Qed.

(* ---- further layouts (second batch): the chain continuing on the last row of a multi-line argument,
   read from that row (tailrow) or reached by backing up onto it (cont); a backslash continuation
   (bslash); a lambda that is not the first argument (nonfirst); a decorated one-line def (decodef)
     tailrow:  r = ds.Select(lambda e: (e.a,
                                        e.b)).Select(lambda e: e.c)            stream from row 2
     cont:     r = ds.Select(lambda e: (e.a,
                   e.b)).Select(
                   lambda e: e.c)                                   streams from row 3 and row 2
     bslash:   r = ds.Select(lambda e: e.a) \
                   .Select(lambda e: e.b)                                      stream from row 1
     nonfirst: r = ds.Select(x, lambda e: e.a)
     decodef:  @ident
               def g(e): return e.a                                          stream from row 1 ---- *)
Definition tailrow_s0 : list tok :=
  [T 2 KOther "                         ";
   T 2 KName "e";
   T 2 KOp ".";
   T 2 KName "b";
   T 2 KOp ")";
   T 2 KOp ")";
   T 2 KOp ".";
   T 2 KName "Select";
   T 2 KOp "(";
   T 2 KName "lambda";
   T 2 KName "e";
   T 2 KOp ":";
   T 2 KName "e";
   T 2 KOp ".";
   T 2 KName "c";
   T 2 KOp ")";
   T 2 KNewline nl_text;
   T 3 KOther "";
   T 3 KOther ""].

(* tailrow_s0: lambda/def tokens at [(9, 'lambda')] *)
Definition tailrow_g1 : segment :=
  mkSeg [T 2 KOther "                         "; T 2 KName "e"; T 2 KOp "."; T 2 KName "b"; T 2 KOp ")"; T 2 KOp ")"; T 2 KOp "."] "Select" 2 [T 2 KOp "("]
        2 [T 2 KName "e"; T 2 KOp ":"; T 2 KName "e"; T 2 KOp "."; T 2 KName "c"] (T 2 KOp ")").
Definition tailrow_tail : list tok := [T 2 KNewline nl_text; T 3 KOther ""; T 3 KOther ""].

Definition cont_s0 : list tok :=
  [T 3 KOther "    ";
   T 3 KName "lambda";
   T 3 KName "e";
   T 3 KOp ":";
   T 3 KName "e";
   T 3 KOp ".";
   T 3 KName "c";
   T 3 KOp ")";
   T 3 KNewline nl_text;
   T 4 KOther "";
   T 4 KOther ""].

(* cont_s0: lambda/def tokens at [(1, 'lambda')] *)
Definition cont_s1 : list tok :=
  [T 2 KOther "    ";
   T 2 KName "e";
   T 2 KOp ".";
   T 2 KName "b";
   T 2 KOp ")";
   T 2 KOp ")";
   T 2 KOp ".";
   T 2 KName "Select";
   T 2 KOp "(";
   T 2 KNl nl_text;
   T 3 KName "lambda";
   T 3 KName "e";
   T 3 KOp ":";
   T 3 KName "e";
   T 3 KOp ".";
   T 3 KName "c";
   T 3 KOp ")";
   T 3 KNewline nl_text;
   T 4 KOther "";
   T 4 KOther ""].

(* cont_s1: lambda/def tokens at [(10, 'lambda')] *)
Definition cont_g1 : segment :=
  mkSeg [T 2 KOther "    "; T 2 KName "e"; T 2 KOp "."; T 2 KName "b"; T 2 KOp ")"; T 2 KOp ")"; T 2 KOp "."] "Select" 2 [T 2 KOp "("; T 2 KNl nl_text]
        3 [T 3 KName "e"; T 3 KOp ":"; T 3 KName "e"; T 3 KOp "."; T 3 KName "c"] (T 3 KOp ")").
Definition cont_tail : list tok := [T 3 KNewline nl_text; T 4 KOther ""; T 4 KOther ""].

Definition bslash_s0 : list tok :=
  [T 1 KName "r";
   T 1 KOp "=";
   T 1 KName "ds";
   T 1 KOp ".";
   T 1 KName "Select";
   T 1 KOp "(";
   T 1 KName "lambda";
   T 1 KName "e";
   T 1 KOp ":";
   T 1 KName "e";
   T 1 KOp ".";
   T 1 KName "a";
   T 1 KOp ")";
   T 2 KOp ".";
   T 2 KName "Select";
   T 2 KOp "(";
   T 2 KName "lambda";
   T 2 KName "e";
   T 2 KOp ":";
   T 2 KName "e";
   T 2 KOp ".";
   T 2 KName "b";
   T 2 KOp ")";
   T 2 KNewline nl_text;
   T 3 KOther ""].

(* bslash_s0: lambda/def tokens at [(6, 'lambda'), (16, 'lambda')] *)
Definition bslash_g1 : segment :=
  mkSeg [T 1 KName "r"; T 1 KOp "="; T 1 KName "ds"; T 1 KOp "."] "Select" 1 [T 1 KOp "("]
        1 [T 1 KName "e"; T 1 KOp ":"; T 1 KName "e"; T 1 KOp "."; T 1 KName "a"] (T 1 KOp ")").
Definition bslash_g2 : segment :=
  mkSeg [T 2 KOp "."] "Select" 2 [T 2 KOp "("]
        2 [T 2 KName "e"; T 2 KOp ":"; T 2 KName "e"; T 2 KOp "."; T 2 KName "b"] (T 2 KOp ")").
Definition bslash_tail : list tok := [T 2 KNewline nl_text; T 3 KOther ""].

Definition nonfirst_s0 : list tok :=
  [T 1 KName "r";
   T 1 KOp "=";
   T 1 KName "ds";
   T 1 KOp ".";
   T 1 KName "Select";
   T 1 KOp "(";
   T 1 KName "x";
   T 1 KOp ",";
   T 1 KName "lambda";
   T 1 KName "e";
   T 1 KOp ":";
   T 1 KName "e";
   T 1 KOp ".";
   T 1 KName "a";
   T 1 KOp ")";
   T 1 KNewline nl_text;
   T 2 KOther ""].

(* nonfirst_s0: lambda/def tokens at [(8, 'lambda')] *)
Definition nonfirst_g1 : segment :=
  mkSeg [T 1 KName "r"; T 1 KOp "="; T 1 KName "ds"; T 1 KOp "."; T 1 KName "Select"; T 1 KOp "("] "x" 1 [T 1 KOp ","]
        1 [T 1 KName "e"; T 1 KOp ":"; T 1 KName "e"; T 1 KOp "."; T 1 KName "a"] (T 1 KOp ")").
Definition nonfirst_tail : list tok := [T 1 KNewline nl_text; T 2 KOther ""].

Definition decodef_s0 : list tok :=
  [T 1 KOp "@";
   T 1 KName "ident";
   T 1 KNewline nl_text;
   T 2 KName "def";
   T 2 KName "g";
   T 2 KOp "(";
   T 2 KName "e";
   T 2 KOp ")";
   T 2 KOp ":";
   T 2 KName "return";
   T 2 KName "e";
   T 2 KOp ".";
   T 2 KName "a";
   T 2 KNewline nl_text;
   T 3 KName "r";
   T 3 KOp "=";
   T 3 KName "ds";
   T 3 KOp ".";
   T 3 KName "Select";
   T 3 KOp "(";
   T 3 KName "g";
   T 3 KOp ")";
   T 3 KNewline nl_text;
   T 4 KOther ""].

(* decodef_s0: lambda/def tokens at [(3, 'def')] *)

(* ---- a lambda passed by keyword (finding F28, repaired by d451731)
     kwone:  r = ds.Select(f=lambda e: e.b)                                       `lambda` token: 8
     kwtwo:  r = ds.Select(lambda e: e.a).Select(f=lambda e: e.b)                 `lambda` tokens: 6, 18
     kwown:  r = ds.Select(
                 f=lambda e: e.b)                 kwown_s0 from row 2, kwown_s1 from row 1; `lambda` token of kwown_s1: 9 ---- *)
Definition kwone_s0 : list tok :=
  [T 1 KName "r";
   T 1 KOp "=";
   T 1 KName "ds";
   T 1 KOp ".";
   T 1 KName "Select";
   T 1 KOp "(";
   T 1 KName "f";
   T 1 KOp "=";
   T 1 KName "lambda";
   T 1 KName "e";
   T 1 KOp ":";
   T 1 KName "e";
   T 1 KOp ".";
   T 1 KName "b";
   T 1 KOp ")";
   T 1 KNewline nl_text;
   T 2 KOther ""].

Definition kwtwo_s0 : list tok :=
  [T 1 KName "r";
   T 1 KOp "=";
   T 1 KName "ds";
   T 1 KOp ".";
   T 1 KName "Select";
   T 1 KOp "(";
   T 1 KName "lambda";
   T 1 KName "e";
   T 1 KOp ":";
   T 1 KName "e";
   T 1 KOp ".";
   T 1 KName "a";
   T 1 KOp ")";
   T 1 KOp ".";
   T 1 KName "Select";
   T 1 KOp "(";
   T 1 KName "f";
   T 1 KOp "=";
   T 1 KName "lambda";
   T 1 KName "e";
   T 1 KOp ":";
   T 1 KName "e";
   T 1 KOp ".";
   T 1 KName "b";
   T 1 KOp ")";
   T 1 KNewline nl_text;
   T 2 KOther ""].

Definition kwown_s0 : list tok :=
  [T 2 KOther "    ";
   T 2 KName "f";
   T 2 KOp "=";
   T 2 KName "lambda";
   T 2 KName "e";
   T 2 KOp ":";
   T 2 KName "e";
   T 2 KOp ".";
   T 2 KName "b";
   T 2 KOp ")";
   T 2 KNewline nl_text;
   T 3 KOther "";
   T 3 KOther ""].

Definition kwown_s1 : list tok :=
  [T 1 KName "r";
   T 1 KOp "=";
   T 1 KName "ds";
   T 1 KOp ".";
   T 1 KName "Select";
   T 1 KOp "(";
   T 1 KNl nl_text;
   T 2 KName "f";
   T 2 KOp "=";
   T 2 KName "lambda";
   T 2 KName "e";
   T 2 KOp ":";
   T 2 KName "e";
   T 2 KOp ".";
   T 2 KName "b";
   T 2 KOp ")";
   T 2 KNewline nl_text;
   T 3 KOther ""].

(* segment decompositions: the keyword and its `=` belong to the gap, the segment's name is the method *)
Definition kw_body_b : list tok := [T 1 KName "e"; T 1 KOp ":"; T 1 KName "e"; T 1 KOp "."; T 1 KName "b"].
Definition kwone_g1 : segment :=
  mkSeg [T 1 KName "r"; T 1 KOp "="; T 1 KName "ds"; T 1 KOp "."] "Select" 1 [T 1 KOp "("; T 1 KName "f"; T 1 KOp "="]
        1 kw_body_b (T 1 KOp ")").
Definition kwone_tail : list tok := [T 1 KNewline nl_text; T 2 KOther ""].
Definition kwtwo_g1 : segment :=
  mkSeg [T 1 KName "r"; T 1 KOp "="; T 1 KName "ds"; T 1 KOp "."] "Select" 1 [T 1 KOp "("]
        1 [T 1 KName "e"; T 1 KOp ":"; T 1 KName "e"; T 1 KOp "."; T 1 KName "a"] (T 1 KOp ")").
Definition kwtwo_g2 : segment :=
  mkSeg [T 1 KOp "."] "Select" 1 [T 1 KOp "("; T 1 KName "f"; T 1 KOp "="] 1 kw_body_b (T 1 KOp ")").
Definition kwown_g1 : segment :=
  mkSeg [T 1 KName "r"; T 1 KOp "="; T 1 KName "ds"; T 1 KOp "."] "Select" 1
        [T 1 KOp "("; T 1 KNl nl_text; T 2 KName "f"; T 2 KOp "="]
        2 [T 2 KName "e"; T 2 KOp ":"; T 2 KName "e"; T 2 KOp "."; T 2 KName "b"] (T 2 KOp ")").
Definition kwown_tail : list tok := [T 2 KNewline nl_text; T 3 KOther ""].

(* ---- the refutations of the pinned selection ---- *)
Lemma pinned_refuted :
  exists P streams L dsrc caller args s k toks k0,
    find_pinned P streams L true dsrc (Some caller) args = Found s k /\
    nth_error streams s = Some toks /\ rows_okb toks = true /\
    lambda_atb P toks k0 L caller args = true /\ not_nestedb toks k0 = true /\ k <> k0.
Proof.
  exists P_names, [w15_s0; w15_s1], 2, (DSBody []), "Select", ["j"], 1, 4, w15_s1, 25.
  vm_compute. repeat split. discriminate.
Qed.

Lemma norow_refuted :
  exists P streams L dsrc caller args s k toks k0,
    find_norow P streams L true dsrc (Some caller) args = Found s k /\
    nth_error streams s = Some toks /\ rows_okb toks = true /\
    lambda_atb P toks k0 L caller args = true /\ not_nestedb toks k0 = true /\ k <> k0.
Proof.
  exists P_names, [w15_s0; w15_s1], 2, (DSBody []), "Select", ["j"], 1, 4, w15_s1, 25.
  vm_compute. repeat split. discriminate.
Qed.

Lemma defkw_refuted :
  exists P streams L dsrc caller args, find_pinned P streams L true dsrc caller args = FoundDef.
Proof.
  exists P_names, [w15b_s0], 1, (DSBody [SReturn]), (Some "Select"), ["e"]. vm_compute. reflexivity.
Qed.

(* finding F28: before d451731 the lambda passed by keyword was filed under the keyword's name; for the
   second call of  ds.Select(lambda e: e.a).Select(f=lambda e: e.b)  (token 18) the first call's lambda
   (token 6) - the only one filed under Select - was returned.  Same with the pinned selection. *)
Lemma kwname_refuted :
  exists P streams L dsrc caller args s k toks k0,
    find_kwname P streams L true dsrc (Some caller) args = Found s k /\
    find_pinned P streams L true dsrc (Some caller) args = Found s k /\
    nth_error streams s = Some toks /\ rows_okb toks = true /\
    lambda_atb P toks k0 L caller args = true /\ not_nestedb toks k0 = true /\ k <> k0.
Proof.
  exists P_names, [kwtwo_s0], 1, (DSBody []), "Select", ["e"], 0, 6, kwtwo_s0, 18.
  vm_compute. repeat split. discriminate.
Qed.

(* ---- OPEN finding (KNOWN_FINDINGS.txt, c03.KNOWN_OPEN W1): the passed lambda is not written directly as
   the operator's argument
       flag = False
       r = ds.Select((lambda x: x + 1) if flag else (lambda x: x + 2))             stream from row 2
   `lambda` tokens: 7 (filed under Select), 18 (the passed one: filed under `else`) ---- *)
Definition condarg_s0 : list tok :=
  [T 2 KName "r";
   T 2 KOp "=";
   T 2 KName "ds";
   T 2 KOp ".";
   T 2 KName "Select";
   T 2 KOp "(";
   T 2 KOp "(";
   T 2 KName "lambda";
   T 2 KName "x";
   T 2 KOp ":";
   T 2 KName "x";
   T 2 KOp "+";
   T 2 KOther "1";
   T 2 KOp ")";
   T 2 KName "if";
   T 2 KName "flag";
   T 2 KName "else";
   T 2 KOp "(";
   T 2 KName "lambda";
   T 2 KName "x";
   T 2 KOp ":";
   T 2 KName "x";
   T 2 KOp "+";
   T 2 KOther "2";
   T 2 KOp ")";
   T 2 KOp ")";
   T 2 KNewline nl_text;
   T 3 KOther ""].

(* the current selection (all fixes) returns the neighbour: every hypothesis of never_picks_neighbour holds
   for the passed lambda (token 18) except the caller conjunct of lambda_atb - [called_byb]: its key is
   `else`, not Select *)
Lemma condarg_open_refuted :
  exists P streams L dsrc caller args s k toks k0 t0,
    find P streams L true dsrc (Some caller) args = Found s k /\
    nth_error streams s = Some toks /\ rows_okb toks = true /\
    nth_error toks k0 = Some t0 /\ is_name "lambda" t0 = true /\ trow t0 = L /\
    P (extent toks k0 (ext_stop toks k0)) = PArgs args /\
    not_nestedb toks k0 = true /\
    key_before toks k0 = Some "else" /\ called_byb toks k0 caller = false /\
    lambda_atb P toks k0 L caller args = false /\
    k <> k0.
Proof.
  exists P_names, [condarg_s0], 2, (DSBody []), "Select", ["x"], 0, 7, condarg_s0, 18, (T 2 KName "lambda").
  vm_compute. repeat split. discriminate.
Qed.

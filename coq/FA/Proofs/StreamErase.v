(* C16, second half: query metadata is invisible.  The history with every QMetaData call setting nothing
   produces, stream by stream, the same dumps and item types, the same outcomes and the same executor log
   (executor, AST handed over, title).  Proved by a simulation between the two runs: corresponding streams
   unfold to trees that are equal once the _q_metadata attribute is forgotten ([strip]). *)
From Coq Require Import String List Arith Bool Lia.
From FA.Gen Require Import TablesStream.
From FA.Model Require Import Heap Stream.
From FA.Proofs Require Import HeapFacts StreamFrame StreamWalk StreamParam.
Import ListNotations.
Open Scope list_scope.
Open Scope nat_scope.

(* ---------------------------------------------------------------- allocation succeeds iff the references exist *)
Definition alloc_res_ok (rs : list addr) (it : itree) : Prop :=
  forall h, match alloc rs it h with
            | Ok _ => refs_below (length rs) it = true
            | Err e => e = EBadRef /\ refs_below (length rs) it = false
            end.

Lemma alloc_kids_res : forall rs ks, Forall (alloc_res_ok rs) ks ->
  forall h, match alloc_kids rs ks h with
            | Ok _ => forallb (refs_below (length rs)) ks = true
            | Err e => e = EBadRef /\ forallb (refs_below (length rs)) ks = false
            end.
Proof.
  intros rs ks H. induction H as [|k kr Hk _ IH]; intros h; [reflexivity|].
  cbn [alloc_kids forallb]. fold (alloc_kids rs). specialize (Hk h).
  destruct (alloc rs k h) as [[h1 v]|e].
  - rewrite Hk. specialize (IH h1). destruct (alloc_kids rs kr h1) as [[h2 vs]|e]; exact IH.
  - destruct Hk as [-> Hk]. now rewrite Hk.
Qed.

Lemma alloc_fields_res : forall rs fs, Forall (fun fl => Forall (alloc_res_ok rs) (snd fl)) fs ->
  forall h, match alloc_fields rs fs h with
            | Ok _ => forallb (fun fl => forallb (refs_below (length rs)) (snd fl)) fs = true
            | Err e => e = EBadRef /\ forallb (fun fl => forallb (refs_below (length rs)) (snd fl)) fs = false
            end.
Proof.
  intros rs fs H. induction H as [|fl r Hfl _ IH]; intros h; [reflexivity|].
  cbn [alloc_fields forallb]. fold (alloc_fields rs). pose proof (alloc_kids_res rs (snd fl) Hfl h) as Hk.
  destruct (alloc_kids rs (snd fl) h) as [[h1 vs]|e].
  - rewrite Hk. specialize (IH h1). destruct (alloc_fields rs r h1) as [[h2 fs']|e]; exact IH.
  - destruct Hk as [-> Hk]. now rewrite Hk.
Qed.

Lemma alloc_res : forall rs it, alloc_res_ok rs it.
Proof.
  intros rs it. induction it as [a|x cls fs IH] using gtree_ind'; intros h; [reflexivity|].
  destruct x as [s|at_].
  - cbn [alloc refs_below]. destruct (nth_error rs s) eqn:E.
    + apply Nat.ltb_lt. apply nth_error_Some. congruence.
    + split; [reflexivity|]. apply Nat.ltb_ge. now apply nth_error_None.
  - rewrite alloc_G. cbn [refs_below]. pose proof (alloc_fields_res rs fs IH h) as Hf.
    destruct (alloc_fields rs fs h) as [[h1 fs']|e]; exact Hf.
Qed.

Lemma alloc_same_outcome : forall rs rs2 it h h2, length rs = length rs2 ->
  match alloc rs it h, alloc rs2 it h2 with
  | Ok (_, HA _), Ok (_, HA _) => True
  | Ok (_, HL a), Ok (_, HL b) => a = b
  | Err e, Err e2 => e = e2
  | _, _ => False
  end.
Proof.
  intros rs rs2 it h h2 Hlen. pose proof (alloc_res rs it h) as H1. pose proof (alloc_res rs2 it h2) as H2.
  rewrite <- Hlen in H2.
  destruct it as [a|[s|at_] cls fs].
  - cbn. reflexivity.
  - cbn [alloc] in *. destruct (nth_error rs s), (nth_error rs2 s); try exact I; try reflexivity.
    + destruct H2 as [_ H2]. congruence.
    + destruct H1 as [_ H1]. congruence.
  - rewrite !alloc_G in *. destruct (alloc_fields rs fs h) as [[h1 f1]|e1], (alloc_fields rs2 fs h2) as [[h3 f3]|e2]; try exact I.
    + destruct H2 as [_ H2]. congruence.
    + destruct H1 as [_ H1]. congruence.
    + destruct H1 as [-> _], H2 as [-> _]. reflexivity.
Qed.

(* ---------------------------------------------------------------- instances commute with strip *)
Definition strip_anno (x : ianno) : ianno := match x with IRef s => IRef s | INew a => INew (strip_attrs a) end.

Lemma sequence_map_option_map : forall A B C (g : A -> option B) (f : B -> C) l,
  sequence (map (fun x => option_map f (g x)) l) = option_map (map f) (sequence (map g l)).
Proof.
  intros A B C g f l. induction l as [|x l IH]; [reflexivity|]. cbn [map sequence].
  destruct (g x); [|reflexivity]. cbn [option_map]. rewrite IH. destruct (sequence (map g l)); reflexivity.
Qed.

Lemma inst_strip : forall rho it,
  option_map strip (inst rho it) = inst (fun s => option_map strip (rho s)) (gmap strip_anno it).
Proof.
  intros rho it. induction it as [a|x cls fs IH] using gtree_ind'; [reflexivity|].
  destruct x as [s|at_]; [reflexivity|]. rewrite gmap_G. cbn [strip_anno]. rewrite !inst_G.
  assert (Hf : sequence (map (inst_field (fun s => option_map strip (rho s))) (map (fmapF strip_anno) fs))
               = option_map (map (fmapF strip_attrs)) (sequence (map (inst_field rho) fs))).
  { rewrite <- sequence_map_option_map. rewrite map_map. apply sequence_map_ext_in.
    eapply Forall_impl; [|exact IH]. intros [[fn k] ks] Hks. cbn [snd] in Hks.
    unfold inst_field, inst_kids. cbn [fmapF fst snd]. rewrite map_map.
    rewrite (sequence_map_ext_in _ _ _ (fun t => option_map strip (inst rho t))).
    2:{ eapply Forall_impl; [|exact Hks]. intros t Ht. now rewrite Ht. }
    rewrite sequence_map_option_map. destruct (sequence (map (inst rho) ks)); reflexivity. }
  rewrite Hf. destruct (sequence (map (inst_field rho) fs)); reflexivity.
Qed.

Lemma inst_ext : forall rho rho' it, (forall s, rho s = rho' s) -> inst rho it = inst rho' it.
Proof.
  intros rho rho' it Hr. induction it as [a|x cls fs IH] using gtree_ind'; [reflexivity|].
  destruct x as [s|at_]; [apply Hr|]. rewrite !inst_G. erewrite sequence_map_ext_in; [reflexivity|].
  eapply Forall_impl; [|exact IH]. intros fl Hfl. unfold inst_field, inst_kids.
  erewrite sequence_map_ext_in; [reflexivity|exact Hfl].
Qed.

(* ---------------------------------------------------------------- the simulation *)
Definition erase1 (o : op) : op := match o with QMetaData s _ => QMetaData s [] | _ => o end.

Lemma erase_qmd_map : forall ops, erase_qmd ops = map erase1 ops.
Proof. reflexivity. Qed.

Definition Sim (st st2 : state) : Prop :=
  wf st /\ wf st2 /\ length (streams st) = length (streams st2) /\ nds st = nds st2 /\
  log st = log st2 /\ calls st = calls st2 /\
  forall s x, nth_error (streams st) s = Some x ->
    exists x2 t t2, nth_error (streams st2) s = Some x2 /\ ity x = ity x2 /\
      unfold (heap_ st) (root x) = Some t /\ unfold (heap_ st2) (root x2) = Some t2 /\ strip t = strip t2.

Lemma Sim_init : Sim init init.
Proof. repeat split; try apply wf_init. intros s x H. destruct s; discriminate. Qed.

Lemma Sim_none : forall st st2 s, Sim st st2 -> nth_error (streams st) s = None -> nth_error (streams st2) s = None.
Proof.
  intros st st2 s (_ & _ & Hlen & _) H. apply nth_error_None. apply nth_error_None in H. lia.
Qed.

Lemma Sim_rho : forall st st2, Sim st st2 -> forall s,
  option_map strip (rho_of (map root (streams st)) (heap_ st) s) =
  option_map strip (rho_of (map root (streams st2)) (heap_ st2) s).
Proof.
  intros st st2 HS s. unfold rho_of. destruct (nth_error (streams st) s) as [x|] eqn:E.
  - destruct HS as (_ & _ & _ & _ & _ & _ & Hs). destruct (Hs s x E) as (x2 & t & t2 & E2 & _ & Ht & Ht2 & Hst).
    rewrite (map_nth_error root s _ E), (map_nth_error root s _ E2), Ht, Ht2. cbn. now rewrite Hst.
  - pose proof (Sim_none st st2 s HS E) as E2.
    assert (H1 : nth_error (map root (streams st)) s = None) by (apply nth_error_None; rewrite map_length; now apply nth_error_None).
    assert (H2 : nth_error (map root (streams st2)) s = None) by (apply nth_error_None; rewrite map_length; now apply nth_error_None).
    now rewrite H1, H2.
Qed.

Lemma Sim_build : forall st st2 o, Sim st st2 -> (forall s kvs, o <> QMetaData s kvs) -> build st2 o = build st o.
Proof.
  intros st st2 o HS Hq. pose proof HS as (_ & _ & Hlen & Hnds & _ & _ & Hs).
  assert (Hnth : forall s, match nth_error (streams st) s, nth_error (streams st2) s with
                           | Some x, Some x2 => ity x = ity x2 | None, None => True | _, _ => False end).
  { intros s. destruct (nth_error (streams st) s) as [x|] eqn:E.
    - destruct (Hs s x E) as (x2 & _ & _ & E2 & Hi & _). now rewrite E2.
    - now rewrite (Sim_none st st2 s HS E). }
  destruct o as [ty|t ty|s k lam cb rty|s lit|s kvs|s m lits|s ov title|c r]; cbn [build]; try reflexivity.
  - now rewrite Hnds.
  - specialize (Hnth s). destruct (nth_error (streams st) s), (nth_error (streams st2) s); try contradiction; [|reflexivity].
    now rewrite Hnth.
  - specialize (Hnth s). destruct (nth_error (streams st) s), (nth_error (streams st2) s); try contradiction; [|reflexivity].
    now rewrite Hnth.
  - specialize (Hnth s). destruct (nth_error (streams st) s), (nth_error (streams st2) s); try contradiction; reflexivity.
Qed.

(* both sides get a new stream, over extended heaps, whose ASTs agree up to query metadata *)
Lemma Sim_add : forall st st2 h h2 x x2 n t t2,
  Sim st st2 -> heap_ext (heap_ st) h -> heap_ext (heap_ st2) h2 ->
  root x < length h -> root x2 < length h2 -> ity x = ity x2 ->
  unfold h (root x) = Some t -> unfold h2 (root x2) = Some t2 -> strip t = strip t2 ->
  Sim (fst (add_stream st h x n)) (fst (add_stream st2 h2 x2 n)).
Proof.
  intros st st2 h h2 x x2 n t t2 HS Hx Hx2 Hr Hr2 Hity Ht Ht2 Hst.
  pose proof HS as (Hwf & Hwf2 & Hlen & Hnds & Hlog & Hcalls & Hs).
  destruct (add_stream_frame st h x n _ _ Hwf Hx Hr (surjective_pairing _)) as [_ Hwf'].
  destruct (add_stream_frame st2 h2 x2 n _ _ Hwf2 Hx2 Hr2 (surjective_pairing _)) as [_ Hwf2'].
  unfold add_stream in *. cbn [fst] in *.
  split; [exact Hwf'|]. split; [exact Hwf2'|]. cbn [streams heap_ nds log calls].
  split; [rewrite !app_length; cbn; lia|]. split; [reflexivity|]. split; [exact Hlog|]. split; [exact Hcalls|].
  intros s y E. destruct (Nat.lt_ge_cases s (length (streams st))) as [Hlt|Hge].
  - rewrite nth_error_app1 in E by exact Hlt. destruct (Hs s y E) as (y2 & u & u2 & E2 & Hi & Hu & Hu2 & Hsu).
    exists y2, u, u2. rewrite nth_error_app1 by (rewrite <- Hlen; exact Hlt).
    split; [exact E2|]. split; [exact Hi|].
    split; [rewrite (unfold_ext _ _ _ Hx); [exact Hu|eapply wf_nth; eassumption]|].
    split; [rewrite (unfold_ext _ _ _ Hx2); [exact Hu2|eapply wf_nth; eassumption]|exact Hsu].
  - rewrite nth_error_app2 in E by exact Hge.
    destruct (s - length (streams st)) as [|m] eqn:Em; [|destruct m; discriminate].
    cbn in E. inversion E; subst y. exists x2, t, t2.
    rewrite nth_error_app2 by lia. replace (s - length (streams st2)) with 0 by lia. cbn.
    repeat split; assumption.
Qed.

Lemma Sim_heap : forall st st2 h h2 n l c,
  Sim st st2 -> heap_ext (heap_ st) h -> heap_ext (heap_ st2) h2 ->
  Sim (mkstate h (streams st) n l c) (mkstate h2 (streams st2) n l c).
Proof.
  intros st st2 h h2 n l c (Hwf & Hwf2 & Hlen & Hnds & Hlog & Hcalls & Hs) Hx Hx2.
  assert (W : forall (s0 : state) h0, wf s0 -> heap_ext (heap_ s0) h0 -> forall n0 l0 c0, wf (mkstate h0 (streams s0) n0 l0 c0)).
  { intros s0 h0 W0 X0 n0 l0 c0. unfold wf in *. cbn [streams heap_]. eapply Forall_impl; [|exact W0].
    intros y Hy. cbn beta in Hy. apply heap_ext_length in X0. lia. }
  split; [now apply W|]. split; [now apply W|]. cbn [streams heap_ nds log calls].
  repeat (split; [assumption || reflexivity|]).
  intros s x E. destruct (Hs s x E) as (x2 & t & t2 & E2 & Hi & Ht & Ht2 & Hst).
  exists x2, t, t2. split; [exact E2|]. split; [exact Hi|].
  split; [rewrite (unfold_ext _ _ _ Hx); [exact Ht|eapply wf_nth; eassumption]|].
  split; [rewrite (unfold_ext _ _ _ Hx2); [exact Ht2|eapply wf_nth; eassumption]|exact Hst].
Qed.

Lemma strip_eq_erase : forall t t2, strip t = strip t2 -> erase t = erase t2.
Proof. intros t t2 H. rewrite <- (erase_strip t), <- (erase_strip t2). now rewrite H. Qed.

Lemma strip_eq_exec : forall t t2, strip t = strip t2 -> exec_walk t = exec_walk t2.
Proof. intros t t2 H. rewrite <- (exec_walk_strip t), <- (exec_walk_strip t2). now rewrite H. Qed.

(* what value() allocates and logs, given the cleaner's input *)
Lemma remove_empty_h_spec : forall h a t, unfold h a = Some t ->
  match clean t with
  | Err e => remove_empty_h h a = Err e
  | Ok ct => exists h' v, remove_empty_h h a = Ok (h', v) /\ heap_ext h h' /\ unfold_v h' v = Some ct
  end.
Proof.
  intros h a t Ht. unfold remove_empty_h. rewrite Ht. destruct (clean t) as [ct|e]; [|reflexivity].
  pose proof (alloc_res [] (fresh_of ct) h) as Hres.
  destruct (alloc [] (fresh_of ct) h) as [[h' v]|e] eqn:Ea.
  - exists h', v. split; [reflexivity|]. apply alloc_spec in Ea; [|constructor]. destruct Ea as (Hx & _ & Hu).
    split; [exact Hx|]. rewrite Hu. apply inst_fresh.
  - exfalso. destruct Hres as [_ Hres].
    assert (Hb : refs_below (length (@nil addr)) (fresh_of ct) = true).
    { apply ref_free_below. clear. induction ct as [a|x cls fs IH] using gtree_ind'; [reflexivity|].
      unfold fresh_of. rewrite gmap_G. cbn [ref_free]. rewrite forallb_forall. intros fl Hin.
      apply in_map_iff in Hin. destruct Hin as [fl0 [<- Hin0]]. cbn [fmapF snd]. rewrite forallb_forall.
      intros k Hk. apply in_map_iff in Hk. destruct Hk as [k0 [<- Hk0]].
      rewrite Forall_forall in IH. specialize (IH fl0 Hin0). rewrite Forall_forall in IH. now apply IH. }
    congruence.
Qed.

Lemma step_Sim : forall st st2 o st' out st2' out2,
  Sim st st2 -> step st o = (st', out) -> step st2 (erase1 o) = (st2', out2) -> Sim st' st2' /\ out = out2.
Proof.
  intros st st2 o st' out st2' out2 HS H H2.
  pose proof HS as (Hwf & Hwf2 & Hlen & Hnds & Hlog & Hcalls & Hs).
  assert (Hsame : forall e, (st, OErr e) = (st', out) -> (st2, OErr e) = (st2', out2) -> Sim st' st2' /\ out = out2).
  { intros e He He2. inversion He; inversion He2; subst. split; [exact HS|reflexivity]. }
  assert (Hbuild : (forall s kvs, o <> QMetaData s kvs) ->
            (match build st o with
             | Err e => (st, OErr e)
             | Ok (it, ty) =>
                 match alloc (map root (streams st)) it (heap_ st) with
                 | Ok (h', HA a) => add_stream st h' (mkstream a ty) (match o with NewDataset _ => S (nds st) | _ => nds st end)
                 | Ok (_, HL _) => (st, OErr EBadTree)
                 | Err e => (st, OErr e)
                 end
             end) = (st', out) ->
            (match build st2 o with
             | Err e => (st2, OErr e)
             | Ok (it, ty) =>
                 match alloc (map root (streams st2)) it (heap_ st2) with
                 | Ok (h', HA a) => add_stream st2 h' (mkstream a ty) (match o with NewDataset _ => S (nds st2) | _ => nds st2 end)
                 | Ok (_, HL _) => (st2, OErr EBadTree)
                 | Err e => (st2, OErr e)
                 end
             end) = (st2', out2) -> Sim st' st2' /\ out = out2).
  { intros Hq Hb Hb2. rewrite (Sim_build st st2 o HS Hq) in Hb2.
    destruct (build st o) as [[it ty]|e]; [|now apply (Hsame e)].
    pose proof (alloc_same_outcome (map root (streams st)) (map root (streams st2)) it (heap_ st) (heap_ st2)) as Hout.
    rewrite !map_length in Hout. specialize (Hout Hlen).
    destruct (alloc (map root (streams st)) it (heap_ st)) as [[h' [a|a]]|e] eqn:Ea;
      destruct (alloc (map root (streams st2)) it (heap_ st2)) as [[h2' [a2|a2]]|e2] eqn:Ea2; try contradiction.
    - pose proof (alloc_res (map root (streams st)) it (heap_ st)) as Hrb. rewrite Ea, map_length in Hrb.
      apply alloc_spec in Ea; [|now apply wf_rs_ok]. apply alloc_spec in Ea2; [|now apply wf_rs_ok].
      destruct Ea as (Hx & Hv & Hu). destruct Ea2 as (Hx2 & Hv2 & Hu2).
      assert (Hstrip : option_map strip (unfold_v h' (HA a)) = option_map strip (unfold_v h2' (HA a2))).
      { rewrite Hu, Hu2, !inst_strip. apply inst_ext. apply Sim_rho. exact HS. }
      (* both unfold: the trees built by the operations only mention existing streams *)
      assert (Hsome : exists t, unfold_v h' (HA a) = Some t).
      { rewrite Hu. apply (inst_some (length (streams st))).
        - intros s Hlt. unfold rho_of. destruct (nth_error (streams st) s) as [x|] eqn:E; [|apply nth_error_None in E; lia].
          rewrite (map_nth_error root s _ E). destruct (Hs s x E) as (_ & t & _ & _ & _ & Ht & _). eauto.
        - exact Hrb. }
      destruct Hsome as [t Ht]. rewrite Ht in Hstrip. cbn [option_map] in Hstrip.
      destruct (unfold_v h2' (HA a2)) as [t2|] eqn:Ht2; [|discriminate]. inversion Hstrip as [Hst].
      assert (Ho : out = OStream (length (streams st))) by (unfold add_stream in Hb; now inversion Hb).
      assert (Ho2 : out2 = OStream (length (streams st2))) by (unfold add_stream in Hb2; now inversion Hb2).
      split; [|now rewrite Ho, Ho2, Hlen].
      replace st' with (fst (add_stream st h' (mkstream a ty) (match o with NewDataset _ => S (nds st) | _ => nds st end))) by now rewrite Hb.
      replace st2' with (fst (add_stream st2 h2' (mkstream a2 ty) (match o with NewDataset _ => S (nds st2) | _ => nds st2 end))) by now rewrite Hb2.
      rewrite <- Hnds. eapply Sim_add; try eassumption; reflexivity.
    - now apply (Hsame EBadTree).
    - subst e2. now apply (Hsame e). }
  destruct o as [ty|t ty|s k lam cb rty|s lit|s kvs|s m lits|s ov title|c r]; cbn [erase1] in H2;
    try (apply Hbuild; [intros; discriminate|exact H|exact H2]).
  - (* QMetaData s kvs  versus  QMetaData s [] *)
    cbn [step] in H, H2.
    destruct (nth_error (streams st) s) as [ps|] eqn:Es.
    2:{ rewrite (Sim_none st st2 s HS Es) in H2. now apply (Hsame EBadStream). }
    destruct (Hs s ps Es) as (ps2 & t & t2 & Es2 & Hity & Ht & Ht2 & Hst). rewrite Es2 in H2. rewrite Ht in H. rewrite Ht2 in H2.
    destruct (unfold_hget _ _ _ Ht) as [base Eb]. destruct (unfold_hget _ _ _ Ht2) as [base2 Eb2].
    rewrite Eb in H. rewrite Eb2 in H2. cbn [qmd_added filter] in H2.
    pose proof (wf_nth st s ps Hwf Es) as Hr. pose proof (wf_nth st2 s ps2 Hwf2 Es2) as Hr2.
    assert (Ho2 : out2 = OStream (length (streams st2))) by (unfold add_stream in H2; now inversion H2).
    replace st2' with (fst (add_stream st2 (heap_ st2) (mkstream (root ps2) (ity ps2)) (nds st2))) by now rewrite H2.
    destruct (qmd_added t kvs) as [|kv added].
    + assert (Ho : out = OStream (length (streams st))) by (unfold add_stream in H; now inversion H).
      split; [|now rewrite Ho, Ho2, Hlen].
      replace st' with (fst (add_stream st (heap_ st) (mkstream (root ps) (ity ps)) (nds st))) by now rewrite H.
      rewrite <- Hnds. eapply Sim_add; try eassumption; try apply heap_ext_refl.
    + destruct (copy_unfold _ _ _ _ Eb Ht) as [fs' [Hteq Hcopy]].
      unfold hcopy in H. rewrite Eb in H. unfold halloc, set_attr in H. rewrite hupd_new in H. cbn [ncls nfields nattrs] in H.
      assert (Ho : out = OStream (length (streams st))) by (unfold add_stream in H; now inversion H).
      split; [|now rewrite Ho, Ho2, Hlen].
      match type of H with add_stream st ?h ?x ?n = _ => replace st' with (fst (add_stream st h x n)) by now rewrite H end.
      rewrite <- Hnds.
      eapply (Sim_add st st2 _ (heap_ st2) _ _ (nds st) _ t2 HS (heap_ext_cons _ _) (heap_ext_refl _)).
      * cbn. lia.
      * exact Hr2.
      * exact Hity.
      * cbn [root]. apply Hcopy.
      * exact Ht2.
      * rewrite <- Hst. subst t. unfold strip. rewrite !gmap_G. now rewrite strip_attrs_set.
  - (* ValueStart *)
    cbn [step] in H, H2.
    destruct (nth_error (streams st) s) as [ps|] eqn:Es.
    2:{ rewrite (Sim_none st st2 s HS Es) in H2. now apply (Hsame EBadStream). }
    destruct (Hs s ps Es) as (ps2 & t & t2 & Es2 & Hity & Ht & Ht2 & Hst). rewrite Es2 in H2. rewrite Ht in H. rewrite Ht2 in H2.
    rewrite <- (strip_eq_exec t t2 Hst) in H2.
    destruct (match ov with Some k => Ok (EOv k) | None => exec_walk t end) as [exe|e]; [|now apply (Hsame e)].
    pose proof (remove_empty_h_spec _ _ _ Ht) as Hc. pose proof (remove_empty_h_spec _ _ _ Ht2) as Hc2.
    pose proof (clean_gmap strip_attrs t) as Hcs. fold (strip t) in Hcs. rewrite Hst in Hcs.
    unfold strip in Hcs at 1. rewrite clean_gmap in Hcs.
    destruct (clean t) as [ct|e], (clean t2) as [ct2|e2]; cbn [res_map] in Hcs; try discriminate.
    + destruct Hc as (h' & v & Hre & Hx & Hu). destruct Hc2 as (h2' & v2 & Hre2 & Hx2 & Hu2).
      rewrite Hre in H. rewrite Hre2 in H2. inversion H; subst st' out; clear H. inversion H2; subst st2' out2; clear H2.
      inversion Hcs as [Hcs']. fold (strip ct2) in Hcs'. fold (strip ct) in Hcs'.
      unfold abs_v. rewrite Hu, Hu2. cbn [option_map]. rewrite (strip_eq_erase ct2 ct Hcs'). rewrite Hlog, Hcalls.
      split; [|reflexivity]. rewrite <- Hnds. apply (Sim_heap st st2 h' h2'); assumption.
    + rewrite Hc in H. rewrite Hc2 in H2. inversion Hcs; subst e2. now apply (Hsame e).
  - (* ValueFinish *)
    cbn [step] in H, H2. rewrite <- Hcalls in H2.
    destruct (nth_error (calls st) c) as [[r0|]|]; try now apply (Hsame EBadCall).
    inversion H; subst st' out; clear H. inversion H2; subst st2' out2; clear H2.
    split; [|reflexivity]. rewrite Hlog, <- Hnds. apply (Sim_heap st st2); [exact HS|apply heap_ext_refl|apply heap_ext_refl].
Qed.

Lemma run_from_Sim : forall ops st st2, Sim st st2 ->
  Sim (fst (run_from st ops)) (fst (run_from st2 (map erase1 ops))) /\
  snd (run_from st ops) = snd (run_from st2 (map erase1 ops)).
Proof.
  induction ops as [|o r IH]; intros st st2 HS; [split; [exact HS|reflexivity]|].
  cbn [map run_from]. destruct (step st o) as [st1 o1] eqn:E1. destruct (step st2 (erase1 o)) as [st3 o3] eqn:E3.
  destruct (step_Sim _ _ _ _ _ _ _ HS E1 E3) as [HS1 Ho]. specialize (IH st1 st3 HS1).
  destruct (run_from st1 r) as [st4 os4], (run_from st3 (map erase1 r)) as [st5 os5]. cbn [fst snd] in *.
  destruct IH as [IH1 IH2]. split; [exact IH1|now rewrite Ho, IH2].
Qed.

(* the dump and item type of every stream, the outcome of every operation and the whole executor log
   (executor, AST handed over, title) are those of the same history with QMetaData setting nothing *)
Theorem qmd_invisible : forall ops,
  (forall s, obs (run ops) s = obs (run (erase_qmd ops)) s) /\
  outs ops = outs (erase_qmd ops) /\
  log (run ops) = log (run (erase_qmd ops)).
Proof.
  intros ops. rewrite erase_qmd_map. unfold run, outs.
  destruct (run_from_Sim ops init init Sim_init) as [HS Ho].
  destruct HS as (_ & _ & Hlen & _ & Hlog & _ & Hs).
  split; [|split; [exact Ho|exact Hlog]].
  intros s. unfold obs. destruct (nth_error (streams (fst (run_from init ops))) s) as [x|] eqn:E.
  - destruct (Hs s x E) as (x2 & t & t2 & E2 & Hi & Ht & Ht2 & Hst). rewrite E2. unfold abs. rewrite Ht, Ht2. cbn [option_map].
    now rewrite (strip_eq_erase t t2 Hst), Hi.
  - assert (E2 : nth_error (streams (fst (run_from init (map erase1 ops)))) s = None).
    { apply nth_error_None. apply nth_error_None in E. lia. }
    now rewrite E2.
Qed.

(* C15: extract_metadata and remove_empty_metadata are exact.
   Statements are about the models of Model/MetaData.v; the specifications (relations, the
   pre-order list of wrapper dictionaries, "visited position") are written here independently. *)
From FA.Base Require Import PyAst Induct Value Traverse.
From FA.Model Require Import MetaData.
From FA.Proofs Require Import TraverseFacts Refine EvalCong TraverseTFacts.
From Coq Require Import Lia.

(* ================= the writer traversal is generic_visit + concatenation ================= *)

Section WFacts.
  Variable A : Type.
  Variable f : expr -> option (expr * list A).

  Lemma omap_w_spec l :
    omap_w f l = obind (omap f l) (fun rs => Some (map fst rs, concat (map snd rs))).
  Proof.
    induction l as [|x xs IH]; [reflexivity|].
    cbn [omap_w]. rewrite omap_cons. destruct (f x) as [r|]; [|reflexivity]. cbn [obind].
    rewrite IH. destruct (omap f xs) as [rs|]; reflexivity.
  Qed.

  Lemma omap_nil' : omap f [] = Some [].
  Proof. reflexivity. Qed.

  Lemma map_children_w_spec e :
    map_children_w f e =
    obind (omap f (children e)) (fun rs => Some (rebuild e (map fst rs), concat (map snd rs))).
  Proof.
    destruct e; cbn [map_children_w children]; rewrite ?omap_w_spec;
      repeat rewrite ?omap_cons, ?omap_app, ?omap_nil';
      repeat match goal with
             | |- context [f ?x] => destruct (f x) as [[? ?]|]; cbn [obind fst snd]
             | |- context [omap f ?l] =>
                 let H := fresh "HL" in
                 destruct (omap f l) eqn:H; [apply omap_length in H|]; cbn [obind fst snd]
             end;
      try reflexivity;
      cbn [map fst snd concat rebuild app obind];
      rewrite ?map_app, ?concat_app, ?app_nil_r, <- ?app_assoc;
      try (rewrite firstn_app_len, skipn_app_len by (rewrite map_length; symmetry; assumption));
      try reflexivity.
  Qed.
End WFacts.
Arguments omap_w_spec {A} f l.
Arguments map_children_w_spec {A} f e.

(* ================= extract_metadata ================= *)

(* a call [MetaData(...)] by name *)
Definition is_md_call (e : expr) : bool :=
  match e with
  | Call (Name fn) _ _ _ => String.eqb fn md_name
  | _ => false
  end.

(* The pass as a relation between the query, the new query and the list:
   a wrapper is replaced by its processed source, its dictionary first in the list, followed by
   those found in its source; every other node - of any class - is rebuilt unchanged around its
   processed children, and contributes the concatenation, in field order, of what they contribute. *)
Inductive extract_spec : expr -> expr -> list lit -> Prop :=
 | XS_wrap src d rest kwn kwv v src' ms :
     literal_eval d = Some v -> is_raw src = false -> extract_spec src src' ms ->
     extract_spec (Call (Name md_name) (src :: d :: rest) kwn kwv) src' (v :: ms)
 | XS_cong e rs :
     is_md_call e = false ->
     Forall2 (fun c r => extract_spec c (fst r) (snd r)) (children e) rs ->
     extract_spec e (rebuild e (map fst rs)) (concat (map snd rs)).

(* its projection on the tree: only wrappers are unwrapped, nothing else changes *)
Inductive unwrap_spec : expr -> expr -> Prop :=
 | US_wrap src d rest kwn kwv src' :
     unwrap_spec src src' -> unwrap_spec (Call (Name md_name) (src :: d :: rest) kwn kwv) src'
 | US_cong e cs' :
     is_md_call e = false -> Forall2 unwrap_spec (children e) cs' -> unwrap_spec e (rebuild e cs').

Lemma is_md_call_inv e : is_md_call e = true -> exists args kwn kwv, e = Call (Name md_name) args kwn kwv.
Proof.
  destruct e; try discriminate. destruct e; try discriminate. simpl. intros H.
  apply String.eqb_eq in H. subst. eauto.
Qed.

Lemma extract_generic e : is_md_call e = false -> extract e = map_children_w extract e.
Proof.
  intros H. destruct e; try reflexivity. destruct e; try reflexivity.
  simpl in H. cbn [extract]. rewrite H. reflexivity.
Qed.

Lemma extract_md args kwn kwv :
  extract (Call (Name md_name) args kwn kwv) =
  match args with
  | src :: d :: _ =>
      obind (literal_eval d) (fun v =>
        if is_raw src then None else obind (extract src) (fun r => Some (fst r, v :: snd r)))
  | _ => None
  end.
Proof.
  cbn [extract]. rewrite String.eqb_refl.
  destruct args as [|src [|d rest]]; try reflexivity.
  destruct (literal_eval d); [|reflexivity]. cbn [obind]. destruct src; reflexivity.
Qed.

Lemma extract_generic_some e e' ms :
  is_md_call e = false ->
  (extract e = Some (e', ms) <->
   exists rs, omap extract (children e) = Some rs /\ e' = rebuild e (map fst rs) /\ ms = concat (map snd rs)).
Proof.
  intros H. rewrite extract_generic by assumption. rewrite map_children_w_spec. split.
  - intros Hs. apply obind_some in Hs. destruct Hs as [rs [Hrs Hs]]. inversion Hs; subst. eauto.
  - intros (rs & Hrs & -> & ->). rewrite Hrs. reflexivity.
Qed.

Theorem extract_sound : forall e e' ms, extract e = Some (e', ms) -> extract_spec e e' ms.
Proof.
  induction e as [e IH] using expr_size_ind. intros e' ms He.
  destruct (is_md_call e) eqn:Hm.
  - apply is_md_call_inv in Hm. destruct Hm as (args & kwn & kwv & ->).
    rewrite extract_md in He. destruct args as [|src [|d rest]]; try discriminate.
    apply obind_some in He. destruct He as [v [Hv He]].
    destruct (is_raw src) eqn:Hraw; [discriminate|].
    apply obind_some in He. destruct He as [[s' m'] [Hs He]]. inversion He; subst; clear He.
    apply XS_wrap; [assumption | assumption |].
    apply IH; [|assumption]. rewrite size_call. cbn [sizes]. lia.
  - apply extract_generic_some in He; [|assumption]. destruct He as (rs & Hrs & -> & ->).
    apply XS_cong; [assumption|].
    eapply omap_Forall2; [|eassumption].
    apply Forall_children_size. intros c Hc [c' m] Hy. apply IH; assumption.
Qed.

Theorem extract_spec_fun : forall e e' ms, extract_spec e e' ms -> extract e = Some (e', ms).
Proof.
  induction e as [e IH] using expr_size_ind. intros e' ms Hs. inversion Hs; subst.
  - rewrite extract_md. match goal with H : literal_eval _ = _ |- _ => rewrite H end. cbn [obind].
    match goal with H : is_raw _ = _ |- _ => rewrite H end.
    erewrite IH; [reflexivity | | eassumption]. rewrite size_call. cbn [sizes]. lia.
  - apply extract_generic_some; [assumption|]. exists rs. split; [|split; reflexivity].
    apply omap_of_Forall2.
    match goal with H : Forall2 _ (children e) rs |- _ => revert H end.
    generalize (Forall_children_size _ e IH). generalize (children e). clear.
    intros l HF H2. induction H2 as [|c r l rs Hcr _ IHl]; constructor.
    + inversion HF; subst. destruct r as [c' m]. auto.
    + inversion HF; subst. auto.
Qed.

Theorem extract_exact : forall e e' ms, extract e = Some (e', ms) <-> extract_spec e e' ms.
Proof. intros; split; [apply extract_sound | apply extract_spec_fun]. Qed.

(* ---------- nothing but wrappers changes ---------- *)

Lemma extract_spec_unwrap : forall e e' ms, extract_spec e e' ms -> unwrap_spec e e'.
Proof.
  induction e as [e IH] using expr_size_ind. intros e' ms Hs. inversion Hs; subst.
  - constructor. eapply IH; [|eassumption]. rewrite size_call. cbn [sizes]. lia.
  - apply US_cong; [assumption|].
    match goal with H : Forall2 _ (children e) rs |- _ => revert H end.
    generalize (Forall_children_size _ e IH). generalize (children e). clear.
    intros l HF H2. induction H2 as [|c r l rs Hcr _ IHl]; simpl; constructor.
    + inversion HF; subst. eauto.
    + inversion HF; subst. auto.
Qed.

Theorem extract_only_unwraps : forall e e' ms, extract e = Some (e', ms) -> unwrap_spec e e'.
Proof. intros e e' ms H. eapply extract_spec_unwrap. apply extract_sound. eassumption. Qed.

(* ---------- the list: all wrappers, none invented, pre-order ---------- *)

(* concatenation over the children, in field order *)
Definition flat_children {A} (f : expr -> list A) (e : expr) : list A :=
  match e with
  | Name _ | Const _ | Raw _ => []
  | Attr v _ => f v
  | Call g args _ kwv => f g ++ flat_map f args ++ flat_map f kwv
  | Lambda _ b => f b
  | UnaryOp _ x => f x
  | BinOp _ l r => f l ++ f r
  | BoolOp _ es => flat_map f es
  | Compare l _ rs => f l ++ flat_map f rs
  | IfExp c t x => f c ++ f t ++ f x
  | Tuple es | List es => flat_map f es
  | Dict ks vs => flat_map f ks ++ flat_map f vs
  | Subscript v s => f v ++ f s
  | ListComp x gs | GenExp x gs => f x ++ flat_map f gs
  | CompFor t i ifs _ => f t ++ f i ++ flat_map f ifs
  | Other _ _ cs => flat_map f cs
  end.

Lemma flat_children_spec {A} (f : expr -> list A) e : flat_children f e = flat_map f (children e).
Proof.
  destruct e; cbn [flat_children children flat_map]; rewrite ?flat_map_app, ?app_nil_r; reflexivity.
Qed.

(* the dictionary expressions of the wrappers of a query, in pre-order:
   a wrapper's own dictionary, then those of the wrappers inside its source *)
Fixpoint md_dicts (e : expr) : list expr :=
  match e with
  | Call (Name fn) args _ _ =>
      if String.eqb fn md_name then
        match args with
        | src :: d :: _ => d :: md_dicts src
        | _ => []
        end
      else flat_children md_dicts e
  | _ => flat_children md_dicts e
  end.

Lemma md_dicts_generic e : is_md_call e = false -> md_dicts e = flat_map md_dicts (children e).
Proof.
  intros H. rewrite <- flat_children_spec. destruct e; try reflexivity. destruct e; try reflexivity.
  simpl in H. cbn [md_dicts]. rewrite H. reflexivity.
Qed.

Lemma md_dicts_wrap src d rest kwn kwv :
  md_dicts (Call (Name md_name) (src :: d :: rest) kwn kwv) = d :: md_dicts src.
Proof. reflexivity. Qed.

Lemma omap_flat_map {A B C} (g : B -> option C) (h : A -> list B) (l : list A) (rs : list (list C)) :
  Forall2 (fun c r => omap g (h c) = Some r) l rs ->
  omap g (flat_map h l) = Some (concat rs).
Proof.
  induction 1 as [|c r l rs Hcr _ IH]; [reflexivity|].
  cbn [flat_map concat]. rewrite omap_app, Hcr. cbn [obind]. rewrite IH. reflexivity.
Qed.

Lemma extract_spec_dicts : forall e e' ms, extract_spec e e' ms -> omap literal_eval (md_dicts e) = Some ms.
Proof.
  induction e as [e IH] using expr_size_ind. intros e' ms Hs. inversion Hs; subst.
  - rewrite md_dicts_wrap, omap_cons.
    match goal with H : literal_eval _ = _ |- _ => rewrite H end. cbn [obind].
    erewrite IH; [reflexivity | | eassumption]. rewrite size_call. cbn [sizes]. lia.
  - rewrite md_dicts_generic by assumption. apply omap_flat_map.
    match goal with H : Forall2 _ (children e) rs |- _ => revert H end.
    generalize (Forall_children_size _ e IH). generalize (children e). clear.
    intros l HF H2. induction H2 as [|c r l rs Hcr _ IHl]; simpl; constructor.
    + inversion HF; subst. eauto.
    + inversion HF; subst. auto.
Qed.

(* the list returned is exactly the values of the wrappers' dictionaries, in pre-order *)
Theorem extract_all_found : forall e e' ms,
  extract e = Some (e', ms) -> omap literal_eval (md_dicts e) = Some ms.
Proof. intros e e' ms H. eapply extract_spec_dicts. apply extract_sound. eassumption. Qed.

Corollary extract_count : forall e e' ms,
  extract e = Some (e', ms) -> length ms = length (md_dicts e).
Proof. intros e e' ms H. apply extract_all_found in H. eapply omap_length; eassumption. Qed.

(* positions the pass reaches: the query itself, the source of a wrapper, any child of any other node
   (at any depth: lambda bodies, arguments, keyword values, ...) *)
Inductive visited : expr -> expr -> Prop :=
 | V_here e : visited e e
 | V_src src d rest kwn kwv w :
     visited src w -> visited (Call (Name md_name) (src :: d :: rest) kwn kwv) w
 | V_child e c w : is_md_call e = false -> In c (children e) -> visited c w -> visited e w.

Lemma flat_map_in_split {A B} (h : A -> list B) l c :
  In c l -> exists pre post, flat_map h l = pre ++ h c ++ post.
Proof.
  intros Hin. apply in_split in Hin. destruct Hin as (l1 & l2 & ->).
  rewrite flat_map_app. cbn [flat_map]. eauto.
Qed.

Lemma visited_dicts e w : visited e w -> exists pre post, md_dicts e = pre ++ md_dicts w ++ post.
Proof.
  induction 1 as [e | src d rest kwn kwv w _ IH | e c w Hm Hin _ IH].
  - exists [], []. rewrite app_nil_r. reflexivity.
  - destruct IH as (pre & post & IH). exists (d :: pre), post. rewrite md_dicts_wrap, IH. reflexivity.
  - destruct IH as (pre & post & IH). rewrite md_dicts_generic by assumption.
    destruct (flat_map_in_split md_dicts _ _ Hin) as (p1 & p2 & ->). rewrite IH.
    exists (p1 ++ pre), (post ++ p2). rewrite <- !app_assoc. reflexivity.
Qed.

(* an outer wrapper precedes the wrappers inside its source: wherever a wrapper sits, the returned
   list contains its dictionary immediately followed by the dictionaries found in its source *)
Theorem extract_outer_first : forall e e' ms src d rest kwn kwv,
  extract e = Some (e', ms) ->
  visited e (Call (Name md_name) (src :: d :: rest) kwn kwv) ->
  exists pre post v inner,
    literal_eval d = Some v /\ omap literal_eval (md_dicts src) = Some inner /\
    ms = pre ++ v :: inner ++ post.
Proof.
  intros e e' ms src d rest kwn kwv He Hv.
  apply extract_all_found in He. apply visited_dicts in Hv. destruct Hv as (p1 & p2 & Hd).
  rewrite Hd, md_dicts_wrap in He.
  apply omap_app_some in He. destruct He as (r1 & r2 & H1 & H2 & ->).
  apply omap_app_some in H2. destruct H2 as (r3 & r4 & H3 & H4 & ->).
  apply omap_cons_some in H3. destruct H3 as (v & inner & Hv & Hinner & ->).
  exists r1, r4, v, inner. repeat split; assumption.
Qed.

(* ---------- when does it raise ---------- *)

(* a reached wrapper is well formed: at least two positional arguments, the second a literal, the
   first a node *)
Definition good_wrapper (w : expr) : Prop :=
  match w with
  | Call _ (src :: d :: _) _ _ => literal_eval d <> None /\ is_raw src = false
  | _ => False
  end.

Theorem extract_defined_iff : forall e,
  (exists e' ms, extract e = Some (e', ms)) <->
  (forall w, visited e w -> is_md_call w = true -> good_wrapper w).
Proof.
  induction e as [e IH] using expr_size_ind. split.
  - intros (e' & ms & He) w Hv Hw.
    destruct (is_md_call e) eqn:Hm.
    + apply is_md_call_inv in Hm. destruct Hm as (args & kwn & kwv & ->).
      rewrite extract_md in He. destruct args as [|src [|d rest]]; try discriminate.
      apply obind_some in He. destruct He as [v [Hlv He]].
      destruct (is_raw src) eqn:Hraw; [discriminate|].
      apply obind_some in He. destruct He as [[s' m'] [Hs _]].
      inversion Hv; subst.
      * simpl. split; [congruence | assumption].
      * assert (Hsz : size src < size (Call (Name md_name) (src :: d :: rest) kwn kwv)).
        { rewrite size_call. cbn [sizes]. lia. }
        apply (proj1 (IH src Hsz)); eauto.
      * discriminate.
    + apply extract_generic_some in He; [|assumption]. destruct He as (rs & Hrs & _ & _).
      inversion Hv; subst.
      * congruence.
      * discriminate.
      * match goal with Hin : In ?c (children e) |- _ =>
          apply (proj1 (IH c (size_child _ _ Hin))); [|assumption|assumption] end.
        match goal with Hin : In ?c (children e) |- _ => apply in_split in Hin; destruct Hin as (l1 & l2 & Hl) end.
        rewrite Hl in Hrs. apply omap_app_some in Hrs. destruct Hrs as (r1 & r2 & _ & H2 & _).
        apply omap_cons_some in H2. destruct H2 as ([c' m'] & ? & Hc & _). eauto.
  - intros Hall. destruct (is_md_call e) eqn:Hm.
    + pose proof (Hall e (V_here e) Hm) as Hg.
      apply is_md_call_inv in Hm. destruct Hm as (args & kwn & kwv & ->).
      destruct args as [|src [|d rest]]; try contradiction. destruct Hg as [Hd Hraw].
      assert (Hsz : size src < size (Call (Name md_name) (src :: d :: rest) kwn kwv)).
      { rewrite size_call. cbn [sizes]. lia. }
      destruct (proj2 (IH src Hsz)) as (s' & m' & Hs).
      { intros w Hv Hw. apply Hall; [|assumption]. apply V_src; assumption. }
      rewrite extract_md. destruct (literal_eval d) as [v|]; [|congruence]. cbn [obind].
      rewrite Hraw, Hs. cbn [obind]. eauto.
    + assert (Hch : Forall (fun c => exists r, extract c = Some r) (children e)).
      { apply Forall_forall. intros c Hc.
        destruct (proj2 (IH c (size_child _ _ Hc))) as (c' & m' & Hs).
        { intros w Hv Hw. apply Hall; [|assumption]. eapply V_child; eassumption. }
        eauto. }
      apply omap_total in Hch. destruct Hch as [rs Hrs].
      exists (rebuild e (map fst rs)), (concat (map snd rs)).
      apply extract_generic_some; [assumption|]. eauto.
Qed.

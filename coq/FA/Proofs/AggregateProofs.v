(* C19: the aggregate-shortcut pass, structural half (exactness, totality, completeness).
   All statements are about [agg = agg_with Tables.agg_rules], i.e. about the rule table
   regenerated from aggregate_shortcuts.py. *)
From FA.Base Require Import PyAst Induct Value Traverse.
From FA.Gen Require Import Tables.
From FA.Model Require Import Aggregate.
From FA.Proofs Require Import TraverseFacts.

(* ---------- what the property says, written independently of the table ---------- *)

Definition shortcut_names : list string := ["len"; "Count"; "Sum"; "Max"; "Min"].

Definition acc_v (b : expr) : expr := Lambda ["acc"; "v"] b.

Definition fold_lambda (fn : string) : expr :=
  if String.eqb fn "len" || String.eqb fn "Count" then acc_v (BinOp BAdd (Name "acc") (Const (CInt 1)))
  else if String.eqb fn "Sum" then acc_v (BinOp BAdd (Name "acc") (Name "v"))
  else if String.eqb fn "Max" then acc_v (IfExp (Compare (Name "acc") [CGt] [Name "v"]) (Name "acc") (Name "v"))
  else acc_v (IfExp (Compare (Name "acc") [CLt] [Name "v"]) (Name "acc") (Name "v")).

Definition fold_call (fn : string) (seq : expr) : expr :=
  Call (Name "Aggregate") [seq; Const (CInt 0); fold_lambda fn] [] [].

Definition is_shortcut_name (fn : string) : bool := existsb (String.eqb fn) shortcut_names.

(* a call [fn(seq)] of one of the five names with exactly one positional argument and no keyword *)
Definition is_shortcut_call (e : expr) : bool :=
  match e with
  | Call (Name fn) [_] [] _ => is_shortcut_name fn      (* no keyword names = no keywords *)
  | _ => false
  end.

(* the pass, as a relation: rewrite exactly those calls, congruence on every other node *)
Inductive agg_spec : expr -> expr -> Prop :=
 | AS_rewrite fn a a' kwv :
     is_shortcut_name fn = true -> agg_spec a a' ->
     agg_spec (Call (Name fn) [a] [] kwv) (fold_call fn a')
 | AS_cong e cs' :
     is_shortcut_call e = false -> Forall2 agg_spec (children e) cs' ->
     agg_spec e (rebuild e cs').

Inductive no_shortcut : expr -> Prop :=
 | NS e : is_shortcut_call e = false -> Forall no_shortcut (children e) -> no_shortcut e.

(* ---------- the generated table says the same thing ---------- *)

Lemma find_rule_table fn na nk :
  find_rule agg_rules fn na nk =
  if is_shortcut_name fn && Nat.eqb na 1 && Nat.eqb nk 0
  then find_rule agg_rules fn 1 0 else None.
Proof.
  unfold find_rule, agg_rules, is_shortcut_name, shortcut_names, rule_fires; simpl.
  destruct (String.eqb fn "len"), (String.eqb fn "Count"), (String.eqb fn "Sum"),
    (String.eqb fn "Max"), (String.eqb fn "Min"), (Nat.eqb na 1), (Nat.eqb nk 0); reflexivity.
Qed.

Lemma find_rule_lambda fn :
  is_shortcut_name fn = true ->
  exists r, find_rule agg_rules fn 1 0 = Some r /\ rule_lambda r = fold_lambda fn.
Proof.
  unfold find_rule, agg_rules, is_shortcut_name, shortcut_names, rule_fires, fold_lambda; simpl.
  destruct (String.eqb fn "len") eqn:E1; simpl.
  { intros _; eexists; split; reflexivity. }
  destruct (String.eqb fn "Count") eqn:E2; simpl.
  { intros _; eexists; split; reflexivity. }
  destruct (String.eqb fn "Sum") eqn:E3; simpl.
  { intros _; eexists; split; reflexivity. }
  destruct (String.eqb fn "Max") eqn:E4; simpl.
  { intros _; eexists; split; reflexivity. }
  destruct (String.eqb fn "Min") eqn:E5; simpl.
  { intros _; eexists; split; reflexivity. }
  discriminate.
Qed.

Lemma agg_seed_zero : agg_seed = CInt 0.
Proof. reflexivity. Qed.

Local Arguments find_rule : simpl never.

(* one unfolding step of the pass, in terms of the property's vocabulary *)
Lemma agg_step e :
  agg e =
  match e with
  | Call (Name fn) [a] [] _ =>
      if is_shortcut_name fn then obind (agg a) (fun a' => Some (fold_call fn a'))
      else map_children agg e
  | _ => map_children agg e
  end.
Proof.
  destruct e; try reflexivity.
  destruct e; try reflexivity.
  unfold agg; cbn [agg_with]. rewrite find_rule_table.
  destruct args as [|a [|b args]]; simpl.
  - rewrite andb_false_r; reflexivity.
  - destruct kwn as [|k kwn]; simpl.
    + destruct (is_shortcut_name id) eqn:Hn; simpl; [|reflexivity].
      destruct (find_rule_lambda id Hn) as [r [Hr Hl]]. rewrite Hr.
      unfold aggregate_call, fold_call, function_call. rewrite Hl, agg_seed_zero. reflexivity.
    + rewrite andb_false_r; reflexivity.
  - rewrite andb_false_r; simpl. destruct kwn; reflexivity.
Qed.

Lemma agg_step_other e :
  is_shortcut_call e = false -> agg e = map_children agg e.
Proof.
  intros H. rewrite agg_step.
  destruct e; try reflexivity. destruct e; try reflexivity.
  destruct args as [|a [|b args]]; try reflexivity.
  destruct kwn; try reflexivity. simpl in H. rewrite H. reflexivity.
Qed.

(* ---------- exactness: the pass computes the relation ---------- *)

Theorem agg_sound : forall e e', agg e = Some e' -> agg_spec e e'.
Proof.
  induction e using expr_ind_children. intros e' He.
  destruct (is_shortcut_call e) eqn:Hs.
  - destruct e; try discriminate. destruct e; try discriminate.
    destruct args as [|a [|b args]]; try discriminate.
    destruct kwn; try discriminate. simpl in Hs.
    rewrite agg_step, Hs in He. apply obind_some in He. destruct He as [a' [Ha He]].
    inversion He; subst. constructor; [assumption|].
    simpl in H. inversion H as [|? ? _ H2]; subst. inversion H2; subst. auto.
  - rewrite agg_step_other in He by assumption.
    apply map_children_rebuild in He. destruct He as [cs' [Hcs ->]].
    apply AS_cong; [assumption|].
    eapply omap_Forall2; [|eassumption]. exact H.
Qed.

Theorem agg_total : forall e, exists e', agg e = Some e'.
Proof.
  induction e using expr_ind_children.
  destruct (is_shortcut_call e) eqn:Hs.
  - destruct e; try discriminate. destruct e; try discriminate.
    destruct args as [|a [|b args]]; try discriminate.
    destruct kwn; try discriminate. simpl in Hs.
    rewrite agg_step, Hs. simpl in H. inversion H as [|? ? _ H2]; subst. inversion H2 as [|? ? [a' Ha] _]; subst.
    rewrite Ha. eexists; reflexivity.
  - rewrite agg_step_other by assumption. apply map_children_total. exact H.
Qed.

Theorem agg_spec_complete : forall e e', agg_spec e e' -> agg e = Some e'.
Proof.
  induction e using expr_ind_children. intros e' Hs. inversion Hs; subst.
  - rewrite agg_step. match goal with Hn : is_shortcut_name _ = true |- _ => rewrite Hn end.
    simpl in H. inversion H as [|? ? _ H2]; subst. inversion H2 as [|? ? IHa _]; subst.
    rewrite (IHa _ ltac:(eassumption)). reflexivity.
  - rewrite agg_step_other by assumption. apply map_children_of_omap.
    apply omap_of_Forall2.
    eapply Forall_Forall2_impl; [|eassumption]. exact H.
Qed.

Theorem agg_exact : forall e e', agg e = Some e' <-> agg_spec e e'.
Proof. split; [apply agg_sound | apply agg_spec_complete]. Qed.

(* ---------- completeness: no shortcut call survives ---------- *)

Lemma fold_lambda_no_shortcut fn : no_shortcut (fold_lambda fn).
Proof.
  unfold fold_lambda, acc_v.
  destruct (String.eqb fn "len" || String.eqb fn "Count");
    [|destruct (String.eqb fn "Sum"); [|destruct (String.eqb fn "Max")]];
    repeat (constructor; simpl; try reflexivity).
Qed.

Lemma rebuild_name e cs fn : rebuild e cs = Name fn -> e = Name fn.
Proof.
  destruct e; simpl; intros H; try discriminate; try assumption;
    destruct cs as [|? [|? [|? [|? ?]]]]; discriminate.
Qed.

Lemma agg_spec_name e fn : agg_spec e (Name fn) -> e = Name fn.
Proof.
  intros H. remember (Name fn) as t eqn:Ht. destruct H as [? ? ? ? ? ?| e0 cs' Hs HF]; [discriminate|].
  apply rebuild_name in Ht. subst e0. reflexivity.
Qed.

Lemma agg_spec_name_l fn e' : agg_spec (Name fn) e' -> e' = Name fn.
Proof. intros H. inversion H; subst. reflexivity. Qed.

Lemma is_shortcut_call_rebuild e cs' :
  Forall2 agg_spec (children e) cs' -> is_shortcut_call (rebuild e cs') = is_shortcut_call e.
Proof.
  intros HF. destruct e;
    try (simpl; destruct cs' as [|? [|? [|? [|? ?]]]]; reflexivity).
  cbn [children] in HF.
  inversion HF as [|f f' l r Hf Hr]; subst. cbn [rebuild].
  apply Forall2_app_inv_l in Hr. destruct Hr as (ra & rk & Ha & Hk & ->).
  pose proof (Forall2_length' _ _ _ Ha) as HLa.
  rewrite firstn_app_len, skipn_app_len by (symmetry; assumption).
  destruct e.
  2-19: destruct f'; try reflexivity; apply agg_spec_name in Hf; discriminate.
  apply agg_spec_name_l in Hf; subst.
  destruct args as [|a [|b args]], ra as [|a' [|b' ra]]; simpl in HLa; try discriminate; reflexivity.
Qed.

Theorem agg_complete : forall e e', agg e = Some e' -> no_shortcut e'.
Proof.
  intros e e' H. apply agg_sound in H.
  revert e' H. induction e using expr_ind_children. intros e' Hs. inversion Hs; subst.
  - constructor; [reflexivity|]. simpl.
    simpl in H. inversion H as [|? ? _ H2]; subst. inversion H2 as [|? ? IHa _]; subst.
    assert (Hleaf : forall e, children e = [] -> is_shortcut_call e = false -> no_shortcut e).
    { intros e Hc Hn. constructor; [assumption|]. rewrite Hc. constructor. }
    constructor; [apply Hleaf; reflexivity|].
    constructor; [apply IHa; assumption|].
    constructor; [apply Hleaf; reflexivity|].
    constructor; [apply fold_lambda_no_shortcut|constructor].
  - assert (HF : Forall no_shortcut cs').
    { match goal with HF2 : Forall2 agg_spec _ _ |- _ => revert HF2 end.
      clear - H. revert cs'. induction H as [|c cs IHc _ IH]; intros cs' HF2; inversion HF2; subst; constructor; auto. }
    constructor.
    + rewrite is_shortcut_call_rebuild by assumption. assumption.
    + rewrite children_rebuild; [assumption|]. eapply Forall2_length'; eassumption.
Qed.
